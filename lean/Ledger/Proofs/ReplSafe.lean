import Ledger.Proofs.ReplClean

/-! Safety invariant `Inv` of the replication model: preserved by every step in the
configurations `Good c` (candidate fix, or no `ResetPipeline`). -/
namespace Ledger.Repl

theorem Chain.covers {bs : List (Nat × Nat)} {hw k : Nat} (h : Chain bs hw) (h1 : 1 ≤ k) (h2 : k ≤ hw) :
    ∃ b ∈ bs, b.1 < k ∧ k ≤ b.2 := by
  induction h with
  | nil => omega
  | @cons bs hw lo hi _ hlo hlt ih =>
    by_cases hk : k ≤ hw
    · obtain ⟨b, hb, hb'⟩ := ih hk
      exact ⟨b, List.mem_cons_of_mem _ hb, hb'⟩
    · exact ⟨(lo, hi), List.mem_cons_self, by simp; omega, by simp; omega⟩

theorem inv_init {c : Cfg} : Inv c State.init := by
  constructor <;> simp [State.init, AckedUpTo]
  · omega
  · intro _; exact Chain.nil

/-- `Inv` with another handler. -/
theorem inv_setHandler {c : Cfg} {s : State} {h : Handler} (i : Inv c s) (hl : h.last ≤ s.ackHW)
    (he : ExpOk c h) : Inv c { s with handler := some h } := by
  refine ⟨i.syncOrph, i.noResetPending, i.persisted_le, i.cur_le, i.orph_le, ?_, i.ack_le, i.deliv_le,
    i.ackedPre, ?_, i.chain⟩
  · intro h' e; simp at e; subst e; exact hl
  · intro h' e; simp at e; subst e; exact he

theorem inv_noHandler {c : Cfg} {s : State} (i : Inv c s) : Inv c { s with handler := none } := by
  refine ⟨i.syncOrph, i.noResetPending, i.persisted_le, i.cur_le, i.orph_le, ?_, i.ack_le, i.deliv_le,
    i.ackedPre, ?_, i.chain⟩ <;> (intro h' e; simp at e)

theorem inv_finishOp {c : Cfg} {s : State} (g : Good c) (i : Inv c s) (_hh : s.handler = none)
    (hc : s.cur = none) : Inv c (finishOp s) := by
  unfold finishOp
  split
  · exact i
  · exact ⟨i.syncOrph, by simp, i.persisted_le, i.cur_le, i.orph_le, i.last_le, i.ack_le, i.deliv_le,
      i.ackedPre, i.expOk, i.chain⟩
  · rename_i hp
    have hs : c.sync = true := by
      cases g with
      | inl h => exact h
      | inr h => exact absurd hp (i.noResetPending h)
    have ho := i.syncOrph hs
    refine ⟨fun _ => ho, by simp [startHandler, resetRow], by simp [startHandler, resetRow], ?_, ?_, ?_,
      by simp [startHandler, resetRow], by simp [startHandler, resetRow], ?_, ?_, ?_⟩
    · intro v e; simp [startHandler, resetRow, hc] at e
    · intro v e; simp [startHandler, resetRow, ho] at e
    · intro h e; simp [startHandler, resetRow] at e; subst e; simp
    · intro k h1 h2; simp [startHandler, resetRow] at h2; omega
    · intro h e; simp [startHandler, resetRow] at e; subst e; simp [ExpOk]
    · intro _; exact Chain.nil
  · exact ⟨i.syncOrph, by simp, i.persisted_le, i.cur_le, i.orph_le, i.last_le, i.ack_le, i.deliv_le,
      i.ackedPre, i.expOk, i.chain⟩

theorem inv_exit {c : Cfg} {s : State} (g : Good c) (i : Inv c s) : Inv c (exitHandler c s) := by
  have i0 := inv_noHandler i
  unfold exitHandler
  split
  · exact inv_finishOp g i0 rfl (by assumption)
  · rename_i v hcur
    have hv := i.cur_le v hcur
    split
    · apply inv_finishOp g _ rfl rfl
      refine ⟨i0.syncOrph, i0.noResetPending, ?_, by simp, i0.orph_le, i0.last_le, i0.ack_le, i0.deliv_le,
        i0.ackedPre, i0.expOk, i0.chain⟩
      have := i.persisted_le
      simp only []
      split <;> assumption
    · rename_i hns
      apply inv_finishOp g _ rfl rfl
      refine ⟨fun h => absurd h hns, i0.noResetPending, i0.persisted_le, by simp, ?_, i0.last_le, i0.ack_le,
        i0.deliv_le, i0.ackedPre, i0.expOk, i0.chain⟩
      intro w hw
      simp only [List.mem_append, List.mem_singleton] at hw
      rcases hw with hw | hw
      · exact i.orph_le w hw
      · subst hw; exact hv

theorem inv_atSelect {c : Cfg} {s : State} {h : Handler} {next : Pc} (g : Good c) (i : Inv c s)
    (hl : h.last ≤ s.ackHW) (he : ExpOk c { h with pc := next }) : Inv c (atSelect c s h next) := by
  unfold atSelect
  split
  · exact inv_exit g i
  · exact inv_setHandler i hl he

theorem inv_afterSend {c : Cfg} {s : State} {h : Handler} {more coin : Bool} (g : Good c) (i : Inv c s)
    (hl : h.last ≤ s.ackHW) : Inv c (afterSend c s h more coin) := by
  unfold afterSend
  split
  · split
    · exact inv_exit g i
    · exact inv_setHandler i hl (by simp [ExpOk])
  · exact inv_atSelect g i hl (by simp [ExpOk])

theorem inv_setPending {c : Cfg} {s : State} {op : Op} (i : Inv c s)
    (hop : c.allowReset = false → op ≠ .reset) : Inv c { s with pending := some op } :=
  ⟨i.syncOrph, fun h => by simpa using hop h, i.persisted_le, i.cur_le, i.orph_le, i.last_le, i.ack_le,
    i.deliv_le, i.ackedPre, i.expOk, i.chain⟩

theorem inv_requestStop {c : Cfg} {s : State} {h : Handler} {op : Op} (g : Good c) (i : Inv c s)
    (hh : s.handler = some h) (hop : c.allowReset = false → op ≠ .reset) :
    Inv c (requestStop c { s with pending := some op } h) := by
  have i1 := inv_setPending i hop
  have hl := i.last_le h hh
  have he := i.expOk h hh
  unfold requestStop
  split
  · rename_i hpc; exact inv_setHandler i1 hl (by simp [ExpOk, hpc])
  · rename_i hpc; exact inv_setHandler i1 hl (by simp [ExpOk, hpc])
  · exact inv_exit g i1

theorem inv_startHandler {c : Cfg} {s : State} {last : Nat} (i : Inv c s) (hl : last ≤ s.ackHW) :
    Inv c (startHandler s last) := by
  have := inv_setHandler (h := { pc := .atFetch, last := last, stopReq := false, zero := true }) i hl
    (by simp [ExpOk])
  exact ⟨this.syncOrph, this.noResetPending, this.persisted_le, this.cur_le, this.orph_le, this.last_le,
    this.ack_le, this.deliv_le, this.ackedPre, this.expOk, this.chain⟩

theorem inv_write {c : Cfg} {s : State} {ok : Bool} {v : Nat} (i : Inv c s) (hv : v ≤ s.ackHW) :
    Inv c (write ok v s) := by
  unfold write
  split
  · exact ⟨i.syncOrph, i.noResetPending, hv, i.cur_le, i.orph_le, i.last_le, i.ack_le, i.deliv_le,
      i.ackedPre, i.expOk, i.chain⟩
  · exact i

theorem inv_setCur {c : Cfg} {s : State} {v : Nat} (i : Inv c s) (hv : v ≤ s.ackHW) :
    Inv c { s with cur := some v } :=
  ⟨i.syncOrph, i.noResetPending, i.persisted_le, fun w e => by simp at e; subst e; exact hv, i.orph_le,
    i.last_le, i.ack_le, i.deliv_le, i.ackedPre, i.expOk, i.chain⟩

theorem inv_clearCur {c : Cfg} {s : State} (i : Inv c s) : Inv c { s with cur := none } :=
  ⟨i.syncOrph, i.noResetPending, i.persisted_le, fun w e => by simp at e, i.orph_le,
    i.last_le, i.ack_le, i.deliv_le, i.ackedPre, i.expOk, i.chain⟩

theorem inv_deliver {c : Cfg} {s : State} {lo hi : Nat} (i : Inv c s) (h1 : SingleChunk c → lo ≤ s.delivHW)
    (h2 : lo < hi) (h3 : hi ≤ s.nLogs) : Inv c (deliver s lo hi) := by
  refine ⟨i.syncOrph, i.noResetPending, i.persisted_le, i.cur_le, i.orph_le, i.last_le, ?_, ?_, i.ackedPre,
    i.expOk, fun sc => Chain.cons (i.chain sc) (h1 sc) h2⟩
  · have := i.ack_le; simp only [deliver]; omega
  · have := i.deliv_le; simp only [deliver]; omega

theorem inv_ackItems {c : Cfg} {s : State} (i : Inv c s) (ids : List Nat) : Inv c (ackItems s ids) := by
  refine ⟨i.syncOrph, i.noResetPending, i.persisted_le, i.cur_le, i.orph_le, i.last_le, i.ack_le, i.deliv_le,
    ?_, ?_, i.chain⟩
  · intro k h1 h2; exact List.mem_append_right _ (i.ackedPre k h1 h2)
  · exact i.expOk

theorem inv_ack {c : Cfg} {s : State} {hi : Nat} (i : Inv c s) (h : hi ≤ s.delivHW) (ha : AckedUpTo s hi) :
    Inv c (ack s hi) := by
  refine ⟨i.syncOrph, i.noResetPending, ?_, ?_, ?_, ?_, ?_, i.deliv_le, ?_, i.expOk, i.chain⟩
  · have := i.persisted_le; simp only [ack]; omega
  · intro v hv; have := i.cur_le v hv; simp only [ack]; omega
  · intro v hv; have := i.orph_le v hv; simp only [ack]; omega
  · intro h' hh; have := i.last_le h' hh; simp only [ack]; omega
  · have := i.ack_le; simp only [ack]; omega
  · intro k h1 h2
    simp only [ack] at h2
    by_cases hk : k ≤ s.ackHW
    · exact i.ackedPre k h1 hk
    · exact ha k h1 (by omega)

theorem inv_exporterCall {c : Cfg} {s : State} {a b : Nat} (r : AcceptRes) (i : Inv c s)
    (h1 : SingleChunk c → a ≤ s.delivHW) (h2 : a < b) (h3 : b ≤ s.nLogs) : Inv c (exporterCall s a b r) := by
  cases r with
  | ok => exact inv_ackItems (inv_deliver i h1 h2 h3) _
  | fail => exact i
  | lost => exact inv_deliver i h1 h2 h3
  | reject off => exact inv_ackItems (inv_deliver i h1 h2 h3) _

theorem inv_exportDone {c : Cfg} {s : State} {h : Handler} {hi : Nat} {more : Bool} (g : Good c) (i : Inv c s)
    (hd : hi ≤ s.delivHW) (ha : AckedUpTo s hi) : Inv c (exportDone c s h hi more) := by
  have i1 := inv_ack i hd ha
  have hle : hi ≤ (ack s hi).ackHW := by simp only [ack]; omega
  unfold exportDone
  split
  · exact inv_afterSend g (inv_setCur i1 hle) hle
  · exact inv_setHandler i1 hle (by simp [ExpOk])


theorem singleChunk_end {c : Cfg} {lo hi : Nat} (sc : SingleChunk c) (h : hi ≤ lo + c.ps) :
    chunkEnd c lo hi = hi := by
  unfold chunkEnd
  split
  · rfl
  · rcases sc with h0 | h0
    · contradiction
    · omega

theorem inv_step {c : Cfg} {s s' : State} {l : Label} (g : Good c) (w : WF s) (cl : Clean s) (i : Inv c s)
    (hs : step c s l = some s') : Inv c s' := by
  cases l with
  | append n =>
    simp only [step, Option.some.injEq] at hs
    subst hs
    exact ⟨i.syncOrph, i.noResetPending, i.persisted_le, i.cur_le, i.orph_le, i.last_le, i.ack_le,
      by have := i.deliv_le; simp only []; omega, i.ackedPre, i.expOk, i.chain⟩
  | create =>
    simp only [step] at hs
    split at hs
    case isFalse => simp at hs
    case isTrue hg =>
      simp at hs; subst hs
      apply inv_startHandler _ (Nat.zero_le _)
      exact ⟨i.syncOrph, i.noResetPending, Nat.zero_le _, i.cur_le, i.orph_le, i.last_le, i.ack_le,
        i.deliv_le, i.ackedPre, i.expOk, i.chain⟩
  | start =>
    simp only [step] at hs
    split at hs
    case isFalse => simp at hs
    case isTrue hg =>
      split at hs
      · simp at hs; subst hs; exact i
      · split at hs <;> simp at hs <;> subst hs
        · exact i
        · exact inv_startHandler i i.persisted_le
  | stop =>
    simp only [step] at hs
    split at hs
    case isFalse => simp at hs
    case isTrue hg =>
      split at hs <;> simp at hs <;> subst hs
      · exact i
      · rename_i h hh
        exact inv_requestStop g i hh (by simp)
  | reset =>
    simp only [step] at hs
    split at hs
    case isFalse => simp at hs
    case isTrue hg =>
      simp at hg
      have hs1 : c.sync = true := by
        cases g with
        | inl h => exact h
        | inr h => simp [h] at hg
      split at hs
      · simp at hs; subst hs; exact i
      · split at hs <;> simp at hs <;> subst hs
        · rename_i hn
          have hc := w.curNone hn
          have ho := i.syncOrph hs1
          refine ⟨fun _ => ho, i.noResetPending, by simp [resetRow], ?_, ?_, ?_, by simp [resetRow],
            by simp [resetRow], ?_, ?_, fun _ => Chain.nil⟩
          · intro v e; simp [resetRow, hc] at e
          · intro v e; simp [resetRow, ho] at e
          · intro h e; simp [resetRow, hn] at e
          · intro k h1 h2; simp [resetRow] at h2; omega
          · intro h e; simp [resetRow, hn] at e
        · rename_i h hh
          exact inv_requestStop g i hh (by simp [hg.2])
  | sync =>
    simp only [step] at hs
    split at hs
    case isFalse => simp at hs
    case isTrue hg =>
      split at hs <;> simp at hs <;> subst hs
      · exact inv_startHandler i i.persisted_le
      · exact i
  | mgrStop =>
    simp only [step] at hs
    split at hs
    case isFalse => simp at hs
    case isTrue hg =>
      split at hs <;> simp at hs <;> subst hs
      · exact ⟨i.syncOrph, i.noResetPending, i.persisted_le, i.cur_le, i.orph_le, i.last_le, i.ack_le,
          i.deliv_le, i.ackedPre, i.expOk, i.chain⟩
      · rename_i h hh
        exact inv_requestStop g i hh (by simp)
  | mgrStart =>
    simp only [step] at hs
    split at hs
    case isFalse => simp at hs
    case isTrue hg =>
      have i1 : Inv c { s with mgrUp := true } :=
        ⟨i.syncOrph, i.noResetPending, i.persisted_le, i.cur_le, i.orph_le, i.last_le, i.ack_le,
          i.deliv_le, i.ackedPre, i.expOk, i.chain⟩
      split at hs <;> simp at hs <;> subst hs
      · exact inv_startHandler i1 i.persisted_le
      · exact i1
  | fetch ok =>
    simp only [step] at hs
    split at hs
    · simp at hs
    · rename_i h hh
      have hl := i.last_le h hh
      split at hs
      · split at hs
        · split at hs <;> simp at hs <;> subst hs
          · exact inv_atSelect g i hl (by
              simp only [ExpOk, enterExport]
              exact ⟨by omega, fun _ => trivial⟩)
          · exact inv_atSelect g i hl (by simp [ExpOk])
        · simp at hs; subst hs; exact inv_atSelect g i hl (by simp [ExpOk])
      · simp at hs
  | accept r =>
    simp only [step] at hs
    split at hs
    · simp at hs
    · rename_i h hh
      have hl := i.last_le h hh
      split at hs
      · rename_i lo hi more pos bad hpc
        have hok := w.pcOk h hh
        simp only [PcOk, hpc] at hok
        have he := i.expOk h hh
        simp only [ExpOk, hpc] at he
        obtain ⟨hlo, hlt, hle, hlp, hph⟩ := hok
        obtain ⟨hps, hsc⟩ := he
        have hacked : bad = false → ∀ k, lo < k → k ≤ pos → k ∈ s.acked := by
          intro hb0 k h1 h2
          exact cl h lo hi more pos true hh (by rw [hpc, hb0]) k h1 h2
        have hb := chunkEnd_bounds (c := c) hph
        have f := exporterCall_fields s pos (chunkEnd c pos hi) r
        have hda := i.ack_le
        have i1 : Inv c (exporterCall s pos (chunkEnd c pos hi) r) :=
          inv_exporterCall r i (fun sc => by have := hsc sc; omega) hb.1 (by omega)
        have hl1 : h.last ≤ (exporterCall s pos (chunkEnd c pos hi) r).ackHW := by rw [f.2.2.2.2.2.2.2.2.1]; exact hl
        split at hs
        · rename_i hcont
          simp at hs; subst hs
          refine inv_setHandler i1 hl1 ?_
          simp only [ExpOk]
          refine ⟨hps, ?_⟩
          · intro sc
            have := hsc sc
            subst this
            have := singleChunk_end sc hps
            omega
        · split at hs
          · simp at hs; subst hs
            exact inv_atSelect g i1 hl1 (by simp [ExpOk]; exact hps)
          · rename_i hnb
            simp at hs; subst hs
            simp at hnb
            obtain ⟨hb0, hr⟩ := hnb
            have hend : chunkEnd c pos hi = hi := by omega
            cases r <;> simp [AcceptRes.isOk] at hr
            rw [hend] at i1 ⊢
            apply inv_exportDone g i1
            · simp [exporterCall, ackItems, deliver]; omega
            · intro k hk1 hk2
              simp only [exporterCall, ackItems]
              by_cases hk : k ≤ lo
              · exact List.mem_append_right _ (i.ackedPre k hk1 (by omega))
              · by_cases hkp : k ≤ pos
                · exact List.mem_append_right _ (hacked hb0 k (by omega) hkp)
                · exact List.mem_append_left _ (mem_idsOf.mpr ⟨by omega, hk2⟩)
      · simp at hs
  | persist k ok coin =>
    simp only [step] at hs
    split at hs
    · simp at hs; subst hs
      rename_i hk
      apply inv_write
      · refine ⟨?_, i.noResetPending, i.persisted_le, i.cur_le, ?_, i.last_le, i.ack_le, i.deliv_le,
          i.ackedPre, i.expOk, i.chain⟩
        · intro hsy; have := i.syncOrph hsy; simp [this]
        · intro v hv; exact i.orph_le v (List.mem_of_mem_eraseIdx hv)
      · exact i.orph_le _ (List.getElem_mem hk)
    · split at hs
      · split at hs
        · simp at hs
        · rename_i v hcur
          have hv := i.cur_le v hcur
          have i1 : Inv c (write ok v { s with cur := none }) := inv_write (inv_clearCur i) hv
          split at hs
          · simp at hs; subst hs; exact i1
          · rename_i h hh
            have hl := i.last_le h hh
            have ha : (write ok v { s with cur := none }).ackHW = s.ackHW := by
              unfold write; split <;> rfl
            split at hs
            · simp at hs; subst hs
              exact inv_afterSend g (inv_setCur i1 (by omega)) (by simp [ha]; exact hl)
            · simp at hs; subst hs; exact i1
      · simp at hs
  | tick =>
    simp only [step] at hs
    split at hs
    · simp at hs; subst hs; exact i
    · rename_i h hh
      have hl := i.last_le h hh
      have he := i.expOk h hh
      split at hs <;> simp at hs <;> subst hs
      · exact inv_setHandler i hl (by simp [ExpOk])
      · exact inv_setHandler i hl (by split <;> simp [ExpOk])
      · rename_i lo hi more hpc
        simp only [ExpOk, hpc] at he
        exact inv_setHandler i hl (by
          simp only [ExpOk, enterExport]
          exact ⟨he, fun _ => trivial⟩)
      · rename_i lo hi more pos bad hpc
        simp only [ExpOk, hpc] at he
        exact inv_setHandler i hl (by simpa [ExpOk] using he)
      · exact i

theorem inv_reach {c : Cfg} {s : State} (g : Good c) (r : Reach c s) : Inv c s := by
  induction r with
  | init => exact inv_init
  | step l r hs ih => exact inv_step g (wf_reach r) (clean_reach r) ih hs

end Ledger.Repl
