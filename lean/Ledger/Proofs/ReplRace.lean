import Ledger.Proofs.ReplSteps

/-! Consequence of the reset race in the model: a handler restarted from a stale
cursor never delivers the logs at or below it by its own activity. -/
namespace Ledger.Repl

/-- A running, not-stopping pipeline whose cursor and every batch received in the
    current epoch lie at or beyond `m`: ids `≤ m` can no longer be delivered by the
    pipeline's own activity. -/
def StuckBeyond (m : Nat) (s : State) : Prop :=
  (∀ b ∈ s.recv, m ≤ b.1) ∧
    ∃ h, s.handler = some h ∧ m ≤ h.last ∧ h.stopReq = false ∧ PcOk s.nLogs h

theorem stuck_step {c : Cfg} {m : Nat} {s s' : State} {l : Label} (hs : step c s l = some s')
    (hp : l.progress = true) (st : StuckBeyond m s) : StuckBeyond m s' := by
  obtain ⟨hrecv, h, hh, hm, hns, hok⟩ := st
  have hrecv' : ∀ a b, (a, b) ∈ s.recv → m ≤ a := fun a b hab => hrecv (a, b) hab
  cases l with
  | fetch ok =>
    cases ok with
    | false => simp [Label.progress] at hp
    | true =>
      simp [step, hh] at hs
      split at hs
      · split at hs
        · simp [atSelect, hns] at hs; subst hs
          simp [StuckBeyond, PcOk]
          exact ⟨hrecv', hm, by omega⟩
        · simp [atSelect, hns] at hs; subst hs
          simp [StuckBeyond, PcOk]
          exact ⟨hrecv', hm⟩
      · simp at hs
  | accept r =>
    cases r with
    | ok =>
      simp only [step, hh] at hs
      split at hs
      · rename_i lo hi more hpc
        simp only [PcOk, hpc] at hok
        split at hs
        · simp at hs; subst hs
          cases more <;> simp [afterSend, atSelect, hns, deliver, ack, PcOk, StuckBeyond] <;>
            exact ⟨⟨by omega, hrecv'⟩, by omega⟩
        · simp at hs; subst hs
          simp [deliver, ack, PcOk, hns, StuckBeyond]
          exact ⟨⟨by omega, hrecv'⟩, by omega⟩
      · simp at hs
    | fail => simp [Label.progress] at hp
    | lost => simp [Label.progress] at hp
  | persist i ok coin =>
    have hw : ∀ (v : Nat) (t : State), (write ok v t).recv = t.recv ∧ (write ok v t).handler = t.handler ∧
        (write ok v t).nLogs = t.nLogs := by
      intro v t; unfold write; split <;> simp
    simp only [step] at hs
    split at hs
    · simp at hs; subst hs
      exact ⟨by simpa [(hw _ _).1] using hrecv, h, by simp [(hw _ _).2.1, hh], hm, hns,
        by simpa [(hw _ _).2.2] using hok⟩
    · split at hs
      · split at hs
        · simp at hs
        · simp only [hh] at hs
          split at hs
          · simp at hs; subst hs
            rename_i more hpc
            cases more <;> simp [afterSend, atSelect, hns, PcOk, (hw _ _).1, StuckBeyond] <;>
              exact ⟨hrecv', hm⟩
          · simp at hs; subst hs
            exact ⟨by simpa [(hw _ _).1] using hrecv, h, by simp [(hw _ _).2.1], hm, hns,
              by simpa [(hw _ _).2.2] using hok⟩
      · simp at hs
  | tick =>
    simp only [step, hh] at hs
    split at hs <;> simp at hs <;> subst hs
    · exact ⟨hrecv, _, rfl, hm, hns, by simp [PcOk]⟩
    · exact ⟨hrecv, _, rfl, hm, hns, by split <;> simp [PcOk]⟩
    · rename_i lo hi more hpc
      simp only [PcOk, hpc] at hok
      exact ⟨hrecv, _, rfl, hm, hns, by simpa [PcOk] using hok⟩
    · exact ⟨hrecv, h, hh, hm, hns, hok⟩
  | _ => simp [Label.progress] at hp

theorem stuck_steps {c : Cfg} {m : Nat} {s s' : State} (a : Steps c Label.progress s s')
    (st : StuckBeyond m s) : StuckBeyond m s' := by
  obtain ⟨ls, hp, hr⟩ := a
  induction ls generalizing s with
  | nil => simp [run] at hr; subst hr; exact st
  | cons l ls ih =>
    simp only [run] at hr
    cases hs : step c s l with
    | none => simp [hs] at hr
    | some s1 =>
      simp [hs] at hr
      exact ih (stuck_step hs (hp l (by simp)) st) (fun l' hl' => hp l' (by simp [hl'])) hr

theorem stuck_not_delivered {m k : Nat} {s : State} (st : StuckBeyond m s) (hk : k ≤ m) : ¬ Delivered s k := by
  rintro ⟨b, hb, h1, _⟩
  have := st.1 b hb
  omega

theorem stuck_raceState2 : StuckBeyond 2 raceState2 := by
  refine ⟨by simp [raceState2], _, rfl, by simp, rfl, by simp [PcOk]⟩

end Ledger.Repl
