import Ledger.Proofs.ReplSteps

/-! Consequence of the reset race in the model: a handler restarted from a stale
cursor never delivers the logs at or below it by its own activity. -/
namespace Ledger.Repl

/-- A running, not-stopping pipeline whose cursor and every batch received in the
    current epoch lie at or beyond `m`: ids `≤ m` can no longer be delivered by the
    pipeline's own activity. -/
def StuckBeyond (m : Nat) (s : State) : Prop :=
  (∀ b ∈ s.recv, m ≤ b.1) ∧ (∀ k ∈ s.acked, m < k) ∧
    ∃ h, s.handler = some h ∧ m ≤ h.last ∧ h.stopReq = false ∧ PcOk s.nLogs h

theorem stuck_setHandler {m : Nat} {s : State} {h' : Handler} (hr : ∀ b ∈ s.recv, m ≤ b.1)
    (ha : ∀ k ∈ s.acked, m < k) (hm : m ≤ h'.last) (hns : h'.stopReq = false) (hok : PcOk s.nLogs h') :
    StuckBeyond m { s with handler := some h' } := ⟨hr, ha, h', rfl, hm, hns, hok⟩

theorem stuck_exportDone {c : Cfg} {m : Nat} {s1 : State} {h : Handler} {hi : Nat} {more : Bool}
    (hr : ∀ b ∈ s1.recv, m ≤ b.1) (ha : ∀ k ∈ s1.acked, m < k) (hm : m ≤ hi) (hns : h.stopReq = false) :
    StuckBeyond m (exportDone c s1 h hi more) := by
  have hr' : ∀ a b, (a, b) ∈ s1.recv → m ≤ a := fun a b hab => hr (a, b) hab
  unfold exportDone
  split
  · cases more <;> simp [afterSend, atSelect, hns, StuckBeyond, ack, PcOk] <;> exact ⟨hr', ha, hm⟩
  · simp [StuckBeyond, ack, PcOk, hns]; exact ⟨hr', ha, hm⟩

theorem stuck_step {c : Cfg} {m : Nat} {s s' : State} {l : Label} (hs : step c s l = some s')
    (hp : l.progress = true) (st : StuckBeyond m s) : StuckBeyond m s' := by
  obtain ⟨hrecv, hacked, h, hh, hm, hns, hok⟩ := st
  cases l with
  | fetch ok =>
    cases ok with
    | false => simp [Label.progress] at hp
    | true =>
      simp [step, hh] at hs
      split at hs
      · split at hs
        · simp [atSelect, hns] at hs; subst hs
          exact stuck_setHandler hrecv hacked hm (by simp [hns])
            (by simp only [PcOk, enterExport]; exact ⟨trivial, by omega, by omega, by omega, by omega⟩)
        · simp [atSelect, hns] at hs; subst hs
          exact stuck_setHandler hrecv hacked hm (by simp [hns]) (by simp [PcOk])
      · simp at hs
  | accept r =>
    cases r with
    | ok =>
      simp only [step, hh] at hs
      split at hs
      · rename_i lo hi more pos bad hpc
        simp only [PcOk, hpc] at hok
        obtain ⟨hlo, hlt, hle, hlp, hph⟩ := hok
        have hb := chunkEnd_bounds (c := c) hph
        have hr1 : ∀ b ∈ (exporterCall s pos (chunkEnd c pos hi) .ok).recv, m ≤ b.1 := by
          intro b hb'
          simp only [exporterCall, ackItems, deliver] at hb'
          rcases List.mem_cons.mp hb' with e | e
          · subst e; simp; omega
          · exact hrecv b e
        have ha1 : ∀ k ∈ (exporterCall s pos (chunkEnd c pos hi) .ok).acked, m < k := by
          intro k hk
          simp only [exporterCall, ackItems, deliver] at hk
          rcases List.mem_append.mp hk with e | e
          · have := mem_idsOf.mp e; omega
          · exact hacked k e
        have f := exporterCall_fields s pos (chunkEnd c pos hi) .ok
        split at hs
        · simp at hs; subst hs
          exact stuck_setHandler hr1 ha1 hm (by simp [hns]) (by rw [f.1]; simp only [PcOk]; exact ⟨hlo, hlt, hle, by omega, by assumption⟩)
        · split at hs
          · simp [atSelect, hns] at hs; subst hs
            exact stuck_setHandler hr1 ha1 hm (by simp [hns]) (by rw [f.1]; simp only [PcOk]; exact ⟨hlo, hlt, hle⟩)
          · simp at hs; subst hs
            exact stuck_exportDone hr1 ha1 (by omega) hns
      · simp at hs
    | fail => simp [Label.progress] at hp
    | lost => simp [Label.progress] at hp
    | reject off => simp [Label.progress] at hp
  | persist i ok coin =>
    have hw : ∀ (v : Nat) (t : State), (write ok v t).recv = t.recv ∧ (write ok v t).handler = t.handler ∧
        (write ok v t).nLogs = t.nLogs ∧ (write ok v t).acked = t.acked := by
      intro v t; unfold write; split <;> simp
    simp only [step] at hs
    split at hs
    · simp at hs; subst hs
      exact ⟨by simpa [(hw _ _).1] using hrecv, by simpa [(hw _ _).2.2.2] using hacked, h,
        by simp [(hw _ _).2.1, hh], hm, hns, by simpa [(hw _ _).2.2.1] using hok⟩
    · split at hs
      · split at hs
        · simp at hs
        · simp only [hh] at hs
          split at hs
          · simp at hs; subst hs
            rename_i more hpc
            have hr' : ∀ a b, (a, b) ∈ s.recv → m ≤ a := fun a b hab => hrecv (a, b) hab
            cases more <;> simp [afterSend, atSelect, hns, PcOk, (hw _ _).1, (hw _ _).2.2.2, StuckBeyond] <;>
              exact ⟨hr', hacked, hm⟩
          · simp at hs; subst hs
            exact ⟨by simpa [(hw _ _).1] using hrecv, by simpa [(hw _ _).2.2.2] using hacked, h,
              by simp [(hw _ _).2.1], hm, hns, by simpa [(hw _ _).2.2.1] using hok⟩
      · simp at hs
  | tick =>
    simp only [step, hh] at hs
    split at hs <;> simp at hs <;> subst hs
    · exact stuck_setHandler hrecv hacked hm (by simp [hns]) (by simp [PcOk])
    · exact stuck_setHandler hrecv hacked hm (by simp [hns]) (by split <;> simp [PcOk])
    · rename_i lo hi more hpc
      simp only [PcOk, hpc] at hok
      exact stuck_setHandler hrecv hacked hm (by simp [hns])
        (by simp only [PcOk, enterExport]; exact ⟨hok.1, hok.2.1, hok.2.2, by omega, hok.2.1⟩)
    · rename_i lo hi more pos bad hpc
      simp only [PcOk, hpc] at hok
      exact stuck_setHandler hrecv hacked hm (by simp [hns]) (by simpa [PcOk] using hok)
    · exact ⟨hrecv, hacked, h, hh, hm, hns, hok⟩
  | _ => simp [Label.progress] at hp

theorem stuck_steps {c : Cfg} {m : Nat} {s s' : State} (a : Steps c Label.progress s s')
    (st : StuckBeyond m s) : StuckBeyond m s' := by
  obtain ⟨ls, hp, hr⟩ := a
  induction ls generalizing s with
  | nil => simp [run] at hr; subst hr; exact st
  | cons l ls ih =>
    simp only [run] at hr
    cases hs : step c s l with
    | none => simp [hs] at hr
    | some s1 =>
      simp [hs] at hr
      exact ih (stuck_step hs (hp l (by simp)) st) (fun l' hl' => hp l' (by simp [hl'])) hr

theorem stuck_not_delivered {m k : Nat} {s : State} (st : StuckBeyond m s) (hk : k ≤ m) : ¬ Delivered s k := by
  rintro ⟨b, hb, h1, _⟩
  have := st.1 b hb
  omega

theorem stuck_not_acked {m k : Nat} {s : State} (st : StuckBeyond m s) (hk : k ≤ m) : ¬ Acked s k := by
  intro h
  have := st.2.1 k h
  omega

theorem stuck_raceState2 : StuckBeyond 2 raceState2 := by
  refine ⟨by simp [raceState2], by simp [raceState2], _, rfl, by simp, rfl, by simp [PcOk]⟩

end Ledger.Repl
