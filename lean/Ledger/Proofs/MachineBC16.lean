import Ledger.Proofs.MachineBC15

/-! Stage (f), part 16: every statement; `exec (compile s) = sem s` for ALL programs. -/
namespace Ledger.Machine

/-! ### `send` from a source, `send [A *]` -/

theorem stmt_send_gen {ds : Decls} {env : Env} (henv : EnvTyped ds env) {mon : Expr} {s : Source} {dst : Dest}
    (hc : checkStmt ds (.send mon (.src s) dst) = .ok ()) {cs cs' : CS} (hg : Good ds cs)
    (h : cStmt (.send mon (.src s) dst) cs = .ok cs') :
    ∃ seg, Ext cs cs' seg ∧ Good ds cs' ∧ StmtCode env (.send mon (.src s) dst) cs' seg := by
  simp only [checkStmt] at hc
  split at hc
  · cases hc
  · rename_i hm
    have htm := expectTy_inv hm
    split at hc
    · cases hc
    · rename_i hsrc
      have hdst : checkDest ds dst = .ok () := hc
      have hsrc' : ∃ rc, checkSource ds false s = .ok rc := by
        cases hcs : checkSource ds false s with
        | error m => simp [hcs, Except.map] at hsrc
        | ok rc => exact ⟨rc, rfl⟩
      obtain ⟨rc, hcs⟩ := hsrc'
      simp only [cStmt] at h
      split at h
      · cases h
      · rename_i monAddr cs1 hca
        obtain ⟨a, v, hlm⟩ := leftmost_monetary_eval henv htm
        obtain ⟨e0, g1, hav⟩ := cExprAddr_val henv htm hg hca
        have hav := hav _ hlm
        have hla : leftmostAsset env mon = .ok a := by simp [leftmostAsset, hlm]
        try dsimp only at h
        split at h
        · cases h
        · rename_i accs fb cs2 hsrcC
          have hC := AddrVal.stable env monAddr (.monetary a v)
          have hpa : Sim ds env (AddrVal env monAddr (.monetary a v)) (seqA [emitPush monAddr, emitOp OP_ASSET]) T
              (pushK (.asset a)) := by
            refine (Sim.seq hC (sim_emitPush ds env monAddr _) (Sim.single hC (sim_emitOp ds env _ OP_ASSET))).congr ?_
            intro stk st _
            simp [Kl.comp, pushK, opK_ASSET_mon]
          obtain ⟨seg1, e1, g2, hfb, r1⟩ := cSource_gen henv _ hC hpa s false rc cs1 cs2 accs fb hcs g1 hav hsrcC
          obtain ⟨seg2, e2, g3, r2⟩ := (sim_send_tail henv htm fb s.fallback accs monAddr
            (sim_dest_gen henv _ (FbOK.stable env fb s.fallback) dst hdst)).ok cs2 cs' g2 hfb h
          have hext := (e0.trans e1).trans e2
          simp only [List.nil_append] at hext
          refine ⟨seg1 ++ seg2, hext, g3, ?_⟩
          intro R resv hf hr stk st
          rw [runSeg_append, r1 R resv (Final.of_ext e2 hf) hr]
          simp only [srcK, evalStmt, hla]
          cases evalSource Cfg.fixed env a s st.bal with
          | error err => rfl
          | ok p =>
            obtain ⟨F, b1⟩ := p
            simp only
            rw [r2 R resv hf hr _ _ ⟨F, stk, rfl⟩]
            simp only [Kl.comp, Kl.id, exprK_monetary henv htm]
            cases evalMonetary env mon with
            | error err => rfl
            | ok m =>
              simp only [takeK]
              cases takeFromSource env s.fallback F (m.1, m.2) b1 with
              | error err => rfl
              | ok q =>
                obtain ⟨r, b2⟩ := q
                simp only [finishK]
                cases finishSend env dst r { st with bal := b2 } with
                | error err => rfl
                | ok st3 => rfl

theorem stmt_sendAll_gen {ds : Decls} {env : Env} (henv : EnvTyped ds env) {assetE : Expr} {s : Source} {dst : Dest}
    (hc : checkStmt ds (.sendAll assetE (.src s) dst) = .ok ()) {cs cs' : CS} (hg : Good ds cs)
    (h : cStmt (.sendAll assetE (.src s) dst) cs = .ok cs') :
    ∃ seg, Ext cs cs' seg ∧ Good ds cs' ∧ StmtCode env (.sendAll assetE (.src s) dst) cs' seg := by
  simp only [checkStmt] at hc
  split at hc
  · cases hc
  · rename_i hm
    have hta := expectTy_inv hm
    split at hc
    · cases hc
    · rename_i rc hcs
      have hdst : checkDest ds dst = .ok () := hc
      simp only [cStmt] at h
      split at h
      · cases h
      · rename_i assetAddr cs1 hca
        obtain ⟨a, hev⟩ := asset_typed_eval henv assetE hta
        have hlm : assetE.leftmost = assetE := leftmost_self_of_type hta (by simp) (by simp)
        obtain ⟨e0, g1, hav⟩ := cExprAddr_val henv hta hg hca
        have hav := hav (.asset a) (by rw [hlm]; exact hev)
        have hae : evalAssetE env assetE = .ok a := by simp [evalAssetE, hev]
        try dsimp only at h
        split at h
        · cases h
        · rename_i accs fb cs2 hsrcC
          have hC := AddrVal.stable env assetAddr (.asset a)
          obtain ⟨seg1, e1, g2, hfb, r1⟩ := cSource_gen henv _ hC (sim_emitPush ds env assetAddr (.asset a))
            s true rc cs1 cs2 accs fb hcs g1 hav hsrcC
          have hT : Stable (fun _ : CS => True) := Stable.true
          obtain ⟨seg2, e2, g3, r2⟩ := (Sim.cons hT
            ((sim_setNeeded ds env _ hT accs assetAddr).weaken (Q := FundingTop) (fun _ _ => trivial))
            (Sim.single hT (sim_destination _ hT (sim_dest_gen henv _ hT dst hdst)))
            (by intro stk st s1 t1 hp h; simp only [Kl.id] at h; cases h; exact hp)).ok cs2 cs' g2 trivial h
          have hext := (e0.trans e1).trans e2
          simp only [List.nil_append] at hext
          refine ⟨seg1 ++ seg2, hext, g3, ?_⟩
          intro R resv hf hr stk st
          rw [runSeg_append, r1 R resv (Final.of_ext e2 hf) hr]
          simp only [srcK, evalStmt, hae]
          cases evalSource Cfg.fixed env a s st.bal with
          | error err => rfl
          | ok p =>
            obtain ⟨F, b1⟩ := p
            simp only
            rw [r2 R resv hf hr _ _ ⟨F, stk, rfl⟩]
            simp only [Kl.comp, Kl.id, finishK]
            cases finishSend env dst F { st with bal := b1 } with
            | error err => rfl
            | ok st3 => rfl

/-! ### `send` from an allotment of sources -/

/-- `<monetary>; <allotment>; OP_ALLOC`: the allocated amounts, the first on top. -/
def allocInitK (env : Env) (mon : Expr) (ps : List PortionE) : Kl := fun stk st =>
  match evalMonetary env mon with
  | .error e => .error e
  | .ok m =>
    match makeAllotment env ps with
    | .error e => .error e
    | .ok a =>
      match needAmt m.2 with
      | .error e => .error e
      | .ok amt => .ok ((allocate a amt).map (monV m.1) ++ stk, st)

theorem sim_allocInit {ds : Decls} {env : Env} (henv : EnvTyped ds env) (C : CS → Prop) (hC : Stable C)
    {mon : Expr} (htm : typeExpr ds mon = .ok .monetary) (ps : List PortionE) (hps : ∀ p ∈ ps, PortionOK ds p) :
    Sim ds env C (seqA [pushExpr mon, cAllotment ps, emitOp OP_ALLOC]) T (allocInitK env mon ps) := by
  have h := Sim.seq hC (sim_pushExpr henv C htm)
    (Sim.seq hC (sim_allotment henv C hC ps hps) (Sim.single hC (sim_emitOp ds env C OP_ALLOC)))
  refine h.congr ?_
  intro stk st _
  simp only [Kl.comp, exprK_monetary henv htm, allocInitK]
  cases evalMonetary env mon with
  | error e => rfl
  | ok m =>
    simp only [allotK]
    cases makeAllotment env ps with
    | error e => rfl
    | ok a =>
      simp only [opK_ALLOC]
      cases needAmt m.2 with
      | error e => rfl
      | ok amt => rfl

def AsmP (n : Nat) : Stack → Prop := fun stk =>
  ∃ (fs : List Funding) (rest : Stack), stk = fs.reverse.map SVal.funding ++ rest ∧ fs.length = n

theorem stmt_send_allot_gen {ds : Decls} {env : Env} (henv : EnvTyped ds env) {mon : Expr} {items : AllotSrcList}
    {dst : Dest} (hc : checkStmt ds (.send mon (.allot items) dst) = .ok ()) {cs cs' : CS} (hg : Good ds cs)
    (h : cStmt (.send mon (.allot items) dst) cs = .ok cs') :
    ∃ seg, Ext cs cs' seg ∧ Good ds cs' ∧ StmtCode env (.send mon (.allot items) dst) cs' seg := by
  simp only [checkStmt] at hc
  split at hc
  · cases hc
  · rename_i hm
    have htm := expectTy_inv hm
    split at hc
    · cases hc
    · rename_i hsrc
      have hdst : checkDest ds dst = .ok () := hc
      have hsrc2 : checkAllotment ds items.portions = .ok () ∧ checkAllotSources ds items = .ok () := by
        split at hsrc
        · cases hsrc
        · rename_i hal; exact ⟨hal, hsrc⟩
      obtain ⟨hal, hsrcs⟩ := hsrc2
      simp only [cStmt] at h
      split at h
      · cases h
      · rename_i monAddr cs1 hca
        obtain ⟨a, v, hlm⟩ := leftmost_monetary_eval henv htm
        obtain ⟨e0, g1, hav⟩ := cExprAddr_val henv htm hg hca
        have hav := hav _ hlm
        have hla : leftmostAsset env mon = .ok a := by simp [leftmostAsset, hlm]
        try dsimp only at h
        have hC := AddrVal.stable env monAddr (.monetary a v)
        have hpa : Sim ds env (AddrVal env monAddr (.monetary a v)) (seqA [emitPush monAddr, emitOp OP_ASSET]) T
            (pushK (.asset a)) := by
          refine (Sim.seq hC (sim_emitPush ds env monAddr _) (Sim.single hC (sim_emitOp ds env _ OP_ASSET))).congr ?_
          intro stk st _
          simp [Kl.comp, pushK, opK_ASSET_mon]
        obtain ⟨c, hcm⟩ : ∃ c : String, ∀ m, evalMonetary env mon = .ok m → m.1 = c := by
          cases evalMonetary env mon with
          | error e => exact ⟨"", by intro m hm'; cases hm'⟩
          | ok m => exact ⟨m.1, by intro m' hm'; cases hm'; rfl⟩
        have s1 := sim_allocInit henv _ hC htm items.portions (checkAllotment_ok hal)
        have s2 := sim_allotsrc henv _ hC hpa monAddr c items hsrcs 0
        have s3 := (Sim.seq hC (sim_pushInteger ds env _ items.length)
          (Sim.single hC (sim_emitOp ds env _ OP_FUNDING_ASSEMBLE))).weaken (Q := AsmP items.length)
          (fun _ _ => trivial)
        have s4 := sim_destination _ hC (sim_dest_gen henv _ hC dst hdst)
        have hall := Sim.append hC s1
          (Sim.append hC (Sim.single hC s2)
          (Sim.append hC s3 (Sim.single hC s4)
            (by
              rintro stk st x1 t1 ⟨fs, rest, rfl, hl⟩ hk
              simp only [Kl.comp, pushK, ← hl, opK_ASSEMBLE] at hk
              split at hk
              · cases hk
              · cases hk; exact ⟨_, _, rfl⟩))
            (by
              rintro stk st x1 t1 ⟨rs, ps, rest, rfl, hj, hl⟩ hk
              have hrs : rs = [] := List.length_eq_zero_iff.mp hj
              subst hrs
              simp only [allotsrcK, List.reverse_nil, List.map_nil, List.nil_append, List.drop_zero, List.take_zero,
                ← hl, popMons_all] at hk
              split at hk
              · cases hk
              · rename_i fs b hes
                cases hk
                exact ⟨fs, rest, rfl, evalAllotSrc_length _ _ _ _ _ _ _ _ _ hes⟩))
          (by
            intro stk st x1 t1 _ hk
            simp only [allocInitK] at hk
            split at hk
            · cases hk
            · rename_i m hme
              split at hk
              · cases hk
              · rename_i al hma
                split at hk
                · cases hk
                · rename_i amt _
                  cases hk
                  refine ⟨[], allocate al amt, stk, by simp [hcm m hme], rfl, ?_⟩
                  rw [allocate_length', makeAllotment_length hma, AllotSrcList.portions_length])
        obtain ⟨seg2, e2, g3, r2⟩ := hall.ok cs1 cs' g1 hav h
        have hext := e0.trans e2
        simp only [List.nil_append] at hext
        refine ⟨seg2, hext, g3, ?_⟩
        intro R resv hf hr stk st
        rw [r2 R resv hf hr stk st trivial]
        simp only [Kl.comp, allocInitK, evalStmt]
        cases hme : evalMonetary env mon with
        | error e => rfl
        | ok m =>
          simp only
          cases hma : makeAllotment env items.portions with
          | error e => rfl
          | ok al =>
            simp only
            cases needAmt m.2 with
            | error e => rfl
            | ok amt =>
              have hlen : (allocate al amt).length = items.length := by
                rw [allocate_length', makeAllotment_length hma, AllotSrcList.portions_length]
              simp only [hla, allotsrcK, List.drop_zero, List.take_zero, List.nil_append, ← hlen, popMons_all,
                hcm m hme]
              rw [← hcm m hme]
              cases hes : evalAllotSrc Cfg.fixed env a m.1 items (allocate al amt) st.bal with
              | error e => rfl
              | ok w =>
                obtain ⟨fs, b1⟩ := w
                have hfl := evalAllotSrc_length _ _ _ _ _ _ _ _ _ hes
                simp only [pushK, hlen, ← hfl, opK_ASSEMBLE]
                cases assemble fs with
                | error e => rfl
                | ok f =>
                  simp only [finishK]
                  cases finishSend env dst f { st with bal := b1 } with
                  | error e => rfl
                  | ok st3 => rfl

/-! ### All statements, all programs -/

theorem cStmt_full {ds : Decls} {env : Env} (henv : EnvTyped ds env) (s : Stmt)
    (hc : checkStmt ds s = .ok ()) {cs cs' : CS} (hg : Good ds cs) (h : cStmt s cs = .ok cs') :
    ∃ seg, Ext cs cs' seg ∧ Good ds cs' ∧ StmtCode env s cs' seg := by
  have old : s.covered = true → ∃ seg, Ext cs cs' seg ∧ Good ds cs' ∧ StmtCode env s cs' seg := by
    intro hcv
    obtain ⟨seg, s1, c1⟩ := cStmt_ok henv s hcv hc hg.1 h
    exact ⟨seg, s1.ext, hg.ext s1.ext (cStmt_res s hcv hc hg.1 hg.2 h), c1⟩
  cases s with
  | send mon src dst =>
    cases src with
    | src so => exact stmt_send_gen henv hc hg h
    | allot items => exact stmt_send_allot_gen henv hc hg h
  | sendAll a src dst =>
    cases src with
    | src so => exact stmt_sendAll_gen henv hc hg h
    | allot items => simp [cStmt] at h; split at h <;> cases h
  | print e => exact old rfl
  | fail => exact old rfl
  | setTxMeta k e => exact old rfl
  | setAccountMeta a k e => exact old rfl
  | save m a => exact old rfl
  | saveAll m a => exact old rfl

theorem cStmts_full {ds : Decls} {env : Env} (henv : EnvTyped ds env) :
    (ss : List Stmt) → (∀ s ∈ ss, checkStmt ds s = .ok ()) →
    ∀ cs cs', Good ds cs → cStmts ss cs = .ok cs' →
    ∃ seg, Ext cs cs' seg ∧ Good ds cs' ∧
      ∀ R resv, Final cs' R → Resolved env R resv → ∀ stk st,
        runSeg resv seg stk st =
          match runStmts Cfg.fixed env ss st with
          | .ok st' => .ok (stk, st')
          | .error err => .error err
  | [], _, cs, cs', hg, h => by
    simp only [cStmts] at h; cases h
    exact ⟨[], Ext.refl _, hg, fun R resv _ _ stk st => by simp [runSeg, runStmts]⟩
  | s :: ss, hchk, cs, cs', hg, h => by
    simp only [cStmts] at h
    split at h
    · cases h
    · rename_i cs1 h1
      obtain ⟨sg1, e1, g1, c1⟩ := cStmt_full henv s (hchk s (by simp)) hg h1
      obtain ⟨sg2, e2, g2, c2⟩ := cStmts_full henv ss (fun x hx => hchk x (by simp [hx])) cs1 cs' g1 h
      refine ⟨_, e1.trans e2, g2, ?_⟩
      intro R resv hf hr stk st
      rw [runSeg_append, c1 R resv (Final.of_ext e2 hf) hr stk st]
      simp only [runStmts]
      cases evalStmt Cfg.fixed env s st with
      | error err => rfl
      | ok st1 => exact c2 R resv hf hr stk st1

/-- `exec (compile s) = runStmts s` on the resolved environment, for every program. -/
theorem exec_compile_full {s : Script} {ds : Decls} (htc : typecheck s = .ok ds)
    {p : Program} (hc : compile s = .ok p) {env : Env} (henv : EnvTyped ds env) (bal : Balances) :
    exec p env bal = runStmts Cfg.fixed env s.stmts (initState bal) := by
  have hparts : checkVars s.vars [] = .ok ds ∧ checkStmts ds s.stmts = .ok () := by
    unfold typecheck at htc
    split at htc
    · cases htc
    · split at htc
      · cases htc
      · rename_i hcv _ hcs
        cases htc
        exact ⟨hcv, hcs⟩
  obtain ⟨hcv, hcs⟩ := hparts
  unfold compile at hc
  rw [htc] at hc
  simp only at hc
  split at hc
  · cases hc
  · rename_i cs1 hv1
    split at hc
    · cases hc
    · rename_i stf hst
      cases hc
      have vinv := cVars_ok ds s.vars [] hcv {} cs1
        ⟨(by intro x j h; simp at h), (by intro i r h; simp at h), rfl, rfl⟩ hv1
      obtain ⟨seg, e1, g1, hrun⟩ := cStmts_full henv s.stmts (checkStmts_inv s.stmts hcs) cs1 stf
        ⟨vinv.vars, vinv.res⟩ hst
      obtain ⟨resv, hresv⟩ := resolveRes_exists henv g1.2 stf.res [] (by simp) [] rfl
        (by intro i r hi; simp at hi)
      have hr := resolved_of_resolveRes hresv
      have hcode : stf.code = seg := by rw [e1.code, vinv.code]; simp
      simp only [exec, hresv, hcode]
      rw [execInstrs_eq_runSeg, hrun stf.res resv ⟨[], by simp⟩ hr [] (initState bal)]
      cases runStmts Cfg.fixed env s.stmts (initState bal) with
      | error e => rfl
      | ok st' => simp

/-- Stage (f): for EVERY program that compiles, the byte-code pipeline (`compile`, then
    `exec` on the real opcodes) gives exactly what `sem` gives. -/
theorem semBytecode_eq_sem_full {s : Script} {p : Program} (hc : compile s = .ok p)
    (inp : Input) : semBytecode Cfg.fixed s inp = sem Cfg.fixed s inp := by
  obtain ⟨ds, htc⟩ := compile_typechecks hc
  unfold semBytecode sem
  rw [hc, htc]
  simp only
  cases hp : prepare Cfg.fixed s inp with
  | error e => rfl
  | ok r =>
    obtain ⟨env, bal, pairs⟩ := r
    simp only
    obtain ⟨henv, _⟩ := (prepare_nf htc inp).2 env bal pairs hp
    rw [exec_compile_full htc hc henv bal]
    cases runStmts Cfg.fixed env s.stmts (initState bal) <;> rfl

end Ledger.Machine
