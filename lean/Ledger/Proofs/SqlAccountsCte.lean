import Ledger.Proofs.SqlAccountsExpr
import Ledger.Proofs.SqlSelectRows
import Ledger.Proofs.SqlUpdateFrom
import Ledger.Proofs.SqlTxInsert

/-!
# `UpsertAccounts`: the CTEs `data_batch` and `existing_accounts`
-/
open Ledger Ledger.Sql Ledger.Generated Ledger.Core
open Ledger.Generated.WriteSql.P (AccountRow)
namespace Ledger.Sql

/-- a typed row of `accounts` -/
structure AcR where
  ledger : String
  address : String
  aa : JV
  ins : Int
  upd : Int
  md : JV
  fu : Int

def AcR.vals (a : AcR) : List Value := acVals a.ledger a.address a.aa a.ins a.upd a.md a.fu

/-- a typed row of the `data_batch` CTE, all dates given -/
structure DbR where
  address : String
  md : JV
  fu : Int
  ins : Int
  upd : Int
  aa : JV
  dm : JV
  bi : JV

def DbR.vals (d : DbR) : List Value := dbVals d.address d.md (some d.fu) (some d.ins) (some d.upd) d.aa d.dm d.bi

/-- the literals of a VALUES row of `data_batch` denote the typed row `d` -/
structure DbLit (te : TypeEnv) (r : AccountRow) (d : DbR) : Prop where
  address : r.address = d.address
  md : castTo te tyJsonb (.text r.metadata) = .ok (.json d.md)
  fu : castTo te tyTimestamp (.text r.first_usage) = .ok (.ts d.fu)
  ins : castTo te tyTimestamp (.text r.insertion_date) = .ok (.ts d.ins)
  upd : castTo te tyTimestamp (.text r.updated_at) = .ok (.ts d.upd)
  aa : castTo te tyJsonb (.text r.address_array) = .ok (.json d.aa)
  dm : castTo te tyJsonb (.text r.default_metadata) = .ok (.json d.dm)
  bi : castTo te tyJsonb (.text r.batch_index) = .ok (.json d.bi)

/-- the VALUES row of `data_batch` for one account -/
def dbRowExprs (r : AccountRow) : List Expr :=
  [(Expr.cast (Expr.str r.address) (SqlType.mk "" "varchar" "" false)), (Expr.cast (Expr.str r.metadata) (SqlType.mk "" "jsonb" "" false)),
   (Expr.cast (Expr.str r.first_usage) (SqlType.mk "" "timestamp" "" false)), (Expr.cast (Expr.str r.insertion_date) (SqlType.mk "" "timestamp" "" false)),
   (Expr.cast (Expr.str r.updated_at) (SqlType.mk "" "timestamp" "" false)), (Expr.cast (Expr.str r.address_array) (SqlType.mk "" "jsonb" "" false)),
   (Expr.cast (Expr.str r.default_metadata) (SqlType.mk "" "jsonb" "" false)), (Expr.cast (Expr.str r.batch_index) (SqlType.mk "" "jsonb" "" false))]

theorem exec_dbRow (cb : Callbacks) (env : Env) (r : AccountRow) (d : DbR) (s : St) (h : DbLit s.w.types r d) :
    (evalExprs cb s.w.types env (dbRowExprs r)).exec s = (.ok d.vals, s) := by
  simp only [dbRowExprs, evalExprs, evalExpr, exec_bind, exec_pure, castTo_varchar_text, exec_liftR_ok,
    show castTo s.w.types (SqlType.mk "" "jsonb" "" false) (Value.text r.metadata) = .ok (.json d.md) from h.md,
    show castTo s.w.types (SqlType.mk "" "timestamp" "" false) (Value.text r.first_usage) = .ok (.ts d.fu) from h.fu,
    show castTo s.w.types (SqlType.mk "" "timestamp" "" false) (Value.text r.insertion_date) = .ok (.ts d.ins) from h.ins,
    show castTo s.w.types (SqlType.mk "" "timestamp" "" false) (Value.text r.updated_at) = .ok (.ts d.upd) from h.upd,
    show castTo s.w.types (SqlType.mk "" "jsonb" "" false) (Value.text r.address_array) = .ok (.json d.aa) from h.aa,
    show castTo s.w.types (SqlType.mk "" "jsonb" "" false) (Value.text r.default_metadata) = .ok (.json d.dm) from h.dm,
    show castTo s.w.types (SqlType.mk "" "jsonb" "" false) (Value.text r.batch_index) = .ok (.json d.bi) from h.bi]
  simp [DbR.vals, dbVals, optTs, h.address]

end Ledger.Sql

namespace Ledger.Sql

/-- the statement of the `data_batch` CTE -/
def dataBatchStmt (rows : List AccountRow) : Stmt :=
  Stmt.query (Query.mk [] (SetExpr.values (rows.map dbRowExprs)) [] none none LockMode.none)

theorem exec_dataBatch (n : Nat) (env : Env) (pm : List (AccountRow × DbR)) (s : St) (h : ∀ x ∈ pm, DbLit s.w.types x.1 x.2) :
    ∃ cs, (execStmt (n + 4) env (dataBatchStmt (pm.map (·.1)))).exec s =
        (.ok { rel := { cols := cs, rows := pm.map (fun x => x.2.vals) }, affected := pm.length }, s) ∧
      dbCols ++ cs.drop dbCols.length = dbCols := by
  have hvals : (((pm.map (·.1)).map dbRowExprs).mapM (fun r => evalExprs (cbs (n + 1)) s.w.types env r)).exec s =
      (.ok (pm.map (fun x => x.2.vals)), s) := by
    rw [List.map_map, List.mapM_map]
    apply exec_mapM_pure _ (fun x : AccountRow × DbR => x.2.vals)
    intro x hx
    exact exec_dbRow _ env x.1 x.2 s (h x hx)
  refine ⟨(List.range ((pm.map (fun x => x.2.vals)).headD []).length).map (fun i => s!"column{i + 1}"), ?_, ?_⟩
  · rw [dataBatchStmt, execStmt, evalQuery, evalCtes]
    · simp only [exec_bind, exec_pure, exec_typeEnv]
      rw [evalSetExpr]
      simp only [exec_bind, exec_typeEnv, hvals, exec_pure]
      rw [sortOut]
      · simp [exec_bind, evalOpt, applyLimit, List.map_map, Function.comp]
      · intro h; omega
    · intro h; omega
  · cases pm with
    | nil => rfl
    | cons x xs => rfl

end Ledger.Sql

namespace Ledger.Sql

theorem exec_joinMatches (cb : Callbacks) (te : TypeEnv) (env : Env) (ctx L : List Scope) (on : Option Expr) (s : St) (p : Scope → Bool) :
    ∀ (rs : List Scope), (∀ rsc ∈ rs, (onHolds cb te env (ctx ++ L ++ [rsc]) on).exec s = (.ok (p rsc), s)) →
    (joinMatches cb te env ctx L on rs).exec s = (.ok ((rs.filter p).map (fun rsc => L ++ [rsc])), s) := by
  intro rs h
  unfold joinMatches
  have : ∀ (rs : List Scope) (acc : List (List Scope)), (∀ rsc ∈ rs, (onHolds cb te env (ctx ++ L ++ [rsc]) on).exec s = (.ok (p rsc), s)) →
      (rs.foldlM (fun (matched : List (List Scope)) rsc => do
        let ok ← onHolds cb te env (ctx ++ L ++ [rsc]) on
        pure (if ok then matched ++ [L ++ [rsc]] else matched)) acc).exec s =
      (.ok (acc ++ (rs.filter p).map (fun rsc => L ++ [rsc])), s) := by
    intro rs
    induction rs with
    | nil => intro acc _; simp
    | cons x xs ih =>
      intro acc hx
      simp only [exec_foldlM_cons, exec_bind, hx x (by simp), exec_pure]
      rw [ih _ (fun y hy => hx y (by simp [hy]))]
      cases hp : p x <;> simp [List.filter_cons, hp]
  simpa using this rs [] h

/-- a row of a CTE as a scope -/
def cteScope (alias : String) (cols : List String) (v : List Value) : Scope := { alias := alias, cols := cols, vals := v }

/-- the rows of an inner join -/
def joinRows (as ds : List Scope) (p : Scope → Scope → Bool) : List (List Scope) :=
  as.flatMap (fun a => (ds.filter (p a)).map (fun d => [a, d]))

/-- FROM `<table> [a] JOIN <cte> [d] ON c` (inner join of a base table with a CTE) -/
theorem exec_evalFromList_join_cte (n : Nat) (env : Env) (schema name alias cte dalias full : String) (on : Expr) (t : Table) (rel : Rel)
    (s : St) (hs : TxState s) (hschema : schema.isEmpty = false)
    (hq : (qualify schema name).exec s = (.ok full, s)) (hT : s.w.table? full = some t)
    (hcte : env.ctes.lookup cte = some rel) (p : Scope → Scope → Bool)
    (hon : ∀ a ∈ (t.scan (cv s)).map (rowScopeOf t (if alias.isEmpty then name else alias)),
      ∀ d ∈ rel.rows.map (cteScope (if dalias.isEmpty then cte else dalias) rel.cols),
      (onHolds (cbs (n + 2)) s.w.types env ([] ++ [a] ++ [d]) (some on)).exec s = (.ok (p a d), s)) :
    (evalFromList (n + 4) env [FromItem.join JoinKind.inner (FromItem.table schema name alias) (FromItem.table "" cte dalias) (some on)] [[]]).exec s =
      (.ok (joinRows ((t.scan (cv s)).map (rowScopeOf t (if alias.isEmpty then name else alias)))
        (rel.rows.map (cteScope (if dalias.isEmpty then cte else dalias) rel.cols)) p), s) := by
  rw [evalFromList]
  simp only [FromItem.isLateral, Bool.or_self, Bool.false_eq_true, if_false, exec_bind]
  rw [evalFrom]
  simp only [exec_bind, exec_typeEnv, FromItem.isLateral, Bool.false_eq_true, if_false]
  -- left: the table
  have hleft : (evalFrom (n + 2) env [] (FromItem.table schema name alias)).exec s =
      (.ok (((t.scan (cv s)).map (rowScopeOf t (if alias.isEmpty then name else alias))).map (fun sc => [sc])), s) := by
    rw [evalFrom]
    · simp only [exec_bind]
      rw [evalPrimary]
      simp only [hschema, Bool.false_eq_true, if_false, exec_bind, hq, exec_getTable hT, exec_scanTable s hs, exec_pure]
    · intro kind l r on h; cases h
  have hright : (evalPrimary (n + 2) env [] (FromItem.table "" cte dalias)).exec s =
      (.ok (if dalias.isEmpty then cte else dalias, rel.cols, rel.rows.map (cteScope (if dalias.isEmpty then cte else dalias) rel.cols)), s) := by
    rw [evalPrimary]
    simp only [show ("" : String).isEmpty = true from by decide, if_true, hcte, exec_pure]
    rfl
  simp only [hleft, hright, exec_pure, show (JoinKind.inner == JoinKind.left) = false from rfl, Bool.and_false, Bool.false_eq_true, if_false]
  have hfold : ∀ (as : List Scope) (out : List (List Scope)),
      (∀ a ∈ as, a ∈ (t.scan (cv s)).map (rowScopeOf t (if alias.isEmpty then name else alias))) →
      ((as.map (fun sc => [sc])).foldlM (fun (out : List (List Scope)) L => do
          let x ← (pure (if dalias.isEmpty then cte else dalias, rel.cols,
            rel.rows.map (cteScope (if dalias.isEmpty then cte else dalias) rel.cols)) : M (String × List String × List Scope))
          let matched ← joinMatches (cbs (n + 2)) s.w.types env [] L (some on) x.2.2
          pure (out ++ matched)) out).exec s =
        (.ok (out ++ joinRows as (rel.rows.map (cteScope (if dalias.isEmpty then cte else dalias) rel.cols)) p), s) := by
    intro as
    induction as with
    | nil => intro out _; simp [joinRows]
    | cons a as ih =>
      intro out hmem
      have hjm := exec_joinMatches (cbs (n + 2)) s.w.types env [] [a] (some on) s (p a) _ (fun d hd => hon a (hmem a (by simp)) d hd)
      simp only [List.map_cons, exec_foldlM_cons, exec_bind, exec_pure, hjm]
      rw [ih _ (fun x hx => hmem x (by simp [hx]))]
      simp [joinRows, List.flatMap_cons, List.append_assoc]
  rw [hfold _ [] (fun a ha => ha)]
  simp only [List.nil_append]
  rw [evalFromList]
  · simp
  · intro h; omega

end Ledger.Sql

namespace Ledger.Sql

def acFull (b : String) : String := b ++ "." ++ "accounts"

/-- `accounts` of bucket `b`, with the per-ledger triggers `trigs` -/
def acT (b : String) (trigs : List TriggerDef) (nr : Nat) : Table :=
  { Schema.tbl_accounts with name := acFull b, triggers := trigs, nextRid := nr }

theorem acT_colNames (b : String) (trigs : List TriggerDef) (nr : Nat) : (acT b trigs nr).colNames = acCols := rfl

def AcTyped (rows : List Ver) : Prop := ∀ r ∈ rows, ∃ a : AcR, r.vals = a.vals

/-- the ON condition of `existing_accounts` -/
def existingOn (l : String) : Expr :=
  Expr.binop BinOp.and (Expr.binop BinOp.eq (Expr.col "a" "address") (Expr.col "d" "address"))
    (Expr.binop BinOp.eq (Expr.col "a" "ledger") (Expr.str l))

theorem exec_existingOn (cb : Callbacks) (te : TypeEnv) (env : Env) (l : String) (a : AcR) (d : DbR) (src : Option (String × Nat)) (s : St) :
    (onHolds cb te env ([] ++ [({ alias := "a", cols := acCols, vals := a.vals, src := src } : Scope)] ++ [cteScope "d" dbCols d.vals])
      (some (existingOn l))).exec s = (.ok (decide (a.address = d.address) && decide (a.ledger = l)), s) := by
  have a1 := lookup_a env a.vals d.vals src "address" (.text a.address) rfl
  have a2 := lookup_a env a.vals d.vals src "ledger" (.text a.ledger) rfl
  have d1 := lookup_d env a.vals d.vals src "address" (.text d.address) rfl
  simp only [upEnv] at a1 a2 d1
  simp only [onHolds, existingOn, List.nil_append, List.cons_append, cteScope, evalExpr, exec_bind, a1, a2, d1, exec_liftR_ok,
    evalBinop_eq_text, truth_bool, exec_pure]
  by_cases h1 : a.address = d.address <;> by_cases h2 : a.ledger = l <;> simp [h1, h2, and3, ofTruth, truth_bool, exec_bind, evalBinop_eq_text]

end Ledger.Sql

namespace Ledger.Sql

def acDec : List Value → Option AcR
  | [.text l, .text addr, .json aa, .ts ins, .ts upd, .json md, .ts fu] =>
    some { ledger := l, address := addr, aa := aa, ins := ins, upd := upd, md := md, fu := fu }
  | _ => none

theorem acDec_vals (a : AcR) : acDec a.vals = some a := by
  cases a; rfl

def dbDec : List Value → Option DbR
  | [.text addr, .json md, .ts fu, .ts ins, .ts upd, .json aa, .json dm, .json bi] =>
    some { address := addr, md := md, fu := fu, ins := ins, upd := upd, aa := aa, dm := dm, bi := bi }
  | _ => none

theorem dbDec_vals (d : DbR) : dbDec d.vals = some d := by
  cases d; rfl

theorem AcR.vals_inj (a a' : AcR) (h : a.vals = a'.vals) : a = a' := by
  have := congrArg acDec h
  simpa [acDec_vals] using this

/-- does the account row join with the batch row (same address, this ledger)? -/
def joinAD (l : String) (a d : Scope) : Bool :=
  match acDec a.vals, dbDec d.vals with
  | some a, some d => decide (a.address = d.address) && decide (a.ledger = l)
  | _, _ => false

def existingStmt (b l : String) : Stmt :=
  Stmt.query (Query.mk [] (SetExpr.select (Select.mk false [] [SelItem.expr (Expr.col "a" "address") ""]
    [FromItem.join JoinKind.inner (FromItem.table b "accounts" "a") (FromItem.table "" "data_batch" "d") (some (existingOn l))] none [] none))
    [] none none LockMode.none)

/-- the batch as the CTE relation -/
def dbRel (ds : List DbR) : Rel := { cols := dbCols, rows := ds.map (·.vals) }

/-- the addresses `existing_accounts` returns -/
def existingRows (b l : String) (trigs : List TriggerDef) (nr : Nat) (rows : List Ver) (v : View) (ds : List DbR) : List (List Value) :=
  (joinRows ((((acT b trigs nr).withRows rows).scan v).map (rowScopeOf ((acT b trigs nr).withRows rows) "a"))
      ((dbRel ds).rows.map (cteScope "d" dbCols)) (joinAD l)).map
    (fun L => match L with
      | a :: _ => [(lookupIn a.cols a.vals "address").getD .null]
      | [] => [])

theorem exec_existing (n : Nat) (env : Env) (b l : String) (hb : b.isEmpty = false) (trigs : List TriggerDef) (nr : Nat) (rows : List Ver)
    (ds : List DbR) (s : St) (hs : TxState s) (hT : s.w.table? (acFull b) = some ((acT b trigs nr).withRows rows))
    (htyped : AcTyped rows) (hcte : env.ctes.lookup "data_batch" = some (dbRel ds)) :
    (execStmt (n + 8) env (existingStmt b l)).exec s =
      (.ok { rel := { cols := ["address"], rows := existingRows b l trigs nr rows (cv s) ds },
             affected := (existingRows b l trigs nr rows (cv s) ds).length }, s) := by
  have hq : (qualify b "accounts").exec s = (.ok (acFull b), s) := by simp [qualify, hb, acFull]
  have hfrom := exec_evalFromList_join_cte n env b "accounts" "a" "data_batch" "d" (acFull b) (existingOn l) _ (dbRel ds) s hs hb hq hT hcte
    (joinAD l) (by
      intro a ha d hd
      obtain ⟨r, hr, rfl⟩ := List.mem_map.mp ha
      obtain ⟨v, hv, rfl⟩ := List.mem_map.mp hd
      obtain ⟨d0, _, rfl⟩ := List.mem_map.mp hv
      have hrm : r ∈ rows := by
        have : r ∈ ((acT b trigs nr).withRows rows).scan (cv s) := hr
        rw [scan_eq] at this
        exact (List.mem_filter.mp (List.mem_reverse.mp this)).1
      obtain ⟨a0, ha0⟩ := htyped r hrm
      have := exec_existingOn (cbs (n + 2)) s.w.types env l a0 d0 (some (((acT b trigs nr).withRows rows).name, r.rid)) s
      simp only [show (("a" : String).isEmpty) = false from by decide, show (("d" : String).isEmpty) = false from by decide,
        Bool.false_eq_true, if_false, rowScopeOf, ha0, withRows_colNames, acT_colNames, dbRel]
      rw [this]
      simp [joinAD, cteScope, acDec_vals, dbDec_vals])
  simp only [show (("a" : String).isEmpty) = false from by decide, show (("d" : String).isEmpty) = false from by decide,
    Bool.false_eq_true, if_false] at hfrom
  have hLs : ∀ L ∈ joinRows ((((acT b trigs nr).withRows rows).scan (cv s)).map (rowScopeOf ((acT b trigs nr).withRows rows) "a"))
      ((dbRel ds).rows.map (cteScope "d" dbCols)) (joinAD l),
      ∃ r ∈ rows, ∃ a0 : AcR, r.vals = a0.vals ∧ ∃ dsc, L = [rowScopeOf ((acT b trigs nr).withRows rows) "a" r, dsc] := by
    intro L hL
    simp only [joinRows, List.mem_flatMap, List.mem_map] at hL
    obtain ⟨a, ⟨r, hr, rfl⟩, dsc, _, rfl⟩ := hL
    have hrm : r ∈ rows := by
      rw [scan_eq] at hr
      exact (List.mem_filter.mp (List.mem_reverse.mp hr)).1
    obtain ⟨a0, ha0⟩ := htyped r hrm
    exact ⟨r, hrm, a0, ha0, dsc, rfl⟩
  have hsel := exec_evalSelect_rows (n + 4) env [(Expr.col "a" "address", "")] _ none [] s _ (fun _ => true)
    (fun L => match L with
      | a :: _ => [(lookupIn a.cols a.vals "address").getD .null]
      | [] => [])
    hfrom (by intro c h; cases h) (by intro _ L _; rfl) (by rfl) (by rfl)
    (by
      intro L hL _
      obtain ⟨r, _, a0, ha0, dsc, rfl⟩ := hLs L hL
      have hlk : lookupColumn { env with locals := [rowScopeOf ((acT b trigs nr).withRows rows) "a" r, dsc], group := none, wins := [] } "a" "address" =
          .ok (.text a0.address) := by
        simp [lookupColumn, Env.scopes, findScope, lastComponent_a, rowScopeOf, ha0, acT_colNames]
        rfl
      simp only [List.map_cons, List.map_nil, evalExprs, evalExpr, exec_bind, hlk, exec_liftR_ok, exec_pure]
      simp [rowScopeOf, ha0, acT_colNames]
      rfl)
    _ false (by
      rw [sortOut]
      · rfl
      · intro h; omega)
  rw [existingStmt, execStmt, evalQuery, evalCtes]
  · simp only [exec_bind, exec_pure, exec_typeEnv]
    rw [evalSetExpr]
    simp only [tie_false, List.map_cons, List.map_nil] at hsel
    have hfl : ∀ (X : List (List Scope)), X.filter (fun _ => true) = X := fun X => List.filter_eq_self.mpr (fun _ _ => rfl)
    rw [hfl] at hsel
    have hsel' : (evalSelect (n + 5) env (Select.mk false [] [SelItem.expr (Expr.col "a" "address") ""]
        [FromItem.join JoinKind.inner (FromItem.table b "accounts" "a") (FromItem.table "" "data_batch" "d") (some (existingOn l))] none [] none) []).exec s = _ := hsel
    simp only [hsel', exec_bind, evalOpt, exec_pure, applyLimit]
    simp [existingRows, outNames, exprOutName, outRowOfL, List.map_map, Function.comp, dbRel]
  · intro h; omega

end Ledger.Sql
