import Ledger.Proofs.WrapEvents
import Ledger.Proofs.WrapBulk

/-!
The invariant of `Ledger/Proofs/WrapEvents.lean` is kept by the callers of the
events wrapper modelled in `Ledger/Wrap/Stack.lean` (state tracker `handleState`,
sequential `Bulker.Run`) and by every disciplined raw call; hence by every
disciplined program (for C31).
-/
namespace Ledger.Wrap
open List

/-- A callback of `handleState` that keeps the invariant on every good wrapper. -/
def FnOk (fn : St → W → Ret × St) : Prop :=
  ∀ s c, Inv s → Good s.nT c → Inv (fn s c).2 ∧ Ext s (fn s c).2

theorem stateUpdate_pres {s : St} (h : Inv s) (ctrl : W) :
    Inv (stateUpdate s ctrl).2 ∧ Ext s (stateUpdate s ctrl).2 := by
  unfold stateUpdate
  split
  · rename_i s1 heq
    have h1 := uSql_pres h ctrl 1; rw [heq] at h1; exact h1
  · rename_i s1 heq
    have h1 := uSql_pres h ctrl 1; rw [heq] at h1
    split
    · split
      · rename_i s2 heq2
        have h2 := uSql_pres h1.1 ctrl 2; rw [heq2] at h2
        exact ⟨h2.1, h1.2.trans h2.2⟩
      · rename_i s2 heq2
        have h2 := uSql_pres h1.1 ctrl 2; rw [heq2] at h2
        split
        · rename_i s3 heq3
          have h3 := uSql_pres h2.1 ctrl 3; rw [heq3] at h3
          exact ⟨h3.1, (h1.2.trans h2.2).trans h3.2⟩
        · rename_i s3 heq3
          have h3 := uSql_pres h2.1 ctrl 3; rw [heq3] at h3
          exact ⟨h3.1, (h1.2.trans h2.2).trans h3.2⟩
    · exact h1

theorem lockedBody_pres {s : St} {ctrl : W} {fn : St → W → Ret × St} (h : Inv s)
    (hc : Good s.nT ctrl) (hpre : ctrl.u = .none ∨ s.lockTx true = true) (hfn : FnOk fn) :
    Inv (lockedBody s ctrl fn).2 ∧ Ext s (lockedBody s ctrl fn).2 := by
  unfold lockedBody
  have hw := wLock_pres h hc hpre
  split
  · rename_i e s1 heq
    rw [heq] at hw; exact ⟨hw.1, hw.2.1⟩
  · rename_i locked s1 heq
    rw [heq] at hw
    obtain ⟨hi1, he1, hg⟩ := hw
    have hgl : Good s1.nT locked := hg locked rfl
    have hsu := stateUpdate_pres hi1 ctrl
    simp only []
    have hbody : Inv (match stateUpdate s1 ctrl with
        | (Ret.ok, s) => fn s locked
        | (e, s) => (e, s)).2 ∧ Ext s1 (match stateUpdate s1 ctrl with
        | (Ret.ok, s) => fn s locked
        | (e, s) => (e, s)).2 := by
      split
      · rename_i s2 heq2
        rw [heq2] at hsu
        have := hfn s2 locked hsu.1 (hgl.mono hsu.2.nT)
        exact ⟨this.1, hsu.2.trans this.2⟩
      · rename_i e s2 _ heq2
        rw [heq2] at hsu
        exact hsu
    have hr := wRelease_pres hbody.1 locked
    exact ⟨hr.1, (he1.trans hbody.2).trans hr.2⟩

theorem deferRollback_pres {ctrl : W} {p : Ret × St} (h : Inv p.2) (hc : Good p.2.nT ctrl) :
    Inv (deferRollback ctrl p).2 ∧ Ext p.2 (deferRollback ctrl p).2 :=
  wRollback_pres h hc

theorem handleState_pres {s : St} {dry : Bool} {fn : St → W → Ret × St} (h : Inv s)
    (hpre : s.inUse = true ∨ s.lockTx true = true) (hfn : FnOk fn) :
    Inv (handleState s dry fn).2 ∧ Ext s (handleState s dry fn).2 := by
  unfold handleState
  split
  · exact hfn s .root h (good_root _)
  · rename_i hiu
    have hlt : s.lockTx true = true := by
      rcases hpre with hp | hp
      · exact absurd hp hiu
      · exact hp
    have hb := wBegin_pres h (good_root s.nT) rfl
    split
    · rename_i e s1 heq
      rw [heq] at hb; exact ⟨hb.1, hb.2.1⟩
    · rename_i ctrl s1 heq
      rw [heq] at hb
      obtain ⟨hi1, he1, hg⟩ := hb
      obtain ⟨hgc, hlc, hune⟩ := hg ctrl rfl
      have hlb := lockedBody_pres (fn := fn) hi1 hgc (Or.inr (by rw [he1.lockTx]; exact hlt)) hfn
      split
      · rename_i s2 heq2
        rw [heq2] at hlb
        have hgc2 : Good s2.nT ctrl := hgc.mono hlb.2.nT
        split
        · have hcm := wCommit_pres hlb.1 hgc2 (Or.inr hlc)
          split
          · rename_i s3 heq3
            rw [heq3] at hcm
            have hi3 : Inv { s3 with inUse := true } := Inv.of_eq hcm.1 rfl rfl rfl rfl rfl
            have hd := deferRollback_pres (ctrl := ctrl) (p := (Ret.ok, { s3 with inUse := true })) hi3
              (hgc2.mono hcm.2.nT)
            refine ⟨hd.1, ((he1.trans hlb.2).trans hcm.2).trans (Ext.trans ?_ hd.2)⟩
            exact ⟨Nat.le_refl _, rfl, rfl, fun _ => rfl⟩
          · rename_i e s3 _ heq3
            rw [heq3] at hcm
            have hd := deferRollback_pres (ctrl := ctrl) (p := (e, s3)) hcm.1 (hgc2.mono hcm.2.nT)
            exact ⟨hd.1, ((he1.trans hlb.2).trans hcm.2).trans hd.2⟩
        · have hrb := wRollback_pres hlb.1 hgc2
          split
          · rename_i s3 heq3
            rw [heq3] at hrb
            have hd := deferRollback_pres (ctrl := ctrl) (p := (Ret.ok, s3)) hrb.1 (hgc2.mono hrb.2.nT)
            exact ⟨hd.1, ((he1.trans hlb.2).trans hrb.2).trans hd.2⟩
          · rename_i e s3 _ heq3
            rw [heq3] at hrb
            have hd := deferRollback_pres (ctrl := ctrl) (p := (e, s3)) hrb.1 (hgc2.mono hrb.2.nT)
            exact ⟨hd.1, ((he1.trans hlb.2).trans hrb.2).trans hd.2⟩
      · rename_i e s2 _ heq2
        rw [heq2] at hlb
        have hd := deferRollback_pres (ctrl := ctrl) (p := (e, s2)) hlb.1 (hgc.mono hlb.2.nT)
        exact ⟨hd.1, (he1.trans hlb.2).trans hd.2⟩

theorem wWrite_fnOk (k : Kind) (dry : Bool) (w : Nat) : FnOk (fun s c => wWrite s c k dry w) :=
  fun _ _ h hc => wWrite_pres h hc k dry w

theorem facadeWrite_pres {s : St} (h : Inv s) (hpre : s.inUse = true ∨ s.lockTx true = true)
    (k : Kind) (dry : Bool) (w : Nat) :
    Inv (facadeWrite s k dry w).2 ∧ Ext s (facadeWrite s k dry w).2 :=
  handleState_pres h hpre (wWrite_fnOk k dry w)


theorem runSeq_inv {El S R E : Type} (tag : Nat → Nat) (apply : El → S → Except E R × S)
    (P : S → Prop) (hP : ∀ e p, P p → P (apply e p).2) (cof : Bool) (es : List El) (i : Nat)
    (he : Bool) (s : S) (h : P s) : P (Bulk.runSeq tag apply cof es i he s).2.2 := by
  induction es generalizing i he s with
  | nil => exact h
  | cons e es ih =>
    rw [Bulk.runSeq_cons]
    split
    · exact ih _ _ _ h
    · apply ih
      rw [Bulk.outcomeOf_state]
      exact hP e s h

theorem applyOn_none_state (e : BEl) (s : St) :
    (applyOn none e s).2 = (facadeWrite s e.kind false e.w).2 := by
  unfold applyOn
  simp only []
  split <;> rfl

theorem applyOn_some_state (c : W) (e : BEl) (s : St) :
    (applyOn (some c) e s).2 = (wWrite s c e.kind false e.w).2 := by
  unfold applyOn
  simp only []
  split <;> rfl

/-- Invariant of a bulk run started in `s0` with transaction wrapper `cw`. -/
def BulkP (s0 : St) (cw : Option W) (p : BSt) : Prop :=
  p.2 = cw ∧ Inv p.1 ∧ Ext s0 p.1

theorem bulkApply_pres {s0 : St} {cw : Option W}
    (hgood : ∀ c, cw = some c → Good s0.nT c)
    (hfac : cw = none → s0.inUse = true ∨ s0.lockTx true = true)
    (e : BEl) (p : BSt) (hp : BulkP s0 cw p) : BulkP s0 cw (bulkApply e p).2 := by
  obtain ⟨hc, hi, hx⟩ := hp
  have hst : (bulkApply e p).2 = ((applyOn p.2 e p.1).2, p.2) := rfl
  rw [hst]
  refine ⟨hc, ?_⟩
  show Inv (applyOn p.2 e p.1).2 ∧ Ext s0 (applyOn p.2 e p.1).2
  rw [hc]
  cases cw with
  | none =>
    rw [applyOn_none_state]
    have hpre : p.1.inUse = true ∨ p.1.lockTx true = true := by
      rcases hfac rfl with hh | hh
      · exact Or.inl (hx.inUse hh)
      · exact Or.inr (by rw [hx.lockTx]; exact hh)
    have := facadeWrite_pres hi hpre e.kind false e.w
    exact ⟨this.1, hx.trans this.2⟩
  | some c =>
    rw [applyOn_some_state]
    have := wWrite_pres hi ((hgood c rfl).mono hx.nT) e.kind false e.w
    exact ⟨this.1, hx.trans this.2⟩

theorem bulkCtrl_begin_eq (s : St) (cw : Option W) :
    bulkCtrl.begin (s, cw) =
      match wBegin s .root with
      | (.ok c, s) => (.ok (), (s, some c))
      | (.error e, s) => (.error e, (s, none)) := rfl

theorem bulkCtrl_commit_some (s : St) (c : W) :
    (bulkCtrl.commit (s, some c)).2 = ((wCommit s c).2, some c) := by
  show (match wCommit s c with
        | (.ok, s) => ((Except.ok () : Except Ret Unit), (s, some c))
        | (e, s) => (.error e, (s, some c))).2 = _
  split <;> simp_all

theorem bulkCtrl_rollback_some (s : St) (c : W) :
    bulkCtrl.rollback (s, some c) = ((wRollback s c).2, some c) := rfl

theorem runBulk_state_nonatomic {S R E : Type} (ctl : Bulk.Ctrl S E) (cof : Bool)
    (run : S → List (Bulk.BRes R E) × Bool × S) (s : S) :
    (Bulk.runBulk ctl { atomic := false, cof := cof } run s).2.2 = (run s).2.2 := by
  simp [Bulk.runBulk]

/-- The controller state after an atomic `Bulker.Run`: `BeginTX` failed, or the
    elements ran and then `Rollback` or `Commit` was called. -/
theorem runBulk_state_atomic {S R E : Type} (ctl : Bulk.Ctrl S E) (cof : Bool)
    (run : S → List (Bulk.BRes R E) × Bool × S) (s : S) :
    (∃ e, (ctl.begin s).1 = .error e ∧
      (Bulk.runBulk ctl { atomic := true, cof := cof } run s).2.2 = (ctl.begin s).2) ∨
    ((ctl.begin s).1 = .ok () ∧
      ((Bulk.runBulk ctl { atomic := true, cof := cof } run s).2.2 =
          ctl.rollback (run (ctl.begin s).2).2.2 ∨
       (Bulk.runBulk ctl { atomic := true, cof := cof } run s).2.2 =
          (ctl.commit (run (ctl.begin s).2).2.2).2)) := by
  unfold Bulk.runBulk
  simp only [Bool.and_false, Bool.false_eq_true, if_false, if_true]
  rcases hb : ctl.begin s with ⟨r, s1⟩
  cases r with
  | error e => exact Or.inl ⟨e, rfl, rfl⟩
  | ok u =>
    cases u
    refine Or.inr ⟨rfl, ?_⟩
    simp only []
    rcases hr : run s1 with ⟨rs, he, s2⟩
    simp only []
    cases he with
    | true => exact Or.inl rfl
    | false =>
      right
      simp only [Bool.false_eq_true, if_false]
      rcases hc : ctl.commit s2 with ⟨r2, s3⟩
      cases r2 with
      | error e => rfl
      | ok u => cases u; rfl

theorem bulkOp_pres {s : St} (h : Inv s) (atomic cof : Bool) (els : List BEl)
    (hpre : atomic = true ∨ s.inUse = true ∨ s.lockTx true = true) :
    Inv (bulkOp s atomic cof els).2.2 ∧ Ext s (bulkOp s atomic cof els).2.2 := by
  unfold bulkOp
  simp only []
  generalize hs1 : ({ s with script := els.foldl (fun f e => upd f e.w e.ok) s.script } : St) = s1
  have hi1 : Inv s1 := by subst hs1; exact Inv.of_eq h rfl rfl rfl rfl rfl
  have hx1 : Ext s s1 := by subst hs1; exact ⟨Nat.le_refl _, rfl, rfl, id⟩
  suffices hsuff : Inv (Bulk.runBulk bulkCtrl { atomic := atomic, cof := cof }
      (fun p => Bulk.runSeq Bulk.elementTag bulkApply cof els 0 false p) (s1, none)).2.2.1 ∧
      Ext s1 (Bulk.runBulk bulkCtrl { atomic := atomic, cof := cof }
      (fun p => Bulk.runSeq Bulk.elementTag bulkApply cof els 0 false p) (s1, none)).2.2.1 from
    ⟨hsuff.1, hx1.trans hsuff.2⟩
  cases atomic with
  | false =>
    rw [runBulk_state_nonatomic]
    have hfac : (none : Option W) = none → s1.inUse = true ∨ s1.lockTx true = true := by
      intro _
      rcases hpre with hp | hp | hp
      · cases hp
      · exact Or.inl (hx1.inUse hp)
      · exact Or.inr (by rw [hx1.lockTx]; exact hp)
    have := runSeq_inv Bulk.elementTag bulkApply (BulkP s1 none)
      (bulkApply_pres (fun c hc => by cases hc) hfac) cof els 0 false (s1, none)
      ⟨rfl, hi1, Ext.refl _⟩
    exact ⟨this.2.1, this.2.2⟩
  | true =>
    have hb := wBegin_pres hi1 (good_root s1.nT) rfl
    rcases runBulk_state_atomic bulkCtrl cof
      (fun p => Bulk.runSeq Bulk.elementTag bulkApply cof els 0 false p) (s1, none) with
      ⟨e, hbe, hst⟩ | ⟨hbo, hst⟩
    · rw [hst, bulkCtrl_begin_eq]
      rw [bulkCtrl_begin_eq] at hbe
      split at hbe
      · cases hbe
      · rename_i e' s2 heq
        rw [heq] at hb
        exact ⟨hb.1, hb.2.1⟩
    · rw [bulkCtrl_begin_eq] at hbo hst
      split at hbo
      · rename_i c s2 heq
        rw [heq] at hb hst
        simp only [] at hst
        obtain ⟨hi2, hx2, hg⟩ := hb
        obtain ⟨hgc, hlc, _⟩ := hg c rfl
        have hrun := runSeq_inv Bulk.elementTag bulkApply (BulkP s2 (some c))
          (bulkApply_pres (fun c' hc' => by cases hc'; exact hgc) (fun hc' => by cases hc'))
          cof els 0 false (s2, some c) ⟨rfl, hi2, Ext.refl _⟩
        obtain ⟨hpc, hpi, hpx⟩ := hrun
        generalize hp : (Bulk.runSeq Bulk.elementTag bulkApply cof els 0 false (s2, some c)).2.2 = p at *
        obtain ⟨ps, pc⟩ := p
        simp only [] at hpc hpi hpx
        subst hpc
        rcases hst with hst | hst
        · rw [hst, bulkCtrl_rollback_some]
          have := wRollback_pres hpi (hgc.mono hpx.nT)
          exact ⟨this.1, (hx2.trans hpx).trans this.2⟩
        · rw [hst, bulkCtrl_commit_some]
          have := wCommit_pres hpi (hgc.mono hpx.nT) (Or.inr hlc)
          exact ⟨this.1, (hx2.trans hpx).trans this.2⟩
      · cases hbo

/-- Every handle of the raw-call table is a wrapper of the discipline. -/
def HG (s : St) : Prop := ∀ c ∈ s.handles, Good s.nT c

theorem HG.of_ext {s s' : St} (hg : HG s) (hx : Ext s s') : HG s' := by
  intro c hc
  rw [hx.handles] at hc
  exact (hg c hc).mono hx.nT

theorem HG.of_eq {s s' : St} (hg : HG s) (hh : s'.handles = s.handles) (hn : s'.nT = s.nT) : HG s' := by
  intro c hc
  rw [hh] at hc
  rw [hn]
  exact hg c hc

/-- What a client operation keeps. -/
structure Keep (s s' : St) : Prop where
  lockTx : s'.lockTx = s.lockTx

theorem callOn_pres {lockInTx : Bool} {s : St} {w : W} (h : Inv s) (hg : HG s) (hw : Good s.nT w)
    (hL : lockInTx = true → s.lockTx true = true) (c : Call) (hok : callOk lockInTx w c = true) :
    Inv (callOn s w c).2 ∧ HG (callOn s w c).2 ∧ (callOn s w c).2.lockTx = s.lockTx := by
  cases c with
  | write hh k dry ok wid =>
    have hi : Inv { s with script := upd s.script wid ok } := Inv.of_eq h rfl rfl rfl rfl rfl
    have := wWrite_pres (c := w) hi hw k dry wid
    refine ⟨this.1, ?_, this.2.lockTx⟩
    exact HG.of_ext (s := { s with script := upd s.script wid ok }) hg this.2
  | begin hh ok =>
    have hu : w.u = .none := by simpa [callOk] using hok
    have hi : Inv { s with faults := { begin := !ok } } := Inv.of_eq h rfl rfl rfl rfl rfl
    have hb := wBegin_pres (c := w) hi hw hu
    have hcall : callOn s w (.begin hh ok) = (match wBegin { s with faults := { begin := !ok } } w with
        | (.ok n, s) => (Ret.ok, { s with handles := s.handles ++ [n] })
        | (.error e, s) => (e, s)) := rfl
    rw [hcall]
    split
    · rename_i n s1 heq
      rw [heq] at hb
      obtain ⟨hi1, hx1, hgn⟩ := hb
      refine ⟨Inv.of_eq hi1 rfl rfl rfl rfl rfl, ?_, hx1.lockTx⟩
      intro c hc
      have hc' : c ∈ s1.handles ++ [n] := hc
      simp only [List.mem_append, List.mem_singleton] at hc'
      rcases hc' with hc' | hc'
      · exact HG.of_ext (s := { s with faults := { begin := !ok } }) hg hx1 c hc'
      · subst hc'; exact (hgn _ rfl).1
    · rename_i e s1 heq
      rw [heq] at hb
      exact ⟨hb.1, HG.of_ext (s := { s with faults := { begin := !ok } }) hg hb.2.1, hb.2.1.lockTx⟩
  | lock hh ok =>
    have hpre : w.u = .none ∨ s.lockTx true = true := by
      simp only [callOk, Bool.or_eq_true, beq_iff_eq] at hok
      rcases hok with hu | hl
      · exact Or.inl hu
      · exact Or.inr (hL hl)
    have hi : Inv { s with faults := { lock := !ok } } := Inv.of_eq h rfl rfl rfl rfl rfl
    have hb := wLock_pres (c := w) hi hw hpre
    have hcall : callOn s w (.lock hh ok) = (match wLock { s with faults := { lock := !ok } } w with
        | (.ok n, s) => (Ret.ok, { s with handles := s.handles ++ [n] })
        | (.error e, s) => (e, s)) := rfl
    rw [hcall]
    split
    · rename_i n s1 heq
      rw [heq] at hb
      obtain ⟨hi1, hx1, hgn⟩ := hb
      refine ⟨Inv.of_eq hi1 rfl rfl rfl rfl rfl, ?_, hx1.lockTx⟩
      intro c hc
      have hc' : c ∈ s1.handles ++ [n] := hc
      simp only [List.mem_append, List.mem_singleton] at hc'
      rcases hc' with hc' | hc'
      · exact HG.of_ext (s := { s with faults := { lock := !ok } }) hg hx1 c hc'
      · subst hc'; exact hgn _ rfl
    · rename_i e s1 heq
      rw [heq] at hb
      exact ⟨hb.1, HG.of_ext (s := { s with faults := { lock := !ok } }) hg hb.2.1, hb.2.1.lockTx⟩
  | commit hh ok =>
    have hpre : w.u = .none ∨ w.lockCreated = false := by
      simp only [callOk, Bool.or_eq_true, beq_iff_eq, Bool.not_eq_true'] at hok
      exact hok
    have hi : Inv { s with faults := { commit := !ok } } := Inv.of_eq h rfl rfl rfl rfl rfl
    have := wCommit_pres (c := w) hi hw hpre
    exact ⟨this.1, HG.of_ext (s := { s with faults := { commit := !ok } }) hg this.2, this.2.lockTx⟩
  | rollback hh ok =>
    have hi : Inv { s with faults := { rollback := !ok } } := Inv.of_eq h rfl rfl rfl rfl rfl
    have := wRollback_pres (c := w) hi hw
    exact ⟨this.1, HG.of_ext (s := { s with faults := { rollback := !ok } }) hg this.2, this.2.lockTx⟩

theorem stepOp_pres {lockInTx : Bool} {s : St} (h : Inv s) (hg : HG s)
    (hL : lockInTx = true → s.lockTx true = true) (op : Op) (hok : opOk lockInTx s op = true) :
    Inv (stepOp s op).2 ∧ HG (stepOp s op).2 ∧ (stepOp s op).2.lockTx = s.lockTx := by
  cases op with
  | raw c =>
    simp only [stepOp, rawCall]
    simp only [opOk] at hok
    cases hh : s.handles[c.h]? with
    | none => exact ⟨h, hg, rfl⟩
    | some w =>
      rw [hh] at hok
      have hw : Good s.nT w := hg w (List.mem_of_getElem? hh)
      have := callOn_pres h hg hw hL c hok
      simp only []
      exact ⟨Inv.of_eq this.1 rfl rfl rfl rfl rfl, HG.of_eq this.2.1 rfl rfl, this.2.2⟩
  | swrite k dry ok w f =>
    simp only [opOk, Bool.or_eq_true] at hok
    have hi : Inv { s with script := upd s.script w ok, faults := f } := Inv.of_eq h rfl rfl rfl rfl rfl
    have hpre : s.inUse = true ∨ s.lockTx true = true := hok.imp id hL
    have := facadeWrite_pres (s := { s with script := upd s.script w ok, faults := f }) hi hpre k dry w
    simp only [stepOp]
    exact ⟨Inv.of_eq this.1 rfl rfl rfl rfl rfl,
      HG.of_eq (HG.of_ext (s := { s with script := upd s.script w ok, faults := f }) hg this.2) rfl rfl,
      this.2.lockTx⟩
  | bulk atomic cof els f =>
    simp only [opOk, Bool.or_eq_true] at hok
    have hi : Inv { s with faults := f } := Inv.of_eq h rfl rfl rfl rfl rfl
    have hpre : atomic = true ∨ s.inUse = true ∨ s.lockTx true = true := by
      rcases hok with (ha | hu) | hl
      · exact Or.inl ha
      · exact Or.inr (Or.inl hu)
      · exact Or.inr (Or.inr (hL hl))
    have := bulkOp_pres (s := { s with faults := f }) hi atomic cof els hpre
    simp only [stepOp]
    exact ⟨Inv.of_eq this.1 rfl rfl rfl rfl rfl,
      HG.of_eq (HG.of_ext (s := { s with faults := f }) hg this.2) rfl rfl, this.2.lockTx⟩

theorem runOps_pres {lockInTx : Bool} (ops : List Op) (s : St) (h : Inv s) (hg : HG s)
    (hL : lockInTx = true → s.lockTx true = true) (hd : disciplined lockInTx s ops = true) :
    Inv (runOps s ops).2 := by
  induction ops generalizing s with
  | nil => exact h
  | cons op ops ih =>
    simp only [disciplined, Bool.and_eq_true] at hd
    have hs := stepOp_pres h hg hL op hd.1
    simp only [runOps]
    exact ih (stepOp s op).2 hs.1 hs.2.1 (fun hl => by rw [hs.2.2]; exact hL hl) hd.2

theorem inv_init (lockTx : Bool → Bool) (hl : lockTx false = false) (inUse : Bool) :
    Inv { lockTx := lockTx, inUse := inUse } ∧ HG { lockTx := lockTx, inUse := inUse } := by
  refine ⟨⟨rfl, rfl, fun _ => rfl, ?_, fun t _ => ⟨rfl, rfl⟩, hl⟩, ?_⟩
  · intro t ho
    exact absurd ho (by simp)
  intro c hc
  simp only [List.mem_singleton] at hc
  subst hc
  exact good_root _

/-- From the invariant to C31's predicate. -/
theorem c31Ok_of_inv {s : St} (h : Inv s) : c31Ok s.trace = true := by
  unfold c31Ok
  simp only [h.bad, Bool.not_false, Bool.true_and, List.all_eq_true, beq_iff_eq]
  intro x _
  rw [h.pub]

end Ledger.Wrap
