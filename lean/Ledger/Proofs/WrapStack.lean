import Ledger.Proofs.WrapNest
import Ledger.Proofs.WrapBulk

/-!
The invariant of `Ledger/Proofs/WrapEvents.lean` is kept by the callers of the
events wrapper modelled in `Ledger/Wrap/Stack.lean` (state tracker `handleState` —
also nested inside an atomic bulk's transaction —, sequential `Bulker.Run`) and by
every disciplined raw call; hence by every disciplined program (for C31).
-/
namespace Ledger.Wrap
open List

/-- A callback of `handleState` that keeps the invariant on every good wrapper. -/
def FnOk (fn : St → W → Ret × St) : Prop :=
  ∀ s c, Inv s → Good s.nT c → Inv (fn s c).2 ∧ Ext s (fn s c).2

/-- `stateUpdate` only appends inert items. -/
theorem stateUpdate_inert (I : St → Prop) (hin : ∀ s it, I s → Item.inert it = true → I (s.emit it))
    {s : St} (h : I s) (ctrl : W) : I (stateUpdate s ctrl).2 := by
  have step : ∀ s tag, I s → I (uSql s ctrl tag).2 := by
    intro s tag hs
    obtain ⟨it, hi, he⟩ := uSql_state s ctrl tag
    rw [he]; exact hin s it hs hi
  unfold stateUpdate
  split
  · rename_i s1 heq
    have h1 := step s 1 h; rw [heq] at h1; exact h1
  · rename_i s1 heq
    have h1 := step s 1 h; rw [heq] at h1
    split
    · split
      · rename_i s2 heq2
        have h2 := step s1 2 h1; rw [heq2] at h2; exact h2
      · rename_i s2 heq2
        have h2 := step s1 2 h1; rw [heq2] at h2
        split
        · rename_i s3 heq3
          have h3 := step s2 3 h2; rw [heq3] at h3; exact h3
        · rename_i s3 heq3
          have h3 := step s2 3 h2; rw [heq3] at h3; exact h3
    · exact h1

theorem stateUpdate_pres {s : St} (h : Inv s) (ctrl : W) :
    Inv (stateUpdate s ctrl).2 ∧ Ext s (stateUpdate s ctrl).2 := by
  have := stateUpdate_inert (fun s' => Inv s' ∧ Ext s s')
    (fun s' it hs hi => ⟨hs.1.emit_inert it hi, hs.2.trans (Ext.emit _ _)⟩) (s := s) ⟨h, Ext.refl _⟩ ctrl
  exact this

theorem lockedBody_pres {s : St} {ctrl : W} {fn : St → W → Ret × St} (h : Inv s)
    (hc : Good s.nT ctrl) (hpre : ctrl.u = .none ∨ s.lockTx true = true) (hfn : FnOk fn) :
    Inv (lockedBody s ctrl fn).2 ∧ Ext s (lockedBody s ctrl fn).2 := by
  unfold lockedBody
  have hw := wLock_pres h hc hpre
  split
  · rename_i e s1 heq
    rw [heq] at hw; exact ⟨hw.1, hw.2.1⟩
  · rename_i locked s1 heq
    rw [heq] at hw
    obtain ⟨hi1, he1, hg⟩ := hw
    have hgl : Good s1.nT locked := hg locked rfl
    have hsu := stateUpdate_pres hi1 ctrl
    simp only []
    have hbody : Inv (match stateUpdate s1 ctrl with
        | (Ret.ok, s) => fn s locked
        | (e, s) => (e, s)).2 ∧ Ext s1 (match stateUpdate s1 ctrl with
        | (Ret.ok, s) => fn s locked
        | (e, s) => (e, s)).2 := by
      split
      · rename_i s2 heq2
        rw [heq2] at hsu
        have := hfn s2 locked hsu.1 (hgl.mono hsu.2.nT)
        exact ⟨this.1, hsu.2.trans this.2⟩
      · rename_i e s2 _ heq2
        rw [heq2] at hsu
        exact hsu
    have hr := wRelease_pres hbody.1 locked
    exact ⟨hr.1, (he1.trans hbody.2).trans hr.2⟩

/-- `withLock` + state update + the write, inside the savepoint. -/
theorem lockedBody_nest {cl : Prop} {s : St} {t1 t2 : Nat} {c1 : W} (h : Nest cl s t1 t2)
    (hc1h : c1.hasTx = true) (hc1s : c1.sink = some (.tx t1)) (k : Kind) (w : Nat) :
    Nest cl (lockedBody s (.node (.tx t2) true (.tx t2 (.tx t1 .none)) c1)
      (fun s c => wWrite s c k false w)).2 t1 t2 ∧
    Ext s (lockedBody s (.node (.tx t2) true (.tx t2 (.tx t1 .none)) c1)
      (fun s c => wWrite s c k false w)).2 := by
  generalize hc2 : (W.node (.tx t2) true (.tx t2 (.tx t1 .none)) c1) = c2
  have hu2 : c2.u = .tx t2 (.tx t1 .none) := by subst hc2; rfl
  have hh2 : c2.hasTx = true := by subst hc2; rfl
  have hs2 : c2.sink = some (.tx t1) := by subst hc2; simp [W.sink, hc1h, hc1s]
  have hl : c2.u.live s.opn = true := by rw [hu2]; simp [UH.live, h.o1, h.o2]
  unfold lockedBody
  cases hf : s.faults.lock with
  | true =>
    rw [wLock_fail hl hf]
    exact ⟨h.emit_inert _ rfl, Ext.emit _ _⟩
  | false =>
    rw [wLock_ok hl hf]
    simp only []
    generalize hs1 : ({ s with nK := s.nK + 1 } : St).emit (.lock c2.u.id .ok) = s1
    have hn1 : Nest cl s1 t1 t2 ∧ Ext s s1 := by
      subst hs1; exact ⟨h.bump.emit_inert _ rfl, ⟨Nat.le_refl _, rfl, rfl, id⟩⟩
    generalize hc3 : (W.node (.lk s.nK) (s.lockTx c2.hasTx) c2.u c2) = c3
    have hu3 : c3.u = .tx t2 (.tx t1 .none) := by subst hc3; exact hu2
    have hs3 : c3.sink = some (.tx t1) := by
      subst hc3
      show (if !(s.lockTx c2.hasTx) then none else if c2.hasTx then c2.sink else some (WId.lk s.nK)) = _
      rw [hh2, h.lk, hs2]; rfl
    have hsu := stateUpdate_inert (fun s' => Nest cl s' t1 t2 ∧ Ext s s')
      (fun s' it hs hi => ⟨hs.1.emit_inert it hi, hs.2.trans (Ext.emit _ _)⟩) (s := s1) hn1 c2
    have hbody : Nest cl (match stateUpdate s1 c2 with
        | (Ret.ok, s) => wWrite s c3 k false w
        | (e, s) => (e, s)).2 t1 t2 ∧ Ext s (match stateUpdate s1 c2 with
        | (Ret.ok, s) => wWrite s c3 k false w
        | (e, s) => (e, s)).2 := by
      split
      · rename_i s2 heq2
        rw [heq2] at hsu
        have := nest_write hsu.1 hu3 hs3 k w
        exact ⟨this.1, hsu.2.trans this.2⟩
      · rename_i e s2 _ heq2
        rw [heq2] at hsu
        exact hsu
    exact ⟨(hbody.1).emit_inert _ rfl, hbody.2.trans (Ext.emit _ _)⟩

theorem wWrite_fnOk (k : Kind) (dry : Bool) (w : Nat) : FnOk (fun s c => wWrite s c k dry w) :=
  fun _ _ h hc => wWrite_pres h hc k dry w

/-- `handleState` on a facade over a wrapper outside any transaction (the root). -/
theorem handleState_pres {s : St} {c : W} {inUse dry : Bool} {fn : St → W → Ret × St} (h : Inv s)
    (hc : Good s.nT c) (hu : c.u = .none)
    (hpre : inUse = true ∨ s.lockTx true = true) (hfn : FnOk fn) :
    Inv (handleState s c inUse dry fn).2.1 ∧ Ext s (handleState s c inUse dry fn).2.1 ∧
    (inUse = true → (handleState s c inUse dry fn).2.2 = true) := by
  unfold handleState
  split
  · exact ⟨(hfn s c h hc).1, (hfn s c h hc).2, fun _ => rfl⟩
  · rename_i hiu
    refine (fun (x : _ ∧ _) => ⟨x.1, x.2, fun hi => absurd hi hiu⟩) ?_
    have hlt : s.lockTx true = true := by
      rcases hpre with hp | hp
      · exact absurd hp hiu
      · exact hp
    have hb := wBegin_pres h hc hu
    split
    · rename_i e s1 heq
      rw [heq] at hb; exact ⟨hb.1, hb.2.1⟩
    · rename_i ctrl s1 heq
      rw [heq] at hb
      obtain ⟨hi1, he1, hg⟩ := hb
      obtain ⟨_, _, _, hgc, hlc, hune⟩ := hg ctrl rfl
      have hlb := lockedBody_pres (fn := fn) hi1 hgc (Or.inr (by rw [he1.lockTx]; exact hlt)) hfn
      split
      · rename_i s2 heq2
        rw [heq2] at hlb
        have hgc2 : Good s2.nT ctrl := hgc.mono hlb.2.nT
        split
        · have hcm := wCommit_pres hlb.1 hgc2 (Or.inr hlc) rfl
          split
          · rename_i s3 heq3
            rw [heq3] at hcm
            exact ⟨hcm.1, (he1.trans hlb.2).trans hcm.2⟩
          · rename_i e s3 _ heq3
            rw [heq3] at hcm
            exact ⟨hcm.1, (he1.trans hlb.2).trans hcm.2⟩
        · have hrb := wRollback_pres hlb.1 hgc2
          split
          · rename_i s3 heq3
            rw [heq3] at hrb
            exact ⟨hrb.1, (he1.trans hlb.2).trans hrb.2⟩
          · rename_i e s3 _ heq3
            rw [heq3] at hrb
            exact ⟨hrb.1, (he1.trans hlb.2).trans hrb.2⟩
      · rename_i e s2 _ heq2
        rw [heq2] at hlb
        have hd := wRollback_pres hlb.1 (hgc.mono hlb.2.nT)
        exact ⟨hd.1, (he1.trans hlb.2).trans hd.2⟩

theorem facadeWrite_pres {s : St} (h : Inv s) (hpre : s.inUse = true ∨ s.lockTx true = true)
    (k : Kind) (dry : Bool) (w : Nat) :
    Inv (facadeWrite s k dry w).2 ∧ Ext s (facadeWrite s k dry w).2 := by
  have := handleState_pres (c := .root) (inUse := s.inUse) (dry := dry) h (good_root _) rfl hpre
    (wWrite_fnOk k dry w)
  unfold facadeWrite
  simp only []
  refine ⟨InvE.of_eq this.1 rfl rfl rfl rfl rfl, ?_⟩
  exact ⟨this.2.1.nT, this.2.1.lockTx, this.2.1.handles, fun hi => this.2.2 hi⟩

/-- What `wWrite` leaves untouched. -/
theorem wWrite_frame (s : St) (c : W) (k : Kind) (dry : Bool) (w : Nat) :
    (wWrite s c k dry w).2.opn = s.opn ∧ (wWrite s c k dry w).2.nT = s.nT ∧
    ∀ i, c.sink ≠ some i → (wWrite s c k dry w).2.queue i = s.queue i := by
  cases hl : c.u.live s.opn with
  | false => rw [wWrite_done k dry w hl]; exact ⟨rfl, rfl, fun _ _ => rfl⟩
  | true =>
    cases hs : s.script w with
    | false => rw [wWrite_fail k dry w hl hs]; exact ⟨rfl, rfl, fun _ _ => rfl⟩
    | true =>
      cases dry with
      | true => rw [wWrite_dry k w hl hs]; exact ⟨rfl, rfl, fun _ _ => rfl⟩
      | false =>
        rw [wWrite_ok k w hl hs]
        unfold handleEvent
        split
        · exact ⟨rfl, rfl, fun _ _ => rfl⟩
        · rename_i j hj
          refine ⟨rfl, rfl, fun i hi => ?_⟩
          show updQ _ j _ i = _
          rw [updQ_other _ _ _ _ (by intro he; subst he; exact hi hj)]
          rfl

/-- Properties of the wrapper returned by the bulk's `BeginTX` on the root. -/
structure Owner (c1 : W) (t1 : Nat) : Prop where
  u : c1.u = .tx t1 .none
  h : c1.hasTx = true
  s : c1.sink = some (.tx t1)
  id : c1.id = .tx t1
  lc : c1.lockCreated = false

theorem Owner.good {c1 : W} {t1 n : Nat} (ho : Owner c1 t1) (h1 : 1 ≤ t1) (hn : t1 ≤ n) : Good n c1 :=
  Or.inr ⟨t1, ho.u, h1, hn, ho.h, ho.s, Or.inl ho.id⟩

/-- A write directly on the bulk's transaction wrapper (the bulk's facade is in use). -/
theorem binv_write {cl : Prop} {s : St} {t1 : Nat} {c1 : W} (h : BInv cl s t1) (ho : Owner c1 t1)
    (k : Kind) (dry : Bool) (w : Nat) :
    BInv cl (wWrite s c1 k dry w).2 t1 ∧ Ext s (wWrite s c1 k dry w).2 := by
  have hg := ho.good h.lo h.hi
  obtain ⟨hopn, hnT, hq⟩ := wWrite_frame s c1 k dry w
  refine ⟨⟨(wWrite_pres h.e hg k dry w).1, fun hc => (wWrite_pres (h.c hc) hg k dry w).1, ?_, h.lo, ?_, ?_⟩,
    (wWrite_pres h.e hg k dry w).2⟩
  · rw [hopn]; exact h.o1
  · rw [hnT]; exact h.hi
  · intro t ht
    rw [hopn, hq (.tx t) (by rw [ho.s]; intro he; cases he; omega)]
    exact h.above t ht

/-- **The first-write path nested in the bulk's transaction**, and more generally a
    write method of the facade returned by `controllerFacade.BeginTX`. -/
theorem handleState_nested {cl : Prop} {s : St} {t1 : Nat} {c1 : W} {iu : Bool} (h : BInv cl s t1)
    (ho : Owner c1 t1) (hlk : iu = true ∨ s.lockTx true = true) (k : Kind) (w : Nat) :
    BInv (cl ∧ (handleState s c1 iu false (fun s c => wWrite s c k false w)).1 = .ok)
      (handleState s c1 iu false (fun s c => wWrite s c k false w)).2.1 t1 ∧
    Ext s (handleState s c1 iu false (fun s c => wWrite s c k false w)).2.1 ∧
    (iu = true → (handleState s c1 iu false (fun s c => wWrite s c k false w)).2.2 = true) := by
  unfold handleState
  split
  · have := binv_write h ho k false w
    exact ⟨this.1.weaken (fun hc => hc.1), this.2, fun _ => rfl⟩
  · rename_i hiu
    refine (fun (x : _ ∧ _) => ⟨x.1, x.2, fun hi => absurd hi hiu⟩) ?_
    have hlt : s.lockTx true = true := by
      rcases hlk with hp | hp
      · exact absurd hp hiu
      · exact hp
    rcases nest_begin (c1 := c1) h ho.u hlt with ⟨e, he, hb, hx⟩ | ⟨hok, hn, hx⟩
    · rcases hw : wBegin s c1 with ⟨r, s1⟩
      rw [hw] at he hb hx
      simp only [] at he
      subst he
      exact ⟨hb.weaken (fun hc => hc.1), hx⟩
    · rcases hw : wBegin s c1 with ⟨r, s1⟩
      rw [hw] at hok hn hx
      simp only [] at hok hn hx
      subst hok
      simp only []
      have hlb := lockedBody_nest hn ho.h ho.s k w
      generalize hc2 : (W.node (.tx (s.nT + 1)) true (.tx (s.nT + 1) (.tx t1 .none)) c1) = c2 at hlb ⊢
      have hu2 : c2.u = .tx (s.nT + 1) (.tx t1 .none) := by subst hc2; rfl
      have hid2 : c2.id = .tx (s.nT + 1) := by subst hc2; rfl
      split
      · rename_i s2 heq2
        rw [heq2] at hlb
        simp only [Bool.not_false, if_true]
        have hcm := nest_commit hlb.1 hu2 hid2
        split
        · rename_i s3 heq3
          rw [heq3] at hcm
          exact ⟨hcm.1.weaken (fun hc => ⟨hc.1, rfl⟩), (hx.trans hlb.2).trans hcm.2⟩
        · rename_i e s3 hne heq3
          rw [heq3] at hcm
          exact ⟨hcm.1.weaken (fun hc => ⟨hc.1, (hne hc.2).elim⟩),
            (hx.trans hlb.2).trans hcm.2⟩
      · rename_i e s2 hne heq2
        rw [heq2] at hlb
        have hrb := nest_rollback hlb.1 hu2 hid2
        exact ⟨hrb.1.weaken (fun hc => (hne hc.2).elim),
          (hx.trans hlb.2).trans hrb.2⟩

theorem runSeq_inv {El S R E : Type} (tag : Nat → Nat) (apply : El → S → Except E R × S)
    (P : S → Prop) (hP : ∀ e p, P p → P (apply e p).2) (cof : Bool) (es : List El) (i : Nat)
    (he : Bool) (s : S) (h : P s) : P (Bulk.runSeq tag apply cof es i he s).2.2 := by
  induction es generalizing i he s with
  | nil => exact h
  | cons e es ih =>
    rw [Bulk.runSeq_cons]
    split
    · exact ih _ _ _ h
    · apply ih
      rw [Bulk.outcomeOf_state]
      exact hP e s h

/-- An invariant coupling the controller state with `hasError`. -/
theorem runSeq_inv2 {El S R E : Type} (tag : Nat → Nat) (apply : El → S → Except E R × S)
    (P : S → Bool → Prop)
    (hP : ∀ e s he, P s he →
      P (Bulk.outcomeOf apply e s).2 (he || (Bulk.outcomeOf apply e s).1.isErr))
    (cof : Bool) (es : List El) (i : Nat) (he : Bool) (s : S) (h : P s he) :
    P (Bulk.runSeq tag apply cof es i he s).2.2 (Bulk.runSeq tag apply cof es i he s).2.1 := by
  induction es generalizing i he s with
  | nil => exact h
  | cons e es ih =>
    rw [Bulk.runSeq_cons]
    split
    · exact ih _ _ _ h
    · exact ih _ _ _ (hP e s he h)

theorem bulkApply_none (e : BEl) (s : St) :
    (bulkApply e (s, none)).2 = ((facadeWrite s e.kind false e.w).2, none) := rfl

theorem outcome_bulkApply_some (e : BEl) (s : St) (c : W) (iu : Bool) :
    (Bulk.outcomeOf bulkApply e (s, some (c, iu))).2 =
      ((handleState s c iu false (fun s c => wWrite s c e.kind false e.w)).2.1,
       some (c, (handleState s c iu false (fun s c => wWrite s c e.kind false e.w)).2.2)) ∧
    ((Bulk.outcomeOf bulkApply e (s, some (c, iu))).1.isErr = false →
      (handleState s c iu false (fun s c => wWrite s c e.kind false e.w)).1 = .ok) := by
  unfold Bulk.outcomeOf bulkApply
  simp only []
  generalize handleState s c iu false (fun s c => wWrite s c e.kind false e.w) = r
  obtain ⟨r1, r2, r3⟩ := r
  cases r1 <;> simp [Bulk.Outcome.isErr]

/-- Invariant of a non-atomic bulk run started in `s0`. -/
def PlainP (s0 : St) (p : BSt) : Prop := p.2 = none ∧ Inv p.1 ∧ Ext s0 p.1

theorem bulkApply_plain {s0 : St} (hfac : s0.inUse = true ∨ s0.lockTx true = true)
    (e : BEl) (p : BSt) (hp : PlainP s0 p) : PlainP s0 (bulkApply e p).2 := by
  obtain ⟨s, c⟩ := p
  obtain ⟨hc, hi, hx⟩ := hp
  simp only [] at hc hi hx
  subst hc
  rw [bulkApply_none]
  have hpre : s.inUse = true ∨ s.lockTx true = true := by
    rcases hfac with hh | hh
    · exact Or.inl (hx.inUse hh)
    · exact Or.inr (by rw [hx.lockTx]; exact hh)
  have := facadeWrite_pres hi hpre e.kind false e.w
  exact ⟨rfl, this.1, hx.trans this.2⟩

/-- Invariant of an atomic bulk run: `hasError = false` means the bulk is still clean. -/
def AtomP (s1 : St) (c1 : W) (t1 : Nat) (p : BSt) (he : Bool) : Prop :=
  ∃ iu, p.2 = some (c1, iu) ∧ (iu = true ∨ p.1.lockTx true = true) ∧
    BInv (he = false) p.1 t1 ∧ Ext s1 p.1

theorem bulkApply_atom {s1 : St} {c1 : W} {t1 : Nat} (ho : Owner c1 t1) (e : BEl) (p : BSt)
    (he : Bool) (hp : AtomP s1 c1 t1 p he) :
    AtomP s1 c1 t1 (Bulk.outcomeOf bulkApply e p).2
      (he || (Bulk.outcomeOf bulkApply e p).1.isErr) := by
  obtain ⟨s, c⟩ := p
  obtain ⟨iu, hc, hlk, hb, hx⟩ := hp
  simp only [] at hc hlk hb hx
  subst hc
  obtain ⟨hst, hok⟩ := outcome_bulkApply_some e s c1 iu
  have hn := handleState_nested hb ho hlk e.kind e.w
  rw [hst]
  refine ⟨_, rfl, ?_, ?_, hx.trans hn.2.1⟩
  · rcases hlk with hl | hl
    · exact Or.inl (hn.2.2 hl)
    · exact Or.inr (by show (handleState s c1 iu false _).2.1.lockTx true = true; rw [hn.2.1.lockTx]; exact hl)
  · refine hn.1.weaken ?_
    intro hhe
    simp only [Bool.or_eq_false_iff] at hhe
    exact ⟨hhe.1, hok hhe.2⟩

theorem bulkCtrl_begin_eq (s : St) (cw : Option (W × Bool)) :
    bulkCtrl.begin (s, cw) =
      match wBegin s .root with
      | (.ok c, s) => (.ok (), (s, some (c, s.inUse)))
      | (.error e, s) => (.error e, (s, none)) := rfl

theorem bulkCtrl_commit_some (s : St) (c : W) (iu : Bool) :
    (bulkCtrl.commit (s, some (c, iu))).2 = ((wCommit s c).2, some (c, iu)) := by
  show (match wCommit s c with
        | (.ok, s) => ((Except.ok () : Except Ret Unit), (s, some (c, iu)))
        | (e, s) => (.error e, (s, some (c, iu)))).2 = _
  split <;> simp_all

theorem bulkCtrl_rollback_some (s : St) (c : W) (iu : Bool) :
    bulkCtrl.rollback (s, some (c, iu)) = ((wRollback s c).2, some (c, iu)) := rfl

theorem runBulk_state_nonatomic {S R E : Type} (ctl : Bulk.Ctrl S E) (cof : Bool)
    (run : S → List (Bulk.BRes R E) × Bool × S) (s : S) :
    (Bulk.runBulk ctl { atomic := false, cof := cof } run s).2.2 = (run s).2.2 := by
  simp [Bulk.runBulk]

/-- The controller state after an atomic `Bulker.Run`: `BeginTX` failed, or the
    elements ran and then — `hasError` — `Rollback`, or — no error — `Commit`. -/
theorem runBulk_state_atomic {S R E : Type} (ctl : Bulk.Ctrl S E) (cof : Bool)
    (run : S → List (Bulk.BRes R E) × Bool × S) (s : S) :
    (∃ e, (ctl.begin s).1 = .error e ∧
      (Bulk.runBulk ctl { atomic := true, cof := cof } run s).2.2 = (ctl.begin s).2) ∨
    ((ctl.begin s).1 = .ok () ∧
      (((run (ctl.begin s).2).2.1 = true ∧
        (Bulk.runBulk ctl { atomic := true, cof := cof } run s).2.2 =
          ctl.rollback (run (ctl.begin s).2).2.2) ∨
       ((run (ctl.begin s).2).2.1 = false ∧
        (Bulk.runBulk ctl { atomic := true, cof := cof } run s).2.2 =
          (ctl.commit (run (ctl.begin s).2).2.2).2))) := by
  unfold Bulk.runBulk
  simp only [Bool.and_false, Bool.false_eq_true, if_false, if_true]
  rcases hb : ctl.begin s with ⟨r, s1⟩
  cases r with
  | error e => exact Or.inl ⟨e, rfl, rfl⟩
  | ok u =>
    cases u
    refine Or.inr ⟨rfl, ?_⟩
    simp only []
    rcases hr : run s1 with ⟨rs, he, s2⟩
    simp only []
    cases he with
    | true => exact Or.inl ⟨rfl, rfl⟩
    | false =>
      right
      simp only [Bool.false_eq_true, if_false]
      rcases hc : ctl.commit s2 with ⟨r2, s3⟩
      cases r2 with
      | error e => exact ⟨trivial, rfl⟩
      | ok u => cases u; exact ⟨trivial, rfl⟩

/-- Leaving the bulk by `Rollback`: whatever happened inside, the invariant is back. -/
theorem binv_rollback {cl : Prop} {s : St} {t1 : Nat} {c1 : W} (h : BInv cl s t1) (ho : Owner c1 t1) :
    Inv (wRollback s c1).2 ∧ Ext s (wRollback s c1).2 := by
  have hg := ho.good h.lo h.hi
  have hr := wRollback_pres h.e hg
  have hl : c1.u.live s.opn = true := by rw [ho.u, live_tx]; exact h.o1
  have h0 : c1.u.id ≠ 0 := by rw [ho.u]; simp [UH.id]; have := h.lo; omega
  have hopn : (wRollback s c1).2.opn = upd s.opn t1 false := by
    rw [wRollback_live h0 hl, ho.u]; rfl
  refine ⟨hr.1.change ?_, hr.2⟩
  intro t _ hex hopen
  rw [hopn] at hopen
  have hge : t1 ≤ t := by simpa [exFrom] using hex
  by_cases ht : t = t1
  · subst ht; rw [upd_same] at hopen; cases hopen
  · rw [upd_other _ _ _ _ ht, (h.above t (by omega)).1] at hopen; cases hopen

/-- Leaving a clean bulk by `Commit`. -/
theorem binv_commit {s : St} {t1 : Nat} {c1 : W} (h : BInv True s t1) (ho : Owner c1 t1) :
    Inv (wCommit s c1).2 ∧ Ext s (wCommit s c1).2 := by
  have hg := ho.good h.lo h.hi
  have hi : Inv s := by
    refine (h.c trivial).change ?_
    intro t _ hex hopen
    have hgt : t1 < t := by simpa [exAbove] using hex
    rw [(h.above t hgt).1] at hopen; cases hopen
  exact wCommit_pres hi hg (Or.inr ho.lc) rfl

theorem bulkOp_pres {s : St} (h : Inv s) (atomic cof : Bool) (els : List BEl)
    (hpre : s.inUse = true ∨ s.lockTx true = true) :
    Inv (bulkOp s atomic cof els).2.2 ∧ Ext s (bulkOp s atomic cof els).2.2 := by
  unfold bulkOp
  simp only []
  generalize hs1 : ({ s with script := els.foldl (fun f e => upd f e.w e.ok) s.script } : St) = s1
  have hi1 : Inv s1 := by subst hs1; exact InvE.of_eq h rfl rfl rfl rfl rfl
  have hx1 : Ext s s1 := by subst hs1; exact ⟨Nat.le_refl _, rfl, rfl, id⟩
  have hpre1 : s1.inUse = true ∨ s1.lockTx true = true := by
    rcases hpre with hp | hp
    · exact Or.inl (hx1.inUse hp)
    · exact Or.inr (by rw [hx1.lockTx]; exact hp)
  suffices hsuff : Inv (Bulk.runBulk bulkCtrl { atomic := atomic, cof := cof }
      (fun p => Bulk.runSeq Bulk.elementTag bulkApply cof els 0 false p) (s1, none)).2.2.1 ∧
      Ext s1 (Bulk.runBulk bulkCtrl { atomic := atomic, cof := cof }
      (fun p => Bulk.runSeq Bulk.elementTag bulkApply cof els 0 false p) (s1, none)).2.2.1 from
    ⟨hsuff.1, hx1.trans hsuff.2⟩
  cases atomic with
  | false =>
    rw [runBulk_state_nonatomic]
    have := runSeq_inv Bulk.elementTag bulkApply (PlainP s1) (bulkApply_plain hpre1) cof els 0 false
      (s1, none) ⟨rfl, hi1, Ext.refl _⟩
    exact ⟨this.2.1, this.2.2⟩
  | true =>
    have hb := wBegin_pres hi1 (good_root s1.nT) rfl
    rcases runBulk_state_atomic bulkCtrl cof
      (fun p => Bulk.runSeq Bulk.elementTag bulkApply cof els 0 false p) (s1, none) with
      ⟨e, hbe, hst⟩ | ⟨hbo, hst⟩
    · rw [hst, bulkCtrl_begin_eq]
      rw [bulkCtrl_begin_eq] at hbe
      split at hbe
      · cases hbe
      · rename_i e' s2 heq
        rw [heq] at hb
        exact ⟨hb.1, hb.2.1⟩
    · rw [bulkCtrl_begin_eq] at hbo hst
      split at hbo
      · rename_i c s2 heq
        rw [heq] at hb hst
        simp only [] at hst hb
        obtain ⟨hi2, hx2, hg⟩ := hb
        obtain ⟨hceq, hnT2, hopn2, hgc, hlc, _⟩ := hg c rfl
        have ho : Owner c (s1.nT + 1) := by
          subst hceq
          exact ⟨rfl, rfl, rfl, rfl, rfl⟩
        have hbinv : BInv (false = false) s2 (s1.nT + 1) := by
          refine ⟨hi2.weaken (fun _ _ => rfl), fun _ => hi2.weaken (fun _ _ => rfl), hopn2, by omega,
            by rw [hnT2], ?_⟩
          intro t ht
          exact hi2.fresh t (by rw [hnT2]; exact ht)
        have hlk2 : s2.inUse = true ∨ s2.lockTx true = true := by
          rcases hpre1 with hp | hp
          · exact Or.inl (hx2.inUse hp)
          · exact Or.inr (by rw [hx2.lockTx]; exact hp)
        have hrun := runSeq_inv2 Bulk.elementTag bulkApply (AtomP s2 c (s1.nT + 1))
          (fun e p he hp => bulkApply_atom ho e p he hp) cof els 0 false (s2, some (c, s2.inUse))
          ⟨s2.inUse, rfl, hlk2, hbinv, Ext.refl _⟩
        generalize hfin : Bulk.runSeq Bulk.elementTag bulkApply cof els 0 false (s2, some (c, s2.inUse)) = fin at *
        obtain ⟨rs, hE, ps, pc⟩ := fin
        obtain ⟨iu, hpc, _, hpb, hpx⟩ := hrun
        simp only [] at hpc hpb hpx hst
        subst hpc
        rcases hst with ⟨hhe, hst⟩ | ⟨hhe, hst⟩
        · rw [hst, bulkCtrl_rollback_some]
          have := binv_rollback hpb ho
          exact ⟨this.1, (hx2.trans hpx).trans this.2⟩
        · rw [hst, bulkCtrl_commit_some]
          have := binv_commit (hpb.weaken (fun _ => hhe)) ho
          exact ⟨this.1, (hx2.trans hpx).trans this.2⟩
      · cases hbo

/-- Every handle of the raw-call table is a wrapper of the discipline. -/
def HG (s : St) : Prop := ∀ c ∈ s.handles, Good s.nT c

theorem HG.of_ext {s s' : St} (hg : HG s) (hx : Ext s s') : HG s' := by
  intro c hc
  rw [hx.handles] at hc
  exact (hg c hc).mono hx.nT

theorem HG.of_eq {s s' : St} (hg : HG s) (hh : s'.handles = s.handles) (hn : s'.nT = s.nT) : HG s' := by
  intro c hc
  rw [hh] at hc
  rw [hn]
  exact hg c hc

/-- What a client operation keeps. -/
structure Keep (s s' : St) : Prop where
  lockTx : s'.lockTx = s.lockTx

theorem callOn_pres {lockInTx : Bool} {s : St} {w : W} (h : Inv s) (hg : HG s) (hw : Good s.nT w)
    (hL : lockInTx = true → s.lockTx true = true) (c : Call) (hok : callOk lockInTx w c = true) :
    Inv (callOn s w c).2 ∧ HG (callOn s w c).2 ∧ (callOn s w c).2.lockTx = s.lockTx := by
  cases c with
  | write hh k dry ok wid =>
    have hi : Inv { s with script := upd s.script wid ok } := InvE.of_eq h rfl rfl rfl rfl rfl
    have := wWrite_pres (c := w) hi hw k dry wid
    refine ⟨this.1, ?_, this.2.lockTx⟩
    exact HG.of_ext (s := { s with script := upd s.script wid ok }) hg this.2
  | begin hh ok =>
    have hu : w.u = .none := by simpa [callOk] using hok
    have hi : Inv { s with faults := { begin := !ok } } := InvE.of_eq h rfl rfl rfl rfl rfl
    have hb := wBegin_pres (c := w) hi hw hu
    have hcall : callOn s w (.begin hh ok) = (match wBegin { s with faults := { begin := !ok } } w with
        | (.ok n, s) => (Ret.ok, { s with handles := s.handles ++ [n] })
        | (.error e, s) => (e, s)) := rfl
    rw [hcall]
    split
    · rename_i n s1 heq
      rw [heq] at hb
      obtain ⟨hi1, hx1, hgn⟩ := hb
      refine ⟨InvE.of_eq hi1 rfl rfl rfl rfl rfl, ?_, hx1.lockTx⟩
      intro c hc
      have hc' : c ∈ s1.handles ++ [n] := hc
      simp only [List.mem_append, List.mem_singleton] at hc'
      rcases hc' with hc' | hc'
      · exact HG.of_ext (s := { s with faults := { begin := !ok } }) hg hx1 c hc'
      · subst hc'; exact (hgn _ rfl).2.2.2.1
    · rename_i e s1 heq
      rw [heq] at hb
      exact ⟨hb.1, HG.of_ext (s := { s with faults := { begin := !ok } }) hg hb.2.1, hb.2.1.lockTx⟩
  | lock hh ok =>
    have hpre : w.u = .none ∨ s.lockTx true = true := by
      simp only [callOk, Bool.or_eq_true, beq_iff_eq] at hok
      rcases hok with hu | hl
      · exact Or.inl hu
      · exact Or.inr (hL hl)
    have hi : Inv { s with faults := { lock := !ok } } := InvE.of_eq h rfl rfl rfl rfl rfl
    have hb := wLock_pres (c := w) hi hw hpre
    have hcall : callOn s w (.lock hh ok) = (match wLock { s with faults := { lock := !ok } } w with
        | (.ok n, s) => (Ret.ok, { s with handles := s.handles ++ [n] })
        | (.error e, s) => (e, s)) := rfl
    rw [hcall]
    split
    · rename_i n s1 heq
      rw [heq] at hb
      obtain ⟨hi1, hx1, hgn⟩ := hb
      refine ⟨InvE.of_eq hi1 rfl rfl rfl rfl rfl, ?_, hx1.lockTx⟩
      intro c hc
      have hc' : c ∈ s1.handles ++ [n] := hc
      simp only [List.mem_append, List.mem_singleton] at hc'
      rcases hc' with hc' | hc'
      · exact HG.of_ext (s := { s with faults := { lock := !ok } }) hg hx1 c hc'
      · subst hc'; exact hgn _ rfl
    · rename_i e s1 heq
      rw [heq] at hb
      exact ⟨hb.1, HG.of_ext (s := { s with faults := { lock := !ok } }) hg hb.2.1, hb.2.1.lockTx⟩
  | commit hh ok =>
    have hpre : w.u = .none ∨ w.lockCreated = false := by
      simp only [callOk, Bool.or_eq_true, beq_iff_eq, Bool.not_eq_true'] at hok
      exact hok
    have hi : Inv { s with faults := { commit := !ok } } := InvE.of_eq h rfl rfl rfl rfl rfl
    have := wCommit_pres (c := w) hi hw hpre rfl
    exact ⟨this.1, HG.of_ext (s := { s with faults := { commit := !ok } }) hg this.2, this.2.lockTx⟩
  | rollback hh ok =>
    have hi : Inv { s with faults := { rollback := !ok } } := InvE.of_eq h rfl rfl rfl rfl rfl
    have := wRollback_pres (c := w) hi hw
    exact ⟨this.1, HG.of_ext (s := { s with faults := { rollback := !ok } }) hg this.2, this.2.lockTx⟩

theorem stepOp_pres {lockInTx : Bool} {s : St} (h : Inv s) (hg : HG s)
    (hL : lockInTx = true → s.lockTx true = true) (op : Op) (hok : opOk lockInTx s op = true) :
    Inv (stepOp s op).2 ∧ HG (stepOp s op).2 ∧ (stepOp s op).2.lockTx = s.lockTx := by
  cases op with
  | raw c =>
    simp only [stepOp, rawCall]
    simp only [opOk] at hok
    cases hh : s.handles[c.h]? with
    | none => exact ⟨h, hg, rfl⟩
    | some w =>
      rw [hh] at hok
      have hw : Good s.nT w := hg w (List.mem_of_getElem? hh)
      have := callOn_pres h hg hw hL c hok
      simp only []
      exact ⟨InvE.of_eq this.1 rfl rfl rfl rfl rfl, HG.of_eq this.2.1 rfl rfl, this.2.2⟩
  | swrite k dry ok w f =>
    simp only [opOk, Bool.or_eq_true] at hok
    have hi : Inv { s with script := upd s.script w ok, faults := f } := InvE.of_eq h rfl rfl rfl rfl rfl
    have hpre : s.inUse = true ∨ s.lockTx true = true := hok.imp id hL
    have := facadeWrite_pres (s := { s with script := upd s.script w ok, faults := f }) hi hpre k dry w
    simp only [stepOp]
    exact ⟨InvE.of_eq this.1 rfl rfl rfl rfl rfl,
      HG.of_eq (HG.of_ext (s := { s with script := upd s.script w ok, faults := f }) hg this.2) rfl rfl,
      this.2.lockTx⟩
  | bulk atomic cof els f =>
    simp only [opOk, Bool.or_eq_true] at hok
    have hi : Inv { s with faults := f } := InvE.of_eq h rfl rfl rfl rfl rfl
    have hpre : s.inUse = true ∨ s.lockTx true = true := hok.imp id hL
    have := bulkOp_pres (s := { s with faults := f }) hi atomic cof els hpre
    simp only [stepOp]
    exact ⟨InvE.of_eq this.1 rfl rfl rfl rfl rfl,
      HG.of_eq (HG.of_ext (s := { s with faults := f }) hg this.2) rfl rfl, this.2.lockTx⟩

theorem runOps_pres {lockInTx : Bool} (ops : List Op) (s : St) (h : Inv s) (hg : HG s)
    (hL : lockInTx = true → s.lockTx true = true) (hd : disciplined lockInTx s ops = true) :
    Inv (runOps s ops).2 := by
  induction ops generalizing s with
  | nil => exact h
  | cons op ops ih =>
    simp only [disciplined, Bool.and_eq_true] at hd
    have hs := stepOp_pres h hg hL op hd.1
    simp only [runOps]
    exact ih (stepOp s op).2 hs.1 hs.2.1 (fun hl => by rw [hs.2.2]; exact hL hl) hd.2

theorem inv_init (lockTx : Bool → Bool) (hl : lockTx false = false) (inUse : Bool) :
    Inv { lockTx := lockTx, inUse := inUse } ∧ HG { lockTx := lockTx, inUse := inUse } := by
  refine ⟨⟨rfl, rfl, fun _ _ _ => rfl, ?_, fun t _ => ⟨rfl, rfl⟩, hl⟩, ?_⟩
  · intro t ho
    exact absurd ho (by simp)
  · intro c hc
    simp only [List.mem_singleton] at hc
    subst hc
    exact good_root _

/-- From the invariant to C31's predicate. -/
theorem c31Ok_of_inv {s : St} (h : Inv s) : c31Ok s.trace = true := by
  unfold c31Ok
  simp only [h.bad, Bool.not_false, Bool.true_and, List.all_eq_true, beq_iff_eq]
  intro x _
  rw [h.pub]

end Ledger.Wrap
