import Ledger.Proofs.MachineBal

/-! Accounting lemmas for sources: the funding a source yields is exactly what was
    removed from the tracked balances, and a bounded account never goes below its
    floor. -/
namespace Ledger.Machine

variable {cfg : Cfg}

/-- Funds of account `a`, asset `c`, inside one funding. -/
def fl (a c : String) (f : Funding) : Int := if f.asset = c then acctTotal a f.parts else 0

def inFlight (a c : String) : List Funding → Int
  | [] => 0
  | f :: fs => fl a c f + inFlight a c fs

/-- `b'` differs from `b` by `δ` on every tracked pair of a non-world account. -/
structure Delta (b b' : Balances) (δ : String → String → Int) : Prop where
  hasAcct : b'.hasAcct = b.hasAcct
  wf : b.WF → b'.WF
  bal : ∀ a c v, a ≠ "world" → b.WF → b.get a c = some v → b'.get a c = some (v + δ a c)

theorem Delta.refl (b : Balances) : Delta b b (fun _ _ => 0) :=
  ⟨rfl, id, fun a c v _ _ h => by simp [h]⟩

theorem Delta.trans {b1 b2 b3 : Balances} {d1 d2 d3 : String → String → Int}
    (h1 : Delta b1 b2 d1) (h2 : Delta b2 b3 d2) (he : ∀ a c, d3 a c = d1 a c + d2 a c) :
    Delta b1 b3 d3 where
  hasAcct := h2.hasAcct.trans h1.hasAcct
  wf := fun h => h2.wf (h1.wf h)
  bal := by
    intro a c v ha hwf hg
    rw [h2.bal a c _ ha (h1.wf hwf) (h1.bal a c v ha hwf hg), he]
    simp; omega

theorem Delta.congr {b1 b2 : Balances} {d1 d2 : String → String → Int}
    (h1 : Delta b1 b2 d1) (he : ∀ a c, d2 a c = d1 a c) : Delta b1 b2 d2 :=
  ⟨h1.hasAcct, h1.wf, fun a c v ha hwf hg => by rw [h1.bal a c v ha hwf hg, he]⟩

/-- The tracked balance of `(a, c)` stays above `min (its value) (-B)`. -/
def Floor (a c : String) (B : Int) (b b' : Balances) : Prop :=
  ∀ v, b.get a c = some v → ∃ v', b'.get a c = some v' ∧ min v (-B) ≤ v'

theorem Floor.refl (a c : String) (B : Int) (b : Balances) : Floor a c B b b :=
  fun v h => ⟨v, h, by omega⟩

theorem Floor.trans {a c : String} {B : Int} {b1 b2 b3 : Balances}
    (h1 : Floor a c B b1 b2) (h2 : Floor a c B b2 b3) : Floor a c B b1 b3 := by
  intro v hv
  obtain ⟨v1, g1, l1⟩ := h1 v hv
  obtain ⟨v2, g2, l2⟩ := h2 v1 g1
  exact ⟨v2, g2, by omega⟩

theorem Delta.floor {b b' : Balances} {d : String → String → Int} (h : Delta b b' d)
    {a c : String} (B : Int) (ha : a ≠ "world") (hwf : b.WF) (hd : 0 ≤ d a c) : Floor a c B b b' :=
  fun v hv => ⟨v + d a c, h.bal a c v ha hwf hv, by omega⟩

theorem acctTotal_nonneg (a : String) (ps : List Part) (h : partsNonneg ps) : 0 ≤ acctTotal a ps :=
  totalOf_nonneg _ _ h

theorem fl_nonneg (a c : String) (f : Funding) (h : partsNonneg f.parts) : 0 ≤ fl a c f := by
  unfold fl; split
  · exact acctTotal_nonneg a _ h
  · omega

theorem fl_single (a c asset acc : String) (amt : Int) :
    fl a c ⟨asset, [⟨acc, amt⟩]⟩ = if a = acc ∧ c = asset then amt else 0 := by
  simp only [fl, acctTotal, totalOf]
  by_cases x : acc = a
  · subst x
    by_cases y : asset = c
    · subst y; simp
    · have : ¬ c = asset := fun h => y h.symm
      simp [y, this]
  · have x' : ¬ a = acc := fun h => x h.symm
    have : (acc == a) = false := by simpa using x
    simp [this, x']

theorem repay_delta (b : Balances) (asset : String) (parts : List Part) :
    Delta b (repay b asset parts) (fun a c => fl a c ⟨asset, parts⟩) := by
  obtain ⟨h1, h2, h3⟩ := repay_spec asset parts b
  refine ⟨h1, h2, ?_⟩
  intro a c v ha hwf hg
  rw [h3 a c v ha hwf hg]
  simp only [fl]
  by_cases h : c = asset
  · simp [h]
  · have : ¬ asset = c := fun x => h x.symm
    simp [h, this]

theorem withdrawAlways_delta (b : Balances) (acc asset : String) (amt : Int) :
    Delta b (withdrawAlways b acc asset amt).2
      (fun a c => - fl a c ⟨asset, [(withdrawAlways b acc asset amt).1]⟩) := by
  obtain ⟨h0, h1, h2, h3⟩ := withdrawAlways_spec b acc asset amt
  refine ⟨h1, h2, ?_⟩
  intro a c v _ _ hg
  rw [h3 a c v hg, h0, fl_single]
  split <;> simp <;> omega

theorem withdrawAll_delta {b b' : Balances} {acc asset : String} {od : Option Int} {p : Part}
    (h : withdrawAll b acc asset od = .ok (p, b')) :
    Delta b b' (fun a c => - fl a c ⟨asset, [p]⟩) := by
  obtain ⟨h0, _, h1, h2, h3, _⟩ := withdrawAll_spec h
  refine ⟨h1, h2, ?_⟩
  intro a c v _ _ hg
  rw [h3 a c v hg]
  have hp : p = ⟨acc, p.amount⟩ := by cases p; simp_all
  rw [hp, fl_single]
  split <;> simp <;> omega

theorem checkOverdraft_spec {cfg : Cfg} {asset : String} {od r : String × Option Int}
    (h : checkOverdraft cfg asset od = .ok r) :
    r.1 = od.1 ∧ nilAsZero r.2 = nilAsZero od.2 ∧ (cfg.overdraftAssetCheck = true → od.1 = asset) := by
  unfold checkOverdraft at h
  split at h
  · rename_i hc
    split at h
    · cases h
    · rename_i ha
      cases h
      refine ⟨rfl, by simp [nilAsZero], fun _ => by simpa using ha⟩
  · rename_i hc
    cases h
    exact ⟨rfl, rfl, fun x => absurd x hc⟩

/-! ### Hypothesis of C23 on the syntax -/

/-- What C23 assumes of a source leaf that resolves to account `a`: it is not
    declared unbounded, and an overdraft allowance in asset `c` is at most `B`. -/
def leafOK (env : Env) (a c : String) (B : Int) (e : Expr) (od : Overdraft) : Prop :=
  evalAccount env e = .ok a →
    match od with
    | .none => True
    | .unbounded => False
    | .upTo x => ∀ c' ov, evalMonetary env x = .ok (c', ov) → c' = c → nilAsZero ov ≤ B

mutual
  def SrcBound (env : Env) (a c : String) (B : Int) : Source → Prop
    | .account e od => leafOK env a c B e od
    | .maxed _ s => SrcBound env a c B s
    | .inorder ss => SrcsBound env a c B ss
  def SrcsBound (env : Env) (a c : String) (B : Int) : SourceList → Prop
    | .nil => True
    | .cons s ss => SrcBound env a c B s ∧ SrcsBound env a c B ss
end

mutual
  /-- The fallback account of a source within its bounds is never `a`. -/
  theorem fallback_ne (env : Env) (a c : String) (B : Int) (ha : a ≠ "world") :
      (s : Source) → SrcBound env a c B s → ∀ e, s.fallback = some e → evalAccount env e ≠ .ok a
    | .account e od, hb, e', he => by
      simp only [SrcBound, leafOK] at hb
      simp only [Source.fallback] at he
      intro hacc
      cases od with
      | none =>
        simp only at he
        split at he
        · rename_i hw
          cases he
          cases e with
          | acct s =>
            simp only [Expr.isWorld, decide_eq_true_eq] at hw
            subst hw
            simp [evalAccount, evalExpr] at hacc
            exact ha hacc.symm
          | _ => simp [Expr.isWorld] at hw
        · cases he
      | upTo x => simp at he
      | unbounded =>
        simp only at he
        cases he
        exact hb hacc
    | .maxed _ s, _, e', he => by simp [Source.fallback] at he
    | .inorder ss, hb, e', he => by
      simp only [Source.fallback] at he
      simp only [SrcBound] at hb
      exact fallbacks_ne env a c B ha ss hb e' he
  theorem fallbacks_ne (env : Env) (a c : String) (B : Int) (ha : a ≠ "world") :
      (ss : SourceList) → SrcsBound env a c B ss → ∀ e, ss.fallback = some e → evalAccount env e ≠ .ok a
    | .nil, _, e', he => by simp [SourceList.fallback] at he
    | .cons s .nil, hb, e', he => by
      simp only [SourceList.fallback] at he
      simp only [SrcsBound] at hb
      exact fallback_ne env a c B ha s hb.1 e' he
    | .cons _ (.cons s ss), hb, e', he => by
      simp only [SourceList.fallback] at he
      simp only [SrcsBound] at hb
      exact fallbacks_ne env a c B ha (.cons s ss) (by simpa [SrcsBound] using hb.2) e' he
end

/-! ### `takeMaxStep` / `takeFromSource` -/

/-- What the "take from a funding" steps guarantee. -/
structure TakeOK (env : Env) (fb : Option Expr) (f : Funding) (mon : String × Option Int)
    (b : Balances) (r : Funding) (b' : Balances) : Prop where
  assetR : r.asset = mon.1
  assetF : f.asset = mon.1
  nonneg : partsNonneg f.parts → partsNonneg r.parts
  delta : Delta b b' (fun a c => fl a c f - fl a c r)
  floor : ∀ a c B, a ≠ "world" → b.WF → partsNonneg f.parts →
    (∀ e, fb = some e → evalAccount env e ≠ .ok a) → Floor a c B b b'

theorem fl_concat (a c asset : String) (x y : List Part) :
    fl a c ⟨asset, concatParts x y⟩ = fl a c ⟨asset, x⟩ + fl a c ⟨asset, y⟩ := by
  simp only [fl, acctTotal, concatParts_totalOf]
  split <;> omega

theorem takeMaxStep_ok {env : Env} {fb : Option Expr} {f : Funding} {mon : String × Option Int}
    {b b' : Balances} {r : Funding} (h : takeMaxStep env fb f mon b = .ok (r, b')) :
    TakeOK env fb f mon b r b' ∧
    (partsNonneg f.parts → ∃ amt, mon.2 = some amt ∧ 0 ≤ amt ∧
      (fb.isSome → total r.parts = amt) ∧ (fb = none → total r.parts ≤ amt)) := by
  unfold takeMaxStep at h
  split at h
  · cases h
  · rename_i amt hamt
    split at h
    · cases h
    · rename_i hneg
      split at h
      · cases h
      · rename_i hasset
        have hasset' : f.asset = mon.1 := by simpa using hasset
        have dRepay := repay_delta b f.asset (takeMax f.parts amt).2
        have hamt' : mon.2 = some amt := by
          cases hm : mon.2 with
          | none => simp [hm, needAmt] at hamt
          | some v => simp [hm, needAmt] at hamt; simp [hamt]
        cases fb with
        | none =>
          simp only at h
          cases h
          refine ⟨⟨hasset', hasset', fun hf => (takeMax_nonneg _ amt hf).1, ?_, ?_⟩, ?_⟩
          · refine dRepay.congr ?_
            intro a c
            simp only [fl]
            have := takeMax_totalOf (fun x => x == a) f.parts amt
            simp only [acctTotal]
            split <;> omega
          · intro a c B ha hwf hf _
            exact dRepay.floor B ha hwf (fl_nonneg a c _ (takeMax_nonneg _ amt hf).2)
          · intro hf
            refine ⟨amt, hamt', by omega, by simp, ?_⟩
            intro _
            have := takeMax_total f.parts amt hf (by omega)
            simp only
            split at this <;> omega
        | some fbE =>
          simp only at h
          split at h
          · cases h
          · rename_i fbAcc hfb
            cases h
            have dW := withdrawAlways_delta (repay b f.asset (takeMax f.parts amt).2) fbAcc mon.1
              (if total f.parts < amt then amt - total f.parts else 0)
            have hw1 := (withdrawAlways_spec (repay b f.asset (takeMax f.parts amt).2) fbAcc mon.1
              (if total f.parts < amt then amt - total f.parts else 0)).1
            have hmiss : 0 ≤ (if total f.parts < amt then amt - total f.parts else 0) := by
              split <;> omega
            refine ⟨⟨rfl, hasset', ?_, ?_, ?_⟩, ?_⟩
            · intro hf
              refine concatParts_nonneg _ _ (takeMax_nonneg _ amt hf).1 ?_
              rw [hw1]
              exact partsNonneg_cons.mpr ⟨hmiss, partsNonneg_nil⟩
            · refine Delta.trans dRepay dW ?_
              intro a c
              rw [fl_concat]
              simp only [fl, hasset']
              have := takeMax_totalOf (fun x => x == a) f.parts amt
              simp only [acctTotal]
              split <;> omega
            · intro a c B ha hwf hf hne
              have f1 := dRepay.floor B ha hwf (fl_nonneg a c _ (takeMax_nonneg _ amt hf).2)
              refine f1.trans ?_
              have hne' : fbAcc ≠ a := by
                intro x; subst x; exact hne fbE rfl hfb
              refine dW.floor B ha (dRepay.wf hwf) ?_
              rw [hw1]
              simp only [fl, acctTotal, totalOf]
              have : (fbAcc == a) = false := by simpa using hne'
              simp [this]
            · intro hf
              refine ⟨amt, hamt', by omega, ?_, by simp⟩
              intro _
              simp only
              rw [concatParts_total, hw1]
              have := takeMax_total f.parts amt hf (by omega)
              simp only [total] at *
              omega

theorem takeFromSource_ok {env : Env} {fb : Option Expr} {f : Funding} {mon : String × Option Int}
    {b b' : Balances} {r : Funding} (h : takeFromSource env fb f mon b = .ok (r, b')) :
    TakeOK env fb f mon b r b' ∧
    (partsNonneg f.parts → mon.2 = some (total r.parts)) := by
  unfold takeFromSource at h
  split at h
  · rename_i e
    obtain ⟨h1, h2⟩ := takeMaxStep_ok h
    refine ⟨h1, ?_⟩
    intro hf
    obtain ⟨amt, e1, _, e2, _⟩ := h2 hf
    rw [e1, e2 (by simp)]
  · split at h
    · cases h
    · rename_i hasset
      have hasset' : f.asset = mon.1 := by simpa using hasset
      split at h
      · cases h
      · rename_i amt hamt
        have hamt' : mon.2 = some amt := by
          cases hm : mon.2 with
          | none => simp [hm, needAmt] at hamt
          | some v => simp [hm, needAmt] at hamt; simp [hamt]
        split at h
        · cases h
        · rename_i res rem htake
          cases h
          have dRepay := repay_delta b f.asset rem
          refine ⟨⟨hasset', hasset', fun hf => (take_nonneg htake hf).1, ?_, ?_⟩, ?_⟩
          · refine dRepay.congr ?_
            intro a c
            simp only [fl]
            have := take_totalOf (fun x => x == a) htake
            simp only [acctTotal]
            split <;> omega
          · intro a c B ha hwf hf _
            exact dRepay.floor B ha hwf (fl_nonneg a c _ (take_nonneg htake hf).2)
          · intro _
            rw [hamt', take_total htake]

/-! ### Sources -/

/-- What evaluating sources guarantees: the fundings are non-negative and are
    exactly what left the tracked balances. -/
structure SrcOK (b b' : Balances) (fs : List Funding) : Prop where
  nonneg : ∀ f ∈ fs, partsNonneg f.parts
  delta : Delta b b' (fun a c => - inFlight a c fs)

theorem concatAll_totalOf_aux (P : String → Bool) (fs : List Funding) (acc : List Part) :
    totalOf P (fs.foldl (fun acc f => concatParts acc f.parts) acc) =
      totalOf P acc + (fs.map (fun f => totalOf P f.parts)).sum := by
  induction fs generalizing acc with
  | nil => simp
  | cons f fs ih =>
    simp only [List.foldl_cons, List.map_cons, List.sum_cons]
    rw [ih, concatParts_totalOf]; omega

theorem concatAll_nonneg_aux (fs : List Funding) (acc : List Part) (hacc : partsNonneg acc)
    (h : ∀ f ∈ fs, partsNonneg f.parts) :
    partsNonneg (fs.foldl (fun acc f => concatParts acc f.parts) acc) := by
  induction fs generalizing acc with
  | nil => simpa using hacc
  | cons f fs ih =>
    simp only [List.foldl_cons]
    exact ih _ (concatParts_nonneg _ _ hacc (h f (by simp))) (fun g hg => h g (by simp [hg]))

theorem inFlight_same_asset (a c asset : String) (fs : List Funding) (h : ∀ g ∈ fs, g.asset = asset) :
    (if asset = c then (fs.map (fun f => totalOf (fun x => x == a) f.parts)).sum else 0) =
      inFlight a c fs := by
  induction fs with
  | nil => simp [inFlight]
  | cons g gs ih =>
    have hg : g.asset = asset := h g (by simp)
    have := ih (fun x hx => h x (by simp [hx]))
    simp only [List.map_cons, List.sum_cons, inFlight, fl, acctTotal, hg]
    by_cases hc : asset = c
    · rw [if_pos hc] at this ⊢
      rw [if_pos hc, this]
    · rw [if_neg hc] at this ⊢
      rw [if_neg hc, ← this]; simp

theorem assemble_ok {fs : List Funding} {f : Funding} (h : assemble fs = .ok f) :
    (∀ a c, fl a c f = inFlight a c fs) ∧ ((∀ g ∈ fs, partsNonneg g.parts) → partsNonneg f.parts) ∧
    (∀ g ∈ fs, g.asset = f.asset) ∧
    (total f.parts = (fs.map (fun g => total g.parts)).sum) := by
  unfold assemble at h
  split at h
  · cases h
  · rename_i l _
    split at h
    · rename_i hall
      cases h
      have hall' : ∀ g ∈ fs, g.asset = l.asset := by
        intro g hg
        have := List.all_eq_true.mp hall g hg
        simpa using this
      refine ⟨?_, ?_, hall', ?_⟩
      · intro a c
        simp only [fl, acctTotal, concatAll]
        rw [concatAll_totalOf_aux]
        simp only [totalOf, Int.zero_add]
        exact inFlight_same_asset a c l.asset fs hall'
      · intro hnn
        exact concatAll_nonneg_aux fs [] partsNonneg_nil hnn
      · simp only [concatAll, total_eq_totalOf]
        rw [concatAll_totalOf_aux]
        simp [totalOf]
    · cases h

theorem SrcOK.cons {b b1 b2 : Balances} {f : Funding} {fs : List Funding}
    (h1 : SrcOK b b1 [f]) (h2 : SrcOK b1 b2 fs) : SrcOK b b2 (f :: fs) where
  nonneg := by
    intro g hg
    rcases List.mem_cons.mp hg with rfl | hg
    · exact h1.nonneg _ (by simp)
    · exact h2.nonneg g hg
  delta := Delta.trans h1.delta h2.delta (by intro a c; simp [inFlight]; omega)

theorem SrcOK.single_of_delta {b b' : Balances} {f : Funding} (hn : partsNonneg f.parts)
    (hd : Delta b b' (fun a c => - fl a c f)) : SrcOK b b' [f] where
  nonneg := by intro g hg; simp at hg; subst hg; exact hn
  delta := hd.congr (by intro a c; simp [inFlight])

mutual
  theorem evalSource_ok (cfg : Cfg) (env : Env) (asset : String) :
      (s : Source) → (b : Balances) → (f : Funding) → (b' : Balances) →
      evalSource cfg env asset s b = .ok (f, b') →
      SrcOK b b' [f] ∧
      (∀ a c B, a ≠ "world" → 0 ≤ B → b.WF → SrcBound env a c B s → Floor a c B b b')
    | .account e od, b, f, b', h => by
      simp only [evalSource] at h
      split at h
      · cases h
      · rename_i acc hacc
        cases od with
        | none =>
          simp only at h
          split at h
          · cases h
            have d := withdrawAlways_delta b acc asset 0
            have s1 := (withdrawAlways_spec b acc asset 0).1
            refine ⟨SrcOK.single_of_delta ?_ d, ?_⟩
            · simp only [s1]; exact partsNonneg_cons.mpr ⟨by simp, partsNonneg_nil⟩
            · intro a c B ha _ hwf _
              refine d.floor B ha hwf ?_
              rw [s1, fl_single]
              split <;> simp
          · split at h
            · cases h
            · rename_i p b1 hw
              cases h
              obtain ⟨w0, w1, _, _, w4, w5⟩ := withdrawAll_spec hw
              refine ⟨SrcOK.single_of_delta (partsNonneg_cons.mpr ⟨w1, partsNonneg_nil⟩)
                (withdrawAll_delta hw), ?_⟩
              intro a c B ha hB _ _
              by_cases hx : a = acc ∧ c = asset
              · obtain ⟨rfl, rfl⟩ := hx
                intro v hv
                obtain ⟨v', g1, g2⟩ := w5 v hv
                simp only [nilAsZero] at g2
                exact ⟨v', g1, by omega⟩
              · intro v hv
                refine ⟨v, ?_, by omega⟩
                rw [w4 a c v hv]; simp [hx]
        | upTo x =>
          simp only at h
          split at h
          · cases h
          · rename_i odv hmon
            split at h
            · cases h
            · rename_i oa ov hchk
              obtain ⟨c1, c2, _⟩ := checkOverdraft_spec hchk
              simp only at c1 c2
              split at h
              · cases h
              · rename_i p b1 hw
                cases h
                obtain ⟨w0, w1, _, _, w4, w5⟩ := withdrawAll_spec hw
                refine ⟨SrcOK.single_of_delta (partsNonneg_cons.mpr ⟨w1, partsNonneg_nil⟩)
                  (withdrawAll_delta hw), ?_⟩
                intro a c B ha hB _ hb
                simp only [SrcBound, leafOK] at hb
                by_cases hx : a = acc ∧ c = oa
                · obtain ⟨rfl, rfl⟩ := hx
                  intro v hv
                  obtain ⟨v', g1, g2⟩ := w5 v hv
                  have := hb hacc odv.1 odv.2 (by rw [hmon]) c1.symm
                  exact ⟨v', g1, by omega⟩
                · intro v hv
                  refine ⟨v, ?_, by omega⟩
                  rw [w4 a c v hv]; simp [hx]
        | unbounded =>
          simp only at h
          cases h
          have d := withdrawAlways_delta b acc asset 0
          have s1 := (withdrawAlways_spec b acc asset 0).1
          refine ⟨SrcOK.single_of_delta ?_ d, ?_⟩
          · simp only [s1]; exact partsNonneg_cons.mpr ⟨by simp, partsNonneg_nil⟩
          · intro a c B ha _ hwf _
            refine d.floor B ha hwf ?_
            rw [s1, fl_single]
            split <;> simp
    | .maxed m s, b, f, b', h => by
      simp only [evalSource] at h
      split at h
      · cases h
      · rename_i f0 b1 hs
        obtain ⟨i1, i2⟩ := evalSource_ok cfg env asset s b f0 b1 hs
        split at h
        · cases h
        · rename_i mon _
          obtain ⟨t, _⟩ := takeMaxStep_ok h
          have hn0 : partsNonneg f0.parts := i1.nonneg f0 (by simp)
          refine ⟨SrcOK.single_of_delta (t.nonneg hn0) ?_, ?_⟩
          · refine Delta.trans i1.delta t.delta ?_
            intro a c; simp [inFlight]; omega
          · intro a c B ha hB hwf hb
            simp only [SrcBound] at hb
            refine (i2 a c B ha hB hwf hb).trans ?_
            exact t.floor a c B ha (i1.delta.wf hwf) hn0
              (fun e he => fallback_ne env a c B ha s hb e he)
    | .inorder ss, b, f, b', h => by
      simp only [evalSource] at h
      split at h
      · cases h
      · rename_i fs b1 hs
        obtain ⟨i1, i2⟩ := evalSources_ok cfg env asset ss b fs b1 hs
        split at h
        · cases h
        · rename_i f1 hasm
          cases h
          obtain ⟨a1, a2, _, _⟩ := assemble_ok hasm
          refine ⟨SrcOK.single_of_delta (a2 i1.nonneg) ?_, ?_⟩
          · exact i1.delta.congr (by intro a c; rw [a1])
          · intro a c B ha hB hwf hb
            simp only [SrcBound] at hb
            exact i2 a c B ha hB hwf hb
  theorem evalSources_ok (cfg : Cfg) (env : Env) (asset : String) :
      (ss : SourceList) → (b : Balances) → (fs : List Funding) → (b' : Balances) →
      evalSources cfg env asset ss b = .ok (fs, b') →
      SrcOK b b' fs ∧
      (∀ a c B, a ≠ "world" → 0 ≤ B → b.WF → SrcsBound env a c B ss → Floor a c B b b')
    | .nil, b, fs, b', h => by
      simp only [evalSources] at h
      cases h
      refine ⟨⟨(by intro g hg; cases hg), (Delta.refl b).congr (by intro a c; simp [inFlight])⟩, ?_⟩
      intro a c B _ _ _ _
      exact Floor.refl a c B b
    | .cons s ss, b, fs, b', h => by
      simp only [evalSources] at h
      split at h
      · cases h
      · rename_i f b1 hs
        obtain ⟨i1, i2⟩ := evalSource_ok cfg env asset s b f b1 hs
        split at h
        · cases h
        · rename_i fs' b2 hss
          obtain ⟨j1, j2⟩ := evalSources_ok cfg env asset ss b1 fs' b2 hss
          cases h
          refine ⟨i1.cons j1, ?_⟩
          intro a c B ha hB hwf hb
          simp only [SrcsBound] at hb
          exact (i2 a c B ha hB hwf hb.1).trans (j2 a c B ha hB (i1.delta.wf hwf) hb.2)
end

end Ledger.Machine
