import Ledger.Proofs.SqlMovesLoop
import Ledger.Proofs.SqlUpdateVis

/-!
# The UPDATE of `update_effective_volumes`, on any `moves` table
-/
open Ledger Ledger.Sql Ledger.Generated Ledger.Core
namespace Ledger.Sql
open Ledger.Spec

/-- `update_effective_volumes` for the NEW row `n` of ledger `ln`: which rows, and what they become -/
def bumpCond (ln : String) (n : Spec.MoveRow) (p : String × Spec.MoveRow) : Bool :=
  decide (p.2.account = n.account ∧ p.2.asset = n.asset ∧ p.1 = ln ∧ n.effectiveDate < p.2.effectiveDate)

def bumpRow (n : Spec.MoveRow) (m : Spec.MoveRow) : Spec.MoveRow := { m with pcev := m.pcev.add n.delta }

def mvG (ln : String) (n : Spec.MoveRow) (vals : List Value) : Bool :=
  match mvDec vals with
  | some p => bumpCond ln n p
  | none => false

def mvF (n : Spec.MoveRow) (vals : List Value) : List Value :=
  match mvDec vals with
  | some p => mvVals p.1 (bumpRow n p.2)
  | none => vals

@[simp] theorem mvG_mvVals (ln : String) (n : Spec.MoveRow) (l : String) (m : Spec.MoveRow) : mvG ln n (mvVals l m) = bumpCond ln n (l, m) := by
  simp [mvG, mvDec_mvVals]
@[simp] theorem mvF_mvVals (n : Spec.MoveRow) (l : String) (m : Spec.MoveRow) : mvF n (mvVals l m) = mvVals l (bumpRow n m) := by
  simp [mvF, mvDec_mvVals]

theorem mvVals_inj (l l' : String) (m m' : Spec.MoveRow) (h : mvVals l m = mvVals l' m') : l = l' ∧ m = m' := by
  have := congrArg mvDec h
  simpa [mvDec_mvVals] using this

/-- the storage invariant of `moves` as the transaction sees it -/
structure MvInv (lv : View) (bound : Int) (rows : List Ver) : Prop where
  all : MvAll bound rows
  ridNodup : ((rows.filter (fun r => r.visible lv)).map (·.rid)).Nodup
  seqNodup : ((rows.filter (fun r => r.visible lv)).map (fun r => seqOfVals r.vals)).Nodup

@[simp] theorem seqOfVals_mvVals (l : String) (m : Spec.MoveRow) : seqOfVals (mvVals l m) = m.seq := by
  simp [seqOfVals, mvDec_mvVals]

/-- no primary-key violation when no other visible row has the sequence number -/
theorem exec_findConflict_mv_ex (b : String) (trigs : List TriggerDef) (nr : Nat) (rows : List Ver) (l : String) (m : Spec.MoveRow)
    (ex : Option Nat) (s : St) (hsolo : ∀ y ∈ s.w.active, y = s.xid) (bound : Int) (hall : MvAll bound rows)
    (hno : ∀ q ∈ rows, q.visible (latestView s.w s.xid) = true → (some q.rid == ex) = false → seqOfVals q.vals ≠ m.seq) :
    (findConflict ((mvT b trigs nr).withRows rows) [mvIdx] (mvVals l m) ex).exec s = (.ok none, s) := by
  have hk : keyOf ((mvT b trigs nr).withRows rows) mvIdx.cols (mvVals l m) = [.int m.seq] := rfl
  have hs1 : (scanConflict ((mvT b trigs nr).withRows rows) mvIdx [.int m.seq] ex (latestView s.w s.xid) s.xid s.w.active rows).exec s =
      (.ok none, s) := by
    rw [exec_scanConflict_gen _ mvIdx _ ex _ s.xid s.w.active hsolo s (fun _ => false) rows (by
        intro r hr hv he
        obtain ⟨l', m', hvv, _⟩ := hall r hr
        rw [exec_keyMatches_mv b trigs nr rows m.seq l' m' r hvv s]
        have := hno r hr hv he
        rw [hvv, seqOfVals_mvVals] at this
        have : ¬ ((m'.seq : Int) = m.seq) := by omega
        simp [this])]
    simp
  have hp1 : (predHolds ((mvT b trigs nr).withRows rows) mvIdx.pred (mvVals l m)).exec s = (.ok true, s) := by
    simp [predHolds, mvIdx]
  have hrows : ((mvT b trigs nr).withRows rows).rows = rows := rfl
  rw [findConflict]
  simp only [exec_bind, hp1, Bool.not_true, Bool.false_eq_true, if_false, hk, List.any, Value.isNull, Bool.or_false,
    exec_get, hrows, hs1]
  simp [findConflict]

end Ledger.Sql

namespace Ledger.Sql
open Ledger.Spec

theorem mvUpdInv (b : String) (trigs : List TriggerDef) (nr : Nat) (w : World) (xid cid : Nat) (hx : xid ≠ 0) (hc : cid < 1000000000)
    (ln : String) (n : Spec.MoveRow) (bound : Int) :
    UpdInv (mvT b trigs nr) (mvG ln n) (mvF n) (latestView w xid) xid cid (fun r => ∃ l m, r.vals = mvVals l m)
      (MvInv (latestView w xid) bound) where
  step := by
    intro rows r hinv hr hv ⟨l, m, hvals⟩ hg
    have hfil := filter_vis_updStep w xid cid hx hc (mvG ln n) (mvF n) rows r hg
    have hff : rows.filter (fun q => q.visible (latestView w xid) && (q.rid != r.rid)) =
        (rows.filter (fun q => q.visible (latestView w xid))).filter (fun q => q.rid != r.rid) := by
      rw [List.filter_filter]
      apply List.filter_congr
      intro q _
      exact Bool.and_comm _ _
    rw [hff] at hfil
    have hrl : r ∈ rows.filter (fun q => q.visible (latestView w xid)) := List.mem_filter.mpr ⟨hr, hv⟩
    refine ⟨?_, ?_, ?_⟩
    · intro q hq
      unfold updStep at hq
      rw [if_pos hg] at hq
      simp only [List.mem_cons, List.mem_map] at hq
      rcases hq with rfl | ⟨q0, hq0, rfl⟩
      · obtain ⟨l', m', hv', hlt⟩ := hinv.all r hr
        obtain ⟨e1, e2⟩ := mvVals_inj _ _ _ _ (hvals.symm.trans hv')
        subst e1 e2
        exact ⟨l, bumpRow n m, by simp [newVer, hvals], hlt⟩
      · simpa using hinv.all q0 hq0
    · rw [hfil]
      simp only [List.map_cons, List.nodup_cons]
      refine ⟨?_, (List.filter_sublist.map _).nodup hinv.ridNodup⟩
      intro hmem
      obtain ⟨q, hq, he⟩ := List.mem_map.mp hmem
      have := (List.mem_filter.mp hq).2
      simp only [bne_iff_ne, ne_eq] at this
      exact this he
    · rw [hfil]
      simp only [List.map_cons, List.nodup_cons]
      refine ⟨?_, (List.filter_sublist.map _).nodup hinv.seqNodup⟩
      intro hmem
      obtain ⟨q, hq, he⟩ := List.mem_map.mp hmem
      have hqm := List.mem_filter.mp hq
      have hne := hqm.2
      simp only [bne_iff_ne, ne_eq] at hne
      have hsr : seqOfVals (newVer xid cid r.rid (mvF n r.vals)).vals = seqOfVals r.vals := by
        simp [newVer, hvals, bumpRow]
      rw [hsr] at he
      have := nodup_map_inj (fun x : Ver => seqOfVals x.vals) _ hinv.seqNodup q hqm.1 r hrl he
      exact hne (by rw [this])
  noConflict := by
    intro rows r hinv hr hv ⟨l, m, hvals⟩ hg s hs hlv hxid
    rw [hvals, mvF_mvVals]
    apply exec_findConflict_mv_ex b trigs nr rows l (bumpRow n m) (some r.rid) s hs.solo bound hinv.all
    intro q hq hvq hex
    rw [hlv] at hvq
    have hne : q.rid ≠ r.rid := by
      intro e; rw [e] at hex; simp at hex
    intro he
    have hrl : r ∈ rows.filter (fun q => q.visible (latestView w xid)) := List.mem_filter.mpr ⟨hr, hv⟩
    have hql : q ∈ rows.filter (fun q => q.visible (latestView w xid)) := List.mem_filter.mpr ⟨hq, hvq⟩
    have : seqOfVals q.vals = seqOfVals r.vals := by rw [he, hvals]; simp [bumpRow]
    have := nodup_map_inj (fun x : Ver => seqOfVals x.vals) _ hinv.seqNodup q hql r hrl this
    exact hne (by rw [this])

end Ledger.Sql

namespace Ledger.Sql
open Ledger.Spec

def countAcc (a : DmlAcc) (_ : Ver) : DmlAcc := { a with affected := a.affected + 1 }

theorem mvUpdSem (b ln : String) (n : Spec.MoveRow) (found : Bool) (trigs : List TriggerDef) (nr : Nat) (setE wher : Expr)
    (hsem : UpdEffSem setE wher)
    (hnb : trigs.filter (fun tr => tr.timing == .before && tr.event == .update) = [])
    (hna : trigs.filter (fun tr => tr.timing == .after && tr.event == .update) = []) :
    UpdSem (plEnvV (mvVals ln n) found []) (mvT b trigs nr) "" "moves" [SetItem.mk "post_commit_effective_volumes" setE] (some wher) []
      (mvG ln n) (mvF n) countAcc (fun _ => []) (fun r => ∃ l m, r.vals = mvVals l m) (fun s => VolTypes s.w.types) where
  hguard := by
    intro r ⟨l, m, hv⟩ k s _
    rw [whereHolds]
    have := hsem.hwher (cbs (k + 1)) s.w.types l ln m n found [] (some ((mvT b trigs nr).name, r.rid)) s
    simp only [trigEnv, trigEnvV] at this
    simp only [rowScopeOf, hv, mvT_colNames, plEnvV, exec_bind, exec_typeEnv, this, truth_bool, exec_liftR_ok, exec_pure, mvG_mvVals, bumpCond]
    cases decide (m.account = n.account ∧ m.asset = n.asset ∧ l = ln ∧ n.effectiveDate < m.effectiveDate) <;> rfl
  hsets := by
    intro r ⟨l, m, hv⟩ _ k rows s hS
    rw [applySets]
    have := hsem.hset (cbs (k + 2)) s.w.types l ln m n found [] (some ((mvT b trigs nr).name, r.rid)) s
    simp only [trigEnv, trigEnvV] at this
    have hfind : ((mvT b trigs nr).withRows rows).cols.find? (fun c => c.name == "post_commit_effective_volumes") =
        some { name := "post_commit_effective_volumes", ty := tyVolumes, notNull := false, dflt := some Expr.null } := rfl
    have hnd := hsem.notDflt
    cases setE with
    | dflt => exact absurd rfl hnd
    | _ =>
      simp only [rowScopeOf, hv, mvT_colNames, plEnvV, exec_bind, exec_typeEnv, exec_foldlM_cons, List.foldlM_nil, hfind, this,
        castTo_volumes_row _ hS, exec_liftR_ok, exec_pure, mvF_mvVals]
      rfl
  hchecks := by
    intro r ⟨l, m, hv⟩ _ rows s _
    rw [hv, mvF_mvVals]
    exact exec_checkConstraints_mv b trigs nr rows _ _ s
  hfks := by
    intro r _ _ rows s _
    exact exec_checkForeignKeys_mv b trigs nr rows _ s
  hbefore := hnb
  hafter := by
    intro r _ _ k rows s _
    rw [exec_queueAfter_none _ _ _ _ _ _ _ (by simpa [mvT, Table.withRows] using hna)]
    simp
  hacc := by
    intro r _ _ k rows s a _
    rw [accReturning]
    simp [countAcc]

end Ledger.Sql

namespace Ledger.Sql
open Ledger.Spec

def updRes (acc : DmlAcc) : DmlResult := { rel := { cols := acc.retCols, rows := acc.retRows }, affected := acc.affected }

/-- The UPDATE of `update_effective_volumes` for the NEW row `n` of ledger `ln`, run as a (nested) command on ANY `moves` table
    satisfying the storage invariant: the visible rows matching `bumpCond` get NEW's delta added to their effective volumes; nothing
    else changes. -/
theorem mv_update_exec (k : Nat) (b ln : String) (n : Spec.MoveRow) (found : Bool) (trigs : List TriggerDef) (nr : Nat)
    (setE wher : Expr) (hsem : UpdEffSem setE wher)
    (hnb : trigs.filter (fun tr => tr.timing == .before && tr.event == .update) = [])
    (hna : trigs.filter (fun tr => tr.timing == .after && tr.event == .update) = [])
    (s : St) (hs : TxState s) (hsp : s.searchPath = b) (hvt : VolTypes s.w.types) (rows : List Ver)
    (hT : s.w.table? (mvFull b) = some ((mvT b trigs nr).withRows rows)) (hfresh : Fresh s.xid s.cid rows)
    (bound : Int) (hinv : MvInv (latestView s.w s.xid) bound rows) :
    (execStmt (k + 7) (plEnvV (mvVals ln n) found [])
        (Stmt.update [] "" "moves" "" [SetItem.mk "post_commit_effective_volumes" setE] [] (some wher) [])).exec s =
        (.ok (updRes (updAcc (mvG ln n) countAcc {} (rows.filter (fun r => r.visible (latestView s.w s.xid))).reverse)), s.withTable ((mvT b trigs nr).withRows (updRun (latestView s.w s.xid) s.xid s.cid (mvG ln n) (mvF n) rows
          (rows.filter (fun r => r.visible (latestView s.w s.xid))).reverse))) := by
  have hq : (qualify "" "moves").exec s = (.ok (mvFull b), s) := by simp [qualify, hsp, mvFull]
  have hI := mvUpdInv b trigs nr s.w s.xid s.cid hs.xid hs.cid ln n bound
  have hupd := exec_execUpdate_gen (k + 1) (plEnvV (mvVals ln n) found []) "" "moves" (mvFull b) "" "moves" _ _ [] (mvT b trigs nr) _ _ _ _ _
    (fun s => VolTypes s.w.types) (fun _ _ h => h) (fun _ _ h => h) (mvUpdSem b ln n found trigs nr setE wher hsem hnb hna)
    s hs hvt rows hT rfl hq rfl hfresh hinv.ridNodup
    (fun r hr _ => by obtain ⟨l, m, hv, _⟩ := hinv.all r hr; exact ⟨l, m, hv⟩)
    (MvInv (latestView s.w s.xid) bound) hI hinv [] (fun h => by simp at h)
  simp only [updQ_nil, addQ_nil] at hupd
  simp only [List.isEmpty_nil, Bool.not_true, Bool.and_false, Bool.false_eq_true, if_false] at hupd
  rw [execStmt, evalCtes]
  · simp only [exec_bind, exec_pure, hupd]
    rfl
  · intro h; omega

end Ledger.Sql
