import Ledger.Proofs.CtrlIk
import Ledger.Ctrl.Import

/-!
Lemmas about `Import`, the sequence resynchronisation of the state tracker, and
the one place where the import path and the live path differ (account metadata
saves).
-/
namespace Ledger.Ctrl
open Ledger.Base Ledger.Core

/-! ### `max(id)` -/

def maxStep (m : Option Nat) (x : Nat) : Option Nat :=
  match m with
  | none => some x
  | some y => some (if y < x then x else y)

theorem foldl_max_ge (l : List Nat) (acc : Option Nat) :
    (∀ a, acc = some a → ∃ m, l.foldl maxStep acc = some m ∧ a ≤ m) ∧
    (∀ x ∈ l, ∃ m, l.foldl maxStep acc = some m ∧ x ≤ m) := by
  induction l generalizing acc with
  | nil =>
    exact ⟨fun a h => ⟨a, h, Nat.le_refl _⟩, fun x hx => absurd hx List.not_mem_nil⟩
  | cons y r ih =>
    simp only [List.foldl_cons]
    have hr := ih (maxStep acc y)
    constructor
    · intro a ha
      subst ha
      obtain ⟨m, hm, hle⟩ := hr.1 (if a < y then y else a) rfl
      refine ⟨m, hm, Nat.le_trans ?_ hle⟩
      split <;> omega
    · intro x hx
      rcases List.mem_cons.mp hx with rfl | hx
      · cases acc with
        | none => exact hr.1 x rfl
        | some a =>
          obtain ⟨m, hm, hle⟩ := hr.1 (if a < x then x else a) rfl
          refine ⟨m, hm, Nat.le_trans ?_ hle⟩
          split <;> omega
      · exact hr.2 x hx

theorem maxTxId_eq (d : Db) : maxTxId d = (d.txs.map (·.id)).foldl maxStep none := by
  unfold maxTxId
  rw [List.foldl_map]
  rfl

theorem maxLogId_eq (d : Db) : maxLogId d = (d.logs.map (·.id)).foldl maxStep none := by
  unfold maxLogId
  rw [List.foldl_map]
  rfl

/-- After `setval(seq, max(id))` every id in the tables is at or below its sequence. -/
theorem resync_bounds (s : State) :
    (∀ t ∈ (resync s).db.txs, t.id ≤ (resync s).seq.tx) ∧ (∀ l ∈ (resync s).db.logs, l.id ≤ (resync s).seq.log) := by
  constructor
  · intro t ht
    have hmem : t.id ∈ s.db.txs.map (·.id) := List.mem_map.mpr ⟨t, ht, rfl⟩
    obtain ⟨m, hm, hle⟩ := (foldl_max_ge (s.db.txs.map (·.id)) none).2 t.id hmem
    show t.id ≤ (match maxTxId s.db with | some m => m | none => s.seq.tx)
    rw [maxTxId_eq, hm]; exact hle
  · intro l hl
    have hmem : l.id ∈ s.db.logs.map (·.id) := List.mem_map.mpr ⟨l, hl, rfl⟩
    obtain ⟨m, hm, hle⟩ := (foldl_max_ge (s.db.logs.map (·.id)) none).2 l.id hmem
    show l.id ≤ (match maxLogId s.db with | some m => m | none => s.seq.log)
    rw [maxLogId_eq, hm]; exact hle

/-- The resynchronised state satisfies the id / key invariant as soon as the
    imported tables are id-sorted with unique keys and references. -/
theorem resync_inv (s : State)
    (h1 : s.db.logs.Pairwise (fun a b => a.id < b.id)) (h2 : s.db.txs.Pairwise (fun a b => a.id < b.id))
    (h3 : s.db.logs.Pairwise (fun a b => b.ik = "" ∨ a.ik ≠ b.ik))
    (h4 : s.db.txs.Pairwise (fun a b => b.reference = "" ∨ a.reference ≠ b.reference)) :
    Inv (resync s).db (resync s).seq :=
  ⟨(resync_bounds s).2, h1, (resync_bounds s).1, h2, h3, h4⟩

/-! ### rejections of `Import` -/

theorem importFrom_reject_first (now : Time) (s : State) (m : Nat) (l : Log) (r : List Log) (h : l.id ≤ m) :
    importFrom now s (some m) (l :: r) = (s, some (.alreadyExists l.id)) := by
  simp only [importFrom, decide_eq_true_eq, if_pos h]

/-! ### the account-metadata save: live path vs. import path -/

/-- On an EXISTING account whose first usage is not after the save, the live path
    (`UpsertAccounts` with NULL dates and chart defaults) and the import path
    (`UpdateAccountsMetadata(…, date)`) write the same row. -/
theorem savedMeta_paths_agree_existing (w : Time) (accounts : Map String Account) (a : String) (m defaults : Meta)
    (acc : Account) (hex : accounts.get? a = some acc) (hfu : acc.firstUsage ≤ w) :
    upsertAccount w accounts { address := a, metadata := m, defaults := defaults } =
    updateAccountMeta w accounts (a, m) := by
  unfold upsertAccount updateAccountMeta
  simp only [hex, Bool.false_or]
  have hlt : ¬ (w < acc.firstUsage) := Int.not_lt.mpr hfu
  by_cases hc : metaContains acc.metadata m = true
  · simp only [hc, Bool.not_true, Bool.false_eq_true, ↓reduceIte]
  · simp only [hc, Bool.not_false, ↓reduceIte, if_neg hlt]
    simp only [Bool.not_eq_true] at hc
    simp only [hc, Bool.false_eq_true, ↓reduceIte, if_neg hlt]

/-- On a NEW account the two paths agree exactly when the chart defaults add nothing. -/
theorem savedMeta_paths_agree_new (w : Time) (accounts : Map String Account) (a : String) (m : Meta)
    (hnew : accounts.get? a = none) :
    upsertAccount w accounts { address := a, metadata := m, defaults := [] } =
    updateAccountMeta w accounts (a, m) := by
  unfold upsertAccount updateAccountMeta
  simp only [hnew]

end Ledger.Ctrl
