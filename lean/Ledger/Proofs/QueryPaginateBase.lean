import Ledger.Query.Paginate
namespace Ledger.Query

/-- strict order on keys induced by `o` -/
def Order.lt (o : Order) (a b : Int) : Prop :=
  match o with
  | .asc => a < b
  | .desc => b < a

instance (o : Order) (a b : Int) : Decidable (o.lt a b) := by
  cases o <;> simp [Order.lt] <;> infer_instance

def KeysDistinct (T : List Row) : Prop := (T.map (·.key)).Nodup

theorem Order.le_trans (o : Order) (a b c : Row) : o.le a b → o.le b c → o.le a c := by
  cases o <;> simp [Order.le] <;> omega

theorem Order.le_total (o : Order) (a b : Row) : (o.le a b || o.le b a) = true := by
  cases o <;> simp [Order.le] <;> omega

theorem orderBy_perm (o : Order) (T : List Row) : (orderBy o T).Perm T :=
  List.mergeSort_perm T _

theorem orderBy_sorted (o : Order) (T : List Row) : (orderBy o T).Pairwise (fun a b => o.le a b) :=
  List.pairwise_mergeSort (o.le_trans) (o.le_total) T

theorem eq_of_key_eq {T : List Row} (h : KeysDistinct T) {a b : Row} (ha : a ∈ T) (hb : b ∈ T)
    (hk : a.key = b.key) : a = b := by
  unfold KeysDistinct at h
  induction T with
  | nil => cases ha
  | cons x xs ih =>
    simp only [List.map_cons, List.nodup_cons, List.mem_map, not_exists, not_and] at h
    rcases List.mem_cons.mp ha with rfl | ha' <;> rcases List.mem_cons.mp hb with rfl | hb'
    · rfl
    · exact absurd hk.symm (h.1 b hb')
    · exact absurd hk (h.1 a ha')
    · exact ih h.2 ha' hb'

theorem le_antisymm_on {o : Order} {T : List Row} (h : KeysDistinct T) {a b : Row}
    (ha : a ∈ T) (hb : b ∈ T) (h1 : o.le a b) (h2 : o.le b a) : a = b := by
  apply eq_of_key_eq h ha hb
  cases o <;> simp [Order.le] at h1 h2 <;> omega

theorem filter_orderBy (o : Order) (T : List Row) (h : KeysDistinct T) (p : Row → Bool) :
    orderBy o (T.filter p) = (orderBy o T).filter p := by
  apply List.Perm.eq_of_pairwise (le := fun a b => o.le a b)
  · intro a b ha hb h1 h2
    have ha' : a ∈ T := (List.mem_filter.mp ((orderBy_perm o _).mem_iff.mp ha)).1
    have hb' : b ∈ T := (orderBy_perm o _).mem_iff.mp (List.mem_filter.mp hb).1
    exact le_antisymm_on h ha' hb' h1 h2
  · exact orderBy_sorted o _
  · exact (orderBy_sorted o T).filter p
  · exact (orderBy_perm o _).trans ((orderBy_perm o T).filter p).symm

theorem orderBy_rev (o : Order) (T : List Row) (h : KeysDistinct T) :
    orderBy o.rev T = (orderBy o T).reverse := by
  apply List.Perm.eq_of_pairwise (le := fun a b => o.rev.le a b)
  · intro a b ha hb h1 h2
    have ha' : a ∈ T := (orderBy_perm _ _).mem_iff.mp ha
    have hb' : b ∈ T := (orderBy_perm o _).mem_iff.mp (List.mem_reverse.mp hb)
    exact le_antisymm_on h ha' hb' h1 h2
  · exact orderBy_sorted _ _
  · rw [List.pairwise_reverse]
    have := orderBy_sorted o T
    refine this.imp ?_
    intro a b hab
    cases o <;> simpa [Order.le, Order.rev] using hab
  · exact (orderBy_perm _ _).trans ((List.reverse_perm _).trans (orderBy_perm o T)).symm

end Ledger.Query
