import Ledger.Proofs.SqlTx
import Ledger.Proofs.SqlVolumesZeroSpec

/-!
# `RevertTransaction` under LeanPG: the UPDATE of the statement's CTE, in general
-/
open Ledger Ledger.Sql Ledger.Generated

namespace Ledger.Sql

/-- the guard and the effect of the revert UPDATE on a typed row -/
def revG (l : String) (txid : Int) (x : TxR) : Bool := decide (x.id = txid ∧ x.revertedAt = none ∧ x.ledger = l)
def revF (T : Int) (x : TxR) : TxR := { x with revertedAt := some T, updatedAt := T }

def revWhere (l : String) (txid : Int) : Expr :=
  Expr.binop BinOp.and (Expr.binop BinOp.and (Expr.binop BinOp.eq (Expr.col "" "id") (Expr.int txid))
    (Expr.isNull (Expr.col "" "reverted_at") false)) (Expr.binop BinOp.eq (Expr.col "" "ledger") (Expr.str l))

/-- RETURNING * on `transactions` -/
def starAcc (fR : TxR → TxR) (a : DmlAcc) (r : Ver) : DmlAcc :=
  { retCols := txCols, retRows := a.retRows ++ [txF fR r.vals], affected := a.affected + 1 }

theorem exec_accReturning_star_tx (m : Nat) (env : Env) (b : String) (trigs : List TriggerDef) (nr : Nat) (rows : List Ver)
    (alias : String) (vals : List Value) (a : DmlAcc) (s : St) :
    (accReturning (m + 2) env ((txT b trigs nr).withRows rows) alias vals [] [SelItem.star ""] a).exec s =
      (.ok { retCols := txCols, retRows := a.retRows ++ [vals], affected := a.affected + 1 }, s) := by
  rw [accReturning]
  simp [exec_bind, evalReturning, txT_colNames, Table.withRows, txT, Table.colNames, txCols]

/-- the semantic hypotheses of the generic UPDATE theorem, for `RevertTransaction … AT` -/
theorem revertAt_sem (env : Env) (b l : String) (trigs : List TriggerDef) (nr : Nat) (txid : Int) (atTs : String) (T : Int)
    (hT : tsParse atTs = .ok T)
    (hnb : trigs.filter (fun tr => tr.timing == .before && tr.event == .update) = [])
    (hna : trigs.filter (fun tr => tr.timing == .after && tr.event == .update) = []) :
    UpdSem env (txT b trigs nr) "" "transactions"
      [SetItem.mk "reverted_at" (Expr.str atTs), SetItem.mk "updated_at" (Expr.str atTs)] (some (revWhere l txid)) [SelItem.star ""]
      (txG (revG l txid)) (txF (revF T)) (starAcc (revF T)) (fun _ => []) (fun r => ∃ x, r.vals = txVals x) where
  hguard := by
    intro r ⟨x, hx⟩ m s _
    have := exec_whereHolds_revert (m + 1) env "transactions" l txid x (some ((txT b trigs nr).name, r.rid)) s
    simp only [rowScopeOf, hx, txG_txVals, revG, txT_colNames]
    exact this
  hsets := by
    intro r ⟨x, hx⟩ _ m rows s _
    rw [hx, txF_txVals]
    exact exec_applySets_revertAt (m + 2) _ b trigs nr rows x atTs T hT s
  hchecks := by
    intro r ⟨x, hx⟩ _ rows s _
    rw [hx, txF_txVals]
    exact exec_checkConstraints_tx b trigs nr rows _ s
  hfks := by
    intro r _ _ rows s _
    simp [checkForeignKeys, txT, Table.withRows, Schema.tbl_transactions, checkForeignKeysOf]
  hbefore := hnb
  hafter := by
    intro r _ _ m rows s _
    rw [exec_queueAfter_none _ _ _ _ _ _ _ (by simpa [txT, Table.withRows] using hna)]
    simp
  hacc := by
    intro r _ _ m rows s a _
    exact exec_accReturning_star_tx (m + 1) env b trigs nr rows "" _ a s


/-- hypotheses on the state for statements writing `transactions` -/
structure TxTblState (s : St) (b : String) (trigs : List TriggerDef) (nr : Nat) (rows : List Ver) : Prop where
  tx : TxState s
  table : s.w.table? (txFull b) = some ((txT b trigs nr).withRows rows)
  fresh : Fresh s.xid s.cid rows
  ridNodup : ((rows.filter (fun r => r.visible (latestView s.w s.xid))).map (·.rid)).Nodup
  inv : TxInv (latestView s.w s.xid) rows

theorem exec_evalReturning_star_null (m : Nat) (env : Env) (b : String) (trigs : List TriggerDef) (nr : Nat) (rows : List Ver)
    (alias : String) (s : St) :
    ∃ pv, (evalReturning (m + 1) env ((txT b trigs nr).withRows rows) alias ((txT b trigs nr).cols.map (fun _ => Value.null)) []
      (protoReturning [SelItem.star ""])).exec s = (.ok (txCols, pv), s) := by
  refine ⟨(txT b trigs nr).cols.map (fun _ => Value.null), ?_⟩
  simp [protoReturning, exec_bind, evalReturning, Table.withRows, txT, Table.colNames, txCols]

theorem updAcc_star (g : List Value → Bool) (fR : TxR → TxR) : ∀ (ts : List Ver) (a : DmlAcc),
    (updAcc g (starAcc fR) a ts).retRows = a.retRows ++ (ts.filter (fun r => g r.vals)).map (fun r => txF fR r.vals) ∧
    (updAcc g (starAcc fR) a ts).affected = a.affected + (ts.filter (fun r => g r.vals)).length ∧
    ((updAcc g (starAcc fR) a ts).retCols = a.retCols ∨ (updAcc g (starAcc fR) a ts).retCols = txCols) := by
  intro ts
  induction ts with
  | nil => intro a; simp [updAcc]
  | cons r rest ih =>
    intro a
    show _ ∧ _ ∧ _
    cases hg : g r.vals with
    | false =>
      have := ih a
      simpa [updAcc, hg, List.filter_cons] using this
    | true =>
      have := ih (starAcc fR a r)
      simp only [updAcc, List.foldl_cons, hg, if_true, List.filter_cons] at this ⊢
      refine ⟨?_, ?_, ?_⟩
      · rw [this.1]; simp [starAcc]
      · rw [this.2.1]; simp [starAcc]; omega
      · rcases this.2.2 with h | h
        · right; rw [h]; rfl
        · right; exact h

/-- Any `UPDATE transactions SET … WHERE … RETURNING *` that keeps ledger, id and reference, on ANY contents of
    `transactions` satisfying the storage invariants (no UPDATE trigger on the table): the rows the
    transaction sees on which the guard holds get the new contents, all others are untouched, nothing else is
    written; RETURNING holds the new rows. -/
theorem tx_update_exec (n : Nat) (env : Env) (b : String) (hb : b.isEmpty = false)
    (trigs : List TriggerDef) (nr : Nat) (rows : List Ver) (s : St) (hs : TxTblState s b trigs nr rows)
    (sets : List SetItem) (wher : Expr) (gR : TxR → Bool) (fR : TxR → TxR)
    (hkeep : ∀ x, (fR x).ledger = x.ledger ∧ (fR x).id = x.id ∧ (fR x).reference = x.reference)
    (P : Ver → Prop) (hPt : ∀ r, P r → ∃ x, r.vals = txVals x)
    (hP : ∀ r ∈ rows, r.visible (latestView s.w s.xid) = true → P r)
    (Sok : St → Prop) (hSokT : ∀ s t, Sok s → Sok (s.withTable t)) (hSokQ : ∀ s q, Sok s → Sok (s.addQ q)) (hS : Sok s)
    (sem : UpdSem env (txT b trigs nr) "" "transactions" sets (some wher) [SelItem.star ""]
      (txG gR) (txF fR) (starAcc fR) (fun _ => []) P Sok) :
    ∃ rows', (execStmt (n + 7) env (Stmt.update [] b "transactions" "" sets [] (some wher) [SelItem.star ""])).exec s =
        (.ok { rel := { cols := txCols,
                        rows := (((rows.filter (fun r => r.visible (latestView s.w s.xid))).reverse).filter (fun r => txG gR r.vals)).map
                          (fun r => txF fR r.vals) },
               affected := (((rows.filter (fun r => r.visible (latestView s.w s.xid))).reverse).filter (fun r => txG gR r.vals)).length },
         s.withTable ((txT b trigs nr).withRows rows')) ∧
      (∀ rid, visLookup (latestView s.w s.xid) rows' rid =
        (visLookup (latestView s.w s.xid) rows rid).map (fun v => if txG gR v then txF fR v else v)) ∧
      TxInv (latestView s.w s.xid) rows' ∧ RidInj (latestView s.w s.xid) rows' := by
  have hq : (qualify b "transactions").exec s = (.ok (txFull b), s) := by simp [qualify, hb, txFull]
  have hI := txUpdInv b trigs nr s.w s.xid s.cid hs.tx.xid hs.tx.cid gR fR hkeep P hPt
  have hupd := exec_execUpdate_gen (n + 1) env b "transactions" (txFull b) "" "transactions" _ _ _ (txT b trigs nr) _ _ _ _ _
    Sok hSokT hSokQ sem s hs.tx hS rows hs.table rfl hq rfl hs.fresh hs.ridNodup hP (TxInv (latestView s.w s.xid)) hI hs.inv txCols
    (fun _ s' => exec_evalReturning_star_null (n + 4) env b trigs nr _ "" s')
  simp only [updQ_nil, addQ_nil] at hupd
  have hts : ∀ r ∈ (rows.filter (fun r => r.visible (latestView s.w s.xid))).reverse,
      r ∈ rows ∧ r.visible (latestView s.w s.xid) = true := by
    intro r hr
    exact List.mem_filter.mp (List.mem_reverse.mp hr)
  have hinj : RidInj (latestView s.w s.xid) rows := by
    intro r1 h1 r2 h2 v1 v2 e
    exact nodup_map_inj (fun x : Ver => x.rid) _ hs.ridNodup r1 (List.mem_filter.mpr ⟨h1, v1⟩) r2 (List.mem_filter.mpr ⟨h2, v2⟩) e
  have hndr : (((rows.filter (fun r => r.visible (latestView s.w s.xid))).reverse).map (·.rid)).Nodup := by
    rw [List.map_reverse]; exact nodup_reverse' _ hs.ridNodup
  have hacc := updAcc_star (txG gR) fR ((rows.filter (fun r => r.visible (latestView s.w s.xid))).reverse) {}
  have hexec : (execStmt (n + 7) env (Stmt.update [] b "transactions" "" sets [] (some wher) [SelItem.star ""])).exec s =
      (.ok { rel := { cols := txCols,
                      rows := (((rows.filter (fun r => r.visible (latestView s.w s.xid))).reverse).filter (fun r => txG gR r.vals)).map
                        (fun r => txF fR r.vals) },
             affected := (((rows.filter (fun r => r.visible (latestView s.w s.xid))).reverse).filter (fun r => txG gR r.vals)).length },
       s.withTable ((txT b trigs nr).withRows (updRun (latestView s.w s.xid) s.xid s.cid (txG gR) (txF fR) rows
        (rows.filter (fun r => r.visible (latestView s.w s.xid))).reverse))) := by
    have hc : (if ((updAcc (txG gR) (starAcc fR) {} ((rows.filter (fun r => r.visible (latestView s.w s.xid))).reverse)).retCols.isEmpty &&
          !([SelItem.star ""] : List SelItem).isEmpty) = true then txCols
        else (updAcc (txG gR) (starAcc fR) {} ((rows.filter (fun r => r.visible (latestView s.w s.xid))).reverse)).retCols) = txCols := by
      rcases hacc.2.2 with h | h
      · have : ({} : DmlAcc).retCols = [] := rfl
        rw [h, this]; simp
      · rw [h]; simp [txCols, Schema.tbl_transactions]
    have hr : (updAcc (txG gR) (starAcc fR) {} ((rows.filter (fun r => r.visible (latestView s.w s.xid))).reverse)).retRows =
        (((rows.filter (fun r => r.visible (latestView s.w s.xid))).reverse).filter (fun r => txG gR r.vals)).map (fun r => txF fR r.vals) := by
      rw [hacc.1]; rfl
    have ha : (updAcc (txG gR) (starAcc fR) {} ((rows.filter (fun r => r.visible (latestView s.w s.xid))).reverse)).affected =
        (((rows.filter (fun r => r.visible (latestView s.w s.xid))).reverse).filter (fun r => txG gR r.vals)).length := by
      rw [hacc.2.1]; show 0 + _ = _; omega
    rw [hc, hr, ha] at hupd
    rw [execStmt, evalCtes]
    · simp only [exec_bind, exec_pure, hupd]
    · intro h; omega
  refine ⟨_, hexec, ?_, ?_, ?_⟩
  · intro rid
    rw [visLookup_updRun s.w s.xid s.cid hs.tx.xid hs.tx.cid _ _ _ rows hts hndr hinj rid]
    by_cases hm : rid ∈ ((rows.filter (fun r => r.visible (latestView s.w s.xid))).reverse).map (·.rid)
    · rw [if_pos hm]
    · rw [if_neg hm]
      have : visLookup (latestView s.w s.xid) rows rid = none := by
        unfold visLookup
        rw [List.find?_eq_none.mpr]
        · rfl
        · intro r hr hc
          simp only [Bool.and_eq_true, beq_iff_eq] at hc
          apply hm
          simp only [List.map_reverse, List.mem_reverse, List.mem_map, List.mem_filter]
          exact ⟨r, ⟨hr, hc.2⟩, hc.1⟩
      rw [this]; rfl
  · have : ∀ (ts : List Ver) (cur : List Ver), (∀ r ∈ ts, r ∈ cur ∧ r.visible (latestView s.w s.xid) = true ∧ P r) →
        (ts.map (·.rid)).Nodup → TxInv (latestView s.w s.xid) cur →
        TxInv (latestView s.w s.xid) (updRun (latestView s.w s.xid) s.xid s.cid (txG gR) (txF fR) cur ts) := by
      intro ts
      induction ts with
      | nil => intro cur _ _ h; exact h
      | cons r rest ih =>
        intro cur hts' hnd' hinv'
        obtain ⟨hr, hv, hPr⟩ := hts' r (by simp)
        have hnd'' := List.nodup_cons.mp hnd'
        have hstep : TxInv (latestView s.w s.xid) (updStep (latestView s.w s.xid) s.xid s.cid (txG gR) (txF fR) cur r) := by
          cases hg : txG gR r.vals with
          | false => simpa [updStep, hg] using hinv'
          | true => exact hI.step cur r hinv' hr hv hPr hg
        apply ih _ _ hnd''.2 hstep
        intro r' hr'
        obtain ⟨h1, h2, h3⟩ := hts' r' (by simp [hr'])
        refine ⟨?_, h2, h3⟩
        unfold updStep
        cases txG gR r.vals with
        | false => exact h1
        | true =>
          simp only [if_true, List.mem_cons, List.mem_map]
          right
          refine ⟨r', h1, closeRow_ne _ _ _ _ _ ?_⟩
          intro e
          exact hnd''.1 (by
            have := List.mem_map_of_mem (f := fun x : Ver => x.rid) hr'
            simpa [e] using this)
    exact this _ rows (fun r hr => ⟨(hts r hr).1, (hts r hr).2, hP r (hts r hr).1 (hts r hr).2⟩) hndr hs.inv
  · have : ∀ (ts : List Ver) (cur : List Ver), RidInj (latestView s.w s.xid) cur →
        RidInj (latestView s.w s.xid) (updRun (latestView s.w s.xid) s.xid s.cid (txG gR) (txF fR) cur ts) := by
      intro ts
      induction ts with
      | nil => intro cur h; exact h
      | cons r rest ih =>
        intro cur h
        exact ih _ (RidInj_updStep s.w s.xid s.cid hs.tx.xid hs.tx.cid _ _ cur r h)
    exact this _ rows hinj

open Ledger.Generated.WriteSql in
/-- The UPDATE inside `RevertTransaction … AT` (the statement's data-modifying CTE): every row the transaction sees
    that is transaction `txid` of ledger `l` and is not reverted gets `reverted_at = updated_at = T`; every other
    row is untouched; nothing else is written. -/
theorem revertAt_update_bridge (n : Nat) (env : Env) (b l : String) (id : Nat) (txid : Int) (atTs : String) (T : Int)
    (hb : b.isEmpty = false) (hT : tsParse atTs = .ok T)
    (trigs : List TriggerDef) (nr : Nat) (rows : List Ver) (s : St) (hs : TxTblState s b trigs nr rows)
    (hnb : trigs.filter (fun tr => tr.timing == .before && tr.event == .update) = [])
    (hna : trigs.filter (fun tr => tr.timing == .after && tr.event == .update) = []) :
    ∃ rows', (((P.revertTransactionAt b l id txid atTs).flatMap cteStmts).mapM (execStmt (n + 7) env)).exec s =
        (.ok [{ rel := { cols := txCols,
                         rows := (((rows.filter (fun r => r.visible (latestView s.w s.xid))).reverse).filter (fun r => txG (revG l txid) r.vals)).map
                           (fun r => txF (revF T) r.vals) },
                affected := (((rows.filter (fun r => r.visible (latestView s.w s.xid))).reverse).filter (fun r => txG (revG l txid) r.vals)).length }],
         s.withTable ((txT b trigs nr).withRows rows')) ∧
      (∀ rid, visLookup (latestView s.w s.xid) rows' rid =
        (visLookup (latestView s.w s.xid) rows rid).map (fun v => if txG (revG l txid) v then txF (revF T) v else v)) ∧
      TxInv (latestView s.w s.xid) rows' ∧ RidInj (latestView s.w s.xid) rows' := by
  have hstmt : (P.revertTransactionAt b l id txid atTs).flatMap cteStmts =
      [Stmt.update [] b "transactions" "" [SetItem.mk "reverted_at" (Expr.str atTs), SetItem.mk "updated_at" (Expr.str atTs)] []
        (some (revWhere l txid)) [SelItem.star ""]] := rfl
  obtain ⟨rows', h1, h2, h3, h4⟩ := tx_update_exec n env b hb trigs nr rows s hs _ _ (revG l txid) (revF T)
    (fun x => ⟨rfl, rfl, rfl⟩) (fun r => ∃ x, r.vals = txVals x) (fun _ h => h) (fun r hr _ => hs.inv.typed r hr)
    (fun _ => True) (fun _ _ _ => trivial) (fun _ _ _ => trivial) trivial
    (revertAt_sem env b l trigs nr txid atTs T hT hnb hna)
  refine ⟨rows', ?_, h2, h3, h4⟩
  rw [hstmt]
  simp only [exec_mapM_cons, exec_mapM_nil, h1]

end Ledger.Sql
