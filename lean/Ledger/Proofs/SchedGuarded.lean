import Ledger.Proofs.SchedRevert
import Ledger.Sched.Writers
namespace Ledger.Sched

theorem Guarded.mk' {st : Stmt} {k : Out → Prog} (h1 : ∀ l t, st ≠ .revertUpdate l t false)
    (h2 : ∀ o, Guarded (k o)) : Guarded (.stmt st k) := ⟨h1, h2⟩

theorem guarded_done (r : Resp) : Guarded (.done r) := trivial

theorem guarded_recorded (recheck : Bool) (l ik hash : Nat) (fin : Resp → Prog) (own : Resp)
    (hfin : ∀ r, Guarded (fin r)) : Guarded (recordedOutcome recheck l ik hash fin own) := by
  unfold recordedOutcome
  (try dsimp only)
  split
  · exact hfin _
  · refine ⟨(by intro _ _ h; cases h), ?_⟩
    intro o; dsimp only; split <;> exact hfin _

theorem guarded_txops (ops : TxOps) (hops : ops = topTx ∨ ops = nestedTx) :
    (∀ l t, ops.begin_ ≠ .revertUpdate l t false) ∧ (∀ l t, ops.commit_ ≠ .revertUpdate l t false) ∧
    (∀ l t, ops.rollback_ ≠ .revertUpdate l t false) := by
  rcases hops with rfl | rfl <;> refine ⟨?_, ?_, ?_⟩ <;> intro _ _ h <;> cases h

/-- a body is guarded when it is guarded for all guarded continuations -/
def BodyGuarded (body : Body) : Prop :=
  ∀ fail refuse succ, (∀ e, Guarded (fail e)) → (∀ r, Guarded (refuse r)) → (∀ a b, Guarded (succ a b)) →
    Guarded (body fail refuse succ)

theorem guarded_retry (recheck : Bool) (ops : TxOps) (hops : ops = topTx ∨ ops = nestedTx) (l ik hash : Nat)
    (body : Body) (hb : BodyGuarded body) (fin : Resp → Prog) (hfin : ∀ r, Guarded (fin r)) :
    ∀ fuel, Guarded (forgeLogRetry recheck ops l ik hash body fin fuel) := by
  obtain ⟨hb_, hc_, hr_⟩ := guarded_txops ops hops
  intro fuel
  induction fuel with
  | zero => exact hfin _
  | succ n ih =>
    unfold forgeLogRetry
    refine ⟨hb_, fun _ => ?_⟩
    apply hb
    · intro e
      (try dsimp only)
      split
      · exact hfin _
      · refine ⟨hr_, fun _ => ?_⟩
        (try dsimp only)
        split
        · exact ih
        · refine ⟨(by intro _ _ h; cases h), fun o => ?_⟩
          (try dsimp only); split <;> exact hfin _
        · exact guarded_recorded _ _ _ _ _ _ hfin
    · intro r
      exact ⟨hr_, fun _ => guarded_recorded _ _ _ _ _ _ hfin⟩
    · intro a b
      exact ⟨hc_, fun _ => hfin _⟩

theorem guarded_forgeLog (recheck : Bool) (ops : TxOps) (hops : ops = topTx ∨ ops = nestedTx) (l ik hash : Nat)
    (body : Body) (hb : BodyGuarded body) (fin : Resp → Prog) (hfin : ∀ r, Guarded (fin r)) :
    Guarded (forgeLogG recheck ops l ik hash body fin) := by
  obtain ⟨hb_, hc_, hr_⟩ := guarded_txops ops hops
  have hrun : Guarded (body
      (fun e =>
        if e = .uniqueTxId then fin { err := "panic" } else
        .stmt ops.rollback_ fun _ =>
        if retryable e then forgeLogRetry recheck ops l ik hash body fin retryFuel
        else recordedOutcome recheck l ik hash fin { err := errName e })
      (fun r => .stmt ops.rollback_ fun _ => recordedOutcome recheck l ik hash fin { err := r })
      (fun tx log => .stmt ops.commit_ fun _ => fin { tx := tx, log := log })) := by
    apply hb
    · intro e
      (try dsimp only)
      split
      · exact hfin _
      · refine ⟨hr_, fun _ => ?_⟩
        (try dsimp only)
        split
        · exact guarded_retry _ _ hops _ _ _ _ hb _ hfin _
        · exact guarded_recorded _ _ _ _ _ _ hfin
    · intro r; exact ⟨hr_, fun _ => guarded_recorded _ _ _ _ _ _ hfin⟩
    · intro a b; exact ⟨hc_, fun _ => hfin _⟩
  unfold forgeLogG
  refine ⟨hb_, fun _ => ?_⟩
  (try dsimp only)
  split
  · exact hrun
  · refine ⟨(by intro _ _ h; cases h), fun o => ?_⟩
    (try dsimp only)
    split
    · exact ⟨hr_, fun _ => hfin _⟩
    · exact hrun

theorem bodyGuarded_revert (q : Revert) (hq : q.guarded = true) : BodyGuarded (revertBody q) := by
  intro fail refuse succ hf hr hs
  unfold revertBody
  simp only
  refine ⟨(by intro l t h; injection h with _ _ hg; rw [hq] at hg; cases hg), fun o => ?_⟩
  (try dsimp only)
  split
  · exact hf _
  · split
    · exact hr _
    · split
      · exact hr _
      · refine ⟨(by intro _ _ h; cases h), fun ob => ?_⟩
        (try dsimp only)
        split
        · exact hf _
        · split
          · exact hr _
          · refine ⟨(by intro _ _ h; cases h), fun o => ?_⟩
            (try dsimp only)
            split
            · exact hf _
            · refine ⟨(by intro _ _ h; cases h), fun o => ?_⟩
              (try dsimp only)
              split
              · exact hf _
              · split
                · refine ⟨(by intro _ _ h; cases h), fun o' => ?_⟩
                  (try dsimp only)
                  split
                  · exact hf _
                  · refine ⟨(by intro _ _ h; cases h), fun o'' => ?_⟩
                    (try dsimp only)
                    split
                    · exact hf _
                    · exact hs _ _
                · refine ⟨(by intro _ _ h; cases h), fun o'' => ?_⟩
                  (try dsimp only)
                  split
                  · exact hf _
                  · exact hs _ _

theorem bodyGuarded_send (q : Send) : BodyGuarded (sendBody q) := by
  intro fail refuse succ hf hr hs
  unfold sendBody
  dsimp only
  repeat' (first
    | exact hf _ | exact hr _ | exact hs _ _
    | (refine ⟨(by intro _ _ h; cases h), fun _ => ?_⟩; try dsimp only)
    | split)

theorem guarded_handleState (l : Nat) (inUse : Bool) (inner : TxOps → (Resp → Prog) → Prog)
    (hin : ∀ ops, (ops = topTx ∨ ops = nestedTx) → ∀ fin, (∀ r, Guarded (fin r)) → Guarded (inner ops fin)) :
    Guarded (handleState l inUse inner) := by
  unfold handleState
  split
  · exact hin topTx (Or.inl rfl) _ (fun _ => trivial)
  · have hbail : ∀ e, Guarded (.stmt .rollback fun _ => .done { err := errName e }) :=
      fun e => ⟨(by intro _ _ h; cases h), fun _ => trivial⟩
    refine ⟨(by intro _ _ h; cases h), fun _ => ?_⟩
    refine ⟨(by intro _ _ h; cases h), fun o => ?_⟩
    unfold guardErr
    dsimp only
    split
    · exact hbail _
    · refine ⟨(by intro _ _ h; cases h), fun o => ?_⟩
      dsimp only
      split
      · exact hbail _
      · have hrest : Guarded (inner nestedTx fun r =>
            if r.err = "" then .stmt .commit fun _ => .done r else .stmt .rollback fun _ => .done r) := by
          apply hin nestedTx (Or.inr rfl)
          intro r
          split
          · exact ⟨(by intro _ _ h; cases h), fun _ => trivial⟩
          · exact ⟨(by intro _ _ h; cases h), fun _ => trivial⟩
        split
        · refine ⟨(by intro _ _ h; cases h), fun _ => ?_⟩
          exact ⟨(by intro _ _ h; cases h), fun _ => hrest⟩
        · exact hrest

theorem guarded_revertProg (q : Revert) (hq : q.guarded = true) (inUse : Bool) : Guarded (revertProg q inUse) := by
  unfold revertProg
  apply guarded_handleState
  intro ops hops fin hfin
  exact guarded_forgeLog true ops hops _ _ _ _ (bodyGuarded_revert q hq) fin hfin

theorem guarded_sendProg (q : Send) (inUse : Bool) : Guarded (sendProg q inUse) := by
  unfold sendProg
  apply guarded_handleState
  intro ops hops fin hfin
  exact guarded_forgeLog true ops hops _ _ _ _ (bodyGuarded_send q) fin hfin

end Ledger.Sched
