import Ledger.Repl.Shared

/-! The refcount invariant of shared exporter drivers (`Ledger.Repl.Shared.Live`)
holds after every sequence of manager operations. -/
namespace Ledger.Repl.Shared

theorem live_init : Live MState.init := by
  constructor <;> simp [MState.init]

theorem live_startP {s : MState} (l : Live s) (p : Pipe) : Live (startP s p) := by
  unfold startP
  split
  · exact l
  · rename_i hp
    by_cases he : p.exporter ∈ s.live
    · simp only [he, if_true]
      refine ⟨?_, ?_, List.nodup_cons.mpr ⟨hp, l.nodupR⟩, l.nodupL⟩
      · intro q hq
        rcases List.mem_cons.mp hq with e | e
        · subst e; exact he
        · exact l.driver q e
      · intro e he'
        obtain ⟨q, hq, hqe⟩ := l.user e he'
        exact ⟨q, List.mem_cons_of_mem _ hq, hqe⟩
    · simp only [he, if_false]
      refine ⟨?_, ?_, List.nodup_cons.mpr ⟨hp, l.nodupR⟩, List.nodup_cons.mpr ⟨he, l.nodupL⟩⟩
      · intro q hq
        rcases List.mem_cons.mp hq with e | e
        · subst e; exact List.mem_cons_self
        · exact List.mem_cons_of_mem _ (l.driver q e)
      · intro e he'
        rcases List.mem_cons.mp he' with e1 | e1
        · exact ⟨p, List.mem_cons_self, e1.symm⟩
        · obtain ⟨q, hq, hqe⟩ := l.user e e1
          exact ⟨q, List.mem_cons_of_mem _ hq, hqe⟩

theorem live_stopP {s : MState} (l : Live s) (p : Pipe) : Live (stopP s p) := by
  unfold stopP
  split
  · rename_i hp
    have hmem : ∀ q, q ∈ s.running.erase p ↔ q ≠ p ∧ q ∈ s.running := fun q => l.nodupR.mem_erase_iff
    by_cases hany : (s.running.erase p).any (fun q => q.exporter == p.exporter) = true
    · simp only [hany, if_true]
      refine ⟨?_, ?_, l.nodupR.erase p, l.nodupL⟩
      · intro q hq; exact l.driver q ((hmem q).mp hq).2
      · intro e he
        obtain ⟨q, hq, hqe⟩ := l.user e he
        by_cases hqp : q = p
        · subst hqp
          obtain ⟨q', hq', he'⟩ := List.any_eq_true.mp hany
          have : q'.exporter = q.exporter := by simpa using he'
          exact ⟨q', hq', this.trans hqe⟩
        · exact ⟨q, (hmem q).mpr ⟨hqp, hq⟩, hqe⟩
    · simp only [hany]
      have hnone : ∀ q ∈ s.running.erase p, q.exporter ≠ p.exporter := by
        intro q hq he
        exact hany (List.any_eq_true.mpr ⟨q, hq, by simp [he]⟩)
      refine ⟨?_, ?_, l.nodupR.erase p, l.nodupL.erase _⟩
      · intro q hq
        exact (l.nodupL.mem_erase_iff).mpr ⟨hnone q hq, l.driver q ((hmem q).mp hq).2⟩
      · intro e he
        have he' := (l.nodupL.mem_erase_iff).mp he
        obtain ⟨q, hq, hqe⟩ := l.user e he'.2
        have hqp : q ≠ p := by
          intro h; subst h; exact he'.1 hqe.symm
        exact ⟨q, (hmem q).mpr ⟨hqp, hq⟩, hqe⟩
  · exact l

theorem live_startAll {s : MState} (l : Live s) (ps : List Pipe) : Live (startAll s ps) := by
  induction ps generalizing s with
  | nil => exact l
  | cons p ps ih => exact ih (live_startP l p)

theorem live_created {s : MState} (l : Live s) (c : List Pipe) : Live { s with created := c } :=
  ⟨l.driver, l.user, l.nodupR, l.nodupL⟩

theorem live_mstep {s : MState} (l : Live s) (o : MOp) : Live (mstep s o) := by
  cases o with
  | create p => simp only [mstep]; split; exact live_startP (live_created l _) p; exact l
  | start p => simp only [mstep]; split; exact live_startP l p; exact l
  | stop p => simp only [mstep]; split; exact live_stopP l p; exact l
  | reset p =>
    simp only [mstep]; split
    · split
      · exact live_startP (live_stopP l p) p
      · exact l
    · exact l
  | delete p => simp only [mstep]; split; exact live_created (live_stopP l p) _; exact l
  | sync => simp only [mstep]; split; exact live_startAll l _; exact l
  | mgrStop =>
    simp only [mstep]; split
    · constructor <;> simp
    · exact l
  | mgrStart =>
    simp only [mstep]; split
    · exact l
    · exact live_startAll (s := { s with mgrUp := true }) ⟨l.driver, l.user, l.nodupR, l.nodupL⟩ _

theorem live_reach {s : MState} (r : MReach s) : Live s := by
  induction r with
  | init => exact live_init
  | step o _ ih => exact live_mstep ih o

end Ledger.Repl.Shared
