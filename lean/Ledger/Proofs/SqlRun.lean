import Ledger.Sql.Session
import Ledger.Generated.Schema
import Ledger.Generated.WriteSql
import Ledger.Spec.Store

/-!
# Running scripts on concrete LeanPG worlds inside the kernel

Helpers for the BOUNDED regression obligations of the bridge modules
(`Ledger/Props/C??b.lean`): statements of `Ledger.Generated.WriteSql.P` are executed by
`Ledger.Sql.execTop` on a freshly migrated bucket of `Ledger.Generated.Schema`, and the
outcome is compared by `decide +kernel`. These are finite facts about concrete worlds — tests
checked by the kernel, not general theorems.
-/
namespace Ledger.Sql.Run
open Ledger.Sql Ledger.Generated

/-- a freshly migrated `_default` bucket -/
def w0 : World := instantiateBucket {} (Schema.bucket.toRef Schema.bucketMigrations) "_default"

/-- rows of a table visible to a new snapshot (committed work), as text, in heap order -/
def table (w : World) (name : String) : List (List String) :=
  match w.table? name with
  | some t => (t.scan { xid := 0, cid := 0, snap := ⟨w.active, w.nextXid⟩ }).map (fun v => v.vals.map Value.toText)
  | none => []

/-- outcome of a statement: `ok <affected> <rows>` or the error text -/
def outcome : Except Err StmtResult → String × List (List String)
  | .ok r => (s!"ok:{r.affected}", r.rows.map (fun row => row.map Value.toText))
  | .error e => (toString e, [])

/-- run `(session, statement)` pairs in order; autocommit unless the script says BEGIN -/
def run (w : World) : List (Nat × Stmt) → World × List (String × List (List String))
  | [] => (w, [])
  | (sid, s) :: rest =>
    let (w', r) := execTop w sid s false none
    let (w'', out) := run w' rest
    (w'', outcome r :: out)

/-- all statements of one session -/
def on (sid : Nat) (stmts : List Stmt) : List (Nat × Stmt) := stmts.map (fun s => (sid, s))


/-! ## abstraction of committed table contents to the types of `Ledger.Spec` -/

open Ledger.Base Ledger.Core

/-- committed row versions of a table, heap order -/
def committed (w : World) (name : String) : List (Table × Ver) :=
  match w.table? name with
  | some t => (t.scan { xid := 0, cid := 0, snap := ⟨w.active, w.nextXid⟩ }).map (fun v => (t, v))
  | none => []

def fieldOf (tv : Table × Ver) (col : String) : Value :=
  (lookupIn tv.1.colNames tv.2.vals col).getD .null

def intOf : Value → Int
  | .int n => n
  | .ts n => n
  | _ => 0

def optIntOf : Value → Option Int
  | .int n => some n
  | .ts n => some n
  | _ => none

/-- a `volumes` composite `(inputs, outputs)` -/
def volumesOf : Value → Volumes
  | .row _ [i, o] => ⟨intOf i, intOf o⟩
  | _ => ⟨0, 0⟩

/-- a flat jsonb object of strings as `Metadata` (sorted by key) -/
def metadataOf : Value → Metadata
  | .json (.obj kvs) => kvs.foldl (fun (m : Metadata) kv => match kv with
      | .mk k (.str v) => Map.insert k v m
      | .mk k v => Map.insert k v.render m) []
  | _ => []

def insertSorted (m : Spec.MoveRow) : List Spec.MoveRow → List Spec.MoveRow
  | [] => [m]
  | x :: xs => if m.seq < x.seq then m :: x :: xs else x :: insertSorted m xs

/-- the moves of a ledger, in `seq` order -/
def movesAbs (w : World) (bucket ledger : String) : List Spec.MoveRow :=
  ((committed w (bucket ++ ".moves")).filter (fun tv => fieldOf tv "ledger" == .text ledger)).foldl (fun acc tv =>
    insertSorted
      { seq := (intOf (fieldOf tv "seq")).toNat, txId := (intOf (fieldOf tv "transactions_id")).toNat,
        account := (fieldOf tv "accounts_address").toText, asset := (fieldOf tv "asset").toText,
        amount := intOf (fieldOf tv "amount"), isSource := fieldOf tv "is_source" == .bool true,
        insertionDate := intOf (fieldOf tv "insertion_date"), effectiveDate := intOf (fieldOf tv "effective_date"),
        pcv := volumesOf (fieldOf tv "post_commit_volumes"), pcev := volumesOf (fieldOf tv "post_commit_effective_volumes") } acc) []

/-- the accounts of a ledger -/
def accountsAbs (w : World) (bucket ledger : String) : Map String Spec.AccountRow :=
  ((committed w (bucket ++ ".accounts")).filter (fun tv => fieldOf tv "ledger" == .text ledger)).foldl (fun acc tv =>
    Map.insert (fieldOf tv "address").toText
      { firstUsage := intOf (fieldOf tv "first_usage"), insertionDate := intOf (fieldOf tv "insertion_date"),
        updatedAt := intOf (fieldOf tv "updated_at"), metadata := metadataOf (fieldOf tv "metadata") } acc) []

/-- (id, reverted_at, updated_at, metadata) of the transactions of a ledger, in id order of insertion -/
def txsAbs (w : World) (bucket ledger : String) : List (Int × Option Int × Metadata) :=
  ((committed w (bucket ++ ".transactions")).filter (fun tv => fieldOf tv "ledger" == .text ledger)).map (fun tv =>
    (intOf (fieldOf tv "id"), optIntOf (fieldOf tv "reverted_at"), metadataOf (fieldOf tv "metadata")))

/-- seconds since 2024-01-01T00:00:00Z as timestamp text / as microseconds since the epoch -/
def tsText (sec : Nat) : String :=
  "2024-01-01T00:00:" ++ (if sec < 10 then "0" else "") ++ toString sec ++ "Z"
def tsMicros (sec : Nat) : Int := 1704067200000000 + sec * 1000000

end Ledger.Sql.Run
