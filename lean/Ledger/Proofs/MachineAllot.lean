import Ledger.Machine.Check
import Ledger.Proofs.MachineResolve
import Ledger.Props.C24

/-! `VisitAllotment` + `NewAllotment`: an allotment that passed the compiler's
    checks and was built at run time sums to exactly one. -/
namespace Ledger.Machine

variable {cfg : Cfg}

/-- Known (literal) part of a portion. -/
def litVal : PortionE → Rat
  | .lit t =>
    match parsePortionGo t with
    | .ok (.specific r) => r
    | _ => 0
  | _ => 0

def litSum : List PortionE → Rat
  | [] => 0
  | p :: ps => litVal p + litSum ps

def remCount : List PortionE → Nat
  | [] => 0
  | .remaining :: ps => remCount ps + 1
  | _ :: ps => remCount ps

def hasVarP : List PortionE → Bool
  | [] => false
  | .var _ :: _ => true
  | _ :: ps => hasVarP ps

theorem litSum_append (a b : List PortionE) : litSum (a ++ b) = litSum a + litSum b := by
  induction a with
  | nil => simp [litSum]
  | cons p ps ih => simp [litSum, ih]; ring

theorem litSum_reverse (a : List PortionE) : litSum a.reverse = litSum a := by
  induction a with
  | nil => rfl
  | cons p ps ih => simp [litSum_append, litSum, ih]; ring

theorem remCount_append (a b : List PortionE) : remCount (a ++ b) = remCount a + remCount b := by
  induction a with
  | nil => simp [remCount]
  | cons p ps ih => cases p <;> simp [remCount, ih] <;> omega

theorem remCount_reverse (a : List PortionE) : remCount a.reverse = remCount a := by
  induction a with
  | nil => rfl
  | cons p ps ih => cases p <;> simp [remCount_append, remCount, ih]

theorem hasVarP_append (a b : List PortionE) : hasVarP (a ++ b) = (hasVarP a || hasVarP b) := by
  induction a with
  | nil => simp [hasVarP]
  | cons p ps ih => cases p <;> simp [hasVarP, ih]

theorem hasVarP_reverse (a : List PortionE) : hasVarP a.reverse = hasVarP a := by
  induction a with
  | nil => rfl
  | cons p ps ih => cases p <;> simp [hasVarP_append, hasVarP, ih, Bool.or_comm]

/-- What the loop of `VisitAllotment` computes. -/
theorem checkPortionsRev_spec (ds : Decls) :
    (l : List PortionE) → (acc acc' : AllotAcc) → checkPortionsRev ds l acc = .ok acc' →
    acc'.total = acc.total + litSum l ∧
    (acc'.hasVariable = (acc.hasVariable || hasVarP l)) ∧
    (acc'.hasRemaining = (acc.hasRemaining || decide (0 < remCount l))) ∧
    (remCount l + (if acc.hasRemaining then 1 else 0) ≤ 1)
  | [], acc, acc', h => by
    simp only [checkPortionsRev] at h; cases h
    simp [litSum, hasVarP, remCount]
    split <;> omega
  | p :: ps, acc, acc', h => by
    simp only [checkPortionsRev] at h
    split at h
    · cases h
    · rename_i acc1 h1
      obtain ⟨i1, i2, i3, i4⟩ := checkPortionsRev_spec ds ps acc1 acc' h
      cases p with
      | lit t =>
        simp only [checkPortion] at h1
        split at h1
        · rename_i r hp
          cases h1
          simp only [litSum, litVal, hp, hasVarP, remCount] at *
          refine ⟨by rw [i1]; ring, i2, i3, i4⟩
        · rename_i hp
          cases h1
          simp only [litSum, litVal, hp, hasVarP, remCount] at *
          refine ⟨by rw [i1]; ring, i2, i3, i4⟩
        · cases h1
      | var x =>
        simp only [checkPortion] at h1
        split at h1
        · cases h1
        · split at h1
          · cases h1
            simp only [litSum, litVal, hasVarP, remCount] at *
            refine ⟨by rw [i1]; ring, by simp [i2], i3, i4⟩
          · cases h1
      | remaining =>
        simp only [checkPortion] at h1
        split at h1
        · cases h1
        · rename_i hnr
          cases h1
          simp only [litSum, litVal, hasVarP, remCount] at *
          have hnr' : acc.hasRemaining = false := by simpa using hnr
          simp only [hnr'] at *
          refine ⟨by rw [i1]; ring, i2, by simp [i3], ?_⟩
          simp at i4 ⊢
          omega

theorem evalPortions_spec {env : Env} (henv : EnvGood env) :
    (ps : List PortionE) → (vs : List Portion) → evalPortions env ps = .ok vs →
    countRemaining vs = remCount ps ∧ (hasVarP ps = false → specificTotal vs = litSum ps)
  | [], vs, h => by
    simp only [evalPortions] at h; cases h
    simp [countRemaining, remCount, specificTotal, litSum]
  | p :: ps, vs, h => by
    simp only [evalPortions] at h
    split at h
    · cases h
    · rename_i v hv
      split at h
      · cases h
      · rename_i vs' hvs
        cases h
        obtain ⟨i1, i2⟩ := evalPortions_spec henv ps vs' hvs
        cases p with
        | lit t =>
          simp only [evalPortion] at hv
          split at hv
          · rename_i q hq
            cases hv
            obtain ⟨r, rfl⟩ := parsePortionGo_specific hq
            simp only [countRemaining, remCount, specificTotal, litSum, litVal, hq, hasVarP]
            exact ⟨i1, fun hnv => by rw [i2 hnv]⟩
          · cases hv
        | var x =>
          simp only [evalPortion] at hv
          split at hv
          · rename_i q hl
            cases hv
            obtain ⟨r, rfl⟩ := henv.portion hl
            simp only [countRemaining, remCount, hasVarP]
            exact ⟨i1, fun hnv => by simp at hnv⟩
          · cases hv
        | remaining =>
          simp only [evalPortion] at hv
          cases hv
          simp only [countRemaining, remCount, specificTotal, litSum, litVal, hasVarP]
          refine ⟨by omega, fun hnv => ?_⟩
          rw [i2 hnv]; ring

/-- `compiler_only_accepts_sum_one` (C24/C22): an allotment accepted by
    `VisitAllotment` and built by OP_MAKE_ALLOTMENT sums to one. -/
theorem makeAllotment_sum_one {env : Env} (henv : EnvGood env) {ds : Decls} {ps : List PortionE}
    {a : List Rat} (hc : checkAllotment ds ps = .ok ()) (hm : makeAllotment env ps = .ok a) :
    a.sum = 1 := by
  unfold checkAllotment at hc
  split at hc
  · cases hc
  · rename_i acc hacc
    obtain ⟨c1, c2, c3, c4⟩ := checkPortionsRev_spec ds ps.reverse {} acc hacc
    simp only [litSum_reverse, remCount_reverse, hasVarP_reverse] at c1 c2 c3 c4
    have c1' : acc.total = litSum ps := by rw [c1]; simp
    have c2' : acc.hasVariable = hasVarP ps := by rw [c2]; simp
    have c3' : acc.hasRemaining = decide (0 < remCount ps) := by rw [c3]; simp
    have c4' : remCount ps ≤ 1 := by simpa using c4
    unfold makeAllotment at hm
    split at hm
    · cases hm
    · rename_i vs hvs
      obtain ⟨e1, e2⟩ := evalPortions_spec henv ps vs hvs
      split at hm
      · rename_i a' hna
        cases hm
        split at hc
        · cases hc
        · rename_i h1
          split at hc
          · cases hc
          · rename_i h2
            split at hc
            · cases hc
            · rename_i h3
              split at hc
              · cases hc
              · rename_i h4
                by_cases hrem : remCount ps = 1
                · exact Ledger.C24.newAllotment_remaining_sum_one vs a hna (by rw [e1, hrem])
                · have hr0 : remCount ps = 0 := by omega
                  have hnr : acc.hasRemaining = false := by rw [c3']; simp [hr0]
                  have ht : acc.total = 1 := by
                    have : ¬ (acc.total < 1) := by
                      intro hlt; exact h2 ⟨hlt, by simp [hnr]⟩
                    have h1' : ¬ (1 < acc.total) := h1
                    exact le_antisymm (not_lt.mp h1') (not_lt.mp this)
                  have hnv : hasVarP ps = false := by
                    rw [← c2']
                    by_contra hv
                    exact h3 ⟨ht, by simpa using hv⟩
                  rw [Ledger.C24.newAllotment_explicit_sum vs a hna (by rw [e1, hr0]), e2 hnv, ← c1', ht]
      · split at hm <;> cases hm

end Ledger.Machine
