import Ledger.Proofs.SqlUpdate

/-!
# What a transaction sees after an UPDATE: the visible rows, as a multiset
-/
namespace Ledger.Sql

theorem perm_cons_filter_ne {α : Type} (key : α → Nat) : ∀ (l : List α), (l.map key).Nodup → ∀ r ∈ l,
    l.Perm (r :: l.filter (fun q => key q != key r)) := by
  intro l
  induction l with
  | nil => intro _ r hr; cases hr
  | cons x xs ih =>
    intro hnd r hr
    simp only [List.map_cons, List.nodup_cons] at hnd
    rcases List.mem_cons.mp hr with rfl | hr'
    · have hall : xs.filter (fun q => key q != key r) = xs := by
        apply List.filter_eq_self.mpr
        intro q hq
        have : key q ≠ key r := fun e => hnd.1 (by rw [← e]; exact List.mem_map_of_mem hq)
        simpa using this
      simp [List.filter_cons, hall]
    · have hne : key x ≠ key r := fun e => hnd.1 (by rw [e]; exact List.mem_map_of_mem hr')
      have hk : (key x != key r) = true := by simpa using hne
      rw [List.filter_cons, if_pos hk]
      exact (List.Perm.cons x (ih hnd.2 r hr')).trans (List.Perm.swap r x _)

/-- the visible rows after one step of an UPDATE that hits `r` -/
theorem filter_vis_updStep (w : World) (xid cid : Nat) (hx : xid ≠ 0) (hc : cid < 1000000000) (g : List Value → Bool) (f : List Value → List Value)
    (rows : List Ver) (r : Ver) (hg : g r.vals = true) :
    (updStep (latestView w xid) xid cid g f rows r).filter (fun q => q.visible (latestView w xid)) =
      newVer xid cid r.rid (f r.vals) :: rows.filter (fun q => q.visible (latestView w xid) && (q.rid != r.rid)) := by
  unfold updStep
  rw [if_pos hg, List.filter_cons, if_pos (newVer_visible w xid cid r.rid _ hx hc)]
  congr 1
  induction rows with
  | nil => rfl
  | cons q qs ih =>
    rw [List.map_cons, List.filter_cons, List.filter_cons, closeRow_visible w xid cid r.rid q hx hc, ih]
    have e : (!(q.rid == r.rid)) = (q.rid != r.rid) := rfl
    rw [e]
    by_cases h : (q.visible (latestView w xid) && (q.rid != r.rid)) = true
    · rw [if_pos h, if_pos h]
      have hne : q.rid ≠ r.rid := by
        simp only [Bool.and_eq_true, bne_iff_ne, ne_eq] at h; exact h.2
      rw [closeRow_ne _ _ _ _ _ hne]
    · rw [if_neg h, if_neg h]

end Ledger.Sql

namespace Ledger.Sql

/-- the new contents of a row under an UPDATE restricted to the targets `ts` -/
def updVals (g : List Value → Bool) (f : List Value → List Value) (ts : List Ver) (q : Ver) : List Value :=
  if (ts.map (·.rid)).contains q.rid && g q.vals then f q.vals else q.vals

/-- What the transaction sees after the UPDATE loop: the rows it saw before (row id by row id), those among the targets on which the
    guard holds with their new contents. -/
theorem visible_updRun (w : World) (xid cid : Nat) (hx : xid ≠ 0) (hc : cid < 1000000000) (g : List Value → Bool) (f : List Value → List Value) :
    ∀ (ts rows : List Ver), ((rows.filter (fun q => q.visible (latestView w xid))).map (·.rid)).Nodup →
      (∀ r ∈ ts, r ∈ rows ∧ r.visible (latestView w xid) = true) → (ts.map (·.rid)).Nodup →
      (((updRun (latestView w xid) xid cid g f rows ts).filter (fun q => q.visible (latestView w xid))).map (fun q => (q.rid, q.vals))).Perm
        ((rows.filter (fun q => q.visible (latestView w xid))).map (fun q => (q.rid, updVals g f ts q))) := by
  intro ts
  induction ts with
  | nil =>
    intro rows _ _ _
    simp [updRun, updVals]
  | cons r rest ih =>
    intro rows hnd hts hndt
    obtain ⟨hr, hv⟩ := hts r (by simp)
    have hndt' := List.nodup_cons.mp hndt
    have hrl : r ∈ rows.filter (fun q => q.visible (latestView w xid)) := List.mem_filter.mpr ⟨hr, hv⟩
    have hinj := nodup_map_inj (fun x : Ver => x.rid) _ hnd
    show (((updRun (latestView w xid) xid cid g f (updStep (latestView w xid) xid cid g f rows r) rest).filter _).map _).Perm _
    cases hg : g r.vals with
    | false =>
      have e : updStep (latestView w xid) xid cid g f rows r = rows := by simp [updStep, hg]
      rw [e]
      refine (ih rows hnd (fun q hq => hts q (by simp [hq])) hndt'.2).trans ?_
      apply List.Perm.of_eq
      apply List.map_congr_left
      intro q hq
      by_cases hqr : q.rid = r.rid
      · have : q = r := hinj q hq r hrl hqr
        subst this
        simp [updVals, hg]
      · have hqr' : (r.rid == q.rid) = false := by simpa using fun e => hqr e.symm
        simp [updVals, List.contains_cons, hqr, hqr']
    | true =>
      have hfil := filter_vis_updStep w xid cid hx hc g f rows r hg
      have hff : rows.filter (fun q => q.visible (latestView w xid) && (q.rid != r.rid)) =
          (rows.filter (fun q => q.visible (latestView w xid))).filter (fun q => q.rid != r.rid) := by
        rw [List.filter_filter]
        apply List.filter_congr
        intro q _
        exact Bool.and_comm _ _
      rw [hff] at hfil
      -- the remaining targets are still there, untouched
      have hrest : ∀ q ∈ rest, q ∈ updStep (latestView w xid) xid cid g f rows r ∧ q.visible (latestView w xid) = true := by
        intro q hq
        obtain ⟨h1, h2⟩ := hts q (by simp [hq])
        refine ⟨?_, h2⟩
        unfold updStep
        rw [if_pos hg]
        simp only [List.mem_cons, List.mem_map]
        right
        refine ⟨q, h1, closeRow_ne _ _ _ _ _ ?_⟩
        intro e
        exact hndt'.1 (by
          have := List.mem_map_of_mem (f := fun x : Ver => x.rid) hq
          simpa [e] using this)
      have hnd' : (((updStep (latestView w xid) xid cid g f rows r).filter (fun q => q.visible (latestView w xid))).map (·.rid)).Nodup := by
        rw [hfil]
        simp only [List.map_cons, List.nodup_cons]
        refine ⟨?_, ?_⟩
        · intro hmem
          obtain ⟨q, hq, he⟩ := List.mem_map.mp hmem
          have := (List.mem_filter.mp hq).2
          simp only [bne_iff_ne, ne_eq] at this
          exact this he
        · exact (List.filter_sublist.map _).nodup hnd
      have h1 := ih _ hnd' hrest hndt'.2
      rw [hfil] at h1
      refine h1.trans ?_
      have hp := (perm_cons_filter_ne (fun x : Ver => x.rid) _ hnd r hrl).map (fun q => (q.rid, updVals g f (r :: rest) q))
      refine List.Perm.trans ?_ hp.symm
      apply List.Perm.of_eq
      simp only [List.map_cons]
      congr 1
      · have hc1 : (rest.map (·.rid)).contains r.rid = false := by
          cases h : (rest.map (·.rid)).contains r.rid with
          | false => rfl
          | true => exact absurd (List.contains_iff_mem.mp h) hndt'.1
        have a : updVals g f rest (newVer xid cid r.rid (f r.vals)) = f r.vals := by
          have hc2 : (rest.map (·.rid)).contains (newVer xid cid r.rid (f r.vals)).rid = false := hc1
          unfold updVals
          simp only [hc2, Bool.false_and, Bool.false_eq_true, if_false]
          rfl
        have b : updVals g f (r :: rest) r = f r.vals := by
          unfold updVals
          simp [hg]
        show (r.rid, updVals g f rest (newVer xid cid r.rid (f r.vals))) = (r.rid, updVals g f (r :: rest) r)
        rw [a, b]
      · apply List.map_congr_left
        intro q hq
        have hne := (List.mem_filter.mp hq).2
        simp only [bne_iff_ne, ne_eq] at hne
        have hqr' : (q.rid == r.rid) = false := by simpa using hne
        show (q.rid, updVals g f rest q) = (q.rid, updVals g f (r :: rest) q)
        unfold updVals
        simp only [List.map_cons, List.contains_cons, hqr', Bool.false_or]

end Ledger.Sql

namespace Ledger.Sql

/-- the whole UPDATE (every visible row is a target) -/
theorem visible_updRun_all (w : World) (xid cid : Nat) (hx : xid ≠ 0) (hc : cid < 1000000000) (g : List Value → Bool) (f : List Value → List Value)
    (rows : List Ver) (hnd : ((rows.filter (fun q => q.visible (latestView w xid))).map (·.rid)).Nodup) :
    (((updRun (latestView w xid) xid cid g f rows (rows.filter (fun q => q.visible (latestView w xid))).reverse).filter
        (fun q => q.visible (latestView w xid))).map (fun q => (q.rid, q.vals))).Perm
      ((rows.filter (fun q => q.visible (latestView w xid))).map (fun q => (q.rid, if g q.vals then f q.vals else q.vals))) := by
  have h := visible_updRun w xid cid hx hc g f (rows.filter (fun q => q.visible (latestView w xid))).reverse rows hnd
    (fun r hr => List.mem_filter.mp (List.mem_reverse.mp hr)) (by rw [List.map_reverse]; exact nodup_reverse' _ hnd)
  refine h.trans (List.Perm.of_eq ?_)
  apply List.map_congr_left
  intro q hq
  have : ((rows.filter (fun q => q.visible (latestView w xid))).reverse.map (·.rid)).contains q.rid = true := by
    apply List.contains_iff_mem.mpr
    exact List.mem_map_of_mem (List.mem_reverse.mpr hq)
  simp only [updVals, this, Bool.true_and]

end Ledger.Sql

namespace Ledger.Sql

theorem mem_updStep_of_ne (lv : View) (xid cid : Nat) (g : List Value → Bool) (f : List Value → List Value) (rows : List Ver) (r q : Ver)
    (hq : q ∈ rows) (hne : q.rid ≠ r.rid) : q ∈ updStep lv xid cid g f rows r := by
  unfold updStep
  split
  · simp only [List.mem_cons, List.mem_map]
    right
    exact ⟨q, hq, closeRow_ne _ _ _ _ _ hne⟩
  · exact hq

/-- the table invariant of an UPDATE holds after its loop -/
theorem UpdInv.run {t : Table} {g : List Value → Bool} {f : List Value → List Value} {lv : View} {xid cid : Nat} {P : Ver → Prop}
    {Inv : List Ver → Prop} (hI : UpdInv t g f lv xid cid P Inv) :
    ∀ (ts cur : List Ver), (∀ r ∈ ts, r ∈ cur ∧ r.visible lv = true ∧ P r) → (ts.map (·.rid)).Nodup → Inv cur →
      Inv (updRun lv xid cid g f cur ts) := by
  intro ts
  induction ts with
  | nil => intro cur _ _ h; exact h
  | cons r rest ih =>
    intro cur hts hnd hinv
    obtain ⟨hr, hv, hP⟩ := hts r (by simp)
    have hnd' := List.nodup_cons.mp hnd
    have hstep : Inv (updStep lv xid cid g f cur r) := by
      cases hg : g r.vals with
      | false => simpa [updStep, hg] using hinv
      | true => exact hI.step cur r hinv hr hv hP hg
    apply ih _ _ hnd'.2 hstep
    intro q hq
    obtain ⟨h1, h2, h3⟩ := hts q (by simp [hq])
    refine ⟨mem_updStep_of_ne _ _ _ _ _ _ _ _ h1 ?_, h2, h3⟩
    intro e
    exact hnd'.1 (by
      have := List.mem_map_of_mem (f := fun x : Ver => x.rid) hq
      simpa [e] using this)

theorem Fresh_updStep (lv : View) (xid cid c' : Nat) (hc : cid < c') (hx : xid ≠ 0) (g : List Value → Bool) (f : List Value → List Value)
    (rows : List Ver) (r : Ver) (h : Fresh xid c' rows) : Fresh xid c' (updStep lv xid cid g f rows r) := by
  unfold updStep
  split
  · intro q hq
    simp only [List.mem_cons, List.mem_map] at hq
    rcases hq with rfl | ⟨q0, hq0, rfl⟩
    · exact ⟨fun _ => hc, fun e => by simp [newVer] at e; exact absurd e.symm hx⟩
    · have := h q0 hq0
      unfold closeRow
      split
      · exact ⟨this.1, fun _ => hc⟩
      · exact this
  · exact h

theorem Fresh_updRun (lv : View) (xid cid c' : Nat) (hc : cid < c') (hx : xid ≠ 0) (g : List Value → Bool) (f : List Value → List Value) :
    ∀ (ts rows : List Ver), Fresh xid c' rows → Fresh xid c' (updRun lv xid cid g f rows ts) := by
  intro ts
  induction ts with
  | nil => intro rows h; exact h
  | cons r rest ih =>
    intro rows h
    exact ih _ (Fresh_updStep lv xid cid c' hc hx g f rows r h)

end Ledger.Sql
