import Ledger.Proofs.SqlUpdateVis

/-!
# UPDATE … FROM: the evaluator's loop against the pure model, with join rows
-/
namespace Ledger.Sql

/-- what an `UPDATE t … FROM …` needs from its pieces: `J` are the rows of the FROM list (fixed during the loop), `mt` picks the
    first of them that joins with a target row -/
structure UpdSemJ (env : Env) (t : Table) (alias a : String) (sets : List SetItem) (wher : Option Expr) (returning : List SelItem)
    (J : List (List Scope)) (mt : List Value → Option (List Scope)) (f : List Value → List Value)
    (accStep : DmlAcc → Ver → DmlAcc) (Q : Ver → List PendingTrig) (P : Ver → Prop) (Sok : St → Prop := fun _ => True) : Prop where
  hmatch : ∀ r, P r → ∀ m s, Sok s → (firstJoinMatch (m + 3) env wher (rowScopeOf t a r) J).exec s = (.ok (mt r.vals), s)
  hwhere : ∀ r, P r → ∀ F, mt r.vals = some F → ∀ m s, Sok s →
    (whereHolds (m + 2) env wher ([rowScopeOf t a r] ++ F)).exec s = (.ok true, s)
  hsets : ∀ r, P r → ∀ F, mt r.vals = some F → ∀ m rows s, Sok s →
    (applySets (m + 3) { env with locals := [rowScopeOf t a r] ++ F } (t.withRows rows) r.vals sets).exec s = (.ok (f r.vals), s)
  hchecks : ∀ r, P r → (mt r.vals).isSome = true → ∀ rows s, Sok s → (checkConstraints (t.withRows rows) (f r.vals)).exec s = (.ok (), s)
  hfks : ∀ r, P r → (mt r.vals).isSome = true → ∀ rows s, Sok s → (checkForeignKeys (t.withRows rows) (f r.vals)).exec s = (.ok (), s)
  hbefore : t.triggers.filter (fun tr => tr.timing == .before && tr.event == .update) = []
  hafter : ∀ r, P r → (mt r.vals).isSome = true → ∀ m rows s, Sok s →
    (queueAfter (m + 3) (t.withRows rows) .update (sets.map (fun si => match si with | .mk c _ => c)) (some (f r.vals)) (some r.vals)).exec s =
      (.ok (), s.addQ (Q r))
  hacc : ∀ r, P r → ∀ F, mt r.vals = some F → ∀ m rows s a, Sok s →
    (accReturning (m + 3) env (t.withRows rows) alias (f r.vals) F returning a).exec s = (.ok (accStep a r), s)

theorem exec_updateRowStep_J (n : Nat) (env : Env) (full alias a : String) (sets : List SetItem) (wher : Option Expr)
    (returning : List SelItem) (t : Table) (J : List (List Scope)) (mt : List Value → Option (List Scope)) (f : List Value → List Value)
    (accStep : DmlAcc → Ver → DmlAcc) (Q : Ver → List PendingTrig) (P : Ver → Prop)
    (Sok : St → Prop) (hSokT : ∀ s t, Sok s → Sok (s.withTable t)) (hSokQ : ∀ s q, Sok s → Sok (s.addQ q))
    (sem : UpdSemJ env t alias a sets wher returning J mt f accStep Q P Sok)
    (s : St) (hs : TxState s) (hS : Sok s) (rows : List Ver) (hT : s.w.table? full = some (t.withRows rows)) (hname : t.name = full)
    (r : Ver) (hr : r ∈ rows) (hv : r.visible (latestView s.w s.xid) = true) (hP : P r)
    (hinj : RidInj (latestView s.w s.xid) rows)
    (hnc : (mt r.vals).isSome = true → (findConflict (t.withRows rows) t.uniques (f r.vals) (some r.rid)).exec s = (.ok none, s))
    (acc : DmlAcc) :
    (updateRowStep (n + 4) env full alias sets J wher returning (rowScopeOf t a r) acc).exec s =
      (if (mt r.vals).isSome then
        (.ok (accStep acc r), (s.withTable (t.withRows (updStep (latestView s.w s.xid) s.xid s.cid (fun v => (mt v).isSome) f rows r))).addQ (Q r))
       else (.ok acc, s)) := by
  rw [updateRowStep]
  have hfj := sem.hmatch r hP n s hS
  simp only [exec_bind, hfj]
  cases hg : mt r.vals with
  | none => simp
  | some F =>
    have hgs : (mt r.vals).isSome = true := by rw [hg]; rfl
    have hlat := exec_latestVersion s (t.withRows rows) r (by simpa using hr) hv (by simpa using hinj)
    have hsrc : (rowScopeOf t a r).src = some (t.name, r.rid) := rfl
    have hsc : ({ alias := (rowScopeOf t a r).alias, cols := (rowScopeOf t a r).cols, vals := r.vals,
                  src := some (t.name, r.rid) } : Scope) = rowScopeOf t a r := rfl
    have hwh := sem.hwhere r hP F hg (n + 1) s hS
    have hstepEq : updStep (latestView s.w s.xid) s.xid s.cid (fun v => (mt v).isSome) f rows r =
        newVer s.xid s.cid r.rid (f r.vals) :: rows.map (closeRow (latestView s.w s.xid) s.xid s.cid r.rid) := by
      simp [updStep, hg]
    have hT2 : (s.withTable (t.withRows (updStep (latestView s.w s.xid) s.xid s.cid (fun v => (mt v).isSome) f rows r))).w.table? full =
        some (t.withRows (updStep (latestView s.w s.xid) s.xid s.cid (fun v => (mt v).isSome) f rows r)) := by
      have := withTable_table? s (t.withRows rows) (t.withRows (updStep (latestView s.w s.xid) s.xid s.cid (fun v => (mt v).isSome) f rows r)) (by rw [withRows_name, hname]; exact hT)
      simpa [hname] using this
    have hupd : (updateVersion full r.rid (f r.vals)).exec s =
        (.ok (), s.withTable (t.withRows (updStep (latestView s.w s.xid) s.xid s.cid (fun v => (mt v).isSome) f rows r))) := by
      rw [exec_updateVersion hT, hstepEq]
      simp [newVer, Table.withRows]
    simp only [Option.isSome_some, if_true, hsrc, exec_getTable hT, hlat, exec_heldByOther s hs, exec_bind]
    have hrest : ∀ (ok : Bool), ok = true →
        ((if (!ok) = true then pure acc
          else do
            let newVals ← applySets (n + 3) { env with locals := [rowScopeOf t a r] ++ F } (t.withRows rows) r.vals sets
            let __do_lift ← fireBefore (n + 3) (t.withRows rows) TrigEvent.update (sets.map (fun x => match x with | SetItem.mk c _ => c)) (some newVals) (some r.vals)
            match __do_lift with
            | none => pure acc
            | some newVals => do
              let t ← getTable full
              checkConstraints t newVals
              let __do_lift ← findConflict t t.uniques newVals (some r.rid)
              match __do_lift with
              | some (idx, _) => throw (uniqueViolation t idx (keyOf t idx.cols newVals))
              | none => do
                checkForeignKeys t newVals
                updateVersion full r.rid newVals
                let t ← getTable full
                queueAfter (n + 3) t TrigEvent.update (sets.map (fun x => match x with | SetItem.mk c _ => c)) (some newVals) (some r.vals)
                accReturning (n + 3) env t alias newVals F returning acc) : M DmlAcc).exec s =
          (.ok (accStep acc r), (s.withTable (t.withRows (updStep (latestView s.w s.xid) s.xid s.cid (fun v => (mt v).isSome) f rows r))).addQ (Q r)) := by
      intro ok hok
      subst hok
      have h1 := fun m rows' => sem.hsets r hP F hg m rows' s hS
      have h2 := fun rows' => sem.hchecks r hP hgs rows' s hS
      have h3 := fun rows' => sem.hfks r hP hgs rows' s hS
      have hS2 := hSokT s (t.withRows (updStep (latestView s.w s.xid) s.xid s.cid (fun v => (mt v).isSome) f rows r)) hS
      have h4 := fun m rows' => sem.hafter r hP hgs m rows' _ hS2
      have h5 := fun m rows' a' => sem.hacc r hP F hg m rows' _ a' (hSokQ _ (Q r) hS2)
      simp only [Bool.not_true, Bool.false_eq_true, if_false, exec_bind, withRows_uniques,
        h1, exec_fireBefore_none _ (t.withRows rows) .update (by simp) _ _ _ _ (by simpa using sem.hbefore),
        exec_getTable hT, h2, hnc hgs, h3, hupd, exec_getTable hT2, h4, h5]
    cases (r.vals == (rowScopeOf t a r).vals) with
    | true =>
      simp only [if_true, hsc, exec_bind, exec_pure]
      exact hrest true rfl
    | false =>
      simp only [Bool.false_eq_true, if_false, hsc, exec_bind, hwh]
      exact hrest true rfl

end Ledger.Sql

namespace Ledger.Sql

theorem exec_updLoop_J (n : Nat) (env : Env) (full alias a : String) (sets : List SetItem) (wher : Option Expr)
    (returning : List SelItem) (t : Table) (J : List (List Scope)) (mt : List Value → Option (List Scope)) (f : List Value → List Value)
    (accStep : DmlAcc → Ver → DmlAcc) (Q : Ver → List PendingTrig) (P : Ver → Prop)
    (Sok : St → Prop) (hSokT : ∀ s t, Sok s → Sok (s.withTable t)) (hSokQ : ∀ s q, Sok s → Sok (s.addQ q))
    (sem : UpdSemJ env t alias a sets wher returning J mt f accStep Q P Sok)
    (s0 : St) (hs : TxState s0) (hS0 : Sok s0) (rows0 : List Ver) (hT0 : s0.w.table? full = some (t.withRows rows0)) (hname : t.name = full)
    (Inv : List Ver → Prop) (hI : UpdInv t (fun v => (mt v).isSome) f (latestView s0.w s0.xid) s0.xid s0.cid P Inv) :
    ∀ (ts : List Ver) (rows : List Ver) (acc : DmlAcc) (q : List PendingTrig),
      (∀ r ∈ ts, r ∈ rows ∧ r.visible (latestView s0.w s0.xid) = true ∧ P r) → (ts.map (·.rid)).Nodup →
      RidInj (latestView s0.w s0.xid) rows → Inv rows →
      ((ts.map (rowScopeOf t a)).foldlM (fun acc tsc =>
          updateRowStep (n + 4) env full alias sets J wher returning tsc acc) acc).exec ((s0.withTable (t.withRows rows)).addQ q) =
        (.ok (updAcc (fun v => (mt v).isSome) accStep acc ts),
         (s0.withTable (t.withRows (updRun (latestView s0.w s0.xid) s0.xid s0.cid (fun v => (mt v).isSome) f rows ts))).addQ
           (q ++ updQ (fun v => (mt v).isSome) Q ts)) := by
  intro ts
  induction ts with
  | nil => intro rows acc q _ _ _ _; simp [updAcc, updRun, updQ]
  | cons r rest ih =>
    intro rows acc q hts hnd hinj hinv
    obtain ⟨hr, hv, hP⟩ := hts r (by simp)
    have hnd' := List.nodup_cons.mp hnd
    have hsT : TxState ((s0.withTable (t.withRows rows)).addQ q) := (hs.withTable _).addQ q
    have hT : ((s0.withTable (t.withRows rows)).addQ q).w.table? full = some (t.withRows rows) := by
      have := withTable_table? s0 (t.withRows rows0) (t.withRows rows) (by rw [withRows_name, hname]; exact hT0)
      simpa [hname] using this
    have hstep := exec_updateRowStep_J n env full alias a sets wher returning t J mt f accStep Q P Sok hSokT hSokQ sem
      ((s0.withTable (t.withRows rows)).addQ q) hsT (hSokQ _ q (hSokT _ _ hS0)) rows hT hname r hr (by simpa using hv) hP (by simpa using hinj)
      (fun hg => hI.noConflict rows r hinv hr hv hP hg _ hsT (by simp) (by simp)) acc
    simp only [addQ_w, withTable_latestView, addQ_xid, withTable_xid, addQ_cid, withTable_cid] at hstep
    simp only [List.map_cons, exec_foldlM_cons, hstep]
    have hrest : ∀ r' ∈ rest, r' ∈ updStep (latestView s0.w s0.xid) s0.xid s0.cid (fun v => (mt v).isSome) f rows r ∧
        r'.visible (latestView s0.w s0.xid) = true ∧ P r' := by
      intro r' hr'
      obtain ⟨h1, h2, h3⟩ := hts r' (by simp [hr'])
      refine ⟨mem_updStep_of_ne _ _ _ _ _ _ _ _ h1 ?_, h2, h3⟩
      intro e
      exact hnd'.1 (by
        have := List.mem_map_of_mem (f := fun x : Ver => x.rid) hr'
        simpa [e] using this)
    have hinj' := RidInj_updStep s0.w s0.xid s0.cid hs.xid hs.cid (fun v => (mt v).isSome) f rows r hinj
    cases hg : (mt r.vals).isSome with
    | false =>
      have e : updStep (latestView s0.w s0.xid) s0.xid s0.cid (fun v => (mt v).isSome) f rows r = rows := by simp [updStep, hg]
      simp only [Bool.false_eq_true, if_false]
      rw [ih rows acc q (by rw [← e]; exact hrest) hnd'.2 hinj hinv]
      simp [updAcc, updRun, updQ, hg, e]
    | true =>
      have hinv' := hI.step rows r hinv hr hv hP hg
      simp only [if_true]
      rw [addQ_withTable, withTable_withTable _ _ _ (by simp), addQ_addQ]
      rw [ih _ (accStep acc r) (q ++ Q r) hrest hnd'.2 hinj' hinv']
      simp [updAcc, updRun, updQ, hg, List.append_assoc]

/-- `UPDATE t [alias] SET … FROM <items> WHERE … RETURNING …`, the FROM items evaluating (without effect) to the rows `J` -/
theorem exec_execUpdate_J (n : Nat) (env : Env) (schema table full alias a : String) (sets : List SetItem) (from_ : List FromItem)
    (wher : Option Expr) (returning : List SelItem) (t : Table) (J : List (List Scope)) (mt : List Value → Option (List Scope))
    (f : List Value → List Value) (accStep : DmlAcc → Ver → DmlAcc) (Q : Ver → List PendingTrig) (P : Ver → Prop)
    (Sok : St → Prop) (hSokT : ∀ s t, Sok s → Sok (s.withTable t)) (hSokQ : ∀ s q, Sok s → Sok (s.addQ q))
    (sem : UpdSemJ env t alias a sets wher returning J mt f accStep Q P Sok)
    (s : St) (hs : TxState s) (hS : Sok s) (rows : List Ver) (hT : s.w.table? full = some (t.withRows rows)) (hname : t.name = full)
    (hq : (qualify schema table).exec s = (.ok full, s)) (ha : a = if alias.isEmpty then table else alias)
    (hfrom : (evalFromList (n + 4) env from_ [[]]).exec s = (.ok J, s))
    (hfresh : Fresh s.xid s.cid rows)
    (hnd : ((rows.filter (fun r => r.visible (latestView s.w s.xid))).map (·.rid)).Nodup)
    (hP : ∀ r ∈ rows, r.visible (latestView s.w s.xid) = true → P r)
    (Inv : List Ver → Prop) (hI : UpdInv t (fun v => (mt v).isSome) f (latestView s.w s.xid) s.xid s.cid P Inv) (hinv : Inv rows)
    (protoCols : List String)
    (hproto : returning.isEmpty = false → ∀ s', ∃ pv, (do
        let protoF ← protoScopes (n + 4) env from_
        evalReturning (n + 4) env (t.withRows
          (updRun (latestView s.w s.xid) s.xid s.cid (fun v => (mt v).isSome) f rows (rows.filter (fun r : Ver => r.visible (latestView s.w s.xid))).reverse))
          alias (t.cols.map (fun _ => Value.null)) protoF (protoReturning returning)).exec s' = (.ok (protoCols, pv), s')) :
    (execUpdate (n + 5) env schema table alias sets from_ wher returning).exec s =
      (let ts := (rows.filter (fun r => r.visible (latestView s.w s.xid))).reverse
       let acc := updAcc (fun v => (mt v).isSome) accStep {} ts
       (.ok { rel := { cols := if acc.retCols.isEmpty && !returning.isEmpty then protoCols else acc.retCols, rows := acc.retRows },
              affected := acc.affected },
        (s.withTable (t.withRows (updRun (latestView s.w s.xid) s.xid s.cid (fun v => (mt v).isSome) f rows ts))).addQ
          (updQ (fun v => (mt v).isSome) Q ts))) := by
  have hscanEq : (t.withRows rows).scan (cv s) = (rows.filter (fun r => r.visible (latestView s.w s.xid))).reverse := by
    rw [scan_eq]
    congr 1
    apply List.filter_congr
    intro r hr
    exact visible_cv_latest s hs rows hfresh r hr
  have hself : s.withTable (t.withRows rows) = s := withTable_self s _ (by rw [withRows_name, hname]; exact hT) hs.names
  have hinj : RidInj (latestView s.w s.xid) rows := by
    intro r1 h1 r2 h2 v1 v2 e
    have m1 : r1 ∈ rows.filter (fun r => r.visible (latestView s.w s.xid)) := List.mem_filter.mpr ⟨h1, v1⟩
    have m2 : r2 ∈ rows.filter (fun r => r.visible (latestView s.w s.xid)) := List.mem_filter.mpr ⟨h2, v2⟩
    exact nodup_map_inj (fun x : Ver => x.rid) _ hnd r1 m1 r2 m2 e
  have hts : ∀ r ∈ (rows.filter (fun r => r.visible (latestView s.w s.xid))).reverse,
      r ∈ rows ∧ r.visible (latestView s.w s.xid) = true ∧ P r := by
    intro r hr
    have := List.mem_filter.mp (List.mem_reverse.mp hr)
    exact ⟨this.1, this.2, hP r this.1 this.2⟩
  have hndr : (((rows.filter (fun r => r.visible (latestView s.w s.xid))).reverse).map (·.rid)).Nodup := by
    rw [List.map_reverse]; exact nodup_reverse' _ hnd
  have hloop := exec_updLoop_J n env full alias a sets wher returning t J mt f accStep Q P Sok hSokT hSokQ sem s hs hS rows hT hname Inv hI
    _ rows {} [] hts hndr hinj hinv
  rw [hself, addQ_nil] at hloop
  rw [execUpdate]
  have hsc := exec_scanTable s hs (t.withRows rows) (if alias.isEmpty then table else alias)
  rw [hscanEq] at hsc
  have hmapsc : (rows.filter (fun r => r.visible (latestView s.w s.xid))).reverse.map (rowScopeOf (t.withRows rows) (if alias.isEmpty then table else alias)) =
      (rows.filter (fun r => r.visible (latestView s.w s.xid))).reverse.map (rowScopeOf t a) := by
    rw [ha]; rfl
  have hT2 := withTable_table? s (t.withRows rows) (t.withRows (updRun (latestView s.w s.xid) s.xid s.cid (fun v => (mt v).isSome) f rows
      (rows.filter (fun r => r.visible (latestView s.w s.xid))).reverse)) (by rw [withRows_name, hname]; exact hT)
  simp only [exec_bind, hq, exec_getTable hT, hsc, hfrom, hmapsc, hloop, List.nil_append]
  cases hcase : ((updAcc (fun v => (mt v).isSome) accStep {} (rows.filter (fun r => r.visible (latestView s.w s.xid))).reverse).retCols.isEmpty &&
      !returning.isEmpty) with
  | false => simp [hcase]
  | true =>
    have hre : returning.isEmpty = false := by
      cases h : returning.isEmpty <;> simp_all
    simp only [hcase, if_true, exec_bind]
    rw [exec_getTable (by simpa [hname] using hT2)]
    obtain ⟨pv, hpv⟩ := hproto hre ((s.withTable (t.withRows (updRun (latestView s.w s.xid) s.xid s.cid (fun v => (mt v).isSome) f rows
      (rows.filter (fun r => r.visible (latestView s.w s.xid))).reverse))).addQ (updQ (fun v => (mt v).isSome) Q (rows.filter (fun r => r.visible (latestView s.w s.xid))).reverse))
    unfold protoReturning at hpv
    simp only [withRows_cols, exec_bind] at hpv ⊢
    cases hp : (protoScopes (n + 4) env from_).exec ((s.withTable (t.withRows (updRun (latestView s.w s.xid) s.xid s.cid (fun v => (mt v).isSome) f rows
        (rows.filter (fun r => r.visible (latestView s.w s.xid))).reverse))).addQ (updQ (fun v => (mt v).isSome) Q (rows.filter (fun r => r.visible (latestView s.w s.xid))).reverse)) with
    | mk res S1 =>
      rw [hp] at hpv
      cases res with
      | error e => simp at hpv
      | ok F =>
        simp only at hpv ⊢
        erw [hpv]
        rfl

end Ledger.Sql
