import Ledger.Proofs.SqlMovesDrain

/-!
# `INSERT INTO moves … RETURNING …` with its row triggers, as one statement
-/
open Ledger Ledger.Sql Ledger.Generated Ledger.Core
namespace Ledger.Sql
open Ledger.Spec

theorem insAcc_spec : ∀ (news : List Spec.MoveRow) (acc : DmlAcc),
    (insAcc acc news).retRows = acc.retRows ++ news.map retOf ∧ (insAcc acc news).affected = acc.affected + news.length ∧
    (insAcc acc news).retCols = if news.isEmpty then acc.retCols else ["post_commit_volumes", "post_commit_effective_volumes"] := by
  intro news
  induction news with
  | nil => intro acc; simp [insAcc]
  | cons m ms ih =>
    intro acc
    obtain ⟨h1, h2, h3⟩ := ih (DmlAcc.mk ["post_commit_volumes", "post_commit_effective_volumes"] (acc.retRows ++ [retOf m]) (acc.affected + 1))
    refine ⟨?_, ?_, ?_⟩
    · simp [insAcc, h1, List.append_assoc]
    · simp [insAcc, h2]; omega
    · simp only [insAcc, h3]
      cases ms <;> simp

theorem insNew_length (ln : String) : ∀ (ms : List Spec.MoveRow) (tbl : List (String × Spec.MoveRow)), (insNew ln tbl ms).length = ms.length := by
  intro ms
  induction ms with
  | nil => intro _; rfl
  | cons m ms ih => intro tbl; simp [insNew, ih]

theorem clearQ_of_empty (s : St) (h : s.afterQ = []) : s.clearQ = s := by
  cases s
  simp only at h
  subst h
  rfl

/-- the VALUES rows of `InsertMoves` evaluate to themselves -/
theorem exec_evalValuesRows_moves (n : Nat) (env : Env) (ln : String) (prs : List WriteSql.P.MoveRow) (s : St) :
    ((prs.map fun r => [(Expr.int r.transactions_id), (Expr.bool r.is_source), (Expr.str r.accounts_address), (Expr.str (toString r.amount)),
        (Expr.str r.asset), (Expr.str r.insertion_date), (Expr.str r.effective_date), (Expr.str r.post_commit_volumes), (Expr.str ln)]).mapM
      (fun row => evalValuesRow (n + 1) env row)).exec s = (.ok (prs.map (fun r => mvSrcRow r ln)), s) := by
  rw [List.mapM_map]
  apply exec_mapM_pure _ (fun r => mvSrcRow r ln)
  intro r _
  simp only [Function.comp]
  rw [evalValuesRow]
  simp [exec_bind, exec_mapM_cons, evalExpr, mvSrcRow]

end Ledger.Sql

namespace Ledger.Sql
open Ledger.Spec

/-- the typed content of the rows visible in `lv` -/
def mvAbs (lv : View) (rows : List Ver) : List (String × Spec.MoveRow) :=
  ((rows.filter (fun r => r.visible lv)).map (·.vals)).filterMap mvDec

theorem filterMap_mvDec_typed : ∀ (l : List (List Value)), (∀ v ∈ l, ∃ l' m, v = mvVals l' m) →
    (l.filterMap mvDec).map (fun p => mvVals p.1 p.2) = l := by
  intro l
  induction l with
  | nil => intro _; rfl
  | cons v vs ih =>
    intro h
    obtain ⟨l', m, rfl⟩ := h v (by simp)
    simp [List.filterMap_cons, mvDec_mvVals, ih (fun x hx => h x (by simp [hx]))]

theorem MvView_mvAbs (lv : View) (bound : Int) (rows : List Ver) (h : MvAll bound rows) : MvView lv rows (mvAbs lv rows) := by
  unfold MvView mvAbs
  rw [filterMap_mvDec_typed]
  intro v hv
  obtain ⟨r, hr, rfl⟩ := List.mem_map.mp hv
  obtain ⟨l, m, hv', _⟩ := h r (List.mem_filter.mp hr).1
  exact ⟨l, m, hv'⟩

theorem mvAbs_seqs (lv : View) (bound : Int) (rows : List Ver) (h : MvAll bound rows) :
    (mvAbs lv rows).map (·.2.seq) = (rows.filter (fun r => r.visible lv)).map (fun r => seqOfVals r.vals) := by
  have hv := MvView_mvAbs lv bound rows h
  unfold MvView at hv
  have : ((rows.filter (fun r => r.visible lv)).map (·.vals)).map seqOfVals = ((mvAbs lv rows).map (fun p => mvVals p.1 p.2)).map seqOfVals := by
    rw [hv]
  simp only [List.map_map] at this
  rw [show (fun r : Ver => seqOfVals r.vals) = seqOfVals ∘ (fun r => r.vals) from rfl, this]
  apply List.map_congr_left
  intro p _
  simp

theorem mvAbs_bound (lv : View) (bound : Int) (rows : List Ver) (h : MvAll bound rows) : ∀ q ∈ mvAbs lv rows, (q.2.seq : Int) < bound := by
  intro q hq
  obtain ⟨r, hr, _, hv⟩ := (MvView_mvAbs lv bound rows h).of_mem q hq
  obtain ⟨l, m, hv', hlt⟩ := h r hr
  obtain ⟨_, e⟩ := mvVals_inj _ _ _ _ (hv.symm.trans hv')
  rw [e]; exact hlt

end Ledger.Sql

namespace Ledger.Sql
open Ledger.Spec

theorem MvAll.mono {b1 b2 : Int} {rows : List Ver} (h : MvAll b1 rows) (hb : b1 ≤ b2) : MvAll b2 rows := by
  intro r hr
  obtain ⟨l, m, hv, hlt⟩ := h r hr
  exact ⟨l, m, hv, by omega⟩

/-- the invariant of `moves` after the insert phase -/
theorem insRows_inv (w : World) (xid cid : Nat) (hx : xid ≠ 0) (hc : cid < 1000000000) (ln : String) :
    ∀ (ms : List Spec.MoveRow) (nr : Nat) (rows : List Ver) (tbl : List (String × Spec.MoveRow)) (v : Int), SeqFrom v ms →
      MvInv (latestView w xid) v rows → (∀ r ∈ rows, r.rid < nr) → MvView (latestView w xid) rows tbl →
      MvInv (latestView w xid) (v + ms.length) (insRows xid cid ln nr rows tbl ms) ∧
      (∀ r ∈ insRows xid cid ln nr rows tbl ms, r.rid < nr + ms.length) ∧
      MvView (latestView w xid) (insRows xid cid ln nr rows tbl ms) (insTbl ln tbl ms) := by
  intro ms
  induction ms with
  | nil =>
    intro nr rows tbl v _ hinv hlt hview
    simp only [insRows, insTbl, List.length_nil]
    exact ⟨by simpa using hinv, by simpa using hlt, hview⟩
  | cons m ms ih =>
    intro nr rows tbl v hsf hinv hlt hview
    obtain ⟨hseq, hsf'⟩ := hsf
    have hvis := newVer_visible w xid cid nr (mvVals ln (withPcev tbl ln m)) hx hc
    have hfil : (newVer xid cid nr (mvVals ln (withPcev tbl ln m)) :: rows).filter (fun r => r.visible (latestView w xid)) =
        newVer xid cid nr (mvVals ln (withPcev tbl ln m)) :: rows.filter (fun r => r.visible (latestView w xid)) := by
      rw [List.filter_cons, if_pos hvis]
    have hm' : (withPcev tbl ln m).seq = m.seq := rfl
    have hinv' : MvInv (latestView w xid) (v + 1) (newVer xid cid nr (mvVals ln (withPcev tbl ln m)) :: rows) := by
      refine ⟨?_, ?_, ?_⟩
      · intro r hr
        rcases List.mem_cons.mp hr with rfl | hr
        · exact ⟨ln, withPcev tbl ln m, rfl, by rw [hm']; omega⟩
        · obtain ⟨l', m', hv, h⟩ := hinv.all r hr
          exact ⟨l', m', hv, by omega⟩
      · rw [hfil]
        simp only [List.map_cons, List.nodup_cons]
        refine ⟨?_, hinv.ridNodup⟩
        intro hmem
        obtain ⟨q, hq, he⟩ := List.mem_map.mp hmem
        have := hlt q (List.mem_filter.mp hq).1
        simp only [newVer] at he
        omega
      · rw [hfil]
        simp only [List.map_cons, List.nodup_cons]
        refine ⟨?_, hinv.seqNodup⟩
        intro hmem
        obtain ⟨q, hq, he⟩ := List.mem_map.mp hmem
        obtain ⟨l', m', hv, h⟩ := hinv.all q (List.mem_filter.mp hq).1
        simp only [newVer, hv, seqOfVals_mvVals, hm'] at he
        omega
    have hlt' : ∀ r ∈ newVer xid cid nr (mvVals ln (withPcev tbl ln m)) :: rows, r.rid < nr + 1 := by
      intro r hr
      rcases List.mem_cons.mp hr with rfl | hr
      · simp [newVer]
      · have := hlt r hr; omega
    have hview' : MvView (latestView w xid) (newVer xid cid nr (mvVals ln (withPcev tbl ln m)) :: rows) ((ln, withPcev tbl ln m) :: tbl) := by
      unfold MvView at hview ⊢
      rw [hfil]
      simp only [List.map_cons, hview]
      rfl
    obtain ⟨h1, h2, h3⟩ := ih (nr + 1) _ _ (v + 1) hsf' hinv' hlt' hview'
    simp only [insRows, insTbl, List.length_cons]
    refine ⟨?_, ?_, h3⟩
    · have e : v + 1 + (ms.length : Int) = v + ((ms.length + 1 : Nat) : Int) := by omega
      rw [← e]; exact h1
    · intro r hr
      have := h2 r hr
      omega

end Ledger.Sql

namespace Ledger.Sql
open Ledger.Spec

theorem Fresh_insRows (xid cid c : Nat) (hc : cid < c) (hx : xid ≠ 0) (ln : String) :
    ∀ (ms : List Spec.MoveRow) (nr : Nat) (rows : List Ver) (tbl : List (String × Spec.MoveRow)), Fresh xid c rows →
      Fresh xid c (insRows xid cid ln nr rows tbl ms) := by
  intro ms
  induction ms with
  | nil => intro nr rows tbl h; exact h
  | cons m ms ih =>
    intro nr rows tbl h
    apply ih
    intro q hq
    rcases List.mem_cons.mp hq with rfl | hq
    · exact ⟨fun _ => hc, fun e => by simp [newVer] at e; exact absurd e.symm hx⟩
    · exact h q hq

/-- `drainAfter` on a queue whose triggers queue nothing themselves -/
theorem exec_drainAfter_queue (n : Nat) (X X' : St) (hX : X.afterQ = []) (hX' : X'.afterQ = []) (Q : List PendingTrig) (hQ : Q ≠ [])
    (hfold : (Q.foldlM (drainStep (n + 1)) ()).exec X = (.ok (), X')) :
    (drainAfter (n + 2)).exec (X.addQ Q) = (.ok (), X') := by
  rw [drainAfter]
  have hq : (X.addQ Q).afterQ = Q := by simp [St.addQ, hX]
  have hne : Q.isEmpty = false := by cases Q with | nil => exact absurd rfl hQ | cons _ _ => rfl
  have hcl : ({ X.addQ Q with afterQ := [] } : St) = X := by
    have : ({ X.addQ Q with afterQ := [] } : St) = X.clearQ := rfl
    rw [this, clearQ_of_empty X hX]
  simp only [exec_bind, exec_get, hq, hne, Bool.false_eq_true, if_false, exec_modify, hcl]
  have hf : (Q.foldlM (fun (_ : Unit) (p : PendingTrig) => do
        let t ← getTable p.table
        let _ ← runTrigger (n + 1) p.fname t p.new p.old
        pure ()) ()).exec X = (.ok (), X') := hfold
  rw [hf]
  simp only
  rw [drainAfter]
  simp [exec_bind, hX']

/-- the hypotheses on the state in which `InsertMoves` runs -/
structure MvStmtState (s : St) (b ln : String) (trigs : List TriggerDef)
    (B1 B2 : List TriggerDef) (trB : TriggerDef) (A1 A2 : List TriggerDef) (trA : TriggerDef)
    (item wher dflt_ : Expr) (fB : PlFunc) (setE whereU : Expr) (fA : PlFunc) (nr : Nat) (rows : List Ver) (sq : Seq) : Prop where
  tx : TxState s
  cidLt : s.cid < s.nextCid
  q0 : s.afterQ = []
  bne : b.isEmpty = false
  static : MvStatic s.w.funcs s.w.types b ln trigs B1 B2 trB A1 A2 trA item wher dflt_ fB
  schA : schemaOf trA.fname = b
  funA : s.w.funcs.lookup trA.fname = some fA
  declsA : fA.decls = []
  bodyA : fA.body = updEffBody setE whereU
  semA : UpdEffSem setE whereU
  noUpdB : trigs.filter (fun tr => tr.timing == .before && tr.event == .update) = []
  noUpdA : trigs.filter (fun tr => tr.timing == .after && tr.event == .update) = []
  table : s.w.table? (mvFull b) = some ((mvT b trigs nr).withRows rows)
  seq : s.w.seqs.find? (·.name == mvSeqFull b) = some sq
  inv : MvInv (latestView s.w s.xid) sq.next rows
  fresh : Fresh s.xid s.nextCid rows
  ridLt : ∀ r ∈ rows, r.rid < nr

/-- the statement of `InsertMoves` -/
def insertMovesStmt (b ln : String) (prs : List WriteSql.P.MoveRow) : Stmt :=
  Stmt.insert [] b "moves" "" mvInsertCols (InsertSrc.values (prs.map fun r =>
    [(Expr.int r.transactions_id), (Expr.bool r.is_source), (Expr.str r.accounts_address), (Expr.str (toString r.amount)), (Expr.str r.asset),
     (Expr.str r.insertion_date), (Expr.str r.effective_date), (Expr.str r.post_commit_volumes), (Expr.str ln)])) none mvReturning

theorem insertMoves_shape (b ln : String) (id : Nat) (prs : List WriteSql.P.MoveRow) :
    WriteSql.P.insertMoves b ln id prs = [insertMovesStmt b ln prs] := rfl

end Ledger.Sql

namespace Ledger.Sql
open Ledger.Spec

/-- `INSERT INTO moves (…) VALUES … RETURNING post_commit_volumes, post_commit_effective_volumes` with the row triggers of ledger `ln`,
    as the session runs it (`runStmt`): LeanPG's evaluator against the pure model (`insRows`, `drainRows`). -/
theorem exec_runStmt_insertMoves (p : Nat) (env : Env) (b ln : String) (trigs : List TriggerDef)
    (B1 B2 : List TriggerDef) (trB : TriggerDef) (A1 A2 : List TriggerDef) (trA : TriggerDef) (item wher dflt_ : Expr) (fB : PlFunc)
    (setE whereU : Expr) (fA : PlFunc) (nr : Nat) (rows : List Ver) (sq : Seq) (s : St)
    (hst : MvStmtState s b ln trigs B1 B2 trB A1 A2 trA item wher dflt_ fB setE whereU fA nr rows sq)
    (pm : List (WriteSql.P.MoveRow × Spec.MoveRow)) (hne : pm ≠ []) (hlits : ∀ x ∈ pm, MvLit s.w.types x.1 x.2)
    (hsf : SeqFrom sq.next (pm.map (·.2))) (hrange : sq.next + pm.length ≤ 9223372036854775808)
    (hnc : s.nextCid + 4 * pm.length ≤ 1000000000) :
    (runStmt (p + 15) env (insertMovesStmt b ln (pm.map (·.1)))).exec s =
      (.ok { rel := { cols := ["post_commit_volumes", "post_commit_effective_volumes"],
                      rows := (insNew ln (mvAbs (latestView s.w s.xid) rows) (pm.map (·.2))).map retOf },
             affected := pm.length },
       ((s.withSeqs (seqsRun (mvSeqFull b) sq.next s.w.seqs (pm.map (·.2)))).bump (4 * pm.length)).withTable
         ((mvT b trigs (nr + pm.length)).withRows
           (drainRows (latestView s.w s.xid) s.xid ln (s.nextCid + 2 * pm.length)
             (insRows s.xid s.cid ln nr rows (mvAbs (latestView s.w s.xid) rows) (pm.map (·.2)))
             (insNew ln (mvAbs (latestView s.w s.xid) rows) (pm.map (·.2)))))) := by
  have hall := hst.inv.all
  have hview := MvView_mvAbs (latestView s.w s.xid) sq.next rows hall
  have hndT : ((mvAbs (latestView s.w s.xid) rows).map (·.2.seq)).Nodup := by
    rw [mvAbs_seqs _ _ _ hall]; exact hst.inv.seqNodup
  have hloop := exec_insertLoop_moves p env b ln trigs B1 B2 trB A1 A2 trA item wher dflt_ fB s hst.tx hst.cidLt hst.static
    _ hst.table rfl pm hlits nr rows (mvAbs (latestView s.w s.xid) rows) s.w.seqs 0 {} [] sq hst.seq hsf hrange (by omega)
    hview (by simpa using hst.fresh) hndT (mvAbs_bound _ _ _ hall) hall
  have hstart : ((((s.withSeqs s.w.seqs).bump 0).withTable ((mvT b trigs nr).withRows rows)).addQ []) = s := by
    rw [addQ_nil]
    have e1 : (s.withSeqs s.w.seqs).bump 0 = s := rfl
    rw [e1]
    exact withTable_self s _ hst.table hst.tx.names
  rw [hstart] at hloop
  simp only [Nat.zero_add, List.nil_append] at hloop
  -- the invariant after the insert phase
  obtain ⟨hinv2, hlt2, hview2⟩ := insRows_inv s.w s.xid s.cid hst.tx.xid hst.tx.cid ln (pm.map (·.2)) nr rows
    (mvAbs (latestView s.w s.xid) rows) sq.next hsf hst.inv hst.ridLt hview
  have hfresh2 : Fresh s.xid (s.nextCid + 2 * pm.length) (insRows s.xid s.cid ln nr rows (mvAbs (latestView s.w s.xid) rows) (pm.map (·.2))) :=
    Fresh_insRows _ _ _ (by have := hst.cidLt; omega) hst.tx.xid ln _ _ _ _ (hst.fresh.mono (by omega))
  have hdrain := exec_drainFold_moves (p + 2) b ln trA.fname setE whereU hst.semA fA hst.declsA hst.bodyA
    (s.withSeqs (seqsRun (mvSeqFull b) sq.next s.w.seqs (pm.map (·.2)))) (hst.tx.withSeqs _) hst.funA hst.schA hst.static.types
    trigs (nr + pm.length) hst.noUpdB hst.noUpdA _ hst.table (sq.next + (pm.map (·.2)).length)
    (insNew ln (mvAbs (latestView s.w s.xid) rows) (pm.map (·.2)))
    (insRows s.xid s.cid ln nr rows (mvAbs (latestView s.w s.xid) rows) (pm.map (·.2))) (2 * pm.length)
    (by simp only [withSeqs_nextCid, insNew_length, List.length_map]; omega)
    (by simpa using hfresh2) (by simpa using hinv2)
  simp only [withSeqs_latestView, withSeqs_xid, withSeqs_nextCid, insNew_length, List.length_map] at hdrain
  have hq : (qualify b "moves").exec s.clearQ = (.ok (mvFull b), s.clearQ) := by simp [qualify, hst.bne, mvFull]
  rw [runStmt]
  simp only [exec_bind, exec_get, exec_modify, exec_pure]
  have hcl : ({ s with afterQ := [] } : St) = s := clearQ_of_empty s hst.q0
  rw [hcl]
  rw [insertMovesStmt, execStmt, evalCtes]
  · rw [clearQ_of_empty s hst.q0] at hq
    simp only [exec_bind, exec_pure]
    rw [execInsert]
    have hvals := exec_evalValuesRows_moves (p + 11) env ln (pm.map (·.1)) s
    have hmm : (pm.map (·.1)).map (fun r => mvSrcRow r ln) = pm.map (fun x => mvSrcRow x.1 ln) := by simp [List.map_map, Function.comp]
    rw [hmm] at hvals
    have hce : mvInsertCols.isEmpty = false := rfl
    have hacc := insAcc_spec (insNew ln (mvAbs (latestView s.w s.xid) rows) (pm.map (·.2))) {}
    have hnn : (insNew ln (mvAbs (latestView s.w s.xid) rows) (pm.map (·.2))).isEmpty = false := by
      have := insNew_length ln (pm.map (·.2)) (mvAbs (latestView s.w s.xid) rows)
      cases h : insNew ln (mvAbs (latestView s.w s.xid) rows) (pm.map (·.2)) with
      | nil =>
        rw [h] at this
        simp only [List.length_nil, List.length_map] at this
        exact absurd (List.eq_nil_of_length_eq_zero this.symm) hne
      | cons _ _ => rfl
    simp only [hst.bne, Bool.false_eq_true, if_false, exec_bind, hq, exec_getTable hst.table, hvals, hce, hloop]
    rw [hacc.2.2, hnn, hacc.1, hacc.2.1]
    simp only [Bool.false_eq_true, if_false, List.isEmpty_cons, Bool.false_and, exec_pure]
    have hX : ((((s.withSeqs (seqsRun (mvSeqFull b) sq.next s.w.seqs (pm.map (·.2)))).bump (2 * pm.length)).withTable
        ((mvT b trigs (nr + pm.length)).withRows (insRows s.xid s.cid ln nr rows (mvAbs (latestView s.w s.xid) rows) (pm.map (·.2)))))).afterQ = [] :=
      hst.q0
    have hX' : ((((s.withSeqs (seqsRun (mvSeqFull b) sq.next s.w.seqs (pm.map (·.2)))).bump (2 * pm.length + 2 * pm.length)).withTable
        ((mvT b trigs (nr + pm.length)).withRows (drainRows (latestView s.w s.xid) s.xid ln (s.nextCid + 2 * pm.length)
          (insRows s.xid s.cid ln nr rows (mvAbs (latestView s.w s.xid) rows) (pm.map (·.2)))
          (insNew ln (mvAbs (latestView s.w s.xid) rows) (pm.map (·.2))))))).afterQ = [] := hst.q0
    have hQne : (insNew ln (mvAbs (latestView s.w s.xid) rows) (pm.map (·.2))).map (pendingOf trA.fname (mvFull b) ln) ≠ [] := by
      intro h
      have := congrArg List.isEmpty h
      simp only [List.isEmpty_map, hnn] at this
      cases this
    have hda := exec_drainAfter_queue (p + 12) _ _ hX hX' _ hQne hdrain
    rw [hda]
    simp only
    have e4 : 2 * pm.length + 2 * pm.length = 4 * pm.length := by omega
    rw [e4]
    simp only [List.nil_append, Nat.zero_add, insNew_length, List.length_map]
    have hfin : ∀ X : St, X.afterQ = [] → ({ X with afterQ := s.afterQ } : St) = X := by
      intro X h; rw [hst.q0]; exact clearQ_of_empty X h
    rw [hfin _ (by rw [← e4]; exact hX')]
  · intro h; omega

end Ledger.Sql
