import Ledger.Proofs.Reads

/-!
The account-metadata history read equals the Spec's fold at `t` (C17, `meta_at_t_sync`).

The `accounts` row fold (`acctStepV .current`) and the two Spec folds `metaAt … none` /
`metaAt … (some t)` are advanced together over a chronological journal; the invariant `AcctInv`
says: the row's metadata is the current fold, the latest revision dated ≤ t carries the fold at
`t`, the last revision is `(updated_at, metadata)` and `updated_at` is not after the dates seen.
-/
namespace Ledger.Reads
open Ledger.Base Ledger.Core Ledger.Spec

/-! ### map lemmas -/

theorem erase_sublist {ν : Type} (k : String) (m : Map String ν) : List.Sublist (Map.erase k m) m := by
  induction m with
  | nil => exact List.Sublist.slnil
  | cons e r ih =>
    obtain ⟨k', v⟩ := e
    unfold Map.erase
    by_cases h : k' = k
    · simp only [h, if_true]; exact List.Sublist.cons _ (List.Sublist.refl _)
    · simp only [h, if_false]; exact List.Sublist.cons_cons _ ih

theorem WF_erase {ν : Type} (k : String) {m : Map String ν} (h : Map.WF m) : Map.WF (Map.erase k m) :=
  List.Pairwise.sublist (erase_sublist k m) h

theorem WF_insert {ν : Type} (k : String) (v : ν) {m : Map String ν} (h : Map.WF m) : Map.WF (m.insert k v) :=
  Map.WF_insertWith _ k v h

/-- Writing the value a key already has leaves a well-formed map unchanged. -/
theorem insert_eq_self {ν : Type} (k : String) (v : ν) {m : Map String ν} (hw : Map.WF m)
    (hg : m.get? k = some v) : m.insert k v = m := by
  induction m with
  | nil => simp [Map.get?] at hg
  | cons e r ih =>
    obtain ⟨k', v'⟩ := e
    unfold Map.insert Map.insertWith
    by_cases h : k' = k
    · subst h
      simp only [Map.get?, if_true, Option.some.injEq] at hg
      simp [hg]
    · simp only [h, if_false]
      have hg' : Map.get? r k = some v := by simpa [Map.get?, h] using hg
      by_cases hlt : KeyOrd.lt k k' = true
      · -- `k` would sit before `k'`: then it has no entry at all
        have := Map.get?_eq_none_of_lt hw hlt
        rw [this] at hg
        cases hg
      · have hr := ih (Map.WF_tail hw) hg'
        unfold Map.insert at hr
        simp [hlt, hr]

theorem WF_metaMerge (m md : Metadata) (h : Map.WF m) : Map.WF (metaMerge m md) := by
  unfold metaMerge
  induction md generalizing m with
  | nil => exact h
  | cons e r ih => exact ih _ (WF_insert e.1 e.2 h)

/-- `a.metadata @> d.metadata` ⇒ `a.metadata || d.metadata = a.metadata`. -/
theorem metaMerge_eq_self (m md : Metadata) (hw : Map.WF m) (hc : metaContains m md = true) : metaMerge m md = m := by
  unfold metaMerge
  unfold metaContains at hc
  induction md with
  | nil => rfl
  | cons e r ih =>
    simp only [List.all_cons, Bool.and_eq_true, beq_iff_eq] at hc
    simp only [List.foldl_cons]
    rw [insert_eq_self e.1 e.2 hw hc.1]
    exact ih hc.2

theorem applyChange_save (m md : Metadata) : applyChange m (.save md) = metaMerge m md := rfl

theorem applyChange_delete (m : Metadata) (k : String) : applyChange m (.delete k) = m.erase k := rfl

/-! ### the joint fold -/

def eventDate : Event → Int
  | .committed t _ _ => t.insertedAt
  | .reverted _ d => d
  | .metaWrite e => e.date

/-- The journal is in date order. -/
def Chrono (es : List Event) : Prop := es.Pairwise (fun x y => eventDate x ≤ eventDate y)

/-- The transactions a revert commits carry no account metadata for `a`. -/
def RevertsCarryNoMeta (a : String) (es : List Event) : Prop :=
  ∀ t am, Event.committed t am false ∈ es → am.get? a = none

/-- Joint invariant of (accounts row, current fold, fold at `t`) after a prefix whose dates are ≤ `lb`. -/
def AcctInv (t : Int) (cur : Option AcctRow) (mN mT : Metadata) (lb : Int) : Prop :=
  (lb ≤ t → mT = mN) ∧ Map.WF mN ∧
  match cur with
  | none => mN = [] ∧ mT = []
  | some r => r.metadata = mN ∧ revisionAt r.revisions t = mT ∧
      (∃ init, r.revisions = init ++ [(r.updatedAt, r.metadata)]) ∧ r.updatedAt ≤ lb

theorem revisionAt_last (init : List Revision) (u : Int) (m : Metadata) (t : Int) (h : u ≤ t) :
    revisionAt (init ++ [(u, m)]) t = m := by
  rw [revisionAt_append]; simp [h]

/-- A step that rewrites the row with new metadata `m'` at date `d` (appending the revision). -/
theorem AcctInv_write (t : Int) (r : AcctRow) (mN mT : Metadata) (lb d : Int) (m' : Metadata) (fu : Int)
    (hinv : AcctInv t (some r) mN mT lb) (hd : lb ≤ d) (hw : Map.WF m') :
    AcctInv t (some { r with firstUsage := fu, updatedAt := d, metadata := m', revisions := r.revisions ++ [(d, m')] })
      m' (if d ≤ t then m' else mT) d := by
  obtain ⟨_, _, _, h2, _, _⟩ := hinv
  refine ⟨?_, hw, rfl, ?_, ⟨r.revisions, rfl⟩, Int.le_refl _⟩
  · intro hdt; simp [hdt]
  · rw [revisionAt_append]
    by_cases hdt : d ≤ t
    · simp [hdt]
    · simp [hdt, h2]

/-- A step that leaves the row alone while the folds do not change either. -/
theorem AcctInv_mono (t : Int) (cur : Option AcctRow) (mN mT : Metadata) (lb d : Int)
    (hinv : AcctInv t cur mN mT lb) (hd : lb ≤ d) : AcctInv t cur mN mT d := by
  obtain ⟨h0, hw, h⟩ := hinv
  refine ⟨fun hdt => h0 (by omega), hw, ?_⟩
  cases cur with
  | none => exact h
  | some r =>
    obtain ⟨h1, h2, h3, h4⟩ := h
    exact ⟨h1, h2, h3, by omega⟩

/-- The fold at `t` after a change dated `d` that maps the current fold `mN` to `m'`. -/
theorem foldT_after (t : Int) (cur : Option AcctRow) (mN mT : Metadata) (lb d : Int) (ch : MetaChange)
    (hinv : AcctInv t cur mN mT lb) (hd : lb ≤ d) :
    (if d ≤ t then applyChange mT ch else mT) = (if d ≤ t then applyChange mN ch else mT) := by
  by_cases hdt : d ≤ t
  · have := hinv.1 (by omega)
    simp [hdt, this]
  · simp [hdt]

theorem upsertRow_none (fu : Option Int) (d : Int) (md : Metadata) :
    upsertRow none fu d md =
      { firstUsage := fu.getD d, insertionDate := d, updatedAt := d, metadata := metaMerge [] md,
        revisions := [(d, metaMerge [] md)] } := rfl

theorem upsertRow_some (r : AcctRow) (fu : Option Int) (d : Int) (md : Metadata) :
    upsertRow (some r) fu d md =
      if ((match fu with | some f => decide (f < r.firstUsage) | none => false) || !metaContains r.metadata md) = true then
        { r with firstUsage := (match fu with | some f => if f < r.firstUsage then f else r.firstUsage | none => r.firstUsage),
                 updatedAt := d, metadata := metaMerge r.metadata md,
                 revisions := r.revisions ++ [(d, metaMerge r.metadata md)] }
      else r := rfl

/-- `upsertRow` (metadata `md`, date `d`) keeps the invariant, the folds advancing by `save md`. -/
theorem AcctInv_upsert (t : Int) (cur : Option AcctRow) (mN mT : Metadata) (lb d : Int) (fu : Option Int)
    (md : Metadata) (hinv : AcctInv t cur mN mT lb) (hd : lb ≤ d) :
    AcctInv t (some (upsertRow cur fu d md)) (metaMerge mN md)
      (if d ≤ t then metaMerge mT md else mT) d := by
  have hT := foldT_after t cur mN mT lb d (.save md) hinv hd
  simp only [applyChange_save] at hT
  rw [hT]
  have hinv0 := hinv
  obtain ⟨h0, hw, h⟩ := hinv
  have hw' := WF_metaMerge mN md hw
  cases cur with
  | none =>
    obtain ⟨h1, h2⟩ := h
    subst h1 h2
    rw [upsertRow_none]
    refine ⟨fun hdt => by simp [hdt], hw', rfl, ?_, ⟨[], rfl⟩, Int.le_refl _⟩
    unfold revisionAt
    by_cases hdt : d ≤ t <;> simp [hdt]
  | some r =>
    obtain ⟨h1, h2, h3, h4⟩ := h
    subst h1
    rw [upsertRow_some]
    by_cases hchg : ((match fu with | some f => decide (f < r.firstUsage) | none => false) || !metaContains r.metadata md) = true
    · rw [if_pos hchg]
      exact AcctInv_write t r r.metadata mT lb d (metaMerge r.metadata md) _ hinv0 hd hw'
    · rw [if_neg hchg]
      -- unchanged row: the metadata already contains `md`
      have hcont : metaContains r.metadata md = true := by
        cases hc : metaContains r.metadata md with
        | true => rfl
        | false => simp [hc] at hchg
      rw [metaMerge_eq_self _ _ hw hcont]
      refine ⟨fun hdt => by simp [hdt], hw, rfl, ?_, h3, by omega⟩
      by_cases hdt : d ≤ t
      · simp only [hdt, if_true]
        obtain ⟨init, hi⟩ := h3
        rw [hi, revisionAt_last init _ _ t (by omega)]
      · simp [hdt, h2]

/-- The post-fix delete keeps the invariant, the folds advancing by `delete key`. -/
theorem AcctInv_delete (t : Int) (r : AcctRow) (mN mT : Metadata) (lb d : Int) (key : String)
    (hinv : AcctInv t (some r) mN mT lb) (hd : lb ≤ d) :
    AcctInv t (some { r with metadata := r.metadata.erase key, updatedAt := d,
                             revisions := r.revisions ++ [(d, r.metadata.erase key)] })
      (mN.erase key) (if d ≤ t then mT.erase key else mT) d := by
  have hT := foldT_after t (some r) mN mT lb d (.delete key) hinv hd
  simp only [applyChange_delete] at hT
  rw [hT]
  have hinv0 := hinv
  obtain ⟨_, hw, h1, _, _, _⟩ := hinv
  subst h1
  exact AcctInv_write t r r.metadata mT lb d (r.metadata.erase key) r.firstUsage hinv0 hd (WF_erase key hw)

/-! ### one journal event -/

/-- One event advances row and folds together. -/
theorem AcctInv_step (t : Int) (a : String) (cur : Option AcctRow) (mN mT : Metadata) (lb : Int) (e : Event)
    (hinv : AcctInv t cur mN mT lb) (hd : lb ≤ eventDate e)
    (hrev : ∀ tx am, e = .committed tx am false → am.get? a = none) :
    AcctInv t (acctStepV .current a cur e) (metaStep (.account a) none mN e)
      (metaStep (.account a) (some t) mT e) (eventDate e) := by
  cases e with
  | reverted id d => exact AcctInv_mono t cur mN mT lb d hinv hd
  | committed tx am up =>
    simp only [eventDate] at hd
    cases up with
    | false =>
      have hnone := hrev tx am rfl
      have h1 : acctStepV .current a cur (.committed tx am false) = cur := by simp [acctStepV]
      have h2 : ∀ T m, metaStep (.account a) T m (.committed tx am false) = m := by
        intro T m; simp only [metaStep, hnone]; split <;> simp
      rw [h1, h2, h2]
      exact AcctInv_mono t cur mN mT lb _ hinv hd
    | true =>
      cases hget : am.get? a with
      | none =>
        have h2 : ∀ T m, metaStep (.account a) T m (.committed tx am true) = m := by
          intro T m; simp only [metaStep, hget]; split <;> simp
        rw [h2, h2]
        by_cases hinv' : tx.involves a = true
        · have h1 : acctStepV .current a cur (.committed tx am true) =
              some (upsertRow cur (some tx.timestamp) tx.insertedAt []) := by
            simp [acctStepV, hinv', hget]
          rw [h1]
          have := AcctInv_upsert t cur mN mT lb tx.insertedAt (some tx.timestamp) [] hinv hd
          simpa [metaMerge, eventDate] using this
        · have hc : am.contains a = false := by simp [Map.contains, hget]
          have h1 : acctStepV .current a cur (.committed tx am true) = cur := by
            simp [acctStepV, hinv', hc]
          rw [h1]
          exact AcctInv_mono t cur mN mT lb _ hinv hd
      | some kv =>
        have hc : am.contains a = true := by simp [Map.contains, hget]
        have h1 : acctStepV .current a cur (.committed tx am true) =
            some (upsertRow cur (some tx.timestamp) tx.insertedAt kv) := by
          simp [acctStepV, hc, hget]
        have hN : metaStep (.account a) none mN (.committed tx am true) = metaMerge mN kv := by
          simp [metaStep, hget, applyChange_save]
        have hTt : metaStep (.account a) (some t) mT (.committed tx am true) =
            (if tx.insertedAt ≤ t then metaMerge mT kv else mT) := by
          simp only [metaStep, hget, applyChange_save]
          by_cases hdt : tx.insertedAt ≤ t <;> simp [hdt]
        rw [h1, hN, hTt]
        exact AcctInv_upsert t cur mN mT lb tx.insertedAt (some tx.timestamp) kv hinv hd
  | metaWrite ev =>
    obtain ⟨target, d, change⟩ := ev
    simp only [eventDate] at hd
    by_cases htgt : target = .account a
    · subst htgt
      cases change with
      | save md =>
        have h1 : acctStepV .current a cur (.metaWrite ⟨.account a, d, .save md⟩) = some (upsertRow cur none d md) := by
          simp [acctStepV]
        have hN : metaStep (.account a) none mN (.metaWrite ⟨.account a, d, .save md⟩) = metaMerge mN md := by
          simp [metaStep, applyChange_save]
        have hTt : metaStep (.account a) (some t) mT (.metaWrite ⟨.account a, d, .save md⟩) =
            (if d ≤ t then metaMerge mT md else mT) := by
          simp only [metaStep, applyChange_save]
          by_cases hdt : d ≤ t <;> simp [hdt]
        rw [h1, hN, hTt]
        exact AcctInv_upsert t cur mN mT lb d none md hinv hd
      | delete key =>
        have hN : metaStep (.account a) none mN (.metaWrite ⟨.account a, d, .delete key⟩) = mN.erase key := by
          simp [metaStep, applyChange_delete]
        have hTt : metaStep (.account a) (some t) mT (.metaWrite ⟨.account a, d, .delete key⟩) =
            (if d ≤ t then mT.erase key else mT) := by
          simp only [metaStep, applyChange_delete]
          by_cases hdt : d ≤ t <;> simp [hdt]
        rw [hN, hTt]
        cases cur with
        | none =>
          obtain ⟨_, _, h1, h2⟩ := hinv
          subst h1 h2
          have : acctStepV .current a none (.metaWrite ⟨.account a, d, .delete key⟩) = none := by simp [acctStepV]
          rw [this]
          refine ⟨fun _ => by simp [Map.erase], by simpa [Map.erase] using Map.WF_nil, by simp [Map.erase], ?_⟩
          by_cases hdt : d ≤ t <;> simp [hdt, Map.erase]
        | some r =>
          have : acctStepV .current a (some r) (.metaWrite ⟨.account a, d, .delete key⟩) =
              some { r with metadata := r.metadata.erase key, updatedAt := d,
                            revisions := r.revisions ++ [(d, r.metadata.erase key)] } := by simp [acctStepV]
          rw [this]
          exact AcctInv_delete t r mN mT lb d key hinv hd
    · have h2 : ∀ T m, metaStep (.account a) T m (.metaWrite ⟨target, d, change⟩) = m := by
        intro T m; simp [metaStep, htgt]
      have h1 : acctStepV .current a cur (.metaWrite ⟨target, d, change⟩) = cur := by
        cases target with
        | tx id => cases change <;> simp [acctStepV]
        | account a' =>
          have : a' ≠ a := fun h => htgt (by rw [h])
          cases change <;> simp [acctStepV, this]
      rw [h1, h2, h2]
      exact AcctInv_mono t cur mN mT lb d hinv hd

/-- The whole journal. -/
theorem AcctInv_fold (t : Int) (a : String) (es : List Event) :
    ∀ (cur : Option AcctRow) (mN mT : Metadata) (lb : Int), AcctInv t cur mN mT lb →
      (∀ e ∈ es, lb ≤ eventDate e) → Chrono es → RevertsCarryNoMeta a es →
      ∃ lb', AcctInv t (es.foldl (acctStepV .current a) cur) (es.foldl (metaStep (.account a) none) mN)
        (es.foldl (metaStep (.account a) (some t)) mT) lb' := by
  induction es with
  | nil => intro cur mN mT lb h _ _ _; exact ⟨lb, h⟩
  | cons e es ih =>
    intro cur mN mT lb h hlb hch hrev
    simp only [List.foldl_cons]
    have hstep := AcctInv_step t a cur mN mT lb e h (hlb e List.mem_cons_self)
      (fun tx am he => hrev tx am (by rw [he]; exact List.mem_cons_self))
    have hch' := List.pairwise_cons.mp hch
    exact ih _ _ _ _ hstep (fun x hx => hch'.1 x hx) hch'.2
      (fun tx am hm => hrev tx am (List.mem_cons_of_mem _ hm))

end Ledger.Reads
