import Ledger.Proofs.Reads

/-!
The account-metadata history read equals the Spec's fold at `t` (C17, `meta_at_t_sync`).

The `accounts` row fold (`acctStepV .current`) and the two Spec folds `metaAt … none` /
`metaAt … (some t)` are advanced together over a chronological journal; the invariant `AcctInv`
says: the row's metadata is the current fold, the latest revision dated ≤ t carries the fold at
`t`, the last revision is `(updated_at, metadata)` and `updated_at` is not after the dates seen.
-/
namespace Ledger.Reads
open Ledger.Base Ledger.Core Ledger.Spec

/-! ### map lemmas -/

theorem erase_sublist {ν : Type} (k : String) (m : Map String ν) : List.Sublist (Map.erase k m) m := by
  induction m with
  | nil => exact List.Sublist.slnil
  | cons e r ih =>
    obtain ⟨k', v⟩ := e
    unfold Map.erase
    by_cases h : k' = k
    · simp only [h, if_true]; exact List.Sublist.cons _ (List.Sublist.refl _)
    · simp only [h, if_false]; exact List.Sublist.cons₂ _ ih

theorem WF_erase {ν : Type} (k : String) {m : Map String ν} (h : Map.WF m) : Map.WF (Map.erase k m) :=
  List.Pairwise.sublist (erase_sublist k m) h

theorem WF_insert {ν : Type} (k : String) (v : ν) {m : Map String ν} (h : Map.WF m) : Map.WF (m.insert k v) :=
  Map.WF_insertWith _ k v h

/-- Writing the value a key already has leaves a well-formed map unchanged. -/
theorem insert_eq_self {ν : Type} (k : String) (v : ν) {m : Map String ν} (hw : Map.WF m)
    (hg : m.get? k = some v) : m.insert k v = m := by
  induction m with
  | nil => simp [Map.get?] at hg
  | cons e r ih =>
    obtain ⟨k', v'⟩ := e
    unfold Map.insert Map.insertWith
    by_cases h : k' = k
    · subst h
      simp only [Map.get?, if_true, Option.some.injEq] at hg
      simp [hg]
    · simp only [h, if_false]
      have hg' : Map.get? r k = some v := by simpa [Map.get?, h] using hg
      by_cases hlt : KeyOrd.lt k k' = true
      · -- `k` would sit before `k'`, but every key of `r` is after `k'`
        exfalso
        have hmem : k ∈ Map.keys r := Map.mem_keys_of_get? hg'
        have hpw := (Map.WF_cons.mp hw).1
        obtain ⟨e, he, hek⟩ := List.mem_map.mp hmem
        have h1 : KeyOrd.lt k' e.1 = true := hpw e he
        rw [hek] at h1
        have := Map.lt_asymm' h1
        rw [this] at hlt
        exact absurd hlt (by simp)
      · simp only [hlt, if_false]
        have := ih (Map.WF_tail hw) hg'
        unfold Map.insert at this
        rw [this]

theorem WF_metaMerge (m md : Metadata) (h : Map.WF m) : Map.WF (metaMerge m md) := by
  unfold metaMerge
  induction md generalizing m with
  | nil => exact h
  | cons e r ih => exact ih _ (WF_insert e.1 e.2 h)

/-- `a.metadata @> d.metadata` ⇒ `a.metadata || d.metadata = a.metadata`. -/
theorem metaMerge_eq_self (m md : Metadata) (hw : Map.WF m) (hc : metaContains m md = true) : metaMerge m md = m := by
  unfold metaMerge
  unfold metaContains at hc
  induction md with
  | nil => rfl
  | cons e r ih =>
    simp only [List.all_cons, Bool.and_eq_true, beq_iff_eq] at hc
    simp only [List.foldl_cons]
    rw [insert_eq_self e.1 e.2 hw hc.1]
    exact ih hc.2

theorem applyChange_save (m md : Metadata) : applyChange m (.save md) = metaMerge m md := rfl

theorem applyChange_delete (m : Metadata) (k : String) : applyChange m (.delete k) = m.erase k := rfl

/-! ### the joint fold -/

def eventDate : Event → Int
  | .committed t _ _ => t.insertedAt
  | .reverted _ d => d
  | .metaWrite e => e.date

/-- The journal is in date order. -/
def Chrono (es : List Event) : Prop := es.Pairwise (fun x y => eventDate x ≤ eventDate y)

/-- The transactions a revert commits carry no account metadata for `a`. -/
def RevertsCarryNoMeta (a : String) (es : List Event) : Prop :=
  ∀ t am, Event.committed t am false ∈ es → am.get? a = none

/-- Joint invariant of (accounts row, current fold, fold at `t`) after a prefix whose dates are ≤ `lb`. -/
def AcctInv (t : Int) (cur : Option AcctRow) (mN mT : Metadata) (lb : Int) : Prop :=
  (lb ≤ t → mT = mN) ∧ Map.WF mN ∧
  match cur with
  | none => mN = [] ∧ mT = []
  | some r => r.metadata = mN ∧ revisionAt r.revisions t = mT ∧
      (∃ init, r.revisions = init ++ [(r.updatedAt, r.metadata)]) ∧ r.updatedAt ≤ lb

theorem revisionAt_last (init : List Revision) (u : Int) (m : Metadata) (t : Int) (h : u ≤ t) :
    revisionAt (init ++ [(u, m)]) t = m := by
  rw [revisionAt_append]; simp [h]

/-- A step that rewrites the row with new metadata `m'` at date `d` (appending the revision). -/
theorem AcctInv_write (t : Int) (r : AcctRow) (mN mT : Metadata) (lb d : Int) (m' : Metadata) (fu : Int)
    (hinv : AcctInv t (some r) mN mT lb) (hd : lb ≤ d) (hw : Map.WF m') :
    AcctInv t (some { r with firstUsage := fu, updatedAt := d, metadata := m', revisions := r.revisions ++ [(d, m')] })
      m' (if d ≤ t then m' else mT) d := by
  obtain ⟨_, _, _, h2, _, _⟩ := hinv
  refine ⟨?_, hw, rfl, ?_, ⟨r.revisions, rfl⟩, Int.le_refl _⟩
  · intro hdt; simp [hdt]
  · rw [revisionAt_append]
    by_cases hdt : d ≤ t
    · simp [hdt]
    · simp [hdt, h2]

/-- A step that leaves the row alone while the folds do not change either. -/
theorem AcctInv_mono (t : Int) (cur : Option AcctRow) (mN mT : Metadata) (lb d : Int)
    (hinv : AcctInv t cur mN mT lb) (hd : lb ≤ d) : AcctInv t cur mN mT d := by
  obtain ⟨h0, hw, h⟩ := hinv
  refine ⟨fun hdt => h0 (by omega), hw, ?_⟩
  cases cur with
  | none => exact h
  | some r =>
    obtain ⟨h1, h2, h3, h4⟩ := h
    exact ⟨h1, h2, h3, by omega⟩

/-- The fold at `t` after a change dated `d` that maps the current fold `mN` to `m'`. -/
theorem foldT_after (t : Int) (cur : Option AcctRow) (mN mT : Metadata) (lb d : Int) (ch : MetaChange)
    (hinv : AcctInv t cur mN mT lb) (hd : lb ≤ d) :
    (if d ≤ t then applyChange mT ch else mT) = (if d ≤ t then applyChange mN ch else mT) := by
  by_cases hdt : d ≤ t
  · have := hinv.1 (by omega)
    simp [hdt, this]
  · simp [hdt]

/-- `upsertRow` (metadata `md`, date `d`) keeps the invariant, the folds advancing by `save md`. -/
theorem AcctInv_upsert (t : Int) (cur : Option AcctRow) (mN mT : Metadata) (lb d : Int) (fu : Option Int)
    (md : Metadata) (hinv : AcctInv t cur mN mT lb) (hd : lb ≤ d) :
    AcctInv t (some (upsertRow cur fu d md)) (metaMerge mN md)
      (if d ≤ t then metaMerge mT md else mT) d := by
  have hT := foldT_after t cur mN mT lb d (.save md) hinv hd
  simp only [applyChange_save] at hT
  rw [hT]
  obtain ⟨h0, hw, h⟩ := hinv
  have hw' := WF_metaMerge mN md hw
  cases cur with
  | none =>
    obtain ⟨h1, h2⟩ := h
    subst h1 h2
    unfold upsertRow
    refine ⟨fun hdt => by simp [hdt], hw', rfl, ?_, ⟨[], rfl⟩, Int.le_refl _⟩
    unfold revisionAt
    by_cases hdt : d ≤ t <;> simp [hdt]
  | some r =>
    obtain ⟨h1, h2, h3, h4⟩ := h
    unfold upsertRow
    by_cases hchg : ((match fu with | some f => decide (f < r.firstUsage) | none => false) || !metaContains r.metadata md) = true
    · simp only [hchg, if_true]
      have := AcctInv_write t r mN mT lb d (metaMerge r.metadata md)
        (match fu with | some f => if f < r.firstUsage then f else r.firstUsage | none => r.firstUsage)
        ⟨h0, hw, h1, h2, h3, h4⟩ hd (by rw [h1]; exact hw')
      rw [h1] at this
      exact this
    · simp only [hchg, if_false]
      -- unchanged row: the metadata already contains `md`
      have hcont : metaContains r.metadata md = true := by
        simp only [Bool.or_eq_true, Bool.not_eq_true', not_or, Bool.not_eq_true, Bool.not_eq_false'] at hchg
        simpa using hchg.2
      have heq : metaMerge mN md = mN := by rw [← h1]; exact metaMerge_eq_self _ _ (by rw [h1]; exact hw) hcont
      rw [heq]
      refine ⟨fun hdt => by simp [hdt], hw, h1, ?_, h3, by omega⟩
      by_cases hdt : d ≤ t
      · simp only [hdt, if_true]
        obtain ⟨init, hi⟩ := h3
        rw [hi, revisionAt_last init _ _ t (by omega), h1]
      · simp [hdt, h2]

end Ledger.Reads
