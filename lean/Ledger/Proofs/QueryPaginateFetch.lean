import Ledger.Proofs.QueryPaginateBase
namespace Ledger.Query

def StrictSorted (o : Order) (S : List Row) : Prop := S.Pairwise (fun a b => o.lt a.key b.key)

theorem keysDistinct_perm {A B : List Row} (h : A.Perm B) : KeysDistinct A → KeysDistinct B := by
  intro hA
  unfold KeysDistinct at *
  exact (h.map (fun r : Row => r.key)).nodup_iff.mp hA

theorem strictSorted_orderBy (o : Order) (T : List Row) (h : KeysDistinct T) :
    StrictSorted o (orderBy o T) := by
  have hs := orderBy_sorted o T
  have hd : KeysDistinct (orderBy o T) := keysDistinct_perm (orderBy_perm o T).symm h
  unfold KeysDistinct at hd
  rw [List.Nodup, List.pairwise_map] at hd
  unfold StrictSorted
  refine (hs.and hd).imp ?_
  intro a b ⟨h1, h2⟩
  cases o <;> simp [Order.le, Order.lt] at * <;> omega

theorem colWhere_fwd (o : Order) (p k : Int) : colWhere o false (some p) k = decide (¬ o.lt k p) := by
  cases o <;> simp [colWhere, Order.lt]

theorem colWhere_rev (o : Order) (p k : Int) : colWhere o true (some p) k = decide (o.lt k p) := by
  cases o <;> simp [colWhere, Order.lt]

theorem Order.lt_irrefl (o : Order) (a : Int) : ¬ o.lt a a := by cases o <;> simp [Order.lt]
theorem Order.lt_asymm (o : Order) {a b : Int} : o.lt a b → ¬ o.lt b a := by
  cases o <;> simp [Order.lt] <;> omega
theorem Order.lt_trans' (o : Order) {a b c : Int} : o.lt a b → o.lt b c → o.lt a c := by
  cases o <;> simp [Order.lt] <;> omega

theorem split_filter_fwd (o : Order) (pre suf : List Row) (x : Row)
    (h : StrictSorted o (pre ++ x :: suf)) :
    (pre ++ x :: suf).filter (fun r => colWhere o false (some x.key) r.key) = x :: suf := by
  unfold StrictSorted at h
  rw [List.pairwise_append] at h
  obtain ⟨_, hx, hpre⟩ := h
  rw [List.pairwise_cons] at hx
  rw [List.filter_append]
  have h1 : pre.filter (fun r => colWhere o false (some x.key) r.key) = [] := by
    rw [List.filter_eq_nil_iff]
    intro a ha
    have := hpre a ha x (List.mem_cons_self)
    simp [colWhere_fwd, this]
  have h2 : (x :: suf).filter (fun r => colWhere o false (some x.key) r.key) = x :: suf := by
    rw [List.filter_eq_self]
    intro a ha
    rcases List.mem_cons.mp ha with rfl | ha
    · simp [colWhere_fwd, o.lt_irrefl]
    · have := hx.1 a ha
      simp [colWhere_fwd, o.lt_asymm this]
  rw [h1, h2]; rfl

theorem split_filter_rev (o : Order) (pre suf : List Row) (x : Row)
    (h : StrictSorted o (pre ++ x :: suf)) :
    (pre ++ x :: suf).filter (fun r => colWhere o true (some x.key) r.key) = pre := by
  unfold StrictSorted at h
  rw [List.pairwise_append] at h
  obtain ⟨_, hx, hpre⟩ := h
  rw [List.pairwise_cons] at hx
  rw [List.filter_append]
  have h1 : pre.filter (fun r => colWhere o true (some x.key) r.key) = pre := by
    rw [List.filter_eq_self]
    intro a ha
    have := hpre a ha x (List.mem_cons_self)
    simp [colWhere_rev, this]
  have h2 : (x :: suf).filter (fun r => colWhere o true (some x.key) r.key) = [] := by
    rw [List.filter_eq_nil_iff]
    intro a ha
    rcases List.mem_cons.mp ha with rfl | ha
    · simp [colWhere_rev, o.lt_irrefl]
    · have := hx.1 a ha
      simp [colWhere_rev, o.lt_asymm this]
  rw [h1, h2]; simp

/-- The rows a forward page query fetches. -/
theorem fetchCol_fwd (o : Order) (T : List Row) (hT : KeysDistinct T) (ps : Nat)
    (pre suf : List Row) (x : Row) (hS : orderBy o T = pre ++ x :: suf) :
    fetchCol o false (some x.key) ps T = (x :: suf).take (effPageSize ps + 1) := by
  unfold fetchCol
  simp only [colOrder, Bool.false_eq_true, ↓reduceIte]
  rw [filter_orderBy o T hT, hS, split_filter_fwd o pre suf x (hS ▸ strictSorted_orderBy o T hT)]

theorem fetchCol_first (o : Order) (T : List Row) (ps : Nat) :
    fetchCol o false none ps T = (orderBy o T).take (effPageSize ps + 1) := by
  unfold fetchCol
  have : T.filter (fun r => colWhere o false none r.key) = T := by
    rw [List.filter_eq_self]; intro a _; rfl
  simp [colOrder, this]

theorem fetchCol_rev (o : Order) (T : List Row) (hT : KeysDistinct T) (ps : Nat)
    (pre suf : List Row) (x : Row) (hS : orderBy o T = pre ++ x :: suf) :
    fetchCol o true (some x.key) ps T = pre.reverse.take (effPageSize ps + 1) := by
  unfold fetchCol
  simp only [colOrder, ↓reduceIte]
  rw [orderBy_rev o _ (by
        unfold KeysDistinct at *
        exact hT.sublist ((List.filter_sublist).map _)),
      filter_orderBy o T hT, hS, split_filter_rev o pre suf x (hS ▸ strictSorted_orderBy o T hT)]

end Ledger.Query
