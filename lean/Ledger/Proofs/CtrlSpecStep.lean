import Ledger.Proofs.CtrlEval

/-!
Each store effect of the write path, seen through the projection the journal's
reference reading (`specOf`) talks about.
-/
namespace Ledger.Ctrl
open Ledger.Base Ledger.Core

/-- The columns of an account row the reference reading speaks about. -/
def projAcc (a : Account) : AccSpec :=
  { metadata := a.metadata, firstUsage := a.firstUsage, insertionDate := a.insertionDate }

theorem projAcc_metadata (a : Account) : (projAcc a).metadata = a.metadata := rfl
theorem projAcc_firstUsage (a : Account) : (projAcc a).firstUsage = a.firstUsage := rfl
theorem projAcc_insertionDate (a : Account) : (projAcc a).insertionDate = a.insertionDate := rfl

theorem projAccounts_eq (d : Db) : projAccounts d = d.accounts.map fun e => (e.1, projAcc e.2) := rfl

theorem map_insert {ν μ : Type} (f : ν → μ) (k : String) (v : ν) (m : Map String ν) :
    (m.insert k v).map (fun e => (e.1, f e.2)) = Map.insert k (f v) (m.map fun e => (e.1, f e.2)) := by
  induction m with
  | nil => rfl
  | cons e r ih =>
    obtain ⟨k', v'⟩ := e
    simp only [Map.insert, Map.insertWith, List.map_cons] at ih ⊢
    by_cases h1 : k' = k
    · simp only [h1, ↓reduceIte, List.map_cons]
    · simp only [h1, ↓reduceIte]
      by_cases h2 : KeyOrd.lt k k' = true
      · simp only [h2, ↓reduceIte, List.map_cons]
      · simp only [h2, Bool.false_eq_true, ↓reduceIte, List.map_cons]
        rw [ih]

theorem get?_map {ν μ : Type} (f : ν → μ) (k : String) (m : Map String ν) :
    Map.get? (m.map fun e => (e.1, f e.2)) k = (m.get? k).map f := by
  induction m with
  | nil => rfl
  | cons e r ih =>
    obtain ⟨k', v'⟩ := e
    simp only [List.map_cons, Map.get?]
    by_cases h : k' = k
    · simp only [h, ↓reduceIte, Option.map_some]
    · simp only [h, ↓reduceIte]; exact ih

/-- The schema an operation runs under, as the journal sees it. -/
theorem defaults_eq (d : Db) (sv a : String) :
    defaultsOf (if sv ≠ "" then findSchema sv d else none) a = specDefaults d.schemas sv a := by
  unfold specDefaults defaultsOf findSchema
  by_cases h : sv = ""
  · simp only [h, ne_eq, not_true_eq_false, ↓reduceIte]
  · simp only [ne_eq, h, not_false_eq_true, ↓reduceIte]
    cases List.find? (fun x => x.version == sv) d.schemas <;> rfl

/-- K1: a metadata save on an account (`UpsertAccounts` with NULL dates). -/
theorem save_step (now : Time) (accs : Map String Account) (a : String) (m D : Meta) :
    (upsertAccount now accs { address := a, metadata := m, defaults := D }).map (fun e => (e.1, projAcc e.2)) =
    (match Map.get? (accs.map fun e => (e.1, projAcc e.2)) a with
     | some x =>
       if metaContains x.metadata m then accs.map fun e => (e.1, projAcc e.2)
       else Map.insert a { x with metadata := metaMerge x.metadata m } (accs.map fun e => (e.1, projAcc e.2))
     | none => Map.insert a { metadata := metaMerge D m, firstUsage := now, insertionDate := now }
                 (accs.map fun e => (e.1, projAcc e.2))) := by
  unfold upsertAccount
  rw [get?_map]
  cases h : accs.get? a with
  | none => simp only [Option.map_none, map_insert]; rfl
  | some x =>
    simp only [Option.map_some, Bool.false_or]
    by_cases hc : metaContains x.metadata m = true
    · simp only [projAcc_metadata, hc, Bool.not_true, Bool.false_eq_true, ↓reduceIte]
    · simp only [Bool.not_eq_true] at hc
      simp only [projAcc_metadata, hc, Bool.not_false, ↓reduceIte, Bool.false_eq_true, map_insert]
      rfl

/-- K2: one account row of a committed transaction (`UpsertAccounts` with the
    transaction's dates). -/
theorem touch_step (now ts ins : Time) (accs : Map String Account) (a : String) (m D : Meta) :
    (upsertAccount now accs { address := a, metadata := m, firstUsage := some ts, insertionDate := some ins,
                              updatedAt := some ins, defaults := D }).map (fun e => (e.1, projAcc e.2)) =
    (match Map.get? (accs.map fun e => (e.1, projAcc e.2)) a with
     | some x =>
       if decide (ts < x.firstUsage) || !metaContains x.metadata m then
         Map.insert a { x with metadata := metaMerge x.metadata m,
                               firstUsage := if ts < x.firstUsage then ts else x.firstUsage }
           (accs.map fun e => (e.1, projAcc e.2))
       else accs.map fun e => (e.1, projAcc e.2)
     | none => Map.insert a { metadata := metaMerge D m, firstUsage := ts, insertionDate := ins }
                 (accs.map fun e => (e.1, projAcc e.2))) := by
  unfold upsertAccount
  rw [get?_map]
  cases h : accs.get? a with
  | none => simp only [Option.map_none, map_insert]; rfl
  | some x =>
    simp only [Option.map_some]
    by_cases hc : (decide (ts < x.firstUsage) || !metaContains x.metadata m) = true
    · have hc' : (decide (ts < (projAcc x).firstUsage) || !metaContains (projAcc x).metadata m) = true := hc
      rw [if_pos hc, if_pos hc', map_insert]; rfl
    · have hc' : ¬ (decide (ts < (projAcc x).firstUsage) || !metaContains (projAcc x).metadata m) = true := hc
      rw [if_neg hc, if_neg hc']

/-- K6: `DeleteAccountMetadata`. -/
theorem deleteAccountMeta_step (now : Time) (d : Db) (a key : String) :
    projAccounts (deleteAccountMeta now a key d) =
    (match Map.get? (projAccounts d) a with
     | some x => Map.insert a { x with metadata := x.metadata.erase key } (projAccounts d)
     | none => projAccounts d) := by
  have hg : Map.get? (projAccounts d) a = (d.accounts.get? a).map projAcc := by
    rw [projAccounts_eq, get?_map]
  rw [hg]
  unfold deleteAccountMeta
  cases h : d.accounts.get? a with
  | none => rfl
  | some x =>
    simp only [Option.map_some]
    rw [projAccounts_eq, projAccounts_eq, map_insert]; rfl

theorem deleteAccountMeta_frame (now : Time) (d : Db) (a key : String) :
    (deleteAccountMeta now a key d).schemas = d.schemas ∧ (deleteAccountMeta now a key d).txs = d.txs := by
  unfold deleteAccountMeta; split <;> exact ⟨rfl, rfl⟩

/-! ### transaction metadata -/

theorem projTxMeta_modifyTx (d : Db) (id : Nat) (g : Tx → Tx) (h : Meta → Meta)
    (hid : ∀ x, (g x).id = x.id) (hm : ∀ x, (g x).metadata = h x.metadata) :
    projTxMeta (d.modifyTx id g) = updTxMeta (projTxMeta d) id h := by
  unfold projTxMeta updTxMeta Db.modifyTx
  simp only [List.map_map]
  apply List.map_congr_left
  intro x _
  simp only [Function.comp]
  by_cases hx : x.id = id
  · simp only [hx, ↓reduceIte, hm]; rw [← hx, hid]
  · simp only [hx, ↓reduceIte]

theorem updTxMeta_id (l : List (Nat × Meta)) (id : Nat) : updTxMeta l id (fun m => m) = l := by
  unfold updTxMeta
  conv => rhs; rw [← List.map_id l]
  apply List.map_congr_left
  intro e _
  split <;> rfl

end Ledger.Ctrl
