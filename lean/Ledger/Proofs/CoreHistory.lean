import Ledger.Proofs.CoreSpec

/-! The store's transaction list is the committed history; stored post-commit values
    never change (C02 / C03). -/
set_option linter.unusedSectionVars false
namespace Ledger.Spec
open Ledger.Base Ledger.Core

def TxRec.clearReverted (t : TxRec) : TxRec := { t with revertedAt := none }

theorem runOpsFrom_append (a b : List StoreOp) (st : Store) :
    runOpsFrom st (a ++ b) =
      match runOpsFrom st a with
      | .error e => .error e
      | .ok s1 => runOpsFrom s1 b := by
  induction a generalizing st with
  | nil => rfl
  | cons o os ih =>
    simp only [List.cons_append, runOpsFrom]
    cases applyOp st o with
    | error e => rfl
    | ok s1 => exact ih s1

theorem applyOp_txs {st st' : Store} (o : StoreOp) (h : applyOp st o = .ok st') :
    (st'.txRecs.map TxRec.clearReverted =
       st.txRecs.map TxRec.clearReverted ++ recsFrom st.nextTxId (commitsOf [o])) ∧
    st'.nextTxId = st.nextTxId + (commitsOf [o]).length := by
  cases o with
  | commit t =>
    obtain ⟨mv, ac, hok⟩ := applyTx_ok (st := st) t
    simp only [applyOp] at h
    rw [hok] at h
    cases h
    simp [Store.txRecs, commitsOf, recsFrom, TxRec.clearReverted]
  | lock keys =>
    simp only [applyOp] at h; cases h
    simp [commitsOf, recsFrom, lockBalances, Store.txRecs]
  | saveAccountMeta a at_ md =>
    simp only [applyOp] at h; cases h
    simp [commitsOf, recsFrom, Store.txRecs]
  | markReverted id a =>
    simp only [applyOp] at h; cases h
    simp only [commitsOf, recsFrom, List.append_nil, List.length_nil, Nat.add_zero]
    refine ⟨?_, rfl⟩
    rw [txRecs_markReverted, List.map_map]
    apply List.map_congr_left
    intro r _
    simp only [Function.comp, setReverted, TxRec.clearReverted]
    split <;> rfl

theorem commitsOf_cons (o : StoreOp) (os : List StoreOp) : commitsOf (o :: os) = commitsOf [o] ++ commitsOf os := by
  cases o <;> simp [commitsOf]

theorem recsFrom_append (id0 : Nat) (a b : List TxIn) :
    recsFrom id0 (a ++ b) = recsFrom id0 a ++ recsFrom (id0 + a.length) b := by
  induction a generalizing id0 with
  | nil => simp [recsFrom]
  | cons t a ih =>
    simp only [List.cons_append, recsFrom, ih, List.length_cons]
    have : id0 + 1 + a.length = id0 + (a.length + 1) := by omega
    rw [this]

theorem runOpsFrom_txs (ops : List StoreOp) {st st' : Store} (h : runOpsFrom st ops = .ok st') :
    (st'.txRecs.map TxRec.clearReverted =
       st.txRecs.map TxRec.clearReverted ++ recsFrom st.nextTxId (commitsOf ops)) ∧
    st'.nextTxId = st.nextTxId + (commitsOf ops).length := by
  induction ops generalizing st with
  | nil => simp only [runOpsFrom] at h; cases h; simp [commitsOf, recsFrom]
  | cons o os ih =>
    simp only [runOpsFrom] at h
    cases h1 : applyOp st o with
    | error e => rw [h1] at h; simp at h
    | ok s1 =>
      rw [h1] at h
      obtain ⟨a1, a2⟩ := applyOp_txs o h1
      obtain ⟨b1, b2⟩ := ih h
      rw [commitsOf_cons, recsFrom_append, b1, a1, b2, a2, List.length_append]
      constructor
      · simp [List.append_assoc]
      · omega

/-! ### prefixes: stored values never change -/

theorem applyOp_prefix {st st' : Store} (o : StoreOp) (h : applyOp st o = .ok st') :
    (st.txs.map (·.pcv)) <+: (st'.txs.map (·.pcv)) ∧
    (st.moves.map MoveRow.toMove) <+: (st'.moves.map MoveRow.toMove) := by
  cases o with
  | commit t =>
    simp only [applyOp] at h
    have hm := applyTx_moves t h
    obtain ⟨mv, ac, hok⟩ := applyTx_ok (st := st) t
    rw [hok] at h
    cases h
    constructor
    · simp
    · rw [hm]; exact List.prefix_append _ _
  | lock keys =>
    simp only [applyOp] at h; cases h
    exact ⟨List.prefix_refl _, List.prefix_refl _⟩
  | saveAccountMeta a at_ md =>
    simp only [applyOp] at h; cases h
    exact ⟨List.prefix_refl _, List.prefix_refl _⟩
  | markReverted id a =>
    simp only [applyOp] at h; cases h
    refine ⟨?_, List.prefix_refl _⟩
    rw [markReverted_txs, List.map_map]
    have : ((fun r : TxRow => r.pcv) ∘ setReverted id a) = (fun r : TxRow => r.pcv) := by
      funext r; exact setReverted_pcv id a r
    rw [this]
    exact List.prefix_refl _

theorem runOpsFrom_prefix (ops : List StoreOp) {st st' : Store} (h : runOpsFrom st ops = .ok st') :
    (st.txs.map (·.pcv)) <+: (st'.txs.map (·.pcv)) ∧
    (st.moves.map MoveRow.toMove) <+: (st'.moves.map MoveRow.toMove) := by
  induction ops generalizing st with
  | nil => simp only [runOpsFrom] at h; cases h; exact ⟨List.prefix_refl _, List.prefix_refl _⟩
  | cons o os ih =>
    simp only [runOpsFrom] at h
    cases h1 : applyOp st o with
    | error e => rw [h1] at h; simp at h
    | ok s1 =>
      rw [h1] at h
      obtain ⟨a1, a2⟩ := applyOp_prefix o h1
      obtain ⟨b1, b2⟩ := ih h
      exact ⟨List.IsPrefix.trans a1 b1, List.IsPrefix.trans a2 b2⟩

end Ledger.Spec
