import Ledger.Proofs.MachineBal

/-! Accounting lemma for destinations: whatever a destination does with a funding,
    every unit is either posted or handed back, postings are in the funding's
    asset, balances change by the credits only. -/
namespace Ledger.Machine

variable {cfg : Cfg}

/-- Amounts received by `a` in a posting list. -/
def inTo (a : String) : List Posting → Int
  | [] => 0
  | p :: ps => (if p.destination = a then p.amount else 0) + inTo a ps

theorem inTo_append (a : String) (x y : List Posting) : inTo a (x ++ y) = inTo a x + inTo a y := by
  induction x with
  | nil => simp [inTo]
  | cons p ps ih => simp [inTo, ih]; omega

theorem inTo_mkPostings (a asset dest : String) (parts : List Part) :
    inTo a (mkPostings asset dest parts) = if dest = a then total parts else 0 := by
  induction parts with
  | nil => simp [mkPostings, inTo, total]
  | cons p ps ih =>
    simp only [mkPostings, List.map_cons, inTo, total] at *
    rw [ih]
    by_cases h1 : dest = a <;> simp [h1]

theorem flowIn_eq_inTo (a c : String) (ps : List Posting) (h : ∀ p ∈ ps, p.asset = c) :
    flowIn a c ps = inTo a ps := by
  induction ps with
  | nil => rfl
  | cons p ps ih =>
    have hp : p.asset = c := h p (by simp)
    simp only [flowIn, inTo, ih (fun q hq => h q (by simp [hq]))]
    by_cases h2 : p.destination = a <;> simp [h2, hp]

/-- The effect of a destination on the state: `new` postings appended, all in
    `asset`; tracked balances credited with what each account received. -/
structure Step (asset : String) (st st' : State) (new : List Posting) : Prop where
  postings : st'.postings = st.postings ++ new
  assetOk : ∀ p ∈ new, p.asset = asset
  bal : ∀ a c v, st.bal.get a c = some v →
    st'.bal.get a c = some (v + (if c = asset ∧ a ≠ "world" then inTo a new else 0))
  hasAcct : st'.bal.hasAcct = st.bal.hasAcct
  wf : st.bal.WF → st'.bal.WF
  txMeta : st'.txMeta = st.txMeta
  accMeta : st'.accMeta = st.accMeta
  saved : st'.saved = st.saved

theorem Step.refl (asset : String) (st : State) : Step asset st st [] where
  postings := by simp
  assetOk := by intro p hp; cases hp
  bal := by intro a c v h; simp [inTo, h]
  hasAcct := rfl
  wf := id
  txMeta := rfl
  accMeta := rfl
  saved := rfl

theorem Step.trans {asset : String} {s1 s2 s3 : State} {n1 n2 : List Posting}
    (h1 : Step asset s1 s2 n1) (h2 : Step asset s2 s3 n2) : Step asset s1 s3 (n1 ++ n2) where
  postings := by rw [h2.postings, h1.postings, List.append_assoc]
  assetOk := by
    intro p hp
    rcases List.mem_append.mp hp with hp | hp
    · exact h1.assetOk p hp
    · exact h2.assetOk p hp
  bal := by
    intro a c v h
    rw [h2.bal a c _ (h1.bal a c v h), inTo_append]
    split <;> simp <;> omega
  hasAcct := h2.hasAcct.trans h1.hasAcct
  wf := fun h => h2.wf (h1.wf h)
  txMeta := h2.txMeta.trans h1.txMeta
  accMeta := h2.accMeta.trans h1.accMeta
  saved := h2.saved.trans h1.saved

theorem Step.sendTo (asset acc : String) (res : List Part) (st : State) :
    Step asset st (sendTo asset acc res st) (mkPostings asset acc res) where
  postings := rfl
  assetOk := by
    intro p hp
    simp only [mkPostings, List.mem_map] at hp
    obtain ⟨q, _, rfl⟩ := hp
    rfl
  bal := by
    intro a c v h
    obtain ⟨_, _, h3⟩ := credit_spec st.bal acc asset res
    simp only [Ledger.Machine.sendTo]
    rw [h3 a c v h, inTo_mkPostings]
    by_cases h1 : c = asset <;> by_cases h2 : a = "world" <;> by_cases h4 : acc = a <;>
      simp [h1, h2, h4, eq_comm] <;> (try subst h4) <;> simp_all
  hasAcct := (credit_spec st.bal acc asset res).1
  wf := (credit_spec st.bal acc asset res).2.1
  txMeta := rfl
  accMeta := rfl
  saved := rfl

/-- What every destination function guarantees. -/
def DestOK (asset : String) (f : List Part) (st : State) (rem : List Part) (st' : State) : Prop :=
  ∃ new, Step asset st st' new ∧ (∀ P, totalOf P f = totalOf P rem + outOf P new) ∧
    (partsNonneg f → partsNonneg rem ∧ ∀ p ∈ new, 0 ≤ p.amount)

theorem DestOK.refl (asset : String) (f : List Part) (st : State) : DestOK asset f st f st :=
  ⟨[], Step.refl asset st, fun P => by simp [outOf], fun h => ⟨h, by intro p hp; cases hp⟩⟩

/-- Split a funding in two (`res`, `rem`), run a destination on `res`, glue what is
    left in front of `rem`. -/
theorem DestOK.glue {asset : String} {f res rem r : List Part} {st st1 : State}
    (hsplit : ∀ P, totalOf P res + totalOf P rem = totalOf P f)
    (hnn : partsNonneg f → partsNonneg res ∧ partsNonneg rem)
    (h : DestOK asset res st r st1) : DestOK asset f st (concatParts r rem) st1 := by
  obtain ⟨new, hs, ht, hn⟩ := h
  refine ⟨new, hs, ?_, ?_⟩
  · intro P
    rw [concatParts_totalOf, ← hsplit P, ht P]; omega
  · intro hf
    obtain ⟨h1, h2⟩ := hnn hf
    obtain ⟨h3, h4⟩ := hn h1
    exact ⟨concatParts_nonneg _ _ h3 h2, h4⟩

theorem DestOK.trans {asset : String} {f g h : List Part} {s1 s2 s3 : State}
    (h1 : DestOK asset f s1 g s2) (h2 : DestOK asset g s2 h s3) : DestOK asset f s1 h s3 := by
  obtain ⟨n1, a1, b1, c1⟩ := h1
  obtain ⟨n2, a2, b2, c2⟩ := h2
  refine ⟨n1 ++ n2, a1.trans a2, ?_, ?_⟩
  · intro P; rw [b1 P, b2 P, outOf_append]; omega
  · intro hf
    obtain ⟨x1, x2⟩ := c1 hf
    obtain ⟨y1, y2⟩ := c2 x1
    refine ⟨y1, ?_⟩
    intro p hp
    rcases List.mem_append.mp hp with hp | hp
    · exact x2 p hp
    · exact y2 p hp

mutual
  theorem evalDest_ok (env : Env) (asset : String) :
      (d : Dest) → (f : List Part) → (st : State) → (rem : List Part) → (st' : State) →
      evalDest env asset d f st = .ok (rem, st') → DestOK asset f st rem st'
    | .account e, f, st, rem, st', h => by
      simp only [evalDest] at h
      split at h
      · cases h
      · rename_i res rm htake
        split at h
        · cases h
        · rename_i acc _
          cases h
          refine ⟨mkPostings asset acc res, Step.sendTo asset acc res st, ?_, ?_⟩
          · intro P
            rw [outOf_mkPostings, ← take_totalOf P htake]; omega
          · intro hf
            obtain ⟨h1, h2⟩ := take_nonneg htake hf
            refine ⟨h2, ?_⟩
            intro p hp
            simp only [mkPostings, List.mem_map] at hp
            obtain ⟨q, hq, rfl⟩ := hp
            exact h1 q hq
    | .inorder items remaining, f, st, rem, st', h => by
      simp only [evalDest] at h
      split at h
      · cases h
      · rename_i kept f1 st1 hio
        have io := evalInOrder_ok env asset items 0 f st kept f1 st1 hio
        split at h
        · cases h
        · rename_i resR remR htake
          split at h
          · cases h
          · rename_i r st2 hkd
            have kd := evalKD_ok env asset remaining remR.reverse st1 r st2 hkd
            have g : DestOK asset f1 st1 (concatParts r resR.reverse) st2 := by
              obtain ⟨new, hs, ht, hn⟩ := kd
              refine ⟨new, hs, ?_, ?_⟩
              · intro P
                have := take_totalOf P htake
                rw [concatParts_totalOf, totalOf_reverse] at *
                have := ht P
                rw [totalOf_reverse] at this
                omega
              · intro hf
                obtain ⟨h1, h2⟩ := take_nonneg htake (partsNonneg_reverse hf)
                obtain ⟨h3, h4⟩ := hn (partsNonneg_reverse h2)
                exact ⟨concatParts_nonneg _ _ h3 (partsNonneg_reverse h1), h4⟩
            cases h
            exact io.trans g
    | .allot items, f, st, rem, st', h => by
      simp only [evalDest] at h
      split at h
      · cases h
      · exact evalAllotDst_ok env asset items _ f st rem st' h
  theorem evalKD_ok (env : Env) (asset : String) :
      (d : KeptOrDest) → (f : List Part) → (st : State) → (rem : List Part) → (st' : State) →
      evalKD env asset d f st = .ok (rem, st') → DestOK asset f st rem st'
    | .kept, f, st, rem, st', h => by
      simp only [evalKD] at h
      cases h
      exact DestOK.refl asset f st
    | .to d, f, st, rem, st', h => by
      simp only [evalKD] at h
      exact evalDest_ok env asset d f st rem st' h
  theorem evalInOrder_ok (env : Env) (asset : String) :
      (items : InOrderDstList) → (k : Int) → (f : List Part) → (st : State) →
      (k' : Int) → (f' : List Part) → (st' : State) →
      evalInOrder env asset items k f st = .ok (k', f', st') → DestOK asset f st f' st'
    | .nil, k, f, st, k', f', st', h => by
      simp only [evalInOrder] at h
      cases h
      exact DestOK.refl asset f st
    | .cons m d rest, k, f, st, k', f', st', h => by
      simp only [evalInOrder] at h
      split at h
      · cases h
      · split at h
        · cases h
        · rename_i mon _ amt _
          split at h
          · cases h
          · split at h
            · cases h
            · split at h
              · cases h
              · rename_i r st1 hkd
                have kd := evalKD_ok env asset d _ st r st1 hkd
                have g := DestOK.glue (f := f) (rem := (takeMax f amt).2)
                  (fun P => takeMax_totalOf P f amt) (fun hf => takeMax_nonneg f amt hf) kd
                exact g.trans (evalInOrder_ok env asset rest _ _ st1 k' f' st' h)
  theorem evalAllotDst_ok (env : Env) (asset : String) :
      (items : AllotDstList) → (parts : List Int) → (f : List Part) → (st : State) →
      (rem : List Part) → (st' : State) →
      evalAllotDst env asset items parts f st = .ok (rem, st') → DestOK asset f st rem st'
    | .nil, parts, f, st, rem, st', h => by
      simp only [evalAllotDst] at h
      cases h
      exact DestOK.refl asset f st
    | .cons _ _ _, [], f, st, rem, st', h => by
      simp only [evalAllotDst] at h
      cases h
    | .cons _ d rest, p :: ps, f, st, rem, st', h => by
      simp only [evalAllotDst] at h
      split at h
      · cases h
      · rename_i res rm htake
        split at h
        · cases h
        · rename_i r st1 hkd
          have kd := evalKD_ok env asset d res st r st1 hkd
          have g := DestOK.glue (f := f) (rem := rm)
            (fun P => take_totalOf P htake) (fun hf => take_nonneg htake hf) kd
          exact g.trans (evalAllotDst_ok env asset rest ps _ st1 rem st' h)
end

end Ledger.Machine
