import Ledger.Proofs.SqlGroup

/-!
# Window functions: `computeWindow "first_value"` against a pure description

For rows `xs` with a row index `ix` (injective), a typed partition key `pf`, ORDER BY keys `okf` (compared by a strict weak order
`c`) and arguments `af`: every row gets the first argument of a row of its partition that no row of the partition precedes.
-/
namespace Ledger.Sql

theorem lookup_of_mem {β : Type} : ∀ (l : List (Nat × β)) (i : Nat), (∃ v, (i, v) ∈ l) → ∃ v, l.lookup i = some v ∧ (i, v) ∈ l := by
  intro l
  induction l with
  | nil => intro i ⟨v, hv⟩; cases hv
  | cons p l ih =>
    intro i ⟨v, hv⟩
    obtain ⟨j, w⟩ := p
    by_cases h : i = j
    · subst h
      exact ⟨w, by simp [List.lookup], by simp⟩
    · have hne : (i == j) = false := by simpa using h
      have hv' : (i, v) ∈ l := by
        rcases List.mem_cons.mp hv with e | e
        · simp only [Prod.mk.injEq] at e; exact absurd e.1 h
        · exact e
      obtain ⟨v', h1, h2⟩ := ih i ⟨v, hv'⟩
      exact ⟨v', by simp [List.lookup, hne, h1], by simp [h2]⟩

theorem foldlM_ok_append {γ δ : Type} (step : List δ → γ → R (List δ)) (r : γ → List δ) : ∀ (gs : List γ) (init : List δ),
    (∀ g ∈ gs, ∀ out, step out g = .ok (out ++ r g)) → gs.foldlM step init = .ok (init ++ gs.flatMap r) := by
  intro gs
  induction gs with
  | nil => intro init _; simp [pure, Except.pure]
  | cons g gs ih =>
    intro init h
    simp only [List.foldlM_cons, h g (by simp), bind, Except.bind]
    rw [ih _ (fun g' hg' => h g' (by simp [hg']))]
    simp [List.flatMap_cons, List.append_assoc]

theorem flatMap_congr' {α β : Type} (f g : α → List β) : ∀ (l : List α), (∀ a ∈ l, f a = g a) → l.flatMap f = l.flatMap g := by
  intro l
  induction l with
  | nil => intro _; rfl
  | cons a l ih =>
    intro h
    simp only [List.flatMap_cons, h a (by simp), ih (fun x hx => h x (by simp [hx]))]

theorem sortValuesBy_eq {β : Type} (keys : List (List Value × β)) (descs : List Bool) (nulls : List NullsOrder) (ys : List (List Value × β))
    (h : sortKeyed keys descs nulls = .ok ys) : sortValuesBy keys descs nulls = .ok (ys.map (·.2)) := by
  unfold sortKeyed at h
  unfold sortValuesBy
  simp only [bind, Except.bind, h, pure, Except.pure]

/-- reading a stored partition member back -/
theorem winItem_enc (n : Nat) (i : Nat) (ok args : List Value) (h : ok.length = n) :
    winItem n [({ alias := toString i, cols := [], vals := ok ++ [Value.int i] ++ args } : Scope)] = some (ok, (i, args)) := by
  subst h
  simp [winItem, List.append_assoc]

/-- the item of a row in its partition -/
def winItemOf {X : Type} (ix : X → Nat) (okf af : X → List Value) (x : X) : List Value × (Nat × List Value) := (okf x, (ix x, af x))

/-- the value `first_value` takes on the partition of key `k` -/
def fvOf {X K : Type} [DecidableEq K] (xs : List X) (ix : X → Nat) (pf : X → K) (okf af : X → List Value)
    (descs : List Bool) (nulls : List NullsOrder) (k : K) : Value :=
  match sortKeyed ((xs.filter (fun x => decide (pf x = k))).map (winItemOf ix okf af)) descs nulls with
  | .ok ((_, (_, args)) :: _) => args.headD .null
  | _ => .null

/-- the `(row index, value)` pairs of the partition of key `k` -/
def partVals {X K : Type} [DecidableEq K] (xs : List X) (ix : X → Nat) (pf : X → K) (okf af : X → List Value)
    (descs : List Bool) (nulls : List NullsOrder) (k : K) : List (Nat × Value) :=
  match sortKeyed ((xs.filter (fun x => decide (pf x = k))).map (winItemOf ix okf af)) descs nulls with
  | .ok ys => ys.map (fun y => (y.2.1, fvOf xs ix pf okf af descs nulls k))
  | .error _ => []

/-- what `computeWindow "first_value"` appends for one group -/
def partOut (descs : List Bool) (nulls : List NullsOrder) (g : List Value × List (List Scope)) : List (Nat × Value) :=
  match sortValuesBy (g.2.filterMap (winItem descs.length)) descs nulls with
  | .ok sorted => sorted.map (fun y => (y.1, match sorted with | (_, args) :: _ => args.headD Value.null | [] => Value.null))
  | .error _ => []

theorem computeWindow_first_value {X K : Type} [DecidableEq K] (xs : List X) (ix : X → Nat) (pf : X → K) (kvP : K → List Value)
    (okf af : X → List Value) (descs : List Bool) (nulls : List NullsOrder)
    (hsame : ∀ a b, sameGroupKey (kvP a) (kvP b) = .ok (decide (a = b)))
    (hlen : ∀ x ∈ xs, (okf x).length = descs.length)
    (c : List Value → List Value → Ordering) (S : List Value → Prop)
    (hcmp : CmpOk (fun (a b : List Value × (Nat × List Value)) => cmpOrderKeys a.1 b.1 descs nulls) (fun a b => c a.1 b.1) (fun a => S a.1))
    (hS : ∀ x ∈ xs, S (okf x))
    (hinj : ∀ x ∈ xs, ∀ y ∈ xs, ix x = ix y → x = y) :
    ∃ (vals : List (Nat × Value)) (fvs : K → Value),
      computeWindow "first_value" (xs.map (fun x => (ix x, kvP (pf x), okf x, af x))) descs nulls = .ok vals ∧
      (∀ x ∈ xs, vals.lookup (ix x) = some (fvs (pf x))) ∧
      (∀ k ∈ xs.map pf, ∃ h ∈ xs, pf h = k ∧ fvs k = (af h).headD .null ∧ ∀ y ∈ xs, pf y = k → c (okf y) (okf h) ≠ .lt) := by
  -- every partition sorts
  have hsort : ∀ k, ∃ ys, sortKeyed ((xs.filter (fun x => decide (pf x = k))).map (winItemOf ix okf af)) descs nulls = .ok ys ∧
      ys.Perm ((xs.filter (fun x => decide (pf x = k))).map (winItemOf ix okf af)) ∧ ys.Pairwise (fun a b => c b.1 a.1 ≠ .lt) := by
    intro k
    apply sortKeyed_spec descs nulls c S hcmp
    intro a ha
    obtain ⟨x, hx, rfl⟩ := List.mem_map.mp ha
    exact hS x (List.mem_filter.mp hx).1
  -- grouping
  have hkeyed : (xs.map (fun x => (ix x, kvP (pf x), okf x, af x))).map
      (fun (x : Nat × List Value × List Value × List Value) =>
        (x.2.1, [({ alias := toString x.1, cols := [], vals := x.2.2.1 ++ [Value.int x.1] ++ x.2.2.2 } : Scope)])) =
      (xs.map (fun x => (pf x, [({ alias := toString (ix x), cols := [], vals := okf x ++ [Value.int (ix x)] ++ af x } : Scope)]))).map
        (fun p => (kvP p.1, p.2)) := by
    simp [List.map_map, Function.comp_def]
  refine ⟨(firstKeys (xs.map pf)).flatMap (partVals xs ix pf okf af descs nulls), fvOf xs ix pf okf af descs nulls, ?_, ?_, ?_⟩
  · unfold computeWindow
    have hk2 : ∀ (f : (Nat × List Value × List Value × List Value) → List Value × List Scope),
        (∀ x, f x = (x.2.1, [({ alias := toString x.1, cols := [], vals := x.2.2.1 ++ [Value.int x.1] ++ x.2.2.2 } : Scope)])) →
        (xs.map (fun x => (ix x, kvP (pf x), okf x, af x))).map f =
          (xs.map (fun x => (pf x, [({ alias := toString (ix x), cols := [], vals := okf x ++ [Value.int (ix x)] ++ af x } : Scope)]))).map
            (fun p => (kvP p.1, p.2)) := by
      intro f hf
      rw [← hkeyed]
      apply List.map_congr_left
      intro x _
      exact hf x
    rw [hk2 _ (fun x => rfl)]
    simp only [bind, Except.bind, groupRowsBy_pairs kvP hsame]
    have hfk : (xs.map (fun x => (pf x, [({ alias := toString (ix x), cols := [], vals := okf x ++ [Value.int (ix x)] ++ af x } : Scope)]))).map (·.1) =
        xs.map pf := by simp [List.map_map, Function.comp_def]
    rw [hfk]
    rw [foldlM_ok_append _ (partOut descs nulls)]
    · simp only [List.nil_append, List.flatMap_map]
      congr 1
      apply flatMap_congr'
      intro k hk
      -- the members of the partition, read back
      have hmem : (((xs.map (fun x => (pf x, [({ alias := toString (ix x), cols := [], vals := okf x ++ [Value.int (ix x)] ++ af x } : Scope)]))).filter
          (fun p => decide (p.1 = k))).map (·.2)).filterMap (winItem descs.length) =
          (xs.filter (fun x => decide (pf x = k))).map (winItemOf ix okf af) := by
        rw [List.filter_map, List.map_map, List.filterMap_map]
        have : ∀ (l : List X), (∀ x ∈ l, x ∈ xs) → l.filterMap (winItem descs.length ∘ (fun (p : K × List Scope) => p.2) ∘
            fun x => (pf x, [({ alias := toString (ix x), cols := [], vals := okf x ++ [Value.int (ix x)] ++ af x } : Scope)])) =
            l.map (winItemOf ix okf af) := by
          intro l
          induction l with
          | nil => intro _; rfl
          | cons a l ih =>
            intro h
            simp only [List.filterMap_cons, Function.comp, winItem_enc _ _ _ _ (hlen a (h a (by simp))), List.map_cons, winItemOf]
            rw [← ih (fun x hx => h x (by simp [hx]))]
        exact this _ (fun x hx => (List.mem_filter.mp hx).1)
      simp only [partOut, hmem]
      obtain ⟨ys, h1, _, _⟩ := hsort k
      rw [sortValuesBy_eq _ _ _ ys h1]
      simp only [partVals, fvOf, h1, List.map_map]
      apply List.map_congr_left
      intro y _
      cases ys with
      | nil => rfl
      | cons a as => rfl
    · intro g hg out
      obtain ⟨k, _, rfl⟩ := List.mem_map.mp hg
      have hmemS : ∀ a ∈ (((xs.map (fun x => (pf x, [({ alias := toString (ix x), cols := [], vals := okf x ++ [Value.int (ix x)] ++ af x } : Scope)]))).filter
          (fun p => decide (p.1 = k))).map (·.2)).filterMap (winItem descs.length), S a.1 := by
        intro a ha
        obtain ⟨L, hL, ha'⟩ := List.mem_filterMap.mp ha
        obtain ⟨p, hp, rfl⟩ := List.mem_map.mp hL
        obtain ⟨x, hx, rfl⟩ := List.mem_map.mp (List.mem_filter.mp hp).1
        simp only [winItem_enc _ _ _ _ (hlen x hx), Option.some.injEq] at ha'
        subst ha'
        exact hS x hx
      obtain ⟨ys, h1, _, _⟩ := sortKeyed_spec descs nulls c S hcmp _ hmemS
      simp only [partOut, sortValuesBy_eq _ _ _ ys h1, windowOfPartition, bind, Except.bind, pure, Except.pure]
      cases ys with
      | nil => rfl
      | cons a as => rfl
  · -- every row finds the value of its partition
    intro x hx
    have hB : ∃ v, (ix x, v) ∈ (firstKeys (xs.map pf)).flatMap (partVals xs ix pf okf af descs nulls) := by
      obtain ⟨ys, h1, h2, _⟩ := hsort (pf x)
      refine ⟨fvOf xs ix pf okf af descs nulls (pf x), ?_⟩
      rw [List.mem_flatMap]
      refine ⟨pf x, (mem_firstKeys _ _).mpr (List.mem_map.mpr ⟨x, hx, rfl⟩), ?_⟩
      simp only [partVals, h1, List.mem_map]
      refine ⟨winItemOf ix okf af x, (h2.mem_iff).mpr (List.mem_map.mpr ⟨x, List.mem_filter.mpr ⟨hx, by simp⟩, rfl⟩), rfl⟩
    obtain ⟨v, hv1, hv2⟩ := lookup_of_mem _ (ix x) hB
    rw [hv1]
    rw [List.mem_flatMap] at hv2
    obtain ⟨k, _, hk⟩ := hv2
    obtain ⟨ys, h1, h2, _⟩ := hsort k
    simp only [partVals, h1, List.mem_map] at hk
    obtain ⟨y, hy, hye⟩ := hk
    obtain ⟨x', hx', rfl⟩ := List.mem_map.mp ((h2.mem_iff).mp hy)
    have hx'm := List.mem_filter.mp hx'
    simp only [winItemOf, Prod.mk.injEq] at hye
    have : x' = x := hinj x' hx'm.1 x hx hye.1
    subst this
    have hk' : pf x' = k := by simpa using hx'm.2
    rw [hk', hye.2]
  · -- the value of a partition is the argument of a maximal row
    intro k hk
    obtain ⟨x0, hx0, hx0k⟩ := List.mem_map.mp hk
    obtain ⟨ys, h1, h2, h3⟩ := hsort k
    have hne : ys ≠ [] := by
      intro e
      have : winItemOf ix okf af x0 ∈ ys := (h2.mem_iff).mpr (List.mem_map.mpr ⟨x0, List.mem_filter.mpr ⟨hx0, by simp [hx0k]⟩, rfl⟩)
      rw [e] at this
      cases this
    cases hys : ys with
    | nil => exact absurd hys hne
    | cons a as =>
      have ha : a ∈ ys := by rw [hys]; simp
      obtain ⟨h, hh, rfl⟩ := List.mem_map.mp ((h2.mem_iff).mp ha)
      have hhm := List.mem_filter.mp hh
      refine ⟨h, hhm.1, by simpa using hhm.2, ?_, ?_⟩
      · simp [fvOf, h1, hys, winItemOf]
      · intro y hy hyk
        have hym : winItemOf ix okf af y ∈ ys := (h2.mem_iff).mpr (List.mem_map.mpr ⟨y, List.mem_filter.mpr ⟨hy, by simp [hyk]⟩, rfl⟩)
        rw [hys] at hym h3
        rcases List.mem_cons.mp hym with e | e
        · -- the head itself
          have e' : okf y = okf h := by
            have := congrArg Prod.fst e
            simpa [winItemOf] using this
          rw [e']
          intro hlt
          exact hcmp.asymm (winItemOf ix okf af h) (winItemOf ix okf af h) (hS h hhm.1) (hS h hhm.1) hlt hlt
        · exact (List.pairwise_cons.mp h3).1 _ e

end Ledger.Sql
