import Ledger.Proofs.CtrlStore

/-!
Structural lemmas about `forgeLog`: whatever happens inside the transaction,
the committed tables change only on the one path that ends in a successful
`Commit` of a non-dry-run, non-idempotent-hit operation.
-/
namespace Ledger.Ctrl
open Ledger.Base Ledger.Core

/-- The two ways an operation can end: tables untouched, or committed. -/
def Outcome.Unchanged (o : Outcome) (s : State) : Prop := o.state.db = s.db

/-- Committed from the runner state `st` with log `log`. -/
def Outcome.CommittedFrom (o : Outcome) (st : RunSt) (log : Log) : Prop :=
  o.state = { db := st.db, seq := st.seq } ∧ o.resp = { log := some log }

theorem rolledBack_unchanged (s : State) (st : RunSt) (h : String) (f : Faults) (r : Resp) :
    (rolledBack s st h f r).Unchanged s := rfl

theorem rolledBack_resp (s : State) (st : RunSt) (h : String) (f : Faults) (r : Resp) :
    (rolledBack s st h f r).resp = r := rfl

theorem failedAttempt_unchanged (s : State) (st : RunSt) (h : String) (f : Faults) (e : Err) :
    (failedAttempt s st h f e).Unchanged s := by
  unfold failedAttempt; split <;> rfl

theorem failedAttempt_isError (s : State) (st : RunSt) (h : String) (f : Faults) (e : Err) :
    (failedAttempt s st h f e).resp.err.isSome = true := by
  unfold failedAttempt; split <;> rfl

theorem commitOrFail_cases (s : State) (st : RunSt) (h : String) (f : Faults) (cf : Bool) (log : Log) :
    ((commitOrFail s st h f cf log).Unchanged s ∧ (commitOrFail s st h f cf log).resp.err.isSome = true) ∨
    (commitOrFail s st h f cf log).CommittedFrom st log := by
  unfold commitOrFail
  split
  · left; exact ⟨rfl, rfl⟩
  · split
    · left; exact ⟨rfl, rfl⟩
    · right; exact ⟨rfl, rfl⟩

theorem finish_cases (s : State) (st : RunSt) (h : String) (f : Faults) (cf dry : Bool) (log : Log) :
    ((finish s st h f cf dry log).Unchanged s ∧
      ((finish s st h f cf dry log).resp.err.isSome = true ∨ dry = true)) ∨
    (dry = false ∧ (finish s st h f cf dry log).CommittedFrom st log) := by
  unfold finish
  cases dry with
  | true => left; exact ⟨rfl, Or.inr rfl⟩
  | false =>
    rw [if_neg Bool.false_ne_true]
    rcases commitOrFail_cases s st h f cf log with hc | hc
    · left; exact ⟨hc.1, Or.inl hc.2⟩
    · right; exact ⟨rfl, hc⟩

/-- How an operation can end. -/
inductive Ending (strict : Bool) (s : State) (op : Op) (o : Outcome) : Prop where
  /-- tables untouched (sequences may have advanced); the answer is an error, an
      idempotency hit, or a dry run -/
  | unchanged (h : o.Unchanged s) (hs : SeqLe s.seq o.state.seq)
      (why : o.resp.err.isSome = true ∨ o.resp.hit = true ∨ op.dry = true)
  /-- committed: `runLog` ran to completion on a transaction started from the
      committed tables and its tables were installed; success, not a hit, not a dry run -/
  | committed (st0 st : RunSt) (log : Log) (hn : String) (f : Faults) (n : Nat)
      (hd : op.dry = false) (h0 : st0.db = s.db) (hs0 : SeqLe s.seq st0.seq)
      (hrun : run op.now hn f (runLog strict op.kind op.ik op.ihash op.sv n) st0 = (.ok log, st))
      (h : o.CommittedFrom st log)

theorem failedAttempt_seq (s : State) (st : RunSt) (h : String) (f : Faults) (e : Err) :
    (failedAttempt s st h f e).state.seq = st.seq := by
  unfold failedAttempt; split <;> rfl

theorem finish_seq_unchanged (s : State) (st : RunSt) (h : String) (f : Faults) (cf dry : Bool) (log : Log)
    (hu : (finish s st h f cf dry log).Unchanged s) : (finish s st h f cf dry log).state.seq = st.seq := by
  unfold finish at *
  cases dry with
  | true => rfl
  | false =>
    rw [if_neg Bool.false_ne_true] at *
    unfold commitOrFail at *
    split
    · rfl
    · split <;> rfl

/-- `recordedOutcome` never touches the state, and turns an error into an error or a hit. -/
theorem recordedOutcome_state (op : Op) (f : Faults) (s : State) (n : Nat) (o : Outcome) :
    (recordedOutcome op f s n o).state = o.state := by
  unfold recordedOutcome
  repeat' split
  all_goals rfl

theorem recordedOutcome_why (op : Op) (f : Faults) (s : State) (n : Nat) (o : Outcome)
    (h : o.resp.err.isSome = true) :
    (recordedOutcome op f s n o).resp.err.isSome = true ∨ (recordedOutcome op f s n o).resp.hit = true := by
  unfold recordedOutcome
  repeat' split
  all_goals first | exact Or.inl h | exact Or.inl rfl | exact Or.inr rfl

theorem failedThenRecorded_unchanged (op : Op) (s : State) (st : RunSt) (h : String) (f : Faults) (e : Err) :
    (failedThenRecorded op s st h f e).Unchanged s ∧ (failedThenRecorded op s st h f e).state.seq = st.seq ∧
    ((failedThenRecorded op s st h f e).resp.err.isSome = true ∨ (failedThenRecorded op s st h f e).resp.hit = true) := by
  unfold failedThenRecorded
  split
  · exact ⟨failedAttempt_unchanged .., failedAttempt_seq .., Or.inl (failedAttempt_isError ..)⟩
  · refine ⟨?_, ?_, recordedOutcome_why _ _ _ _ _ (failedAttempt_isError ..)⟩
    · show (recordedOutcome op f s (st.n + 2) (failedAttempt s st h f e)).state.db = s.db
      rw [recordedOutcome_state]; exact failedAttempt_unchanged ..
    · rw [recordedOutcome_state]; exact failedAttempt_seq ..

theorem fetchAfterConflict_ending (op : Op) (f : Faults) (s : State) (seq : Seqs) (n : Nat) (trace : List String) :
    (fetchAfterConflict op f s seq n trace).state = { s with seq := seq } ∧
    ((fetchAfterConflict op f s seq n trace).resp.err.isSome = true ∨
     (fetchAfterConflict op f s seq n trace).resp.hit = true) := by
  unfold fetchAfterConflict
  repeat' split
  all_goals first | exact ⟨rfl, Or.inl rfl⟩ | exact ⟨rfl, Or.inr rfl⟩

/-- What one `runTx` can answer. -/
theorem runTx_cases (strict : Bool) (op : Op) (f : Faults) (cf : Bool) (s : State) (i tx : Nat) (seq : Seqs) (n : Nat)
    (trace : List String) (hseq : SeqLe s.seq seq) :
    (∃ e seq' n' trace', runTx strict op f cf s i tx seq n trace = .failed e seq' n' trace' ∧ SeqLe s.seq seq') ∨
    (∃ o, runTx strict op f cf s i tx seq n trace = .done o ∧ Ending strict s op o) := by
  unfold runTx
  simp only
  split
  · exact Or.inl ⟨_, _, _, _, rfl, hseq⟩
  · split
    · rename_i e st1 heq
      have hs := run_seq op.now ("t" ++ toString tx) f (runLog strict op.kind op.ik op.ihash op.sv i)
        { db := s.db, seq := seq, n := n + 1, trace := trace ++ ["root BeginTX"] }
      rw [heq] at hs
      split
      · exact Or.inr ⟨_, rfl, .unchanged rfl (SeqLe.trans hseq hs) (Or.inl rfl)⟩
      · exact Or.inl ⟨_, _, _, _, rfl, SeqLe.trans hseq hs⟩
    · rename_i log st1 heq
      have hs := run_seq op.now ("t" ++ toString tx) f (runLog strict op.kind op.ik op.ihash op.sv i)
        { db := s.db, seq := seq, n := n + 1, trace := trace ++ ["root BeginTX"] }
      rw [heq] at hs
      by_cases hd : op.dry = true
      · rw [if_pos hd]
        exact Or.inr ⟨_, rfl, .unchanged rfl (SeqLe.trans hseq hs) (Or.inr (Or.inr hd))⟩
      · rw [if_neg hd]
        split
        · exact Or.inl ⟨_, _, _, _, rfl, SeqLe.trans hseq hs⟩
        · split
          · exact Or.inl ⟨_, _, _, _, rfl, SeqLe.trans hseq hs⟩
          · refine Or.inr ⟨_, rfl, .committed _ st1 log ("t" ++ toString tx) f i ?_ rfl hseq heq ⟨rfl, rfl⟩⟩
            cases hdd : op.dry
            · rfl
            · exact absurd hdd hd

theorem retryLoop_ending (strict : Bool) (op : Op) (f : Faults) (cf : Bool) (s : State) (fuel i tx : Nat) (seq : Seqs)
    (n : Nat) (trace : List String) (hseq : SeqLe s.seq seq) :
    Ending strict s op (retryLoop strict op f cf s fuel i tx seq n trace) := by
  induction fuel generalizing i tx seq n trace with
  | zero => exact .unchanged rfl hseq (Or.inl rfl)
  | succ fuel ih =>
    unfold retryLoop
    rcases runTx_cases strict op f cf s i tx seq n trace hseq with ⟨e, seq', n', trace', heq, hs'⟩ | ⟨o, heq, ho⟩
    · rw [heq]
      simp only
      split
      · exact ih _ _ _ _ _ hs'
      · split
        · obtain ⟨hst, hw⟩ := fetchAfterConflict_ending op f s seq' (n' + 1) trace'
          refine .unchanged ?_ ?_ (hw.elim Or.inl (fun h => Or.inr (Or.inl h)))
          · show (fetchAfterConflict op f s seq' (n' + 1) trace').state.db = s.db
            rw [hst]
          · rw [hst]; exact hs'
        · refine .unchanged ?_ ?_ ((recordedOutcome_why op f s (n' + 1) _ rfl).elim Or.inl (fun h => Or.inr (Or.inl h)))
          · show (recordedOutcome op f s (n' + 1) _).state.db = s.db
            rw [recordedOutcome_state]
          · rw [recordedOutcome_state]; exact hs'
    · rw [heq]; exact ho

/-- Every operation, with or without an injected fault, either leaves the
    committed tables untouched (and then answers with an error, a hit, or is a dry
    run) or is a committed, successful, non-dry-run, non-hit write whose tables
    are exactly those of a complete `runLog` on the committed tables. -/
theorem forgeLog_ending (strict : Bool) (op : Op) (f : Faults) (cf : Bool) (s : State) :
    Ending strict s op (forgeLog strict op f cf s) := by
  unfold forgeLog
  split
  · exact .unchanged rfl (SeqLe.refl _) (Or.inl rfl)
  · have hik := run_ikLookup_db op.now "t1" f op.ik op.ihash
      { db := s.db, seq := s.seq, n := 1, trace := ["root BeginTX"] }
    split
    · rename_i e st1 heq
      rw [heq] at hik
      refine .unchanged rfl ?_ (Or.inl rfl)
      show SeqLe s.seq st1.seq
      rw [hik.2]; exact SeqLe.refl _
    · rename_i log st1 heq
      rw [heq] at hik
      refine .unchanged rfl ?_ (Or.inr (Or.inl rfl))
      show SeqLe s.seq st1.seq
      rw [hik.2]; exact SeqLe.refl _
    · rename_i st1 heq
      rw [heq] at hik
      have h1 : SeqLe s.seq st1.seq := by rw [hik.2]; exact SeqLe.refl _
      split
      · rename_i e st2 heq2
        have hseq := run_seq op.now "t1" f (runLog strict op.kind op.ik op.ihash op.sv 1) st1
        rw [heq2] at hseq
        split
        · exact retryLoop_ending strict op f cf s _ _ _ _ _ _ (SeqLe.trans h1 hseq)
        · obtain ⟨hu, hsq, hw⟩ := failedThenRecorded_unchanged op s st2 "t1" f e
          refine .unchanged hu ?_ (hw.elim Or.inl (fun h => Or.inr (Or.inl h)))
          rw [hsq]; exact SeqLe.trans h1 hseq
      · rename_i log st2 heq2
        have hseq := run_seq op.now "t1" f (runLog strict op.kind op.ik op.ihash op.sv 1) st1
        rw [heq2] at hseq
        rcases finish_cases s st2 "t1" f cf op.dry log with h | h
        · refine .unchanged h.1 ?_ (h.2.elim Or.inl (fun d => Or.inr (Or.inr d)))
          rw [finish_seq_unchanged _ _ _ _ _ _ _ h.1]
          exact SeqLe.trans h1 hseq
        · exact .committed st1 st2 log "t1" f 1 h.1 hik.1 h1 heq2 h.2

end Ledger.Ctrl
