import Ledger.Ctrl.Controller

/-!
Structural lemmas about `forgeLog`: whatever happens inside the transaction,
the committed tables change only on the one path that ends in a successful
`Commit` of a non-dry-run, non-idempotent-hit operation.
-/
namespace Ledger.Ctrl
open Ledger.Base Ledger.Core

/-- The two ways an operation can end: tables untouched, or committed. -/
def Outcome.Unchanged (o : Outcome) (s : State) : Prop := o.state.db = s.db

/-- Committed from the runner state `st` with log `log`. -/
def Outcome.CommittedFrom (o : Outcome) (st : RunSt) (log : Log) : Prop :=
  o.state = { db := st.db, seq := st.seq } ∧ o.resp = { log := some log }

theorem rolledBack_unchanged (s : State) (st : RunSt) (h : String) (f : Option Fault) (r : Resp) :
    (rolledBack s st h f r).Unchanged s := rfl

theorem rolledBack_resp (s : State) (st : RunSt) (h : String) (f : Option Fault) (r : Resp) :
    (rolledBack s st h f r).resp = r := rfl

theorem failedAttempt_unchanged (s : State) (st : RunSt) (h : String) (f : Option Fault) (e : Err) :
    (failedAttempt s st h f e).Unchanged s := by
  unfold failedAttempt; split <;> rfl

theorem failedAttempt_isError (s : State) (st : RunSt) (h : String) (f : Option Fault) (e : Err) :
    (failedAttempt s st h f e).resp.err.isSome = true := by
  unfold failedAttempt; split <;> rfl

theorem commitOrFail_cases (s : State) (st : RunSt) (h : String) (f : Option Fault) (cf : Bool) (log : Log) :
    ((commitOrFail s st h f cf log).Unchanged s ∧ (commitOrFail s st h f cf log).resp.err.isSome = true) ∨
    (commitOrFail s st h f cf log).CommittedFrom st log := by
  unfold commitOrFail
  split
  · left; exact ⟨rfl, rfl⟩
  · split
    · left; exact ⟨rfl, rfl⟩
    · right; exact ⟨rfl, rfl⟩

theorem finish_cases (s : State) (st : RunSt) (h : String) (f : Option Fault) (cf dry : Bool) (log : Log) :
    ((finish s st h f cf dry log).Unchanged s ∧
      ((finish s st h f cf dry log).resp.err.isSome = true ∨ dry = true)) ∨
    (dry = false ∧ (finish s st h f cf dry log).CommittedFrom st log) := by
  unfold finish
  cases dry with
  | true => left; exact ⟨rfl, Or.inr rfl⟩
  | false =>
    rw [if_neg Bool.false_ne_true]
    rcases commitOrFail_cases s st h f cf log with hc | hc
    · left; exact ⟨hc.1, Or.inl hc.2⟩
    · right; exact ⟨rfl, hc⟩

/-- How an operation can end. -/
inductive Ending (s : State) (dry : Bool) (o : Outcome) : Prop where
  /-- tables untouched; the answer is an error, an idempotency hit, or a dry run -/
  | unchanged (h : o.Unchanged s) (why : o.resp.err.isSome = true ∨ o.resp.hit = true ∨ dry = true)
  /-- committed: success, not a hit, not a dry run, exactly the transaction's tables -/
  | committed (st : RunSt) (log : Log) (hd : dry = false) (h : o.CommittedFrom st log)

theorem retry_ending (strict : Bool) (op : Op) (f : Option Fault) (s : State) (st : RunSt) :
    Ending s op.dry (retry strict op f s st) := by
  unfold retry
  split
  · exact .unchanged rfl (Or.inl rfl)
  · split
    · exact .unchanged (failedAttempt_unchanged ..) (Or.inl (failedAttempt_isError ..))
    · rename_i log st1 _
      rcases finish_cases s st1 "t2" f false op.dry log with h | h
      · exact .unchanged h.1 (h.2.elim Or.inl (fun d => Or.inr (Or.inr d)))
      · exact .committed st1 log h.1 h.2

/-- Every operation, with or without an injected fault, either leaves the
    committed tables untouched (and then answers with an error, a hit, or is a dry
    run) or is a committed, successful, non-dry-run, non-hit write. -/
theorem forgeLog_ending (strict : Bool) (op : Op) (f : Option Fault) (cf : Bool) (s : State) :
    Ending s op.dry (forgeLog strict op f cf s) := by
  unfold forgeLog
  split
  · exact .unchanged rfl (Or.inl rfl)
  · split
    · exact .unchanged rfl (Or.inl rfl)
    · exact .unchanged rfl (Or.inr (Or.inl rfl))
    · split
      · split
        · exact retry_ending strict op f s _
        · exact .unchanged (failedAttempt_unchanged ..) (Or.inl (failedAttempt_isError ..))
      · rename_i log st2 _
        rcases finish_cases s st2 "t1" f cf op.dry log with h | h
        · exact .unchanged h.1 (h.2.elim Or.inl (fun d => Or.inr (Or.inr d)))
        · exact .committed st2 log h.1 h.2

end Ledger.Ctrl
