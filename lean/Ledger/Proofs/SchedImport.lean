import Ledger.Proofs.SchedChain

/-!
# C12: writes under the ledger lock never interleave with its holder
-/
namespace Ledger.Sched

/-- what a transition does to the commit ghost -/
theorem trans_logCommits (w : World) (t : Sid) (st : Stmt) (o : Out) (w1 : World) (h : Trans w t st o w1) :
    w1.logCommits = w.logCommits ∨ w1.logCommits = w.logCommits ++ commitLogs t w.logs := by
  have hfail : ∀ w' : World, (w'.failTx t).logCommits = w'.logCommits := by
    intro w'; unfold World.failTx; simp only; split <;> rfl
  cases h with
  | commit _ _ => exact Or.inr rfl
  | exec _ _ _ _ _ he =>
    left
    by_cases h2 : ∃ l k hh sy i tx, st = .insertLog l k hh sy i tx
    · obtain ⟨l, ik, hash, sync, id, tx, rfl⟩ := h2
      simp only [exec] at he
      exact (insLog_shape he).2.1
    · cases st with
      | setval l => simp only [exec] at he; cases he; rfl
      | _ => exact (exec_frame_chain w t _ _ 0 (fun l k hh sy i tx hc => h2 ⟨l, k, hh, sy, i, tx, hc⟩) (by intro hc; cases hc) (Or.inl ⟨_, he⟩)).2.1
  | execFailed _ w' e _ _ he =>
    left
    rw [hfail]
    by_cases h2 : ∃ l k hh sy i tx, st = .insertLog l k hh sy i tx
    · obtain ⟨l, ik, hash, sync, id, tx, rfl⟩ := h2
      simp only [exec] at he
      exact (insLog_failed_shape he).2.1
    · cases st with
      | setval l => simp only [exec] at he; cases he
      | _ => exact (exec_frame_chain w t _ _ 0 (fun l k hh sy i tx hc => h2 ⟨l, k, hh, sy, i, tx, hc⟩) (by intro hc; cases hc) (Or.inr ⟨_, he⟩)).2.1
  | releaseBad _ _ => left; exact hfail w
  | rollbackToBad _ => left; exact hfail w
  | deadlock _ _ _ _ _ => left; exact hfail w
  | _ => left; rfl

/-- While `s` holds the key, no other session has an uncommitted log of the ledger, and a step of
    another session commits no log of the ledger. -/
theorem holder_excludes_log_commits (d : Disc) (w : World) (hg : GInv d w) (s t : Sid) (hts : t ≠ s)
    (hheld : Holds w s d.K) :
    (∀ e ∈ w.logs, e.l = d.l₀ → e.by_ = t → e.com = true) ∧
    (step w t).logCommits.filter (fun c => c.1 = d.l₀) = w.logCommits.filter (fun c => c.1 = d.l₀) := by
  have h1 : ∀ e ∈ w.logs, e.l = d.l₀ → e.by_ = t → e.com = true := by
    intro e he hl hb
    cases hc : e.com with
    | true => rfl
    | false =>
      have hh := ginv_uncommitted_holds d w hg e he hl hc
      rw [hb] at hh
      exact absurd hh (heldBy_excl s t d.K hts w ⟨hg.1, hheld⟩)
  refine ⟨h1, ?_⟩
  rcases step_cases w t with h0 | ⟨sn, wf, h0⟩ | ⟨st, k, o, w1, _, h2, htr⟩
  · rw [h0]
  · rw [h0]; rfl
  · rw [h2]
    have : (advance w1 t k o).logCommits = w1.logCommits := rfl
    rw [this]
    rcases trans_logCommits w t st o w1 htr with h | h
    · rw [h]
    · rw [h, List.filter_append]
      have : (commitLogs t w.logs).filter (fun c => c.1 = d.l₀) = [] := by
        rw [List.filter_eq_nil_iff]
        intro c hc hcl
        unfold commitLogs at hc
        obtain ⟨e, he, rfl⟩ := List.mem_map.mp hc
        simp only [List.mem_filter, Bool.and_eq_true, decide_eq_true_eq, Bool.not_eq_true'] at he
        have := h1 e he.1 (by simpa using hcl) he.2.1
        rw [he.2.2] at this; cases this
      rw [this, List.append_nil]

end Ledger.Sched

namespace Ledger.Sched

/-- the import discipline: the ledger lock guards the log inserts of the ledger -/
def impDisc (l : Nat) : Disc := ⟨ledgerKey l, l, false⟩

/-- the session lock is held and no log of the session is uncommitted -/
def P0 (m : Mon) : Prop := m.held = true ∧ m.xact = false ∧ m.dirty = false

theorem p0_any (l : Nat) (m : Mon) (st : Stmt) (o : Out) (hp : st.plain = true) (h : P0 m) : P0 (monStep (impDisc l) m st o) := by
  cases ho : o.err with
  | none => rw [monStep_plain _ m st o hp ho]; exact h
  | some e =>
    by_cases ha : e = .aborted
    · rw [ha] at ho; rw [monStep_aborted _ m st o ho]; exact h
    · rw [monStep_err _ m st o e ho ha]
      obtain ⟨h1, h2, _⟩ := h
      exact ⟨by simp [h1, h2], h2, rfl⟩

theorem safe_impUnlock (l : Nat) (m : Mon) (r : Resp) (h : m.dirty = false) : Safe (impDisc l) m (impUnlock l r) :=
  ⟨fun _ => h, fun _ _ => trivial⟩

theorem safe_impFail (l : Nat) (m : Mon) (e : Err) : Safe (impDisc l) m (impFail l e) := by
  refine ⟨trivial, fun o ho => ?_⟩
  have : o.err = none := ho
  have hm : monStep (impDisc l) m .rollback o = { m with held := m.held && !m.xact, tx := false, sp := false, dirty := false } := by
    unfold monStep; rw [this]
  rw [hm]
  exact safe_impUnlock l _ _ rfl

theorem safe_impStep_plain (l : Nat) (m : Mon) (st : Stmt) (next : Out → Prog) (hp : st.plain = true)
    (hs : ∀ x, st ≠ .setval x) (hnext : ∀ o, Safe (impDisc l) m (next o)) : Safe (impDisc l) m (impStep l st next) := by
  refine ⟨monOk_plain _ m st hp (fun x hx => absurd hx (hs x)), fun o _ => ?_⟩
  dsimp only
  split
  · exact safe_impFail l _ _
  · rename_i ho; rw [monStep_plain _ m st o hp ho]; exact hnext o

theorem keys_ne (l : Nat) : logKey l ≠ ledgerKey l := by unfold logKey ledgerKey; omega

theorem safe_impLoop (l : Nat) (sync : Bool) : ∀ (logs : List ImpLog) (last : Nat) (m : Mon), P0 m →
    Safe (impDisc l) m (impLoop l sync last logs) := by
  intro logs
  induction logs with
  | nil => intro last m h; exact safe_impUnlock l m _ h.2.2
  | cons g gs ih =>
    intro last m h
    unfold impLoop
    split
    · exact safe_impUnlock l m _ h.2.2
    · refine ⟨trivial, fun o ho => ?_⟩
      rw [monStep_begin _ m o ho]
      -- inside the transaction: lock held (session), tx = true, clean
      have hins : ∀ m1 : Mon, m1.held = true → m1.xact = false → m1.tx = true → m1.dirty = false →
          Safe (impDisc l) m1 (impStep l (.insertLog l g.ik g.hash sync (some g.id) g.tx) fun _ =>
            .stmt .commit fun _ => impLoop l sync g.id gs) := by
        intro m1 h1 h2 h3 h4
        refine ⟨fun _ => ⟨h1, h3, fun hc => by cases hc⟩, fun o' _ => ?_⟩
        dsimp only
        split
        · exact safe_impFail l _ _
        · rename_i ho'
          have hm' : monStep (impDisc l) m1 (.insertLog l g.ik g.hash sync (some g.id) g.tx) o' = { m1 with dirty := true } := by
            unfold monStep; rw [ho']; simp [impDisc]
          rw [hm']
          refine ⟨trivial, fun o'' ho'' => ?_⟩
          have : o''.err = none := ho''
          have hm'' : monStep (impDisc l) { m1 with dirty := true } .commit o'' =
              { m1 with held := m1.held && !m1.xact, tx := false, sp := false, dirty := false } := by
            unfold monStep; rw [this]
          rw [hm'']
          exact ih g.id _ ⟨by simp [h1, h2], h2, rfl⟩
      dsimp only
      refine safe_impStep_plain l _ _ _ rfl (by intro x hx; cases hx) (fun _ => ?_)
      refine safe_impStep_plain l _ _ _ rfl (by intro x hx; cases hx) (fun _ => ?_)
      refine safe_impStep_plain l _ _ _ rfl (by intro x hx; cases hx) (fun _ => ?_)
      (try dsimp only)
      split
      · refine ⟨trivial, fun o' _ => ?_⟩
        dsimp only
        split
        · exact safe_impFail l _ _
        · rename_i ho'
          have hm' : monStep (impDisc l) { m with tx := true } (.advLockLog l) o' = { m with tx := true } := by
            unfold monStep; rw [ho']; simp [locksK, impDisc, keys_ne l]
          rw [hm']
          exact hins _ h.1 h.2.1 rfl h.2.2
      · exact hins _ h.1 h.2.1 rfl h.2.2

/-- `Import` follows the ledger-lock discipline, for every answer of every statement -/
theorem safe_importProg (l : Nat) (sync : Bool) (logs : List ImpLog) (m : Mon) (hd : m.dirty = false) :
    Safe (impDisc l) m (importProg l sync logs) := by
  unfold importProg
  refine ⟨trivial, fun o _ => ?_⟩
  unfold guardErr
  dsimp only
  split
  · trivial
  · rename_i ho
    have hm : monStep (impDisc l) m (.lockLedgerS l) o = { m with held := true, xact := false } := by
      unfold monStep; rw [ho]; simp [locksK, impDisc]
    rw [hm]
    have h0 : P0 { m with held := true, xact := false } := ⟨rfl, rfl, hd⟩
    refine ⟨trivial, fun o' _ => ?_⟩
    have h1 := p0_any l _ (.readState l) o' rfl h0
    dsimp only
    split
    · exact safe_impUnlock l _ _ h1.2.2
    · refine ⟨trivial, fun o'' _ => ?_⟩
      exact safe_impLoop l sync logs _ _ (p0_any l _ (.readLastLog l) o'' rfl h1)

end Ledger.Sched
