import Ledger.Proofs.CoreStore

/-! Fold-level facts: conservation at any point in time (C01), reverse/revert algebra (C15),
    moves table content (C03). -/
set_option linter.unusedSectionVars false
namespace Ledger.Spec
open Ledger.Base Ledger.Core

/-! ### Σ over accounts -/

theorem sumOver_cons (a : String) (l : List String) (f : String → Int) :
    sumOver (a :: l) f = f a + sumOver l f := by simp [sumOver]

theorem sumOver_add (l : List String) (f g : String → Int) :
    sumOver l (fun a => f a + g a) = sumOver l f + sumOver l g := by
  induction l with
  | nil => simp [sumOver]
  | cons a l ih => simp only [sumOver_cons, ih]; omega

theorem sumOver_sub (l : List String) (f g : String → Int) :
    sumOver l (fun a => f a - g a) = sumOver l f - sumOver l g := by
  induction l with
  | nil => simp [sumOver]
  | cons a l ih => simp only [sumOver_cons, ih]; omega

theorem sumOver_zero (l : List String) : sumOver l (fun _ => 0) = 0 := by
  induction l with
  | nil => simp [sumOver]
  | cons a l ih => simp only [sumOver_cons, ih]; omega

theorem sumOver_congr (l : List String) (f g : String → Int) (h : ∀ a, f a = g a) : sumOver l f = sumOver l g := by
  have : f = g := funext h
  rw [this]

theorem sumOver_indicator_notMem {l : List String} {x : String} (c : Int) (h : x ∉ l) :
    sumOver l (fun a => if x = a then c else 0) = 0 := by
  induction l with
  | nil => simp [sumOver]
  | cons a l ih =>
    simp only [List.mem_cons, not_or] at h
    rw [sumOver_cons, ih h.2, if_neg h.1]; omega

/-- over a duplicate-free list containing `x`, the indicator of `x` sums to its weight -/
theorem sumOver_indicator {l : List String} {x : String} (c : Int) (hn : l.Nodup) (h : x ∈ l) :
    sumOver l (fun a => if x = a then c else 0) = c := by
  induction l with
  | nil => simp at h
  | cons a l ih =>
    rw [List.nodup_cons] at hn
    rw [sumOver_cons]
    rcases List.mem_cons.mp h with h' | h'
    · subst h'
      rw [if_pos rfl, sumOver_indicator_notMem c hn.1]; omega
    · have : x ≠ a := by rintro rfl; exact hn.1 h'
      rw [if_neg this, ih hn.2 h']; omega

theorem balance_foldVolumes_cons (k : Key) (p : Posting) (ps : List Posting) :
    (foldVolumes k (p :: ps)).balance =
      ((if p.dstKey = k then p.amount else 0) - (if p.srcKey = k then p.amount else 0)) +
        (foldVolumes k ps).balance := by
  simp only [foldVolumes, Volumes.balance, inSum, outSum]; omega

/-- Per asset, the balances of a duplicate-free list of accounts covering every account
    of the postings sum to zero. -/
theorem sum_balances_postings (s : String) (ps : List Posting) (accts : List String) (hn : accts.Nodup)
    (hc : ∀ p ∈ ps, p.source ∈ accts ∧ p.destination ∈ accts) :
    sumOver accts (fun a => (foldVolumes (a, s) ps).balance) = 0 := by
  induction ps with
  | nil => simp [foldVolumes, inSum, outSum, Volumes.balance, sumOver_zero]
  | cons p ps ih =>
    have hp := hc p List.mem_cons_self
    have ih' := ih (fun q hq => hc q (List.mem_cons_of_mem _ hq))
    rw [sumOver_congr _ _ _ (fun a => balance_foldVolumes_cons (a, s) p ps), sumOver_add, ih', sumOver_sub]
    by_cases hs : p.asset = s
    · have e1 : ∀ a, (if p.dstKey = (a, s) then p.amount else 0) = (if p.destination = a then p.amount else 0) := by
        intro a; simp [Posting.dstKey, hs]
      have e2 : ∀ a, (if p.srcKey = (a, s) then p.amount else 0) = (if p.source = a then p.amount else 0) := by
        intro a; simp [Posting.srcKey, hs]
      rw [sumOver_congr _ _ _ e1, sumOver_congr _ _ _ e2, sumOver_indicator _ hn hp.2, sumOver_indicator _ hn hp.1]
      omega
    · have e1 : ∀ a, (if p.dstKey = (a, s) then p.amount else 0) = 0 := by
        intro a; simp [Posting.dstKey, hs]
      have e2 : ∀ a, (if p.srcKey = (a, s) then p.amount else 0) = 0 := by
        intro a; simp [Posting.srcKey, hs]
      rw [sumOver_congr _ _ _ e1, sumOver_congr _ _ _ e2, sumOver_zero]
      omega

theorem mem_allPostings_filter {f : TxRec → Bool} {txs : List TxRec} {p : Posting}
    (h : p ∈ allPostings (txs.filter f)) : p ∈ allPostings txs := by
  induction txs with
  | nil => exact h
  | cons t ts ih =>
    simp only [List.filter_cons] at h
    by_cases hf : f t = true
    · simp only [hf, if_true, allPostings, List.mem_append] at h ⊢
      rcases h with h | h
      · exact Or.inl h
      · exact Or.inr (ih h)
    · simp only [hf] at h
      simp only [allPostings, List.mem_append]
      exact Or.inr (ih h)

/-! ### reverse -/

theorem swap_swap (p : Posting) : p.swap.swap = p := by cases p; rfl

theorem reversePostings_involutive (ps : List Posting) : reversePostings (reversePostings ps) = ps := by
  unfold reversePostings
  rw [List.map_reverse, List.reverse_reverse, List.map_map]
  have : Posting.swap ∘ Posting.swap = id := funext swap_swap
  rw [this, List.map_id]

theorem inSum_reverse (k : Key) (ps : List Posting) : inSum k ps.reverse = inSum k ps := by
  induction ps with
  | nil => rfl
  | cons p ps ih => rw [List.reverse_cons, inSum_append, ih]; simp only [inSum]; omega

theorem outSum_reverse (k : Key) (ps : List Posting) : outSum k ps.reverse = outSum k ps := by
  induction ps with
  | nil => rfl
  | cons p ps ih => rw [List.reverse_cons, outSum_append, ih]; simp only [outSum]; omega

theorem inSum_map_swap (k : Key) (ps : List Posting) : inSum k (ps.map Posting.swap) = outSum k ps := by
  induction ps with
  | nil => rfl
  | cons p ps ih => simp only [List.map_cons, inSum, outSum, ih]; rfl

theorem outSum_map_swap (k : Key) (ps : List Posting) : outSum k (ps.map Posting.swap) = inSum k ps := by
  induction ps with
  | nil => rfl
  | cons p ps ih => simp only [List.map_cons, inSum, outSum, ih]; rfl

theorem inSum_reversePostings (k : Key) (ps : List Posting) : inSum k (reversePostings ps) = outSum k ps := by
  unfold reversePostings; rw [inSum_reverse, inSum_map_swap]

theorem outSum_reversePostings (k : Key) (ps : List Posting) : outSum k (reversePostings ps) = inSum k ps := by
  unfold reversePostings; rw [outSum_reverse, outSum_map_swap]

theorem balance_add (a b : Volumes) : (a.add b).balance = a.balance + b.balance := by
  simp only [Volumes.add, Volumes.balance]; omega

/-! ### the moves table -/

theorem toMove_setEffective (table : List MoveRow) (n : MoveRow) : (setEffective table n).toMove = n.toMove := rfl

theorem map_toMove_updateEffective (n : MoveRow) (table : List MoveRow) :
    (updateEffective n table).map MoveRow.toMove = table.map MoveRow.toMove := by
  unfold updateEffective
  rw [List.map_map]
  apply List.map_congr_left
  intro m _
  simp only [Function.comp]
  split <;> rfl

theorem map_toMove_phase1 (table news : List MoveRow) :
    (insertPhase1 table news).map MoveRow.toMove = table.map MoveRow.toMove ++ news.map MoveRow.toMove := by
  induction news generalizing table with
  | nil => simp [insertPhase1]
  | cons n ns ih => simp [insertPhase1, ih, toMove_setEffective]

theorem map_toMove_phase2 (table rows : List MoveRow) :
    (insertPhase2 table rows).map MoveRow.toMove = table.map MoveRow.toMove := by
  induction rows generalizing table with
  | nil => rfl
  | cons r rs ih => simp [insertPhase2, ih, map_toMove_updateEffective]

theorem map_toMove_insertMoves (table news : List MoveRow) :
    (insertMoves table news).map MoveRow.toMove = table.map MoveRow.toMove ++ news.map MoveRow.toMove := by
  unfold insertMoves
  rw [map_toMove_phase2, map_toMove_phase1]

theorem pcev_none_fwdMoves (m : PCV) (ps : List Posting) : ∀ x ∈ fwdMoves m ps, x.pcev = none := by
  induction ps generalizing m with
  | nil => simp [fwdMoves]
  | cons p ps ih =>
    intro x hx
    simp only [fwdMoves, List.mem_cons] at hx
    rcases hx with hx | hx | hx
    · rw [hx]; rfl
    · rw [hx]; rfl
    · exact ih _ x hx

theorem map_toMove_toRows (seq0 txId : Nat) (ins eff : Int) (ms : List Move) (h : ∀ x ∈ ms, x.pcev = none) :
    (toRows seq0 txId ins eff ms).map MoveRow.toMove = ms := by
  induction ms generalizing seq0 with
  | nil => rfl
  | cons m ms ih =>
    simp only [toRows, List.map_cons]
    rw [ih _ (fun x hx => h x (List.mem_cons_of_mem _ hx))]
    congr 1
    have := h m List.mem_cons_self
    cases m
    simp only [MoveRow.toMove] at *
    simp [this]

/-- A commit appends exactly the running moves to the moves table and leaves the Go-computed
    columns of the existing rows untouched. -/
theorem applyTx_moves {st st' : Store} (t : TxIn) (h : applyTx st t = .ok st') :
    st'.moves.map MoveRow.toMove =
      st.moves.map MoveRow.toMove ++
        fwdMoves (preVolumes st.accountsVolumes (volumeUpdates t.postings)) t.postings := by
  unfold applyTx at h
  simp only [movesOf_returned] at h
  cases h
  simp only []
  rw [map_toMove_insertMoves, map_toMove_toRows _ _ _ _ _ (pcev_none_fwdMoves _ _)]

/-- `applyPostings` succeeds exactly when every posting side has an entry. -/
theorem hasKeys_of_applyPostings {m post : PCV} {ps : List Posting} (h : applyPostings m ps = .ok post) :
    HasKeys m ps := by
  induction ps generalizing m with
  | nil => intro p hp; simp at hp
  | cons p ps ih =>
    unfold applyPostings at h
    by_cases hs : m.contains (p.source, p.asset) = true
    · rw [addOutput_ok _ hs] at h
      simp only [] at h
      by_cases hd : (m.adjust (p.source, p.asset) (Volumes.addOut p.amount)).contains (p.destination, p.asset) = true
      · rw [addInput_ok _ hd] at h
        simp only [] at h
        have hr := ih h
        apply HasKeys_cons.mpr
        refine ⟨⟨hs, by rw [Map.contains_adjust] at hd; exact hd⟩, ?_⟩
        intro q hq
        have := hr q hq
        simpa using this
      · simp [PCV.addInput, hd] at h
    · simp [PCV.addOutput, hs] at h

end Ledger.Spec
