import Ledger.Sql.Eval

/-!
# Running the statement monad of LeanPG: `M.exec` and its rewrite rules

`M = ExceptT Err (StateM St)`. `x.exec s` is the outcome (`Except Err α`) and
final state of running `x` from `s`. The lemmas below let `simp` execute
`do`-blocks symbolically: every helper of the evaluator gets a specification of
the form `(helper args).exec s = (.ok result, s')` which is then used as a
rewrite rule.
-/
namespace Ledger.Sql

/-- run a computation of the statement monad from a state -/
def M.exec (x : M α) (s : St) : Except Err α × St := x.run.run s

@[simp] theorem exec_pure (a : α) (s : St) : (pure a : M α).exec s = (.ok a, s) := rfl

theorem exec_bind (x : M α) (f : α → M β) (s : St) :
    (x >>= f).exec s = match x.exec s with
      | (.ok a, s') => (f a).exec s'
      | (.error e, s') => (.error e, s') := by
  simp only [M.exec, ExceptT.run_bind, StateT.run_bind]
  cases h : (x.run.run s) with
  | mk r s' => cases r <;> rfl

/-- `bind` when the first computation is known to succeed -/
theorem exec_bind_ok {x : M α} {f : α → M β} {s s' : St} {a : α} (h : x.exec s = (.ok a, s')) :
    (x >>= f).exec s = (f a).exec s' := by
  rw [exec_bind, h]

theorem exec_bind_err {x : M α} {f : α → M β} {s s' : St} {e : Err} (h : x.exec s = (.error e, s')) :
    (x >>= f).exec s = (.error e, s') := by
  rw [exec_bind, h]

@[simp] theorem exec_get (s : St) : (get : M St).exec s = (.ok s, s) := rfl
@[simp] theorem exec_getThe (s : St) : (getThe St : M St).exec s = (.ok s, s) := rfl
@[simp] theorem exec_set (s' s : St) : (set s' : M Unit).exec s = (.ok (), s') := rfl
@[simp] theorem exec_modify (f : St → St) (s : St) : (modify f : M Unit).exec s = (.ok (), f s) := rfl
@[simp] theorem exec_throw (e : Err) (s : St) : (throw e : M α).exec s = (.error e, s) := rfl
@[simp] theorem exec_throwPg (c m : String) (s : St) : (throwPg c m : M α).exec s = (.error (pgErr c m), s) := rfl

@[simp] theorem exec_liftR_ok (a : α) (s : St) : (liftR (.ok a) : M α).exec s = (.ok a, s) := rfl
@[simp] theorem exec_liftR_err (e : Err) (s : St) : (liftR (.error e) : M α).exec s = (.error e, s) := rfl

@[simp] theorem exec_liftR_pure (a : α) (s : St) : (liftR (pure a : R α) : M α).exec s = (.ok a, s) := rfl

theorem exec_liftR (r : R α) (s : St) :
    (liftR r : M α).exec s = (match r with | .ok a => (.ok a, s) | .error e => (.error e, s)) := by
  cases r <;> rfl

@[simp] theorem exec_map (f : α → β) (x : M α) (s : St) :
    (f <$> x).exec s = match x.exec s with
      | (.ok a, s') => (.ok (f a), s')
      | (.error e, s') => (.error e, s') := by
  rw [← bind_pure_comp, exec_bind]
  cases h : x.exec s with
  | mk r s' => cases r <;> rfl

@[simp] theorem exec_getW (s : St) : getW.exec s = (.ok s.w, s) := by
  simp [getW, exec_bind]

@[simp] theorem exec_setW (w : World) (s : St) : (setW w).exec s = (.ok (), { s with w := w }) := rfl

@[simp] theorem exec_typeEnv (s : St) : typeEnv.exec s = (.ok s.w.types, s) := by
  simp [typeEnv, exec_bind]

@[simp] theorem exec_curView (s : St) :
    curView.exec s = (.ok { xid := s.xid, cid := s.cid, snap := s.snap }, s) := by
  simp [curView, exec_bind]

/-- `foldlM` over a list, one step at a time -/
theorem exec_foldlM_nil (f : β → α → M β) (b : β) (s : St) :
    (([] : List α).foldlM f b).exec s = (.ok b, s) := by simp

theorem exec_foldlM_cons (f : β → α → M β) (b : β) (a : α) (as : List α) (s : St) :
    ((a :: as).foldlM f b).exec s = match (f b a).exec s with
      | (.ok b', s') => (as.foldlM f b').exec s'
      | (.error e, s') => (.error e, s') := by
  simp [List.foldlM_cons, exec_bind]

theorem exec_mapM_nil (f : α → M β) (s : St) : (([] : List α).mapM f).exec s = (.ok [], s) := by simp

theorem exec_mapM_cons (f : α → M β) (a : α) (as : List α) (s : St) :
    ((a :: as).mapM f).exec s = match (f a).exec s with
      | (.ok b, s') => (match (as.mapM f).exec s' with
          | (.ok bs, s'') => (.ok (b :: bs), s'')
          | (.error e, s'') => (.error e, s''))
      | (.error e, s') => (.error e, s') := by
  simp only [List.mapM_cons, exec_bind, exec_pure]
  cases h : (f a).exec s with
  | mk r s' =>
    cases r with
    | error e => rfl
    | ok b =>
      simp only
      cases h2 : (List.mapM f as).exec s' with
      | mk r2 s'' => cases r2 <;> rfl

/-- a `mapM` whose steps all succeed without touching the state -/
theorem exec_mapM_pure (f : α → M β) (g : α → β) (as : List α) (s : St)
    (h : ∀ a ∈ as, (f a).exec s = (.ok (g a), s)) : (as.mapM f).exec s = (.ok (as.map g), s) := by
  induction as with
  | nil => simp
  | cons a as ih =>
    rw [exec_mapM_cons, h a (by simp)]
    simp only
    rw [ih (fun a ha => h a (by simp [ha]))]
    simp

/-- a function call other than COALESCE (which is evaluated lazily): arguments first, then the function -/
theorem evalExpr_call (cb : Callbacks) (te : TypeEnv) (env : Env) (schema name : String) (args : List Expr) (h : (name == "coalesce") = false) :
    evalExpr cb te env (Expr.call schema name args) = (do
      let vs ← evalExprs cb te env args
      match (if schema.isEmpty || schema == "public" || schema == "pg_catalog" then evalPureFn name vs else none) with
      | some r => liftR r
      | none => cb.call schema name vs) := by
  rw [evalExpr]
  simp only [h, Bool.and_false, Bool.false_eq_true, if_false]
  rfl

end Ledger.Sql
