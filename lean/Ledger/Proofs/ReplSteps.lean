import Ledger.Proofs.ReplLive

/-! Step-level facts of the replication model: when a reset takes effect, what a
delivery adds. -/
namespace Ledger.Repl

def ResetEffect (s s' : State) : Prop :=
  s'.resets = s.resets ∨ (s'.resets = s.resets + 1 ∧ Fresh s')

theorem finishOp_resets {s : State} (hh : s.handler = none) (hc : s.cur = none) :
    ResetEffect s (finishOp s) := by
  unfold finishOp ResetEffect Fresh
  split <;> simp_all [startHandler, resetRow]

theorem exit_resets (c : Cfg) (s : State) : ResetEffect s (exitHandler c s) := by
  unfold exitHandler
  split
  · exact finishOp_resets (s := { s with handler := none }) rfl (by assumption)
  · split
    · exact finishOp_resets (s := { s with handler := none, cur := none, persisted := _ }) rfl rfl
    · exact finishOp_resets (s := { s with handler := none, cur := none, orphans := _ }) rfl rfl

theorem atSelect_resets (c : Cfg) (s : State) (h : Handler) (next : Pc) :
    ResetEffect s (atSelect c s h next) := by
  unfold atSelect
  split
  · exact exit_resets c s
  · exact Or.inl rfl

theorem afterSend_resets (c : Cfg) (s : State) (h : Handler) (more coin : Bool) :
    ResetEffect s (afterSend c s h more coin) := by
  unfold afterSend
  split
  · split
    · exact exit_resets c s
    · exact Or.inl rfl
  · exact atSelect_resets c s _ _

theorem requestStop_resets (c : Cfg) (s : State) (h : Handler) : ResetEffect s (requestStop c s h) := by
  unfold requestStop
  split
  · exact Or.inl rfl
  · exact Or.inl rfl
  · exact exit_resets c s

theorem ResetEffect.of_eq {s0 s s' : State} (e : s.resets = s0.resets) (h : ResetEffect s s') : ResetEffect s0 s' := by
  unfold ResetEffect at *
  rw [← e]; exact h

theorem exportDone_resets (c : Cfg) (s : State) (h : Handler) (hi : Nat) (more : Bool) :
    ResetEffect s (exportDone c s h hi more) := by
  unfold exportDone
  split
  · exact (afterSend_resets c _ _ _ _).of_eq rfl
  · exact Or.inl rfl

theorem step_resets {c : Cfg} {s s' : State} {l : Label} (w : WF s) (hs : step c s l = some s') :
    ResetEffect s s' := by
  cases l with
  | append n => simp only [step, Option.some.injEq] at hs; subst hs; exact Or.inl rfl
  | create =>
    simp only [step] at hs
    split at hs <;> simp at hs
    subst hs; exact Or.inl rfl
  | start =>
    simp only [step] at hs
    split at hs
    case isFalse => simp at hs
    case isTrue =>
      split at hs
      · simp at hs; subst hs; exact Or.inl rfl
      · split at hs <;> simp at hs <;> subst hs <;> exact Or.inl rfl
  | stop =>
    simp only [step] at hs
    split at hs
    case isFalse => simp at hs
    case isTrue =>
      split at hs <;> simp at hs <;> subst hs
      · exact Or.inl rfl
      · exact (requestStop_resets c _ _).of_eq rfl
  | reset =>
    simp only [step] at hs
    split at hs
    case isFalse => simp at hs
    case isTrue =>
      split at hs
      · simp at hs; subst hs; exact Or.inl rfl
      · split at hs <;> simp at hs <;> subst hs
        · rename_i hn
          have hc := w.curNone hn
          exact Or.inr ⟨rfl, by simp_all [Fresh, resetRow]⟩
        · exact (requestStop_resets c _ _).of_eq rfl
  | sync =>
    simp only [step] at hs
    split at hs
    case isFalse => simp at hs
    case isTrue => split at hs <;> simp at hs <;> subst hs <;> exact Or.inl rfl
  | mgrStop =>
    simp only [step] at hs
    split at hs
    case isFalse => simp at hs
    case isTrue =>
      split at hs <;> simp at hs <;> subst hs
      · exact Or.inl rfl
      · exact (requestStop_resets c _ _).of_eq rfl
  | mgrStart =>
    simp only [step] at hs
    split at hs
    case isFalse => simp at hs
    case isTrue => split at hs <;> simp at hs <;> subst hs <;> exact Or.inl rfl
  | fetch ok =>
    simp only [step] at hs
    split at hs
    · simp at hs
    · split at hs
      · split at hs
        · split at hs <;> simp at hs <;> subst hs <;> exact atSelect_resets c s _ _
        · simp at hs; subst hs; exact atSelect_resets c s _ _
      · simp at hs
  | accept r =>
    simp only [step] at hs
    split at hs
    · simp at hs
    · split at hs
      · rename_i lo hi more pos bad hpc
        have f := exporterCall_fields s pos (chunkEnd c pos hi) r
        split at hs
        · simp at hs; subst hs; exact Or.inl f.2.2.2.2.2.2.2.2.2.1
        · split at hs
          · simp at hs; subst hs; exact (atSelect_resets c _ _ _).of_eq f.2.2.2.2.2.2.2.2.2.1
          · simp at hs; subst hs; exact (exportDone_resets c _ _ _ _).of_eq f.2.2.2.2.2.2.2.2.2.1
      · simp at hs
  | persist k ok coin =>
    have hw : ∀ (v : Nat) (t : State), (write ok v t).resets = t.resets := by
      intro v t; unfold write; split <;> rfl
    simp only [step] at hs
    split at hs
    · simp at hs; subst hs; exact Or.inl (hw _ _)
    · split at hs
      · split at hs
        · simp at hs
        · split at hs
          · simp at hs; subst hs; exact Or.inl (hw _ _)
          · split at hs
            · simp at hs; subst hs
              exact (afterSend_resets c _ _ _ _).of_eq (by simp [hw])
            · simp at hs; subst hs; exact Or.inl (hw _ _)
      · simp at hs
  | tick =>
    simp only [step] at hs
    split at hs
    · simp at hs; subst hs; exact Or.inl rfl
    · split at hs <;> simp at hs <;> subst hs <;> exact Or.inl rfl


theorem exportDone_recv {c : Cfg} {s : State} {h : Handler} {hi : Nat} {more : Bool} (hns : h.stopReq = false) :
    (exportDone c s h hi more).recv = s.recv ∧ (exportDone c s h hi more).delivHW = s.delivHW := by
  unfold exportDone
  split
  · cases more <;> simp [afterSend, atSelect, hns, ack]
  · simp [ack]

/-- What an exporter call that is not a whole-call failure adds to `recv`: exactly
    the next chunk of the page the handler fetched right after its cursor. -/
theorem accept_delivers {c : Cfg} {s s' : State} {r : AcceptRes} (w : WF s)
    (hs : step c s (.accept r) = some s') (hr : r ≠ .fail) :
    ∃ h lo hi m pos bad, s.handler = some h ∧ h.pc = .exporting lo hi m pos bad true ∧ lo = h.last ∧
      lo ≤ pos ∧ pos < chunkEnd c pos hi ∧ chunkEnd c pos hi ≤ hi ∧ hi ≤ s.nLogs ∧
      s'.recv = (pos, chunkEnd c pos hi) :: s.recv ∧ s'.delivHW = max s.delivHW (chunkEnd c pos hi) := by
  simp only [step] at hs
  split at hs
  · simp at hs
  · rename_i h hh
    split at hs
    · rename_i lo hi m pos bad hpc
      have hok := w.pcOk h hh
      simp only [PcOk, hpc] at hok
      have hb := chunkEnd_bounds (c := c) hok.2.2.2.2
      have hns : h.stopReq = false := by
        cases hst : h.stopReq with
        | false => rfl
        | true =>
          rcases (w.stopPending h hh hst).2 with e | ⟨m', e⟩ <;> simp [hpc] at e
      have hrecv : (exporterCall s pos (chunkEnd c pos hi) r).recv = (pos, chunkEnd c pos hi) :: s.recv ∧
          (exporterCall s pos (chunkEnd c pos hi) r).delivHW = max s.delivHW (chunkEnd c pos hi) := by
        cases r <;> simp_all [exporterCall, ackItems, deliver]
      refine ⟨h, lo, hi, m, pos, bad, hh, hpc, hok.1, hok.2.2.2.1, hb.1, hb.2, hok.2.2.1, ?_⟩
      split at hs
      · simp at hs; subst hs; exact hrecv
      · split at hs
        · simp at hs; subst hs
          simpa [atSelect, hns] using hrecv
        · simp at hs; subst hs
          have := exportDone_recv (c := c) (s := exporterCall s pos (chunkEnd c pos hi) r) (hi := hi) (more := m) hns
          rw [this.1, this.2]; exact hrecv
    · simp at hs

theorem exportDone_acked {c : Cfg} {s : State} {h : Handler} {hi : Nat} {more : Bool} (hns : h.stopReq = false) :
    (exportDone c s h hi more).acked = s.acked ∧
      ∃ h', (exportDone c s h hi more).handler = some h' ∧ h'.last = hi := by
  unfold exportDone
  split
  · cases more <;> simp [afterSend, atSelect, hns, ack]
  · simp [ack]

/-- **The batcher's acknowledgement rule** (every configuration): the cursor moves
    only when `Accept` reported the whole page as acknowledged, and then every log
    of the page was acknowledged by the exporter item by item. -/
theorem cursor_advance_acked {c : Cfg} {s s' : State} {r : AcceptRes} {h h' : Handler} (w : WF s) (cl : Clean s)
    (hs : step c s (.accept r) = some s') (hh : s.handler = some h) (hh' : s'.handler = some h')
    (hadv : h.last < h'.last) : ∀ k, h.last < k → k ≤ h'.last → Acked s' k := by
  simp only [step, hh] at hs
  split at hs
  · rename_i lo hi m pos bad hpc
    have hok := w.pcOk h hh
    simp only [PcOk, hpc] at hok
    obtain ⟨hlo, hlt, hle, hlp, hph⟩ := hok
    have hb := chunkEnd_bounds (c := c) hph
    have hns : h.stopReq = false := by
      cases hst : h.stopReq with
      | false => rfl
      | true =>
        rcases (w.stopPending h hh hst).2 with e | ⟨m', e⟩ <;> simp [hpc] at e
    split at hs
    · simp at hs; subst hs
      simp at hh'; subst hh'; simp at hadv
    · split at hs
      · simp [atSelect, hns] at hs; subst hs
        simp at hh'; subst hh'; simp at hadv
      · rename_i hnb
        simp at hs; subst hs
        simp at hnb
        obtain ⟨hb0, hr⟩ := hnb
        cases r <;> simp [AcceptRes.isOk] at hr
        have hend : chunkEnd c pos hi = hi := by omega
        obtain ⟨ha, h2, hh2, hl2⟩ := exportDone_acked (c := c) (s := exporterCall s pos (chunkEnd c pos hi) .ok)
          (hi := hi) (more := m) hns
        rw [hh2] at hh'
        simp at hh'; subst hh'
        intro k h1 hk2
        unfold Acked
        rw [ha]
        simp only [exporterCall, ackItems]
        by_cases hkp : k ≤ pos
        · exact List.mem_append_right _ (cl h lo hi m pos true hh (by rw [hpc, hb0]) k (by omega) hkp)
        · exact List.mem_append_left _ (mem_idsOf.mpr ⟨by omega, by omega⟩)
  · simp at hs

theorem Chain.hw_of_nil {hw : Nat} (h : Chain [] hw) : hw = 0 := by
  generalize e : ([] : List (Nat × Nat)) = bs at h
  cases h with
  | nil => rfl
  | cons _ _ _ => simp at e

end Ledger.Repl
