import Ledger.Proofs.ReplLive

/-! Step-level facts of the replication model: when a reset takes effect, what a
delivery adds. -/
namespace Ledger.Repl

def ResetEffect (s s' : State) : Prop :=
  s'.resets = s.resets ∨ (s'.resets = s.resets + 1 ∧ Fresh s')

theorem finishOp_resets {s : State} (hh : s.handler = none) (hc : s.cur = none) :
    ResetEffect s (finishOp s) := by
  unfold finishOp ResetEffect Fresh
  split <;> simp_all [startHandler, resetRow]

theorem exit_resets (c : Cfg) (s : State) : ResetEffect s (exitHandler c s) := by
  unfold exitHandler
  split
  · exact finishOp_resets (s := { s with handler := none }) rfl (by assumption)
  · split
    · exact finishOp_resets (s := { s with handler := none, cur := none, persisted := _ }) rfl rfl
    · exact finishOp_resets (s := { s with handler := none, cur := none, orphans := _ }) rfl rfl

theorem atSelect_resets (c : Cfg) (s : State) (h : Handler) (next : Pc) :
    ResetEffect s (atSelect c s h next) := by
  unfold atSelect
  split
  · exact exit_resets c s
  · exact Or.inl rfl

theorem afterSend_resets (c : Cfg) (s : State) (h : Handler) (more coin : Bool) :
    ResetEffect s (afterSend c s h more coin) := by
  unfold afterSend
  split
  · split
    · exact exit_resets c s
    · exact Or.inl rfl
  · exact atSelect_resets c s _ _

theorem requestStop_resets (c : Cfg) (s : State) (h : Handler) : ResetEffect s (requestStop c s h) := by
  unfold requestStop
  split
  · exact Or.inl rfl
  · exact Or.inl rfl
  · exact exit_resets c s

theorem ResetEffect.of_eq {s0 s s' : State} (e : s.resets = s0.resets) (h : ResetEffect s s') : ResetEffect s0 s' := by
  unfold ResetEffect at *
  rw [← e]; exact h

theorem step_resets {c : Cfg} {s s' : State} {l : Label} (w : WF s) (hs : step c s l = some s') :
    ResetEffect s s' := by
  cases l with
  | append n => simp only [step, Option.some.injEq] at hs; subst hs; exact Or.inl rfl
  | create =>
    simp only [step] at hs
    split at hs <;> simp at hs
    subst hs; exact Or.inl rfl
  | start =>
    simp only [step] at hs
    split at hs
    case isFalse => simp at hs
    case isTrue =>
      split at hs
      · simp at hs; subst hs; exact Or.inl rfl
      · split at hs <;> simp at hs <;> subst hs <;> exact Or.inl rfl
  | stop =>
    simp only [step] at hs
    split at hs
    case isFalse => simp at hs
    case isTrue =>
      split at hs <;> simp at hs <;> subst hs
      · exact Or.inl rfl
      · exact (requestStop_resets c _ _).of_eq rfl
  | reset =>
    simp only [step] at hs
    split at hs
    case isFalse => simp at hs
    case isTrue =>
      split at hs
      · simp at hs; subst hs; exact Or.inl rfl
      · split at hs <;> simp at hs <;> subst hs
        · rename_i hn
          have hc := w.curNone hn
          exact Or.inr ⟨rfl, by simp_all [Fresh, resetRow]⟩
        · exact (requestStop_resets c _ _).of_eq rfl
  | sync =>
    simp only [step] at hs
    split at hs
    case isFalse => simp at hs
    case isTrue => split at hs <;> simp at hs <;> subst hs <;> exact Or.inl rfl
  | mgrStop =>
    simp only [step] at hs
    split at hs
    case isFalse => simp at hs
    case isTrue =>
      split at hs <;> simp at hs <;> subst hs
      · exact Or.inl rfl
      · exact (requestStop_resets c _ _).of_eq rfl
  | mgrStart =>
    simp only [step] at hs
    split at hs
    case isFalse => simp at hs
    case isTrue => split at hs <;> simp at hs <;> subst hs <;> exact Or.inl rfl
  | fetch ok =>
    simp only [step] at hs
    split at hs
    · simp at hs
    · split at hs
      · split at hs
        · split at hs <;> simp at hs <;> subst hs <;> exact atSelect_resets c s _ _
        · simp at hs; subst hs; exact atSelect_resets c s _ _
      · simp at hs
  | accept r =>
    simp only [step] at hs
    split at hs
    · simp at hs
    · split at hs
      · split at hs
        · split at hs
          · simp at hs; subst hs; exact (afterSend_resets c _ _ _ _).of_eq rfl
          · simp at hs; subst hs; exact Or.inl rfl
        · simp at hs; subst hs; exact atSelect_resets c s _ _
        · simp at hs; subst hs; exact (atSelect_resets c _ _ _).of_eq rfl
      · simp at hs
  | persist k ok coin =>
    have hw : ∀ (v : Nat) (t : State), (write ok v t).resets = t.resets := by
      intro v t; unfold write; split <;> rfl
    simp only [step] at hs
    split at hs
    · simp at hs; subst hs; exact Or.inl (hw _ _)
    · split at hs
      · split at hs
        · simp at hs
        · split at hs
          · simp at hs; subst hs; exact Or.inl (hw _ _)
          · split at hs
            · simp at hs; subst hs
              exact (afterSend_resets c _ _ _ _).of_eq (by simp [hw])
            · simp at hs; subst hs; exact Or.inl (hw _ _)
      · simp at hs
  | tick =>
    simp only [step] at hs
    split at hs
    · simp at hs; subst hs; exact Or.inl rfl
    · split at hs <;> simp at hs <;> subst hs <;> exact Or.inl rfl


/-- What an `Accept` that reaches the exporter adds to `recv`: exactly the batch
    the handler fetched right after its cursor. -/
theorem accept_delivers {c : Cfg} {s s' : State} {r : AcceptRes} (w : WF s)
    (hs : step c s (.accept r) = some s') (hr : r ≠ .fail) :
    ∃ h lo hi m, s.handler = some h ∧ h.pc = .exporting lo hi m ∧ lo = h.last ∧ lo < hi ∧ hi ≤ s.nLogs ∧
      s'.recv = (lo, hi) :: s.recv ∧ s'.delivHW = max s.delivHW hi := by
  simp only [step] at hs
  split at hs
  · simp at hs
  · rename_i h hh
    split at hs
    · rename_i lo hi m hpc
      have hok := w.pcOk h hh
      simp only [PcOk, hpc] at hok
      have hns : h.stopReq = false := by
        cases hst : h.stopReq with
        | false => rfl
        | true =>
          rcases (w.stopPending h hh hst).2 with e | ⟨m', e⟩ <;> simp [hpc] at e
      refine ⟨h, lo, hi, m, hh, hpc, hok.1, hok.2.1, hok.2.2, ?_⟩
      split at hs
      · split at hs
        · simp at hs; subst hs
          cases m <;> simp [afterSend, atSelect, hns, deliver, ack]
        · simp at hs; subst hs; simp [deliver, ack]
      · exact absurd rfl hr
      · simp at hs; subst hs
        simp [atSelect, hns, deliver]
    · simp at hs

theorem Chain.hw_of_nil {hw : Nat} (h : Chain [] hw) : hw = 0 := by
  generalize e : ([] : List (Nat × Nat)) = bs at h
  cases h with
  | nil => rfl
  | cons _ _ _ => simp at e

end Ledger.Repl
