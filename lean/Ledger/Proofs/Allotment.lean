import Ledger.Machine.Allotment
import Mathlib.Data.Rat.Floor
import Mathlib.Tactic.Linarith
import Mathlib.Algebra.BigOperators.Group.List.Basic

/-! Helper lemmas for C24 (allotments split amounts exactly). -/
namespace Ledger.Machine

theorem floorPart_eq_floor (amt : Int) (p : Rat) : floorPart amt p = ⌊(amt : ℚ) * p⌋ := by
  unfold floorPart
  rw [← Rat.floor_intCast_div_natCast]
  congr 1
  have h : (p : ℚ) = (p.num : ℚ) / (p.den : ℚ) := (Rat.num_div_den p).symm
  conv_rhs => rw [h]
  push_cast
  ring

theorem length_distribute (xs : List Int) (r : Int) : (distribute xs r).length = xs.length := by
  induction xs generalizing r with
  | nil => simp [distribute]
  | cons x xs ih => unfold distribute; split <;> simp [ih]

/-- `distribute` hands one unit to each of the first `r` parts and nothing else. -/
theorem getElem_distribute (xs : List Int) (r : Int) (i : Nat) (h : i < xs.length) :
    (distribute xs r)[i]'(by rw [length_distribute]; exact h) =
      xs[i] + (if (i : Int) < r then 1 else 0) := by
  induction xs generalizing r i with
  | nil => simp at h
  | cons x xs ih =>
    unfold distribute
    split
    · cases i with
      | zero => simp; omega
      | succ i =>
        simp only [List.getElem_cons_succ]
        rw [ih (r - 1) i (by simpa using h)]
        congr 1
        have : ((i + 1 : Nat) : Int) < r ↔ (i : Int) < r - 1 := by omega
        simp only [this]
    · cases i with
      | zero => simp; omega
      | succ i =>
        simp only [List.getElem_cons_succ]
        rw [ih r i (by simpa using h)]
        have h1 : ¬ ((i : Int) < r) := by omega
        have h2 : ¬ (((i + 1 : Nat) : Int) < r) := by omega
        rw [if_neg h1, if_neg h2]

theorem sum_distribute (xs : List Int) (r : Int) (h0 : 0 ≤ r) (hr : r ≤ xs.length) :
    (distribute xs r).sum = xs.sum + r := by
  induction xs generalizing r with
  | nil => simp [distribute] at *; omega
  | cons x xs ih =>
    unfold distribute
    split
    · simp only [List.sum_cons]
      rw [ih (r - 1) (by omega) (by simp at hr; omega)]
      omega
    · have : r = 0 := by omega
      subst this
      simp only [List.sum_cons]
      rw [ih 0 (by omega) (by omega)]
      omega

/-- Arithmetic core: if the portions sum to one, the floors miss the amount by
    fewer units than there are parts. -/
theorem leftover_bounds (a : List Rat) (amt : Int) (hsum : a.sum = 1) :
    0 ≤ amt - (a.map (floorPart amt)).sum ∧ (amt - (a.map (floorPart amt)).sum < a.length ∨ a = []) := by
  have key : ∀ (l : List Rat),
      (((l.map (floorPart amt)).sum : Int) : ℚ) ≤ (amt : ℚ) * l.sum ∧
      ((l = [] ∧ (amt : ℚ) * l.sum = (((l.map (floorPart amt)).sum : Int) : ℚ)) ∨
        (amt : ℚ) * l.sum < (((l.map (floorPart amt)).sum : Int) : ℚ) + l.length) := by
    intro l
    induction l with
    | nil => simp
    | cons p ps ih =>
      obtain ⟨ih1, ih2⟩ := ih
      have hf1 : ((floorPart amt p : Int) : ℚ) ≤ (amt : ℚ) * p := by
        rw [floorPart_eq_floor]; exact Int.floor_le _
      have hf2 : (amt : ℚ) * p < ((floorPart amt p : Int) : ℚ) + 1 := by
        rw [floorPart_eq_floor]; exact Int.lt_floor_add_one _
      simp only [List.map_cons, List.sum_cons, List.length_cons]
      push_cast
      refine ⟨by linarith, Or.inr ?_⟩
      rcases ih2 with ⟨rfl, h⟩ | h
      · simp at *; linarith
      · linarith
  obtain ⟨k1, k2⟩ := key a
  rw [hsum, mul_one] at k1 k2
  constructor
  · have : ((a.map (floorPart amt)).sum : Int) ≤ amt := by exact_mod_cast k1
    omega
  · rcases k2 with ⟨h, _⟩ | h
    · exact Or.inr h
    · left
      have : amt < (a.map (floorPart amt)).sum + (a.length : Int) := by exact_mod_cast h
      omega

theorem sum_newAllotment_specificTotal (ps : List Portion) (t : Rat) :
    (ps.map (fillRemaining t)).sum
      = specificTotal ps + countRemaining ps * (1 - t) := by
  induction ps with
  | nil => simp [specificTotal, countRemaining]
  | cons p ps ih =>
    cases p with
    | remaining => simp only [List.map_cons, List.sum_cons, ih, specificTotal, countRemaining, fillRemaining]; push_cast; ring
    | specific r => simp only [List.map_cons, List.sum_cons, ih, specificTotal, countRemaining, fillRemaining]; ring

end Ledger.Machine
