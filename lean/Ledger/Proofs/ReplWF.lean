import Ledger.Repl.Spec

/-! WF (control-structure invariant of `Ledger.Repl.step`) holds in every reachable
state of every configuration. -/
namespace Ledger.Repl

theorem wf_finishOp {s : State} (hh : s.handler = none) (hc : s.cur = none)
    (hp : s.pending ≠ none → s.mgrUp = true ∧ s.created = true) : WF (finishOp s) := by
  unfold finishOp
  split <;> constructor <;> simp_all [startHandler, resetRow, PcOk] <;> grind

theorem wf_exit {c : Cfg} {s : State} (hu : s.mgrUp = true ∧ s.created = true) :
    WF (exitHandler c s) := by
  unfold exitHandler
  split
  · apply wf_finishOp <;> simp_all
  · split <;> apply wf_finishOp <;> simp_all

theorem wf_atSelect {c : Cfg} {s : State} {h0 h : Handler} {next : Pc} (w : WF s)
    (hh : s.handler = some h0) (hs : h.stopReq = h0.stopReq)
    (hpc : PcOk s.nLogs { h with pc := next }) (hn : ∀ m, next ≠ .sending m) :
    WF (atSelect c s h next) := by
  have hu := w.handlerUp (by simp [hh])
  unfold atSelect
  split
  · exact wf_exit hu
  · have hp : s.pending = none := by
      cases hpd : s.pending with
      | none => rfl
      | some op =>
        obtain ⟨h', e, hs'⟩ := w.pendingStop (by simp [hpd])
        simp_all
    constructor <;> simp_all <;> grind

theorem wf_afterSend {c : Cfg} {s : State} {h0 h : Handler} {more coin : Bool} (w : WF s)
    (hh : s.handler = some h0) (hs : h.stopReq = h0.stopReq) (hc : s.cur ≠ none) :
    WF (afterSend c s h more coin) := by
  have hu := w.handlerUp (by simp [hh])
  unfold afterSend
  split
  · split
    · exact wf_exit hu
    · have := w.stopPending h0 hh
      have := w.pendingStop
      constructor <;> simp_all [PcOk] <;> grind
  · exact wf_atSelect w hh (by simp [hs]) (by simp [PcOk]) (by simp)

theorem wf_requestStop {c : Cfg} {s : State} {h : Handler} {op : Op} (w : WF s)
    (hh : s.handler = some h) :
    WF (requestStop c { s with pending := some op } h) := by
  have hu := w.handlerUp (by simp [hh])
  have h1 := w.pcOk h hh
  have h2 := w.sendingBusy h
  unfold requestStop
  split
  · constructor <;> simp_all [PcOk] <;> grind
  · constructor <;> simp_all [PcOk] <;> grind
  · exact wf_exit hu


theorem wf_startHandler {s : State} {last : Nat} (w : WF s) (hn : s.handler = none)
    (hu : s.mgrUp = true ∧ s.created = true) : WF (startHandler s last) := by
  have h1 := w.curNone hn
  have h2 : s.pending = none := by
    cases hpd : s.pending with
    | none => rfl
    | some op =>
      obtain ⟨h', e, _⟩ := w.pendingStop (by simp [hpd])
      simp_all
  constructor <;> simp_all [startHandler, PcOk] <;> grind

theorem wf_init : WF State.init := by
  constructor <;> simp [State.init]

theorem handler_none_of {s : State} (w : WF s) (h : ¬ (s.mgrUp = true ∧ s.created = true)) :
    s.handler = none := by
  cases hh : s.handler with
  | none => rfl
  | some x => exact absurd (w.handlerUp (by simp [hh])) h

theorem pending_none_of {s : State} (w : WF s) (h : s.handler = none) : s.pending = none := by
  cases hpd : s.pending with
  | none => rfl
  | some op =>
    obtain ⟨h', e, _⟩ := w.pendingStop (by simp [hpd])
    simp_all

theorem chunkEnd_bounds {c : Cfg} {pos hi : Nat} (h : pos < hi) :
    pos < chunkEnd c pos hi ∧ chunkEnd c pos hi ≤ hi := by
  unfold chunkEnd
  split
  · omega
  · omega

/-- `WF` only looks at the control fields. -/
theorem wf_congr {s s' : State} (w : WF s) (h1 : s'.nLogs = s.nLogs) (h2 : s'.handler = s.handler)
    (h3 : s'.cur = s.cur) (h4 : s'.pending = s.pending) (h5 : s'.mgrUp = s.mgrUp)
    (h6 : s'.created = s.created) : WF s' := by
  have a1 := w.pcOk; have a2 := w.sendingBusy; have a3 := w.curNone
  have a4 := w.pendingStop; have a5 := w.stopPending; have a6 := w.handlerUp
  constructor <;> simp_all

theorem exporterCall_fields (s : State) (a b : Nat) (r : AcceptRes) :
    (exporterCall s a b r).nLogs = s.nLogs ∧ (exporterCall s a b r).handler = s.handler ∧
    (exporterCall s a b r).cur = s.cur ∧ (exporterCall s a b r).pending = s.pending ∧
    (exporterCall s a b r).mgrUp = s.mgrUp ∧ (exporterCall s a b r).created = s.created ∧
    (exporterCall s a b r).orphans = s.orphans ∧ (exporterCall s a b r).persisted = s.persisted ∧
    (exporterCall s a b r).ackHW = s.ackHW ∧ (exporterCall s a b r).resets = s.resets ∧
    (exporterCall s a b r).gen = s.gen := by
  cases r <;> simp [exporterCall, ackItems, deliver]

theorem wf_exporterCall {s : State} (w : WF s) (a b : Nat) (r : AcceptRes) : WF (exporterCall s a b r) := by
  have f := exporterCall_fields s a b r
  exact wf_congr w f.1 f.2.1 f.2.2.1 f.2.2.2.1 f.2.2.2.2.1 f.2.2.2.2.2.1

theorem wf_exportDone {c : Cfg} {s : State} {h : Handler} {hi : Nat} {more : Bool} (w : WF s)
    (hh : s.handler = some h) (hne : ∀ m, h.pc ≠ .sending m) : WF (exportDone c s h hi more) := by
  unfold exportDone
  split
  · have w1 : WF { ack s hi with cur := some hi } := by
      have := w.pendingStop; have := w.stopPending; have := w.handlerUp; have := w.pcOk
      constructor <;> simp_all [ack] <;> grind
    exact wf_afterSend w1 (h0 := h) (by simp [ack, hh]) rfl (by simp)
  · have h1 := w.pendingStop
    have h2 := w.stopPending h hh
    have h3 := w.handlerUp
    constructor <;> simp_all [ack, PcOk] <;> grind

theorem wf_step {c : Cfg} {s s' : State} {l : Label} (w : WF s) (hs : step c s l = some s') : WF s' := by
  cases l with
  | append n =>
    simp only [step, Option.some.injEq] at hs
    subst hs
    constructor
    · intro h hh
      have := w.pcOk h hh
      unfold PcOk at *
      split <;> simp_all <;> omega
    · exact w.sendingBusy
    · exact w.curNone
    · exact w.pendingStop
    · exact w.stopPending
    · exact w.handlerUp
  | create =>
    simp only [step] at hs
    split at hs
    case isFalse => simp at hs
    case isTrue hg =>
      simp at hs; subst hs
      simp [opsOpen] at hg
      have hn : s.handler = none := handler_none_of w (by simp [hg])
      have hc := w.curNone hn
      have hp := pending_none_of w hn
      constructor <;> simp_all [startHandler, PcOk] <;> grind
  | start =>
    simp only [step] at hs
    split at hs
    case isFalse => simp at hs
    case isTrue hg =>
      simp [opsOpen] at hg
      split at hs
      · simp at hs; subst hs; exact w
      · split at hs <;> simp at hs <;> subst hs
        · exact w
        · rename_i hcr _ hn
          exact wf_startHandler w hn (by simp_all)
  | stop =>
    simp only [step] at hs
    split at hs
    case isFalse => simp at hs
    case isTrue hg =>
      split at hs <;> simp at hs <;> subst hs
      · exact w
      · rename_i h hh
        exact wf_requestStop w hh
  | reset =>
    simp only [step] at hs
    split at hs
    case isFalse => simp at hs
    case isTrue hg =>
      split at hs
      · simp at hs; subst hs; exact w
      · split at hs <;> simp at hs <;> subst hs
        · rename_i hn
          have hc := w.curNone hn
          have hp := pending_none_of w hn
          constructor <;> simp_all [resetRow]
        · rename_i h hh
          exact wf_requestStop w hh
  | sync =>
    simp only [step] at hs
    split at hs
    case isFalse => simp at hs
    case isTrue hg =>
      simp [opsOpen] at hg
      split at hs <;> simp at hs <;> subst hs
      · rename_i h2
        simp at h2
        exact wf_startHandler w (by simpa using h2.2) (by simp_all)
      · exact w
  | mgrStop =>
    simp only [step] at hs
    split at hs
    case isFalse => simp at hs
    case isTrue hg =>
      split at hs <;> simp at hs <;> subst hs
      · rename_i hn
        have hc := w.curNone hn
        have hp := pending_none_of w hn
        constructor <;> simp_all
      · rename_i h hh
        exact wf_requestStop w hh
  | mgrStart =>
    simp only [step] at hs
    split at hs
    case isFalse => simp at hs
    case isTrue hg =>
      simp at hg
      have hn : s.handler = none := handler_none_of w (by simp [hg])
      have hc := w.curNone hn
      split at hs <;> simp at hs <;> subst hs
      · constructor <;> simp_all [startHandler, PcOk] <;> grind
      · constructor <;> simp_all
  | fetch ok =>
    simp only [step] at hs
    split at hs
    · simp at hs
    · rename_i h hh
      split at hs
      · split at hs
        · split at hs
          · simp at hs; subst hs
            exact wf_atSelect w hh rfl
              (by simp only [PcOk, enterExport]; exact ⟨trivial, by omega, by omega, by omega, by omega⟩)
              (by simp [enterExport])
          · simp at hs; subst hs
            exact wf_atSelect w hh rfl (by simp [PcOk]) (by simp)
        · simp at hs; subst hs
          exact wf_atSelect w hh rfl (by simp [PcOk]) (by simp)
      · simp at hs
  | accept r =>
    simp only [step] at hs
    split at hs
    · simp at hs
    · rename_i h hh
      split at hs
      · rename_i lo hi more pos bad hpc
        have hok := w.pcOk h hh
        simp only [PcOk, hpc] at hok
        have hb := chunkEnd_bounds (c := c) hok.2.2.2.2
        have f := exporterCall_fields s pos (chunkEnd c pos hi) r
        have w1 := wf_exporterCall w pos (chunkEnd c pos hi) r
        split at hs
        · simp at hs; subst hs
          have h1 := w1.pendingStop; have h2 := w1.stopPending h (by rw [f.2.1]; exact hh)
          have h3 := w1.handlerUp; have h4 := w1.sendingBusy; have h5 := w1.curNone
          constructor <;> simp_all [PcOk] <;> grind
        · split at hs
          · simp at hs; subst hs
            exact wf_atSelect w1 (h0 := h) (by rw [f.2.1]; exact hh) rfl
              (by rw [f.1]; simp only [PcOk]; exact ⟨hok.1, hok.2.1, hok.2.2.1⟩) (by simp)
          · simp at hs; subst hs
            exact wf_exportDone w1 (by rw [f.2.1]; exact hh) (by simp [hpc])
      · simp at hs
  | persist i ok coin =>
    simp only [step] at hs
    split at hs
    · simp at hs; subst hs
      have h1 := w.pcOk; have h2 := w.sendingBusy; have h3 := w.curNone
      have h4 := w.pendingStop; have h5 := w.stopPending; have h6 := w.handlerUp
      unfold write
      split <;> constructor <;> simp_all
    · split at hs
      · split at hs
        · simp at hs
        · rename_i v hcur
          split at hs
          · simp at hs; subst hs
            rename_i hn
            have h4 := pending_none_of w hn
            unfold write
            split <;> constructor <;> simp_all
          · rename_i h hh
            split at hs
            · simp at hs; subst hs
              have w1 : WF { write ok v { s with cur := none } with cur := some h.last } := by
                have h1 := w.pcOk; have h2 := w.sendingBusy; have h3 := w.curNone
                have h4 := w.pendingStop; have h5 := w.stopPending; have h6 := w.handlerUp
                unfold write
                split <;> constructor <;> simp_all
              exact wf_afterSend w1 (h0 := h) (by unfold write; split <;> simp [hh]) rfl (by simp)
            · simp at hs; subst hs
              rename_i hns
              have h1 := w.pcOk; have h2 := w.sendingBusy; have h3 := w.curNone
              have h4 := w.pendingStop; have h5 := w.stopPending; have h6 := w.handlerUp
              unfold write
              split <;> constructor <;> simp_all <;> grind
      · simp at hs
  | tick =>
    simp only [step] at hs
    split at hs
    · simp at hs; subst hs; exact w
    · rename_i h hh
      have h0 := w.pcOk h hh
      have h1 := w.pcOk; have h2 := w.sendingBusy; have h3 := w.curNone
      have h4 := w.pendingStop; have h5 := w.stopPending h hh; have h6 := w.handlerUp
      split at hs <;> simp at hs <;> subst hs
      · constructor <;> simp_all [PcOk] <;> grind
      · constructor <;> simp_all [PcOk] <;> grind
      · constructor <;> simp_all [PcOk, enterExport] <;> grind
      · constructor <;> simp_all [PcOk] <;> grind
      · exact w


theorem wf_reach {c : Cfg} {s : State} (r : Reach c s) : WF s := by
  induction r with
  | init => exact wf_init
  | step l _ hs ih => exact wf_step ih hs

end Ledger.Repl
