import Ledger.Proofs.SqlRun

/-!
# Bounded families for the `moves` triggers (`set_effective_volumes`, `update_effective_volumes`)

A scenario is a list of batches of moves; each batch is ONE `INSERT INTO moves` statement
(`Ledger.Generated.WriteSql.P.insertMoves`) run by LeanPG on the ledger created by the generated
`addLedger` script (ledger "ledger0", id 7: the per-ledger BEFORE/AFTER INSERT triggers calling the
PL functions of `Ledger.Generated.Schema`). `sqlMoves` is the resulting `moves` table, `specMoves` what
`Ledger.Spec.insertMoves` computes batch by batch.
-/
namespace Ledger.Sql.Run
open Ledger Ledger.Sql Ledger.Generated.WriteSql Ledger.Core Ledger.Base

/-- the ledger of the generated `addLedger`: "ledger0", id 7, bucket "_default" -/
def w1 : World := (run w0 (on 1 addLedger)).1

structure Mv where
  acct : String
  amt : Int
  src : Bool
  /-- effective date, seconds -/
  eff : Nat
  deriving Repr

/-- one statement per batch; insertion date = 50 + batch index -/
def sqlBatch (i : Nat) (b : List Mv) : List Stmt :=
  P.insertMoves "_default" "ledger0" 7 (b.map fun m =>
    { transactions_id := i + 1, is_source := m.src, accounts_address := m.acct, amount := m.amt, asset := "USD",
      insertion_date := tsText (50 + i), effective_date := tsText m.eff, post_commit_volumes := "(0, 0)" })

def sqlMoves (bs : List (List Mv)) : List Spec.MoveRow :=
  movesAbs (run w1 (on 1 (((List.range bs.length).zip bs).flatMap fun ib => sqlBatch ib.1 ib.2))).1 "_default" "ledger0"

def specBatch (table : List Spec.MoveRow) (i : Nat) (b : List Mv) : List Spec.MoveRow :=
  Spec.insertMoves table (((List.range b.length).zip b).map fun jm =>
    { seq := table.length + jm.1 + 1, txId := i + 1, account := jm.2.acct, asset := "USD", amount := jm.2.amt, isSource := jm.2.src,
      insertionDate := tsMicros (50 + i), effectiveDate := tsMicros jm.2.eff, pcv := ⟨0, 0⟩, pcev := ⟨0, 0⟩ })

def specMoves (bs : List (List Mv)) : List Spec.MoveRow :=
  ((List.range bs.length).zip bs).foldl (fun t ib => specBatch t ib.1 ib.2) []

def agree (bs : List (List Mv)) : Bool := decide (sqlMoves bs = specMoves bs)

/-- three single-row statements on one account, every assignment of effective dates in {1,2,3}
    (back-dated, tied, future); amounts 1 / 10 / 100 make every contribution visible -/
def famDates : List (List (List Mv)) :=
  [1, 2, 3].flatMap fun d1 => [1, 2, 3].flatMap fun d2 => [1, 2, 3].map fun d3 =>
    [[⟨"a", 1, true, d1⟩], [⟨"a", 10, false, d2⟩], [⟨"a", 100, true, d3⟩]]

/-- a two-row statement (source and destination of one posting on the same account: the rows of one
    statement share the effective date; BEFORE-ROW triggers see the rows already inserted) after a
    single-row one, every pair of dates in {1,2,3} -/
def famBatch : List (List (List Mv)) :=
  [1, 2, 3].flatMap fun d1 => [1, 2, 3].map fun d2 =>
    [[⟨"a", 1, true, d1⟩], [⟨"a", 10, true, d2⟩, ⟨"a", 100, false, d2⟩]]

/-- other accounts are not touched -/
def famOther : List (List (List Mv)) :=
  [[[⟨"a", 1, true, 2⟩], [⟨"b", 10, true, 1⟩], [⟨"a", 100, false, 1⟩, ⟨"b", 1000, false, 3⟩]]]

end Ledger.Sql.Run
