import Ledger.Proofs.SqlAcMetaRev
import Ledger.Proofs.SqlCommit

/-!
# Draining the queued metadata-history triggers of `accounts`

A statement on `accounts` queues, per written row, `update_account_metadata_history` (UPDATE) or `insert_account_metadata_history`
(INSERT). `drainAfter` runs them in queue order, each as a nested command: `accounts_metadata` receives one row per queued trigger —
revision 1 for an inserted account, one more than the largest stored revision of the account for an updated one (`amDrainRows`).
-/
open Ledger Ledger.Sql Ledger.Generated Ledger.Core
namespace Ledger.Sql

/-! ### the next revision, as a function -/

def nextRevF : List Int → Int
  | [] => 1
  | c :: cs => cs.foldl max c + 1

theorem foldl_max_ge (cs : List Int) : ∀ (c : Int), c ≤ cs.foldl max c ∧ (∀ x ∈ cs, x ≤ cs.foldl max c) ∧ (cs.foldl max c = c ∨ cs.foldl max c ∈ cs) := by
  induction cs with
  | nil => intro c; exact ⟨Int.le_refl _, (fun _ h => nomatch h), Or.inl rfl⟩
  | cons y ys ih =>
    intro c
    obtain ⟨h1, h2, h3⟩ := ih (max c y)
    simp only [List.foldl_cons]
    refine ⟨by omega, ?_, ?_⟩
    · intro x hx
      rcases List.mem_cons.mp hx with e | e
      · subst e; omega
      · exact h2 x e
    · rcases h3 with e | e
      · rw [e]
        by_cases hcy : c ≤ y
        · right; simp [Int.max_eq_right hcy]
        · left; exact Int.max_eq_left (by omega)
      · right; exact List.mem_cons_of_mem _ e

theorem NextRev_unique (cands : List Int) (rv : Int) (h : NextRev cands rv) : rv = nextRevF cands := by
  rcases h with ⟨e, r⟩ | ⟨m, hm, r, hmax⟩
  · subst e; exact r
  · cases cands with
    | nil => cases hm
    | cons c cs =>
      obtain ⟨h1, h2, h3⟩ := foldl_max_ge cs c
      simp only [nextRevF]
      have hle : cs.foldl max c ≤ m := by
        rcases h3 with e | e
        · rw [e]; exact hmax c (by simp)
        · exact hmax _ (List.mem_cons_of_mem _ e)
      have hge : m ≤ cs.foldl max c := by
        rcases List.mem_cons.mp hm with e | e
        · subst e; exact h1
        · exact h2 m e
      omega

/-! ### queued triggers and what they write -/

/-- a queued trigger: on UPDATE (`upd`) or INSERT, for the NEW row `a` -/
structure AmItem where
  upd : Bool
  a : AcR
  old : Option AcR

def amPending (b fI fU : String) (it : AmItem) : PendingTrig :=
  { fname := if it.upd then fU else fI, table := acFull b, new := some it.a.vals, old := it.old.map (·.vals) }

def amRevOf (tbl : List AmR) (a : AcR) : Int := nextRevF ((tbl.filter (amCand a)).map (·.revision))

/-- the history row a queued trigger writes, given the visible history `tbl` and the sequence value `q` -/
def amNew (tbl : List AmR) (q : Int) (it : AmItem) : AmR :=
  amOf it.a (if it.upd then amRevOf tbl it.a else 1) (if it.upd then it.a.upd else it.a.ins) q

def amDrainRows (xid : Nat) : Nat → Nat → Int → List Ver → List AmR → List AmItem → List Ver
  | _, _, _, rows, _, [] => rows
  | c, nr, q, rows, tbl, it :: rest =>
    amDrainRows xid (c + 2) (nr + 1) (q + 1) (newVer xid c nr (amVals (amNew tbl q it)) :: rows) (amNew tbl q it :: tbl) rest

def amDrainTbl : Int → List AmR → List AmItem → List AmR
  | _, tbl, [] => tbl
  | q, tbl, it :: rest => amDrainTbl (q + 1) (amNew tbl q it :: tbl) rest

/-- the sequence after `n` values from `q` -/
def seqsAdv (full : String) : Nat → Int → List Seq → List Seq
  | 0, _, seqs => seqs
  | n + 1, q, seqs => seqsAdv full n (q + 1) (seqsSet full q seqs)

theorem AmView.congr {v v' : View} {rows : List Ver} {tbl : List AmR} (h : AmView v rows tbl)
    (hv : ∀ r ∈ rows, r.visible v' = r.visible v) : AmView v' rows tbl := by
  unfold AmView at *
  rw [← h]
  congr 1
  apply List.filter_congr
  intro r hr
  exact hv r hr

theorem amFull_ne_acFull (b : String) : amFull b ≠ acFull b := by
  intro h
  have := congrArg String.length h
  simp [amFull, acFull, String.length_append] at this
  exact absurd this (by decide)

/-- what does not change while the queue is drained -/
structure AmStatic (funcs : List (String × PlFunc)) (b fI fU : String) (fnI fnU : PlFunc) : Prop where
  schI : schemaOf fI = b
  schU : schemaOf fU = b
  funI : funcs.lookup fI = some fnI
  funU : funcs.lookup fU = some fnU
  declsI : fnI.decls = []
  declsU : fnU.decls = []
  bodyI : fnI.body = [PlStmt.exec (amInsertStmt (Expr.int 1) (Expr.col "new" "insertion_date")) [], PlStmt.ret (some (Expr.col "" "new"))]
  bodyU : fnU.body = [PlStmt.exec (amInsertStmt amRevExpr (Expr.col "new" "updated_at")) [], PlStmt.ret (some (Expr.col "" "new"))]
  schH : schemaOf (amFull b) = b

/-- one queued trigger -/
theorem exec_drainStep_am (k : Nat) (b fI fU : String) (fnI fnU : PlFunc) (it : AmItem) (s : St) (hs : TxState s)
    (hstat : AmStatic s.w.funcs b fI fU fnI fnU) (hnc : s.nextCid + 2 ≤ 1000000000)
    (TA : Table) (hTA : s.w.table? (acFull b) = some TA) (hTAc : TA.cols = Schema.tbl_accounts.cols)
    (nr : Nat) (rows : List Ver) (sq : Seq) (hst : AmState s b nr rows sq)
    (tbl : List AmR) (hview : AmView (latestView s.w s.xid) rows tbl) (hfresh : Fresh s.xid s.nextCid rows) :
    (drainStep (k + 14) () (amPending b fI fU it)).exec s =
      (.ok (), ((s.withSeqs (seqsSet (amSeqFull b) sq.next s.w.seqs)).bump 2).withTable
        ((amT b (nr + 1)).withRows (newVer s.xid s.nextCid nr (amVals (amNew tbl sq.next it)) :: rows))) := by
  have hS : TxState (s.withSP b).enter.clearQ := ((hs.withSP b).enter (by simp; omega)).clearQ
  have hdateI : (evalExpr (cbs (k + 7)) s.w.types (acPlEnv it.a it.old false) (Expr.col "new" "insertion_date")).exec (s.withSP b).enter.clearQ =
      (.ok (.ts it.a.ins), (s.withSP b).enter.clearQ) := by
    have c := lookup_new_ac it.a it.old false "insertion_date" (.ts it.a.ins) (by cases it.a; rfl)
    simp only [evalExpr, exec_bind, c, exec_liftR_ok]
  have hdateU : (evalExpr (cbs (k + 7)) s.w.types (acPlEnv it.a it.old false) (Expr.col "new" "updated_at")).exec (s.withSP b).enter.clearQ =
      (.ok (.ts it.a.upd), (s.withSP b).enter.clearQ) := by
    have c := lookup_new_ac it.a it.old false "updated_at" (.ts it.a.upd) (by cases it.a; rfl)
    simp only [evalExpr, exec_bind, c, exec_liftR_ok]
  simp only [drainStep, amPending, exec_bind, exec_getTable hTA, exec_pure]
  cases hu : it.upd with
  | false =>
    have hrev : (evalExpr (cbs (k + 7)) s.w.types (acPlEnv it.a it.old false) (Expr.int 1)).exec (s.withSP b).enter.clearQ =
        (.ok (.int 1), (s.withSP b).enter.clearQ) := by simp [evalExpr]
    have := exec_runTrigger_am (k + 4) b fI it.a it.old (Expr.int 1) (Expr.col "new" "insertion_date") 1 it.a.ins fnI hstat.declsI hstat.bodyI
      s hs hstat.funI hstat.schI hstat.schH hnc TA hTAc nr rows sq hst hrev hdateI (by intro h; cases h) (by intro h; cases h)
    simp only [Bool.false_eq_true, if_false, this, amNew, hu]
  | true =>
    have hviewS : AmView (cv (s.withSP b).enter.clearQ) rows tbl := by
      apply hview.congr
      intro r hr
      exact visible_cv_latest (s.withSP b).enter.clearQ hS rows hfresh r hr
    obtain ⟨rv, hrev, hnr⟩ := exec_amRevExpr k b it.a it.old false (s.withSP b).enter.clearQ hS rfl nr rows hst.table tbl hviewS
    have hrv := NextRev_unique _ _ hnr
    have := exec_runTrigger_am (k + 4) b fU it.a it.old amRevExpr (Expr.col "new" "updated_at") rv it.a.upd fnU hstat.declsU hstat.bodyU
      s hs hstat.funU hstat.schU hstat.schH hnc TA hTAc nr rows sq hst hrev hdateU (by intro h; cases h) (by intro h; cases h)
    simp only [if_true, this, amNew, hu, amRevOf, hrv]

/-- the state after draining `items` from `S` -/
def amDrainSt (b : String) (xid : Nat) : St → Nat → Int → List Ver → List AmR → List AmItem → St
  | S, _, _, _, _, [] => S
  | S, nr, q, rows, tbl, it :: rest =>
    amDrainSt b xid (((S.withSeqs (seqsSet (amSeqFull b) q S.w.seqs)).bump 2).withTable
        ((amT b (nr + 1)).withRows (newVer xid S.nextCid nr (amVals (amNew tbl q it)) :: rows)))
      (nr + 1) (q + 1) (newVer xid S.nextCid nr (amVals (amNew tbl q it)) :: rows) (amNew tbl q it :: tbl) rest

theorem amDrainSt_afterQ (b : String) (xid : Nat) : ∀ (items : List AmItem) (S : St) (nr : Nat) (q : Int) (rows : List Ver) (tbl : List AmR),
    (amDrainSt b xid S nr q rows tbl items).afterQ = S.afterQ := by
  intro items
  induction items with
  | nil => intro S nr q rows tbl; rfl
  | cons it rest ih =>
    intro S nr q rows tbl
    simp only [amDrainSt]
    rw [ih]
    rfl

theorem AmAll.mono {b1 b2 : Int} {rows : List Ver} (h : AmAll b1 rows) (hb : b1 ≤ b2) : AmAll b2 rows := by
  intro r hr
  obtain ⟨y, hv, hlt⟩ := h r hr
  exact ⟨y, hv, by omega⟩

/-- **the drain of the queue** -/
theorem exec_drainFold_am (k : Nat) (b fI fU : String) (fnI fnU : PlFunc) : ∀ (items : List AmItem) (S : St) (nr : Nat) (rows : List Ver)
    (sq : Seq) (tbl : List AmR), TxState S → AmStatic S.w.funcs b fI fU fnI fnU → S.nextCid + 2 * items.length ≤ 1000000000 →
    (∃ TA, S.w.table? (acFull b) = some TA ∧ TA.cols = Schema.tbl_accounts.cols) →
    AmState S b nr rows sq → sq.next + items.length ≤ 9223372036854775807 →
    AmView (latestView S.w S.xid) rows tbl → Fresh S.xid S.nextCid rows →
    ((items.map (amPending b fI fU)).foldlM (drainStep (k + 14)) ()).exec S =
      (.ok (), amDrainSt b S.xid S nr sq.next rows tbl items) := by
  intro items
  induction items with
  | nil => intro S nr rows sq tbl _ _ _ _ _ _ _ _; simp [amDrainSt]
  | cons it rest ih =>
    intro S nr rows sq tbl hs hstat hnc hTA hst hrange hview hfresh
    obtain ⟨TA, hTA1, hTA2⟩ := hTA
    simp only [List.length_cons] at hnc hrange
    have hstep := exec_drainStep_am k b fI fU fnI fnU it S hs hstat (by omega) TA hTA1 hTA2 nr rows sq hst tbl hview hfresh
    simp only [List.map_cons, exec_foldlM_cons, hstep]
    generalize hS1 : ((S.withSeqs (seqsSet (amSeqFull b) sq.next S.w.seqs)).bump 2).withTable
      ((amT b (nr + 1)).withRows (newVer S.xid S.nextCid nr (amVals (amNew tbl sq.next it)) :: rows)) = S1
    have hx1 : S1.xid = S.xid := by rw [← hS1]; rfl
    have hn1 : S1.nextCid = S.nextCid + 2 := by rw [← hS1]; rfl
    have hw1 : latestView S1.w S1.xid = latestView S.w S.xid := by rw [← hS1]; rfl
    have hT0 : ((S.withSeqs (seqsSet (amSeqFull b) sq.next S.w.seqs)).bump 2).w.table? (amFull b) = some ((amT b nr).withRows rows) := hst.table
    have ihh := ih S1 (nr + 1) (newVer S.xid S.nextCid nr (amVals (amNew tbl sq.next it)) :: rows)
      { sq with last := sq.next, called := true } (amNew tbl sq.next it :: tbl)
      (by rw [← hS1]; exact ((hs.withSeqs _).bump 2).withTable _)
      (by rw [← hS1]; exact hstat)
      (by rw [hn1]; omega)
      ⟨TA, by
        rw [← hS1]
        have := withTable_table?_ne ((S.withSeqs (seqsSet (amSeqFull b) sq.next S.w.seqs)).bump 2)
          ((amT b (nr + 1)).withRows (newVer S.xid S.nextCid nr (amVals (amNew tbl sq.next it)) :: rows)) (acFull b)
          (fun e => amFull_ne_acFull b e.symm)
        exact this.trans hTA1, hTA2⟩
      { table := by
          rw [← hS1]
          exact withTable_table? _ ((amT b nr).withRows rows) _ hT0
        seq := by
          rw [← hS1]
          exact find_seqsSet _ _ _ _ hst.seq
        all := by
          rw [Seq.next_set]
          intro r hr
          rcases List.mem_cons.mp hr with e | e
          · subst e
            exact ⟨amNew tbl sq.next it, rfl, by simp only [amNew, amOf]; omega⟩
          · obtain ⟨y, hv, hlt⟩ := hst.all r e
            exact ⟨y, hv, by omega⟩
        lo := by rw [Seq.next_set]; have := hst.lo; omega
        hi := by rw [Seq.next_set]; omega }
      (by rw [Seq.next_set]; omega)
      (by
        rw [hw1]
        unfold AmView at hview ⊢
        have hv : (newVer S.xid S.nextCid nr (amVals (amNew tbl sq.next it))).visible (latestView S.w S.xid) = true :=
          newVer_visible S.w S.xid S.nextCid nr _ hs.xid (by omega)
        simp only [List.filter_cons, hv, if_true, List.map_cons, hview]
        rfl)
      (by
        rw [hx1, hn1]
        intro r hr
        rcases List.mem_cons.mp hr with e | e
        · subst e
          exact ⟨fun _ => by simp [newVer], fun e => by simp [newVer] at e; exact absurd e.symm hs.xid⟩
        · exact (hfresh.mono (by omega)) r e)
    rw [Seq.next_set] at ihh
    rw [ihh, hx1]
    simp only [amDrainSt]
    rw [hS1]

end Ledger.Sql
