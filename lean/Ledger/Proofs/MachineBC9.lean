import Ledger.Proofs.MachineBC8

/-! Stage (f), part 9: the account source (`VisitSource`, `SrcAccount`). -/
namespace Ledger.Machine

theorem account_typed_shape {ds : Decls} : (e : Expr) → typeExpr ds e = .ok .account →
    (∃ s, e = .acct s) ∨ (∃ x, e = .var x)
  | .acct s, _ => Or.inl ⟨s, rfl⟩
  | .var x, _ => Or.inr ⟨x, rfl⟩
  | .asset _, h => by simp only [typeExpr] at h; split at h <;> cases h
  | .num _, h => by simp [typeExpr] at h
  | .str _, h => by simp [typeExpr] at h
  | .portion _, h => by simp only [typeExpr] at h; split at h <;> cases h
  | .mon _ _, h => by
    simp only [typeExpr] at h
    split at h
    · cases h
    · split at h <;> cases h
  | .add l r, h => by
    exfalso
    simp only [typeExpr] at h
    split at h
    · cases h
    · split at h
      · cases h
      · split at h <;> cases h
    · split at h
      · cases h
      · split at h <;> cases h
    · cases h
  | .sub l r, h => by
    exfalso
    simp only [typeExpr] at h
    split at h
    · cases h
    · split at h
      · cases h
      · split at h <;> cases h
    · split at h
      · cases h
      · split at h <;> cases h
    · cases h

/-- The compiler's `isWorld` test on the address agrees with the syntactic one. -/
theorem cExpr_world {ds : Decls} {e : Expr} {push : Bool} {cs cs1 : CS} {t : Ty} {acc : Nat}
    (hv : VarsInv ds cs) (ht : typeExpr ds e = .ok .account)
    (h : cExpr e push cs = .ok ((t, some acc), cs1)) : isWorldAddr acc cs1 = e.isWorld := by
  rcases account_typed_shape e ht with ⟨s, rfl⟩ | ⟨x, rfl⟩
  · simp only [cExpr] at h
    split at h
    · cases h
    · rename_i a cs0 hal
      cases h
      obtain ⟨_, hres, _⟩ := allocConst_ok hal
      simp only [isWorldAddr, pushIf_res, hres, Expr.isWorld]
      by_cases hs : s = "world"
      · subst hs; simp
      · have hne : Res.const (CValue.account s) ≠ Res.const (CValue.account "world") := by
          intro hh; injection hh with h1; injection h1 with h2; exact hs h2
        simp [hs, hne]
  · simp only [cExpr] at h
    split at h
    · cases h
    · rename_i idx hl
      split at h
      · cases h
      · rename_i r hr
        cases h
        obtain ⟨r', h1, h2, _⟩ := hv x _ hl
        rw [hr] at h1; cases h1
        simp only [isWorldAddr, pushIf_res, hr, Expr.isWorld]
        simp only [beq_eq_false_iff_ne, ne_eq, Option.some.injEq]
        intro hh; subst hh; simp [resName] at h2

/-- The fallback address returned by `cSource` denotes the source's `FallbackAccount`. -/
def FbOK (env : Env) (fb : Option Nat) (fbE : Option Expr) (cs : CS) : Prop :=
  match fb, fbE with
  | none, none => True
  | some a, some e => ∃ acc, evalAccount env e = .ok acc ∧ AddrVal env a (.account acc) cs
  | _, _ => False

/-- Stack effect of a source: pushes the funding it makes available. -/
def srcK (env : Env) (asset : String) (s : Source) : Kl := fun stk st =>
  match evalSource Cfg.fixed env asset s st.bal with
  | .error e => .error e
  | .ok (F, b) => .ok (.funding F :: stk, { st with bal := b })

/-- What `cSource` guarantees. -/
def SrcCode (ds : Decls) (env : Env) (asset : String) (s : Source) (cs cs' : CS) (fb : Option Nat) : Prop :=
  ∃ seg, Ext cs cs' seg ∧ Good ds cs' ∧ FbOK env fb s.fallback cs' ∧
    ∀ R resv, Final cs' R → Resolved env R resv → ∀ stk st, runSeg resv seg stk st = srcK env asset s stk st

theorem exprK_monetary {ds : Decls} {env : Env} (henv : EnvTyped ds env) {x : Expr}
    (ht : typeExpr ds x = .ok .monetary) (stk : Stack) (st : State) :
    exprK env x stk st =
      match evalMonetary env x with
      | .ok m => .ok (.val (.monetary m.1 m.2) :: stk, st)
      | .error e => .error e := by
  rcases evalExpr_typed ds env henv x _ ht with ⟨v, hv, hty, _⟩ | ⟨k, hk⟩
  · obtain ⟨a, amt, rfl⟩ := val_monetary hty
    simp [exprK, evalMonetary, hv]
  · simp [exprK, evalMonetary, hk]

theorem src_leaf_run {env : Env} {e : Expr} {a : String} {cs1 cs' : CS} {seg0 seg1 : List Instr}
    {oa : Option Nat} (c0 : ExprCode env e true oa cs1 seg0) (hev : evalExpr env e = .ok (.account a))
    (e1 : Ext cs1 cs' seg1) {k : Kl}
    (r : ∀ R resv, Final cs' R → Resolved env R resv → ∀ stk st, T stk → runSeg resv seg1 stk st = k stk st) :
    ∀ R resv, Final cs' R → Resolved env R resv → ∀ stk st,
      runSeg resv (seg0 ++ seg1) stk st = k (.val (.account a) :: stk) st := by
  intro R resv hf hr stk st
  rw [runSeg_append, c0.run R resv (Final.of_ext e1 hf) hr rfl, hev]
  exact r R resv hf hr _ _ trivial

theorem cSource_account_ok {ds : Decls} {env : Env} (henv : EnvTyped ds env) (C : CS → Prop) (hC : Stable C)
    {pushAsset : Act} {asset : String} (hpa : Sim ds env C pushAsset T (pushK (.asset asset)))
    {e : Expr} {od : Overdraft} {isAll : Bool} {rc : List String × Bool}
    (hchk : checkSource ds isAll (.account e od) = .ok rc)
    {cs cs' : CS} {accs : List Nat} {fb : Option Nat} (hg : Good ds cs) (hc : C cs)
    (h : cSource pushAsset (.account e od) cs = .ok ((accs, fb), cs')) :
    SrcCode ds env asset (.account e od) cs cs' fb := by
  obtain ⟨hte, htx⟩ := checkSource_account_inv hchk
  obtain ⟨a, hev, hacc⟩ := evalAccount_of_typed henv hte
  obtain ⟨_, _, hlm⟩ := account_typed_eval henv e hte
  simp only [cSource] at h
  split at h
  · cases h
  · cases h
  · rename_i t acc cs1 hce
    obtain ⟨seg0, e0, _, _, c0⟩ := cExpr_ok ds env henv e true cs _ _ cs1 _ hce hte hg.1
    have r0 := cExpr_res ds e true cs _ _ cs1 _ hce hte hg.1 hg.2
    have g1 : Good ds cs1 := hg.ext e0 r0.inv
    have c1 : C cs1 := hC cs cs1 seg0 hc e0
    have hworld := cExpr_world hg.1 hte hce
    have haddr : AddrVal env acc (.account a) cs1 := by
      intro R resv hf hr
      obtain ⟨v, hv1, hv2⟩ := c0.addr R resv hf hr acc rfl
      rw [hlm, hev] at hv2; cases hv2; exact hv1
    cases od with
    | none =>
      dsimp only at h
      rw [hworld] at h
      split at h
      · cases h
      · rename_i cs2 hseq
        cases h
        by_cases hw : e.isWorld = true
        · simp only [hw, if_true] at hseq ⊢
          obtain ⟨seg1, e1, g2, r⟩ := (Sim.seq hC hpa (Sim.seq hC (sim_pushInteger ds env C 0)
            (Sim.seq hC (sim_emitOp ds env C OP_MONETARY_NEW)
            (Sim.single hC (sim_emitOp ds env C OP_TAKE_ALWAYS))))).ok cs1 _ g1 c1 hseq
          refine ⟨seg0 ++ seg1, e0.trans e1, g2, ?_, ?_⟩
          · simp only [Source.fallback, hw, if_true, FbOK]
            exact ⟨a, hacc, AddrVal.stable env acc _ cs1 _ seg1 haddr e1⟩
          · intro R resv hf hr stk st
            rw [src_leaf_run c0 hev e1 r R resv hf hr]
            simp [Kl.comp, pushK, opK_MONETARY_NEW, opK_TAKE_ALWAYS, needAmt, srcK, evalSource, hacc, hw]
        · have hw' : e.isWorld = false := by simpa using hw
          simp only [hw', Bool.false_eq_true, if_false] at hseq ⊢
          obtain ⟨seg1, e1, g2, r⟩ := (Sim.seq hC hpa (Sim.seq hC (sim_pushInteger ds env C 0)
            (Sim.seq hC (sim_emitOp ds env C OP_MONETARY_NEW)
            (Sim.single hC (sim_emitOp ds env C OP_TAKE_ALL))))).ok cs1 _ g1 c1 hseq
          refine ⟨seg0 ++ seg1, e0.trans e1, g2, ?_, ?_⟩
          · simp [Source.fallback, hw', FbOK]
          · intro R resv hf hr stk st
            rw [src_leaf_run c0 hev e1 r R resv hf hr]
            simp only [Kl.comp, pushK, opK_MONETARY_NEW, opK_TAKE_ALL, srcK, evalSource, hacc, hw',
              Bool.false_eq_true, if_false]
            cases withdrawAll st.bal a asset (some 0) with
            | error err => rfl
            | ok p => rfl
    | upTo x =>
      dsimp only at h
      split at h
      · cases h
      · rename_i cs2 hseq
        cases h
        have htx' := htx x rfl
        obtain ⟨seg1, e1, g2, r⟩ := (Sim.seq hC (sim_pushExpr henv C htx')
          (Sim.seq hC hpa (Sim.seq hC (sim_pushInteger ds env C 0)
          (Sim.seq hC (sim_emitOp ds env C OP_MONETARY_NEW)
          (Sim.seq hC (sim_emitOp ds env C OP_MONETARY_ADD)
          (Sim.single hC (sim_emitOp ds env C OP_TAKE_ALL))))))).ok cs1 _ g1 c1 hseq
        refine ⟨seg0 ++ seg1, e0.trans e1, g2, ?_, ?_⟩
        · simp [Source.fallback, FbOK]
        · intro R resv hf hr stk st
          rw [src_leaf_run c0 hev e1 r R resv hf hr]
          simp only [Kl.comp, exprK_monetary henv htx', srcK, evalSource, hacc]
          cases evalMonetary env x with
          | error err => rfl
          | ok m =>
            obtain ⟨oa, ov⟩ := m
            simp only [pushK, opK_MONETARY_NEW, opK_MONETARY_ADD, checkOverdraft, Cfg.fixed, if_true]
            by_cases hoa : oa = asset
            · simp only [hoa, ne_eq, not_true_eq_false, if_false, opK_TAKE_ALL]
              cases withdrawAll st.bal a asset (some (nilAsZero ov + nilAsZero (some 0))) with
              | error err => rfl
              | ok p => rfl
            · simp [hoa]
    | unbounded =>
      dsimp only at h
      split at h
      · cases h
      · rename_i cs2 hseq
        cases h
        obtain ⟨seg1, e1, g2, r⟩ := (Sim.seq hC hpa (Sim.seq hC (sim_pushInteger ds env C 0)
          (Sim.seq hC (sim_emitOp ds env C OP_MONETARY_NEW)
          (Sim.single hC (sim_emitOp ds env C OP_TAKE_ALWAYS))))).ok cs1 _ g1 c1 hseq
        refine ⟨seg0 ++ seg1, e0.trans e1, g2, ?_, ?_⟩
        · simp only [Source.fallback, FbOK]
          exact ⟨a, hacc, AddrVal.stable env acc _ cs1 _ seg1 haddr e1⟩
        · intro R resv hf hr stk st
          rw [src_leaf_run c0 hev e1 r R resv hf hr]
          simp [Kl.comp, pushK, opK_MONETARY_NEW, opK_TAKE_ALWAYS, needAmt, srcK, evalSource, hacc]

end Ledger.Machine
