import Ledger.Proofs.CtrlSpec

/-!
Which accounts the reference reading of a journal lists: exactly those some log
involves.
-/
namespace Ledger.Ctrl
open Ledger.Base Ledger.Core

/-- The log names the account: a committed transaction with it as source,
    destination or account-metadata key, or a metadata save on it. -/
def Log.involves (l : Log) (a : String) : Prop :=
  match l.payload with
  | .created tx am => a ∈ accountsToUpsert tx.postings am
  | .savedMeta (.account b) _ => a = b
  | _ => False

theorem isSome_insert {ν : Type} (m : Map String ν) (k a : String) (v : ν) :
    ((m.insert k v).get? a).isSome = true ↔ a = k ∨ (m.get? a).isSome = true := by
  by_cases h : a = k
  · subst h; simp [get?_insert_self]
  · rw [get?_insert_ne _ _ _ _ h]; simp [h]

theorem specTouch_listed (schemas : List Schema) (v : String) (ts ins : Time) (acc : Map String AccSpec)
    (b : String) (m : Meta) (a : String) :
    ((specTouch schemas v ts ins acc b m).get? a).isSome = true ↔ a = b ∨ (acc.get? a).isSome = true := by
  unfold specTouch
  cases hb : acc.get? b with
  | none => exact isSome_insert _ _ _ _
  | some x =>
    simp only
    split
    · exact isSome_insert _ _ _ _
    · constructor
      · exact Or.inr
      · rintro (rfl | h)
        · rw [hb]; rfl
        · exact h

theorem specSave_listed (schemas : List Schema) (v : String) (date : Time) (acc : Map String AccSpec)
    (b : String) (m : Meta) (a : String) :
    ((specSave schemas v date acc b m).get? a).isSome = true ↔ a = b ∨ (acc.get? a).isSome = true := by
  unfold specSave
  cases hb : acc.get? b with
  | none => exact isSome_insert _ _ _ _
  | some x =>
    simp only
    split
    · constructor
      · exact Or.inr
      · rintro (rfl | h)
        · rw [hb]; rfl
        · exact h
    · exact isSome_insert _ _ _ _

theorem touchFold_listed (schemas : List Schema) (v : String) (ts ins : Time) (am : Map String Meta)
    (addrs : List String) (acc : Map String AccSpec) (a : String) :
    ((addrs.foldl (fun acc b => specTouch schemas v ts ins acc b (match am.get? b with | some m => m | none => []))
        acc).get? a).isSome = true ↔ a ∈ addrs ∨ (acc.get? a).isSome = true := by
  induction addrs generalizing acc with
  | nil => simp
  | cons b r ih =>
    simp only [List.foldl_cons, List.mem_cons]
    rw [ih, specTouch_listed]
    constructor
    · rintro (h | h | h)
      · exact Or.inl (Or.inr h)
      · exact Or.inl (Or.inl h)
      · exact Or.inr h
    · rintro ((h | h) | h)
      · exact Or.inr (Or.inl h)
      · exact Or.inl h
      · exact Or.inr (Or.inr h)

theorem specStep_listed (st : SpecSt) (l : Log) (a : String) :
    ((specStep st l).accounts.get? a).isSome = true ↔ l.involves a ∨ (st.accounts.get? a).isSome = true := by
  unfold specStep Log.involves
  cases hp : l.payload with
  | insertedSchema s => simp
  | created tx am => simp only; exact touchFold_listed _ _ _ _ _ _ _ _
  | reverted orig rev => simp
  | savedMeta t m =>
    cases t with
    | account b => simp only; exact specSave_listed _ _ _ _ _ _ _
    | transaction id => simp
  | deletedMeta t key =>
    cases t with
    | transaction id => simp
    | account b =>
      simp only [false_or]
      cases hb : st.accounts.get? b with
      | none => simp
      | some x =>
        simp only
        rw [isSome_insert]
        constructor
        · rintro (rfl | h)
          · rw [hb]; rfl
          · exact h
        · exact Or.inr

theorem foldl_listed (logs : List Log) (st : SpecSt) (a : String) :
    (((logs.foldl specStep st).accounts.get? a).isSome = true) ↔
      (∃ l ∈ logs, l.involves a) ∨ (st.accounts.get? a).isSome = true := by
  induction logs generalizing st with
  | nil => simp
  | cons l r ih =>
    simp only [List.foldl_cons, List.mem_cons]
    rw [ih, specStep_listed]
    constructor
    · rintro (⟨x, hx, hi⟩ | h | h)
      · exact Or.inl ⟨x, Or.inr hx, hi⟩
      · exact Or.inl ⟨l, Or.inl rfl, h⟩
      · exact Or.inr h
    · rintro (⟨x, hx | hx, hi⟩ | h)
      · subst hx; exact Or.inr (Or.inl hi)
      · exact Or.inl ⟨x, hx, hi⟩
      · exact Or.inr (Or.inr h)

/-- The reference reading lists exactly the accounts some log involves. -/
theorem specOf_listed (logs : List Log) (a : String) :
    ((specOf logs).accounts.get? a).isSome = true ↔ ∃ l ∈ logs, l.involves a := by
  unfold specOf
  rw [foldl_listed]
  simp [Map.get?]

/-- `projAccounts` lists what the table lists. -/
theorem projAccounts_listed (d : Db) (a : String) :
    ((projAccounts d).get? a).isSome = (d.accounts.get? a).isSome := by
  rw [projAccounts_eq, get?_map]
  cases d.accounts.get? a <;> rfl

end Ledger.Ctrl
