import Ledger.Proofs.MachineBC5

/-! Stage (f), part 6: a small simulation framework for compile steps (`Act`) —
    each step emits a code segment whose execution by the VM model is a known stack /
    state transformer — with sequencing, and the primitive steps. -/
namespace Ledger.Machine

/-- Stack/state transformers of code segments. -/
abbrev Kl := Stack → State → Except Err (Stack × State)

def Kl.comp (f g : Kl) : Kl := fun stk st =>
  match f stk st with
  | .error e => .error e
  | .ok (s1, t1) => g s1 t1

def Kl.id : Kl := fun stk st => .ok (stk, st)

/-- Compile-state invariants needed by every step. -/
def Good (ds : Decls) (cs : CS) : Prop := VarsInv ds cs ∧ ResInv ds cs.res

theorem Good.ext {ds : Decls} {cs cs' : CS} {seg : List Instr} (h : Good ds cs) (he : Ext cs cs' seg)
    (hr : ResInv ds cs'.res) : Good ds cs' := ⟨h.1.ext he, hr⟩

/-- A predicate on compile states that survives extensions (e.g. "address `a` resolves to
    value `v` in every final table"). -/
def Stable (C : CS → Prop) : Prop := ∀ cs cs' seg, C cs → Ext cs cs' seg → C cs'

/-- "In every resolved final table extending `cs`, address `a` holds `v`." -/
def AddrVal (env : Env) (a : Nat) (v : Value) (cs : CS) : Prop :=
  ∀ R resv, Final cs R → Resolved env R resv → resv[a]? = some v

theorem AddrVal.stable (env : Env) (a : Nat) (v : Value) : Stable (AddrVal env a v) := by
  intro cs cs' seg h he R resv hf hr
  exact h R resv (Final.of_ext he hf) hr

theorem Stable.and {C D : CS → Prop} (hc : Stable C) (hd : Stable D) : Stable (fun cs => C cs ∧ D cs) :=
  fun cs cs' seg h he => ⟨hc cs cs' seg h.1 he, hd cs cs' seg h.2 he⟩

theorem Stable.true : Stable (fun _ => True) := fun _ _ _ _ _ => trivial

/-- `a` simulates `f` on stacks satisfying `P`, from compile states satisfying `C`. -/
structure Sim (ds : Decls) (env : Env) (C : CS → Prop) (a : Act) (P : Stack → Prop) (f : Kl) : Prop where
  ok : ∀ cs cs', Good ds cs → C cs → a cs = .ok cs' →
    ∃ seg, Ext cs cs' seg ∧ Good ds cs' ∧
      ∀ R resv, Final cs' R → Resolved env R resv → ∀ stk st, P stk → runSeg resv seg stk st = f stk st

theorem Sim.weaken {ds : Decls} {env : Env} {C : CS → Prop} {a : Act} {P Q : Stack → Prop} {f : Kl}
    (h : Sim ds env C a P f) (hq : ∀ s, Q s → P s) : Sim ds env C a Q f :=
  ⟨fun cs cs' hg hc ha => by
    obtain ⟨seg, e, g, r⟩ := h.ok cs cs' hg hc ha
    exact ⟨seg, e, g, fun R resv hf hr stk st hs => r R resv hf hr stk st (hq stk hs)⟩⟩

theorem Sim.congr {ds : Decls} {env : Env} {C : CS → Prop} {a : Act} {P : Stack → Prop} {f g : Kl}
    (h : Sim ds env C a P f) (hfg : ∀ stk st, P stk → f stk st = g stk st) : Sim ds env C a P g :=
  ⟨fun cs cs' hg hc ha => by
    obtain ⟨seg, e, gd, r⟩ := h.ok cs cs' hg hc ha
    exact ⟨seg, e, gd, fun R resv hf hr stk st hs => by rw [r R resv hf hr stk st hs, hfg stk st hs]⟩⟩

theorem Sim.strengthen {ds : Decls} {env : Env} {C D : CS → Prop} {a : Act} {P : Stack → Prop} {f : Kl}
    (h : Sim ds env C a P f) (hd : ∀ cs, D cs → C cs) : Sim ds env D a P f :=
  ⟨fun cs cs' hg hc ha => h.ok cs cs' hg (hd cs hc) ha⟩

theorem Sim.nil (ds : Decls) (env : Env) (C : CS → Prop) : Sim ds env C (seqA []) (fun _ => True) Kl.id :=
  ⟨fun cs cs' hg _ ha => by
    have := seqA_nil ha; subst this
    exact ⟨[], Ext.refl _, hg, fun _ _ _ _ _ _ _ => rfl⟩⟩

/-- Sequencing: the head step, then the rest. `Q` must hold of what `f` leaves. -/
theorem Sim.cons {ds : Decls} {env : Env} {C : CS → Prop} (hC : Stable C) {a : Act} {as : List Act}
    {P Q : Stack → Prop} {f g : Kl} (h1 : Sim ds env C a P f) (h2 : Sim ds env C (seqA as) Q g)
    (hpost : ∀ stk st s1 t1, P stk → f stk st = .ok (s1, t1) → Q s1) :
    Sim ds env C (seqA (a :: as)) P (f.comp g) :=
  ⟨fun cs cs' hg hc ha => by
    obtain ⟨cs1, ha1, ha2⟩ := seqA_cons ha
    obtain ⟨s1, e1, g1, r1⟩ := h1.ok cs cs1 hg hc ha1
    obtain ⟨s2, e2, g2, r2⟩ := h2.ok cs1 cs' g1 (hC cs cs1 s1 hc e1) ha2
    refine ⟨s1 ++ s2, e1.trans e2, g2, ?_⟩
    intro R resv hf hr stk st hs
    rw [runSeg_append, r1 R resv (Final.of_ext e2 hf) hr stk st hs]
    simp only [Kl.comp]
    cases hfs : f stk st with
    | error e => rfl
    | ok r =>
      obtain ⟨x1, t1⟩ := r
      exact r2 R resv hf hr x1 t1 (hpost stk st x1 t1 hs hfs)⟩

/-- A single step as a one-element sequence. -/
theorem Sim.single {ds : Decls} {env : Env} {C : CS → Prop} (hC : Stable C) {a : Act}
    {P : Stack → Prop} {f : Kl} (h : Sim ds env C a P f) : Sim ds env C (seqA [a]) P f := by
  have := Sim.cons hC h (Sim.nil ds env C) (fun _ _ _ _ _ _ => trivial)
  refine this.congr ?_
  intro stk st _
  simp only [Kl.comp, Kl.id]
  cases f stk st with
  | error e => rfl
  | ok r => rfl

/-! ### Primitive steps -/

/-- The effect of a plain opcode (independent of the resource table). -/
def opK (c : Nat) : Kl := fun stk st => step [] (.op c) stk st

theorem step_op_resv (resv : List Value) (c : Nat) (stk : Stack) (st : State) :
    step resv (.op c) stk st = step [] (.op c) stk st := rfl

theorem sim_emitOp (ds : Decls) (env : Env) (C : CS → Prop) (c : Nat) :
    Sim ds env C (emitOp c) (fun _ => True) (opK c) :=
  ⟨fun cs cs' hg _ ha => by
    obtain ⟨s1, r1⟩ := emitOp_ok ha
    refine ⟨_, s1.ext, hg.ext s1.ext (by rw [r1]; exact hg.2), ?_⟩
    intro R resv _ _ stk st _
    simp only [runSeg, opK, step_op_resv resv c]
    cases step [] (.op c) stk st with
    | error e => rfl
    | ok r => rfl⟩

def pushK (v : Value) : Kl := fun stk st => .ok (.val v :: stk, st)

theorem sim_pushConst (ds : Decls) (env : Env) (C : CS → Prop) (c : CValue) :
    Sim ds env C (pushConst c) (fun _ => True) (pushK (cvalue c)) :=
  ⟨fun cs cs' hg _ ha => by
    obtain ⟨a, s1, hk⟩ := pushConst_ok ha
    refine ⟨_, s1.ext, hg.ext s1.ext (pushConst_res hg.2 ha), ?_⟩
    intro R resv hf hr stk st _
    exact runSeg_apush (hr.const (hf.get hk)) stk st⟩

theorem sim_pushInteger (ds : Decls) (env : Env) (C : CS → Prop) (n : Int) :
    Sim ds env C (pushInteger n) (fun _ => True) (pushK (.number n)) :=
  sim_pushConst ds env C (.number n)

/-- Pushing an address whose value is known. -/
theorem sim_emitPush (ds : Decls) (env : Env) (a : Nat) (v : Value) :
    Sim ds env (AddrVal env a v) (emitPush a) (fun _ => True) (pushK v) :=
  ⟨fun cs cs' hg hc ha => by
    obtain ⟨s1, r1⟩ := emitPush_ok ha
    refine ⟨_, s1.ext, hg.ext s1.ext (by rw [r1]; exact hg.2), ?_⟩
    intro R resv hf hr stk st _
    exact runSeg_apush (hc R resv (Final.of_ext s1.ext hf) hr) stk st⟩

/-- The code of a typed expression pushes its value (or fails like `evalExpr`). -/
def exprK (env : Env) (e : Expr) : Kl := fun stk st =>
  match evalExpr env e with
  | .ok v => .ok (.val v :: stk, st)
  | .error err => .error err

theorem sim_pushExpr {ds : Decls} {env : Env} (henv : EnvTyped ds env) (C : CS → Prop) {e : Expr} {ty : Ty}
    (ht : typeExpr ds e = .ok ty) : Sim ds env C (pushExpr e) (fun _ => True) (exprK env e) :=
  ⟨fun cs cs' hg _ ha => by
    obtain ⟨seg, oa, s1, c1⟩ := pushExpr_ok henv ht hg.1 ha
    refine ⟨seg, s1.ext, hg.ext s1.ext (pushExpr_res ht hg.1 hg.2 ha), ?_⟩
    intro R resv hf hr stk st _
    exact c1.run R resv hf hr rfl stk st⟩

/-- `BUMP n`: the element `n` below the top moves to the top. -/
def bumpK (n : Nat) : Kl := fun stk st =>
  match stk[n]? with
  | some v => .ok (v :: stk.eraseIdx n, st)
  | none => .error (.fault "bump index")

theorem sim_bump (ds : Decls) (env : Env) (C : CS → Prop) (hC : Stable C) (n : Nat) :
    Sim ds env C (bump n) (fun _ => True) (bumpK n) := by
  have h := Sim.cons hC (sim_pushInteger ds env C n) (Sim.single hC (sim_emitOp ds env C OP_BUMP))
    (fun _ _ _ _ _ _ => trivial)
  refine h.congr ?_
  intro stk st _
  simp only [Kl.comp, pushK, opK, step, bumpK, OP_BUMP, if_true, popNumber]
  have : ¬ ((n : Int) < 0) := by omega
  simp only [this, if_false, Int.toNat_natCast]
  cases stk[n]? with
  | none => rfl
  | some v => rfl

end Ledger.Machine
