import Ledger.Proofs.SqlMovesStmt

/-!
# The pure model of `INSERT INTO moves` (with its triggers) against `Ledger.Spec.insertMoves`
-/
open Ledger Ledger.Sql Ledger.Generated Ledger.Core
namespace Ledger.Sql
open Ledger.Spec

/-- `Spec.prevMove` does not depend on the order of the table when sequence numbers are distinct -/
theorem prevMove_perm {T T' : List Spec.MoveRow} (hp : T.Perm T') (hnd : (T.map (·.seq)).Nodup) (n : Spec.MoveRow) :
    prevMove T n = prevMove T' n := by
  cases h : prevMove T n with
  | none =>
    cases h' : prevMove T' n with
    | none => rfl
    | some p' =>
      obtain ⟨h1, h2, h3, _⟩ := prevMove_some h'
      exact absurd ⟨h2, h3⟩ (prevMove_none h p' ((hp.mem_iff).mpr h1))
  | some p =>
    obtain ⟨h1, h2, h3, h4⟩ := prevMove_some h
    cases h' : prevMove T' n with
    | none => exact absurd ⟨h2, h3⟩ (prevMove_none h' p ((hp.mem_iff).mp h1))
    | some p' =>
      obtain ⟨g1, g2, g3, g4⟩ := prevMove_some h'
      have a := h4 p' ((hp.mem_iff).mpr g1) g2 g3
      have c := g4 p ((hp.mem_iff).mp h1) h2 h3
      rw [notAfter_iff] at a c
      have hs : p.seq = p'.seq := by omega
      have := nodup_map_inj (fun q : Spec.MoveRow => q.seq) T hnd p h1 p' ((hp.mem_iff).mpr g1) hs
      rw [this]

theorem withPcev_eq_setEffective (tbl : List (String × Spec.MoveRow)) (ln : String) (m : Spec.MoveRow) :
    withPcev tbl ln m = setEffective (ledgerMoves ln tbl) m := by
  unfold withPcev setEffective pcevOf
  cases prevMove (ledgerMoves ln tbl) m <;> rfl

theorem ledgerMoves_cons_same (ln : String) (m : Spec.MoveRow) (tbl : List (String × Spec.MoveRow)) :
    ledgerMoves ln ((ln, m) :: tbl) = m :: ledgerMoves ln tbl := by
  simp [ledgerMoves]

theorem ledgerMoves_cons_ne (l ln : String) (hne : l ≠ ln) (m : Spec.MoveRow) (tbl : List (String × Spec.MoveRow)) :
    ledgerMoves l ((ln, m) :: tbl) = ledgerMoves l tbl := by
  have : decide (ln = l) = false := by simpa using fun e => hne e.symm
  simp [ledgerMoves, List.filter_cons, this]

/-- phase 1 (the inserts with their BEFORE triggers): the rows as inserted are `Spec.insertedRows` -/
theorem insNew_eq_insertedRows (ln : String) : ∀ (ms : List Spec.MoveRow) (tbl : List (String × Spec.MoveRow)) (T : List Spec.MoveRow) (v : Int),
    T.Perm (ledgerMoves ln tbl) → (T.map (·.seq)).Nodup → (∀ q ∈ T, (q.seq : Int) < v) → SeqFrom v ms →
    insNew ln tbl ms = insertedRows T ms := by
  intro ms
  induction ms with
  | nil => intro _ _ _ _ _ _ _; rfl
  | cons m ms ih =>
    intro tbl T v hp hnd hlt hsf
    obtain ⟨hseq, hsf'⟩ := hsf
    have he : withPcev tbl ln m = setEffective T m := by
      rw [withPcev_eq_setEffective]
      unfold setEffective
      rw [prevMove_perm hp hnd m]
    simp only [insNew, insertedRows, he]
    congr 1
    have hs : (setEffective T m).seq = m.seq := rfl
    apply ih _ (T ++ [setEffective T m]) (v + 1)
    · rw [ledgerMoves_cons_same]
      exact (List.perm_append_singleton _ _).trans (List.Perm.cons _ hp)
    · rw [List.map_append, List.nodup_append]
      refine ⟨hnd, by simp, ?_⟩
      intro a ha c hc
      simp only [List.map_cons, List.map_nil, List.mem_singleton] at hc
      obtain ⟨q, hq, rfl⟩ := List.mem_map.mp ha
      have := hlt q hq
      rw [hc, hs]
      omega
    · intro q hq
      rcases List.mem_append.mp hq with hq | hq
      · have := hlt q hq; omega
      · simp only [List.mem_singleton] at hq
        rw [hq, hs]; omega
    · exact hsf'

theorem ledgerMoves_insTbl (ln : String) : ∀ (ms : List Spec.MoveRow) (tbl : List (String × Spec.MoveRow)),
    ledgerMoves ln (insTbl ln tbl ms) = (insNew ln tbl ms).reverse ++ ledgerMoves ln tbl := by
  intro ms
  induction ms with
  | nil => intro tbl; simp [insTbl, insNew]
  | cons m ms ih =>
    intro tbl
    simp only [insTbl, insNew, ih, ledgerMoves_cons_same, List.reverse_cons, List.append_assoc, List.singleton_append]

theorem ledgerMoves_insTbl_ne (l ln : String) (hne : l ≠ ln) : ∀ (ms : List Spec.MoveRow) (tbl : List (String × Spec.MoveRow)),
    ledgerMoves l (insTbl ln tbl ms) = ledgerMoves l tbl := by
  intro ms
  induction ms with
  | nil => intro tbl; rfl
  | cons m ms ih =>
    intro tbl
    simp only [insTbl, ih, ledgerMoves_cons_ne l ln hne]

end Ledger.Sql

namespace Ledger.Sql
open Ledger.Spec

/-- `update_effective_volumes` for NEW = `n` of ledger `ln`, on a typed row -/
def bumpP (ln : String) (n : Spec.MoveRow) (p : String × Spec.MoveRow) : String × Spec.MoveRow :=
  if bumpCond ln n p then (p.1, bumpRow n p.2) else p

theorem bumpP_fst (ln : String) (n : Spec.MoveRow) (p : String × Spec.MoveRow) : (bumpP ln n p).1 = p.1 := by
  unfold bumpP; split <;> rfl

theorem bumpP_same (ln : String) (n m : Spec.MoveRow) : bumpP ln n (ln, m) = (ln, bump n m) := by
  unfold bumpP bumpCond bump bumpRow
  simp only [Spec.MoveRow.key, Prod.mk.injEq]
  by_cases h : (m.account = n.account ∧ m.asset = n.asset) ∧ n.effectiveDate < m.effectiveDate
  · have h' : m.account = n.account ∧ m.asset = n.asset ∧ ln = ln ∧ n.effectiveDate < m.effectiveDate := ⟨h.1.1, h.1.2, rfl, h.2⟩
    simp [h, h']
  · have h' : ¬ (m.account = n.account ∧ m.asset = n.asset ∧ ln = ln ∧ n.effectiveDate < m.effectiveDate) :=
      fun ⟨a, c, _, d⟩ => h ⟨⟨a, c⟩, d⟩
    rw [if_neg h]
    simp only [decide_eq_true_eq]
    rw [if_neg (by simpa using h')]

theorem bumpP_ne (ln : String) (n : Spec.MoveRow) (p : String × Spec.MoveRow) (hne : p.1 ≠ ln) : bumpP ln n p = p := by
  unfold bumpP bumpCond
  have : ¬ (p.2.account = n.account ∧ p.2.asset = n.asset ∧ p.1 = ln ∧ n.effectiveDate < p.2.effectiveDate) := fun ⟨_, _, c, _⟩ => hne c
  simp [this]

theorem ledgerMoves_map_bumpP (ln : String) (n : Spec.MoveRow) (tbl : List (String × Spec.MoveRow)) :
    ledgerMoves ln (tbl.map (bumpP ln n)) = (ledgerMoves ln tbl).map (bump n) := by
  induction tbl with
  | nil => rfl
  | cons p ps ih =>
    obtain ⟨l, m⟩ := p
    by_cases hl : l = ln
    · subst hl
      rw [List.map_cons, bumpP_same, ledgerMoves_cons_same, ledgerMoves_cons_same, List.map_cons, ih]
    · rw [List.map_cons, bumpP_ne ln n (l, m) hl, ledgerMoves_cons_ne ln l (fun e => hl e.symm), ledgerMoves_cons_ne ln l (fun e => hl e.symm), ih]

theorem ledgerMoves_map_bumpP_ne (l ln : String) (hne : l ≠ ln) (n : Spec.MoveRow) (tbl : List (String × Spec.MoveRow)) :
    ledgerMoves l (tbl.map (bumpP ln n)) = ledgerMoves l tbl := by
  induction tbl with
  | nil => rfl
  | cons p ps ih =>
    obtain ⟨l', m⟩ := p
    by_cases hl : l' = ln
    · subst hl
      rw [List.map_cons, bumpP_same, ledgerMoves_cons_ne l l' hne, ledgerMoves_cons_ne l l' hne, ih]
    · rw [List.map_cons, bumpP_ne ln n (l', m) hl]
      by_cases hl2 : l' = l
      · subst hl2; rw [ledgerMoves_cons_same, ledgerMoves_cons_same, ih]
      · rw [ledgerMoves_cons_ne l l' (fun e => hl2 e.symm), ledgerMoves_cons_ne l l' (fun e => hl2 e.symm), ih]

/-- phase 2 on typed tables -/
def drainTbl (ln : String) (tbl : List (String × Spec.MoveRow)) (news : List Spec.MoveRow) : List (String × Spec.MoveRow) :=
  news.foldl (fun t n => t.map (bumpP ln n)) tbl

theorem ledgerMoves_drainTbl (ln : String) : ∀ (news : List Spec.MoveRow) (tbl : List (String × Spec.MoveRow)),
    ledgerMoves ln (drainTbl ln tbl news) = (ledgerMoves ln tbl).map (bumpAll news) := by
  intro news
  induction news with
  | nil =>
    intro tbl
    have : bumpAll [] = id := rfl
    rw [this, List.map_id]; rfl
  | cons n ns ih =>
    intro tbl
    have := ih (tbl.map (bumpP ln n))
    simp only [drainTbl, List.foldl_cons] at this ⊢
    rw [this, ledgerMoves_map_bumpP, List.map_map]
    rfl

theorem ledgerMoves_drainTbl_ne (l ln : String) (hne : l ≠ ln) : ∀ (news : List Spec.MoveRow) (tbl : List (String × Spec.MoveRow)),
    ledgerMoves l (drainTbl ln tbl news) = ledgerMoves l tbl := by
  intro news
  induction news with
  | nil => intro tbl; rfl
  | cons n ns ih =>
    intro tbl
    have := ih (tbl.map (bumpP ln n))
    simp only [drainTbl, List.foldl_cons] at this ⊢
    rw [this, ledgerMoves_map_bumpP_ne l ln hne]

/-- the pure model of the statement against `Spec.insertMoves`, for the ledger of the statement -/
theorem drain_ins_eq_insertMoves (ln : String) (ms : List Spec.MoveRow) (tbl : List (String × Spec.MoveRow)) (T : List Spec.MoveRow) (v : Int)
    (hp : T.Perm (ledgerMoves ln tbl)) (hnd : (T.map (·.seq)).Nodup) (hlt : ∀ q ∈ T, (q.seq : Int) < v) (hsf : SeqFrom v ms) :
    (ledgerMoves ln (drainTbl ln (insTbl ln tbl ms) (insNew ln tbl ms))).Perm (insertMoves T ms) := by
  have hnew := insNew_eq_insertedRows ln ms tbl T v hp hnd hlt hsf
  rw [ledgerMoves_drainTbl, ledgerMoves_insTbl, hnew]
  unfold insertMoves
  rw [insertPhase2_eq, insertPhase1_eq]
  apply List.Perm.map
  exact (List.perm_append_comm.trans (List.Perm.append hp.symm (List.reverse_perm _)))

end Ledger.Sql

namespace Ledger.Sql
open Ledger.Spec

theorem filterMap_mvDec_map (tbl : List (String × Spec.MoveRow)) : (tbl.map (fun p => mvVals p.1 p.2)).filterMap mvDec = tbl := by
  induction tbl with
  | nil => rfl
  | cons p ps ih => simp [List.filterMap_cons, mvDec_mvVals, ih]

theorem mvAbs_of_view {lv : View} {rows : List Ver} {tbl : List (String × Spec.MoveRow)} (h : MvView lv rows tbl) : mvAbs lv rows = tbl := by
  unfold mvAbs
  unfold MvView at h
  rw [h, filterMap_mvDec_map]

/-- what the transaction sees of `moves` after `update_effective_volumes` ran for NEW = `n` -/
theorem mvAbs_bumpRows (w : World) (xid c : Nat) (hx : xid ≠ 0) (hc : c < 1000000000) (ln : String) (n : Spec.MoveRow) (bound : Int)
    (rows : List Ver) (hinv : MvInv (latestView w xid) bound rows) :
    (mvAbs (latestView w xid) (bumpRows (latestView w xid) xid c ln n rows)).Perm ((mvAbs (latestView w xid) rows).map (bumpP ln n)) := by
  have hperm := (visible_updRun_all w xid c hx hc (mvG ln n) (mvF n) rows hinv.ridNodup).map (·.2)
  simp only [List.map_map] at hperm
  have hview := MvView_mvAbs (latestView w xid) bound rows hinv.all
  unfold MvView at hview
  have hrhs : (rows.filter (fun q => q.visible (latestView w xid))).map
      ((fun x : Nat × List Value => x.2) ∘ fun q => (q.rid, if mvG ln n q.vals then mvF n q.vals else q.vals)) =
      ((mvAbs (latestView w xid) rows).map (bumpP ln n)).map (fun p => mvVals p.1 p.2) := by
    have e : ((fun x : Nat × List Value => x.2) ∘ fun q : Ver => (q.rid, if mvG ln n q.vals then mvF n q.vals else q.vals)) =
        (fun v => if mvG ln n v then mvF n v else v) ∘ (fun q : Ver => q.vals) := rfl
    rw [e, ← List.map_map, hview, List.map_map, List.map_map]
    apply List.map_congr_left
    intro p _
    simp only [Function.comp, mvG_mvVals, mvF_mvVals, bumpP]
    split <;> rfl
  rw [hrhs] at hperm
  have hlhs : (((updRun (latestView w xid) xid c (mvG ln n) (mvF n) rows (rows.filter (fun q => q.visible (latestView w xid))).reverse).filter
      (fun q => q.visible (latestView w xid))).map ((fun x : Nat × List Value => x.2) ∘ fun q => (q.rid, q.vals))) =
      ((bumpRows (latestView w xid) xid c ln n rows).filter (fun q => q.visible (latestView w xid))).map (·.vals) := rfl
  rw [hlhs] at hperm
  have := hperm.filterMap mvDec
  rw [filterMap_mvDec_map] at this
  exact this

theorem drainTbl_perm (ln : String) : ∀ (news : List Spec.MoveRow) (t t' : List (String × Spec.MoveRow)), t.Perm t' →
    (drainTbl ln t news).Perm (drainTbl ln t' news) := by
  intro news
  induction news with
  | nil => intro t t' h; exact h
  | cons n ns ih =>
    intro t t' h
    exact ih _ _ (h.map _)

theorem mvAbs_drainRows (w : World) (xid : Nat) (hx : xid ≠ 0) (b : String) (trigs : List TriggerDef) (nr : Nat) (ln : String) (bound : Int) :
    ∀ (news : List Spec.MoveRow) (c : Nat) (rows : List Ver), c + 2 * news.length ≤ 1000000000 → MvInv (latestView w xid) bound rows →
      (mvAbs (latestView w xid) (drainRows (latestView w xid) xid ln c rows news)).Perm (drainTbl ln (mvAbs (latestView w xid) rows) news) ∧
      MvInv (latestView w xid) bound (drainRows (latestView w xid) xid ln c rows news) := by
  intro news
  induction news with
  | nil => intro c rows _ h; exact ⟨List.Perm.refl _, h⟩
  | cons n ns ih =>
    intro c rows hc hinv
    simp only [List.length_cons] at hc
    have hinv' := MvInv_bumpRows w xid c hx (by omega) b trigs nr ln n bound rows hinv
    obtain ⟨h1, h2⟩ := ih (c + 2) _ (by omega) hinv'
    refine ⟨?_, h2⟩
    simp only [drainRows]
    refine h1.trans ?_
    have := mvAbs_bumpRows w xid c hx (by omega) ln n bound rows hinv
    exact drainTbl_perm ln ns _ _ this

end Ledger.Sql

namespace Ledger.Sql
open Ledger.Spec

theorem rid_updStep (lv : View) (xid cid : Nat) (g : List Value → Bool) (f : List Value → List Value) (rows : List Ver) (r : Ver) (hr : r ∈ rows) :
    ∀ q ∈ updStep lv xid cid g f rows r, ∃ q0 ∈ rows, q.rid = q0.rid := by
  intro q hq
  unfold updStep at hq
  split at hq
  · simp only [List.mem_cons, List.mem_map] at hq
    rcases hq with rfl | ⟨q0, hq0, rfl⟩
    · exact ⟨r, hr, rfl⟩
    · exact ⟨q0, hq0, by simp⟩
  · exact ⟨q, hq, rfl⟩

theorem rid_updRun (lv : View) (xid cid : Nat) (g : List Value → Bool) (f : List Value → List Value) :
    ∀ (ts rows : List Ver), (∀ r ∈ ts, ∃ r0 ∈ rows, r.rid = r0.rid) → ∀ q ∈ updRun lv xid cid g f rows ts, ∃ q0 ∈ rows, q.rid = q0.rid := by
  intro ts
  induction ts with
  | nil => intro rows _ q hq; exact ⟨q, hq, rfl⟩
  | cons r rest ih =>
    intro rows hts q hq
    -- a step keeps the set of row ids, whether or not `r` itself is still in the table
    have hstep : ∀ x ∈ updStep lv xid cid g f rows r, ∃ x0 ∈ rows, x.rid = x0.rid := by
      intro x hx
      unfold updStep at hx
      split at hx
      · simp only [List.mem_cons, List.mem_map] at hx
        rcases hx with rfl | ⟨x0, hx0, rfl⟩
        · obtain ⟨r0, hr0, e⟩ := hts r (by simp)
          exact ⟨r0, hr0, e⟩
        · exact ⟨x0, hx0, by simp⟩
      · exact ⟨x, hx, rfl⟩
    have hrest : ∀ r' ∈ rest, ∃ r0 ∈ updStep lv xid cid g f rows r, r'.rid = r0.rid := by
      intro r' hr'
      obtain ⟨r0, hr0, e⟩ := hts r' (by simp [hr'])
      unfold updStep
      split
      · by_cases h : r0.rid = r.rid
        · exact ⟨newVer xid cid r.rid (f r.vals), by simp, by simp [newVer, e, h]⟩
        · exact ⟨closeRow lv xid cid r.rid r0, by simp only [List.mem_cons, List.mem_map]; right; exact ⟨r0, hr0, rfl⟩, by simp [e]⟩
      · exact ⟨r0, hr0, e⟩
    obtain ⟨q1, hq1, e1⟩ := ih _ hrest q hq
    obtain ⟨q0, hq0, e0⟩ := hstep q1 hq1
    exact ⟨q0, hq0, e1.trans e0⟩

theorem ridLt_drainRows (lv : View) (xid : Nat) (ln : String) (nr : Nat) : ∀ (news : List Spec.MoveRow) (c : Nat) (rows : List Ver),
    (∀ r ∈ rows, r.rid < nr) → ∀ r ∈ drainRows lv xid ln c rows news, r.rid < nr := by
  intro news
  induction news with
  | nil => intro c rows h; exact h
  | cons n ns ih =>
    intro c rows h
    apply ih
    intro r hr
    obtain ⟨r0, hr0, e⟩ := rid_updRun lv xid c (mvG ln n) (mvF n) _ rows
      (fun x hx => ⟨x, (List.mem_filter.mp (List.mem_reverse.mp hx)).1, rfl⟩) r hr
    rw [e]; exact h r0 hr0

theorem Fresh_drainRows (lv : View) (xid : Nat) (hx : xid ≠ 0) (ln : String) : ∀ (news : List Spec.MoveRow) (c : Nat) (rows : List Ver),
    Fresh xid c rows → Fresh xid (c + 2 * news.length) (drainRows lv xid ln c rows news) := by
  intro news
  induction news with
  | nil => intro c rows h; exact h
  | cons n ns ih =>
    intro c rows h
    have h1 : Fresh xid (c + 2) (bumpRows lv xid c ln n rows) :=
      Fresh_updRun lv xid c (c + 2) (by omega) hx _ _ _ _ (h.mono (by omega))
    have := ih (c + 2) _ h1
    simp only [List.length_cons]
    have e : c + 2 + 2 * ns.length = c + 2 * (ns.length + 1) := by omega
    rw [e] at this
    exact this

theorem find_seqsRun (full : String) : ∀ (ms : List Spec.MoveRow) (v : Int) (seqs : List Seq) (sq : Seq),
    seqs.find? (·.name == full) = some sq → ms ≠ [] →
    (seqsRun full v seqs ms).find? (·.name == full) = some { sq with last := v + ms.length - 1, called := true } := by
  intro ms
  induction ms with
  | nil => intro _ _ _ _ h; exact absurd rfl h
  | cons m ms ih =>
    intro v seqs sq hsq _
    simp only [seqsRun]
    cases ms with
    | nil =>
      simp only [seqsRun, List.length_cons, List.length_nil]
      have := find_seqsSet full v seqs sq hsq
      rw [this]
      congr 2
      omega
    | cons m2 ms2 =>
      have := ih (v + 1) (seqsSet full v seqs) { sq with last := v, called := true } (find_seqsSet full v seqs sq hsq) (by simp)
      rw [this]
      congr 2
      simp only [List.length_cons]
      omega

end Ledger.Sql

namespace Ledger.Sql
open Ledger.Spec

theorem find_seqsSet_other (full other : String) (v : Int) (h : other ≠ full) : ∀ (seqs : List Seq),
    (seqsSet full v seqs).find? (·.name == other) = seqs.find? (·.name == other) := by
  intro seqs
  induction seqs with
  | nil => rfl
  | cons x xs ih =>
    simp only [seqsSet, List.map_cons, List.find?_cons]
    by_cases hx : x.name = full
    · have h1 : (x.name == full) = true := by simpa using hx
      have h2 : (x.name == other) = false := by simpa [hx] using fun e => h e.symm
      simp only [h1, if_true, h2]
      exact ih
    · have h1 : (x.name == full) = false := by simpa using hx
      simp only [h1, Bool.false_eq_true, if_false]
      cases (x.name == other)
      · exact ih
      · rfl

theorem find_seqsRun_other (full other : String) (h : other ≠ full) : ∀ (ms : List Spec.MoveRow) (v : Int) (seqs : List Seq),
    (seqsRun full v seqs ms).find? (·.name == other) = seqs.find? (·.name == other) := by
  intro ms
  induction ms with
  | nil => intro _ _; rfl
  | cons m ms ih =>
    intro v seqs
    simp only [seqsRun]
    rw [ih, find_seqsSet_other full other v h]

/-- **`InsertMoves` refines `Spec.insertMoves`.** For ANY state satisfying the storage invariants of `moves` (`MvStmtState`), ANY
    non-empty batch of moves of ledger `ln` (literals `pm`, sequence numbers from the bucket's sequence) and ANY ordering `T` of the
    moves of ledger `ln` the transaction sees, the generated statement — run with its BEFORE / AFTER INSERT ROW triggers — returns the
    rows `Spec.insertedRows` computes and leaves a table that the transaction sees as `Spec.insertMoves T ms` (up to order) for ledger
    `ln`, unchanged for every other ledger; the storage invariants hold again. -/
theorem insertMoves_refines (p : Nat) (env : Env) (b ln : String) (trigs : List TriggerDef)
    (B1 B2 : List TriggerDef) (trB : TriggerDef) (A1 A2 : List TriggerDef) (trA : TriggerDef) (item wher dflt_ : Expr) (fB : PlFunc)
    (setE whereU : Expr) (fA : PlFunc) (nr : Nat) (rows : List Ver) (sq : Seq) (s : St)
    (hst : MvStmtState s b ln trigs B1 B2 trB A1 A2 trA item wher dflt_ fB setE whereU fA nr rows sq)
    (pm : List (WriteSql.P.MoveRow × Spec.MoveRow)) (hne : pm ≠ []) (hlits : ∀ x ∈ pm, MvLit s.w.types x.1 x.2)
    (hsf : SeqFrom sq.next (pm.map (·.2))) (hrange : sq.next + pm.length ≤ 9223372036854775808)
    (hnc : s.nextCid + 4 * pm.length ≤ 1000000000)
    (T : List Spec.MoveRow) (hT : T.Perm (ledgerMoves ln (mvAbs (latestView s.w s.xid) rows))) :
    ∃ (rows' : List Ver) (seqs' : List Seq),
      (runStmt (p + 15) env (insertMovesStmt b ln (pm.map (·.1)))).exec s =
        (.ok { rel := { cols := ["post_commit_volumes", "post_commit_effective_volumes"],
                        rows := (insertedRows T (pm.map (·.2))).map retOf },
               affected := pm.length },
         ((s.withSeqs seqs').bump (4 * pm.length)).withTable ((mvT b trigs (nr + pm.length)).withRows rows')) ∧
      (ledgerMoves ln (mvAbs (latestView s.w s.xid) rows')).Perm (insertMoves T (pm.map (·.2))) ∧
      (∀ l, l ≠ ln → (ledgerMoves l (mvAbs (latestView s.w s.xid) rows')).Perm (ledgerMoves l (mvAbs (latestView s.w s.xid) rows))) ∧
      MvInv (latestView s.w s.xid) (sq.next + pm.length) rows' ∧ Fresh s.xid (s.nextCid + 4 * pm.length) rows' ∧
      (∀ r ∈ rows', r.rid < nr + pm.length) ∧
      seqs'.find? (·.name == mvSeqFull b) = some { sq with last := sq.next + pm.length - 1, called := true } ∧
      (∀ other, other ≠ mvSeqFull b → seqs'.find? (·.name == other) = s.w.seqs.find? (·.name == other)) := by
  have hexec := exec_runStmt_insertMoves p env b ln trigs B1 B2 trB A1 A2 trA item wher dflt_ fB setE whereU fA nr rows sq s hst pm hne
    hlits hsf hrange hnc
  have hall := hst.inv.all
  have hview := MvView_mvAbs (latestView s.w s.xid) sq.next rows hall
  obtain ⟨hinv2, hlt2, hview2⟩ := insRows_inv s.w s.xid s.cid hst.tx.xid hst.tx.cid ln (pm.map (·.2)) nr rows
    (mvAbs (latestView s.w s.xid) rows) sq.next hsf hst.inv hst.ridLt hview
  have hfresh2 : Fresh s.xid (s.nextCid + 2 * pm.length) (insRows s.xid s.cid ln nr rows (mvAbs (latestView s.w s.xid) rows) (pm.map (·.2))) :=
    Fresh_insRows _ _ _ (by have := hst.cidLt; omega) hst.tx.xid ln _ _ _ _ (hst.fresh.mono (by omega))
  have hlenN : (insNew ln (mvAbs (latestView s.w s.xid) rows) (pm.map (·.2))).length = pm.length := by
    rw [insNew_length, List.length_map]
  have hlenM : (pm.map (·.2)).length = pm.length := List.length_map _
  rw [hlenM] at hinv2 hlt2
  obtain ⟨hperm3, hinv3⟩ := mvAbs_drainRows s.w s.xid hst.tx.xid b trigs (nr + pm.length) ln (sq.next + pm.length)
    (insNew ln (mvAbs (latestView s.w s.xid) rows) (pm.map (·.2))) (s.nextCid + 2 * pm.length) _ (by rw [hlenN]; omega) hinv2
  rw [mvAbs_of_view hview2] at hperm3
  -- sequence numbers of the visible moves
  have hndT : (T.map (·.seq)).Nodup := by
    have h1 : ((ledgerMoves ln (mvAbs (latestView s.w s.xid) rows)).map (·.seq)).Nodup := by
      have hs : ((mvAbs (latestView s.w s.xid) rows).map (·.2.seq)).Nodup := by
        rw [mvAbs_seqs _ _ _ hall]; exact hst.inv.seqNodup
      unfold ledgerMoves
      rw [List.map_map]
      exact ((List.filter_sublist (l := mvAbs (latestView s.w s.xid) rows)).map (fun q => q.2.seq)).nodup hs
    exact (hT.map _).nodup_iff.mpr h1
  have hltT : ∀ q ∈ T, (q.seq : Int) < sq.next := by
    intro q hq
    have := (hT.mem_iff).mp hq
    exact mvAbs_bound _ _ _ hall (ln, q) (mem_ledgerMoves.mp this)
  have hnew := insNew_eq_insertedRows ln (pm.map (·.2)) (mvAbs (latestView s.w s.xid) rows) T sq.next hT hndT hltT hsf
  refine ⟨drainRows (latestView s.w s.xid) s.xid ln (s.nextCid + 2 * pm.length)
      (insRows s.xid s.cid ln nr rows (mvAbs (latestView s.w s.xid) rows) (pm.map (·.2)))
      (insNew ln (mvAbs (latestView s.w s.xid) rows) (pm.map (·.2))),
    seqsRun (mvSeqFull b) sq.next s.w.seqs (pm.map (·.2)), ?_, ?_, ?_, hinv3, ?_, ?_, ?_, ?_⟩
  · rw [hexec, hnew]
  · have h1 : (ledgerMoves ln (mvAbs (latestView s.w s.xid) (drainRows (latestView s.w s.xid) s.xid ln (s.nextCid + 2 * pm.length)
        (insRows s.xid s.cid ln nr rows (mvAbs (latestView s.w s.xid) rows) (pm.map (·.2)))
        (insNew ln (mvAbs (latestView s.w s.xid) rows) (pm.map (·.2)))))).Perm
        (ledgerMoves ln (drainTbl ln (insTbl ln (mvAbs (latestView s.w s.xid) rows) (pm.map (·.2)))
          (insNew ln (mvAbs (latestView s.w s.xid) rows) (pm.map (·.2))))) :=
      List.Perm.map _ (List.Perm.filter _ hperm3)
    exact h1.trans (drain_ins_eq_insertMoves ln (pm.map (·.2)) (mvAbs (latestView s.w s.xid) rows) T sq.next hT hndT hltT hsf)
  · intro l hl
    have h1 : (ledgerMoves l (mvAbs (latestView s.w s.xid) (drainRows (latestView s.w s.xid) s.xid ln (s.nextCid + 2 * pm.length)
        (insRows s.xid s.cid ln nr rows (mvAbs (latestView s.w s.xid) rows) (pm.map (·.2)))
        (insNew ln (mvAbs (latestView s.w s.xid) rows) (pm.map (·.2)))))).Perm
        (ledgerMoves l (drainTbl ln (insTbl ln (mvAbs (latestView s.w s.xid) rows) (pm.map (·.2)))
          (insNew ln (mvAbs (latestView s.w s.xid) rows) (pm.map (·.2))))) :=
      List.Perm.map _ (List.Perm.filter _ hperm3)
    rw [ledgerMoves_drainTbl_ne l ln hl, ledgerMoves_insTbl_ne l ln hl] at h1
    exact h1
  · have := Fresh_drainRows (latestView s.w s.xid) s.xid hst.tx.xid ln
      (insNew ln (mvAbs (latestView s.w s.xid) rows) (pm.map (·.2))) (s.nextCid + 2 * pm.length) _ hfresh2
    rw [hlenN] at this
    have e : s.nextCid + 2 * pm.length + 2 * pm.length = s.nextCid + 4 * pm.length := by omega
    rw [e] at this
    exact this
  · exact ridLt_drainRows _ _ _ _ _ _ _ hlt2
  · have := find_seqsRun (mvSeqFull b) (pm.map (·.2)) sq.next s.w.seqs sq hst.seq (by
      intro h
      have := congrArg List.length h
      simp only [List.length_map, List.length_nil] at this
      exact hne (List.eq_nil_of_length_eq_zero this))
    rw [hlenM] at this
    exact this
  · intro other ho
    exact find_seqsRun_other (mvSeqFull b) other ho _ _ _

end Ledger.Sql
