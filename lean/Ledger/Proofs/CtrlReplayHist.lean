import Ledger.Proofs.CtrlReplay
import Ledger.Proofs.CtrlImport
import Ledger.Proofs.CtrlHist

/-!
`replay_reproduces`: for every history whose committed logs are all `logSafe`,
`Export` followed by `Import` into an empty ledger reproduces every table.
-/
namespace Ledger.Ctrl
open Ledger.Base Ledger.Core

/-- A fault-free `run` of a program that evaluates. -/
theorem eval_run_ok {α : Type} (now : Time) (hn : String) (p : Prog α) (st : RunSt) (a : α) (d' : Db) (sq' : Seqs)
    (h : eval now p st.db st.seq = some (a, d', sq')) :
    ∃ st', run now hn [] p st = (.ok a, st') ∧ st'.db = d' ∧ st'.seq = sq' := by
  induction p generalizing st with
  | pure x =>
    simp only [eval, Option.some.injEq, Prod.mk.injEq] at h
    obtain ⟨rfl, rfl, rfl⟩ := h
    exact ⟨st, rfl, rfl, rfl⟩
  | fail e => simp only [eval] at h; cases h
  | call c k ih =>
    simp only [eval] at h
    simp only [run, fires_nil]
    split at h
    · cases h
    · rename_i sq r d heq
      simp only [heq]
      exact ih r _ h

theorem importOne_ok (now : Time) (s : State) (l : Log) (d' : Db)
    (h : eval now (importLog l) s.db s.seq = some ((), d', s.seq)) :
    importOne now s l = ({ db := d', seq := s.seq }, none) := by
  obtain ⟨st', hrun, hd, hs⟩ := eval_run_ok now "t" (importLog l) { db := s.db, seq := s.seq } () d' s.seq h
  unfold importOne
  rw [hrun]
  simp only [hd, hs]

/-! ### `max(id)` of an id-sorted journal -/

theorem foldl_max_mem (l : List Nat) (acc : Option Nat) (m : Nat) (h : l.foldl maxStep acc = some m) :
    acc = some m ∨ m ∈ l := by
  induction l generalizing acc with
  | nil => exact Or.inl h
  | cons y r ih =>
    simp only [List.foldl_cons] at h
    rcases ih _ h with h1 | h1
    · cases acc with
      | none => simp only [maxStep, Option.some.injEq] at h1; exact Or.inr (by rw [← h1]; exact List.mem_cons_self)
      | some a =>
        simp only [maxStep, Option.some.injEq] at h1
        by_cases hlt : a < y
        · rw [if_pos hlt] at h1; exact Or.inr (by rw [← h1]; exact List.mem_cons_self)
        · rw [if_neg hlt] at h1; exact Or.inl (by rw [h1])
    · exact Or.inr (List.mem_cons_of_mem _ h1)

theorem maxLogId_mem (d : Db) (m : Nat) (h : maxLogId d = some m) : ∃ l ∈ d.logs, l.id = m := by
  rw [maxLogId_eq] at h
  rcases foldl_max_mem _ _ _ h with h1 | h1
  · cases h1
  · exact List.mem_map.mp h1

theorem maxLogId_snoc (d d' : Db) (l : Log) (hl : d'.logs = d.logs ++ [l]) (hlt : ∀ x ∈ d.logs, x.id < l.id) :
    maxLogId d' = some l.id := by
  have h0 : maxLogId d' = maxStep (maxLogId d) l.id := by
    rw [maxLogId_eq, maxLogId_eq, hl, List.map_append, List.foldl_append]
    rfl
  rw [h0]
  cases hm : maxLogId d with
  | none => rfl
  | some m =>
    obtain ⟨x, hx, hxm⟩ := maxLogId_mem d m hm
    have := hlt x hx
    simp only [maxStep, ← hxm, if_pos this]

/-! ### `Export` of an id-sorted journal is the journal -/

theorem insertById_last (l : Log) (acc : List Log) (h : ∀ x ∈ acc, x.id < l.id) : insertById l acc = acc ++ [l] := by
  induction acc with
  | nil => rfl
  | cons x r ih =>
    have hx := h x List.mem_cons_self
    simp only [insertById, if_neg (Nat.lt_asymm hx), List.cons_append]
    rw [ih (fun y hy => h y (List.mem_cons_of_mem _ hy))]

theorem export_fold_sorted (logs acc : List Log) (hs : (acc ++ logs).Pairwise (fun a b => a.id < b.id)) :
    logs.foldl (fun acc l => insertById l acc) acc = acc ++ logs := by
  induction logs generalizing acc with
  | nil => simp
  | cons l r ih =>
    simp only [List.foldl_cons]
    have hl : ∀ x ∈ acc, x.id < l.id := by
      intro x hx
      exact (List.pairwise_append.mp hs).2.2 x hx l List.mem_cons_self
    rw [insertById_last l acc hl, ih]
    · simp
    · simpa using hs

theorem exportLogs_sorted (s : State) (hs : s.db.logs.Pairwise (fun a b => a.id < b.id)) : exportLogs s = s.db.logs := by
  unfold exportLogs
  rw [export_fold_sorted _ [] (by simpa using hs)]
  rfl

/-! ### one operation, then a history -/

/-- The journal only grows. -/
theorem step_logs_prefix (strict : Bool) (s : State) (op : Op) :
    ∃ ext, (step strict s op).1.db.logs = s.db.logs ++ ext := by
  unfold step
  rcases forgeLog_ending strict op [] false s with ⟨hu, _, _⟩ | ⟨st0, st, log, hn, f', n, _, h0, _, hrun, hc⟩
  · exact ⟨[], by simp only [List.append_nil]; exact congrArg Db.logs hu⟩
  · have ha := run_runLog_ok op.now hn f' strict op.kind op.ik op.ihash op.sv n st0 st log hrun
    refine ⟨[log], ?_⟩
    show (forgeLog strict op [] false s).state.db.logs = _
    rw [hc.1, ← h0]
    exact ha.logs

theorem runHist_logs_prefix (strict : Bool) (s : State) (ops : List Op) :
    ∃ ext, (runHist strict s ops).db.logs = s.db.logs ++ ext := by
  induction ops generalizing s with
  | nil => exact ⟨[], (List.append_nil _).symm⟩
  | cons op r ih =>
    obtain ⟨e1, h1⟩ := step_logs_prefix strict s op
    obtain ⟨e2, h2⟩ := ih (step strict s op).1
    exact ⟨e1 ++ e2, by simp only [runHist]; rw [h2, h1, List.append_assoc]⟩

theorem step_replay (strict : Bool) (now' : Time) (s r : State) (op : Op) (rest : List Log) (vR : PCV)
    (hinv : Inv s.db s.seq) (hr : r.db = s.db.withVol vR) (hv : VolRel s.db.volumes vR)
    (hsafe : ((step strict s op).1.db.logs.drop s.db.logs.length).all (logSafe s.db) = true) :
    ∃ r' vR', importFrom now' r (maxLogId r.db) (((step strict s op).1.db.logs.drop s.db.logs.length) ++ rest)
            = importFrom now' r' (maxLogId r'.db) rest ∧
          r'.db = (step strict s op).1.db.withVol vR' ∧ VolRel (step strict s op).1.db.volumes vR' := by
  have hpost := step_inv strict s op hinv
  unfold step at *
  simp only at hsafe hpost ⊢
  rcases forgeLog_ending strict op [] false s with ⟨hu, _, _⟩ | ⟨st0, st, log, hn, f', n, _, h0, _, hrun, hc⟩
  · have hu' : (forgeLog strict op [] false s).state.db = s.db := hu
    refine ⟨r, vR, ?_, ?_, ?_⟩
    · rw [hu', List.drop_length, List.nil_append]
    · rw [hu', hr]
    · rw [hu']; exact hv
  · have ha := run_runLog_ok op.now hn f' strict op.kind op.ik op.ihash op.sv n st0 st log hrun
    have hdb : (forgeLog strict op [] false s).state.db = st.db := by rw [hc.1]
    have hlogs : st.db.logs = s.db.logs ++ [log] := by rw [← h0]; exact ha.logs
    rw [hdb] at hsafe hpost ⊢
    rw [hlogs, List.drop_left] at hsafe ⊢
    simp only [List.all_cons, List.all_nil, Bool.and_true] at hsafe
    have hlt : ∀ x ∈ s.db.logs, x.id < log.id := by
      intro x hx
      have := hpost.logSorted
      rw [hlogs] at this
      exact (List.pairwise_append.mp this).2.2 x hx log List.mem_cons_self
    obtain ⟨vR', hev, hrel⟩ := runLog_replay op.now now' hn f' strict op.kind op.ik op.ihash op.sv n st0 st log r.seq vR hrun
      (by rw [h0]; exact hv) (by rw [h0]; exact hsafe)
    rw [h0, ← hr] at hev
    have hone := importOne_ok now' r log (st.db.withVol vR') hev
    have hrlogs : r.db.logs = s.db.logs := by rw [hr]; rfl
    refine ⟨{ db := st.db.withVol vR', seq := r.seq }, vR', ?_, rfl, hrel⟩
    simp only [List.cons_append, List.nil_append]
    simp only [importFrom, hone]
    rw [maxLogId_snoc r.db (st.db.withVol vR') log (by rw [hrlogs]; exact hlogs) (by rw [hrlogs]; exact hlt)]
    cases hm : maxLogId r.db with
    | none => simp only [Bool.false_eq_true, ↓reduceIte]
    | some m =>
      obtain ⟨x, hx, hxm⟩ := maxLogId_mem r.db m hm
      rw [hrlogs] at hx
      have h1 := hlt x hx
      rw [hxm] at h1
      simp only [decide_eq_true_eq, if_neg (Nat.not_le.mpr h1)]

theorem drop_prefix_split (l0 e1 e2 : List Log) :
    (l0 ++ e1 ++ e2).drop l0.length = ((l0 ++ e1).drop l0.length) ++ ((l0 ++ e1 ++ e2).drop (l0 ++ e1).length) := by
  rw [List.append_assoc, List.drop_left, List.drop_left, ← List.append_assoc, List.drop_left]

theorem runHist_replay (strict : Bool) (now' : Time) (ops : List Op) (s r : State) (vR : PCV)
    (hinv : Inv s.db s.seq) (hr : r.db = s.db.withVol vR) (hv : VolRel s.db.volumes vR)
    (hsafe : replaySafe strict s ops = true) :
    ∃ r' vR', importFrom now' r (maxLogId r.db) ((runHist strict s ops).db.logs.drop s.db.logs.length) = (r', none) ∧
          r'.db = (runHist strict s ops).db.withVol vR' ∧ VolRel (runHist strict s ops).db.volumes vR' := by
  induction ops generalizing s r vR with
  | nil =>
    refine ⟨r, vR, ?_, hr, hv⟩
    simp only [runHist, List.drop_length, importFrom]
  | cons op rest ih =>
    simp only [replaySafe, Bool.and_eq_true] at hsafe
    obtain ⟨e1, h1⟩ := step_logs_prefix strict s op
    obtain ⟨e2, h2⟩ := runHist_logs_prefix strict (step strict s op).1 rest
    obtain ⟨r1, v1, hstep, hr1, hv1⟩ := step_replay strict now' s r op
      ((runHist strict (step strict s op).1 rest).db.logs.drop (step strict s op).1.db.logs.length) vR hinv hr hv hsafe.1
    obtain ⟨r2, v2, hrest, hr2, hv2⟩ := ih (step strict s op).1 r1 v1 (step_inv strict s op hinv) hr1 hv1 hsafe.2
    refine ⟨r2, v2, ?_, hr2, hv2⟩
    simp only [runHist]
    have hsplit : (runHist strict (step strict s op).1 rest).db.logs.drop s.db.logs.length =
        ((step strict s op).1.db.logs.drop s.db.logs.length) ++
        ((runHist strict (step strict s op).1 rest).db.logs.drop (step strict s op).1.db.logs.length) := by
      rw [h2, h1]
      exact drop_prefix_split _ _ _
    rw [hsplit, hstep]
    exact hrest

theorem norm_withVol (d : Db) (v : PCV) (h : VolRel d.volumes v) : (d.withVol v).norm = d.norm := by
  unfold Db.norm Db.withVol
  simp only [h.norm_eq]

/-- **Replay reproduces the tables**: for every history whose committed logs are all
    `logSafe`, `Export` (logs in id order) followed by `Import` into an empty ledger
    succeeds and yields the same tables — every table equal, `accounts_volumes` up to
    `(0,0)` rows (`Db.norm`) — at any import clock `now'`. -/
theorem replay_reproduces_safe (strict : Bool) (now' : Time) (ops : List Op) (hsafe : replaySafe strict {} ops = true) :
    (importLogs now' {} (exportLogs (runHist strict {} ops))).2 = none ∧
    (importLogs now' {} (exportLogs (runHist strict {} ops))).1.db.norm = (runHist strict {} ops).db.norm := by
  have hinv := runHist_inv strict {} ops Inv.empty
  rw [exportLogs_sorted _ hinv.logSorted]
  obtain ⟨r', v', h, hr', hv'⟩ := runHist_replay strict now' ops {} {} [] Inv.empty rfl (VolRel.refl Map.WF_nil) hsafe
  unfold importLogs
  simp only [List.drop_zero, List.length_nil] at h
  have h' : importFrom now' {} (maxLogId ({} : State).db) (runHist strict {} ops).db.logs = (r', none) := h
  rw [h']
  refine ⟨rfl, ?_⟩
  show r'.db.norm = _
  rw [hr']
  exact norm_withVol _ _ hv'

/-- The tables other than `accounts_volumes` are equal outright, and the copy's
    volumes are the source's minus some `(0,0)` rows. -/
theorem replay_reproduces_tables (strict : Bool) (now' : Time) (ops : List Op) (hsafe : replaySafe strict {} ops = true) :
    let c := (importLogs now' {} (exportLogs (runHist strict {} ops))).1.db
    let d := (runHist strict {} ops).db
    c.txs = d.txs ∧ c.accounts = d.accounts ∧ c.logs = d.logs ∧ c.schemas = d.schemas ∧ VolRel d.volumes c.volumes := by
  have hinv := runHist_inv strict {} ops Inv.empty
  rw [exportLogs_sorted _ hinv.logSorted]
  obtain ⟨r', v', h, hr', hv'⟩ := runHist_replay strict now' ops {} {} [] Inv.empty rfl (VolRel.refl Map.WF_nil) hsafe
  unfold importLogs
  simp only [List.drop_zero, List.length_nil] at h
  have h' : importFrom now' {} (maxLogId ({} : State).db) (runHist strict {} ops).db.logs = (r', none) := h
  rw [h']
  show r'.db.txs = _ ∧ r'.db.accounts = _ ∧ r'.db.logs = _ ∧ r'.db.schemas = _ ∧ VolRel _ r'.db.volumes
  rw [hr']
  exact ⟨rfl, rfl, rfl, rfl, hv'⟩

end Ledger.Ctrl
