import Ledger.Wrap.Discipline

/-!
Invariant of the events-wrapper model (`Ledger/Wrap/Events.lean`) linking the
`atCommit` queues to the pending sets of the specification fold, and its
preservation by every wrapper method (for C31).
-/
namespace Ledger.Wrap
open List

theorem specOf_snoc (tr : List Item) (it : Item) : specOf (tr ++ [it]) = (specOf tr).step it := by
  simp [specOf, Spec.run, List.foldl_append]

/-- Items that do not concern the specification fold. -/
def Item.inert : Item → Bool
  | .begin _ _ .ok => false
  | .write _ _ false _ .ok => false
  | .commit _ .ok => false
  | .commit _ .fail => false
  | .rollback _ .ok => false
  | .rollback _ .fail => false
  | .publish _ _ => false
  | _ => true

theorem step_inert (σ : Spec) (it : Item) (h : it.inert = true) : σ.step it = σ := by
  cases it with
  | begin t p r => cases r <;> first | rfl | simp [Item.inert] at h
  | lock t r => rfl
  | release t => rfl
  | commit t r => cases r <;> first | rfl | simp [Item.inert] at h
  | rollback t r => cases r <;> first | rfl | simp [Item.inert] at h
  | write t k dry w r => cases r <;> cases dry <;> first | rfl | simp [Item.inert] at h
  | sql t tag r => rfl
  | publish k w => simp [Item.inert] at h

/-- A wrapper as the discipline produces them, when `n` transactions exist:
    outside any transaction (no `hasTx`, events are published at once), or inside
    transaction `t` (events go to the queue of the wrapper that opened `t`). -/
def Good (n : Nat) (c : W) : Prop :=
  (c.u = .none ∧ c.hasTx = false ∧ ∀ t, c.id ≠ .tx t) ∨
  (∃ t, c.u = .tx t .none ∧ 1 ≤ t ∧ t ≤ n ∧ c.hasTx = true ∧ c.sink = some (.tx t) ∧
        (c.id = .tx t ∨ ∃ k, c.id = .lk k))

theorem Good.mono {n m : Nat} {c : W} (h : Good n c) (hnm : n ≤ m) : Good m c := by
  rcases h with h | ⟨t, h1, h2, h3, h4⟩
  · exact Or.inl h
  · exact Or.inr ⟨t, h1, h2, Nat.le_trans h3 hnm, h4⟩

theorem good_root (n : Nat) : Good n .root :=
  Or.inl ⟨rfl, rfl, fun t h => by cases h⟩

theorem sink_of_not_hasTx (c : W) (h : c.hasTx = false) : c.sink = none := by
  cases c with
  | root => rfl
  | node id hasTx u p =>
    simp only [W.hasTx] at h
    subst h
    rfl

/-- The invariant, with a set `ex` of exempted transactions (those currently under
    a nested first-write path, handled by `Ledger/Proofs/WrapNest.lean`): no bad
    publish so far, everything durable has been published (in the same order),
    and for every open, non-exempted transaction: it is not nested and the queue of
    the wrapper that opened it holds exactly its pending writes. -/
structure InvE (ex : Nat → Bool) (s : St) : Prop where
  bad : (specOf s.trace).bad = false
  pub : (specOf s.trace).pub = (specOf s.trace).dur
  par : ∀ t, s.opn t = true → ex t = false → (specOf s.trace).par t = 0
  queue : ∀ t, s.opn t = true → ex t = false → s.queue (.tx t) = (specOf s.trace).pend t
  fresh : ∀ t, s.nT < t → s.opn t = false ∧ s.queue (.tx t) = []
  lockF : s.lockTx false = false

/-- The invariant without exemptions. -/
abbrev Inv (s : St) : Prop := InvE (fun _ => false) s

theorem InvE.of_eq {ex : Nat → Bool} {s s' : St} (h : InvE ex s) (ht : s'.trace = s.trace) (ho : s'.opn = s.opn)
    (hq : s'.queue = s.queue) (hn : s'.nT = s.nT) (hl : s'.lockTx = s.lockTx) : InvE ex s' := by
  constructor
  · rw [ht]; exact h.bad
  · rw [ht]; exact h.pub
  · rw [ht, ho]; exact h.par
  · rw [ht, ho, hq]; exact h.queue
  · rw [hn, ho, hq]; exact h.fresh
  · rw [hl]; exact h.lockF

theorem InvE.emit_inert {ex : Nat → Bool} {s : St} (h : InvE ex s) (it : Item) (hi : it.inert = true) :
    InvE ex (s.emit it) := by
  have hs : specOf (s.emit it).trace = specOf s.trace := by
    simp only [St.emit, specOf_snoc]; exact step_inert _ _ hi
  constructor
  · rw [hs]; exact h.bad
  · rw [hs]; exact h.pub
  · rw [hs]; exact h.par
  · rw [hs]; exact h.queue
  · exact h.fresh
  · exact h.lockF

/-- What a step keeps: the allocation counter only grows, `lockTx`, the handle
    table and an `in-use` ledger state are kept. -/
structure Ext (s s' : St) : Prop where
  nT : s.nT ≤ s'.nT
  lockTx : s'.lockTx = s.lockTx
  handles : s'.handles = s.handles
  inUse : s.inUse = true → s'.inUse = true

theorem Ext.refl (s : St) : Ext s s := ⟨Nat.le_refl _, rfl, rfl, id⟩

theorem Ext.trans {a b c : St} (h1 : Ext a b) (h2 : Ext b c) : Ext a c :=
  ⟨Nat.le_trans h1.nT h2.nT, h2.lockTx.trans h1.lockTx, h2.handles.trans h1.handles,
   fun h => h2.inUse (h1.inUse h)⟩

theorem Ext.emit (s : St) (it : Item) : Ext s (s.emit it) := ⟨Nat.le_refl _, rfl, rfl, id⟩

theorem live_none (opn : Nat → Bool) : UH.live opn .none = true := rfl

theorem live_tx (opn : Nat → Bool) (t : Nat) : UH.live opn (.tx t .none) = opn t := by
  simp [UH.live]

-- ---------------------------------------------------------------------------
-- publishing a queue

theorem publishAll_trace (s : St) (evs : List Ev) :
    (publishAll s evs).trace = s.trace ++ evs.map (fun e => Item.publish e.1 e.2) ∧
    (publishAll s evs).opn = s.opn ∧ (publishAll s evs).queue = s.queue ∧
    (publishAll s evs).nT = s.nT ∧ (publishAll s evs).lockTx = s.lockTx ∧
    (publishAll s evs).handles = s.handles ∧ (publishAll s evs).inUse = s.inUse := by
  induction evs generalizing s with
  | nil => simp [publishAll]
  | cons e evs ih =>
    obtain ⟨k, w⟩ := e
    have := ih (s.emit (.publish k w))
    simp only [publishAll, St.emit] at this ⊢
    simpa using this

/-- Publishing, in order, a list `L` of writes that are durable but not yet
    published (`dur = pub ++ L`) is never bad and ends with `pub = dur`. -/
theorem spec_publish_list (σ : Spec) (L : List Ev) (hb : σ.bad = false) (hd : σ.dur = σ.pub ++ L) :
    let σ' := Spec.run σ (L.map (fun e => Item.publish e.1 e.2))
    σ'.bad = false ∧ σ'.pub = σ.dur ∧ σ'.dur = σ.dur ∧ σ'.par = σ.par ∧ σ'.pend = σ.pend := by
  induction L generalizing σ with
  | nil => simp [Spec.run, hb, hd]
  | cons e L ih =>
    obtain ⟨k, w⟩ := e
    have hcount : σ.pub.count (k, w) < σ.dur.count (k, w) := by
      rw [hd]; simp [List.count_append, List.count_cons_self]
    have h1 : (σ.step (.publish k w)).bad = false := by
      simp [Spec.step, hb, hcount]
    have h2 : (σ.step (.publish k w)).dur = (σ.step (.publish k w)).pub ++ L := by
      simp [Spec.step, hd]
    have := ih (σ.step (.publish k w)) h1 h2
    simp only [List.map_cons, Spec.run, List.foldl_cons] at this ⊢
    refine ⟨this.1, ?_, ?_, ?_, ?_⟩
    · rw [this.2.1]; simp [Spec.step]
    · rw [this.2.2.1]; simp [Spec.step]
    · rw [this.2.2.2.1]; simp [Spec.step]
    · rw [this.2.2.2.2]; simp [Spec.step]

-- ---------------------------------------------------------------------------
-- the wrapper methods

theorem wWrite_done {s : St} {c : W} (k : Kind) (dry : Bool) (w : Nat) (hl : c.u.live s.opn = false) :
    wWrite s c k dry w = (.txdone, s.emit (.write c.u.id k dry w .done)) := by
  simp [wWrite, hl]

theorem wWrite_fail {s : St} {c : W} (k : Kind) (dry : Bool) (w : Nat) (hl : c.u.live s.opn = true)
    (hs : s.script w = false) :
    wWrite s c k dry w = (.scripted w, s.emit (.write c.u.id k dry w .fail)) := by
  simp [wWrite, hl, hs]

theorem wWrite_dry {s : St} {c : W} (k : Kind) (w : Nat) (hl : c.u.live s.opn = true)
    (hs : s.script w = true) :
    wWrite s c k true w = (.ok, s.emit (.write c.u.id k true w .ok)) := by
  simp [wWrite, hl, hs]

theorem wWrite_ok {s : St} {c : W} (k : Kind) (w : Nat) (hl : c.u.live s.opn = true)
    (hs : s.script w = true) :
    wWrite s c k false w = (.ok, handleEvent (s.emit (.write c.u.id k false w .ok)) c (k, w)) := by
  simp [wWrite, hl, hs]

theorem inert_write_done (t : Nat) (k : Kind) (dry : Bool) (w : Nat) :
    (Item.write t k dry w .done).inert = true := by cases dry <;> rfl
theorem inert_write_fail (t : Nat) (k : Kind) (dry : Bool) (w : Nat) :
    (Item.write t k dry w .fail).inert = true := by cases dry <;> rfl

theorem updQ_same (q : WId → List Ev) (i : WId) (v : List Ev) : updQ q i v i = v := by simp [updQ]
theorem updQ_other (q : WId → List Ev) (i j : WId) (v : List Ev) (h : j ≠ i) : updQ q i v j = q j := by
  simp [updQ, h]

theorem specOf_append (a b : List Item) : specOf (a ++ b) = Spec.run (specOf a) b := by
  simp [specOf, Spec.run_append]

theorem wWrite_pres {ex : Nat → Bool} {s : St} {c : W} (h : InvE ex s) (hc : Good s.nT c)
    (k : Kind) (dry : Bool) (w : Nat) :
    InvE ex (wWrite s c k dry w).2 ∧ Ext s (wWrite s c k dry w).2 := by
  cases hl : c.u.live s.opn with
  | false => rw [wWrite_done k dry w hl]; exact ⟨h.emit_inert _ (inert_write_done ..), Ext.emit _ _⟩
  | true =>
    cases hs : s.script w with
    | false => rw [wWrite_fail k dry w hl hs]; exact ⟨h.emit_inert _ (inert_write_fail ..), Ext.emit _ _⟩
    | true =>
      cases dry with
      | true => rw [wWrite_dry k w hl hs]; exact ⟨h.emit_inert _ rfl, Ext.emit _ _⟩
      | false =>
        rw [wWrite_ok k w hl hs]
        rcases hc with ⟨hu, hh, _⟩ | ⟨t, hu, ht1, htn, hh, hsink, _⟩
        · -- outside any transaction: durable at once, published at once
          have hsk := sink_of_not_hasTx c hh
          simp only [handleEvent, hsk, hu, UH.id]
          refine ⟨?_, ⟨Nat.le_refl _, rfl, rfl, id⟩⟩
          have hσ : specOf ((s.emit (.write 0 k false w .ok)).emit (.publish k w)).trace =
              ((specOf s.trace).step (.write 0 k false w .ok)).step (.publish k w) := by
            show specOf ((s.trace ++ [_]) ++ [_]) = _
            rw [specOf_snoc, specOf_snoc]
          constructor
          · rw [hσ]; simp [Spec.step, h.bad, h.pub, List.count_append]
          · rw [hσ]; simp [Spec.step, h.pub]
          · rw [hσ]; intro t' ho hx; simpa [Spec.step] using h.par t' ho hx
          · rw [hσ]; intro t' ho hx; simpa [Spec.step, St.emit] using h.queue t' ho hx
          · simpa [St.emit] using h.fresh
          · exact h.lockF
        · -- inside transaction t: pending there, queued on the wrapper that opened t
          have hopn : s.opn t = true := by rw [hu, live_tx] at hl; exact hl
          have ht0 : t ≠ 0 := by omega
          simp only [handleEvent, hsink, hu, UH.id]
          refine ⟨?_, ⟨Nat.le_refl _, rfl, rfl, id⟩⟩
          have hσ : specOf (s.emit (.write t k false w .ok)).trace =
              (specOf s.trace).step (.write t k false w .ok) := by
            simp [St.emit, specOf_snoc]
          constructor
          · show (specOf (s.emit (.write t k false w .ok)).trace).bad = false
            rw [hσ]; simp [Spec.step, ht0, h.bad]
          · show (specOf (s.emit (.write t k false w .ok)).trace).pub = _
            rw [hσ]; simp [Spec.step, ht0, h.pub]
          · intro t' ho hx
            show (specOf (s.emit (.write t k false w .ok)).trace).par t' = 0
            rw [hσ]; simpa [Spec.step, ht0] using h.par t' ho hx
          · intro t' ho hx
            show updQ (s.emit _).queue (.tx t) _ (.tx t') = (specOf (s.emit (.write t k false w .ok)).trace).pend t'
            rw [hσ]
            simp only [Spec.step, ht0, if_false]
            by_cases htt : t' = t
            · subst htt
              rw [updQ_same, upd_same]
              simp only [St.emit]
              rw [h.queue t' hopn hx]
            · rw [updQ_other _ _ _ _ (by intro he; cases he; exact htt rfl), upd_other _ _ _ _ htt]
              exact h.queue t' ho hx
          · intro t' ht'
            have ht'' : s.nT < t' := ht'
            have htt : t' ≠ t := by omega
            refine ⟨(h.fresh t' ht').1, ?_⟩
            show updQ (s.emit _).queue (.tx t) _ (.tx t') = []
            rw [updQ_other _ _ _ _ (by intro he; cases he; exact htt rfl)]
            exact (h.fresh t' ht').2
          · exact h.lockF

theorem wBegin_fail {s : St} {c : W} (hl : c.u.live s.opn = true) (hf : s.faults.begin = true) :
    wBegin s c = (.error .begin, s.emit (.begin 0 c.u.id .fail)) := by
  simp [wBegin, hl, hf]

theorem wBegin_done {s : St} {c : W} (hl : c.u.live s.opn = false) :
    wBegin s c = (.error .txdone, s.emit (.begin 0 c.u.id .done)) := by
  simp [wBegin, hl]

theorem wBegin_ok {s : St} {c : W} (hl : c.u.live s.opn = true) (hf : s.faults.begin = false) :
    wBegin s c = (.ok (.node (.tx (s.nT + 1)) true (.tx (s.nT + 1) c.u) c),
      { s with nT := s.nT + 1, opn := upd s.opn (s.nT + 1) true }.emit (.begin (s.nT + 1) c.u.id .ok)) := by
  simp [wBegin, hl, hf]

/-- `BeginTX` on a wrapper outside any transaction. -/
theorem wBegin_pres {ex : Nat → Bool} {s : St} {c : W} (h : InvE ex s) (hc : Good s.nT c) (hu : c.u = .none) :
    InvE ex (wBegin s c).2 ∧ Ext s (wBegin s c).2 ∧
    ∀ n, (wBegin s c).1 = .ok n →
      n = .node (.tx (s.nT + 1)) true (.tx (s.nT + 1) .none) c ∧
      (wBegin s c).2.nT = s.nT + 1 ∧ (wBegin s c).2.opn (s.nT + 1) = true ∧
      Good (wBegin s c).2.nT n ∧ n.lockCreated = false ∧ n.u ≠ .none := by
  have hl : c.u.live s.opn = true := by rw [hu]; rfl
  cases hf : s.faults.begin with
  | true =>
    rw [wBegin_fail hl hf]
    exact ⟨h.emit_inert _ rfl, Ext.emit _ _, fun n hn => by cases hn⟩
  | false =>
    rw [wBegin_ok hl hf, hu]
    have hh : c.hasTx = false := by
      rcases hc with ⟨_, hh, _⟩ | ⟨t, hu', _⟩
      · exact hh
      · rw [hu] at hu'; cases hu'
    refine ⟨?_, ⟨Nat.le_succ _, rfl, rfl, id⟩, ?_⟩
    · have hσ : specOf ({ s with nT := s.nT + 1, opn := upd s.opn (s.nT + 1) true }.emit
          (.begin (s.nT + 1) UH.none.id .ok)).trace = (specOf s.trace).step (.begin (s.nT + 1) 0 .ok) := by
        simp [St.emit, specOf_snoc, UH.id]
      constructor
      · rw [hσ]; simpa [Spec.step] using h.bad
      · rw [hσ]; simpa [Spec.step] using h.pub
      · rw [hσ]
        intro t ho hx
        simp only [Spec.step, St.emit] at ho ⊢
        by_cases ht : t = s.nT + 1
        · subst ht; rw [upd_same]
        · rw [upd_other _ _ _ _ ht] at ho ⊢; exact h.par t ho hx
      · rw [hσ]
        intro t ho hx
        simp only [Spec.step, St.emit] at ho ⊢
        by_cases ht : t = s.nT + 1
        · subst ht; rw [upd_same]; exact (h.fresh _ (Nat.lt_succ_self _)).2
        · rw [upd_other _ _ _ _ ht] at ho ⊢; exact h.queue t ho hx
      · intro t ht
        simp only [St.emit] at ht ⊢
        have ht' : s.nT < t := by omega
        have hne : t ≠ s.nT + 1 := by omega
        rw [upd_other _ _ _ _ hne]
        exact h.fresh t ht'
      · exact h.lockF
    · intro n hn
      cases hn
      refine ⟨rfl, rfl, by simp [St.emit], Or.inr ⟨s.nT + 1, rfl, by omega, Nat.le_refl _, rfl, ?_, Or.inl rfl⟩,
        rfl, by simp [W.u]⟩
      simp [W.sink, hh]

theorem wLock_done {s : St} {c : W} (hl : c.u.live s.opn = false) :
    wLock s c = (.error .txdone, s.emit (.lock c.u.id .done)) := by
  simp [wLock, hl]

theorem wLock_fail {s : St} {c : W} (hl : c.u.live s.opn = true) (hf : s.faults.lock = true) :
    wLock s c = (.error .lock, s.emit (.lock c.u.id .fail)) := by
  simp [wLock, hl, hf]

theorem wLock_ok {s : St} {c : W} (hl : c.u.live s.opn = true) (hf : s.faults.lock = false) :
    wLock s c = (.ok (.node (.lk s.nK) (s.lockTx c.hasTx) c.u c),
      { s with nK := s.nK + 1 }.emit (.lock c.u.id .ok)) := by
  simp [wLock, hl, hf]

/-- `LockLedger` only appends an inert item (and bumps the lock counter), on any wrapper. -/
theorem wLock_state (s : St) (c : W) :
    ∃ it, it.inert = true ∧
      ((wLock s c).2 = s.emit it ∨ (wLock s c).2 = { s with nK := s.nK + 1 }.emit it) := by
  cases hl : c.u.live s.opn with
  | false => rw [wLock_done hl]; exact ⟨_, rfl, Or.inl rfl⟩
  | true =>
    cases hf : s.faults.lock with
    | true => rw [wLock_fail hl hf]; exact ⟨_, rfl, Or.inl rfl⟩
    | false => rw [wLock_ok hl hf]; exact ⟨_, rfl, Or.inr rfl⟩

/-- `LockLedger`: outside a transaction always fine; inside one only if the
    returned wrapper keeps `hasTx`. -/
theorem wLock_pres {ex : Nat → Bool} {s : St} {c : W} (h : InvE ex s) (hc : Good s.nT c)
    (hpre : c.u = .none ∨ s.lockTx true = true) :
    InvE ex (wLock s c).2 ∧ Ext s (wLock s c).2 ∧
    ∀ n, (wLock s c).1 = .ok n → Good (wLock s c).2.nT n := by
  cases hl : c.u.live s.opn with
  | false => rw [wLock_done hl]; exact ⟨h.emit_inert _ rfl, Ext.emit _ _, fun n hn => by cases hn⟩
  | true =>
    cases hf : s.faults.lock with
    | true => rw [wLock_fail hl hf]; exact ⟨h.emit_inert _ rfl, Ext.emit _ _, fun n hn => by cases hn⟩
    | false =>
      rw [wLock_ok hl hf]
      refine ⟨?_, ⟨Nat.le_refl _, rfl, rfl, id⟩, ?_⟩
      · exact (InvE.of_eq h rfl rfl rfl rfl rfl : InvE ex { s with nK := s.nK + 1 }).emit_inert _ rfl
      · intro n hn
        cases hn
        rcases hc with ⟨hu, hh, _⟩ | ⟨t, hu, ht1, htn, hh, hsink, _⟩
        · exact Or.inl ⟨hu, (by show s.lockTx c.hasTx = false; rw [hh]; exact h.lockF), fun t he => by cases he⟩
        · have hlt : s.lockTx true = true := by
            rcases hpre with hp | hp
            · rw [hu] at hp; cases hp
            · exact hp
          refine Or.inr ⟨t, hu, ht1, htn, (by show s.lockTx c.hasTx = true; rw [hh]; exact hlt), ?_, Or.inr ⟨s.nK, rfl⟩⟩
          show (if !(s.lockTx c.hasTx) then none else if c.hasTx then c.sink else some (WId.lk s.nK)) = _
          rw [hh, hlt, hsink]; rfl

theorem uSql_state (s : St) (c : W) (tag : Nat) : ∃ it, it.inert = true ∧ (uSql s c tag).2 = s.emit it := by
  unfold uSql
  split
  · exact ⟨_, rfl, rfl⟩
  · exact ⟨_, rfl, rfl⟩

theorem uSql_pres {ex : Nat → Bool} {s : St} (h : InvE ex s) (c : W) (tag : Nat) :
    InvE ex (uSql s c tag).2 ∧ Ext s (uSql s c tag).2 := by
  obtain ⟨it, hi, he⟩ := uSql_state s c tag
  rw [he]
  exact ⟨h.emit_inert _ hi, Ext.emit _ _⟩

theorem wRelease_pres {ex : Nat → Bool} {s : St} (h : InvE ex s) (c : W) :
    InvE ex (wRelease s c) ∧ Ext s (wRelease s c) :=
  ⟨h.emit_inert _ rfl, Ext.emit _ _⟩

/-- the scripted `Commit` failure for a handle -/
def commitFails (s : St) (c : W) : Bool :=
  s.faults.commit || (s.faults.commitTop && c.u.parentId == 0)

theorem wCommit_done {s : St} {c : W} (h : c.u.id = 0 ∨ c.u.live s.opn = false) :
    wCommit s c = (.txdone, s.emit (.commit c.u.id .done)) := by
  rcases h with h | h <;> simp [wCommit, h]

theorem wCommit_fail {s : St} {c : W} (h0 : c.u.id ≠ 0) (hl : c.u.live s.opn = true)
    (hf : commitFails s c = true) :
    wCommit s c = (.commit, { s with opn := upd s.opn c.u.id false }.emit (.commit c.u.id .fail)) := by
  unfold commitFails at hf
  simp [wCommit, h0, hl, hf]

theorem wCommit_ok {s : St} {c : W} (h0 : c.u.id ≠ 0) (hl : c.u.live s.opn = true)
    (hf : commitFails s c = false) :
    wCommit s c = (.ok, publishAll ({ s with opn := upd s.opn c.u.id false }.emit (.commit c.u.id .ok))
      (s.queue c.id)) := by
  unfold commitFails at hf
  simp [wCommit, h0, hl, hf, St.emit]

/-- `Commit` of a non-nested, non-exempted transaction, not through a wrapper
    returned by `LockLedger` inside a transaction. -/
theorem wCommit_pres {ex : Nat → Bool} {s : St} {c : W} (h : InvE ex s) (hc : Good s.nT c)
    (hpre : c.u = .none ∨ c.lockCreated = false) (hex : ex c.u.id = false) :
    InvE ex (wCommit s c).2 ∧ Ext s (wCommit s c).2 := by
  rcases hc with ⟨hu, _, _⟩ | ⟨t, hu, ht1, htn, _, _, hid⟩
  · rw [wCommit_done (Or.inl (by rw [hu]; rfl))]
    exact ⟨h.emit_inert _ rfl, Ext.emit _ _⟩
  · have hidt : c.id = .tx t := by
      rcases hid with hid | ⟨k, hid⟩
      · exact hid
      · rcases hpre with hp | hp
        · rw [hu] at hp; cases hp
        · cases c with
          | root => cases hid
          | node id hh u p => simp only [W.id] at hid; subst hid; simp [W.lockCreated] at hp
    have h0 : c.u.id ≠ 0 := by rw [hu]; simp [UH.id]; omega
    have hidu : c.u.id = t := by rw [hu]; rfl
    rw [hidu] at hex
    cases hl : c.u.live s.opn with
    | false => rw [wCommit_done (Or.inr hl)]; exact ⟨h.emit_inert _ rfl, Ext.emit _ _⟩
    | true =>
      have hopn : s.opn t = true := by rw [hu, live_tx] at hl; exact hl
      cases hf : commitFails s c with
      | true =>
        rw [wCommit_fail h0 hl hf, hidu]
        refine ⟨?_, ⟨Nat.le_refl _, rfl, rfl, id⟩⟩
        have hσ : specOf ({ s with opn := upd s.opn t false }.emit (.commit t .fail)).trace =
            (specOf s.trace).step (.commit t .fail) := by simp [St.emit, specOf_snoc]
        constructor
        · rw [hσ]; simpa [Spec.step] using h.bad
        · rw [hσ]; simpa [Spec.step] using h.pub
        · rw [hσ]
          intro t' ho hx
          simp only [Spec.step, St.emit] at ho ⊢
          by_cases htt : t' = t
          · subst htt; rw [upd_same] at ho; cases ho
          · rw [upd_other _ _ _ _ htt] at ho; exact h.par t' ho hx
        · rw [hσ]
          intro t' ho hx
          simp only [Spec.step, St.emit] at ho ⊢
          by_cases htt : t' = t
          · subst htt; rw [upd_same] at ho; cases ho
          · rw [upd_other _ _ _ _ htt] at ho ⊢; exact h.queue t' ho hx
        · intro t' ht'
          have ht'' : s.nT < t' := ht'
          have htt : t' ≠ t := by omega
          simp only [St.emit]
          rw [upd_other _ _ _ _ htt]
          exact h.fresh t' ht''
        · exact h.lockF
      | false =>
        rw [wCommit_ok h0 hl hf, hidu, hidt, h.queue t hopn hex]
        obtain ⟨htr, hopn', hq', hnT', hlt', hhd', hiu'⟩ := publishAll_trace
          ({ s with opn := upd s.opn t false }.emit (.commit t .ok)) ((specOf s.trace).pend t)
        refine ⟨?_, ⟨by rw [hnT']; exact Nat.le_refl _, hlt', hhd', fun hi => by rw [hiu']; exact hi⟩⟩
        have hσ1 : specOf ({ s with opn := upd s.opn t false }.emit (.commit t .ok)).trace =
            (specOf s.trace).step (.commit t .ok) := by simp [St.emit, specOf_snoc]
        have hstep : (specOf s.trace).step (.commit t .ok) =
            { specOf s.trace with dur := (specOf s.trace).dur ++ (specOf s.trace).pend t,
                                  pend := upd (specOf s.trace).pend t [] } := by
          simp [Spec.step, h.par t hopn hex]
        have hpl := spec_publish_list ((specOf s.trace).step (.commit t .ok)) ((specOf s.trace).pend t)
          (by rw [hstep]; exact h.bad) (by rw [hstep]; simp [h.pub])
        simp only [] at hpl
        have hσ : specOf (publishAll ({ s with opn := upd s.opn t false }.emit (.commit t .ok))
            ((specOf s.trace).pend t)).trace =
            Spec.run ((specOf s.trace).step (.commit t .ok))
              (((specOf s.trace).pend t).map (fun e => Item.publish e.1 e.2)) := by
          rw [htr, specOf_append, hσ1]
        constructor
        · rw [hσ]; exact hpl.1
        · rw [hσ, hpl.2.1, hpl.2.2.1]
        · rw [hσ, hpl.2.2.2.1, hstep, hopn']
          intro t' ho hx
          simp only [St.emit] at ho ⊢
          by_cases htt : t' = t
          · subst htt; rw [upd_same] at ho; cases ho
          · rw [upd_other _ _ _ _ htt] at ho; exact h.par t' ho hx
        · rw [hσ, hpl.2.2.2.2, hstep, hopn', hq']
          intro t' ho hx
          simp only [St.emit] at ho ⊢
          by_cases htt : t' = t
          · subst htt; rw [upd_same] at ho; cases ho
          · rw [upd_other _ _ _ _ htt] at ho ⊢; exact h.queue t' ho hx
        · rw [hnT', hopn', hq']
          intro t' ht'
          have ht'' : s.nT < t' := ht'
          have htt : t' ≠ t := by omega
          simp only [St.emit]
          rw [upd_other _ _ _ _ htt]
          exact h.fresh t' ht''
        · rw [hlt']; exact h.lockF

theorem wRollback_done {s : St} {c : W} (h : c.u.id = 0 ∨ c.u.live s.opn = false) :
    wRollback s c = (.txdone, { s with queue := updQ s.queue c.id [] }.emit (.rollback c.u.id .done)) := by
  rcases h with h | h <;> simp [wRollback, h]

theorem wRollback_live {s : St} {c : W} (h0 : c.u.id ≠ 0) (hl : c.u.live s.opn = true) :
    (wRollback s c).2 = { s with queue := updQ s.queue c.id [], opn := upd s.opn c.u.id false }.emit
      (.rollback c.u.id (if s.faults.rollback then .fail else .ok)) := by
  cases hf : s.faults.rollback <;> simp [wRollback, h0, hl, hf, St.emit]

/-- `Rollback` on any wrapper of the discipline. -/
theorem wRollback_pres {ex : Nat → Bool} {s : St} {c : W} (h : InvE ex s) (hc : Good s.nT c) :
    InvE ex (wRollback s c).2 ∧ Ext s (wRollback s c).2 := by
  rcases hc with ⟨hu, _, hid⟩ | ⟨t, hu, ht1, htn, _, _, hid⟩
  · rw [wRollback_done (Or.inl (by rw [hu]; rfl))]
    refine ⟨InvE.emit_inert ?_ _ rfl, ⟨Nat.le_refl _, rfl, rfl, id⟩⟩
    constructor
    · exact h.bad
    · exact h.pub
    · exact h.par
    · intro t' ho hx
      show updQ s.queue c.id [] (.tx t') = _
      rw [updQ_other _ _ _ _ (fun he => hid t' he.symm)]
      exact h.queue t' ho hx
    · intro t' ht'
      refine ⟨(h.fresh t' ht').1, ?_⟩
      show updQ s.queue c.id [] (.tx t') = _
      rw [updQ_other _ _ _ _ (fun he => hid t' he.symm)]
      exact (h.fresh t' ht').2
    · exact h.lockF
  · have hne : ∀ t', t' ≠ t → (WId.tx t') ≠ c.id := by
      intro t' htt he
      rcases hid with hid | ⟨k, hid⟩
      · rw [hid] at he; cases he; exact htt rfl
      · rw [hid] at he; cases he
    have h0 : c.u.id ≠ 0 := by rw [hu]; simp [UH.id]; omega
    have hidu : c.u.id = t := by rw [hu]; rfl
    cases hl : c.u.live s.opn with
    | false =>
      have hopn : s.opn t = false := by rw [hu, live_tx] at hl; exact hl
      rw [wRollback_done (Or.inr hl)]
      refine ⟨InvE.emit_inert ?_ _ rfl, ⟨Nat.le_refl _, rfl, rfl, id⟩⟩
      constructor
      · exact h.bad
      · exact h.pub
      · exact h.par
      · intro t' ho hx
        have htt : t' ≠ t := by intro he; subst he; rw [hopn] at ho; cases ho
        show updQ s.queue c.id [] (.tx t') = _
        rw [updQ_other _ _ _ _ (hne t' htt)]
        exact h.queue t' ho hx
      · intro t' ht'
        have ht'' : s.nT < t' := ht'
        have htt : t' ≠ t := by omega
        refine ⟨(h.fresh t' ht'').1, ?_⟩
        show updQ s.queue c.id [] (.tx t') = _
        rw [updQ_other _ _ _ _ (hne t' htt)]
        exact (h.fresh t' ht'').2
      · exact h.lockF
    | true =>
      rw [wRollback_live h0 hl, hidu]
      refine ⟨?_, ⟨Nat.le_refl _, rfl, rfl, id⟩⟩
      have hσ : specOf ({ s with queue := updQ s.queue c.id [], opn := upd s.opn t false }.emit
          (.rollback t (if s.faults.rollback then .fail else .ok))).trace =
          { specOf s.trace with pend := upd (specOf s.trace).pend t [] } := by
        cases s.faults.rollback <;> simp [St.emit, specOf_snoc, Spec.step]
      constructor
      · rw [hσ]; exact h.bad
      · rw [hσ]; exact h.pub
      · rw [hσ]
        intro t' ho hx
        simp only [St.emit] at ho ⊢
        by_cases htt : t' = t
        · subst htt; rw [upd_same] at ho; cases ho
        · rw [upd_other _ _ _ _ htt] at ho; exact h.par t' ho hx
      · rw [hσ]
        intro t' ho hx
        simp only [St.emit] at ho ⊢
        by_cases htt : t' = t
        · subst htt; rw [upd_same] at ho; cases ho
        · rw [upd_other _ _ _ _ htt] at ho ⊢
          rw [updQ_other _ _ _ _ (hne t' htt)]
          exact h.queue t' ho hx
      · intro t' ht'
        have ht'' : s.nT < t' := ht'
        have htt : t' ≠ t := by omega
        simp only [St.emit]
        rw [upd_other _ _ _ _ htt, updQ_other _ _ _ _ (hne t' htt)]
        exact h.fresh t' ht''
      · exact h.lockF

end Ledger.Wrap
