import Ledger.Proofs.MachineBC6

/-! Stage (f), part 7: effect of each opcode on the stack shapes the compiler produces. -/
namespace Ledger.Machine

theorem opK_ASSET_mon (a : String) (v : Option Int) (rest : Stack) (st : State) :
    opK OP_ASSET (.val (.monetary a v) :: rest) st = .ok (.val (.asset a) :: rest, st) := by
  simp [opK, step, OP_ASSET, OP_BUMP, OP_DELETE, OP_IADD, OP_ISUB, OP_PRINT, OP_FAIL]

theorem opK_ASSET_asset (a : String) (rest : Stack) (st : State) :
    opK OP_ASSET (.val (.asset a) :: rest) st = .ok (.val (.asset a) :: rest, st) := by
  simp [opK, step, OP_ASSET, OP_BUMP, OP_DELETE, OP_IADD, OP_ISUB, OP_PRINT, OP_FAIL]

theorem opK_ASSET_funding (f : Funding) (rest : Stack) (st : State) :
    opK OP_ASSET (.funding f :: rest) st = .ok (.val (.asset f.asset) :: rest, st) := by
  simp [opK, step, OP_ASSET, OP_BUMP, OP_DELETE, OP_IADD, OP_ISUB, OP_PRINT, OP_FAIL]

theorem opK_MONETARY_NEW (n : Int) (a : String) (rest : Stack) (st : State) :
    opK OP_MONETARY_NEW (.val (.number n) :: .val (.asset a) :: rest) st =
      .ok (.val (.monetary a (some n)) :: rest, st) := by
  simp [opK, step, OP_MONETARY_NEW, OP_ASSET, OP_BUMP, OP_DELETE, OP_IADD, OP_ISUB, OP_PRINT, OP_FAIL, popNumber]

theorem opK_MONETARY_ADD (a b : String) (x y : Option Int) (rest : Stack) (st : State) :
    opK OP_MONETARY_ADD (.val (.monetary b y) :: .val (.monetary a x) :: rest) st =
      if a ≠ b then .error (.run "exec" "add-asset")
      else .ok (.val (.monetary a (some (nilAsZero x + nilAsZero y))) :: rest, st) := by
  simp [opK, step, OP_MONETARY_ADD, OP_MONETARY_NEW, OP_ASSET, OP_BUMP, OP_DELETE, OP_IADD, OP_ISUB, OP_PRINT,
    OP_FAIL, popMonetary]

theorem opK_TAKE_ALL (a : String) (od : Option Int) (acc : String) (rest : Stack) (st : State) :
    opK OP_TAKE_ALL (.val (.monetary a od) :: .val (.account acc) :: rest) st =
      match withdrawAll st.bal acc a od with
      | .error e => .error e
      | .ok (p, b1) => .ok (.funding ⟨a, [p]⟩ :: rest, { st with bal := b1 }) := by
  simp only [opK, step, OP_TAKE_ALL, OP_MAKE_ALLOTMENT, OP_MONETARY_SUB, OP_MONETARY_ADD, OP_MONETARY_NEW, OP_ASSET,
    OP_BUMP, OP_DELETE, OP_IADD, OP_ISUB, OP_PRINT, OP_FAIL, popMonetary, popAccount]
  simp only [Nat.reduceEqDiff, if_false, if_true]
  cases withdrawAll st.bal acc a od with
  | error e => rfl
  | ok r => rfl

theorem opK_TAKE_ALWAYS (a : String) (v : Option Int) (acc : String) (rest : Stack) (st : State) :
    opK OP_TAKE_ALWAYS (.val (.monetary a v) :: .val (.account acc) :: rest) st =
      match needAmt v with
      | .error e => .error e
      | .ok amt => .ok (.funding ⟨a, [(withdrawAlways st.bal acc a amt).1]⟩ :: rest,
          { st with bal := (withdrawAlways st.bal acc a amt).2 }) := by
  cases v <;>
  simp [opK, step, OP_TAKE_ALWAYS, OP_TAKE_ALL, OP_MAKE_ALLOTMENT, OP_MONETARY_SUB, OP_MONETARY_ADD,
    OP_MONETARY_NEW, OP_ASSET, OP_BUMP, OP_DELETE, OP_IADD, OP_ISUB, OP_PRINT, OP_FAIL, popMonetary, popAccount,
    needAmt]

theorem opK_TAKE (a : String) (v : Option Int) (f : Funding) (rest : Stack) (st : State) :
    opK OP_TAKE (.val (.monetary a v) :: .funding f :: rest) st =
      if f.asset ≠ a then .error (.run "exec" "take-asset")
      else
        match needAmt v with
        | .error e => .error e
        | .ok amt =>
          match take f.parts amt with
          | none => .error (.run "exec" "insufficient")
          | some (res, rem) => .ok (.funding ⟨f.asset, res⟩ :: .funding ⟨f.asset, rem⟩ :: rest, st) := by
  simp only [opK, step, OP_TAKE, OP_TAKE_ALWAYS, OP_TAKE_ALL, OP_MAKE_ALLOTMENT, OP_MONETARY_SUB, OP_MONETARY_ADD,
    OP_MONETARY_NEW, OP_ASSET, OP_BUMP, OP_DELETE, OP_IADD, OP_ISUB, OP_PRINT, OP_FAIL, popMonetary, popFunding]
  simp only [Nat.reduceEqDiff, if_false, if_true]
  split
  · rfl
  · cases needAmt v with
    | error e => rfl
    | ok amt =>
      simp only
      cases take f.parts amt with
      | none => rfl
      | some r => rfl

theorem opK_TAKE_MAX (a : String) (v : Option Int) (f : Funding) (rest : Stack) (st : State) :
    opK OP_TAKE_MAX (.val (.monetary a v) :: .funding f :: rest) st =
      match needAmt v with
      | .error e => .error e
      | .ok amt =>
        if amt < 0 then .error (.run "exec" "negative-max")
        else if f.asset ≠ a then .error (.run "exec" "take-asset")
        else .ok (.funding ⟨f.asset, (takeMax f.parts amt).1⟩ :: .funding ⟨f.asset, (takeMax f.parts amt).2⟩ ::
          .val (.monetary a (some (if total f.parts < amt then amt - total f.parts else 0))) :: rest, st) := by
  simp only [opK, step, OP_TAKE_MAX, OP_TAKE, OP_TAKE_ALWAYS, OP_TAKE_ALL, OP_MAKE_ALLOTMENT, OP_MONETARY_SUB,
    OP_MONETARY_ADD, OP_MONETARY_NEW, OP_ASSET, OP_BUMP, OP_DELETE, OP_IADD, OP_ISUB, OP_PRINT, OP_FAIL,
    popMonetary, popFunding]
  simp only [Nat.reduceEqDiff, if_false, if_true]
  cases needAmt v with
  | error e => rfl
  | ok amt => simp only

theorem opK_REPAY (f : Funding) (rest : Stack) (st : State) :
    opK OP_REPAY (.funding f :: rest) st = .ok (rest, { st with bal := repay st.bal f.asset f.parts }) := by
  simp [opK, step, OP_REPAY, OP_FUNDING_REVERSE, OP_FUNDING_SUM, OP_FUNDING_ASSEMBLE, OP_TAKE_MAX, OP_TAKE,
    OP_TAKE_ALWAYS, OP_TAKE_ALL, OP_MAKE_ALLOTMENT, OP_MONETARY_SUB, OP_MONETARY_ADD, OP_MONETARY_NEW, OP_ASSET,
    OP_BUMP, OP_DELETE, OP_IADD, OP_ISUB, OP_PRINT, OP_FAIL, OP_ALLOC, popFunding]

theorem opK_FUNDING_SUM (f : Funding) (rest : Stack) (st : State) :
    opK OP_FUNDING_SUM (.funding f :: rest) st =
      .ok (.val (.monetary f.asset (some (total f.parts))) :: .funding f :: rest, st) := by
  simp [opK, step, OP_FUNDING_SUM, OP_FUNDING_ASSEMBLE, OP_TAKE_MAX, OP_TAKE,
    OP_TAKE_ALWAYS, OP_TAKE_ALL, OP_MAKE_ALLOTMENT, OP_MONETARY_SUB, OP_MONETARY_ADD, OP_MONETARY_NEW, OP_ASSET,
    OP_BUMP, OP_DELETE, OP_IADD, OP_ISUB, OP_PRINT, OP_FAIL, popFunding]

theorem opK_SEND (dest : String) (f : Funding) (rest : Stack) (st : State) :
    opK OP_SEND (.val (.account dest) :: .funding f :: rest) st = .ok (rest, sendTo f.asset dest f.parts st) := by
  simp [opK, step, OP_SEND, OP_ALLOC, OP_REPAY, OP_FUNDING_REVERSE, OP_FUNDING_SUM, OP_FUNDING_ASSEMBLE,
    OP_TAKE_MAX, OP_TAKE, OP_TAKE_ALWAYS, OP_TAKE_ALL, OP_MAKE_ALLOTMENT, OP_MONETARY_SUB, OP_MONETARY_ADD,
    OP_MONETARY_NEW, OP_ASSET, OP_BUMP, OP_DELETE, OP_IADD, OP_ISUB, OP_PRINT, OP_FAIL, popFunding, popAccount]

theorem opK_DELETE_val (v : Value) (rest : Stack) (st : State) :
    opK OP_DELETE (.val v :: rest) st = .ok (rest, st) := by
  simp [opK, step, OP_DELETE, OP_BUMP]

/-- OP_FUNDING_ASSEMBLE of two fundings (top = the later one). -/
theorem opK_ASSEMBLE2 (f2 f1 : Funding) (rest : Stack) (st : State) :
    opK OP_FUNDING_ASSEMBLE (.val (.number 2) :: .funding f2 :: .funding f1 :: rest) st =
      if f1.asset ≠ f2.asset then .error (.run "exec" "assemble-asset")
      else .ok (.funding ⟨f2.asset, concatParts f1.parts f2.parts⟩ :: rest, st) := by
  simp only [opK, step, OP_FUNDING_ASSEMBLE, OP_TAKE_MAX, OP_TAKE, OP_TAKE_ALWAYS, OP_TAKE_ALL, OP_MAKE_ALLOTMENT,
    OP_MONETARY_SUB, OP_MONETARY_ADD, OP_MONETARY_NEW, OP_ASSET, OP_BUMP, OP_DELETE, OP_IADD, OP_ISUB, OP_PRINT,
    OP_FAIL, popNumber, popFunding]
  simp only [Nat.reduceEqDiff, if_false, if_true]
  have : (2 : Int).toNat = 2 := rfl
  simp only [this, Nat.reduceSub, Nat.succ_ne_zero, if_false, popFundings]
  by_cases h : f1.asset = f2.asset
  · simp [h, concatAll, concatParts]
  · simp [h]

end Ledger.Machine
