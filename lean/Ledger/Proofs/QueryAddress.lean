import Ledger.Query.Address

/-! Lemmas about address splitting and address patterns (C20). -/
namespace Ledger.Query

theorem joinColon_cons_cons (s t : Seg) (r : List Seg) :
    joinColon (s :: t :: r) = s ++ ':' :: joinColon (t :: r) := rfl

/-- `strings.Join(strings.Split(s, ":"), ":") = s`. -/
theorem joinColon_segments (s : List Char) : joinColon (segments s) = s := by
  unfold segments
  induction s with
  | nil => rfl
  | cons c cs ih =>
    simp only [splitColon]
    by_cases h : c = ':'
    · subst h
      simp only [↓reduceIte]
      rw [joinColon_cons_cons, ih]; rfl
    · simp only [h, ↓reduceIte]
      cases hr : (splitColon cs).2 with
      | nil => rw [hr] at ih; simp only [joinColon] at ih ⊢; rw [ih]
      | cons t r =>
        rw [hr] at ih
        rw [joinColon_cons_cons] at ih ⊢
        rw [List.cons_append, ih]

/-- Two addresses with the same segments are equal. -/
theorem segments_injective {a b : List Char} (h : segments a = segments b) : a = b := by
  rw [← joinColon_segments a, ← joinColon_segments b, h]

theorem mem_constraintsFrom (src : List Seg) (k i : Nat) (s : Seg) :
    (i, s) ∈ constraintsFrom src k ↔
      k ≤ i ∧ src[i - k]? = some s ∧ s.isEmpty = false ∧ (s == dots) = false := by
  induction src generalizing k with
  | nil => simp [constraintsFrom]
  | cons t rest ih =>
    unfold constraintsFrom
    by_cases ht : (t.isEmpty || t == dots) = true
    · rw [if_pos ht, ih]
      constructor
      · rintro ⟨hk, hget, h1, h2⟩
        refine ⟨by omega, ?_, h1, h2⟩
        have : i - k = (i - (k + 1)) + 1 := by omega
        rw [this, List.getElem?_cons_succ]; exact hget
      · rintro ⟨hk, hget, h1, h2⟩
        rcases Nat.eq_or_lt_of_le hk with rfl | hlt
        · simp only [Nat.sub_self, List.getElem?_cons_zero, Option.some.injEq] at hget
          subst hget
          simp [h1, h2] at ht
        · refine ⟨by omega, ?_, h1, h2⟩
          have : i - k = (i - (k + 1)) + 1 := by omega
          rw [this, List.getElem?_cons_succ] at hget; exact hget
    · rw [if_neg ht]
      simp only [Bool.or_eq_true, not_or, Bool.not_eq_true] at ht
      rw [List.mem_cons, ih]
      constructor
      · rintro (heq | ⟨hk, hget, h1, h2⟩)
        · cases heq
          exact ⟨Nat.le_refl _, by simp, ht.1, ht.2⟩
        · refine ⟨by omega, ?_, h1, h2⟩
          have : i - k = (i - (k + 1)) + 1 := by omega
          rw [this, List.getElem?_cons_succ]; exact hget
      · rintro ⟨hk, hget, h1, h2⟩
        rcases Nat.eq_or_lt_of_le hk with rfl | hlt
        · simp only [Nat.sub_self, List.getElem?_cons_zero, Option.some.injEq] at hget
          left; rw [hget]
        · right
          refine ⟨by omega, ?_, h1, h2⟩
          have : i - k = (i - (k + 1)) + 1 := by omega
          rw [this, List.getElem?_cons_succ] at hget; exact hget

/-- What a partial pattern demands of an account. -/
theorem matches_part_iff (len : Option Nat) (src a : List Seg) :
    matchesAddress (.part len (constraintsFrom src 0)) a = true ↔
      (∀ n, len = some n → a.length = n) ∧
      ∀ (i : Nat) (s : Seg), src[i]? = some s → s.isEmpty = false → (s == dots) = false →
        a[i]? = some s := by
  unfold matchesAddress
  simp only [Bool.and_eq_true, List.all_eq_true, beq_iff_eq]
  constructor
  · rintro ⟨hlen, hcs⟩
    refine ⟨?_, ?_⟩
    · intro n hn; subst hn; simpa using hlen
    · intro i s hget h1 h2
      have := hcs (i, s) ((mem_constraintsFrom src 0 i s).mpr ⟨Nat.zero_le _, by simpa using hget, h1, h2⟩)
      simpa using this
  · rintro ⟨hlen, hcs⟩
    refine ⟨?_, ?_⟩
    · cases len with
      | none => rfl
      | some n => simpa using hlen n rfl
    · rintro ⟨i, s⟩ hmem
      obtain ⟨_, hget, h1, h2⟩ := (mem_constraintsFrom src 0 i s).mp hmem
      simpa using hcs i s (by simpa using hget) h1 h2

/-- **Exact address**: no empty segment and no final `...` — the filter selects the
    account with exactly that address. -/
theorem matches_exact (src a : List Seg) (h : isPartial src = false) :
    matchesAddress (Pattern.ofSegs src) a = true ↔ a = src := by
  unfold Pattern.ofSegs
  rw [if_neg (by simp [h])]
  simp only [matchesAddress, beq_iff_eq]
  exact eq_comm

/-- **Partial address `a::c`** (some empty segment, not ending in `...`): same number
    of segments, and every non-empty segment (other than a literal `...`) equal. -/
theorem matches_partial (src a : List Seg) (hp : isPartial src = true)
    (hl : (src.getLast? == some dots) = false) :
    matchesAddress (Pattern.ofSegs src) a = true ↔
      a.length = src.length ∧
      ∀ (i : Nat) (s : Seg), src[i]? = some s → s.isEmpty = false → (s == dots) = false →
        a[i]? = some s := by
  unfold Pattern.ofSegs lenConstraint
  simp only [hp, ↓reduceIte, hl, Bool.false_eq_true]
  rw [matches_part_iff]
  constructor
  · rintro ⟨h1, h2⟩; exact ⟨h1 _ rfl, h2⟩
  · rintro ⟨h1, h2⟩; exact ⟨fun n hn => by cases hn; exact h1, h2⟩

/-- **Prefix address `a:b:...`**: the account starts with the given segments (any
    number of further segments, including none). -/
theorem matches_prefix (q a : List Seg)
    (hq : ∀ s ∈ q, s.isEmpty = false ∧ (s == dots) = false) :
    matchesAddress (Pattern.ofSegs (q ++ [dots])) a = true ↔ q <+: a := by
  have hp : isPartial (q ++ [dots]) = true := by simp [isPartial]
  have hl : ((q ++ [dots]).getLast? == some dots) = true := by simp
  unfold Pattern.ofSegs lenConstraint
  simp only [hp, ↓reduceIte, hl]
  rw [matches_part_iff]
  constructor
  · rintro ⟨_, h2⟩
    rw [List.prefix_iff_eq_take]
    apply List.ext_getElem?
    intro i
    by_cases hi : i < q.length
    · have hs := hq q[i] (List.getElem_mem hi)
      have := h2 i q[i] (by rw [List.getElem?_append_left hi]; simp [hi]) hs.1 hs.2
      rw [List.getElem?_take_of_lt hi, this]; simp [hi]
    · rw [List.getElem?_eq_none (by omega), List.getElem?_take_eq_none (by omega)]
  · intro hpre
    refine ⟨(fun n hn => by cases hn), ?_⟩
    intro i s hget h1 h2
    obtain ⟨t, rfl⟩ := hpre
    by_cases hi : i < q.length
    · rw [List.getElem?_append_left hi] at hget
      rw [List.getElem?_append_left hi]; exact hget
    · have : i = q.length := by
        rcases Nat.lt_or_ge q.length i with hgt | hle
        · rw [List.getElem?_eq_none (by simp; omega)] at hget; cases hget
        · omega
      subst this
      simp at hget
      subst hget
      simp at h2

/-- A pattern built from an address matches that address (used for `$in` members,
    which are pushed into the lateral join as patterns). -/
theorem matches_self (src : List Seg) : matchesAddress (Pattern.ofSegs src) src = true := by
  unfold Pattern.ofSegs
  split
  · rw [matches_part_iff]
    refine ⟨?_, fun i s h _ _ => h⟩
    intro n hn
    unfold lenConstraint at hn
    split at hn
    · cases hn
    · cases hn; rfl
  · simp [matchesAddress]

theorem lookup_explodeFrom (a : List Seg) (k j : Nat) :
    (explodeFrom a k).lookup j =
      if j < k then none
      else if h : j - k < a.length then some (some a[j - k])
      else if j - k = a.length then some none else none := by
  induction a generalizing k with
  | nil =>
    simp only [explodeFrom, List.lookup, List.length_nil, Nat.not_lt_zero, ↓reduceDIte]
    by_cases hjk : j = k
    · subst hjk; simp
    · have : (j == k) = false := by simpa using hjk
      simp only [this]
      by_cases h1 : j < k
      · simp [h1]
      · simp only [h1, ↓reduceIte]
        rw [if_neg (by omega)]
  | cons s t ih =>
    simp only [explodeFrom, List.lookup]
    by_cases hjk : j = k
    · subst hjk; simp
    · have : (j == k) = false := by simpa using hjk
      simp only [this, ih, List.length_cons]
      by_cases h1 : j < k
      · simp [h1, show j < k + 1 by omega]
      · have h2 : ¬ j < k + 1 := by omega
        simp only [h1, h2, ↓reduceIte]
        have e : j - k = (j - (k + 1)) + 1 := by omega
        by_cases h3 : j - (k + 1) < t.length
        · have h4 : j - k < t.length + 1 := by omega
          simp only [h3, h4, ↓reduceDIte]
          congr 2
          simp only [e, List.getElem_cons_succ]
        · have h4 : ¬ j - k < t.length + 1 := by omega
          simp only [h3, h4, ↓reduceDIte]
          by_cases h5 : j - (k + 1) = t.length
          · simp [h5, show j - k = t.length + 1 by omega]
          · simp [h5, show ¬ j - k = t.length + 1 by omega]

/-- **Transactions**: jsonb containment of the pattern's object in the exploded
    address (`sources_arrays @> '[{…}]'`) is the same condition as the jsonpath /
    length form used for accounts. -/
theorem mapContains_explode (len : Option Nat) (cs : List (Nat × Seg)) (a : List Seg) :
    mapContains (Pattern.toMap (.part len cs)) (explode a) = matchesAddress (.part len cs) a := by
  unfold mapContains Pattern.toMap matchesAddress explode
  rw [List.all_append, Bool.and_comm]
  congr 1
  · cases len with
    | none => simp
    | some n =>
      simp only [List.all_cons, List.all_nil, Bool.and_true, lookup_explodeFrom, Nat.not_lt_zero,
        ↓reduceIte, Nat.sub_zero]
      by_cases h1 : n < a.length
      · simp [h1]; omega
      · by_cases h2 : n = a.length
        · simp [h2]
        · simp [h1, h2]; omega
  · rw [List.all_map]
    apply List.all_congr rfl
    intro c
    simp only [Function.comp, lookup_explodeFrom, Nat.not_lt_zero, ↓reduceIte, Nat.sub_zero]
    by_cases h1 : c.1 < a.length
    · simp [h1]
    · by_cases h2 : c.1 = a.length
      · simp [h2]
      · simp [h1, h2]

end Ledger.Query
