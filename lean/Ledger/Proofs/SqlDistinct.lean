import Ledger.Proofs.SqlWindow

/-!
# DISTINCT ON without ORDER BY, over one `first_value` window function

`SELECT DISTINCT ON (d₁, …) e₁, … , first_value(a) OVER (PARTITION BY p ORDER BY o) FROM … WHERE c` — LeanPG's `evalSelect` against
pure list functions: filter, compute the window value of every row, project, sort by the DISTINCT ON keys, keep the first row of
every key (`exec_evalSelect_window_distinct`).
-/
namespace Ledger.Sql

theorem anyM_map_ok {α β : Type} (f : α → R Bool) (e : β → α) (g : β → Bool) : ∀ (l : List β), (∀ b ∈ l, f (e b) = .ok (g b)) →
    (l.map e).anyM f = .ok (l.any g) := by
  intro l
  induction l with
  | nil => intro _; rfl
  | cons a l ih =>
    intro h
    simp only [List.map_cons, List.anyM, h a (by simp), bind, Except.bind, List.any_cons]
    cases g a
    · simpa using ih (fun x hx => h x (by simp [hx]))
    · rfl

/-! ### keeping the first row of every key -/

def dStep {D β : Type} [DecidableEq D] (acc : List (D × β)) (p : D × β) : List (D × β) :=
  if acc.any (fun q => decide (p.1 = q.1)) then acc else acc ++ [p]

theorem foldl_dStep_sublist {D β : Type} [DecidableEq D] : ∀ (l acc P : List (D × β)), acc.Sublist P →
    (l.foldl dStep acc).Sublist (P ++ l) := by
  intro l
  induction l with
  | nil => intro acc P h; simpa using h
  | cons p l ih =>
    intro acc P h
    rw [List.foldl_cons]
    have : (dStep acc p).Sublist (P ++ [p]) := by
      unfold dStep
      split
      · exact h.trans (List.sublist_append_left P [p])
      · exact List.Sublist.append h (List.Sublist.refl [p])
    have := ih _ _ this
    simpa [List.append_assoc] using this

theorem foldl_dStep_nodup {D β : Type} [DecidableEq D] : ∀ (l acc : List (D × β)), (acc.map (·.1)).Nodup →
    ((l.foldl dStep acc).map (·.1)).Nodup := by
  intro l
  induction l with
  | nil => intro acc h; exact h
  | cons p l ih =>
    intro acc h
    rw [List.foldl_cons]
    apply ih
    unfold dStep
    split
    · exact h
    · rename_i hany
      rw [List.map_append, List.nodup_append]
      refine ⟨h, by simp, ?_⟩
      intro a ha b hb e
      simp only [List.map_cons, List.map_nil, List.mem_singleton] at hb
      subst hb e
      apply hany
      obtain ⟨q, hq, hqe⟩ := List.mem_map.mp ha
      exact List.any_eq_true.mpr ⟨q, hq, by simp [hqe]⟩

theorem foldl_dStep_cover {D β : Type} [DecidableEq D] : ∀ (l acc : List (D × β)) (k : D),
    (k ∈ acc.map (·.1) ∨ k ∈ l.map (·.1)) → k ∈ (l.foldl dStep acc).map (·.1) := by
  intro l
  induction l with
  | nil => intro acc k h; rcases h with h | h; exact h; cases h
  | cons p l ih =>
    intro acc k h
    rw [List.foldl_cons]
    apply ih
    rcases h with h | h
    · left
      unfold dStep
      split
      · exact h
      · rw [List.map_append]; exact List.mem_append_left _ h
    · simp only [List.map_cons, List.mem_cons] at h
      rcases h with h | h
      · left
        subst h
        unfold dStep
        split
        · rename_i hany
          obtain ⟨q, hq, hqe⟩ := List.any_eq_true.mp hany
          simp only [decide_eq_true_eq] at hqe
          rw [hqe]
          exact List.mem_map.mpr ⟨q, hq, rfl⟩
        · simp
      · right; exact h

def encD {D : Type} (kvD : D → List Value) (p : D × OutRow) : List Value × OutRow := (kvD p.1, p.2)

theorem exec_foldlM_dedup {D : Type} [DecidableEq D] (kvD : D → List Value)
    (F : List (List Value × OutRow) → List Value × OutRow → M (List (List Value × OutRow))) (s : St)
    (hF : ∀ (acc : List (D × OutRow)) (p : D × OutRow), (F (acc.map (encD kvD)) (encD kvD p)).exec s = (.ok ((dStep acc p).map (encD kvD)), s)) :
    ∀ (l acc : List (D × OutRow)), ((l.map (encD kvD)).foldlM F (acc.map (encD kvD))).exec s = (.ok ((l.foldl dStep acc).map (encD kvD)), s) := by
  intro l
  induction l with
  | nil => intro acc; simp
  | cons p l ih =>
    intro acc
    simp only [List.map_cons, exec_foldlM_cons, hF, List.foldl_cons]
    exact ih _

/-! ### the SELECT -/

/-- the output row of an input row whose window function (id `id`) has the value `v` -/
def outRowW (proj : List Scope → Value → List Value) (id : Nat) (L : List Scope) (v : Value) : OutRow :=
  { vals := proj L v, srcs := L.filterMap (·.src), locals := L, group := none, wins := [(id, v)] }

theorem mem_zip_range {β : Type} (l : List β) (u : β) (hu : u ∈ l) : ∃ i, (i, u) ∈ (List.range l.length).zip l := by
  obtain ⟨i, hi, e⟩ := List.mem_iff_getElem.mp hu
  refine ⟨i, ?_⟩
  have hlen : i < ((List.range l.length).zip l).length := by simpa using hi
  have : ((List.range l.length).zip l)[i] = (i, u) := by simp [e]
  rw [← this]
  exact List.getElem_mem hlen

theorem zip_range_inj {β : Type} (l : List β) : ∀ x ∈ (List.range l.length).zip l, ∀ y ∈ (List.range l.length).zip l, x.1 = y.1 → x = y := by
  have key : ∀ x ∈ (List.range l.length).zip l, ∃ (h : x.1 < l.length), x.2 = l[x.1] := by
    intro x hx
    obtain ⟨i, hi, rfl⟩ := List.mem_iff_getElem.mp hx
    have hi' : i < l.length := by simpa using hi
    refine ⟨by simpa using hi', by simp⟩
  intro x hx y hy e
  obtain ⟨h1, e1⟩ := key x hx
  obtain ⟨h2, e2⟩ := key y hy
  obtain ⟨x1, x2⟩ := x
  obtain ⟨y1, y2⟩ := y
  simp only at e h1 h2 e1 e2
  subst e
  rw [e1, e2]

/-- `SELECT DISTINCT ON (d…) e… FROM … WHERE c` with exactly one window function, `first_value`, and no ORDER BY / GROUP BY -/
theorem exec_evalSelect_window_distinct {K D : Type} [DecidableEq K] [DecidableEq D] (n : Nat) (env : Env) (es : List (Expr × String))
    (from_ : List FromItem) (wher : Expr) (dcols : List String) (hd : dcols ≠ []) (s : St) (Ls : List (List Scope)) (w : List Scope → Bool)
    (ws : WinSpec) (hname : ws.name = "first_value")
    (pf : List Scope → K) (kvP : K → List Value) (okf af : List Scope → List Value)
    (df : List Scope → D) (kvD : D → List Value) (dval : List Scope → String → Value)
    (proj : List Scope → Value → List Value)
    (hfrom : (evalFromList (n + 1) env from_ [[]]).exec s = (.ok Ls, s))
    (hwhere : ∀ L ∈ Ls, (do
        let v ← evalExpr (cbs (n + 1)) s.w.types { env with locals := L } wher
        pure ((← liftR v.truth) == some true)).exec s = (.ok (w L), s))
    (hagg : Expr.anyHasAgg (es.map (·.1)) = false)
    (hwins : Expr.winsList (es.map (·.1)) = [ws])
    (hpk : ∀ L ∈ Ls, w L = true →
      (evalExprs (cbs (n + 1)) s.w.types { env with locals := L, group := none } ws.partition).exec s = (.ok (kvP (pf L)), s))
    (hok : ∀ L ∈ Ls, w L = true →
      (evalOrderKeys (cbs (n + 1)) s.w.types { env with locals := L, group := none } ws.order).exec s = (.ok (okf L), s))
    (harg : ∀ L ∈ Ls, w L = true →
      (evalExprs (cbs (n + 1)) s.w.types { env with locals := L, group := none } ws.args).exec s = (.ok (af L), s))
    (hsameP : ∀ a b, sameGroupKey (kvP a) (kvP b) = .ok (decide (a = b)))
    (hlen : ∀ L, (okf L).length = (orderDescs ws.order).length)
    (c : List Value → List Value → Ordering) (S : List Value → Prop)
    (hcmp : CmpOk (fun (a b : List Value × (Nat × List Value)) => cmpOrderKeys a.1 b.1 (orderDescs ws.order) (orderNulls ws.order))
      (fun a b => c a.1 b.1) (fun a => S a.1))
    (hS : ∀ L, S (okf L))
    (hproj : ∀ L ∈ Ls, w L = true → ∀ v,
      (evalExprs (cbs (n + 1)) s.w.types { env with locals := L, group := none, wins := [(ws.id, v)] } (es.map (·.1))).exec s =
        (.ok (proj L v), s))
    (hdin : ∀ L ∈ Ls, ∀ c ∈ dcols, (lookupUnqualified (L ++ env.outer) c).isSome = true)
    (hdval : ∀ L ∈ Ls, w L = true → ∀ v, ∀ c ∈ dcols,
      (evalExpr (cbs (n + 1)) s.w.types { env with locals := L, group := none, wins := [(ws.id, v)] } (Expr.col "" c)).exec s =
        (.ok (dval L c), s))
    (hkd : ∀ L, dcols.map (dval L) = kvD (df L))
    (hsameD : ∀ a b, sameGroupKey (kvD a) (kvD b) = .ok (decide (a = b)))
    (cD : List Value → List Value → Ordering) (SD : List Value → Prop)
    (hcmpD : CmpOk (fun (a b : List Value × (List Value × OutRow)) => cmpOrderKeys a.1 b.1 ((dcols.map (Expr.col "")).map (fun _ => false))
        ((dcols.map (Expr.col "")).map (fun _ => NullsOrder.dflt))) (fun a b => cD a.1 b.1) (fun a => SD a.1))
    (hSD : ∀ d, SD (kvD d)) :
    ∃ (res : List OutRow) (fvs : K → Value),
      (evalSelect (n + 2) env (Select.mk false (dcols.map (Expr.col "")) (es.map (fun p => SelItem.expr p.1 p.2)) from_ (some wher) [] none) []).exec s =
        (.ok (outNames es, res), s) ∧
      (∀ r ∈ res, ∃ L ∈ Ls.filter w, r = outRowW proj ws.id L (fvs (pf L))) ∧
      (res.map (fun r => df r.locals)).Nodup ∧
      (∀ L ∈ Ls.filter w, df L ∈ res.map (fun r => df r.locals)) ∧
      (res.map (fun r => kvD (df r.locals))).Pairwise (fun a b => cD b a ≠ .lt) ∧
      (∀ k ∈ (Ls.filter w).map pf, ∃ h ∈ Ls.filter w, pf h = k ∧ fvs k = (af h).headD .null ∧
        ∀ y ∈ Ls.filter w, pf y = k → c (okf y) (okf h) ≠ .lt) := by
  have hF : ∀ (F : (List String × List Expr) → SelItem → M (List String × List Expr))
      (hF : ∀ acc e a s, (F acc (.expr e a)).exec s = (.ok (acc.1 ++ [if a.isEmpty then exprOutName e else a], acc.2 ++ [e]), s)),
      ((es.map (fun p => SelItem.expr p.1 p.2)).foldlM F ([], [])).exec s = (.ok (outNames es, es.map (·.1)), s) := by
    intro F hF
    have := exec_foldlM_exprItems F hF es ([], []) s
    simpa using this
  have hfilter := exec_filterM _ w Ls s hwhere
  generalize hR : Ls.filter w = R at hfilter ⊢
  have hRm : ∀ L ∈ R, L ∈ Ls ∧ w L = true := by intro L hL; rw [← hR] at hL; exact List.mem_filter.mp hL
  -- the units and their indices
  generalize hU : R.map (fun L => (L, (none : Option (List (List Scope))))) = units
  have hUm : ∀ x ∈ (List.range units.length).zip units, x.2.2 = none ∧ x.2.1 ∈ R := by
    intro x hx
    have := (List.of_mem_zip hx).2
    rw [← hU] at this
    obtain ⟨L, hL, e⟩ := List.mem_map.mp this
    rw [← e]
    exact ⟨rfl, hL⟩
  -- the window values
  obtain ⟨vals, fvs, hcw, hlook, hmax⟩ := computeWindow_first_value ((List.range units.length).zip units) (fun x => x.1) (fun x => pf x.2.1) kvP
    (fun x => okf x.2.1) (fun x => af x.2.1) (orderDescs ws.order) (orderNulls ws.order) hsameP (fun x _ => hlen x.2.1) c S hcmp
    (fun x _ => hS x.2.1) (zip_range_inj units)
  -- the output rows
  have hmz := map_zip_range units (fun u => outRowW proj ws.id u.1 (fvs (pf u.1)))
  have hdne : (dcols.map (Expr.col "")).isEmpty = false := by
    cases dcols with
    | nil => exact absurd rfl hd
    | cons a as => rfl
  -- sorting by the DISTINCT ON keys
  obtain ⟨ys, hys1, hys2, hys3⟩ := sortKeyed_spec ((dcols.map (Expr.col "")).map (fun _ => false))
    ((dcols.map (Expr.col "")).map (fun _ => NullsOrder.dflt)) cD SD hcmpD
    ((R.map (fun L => (kvD (df L), outRowW proj ws.id L (fvs (pf L))))).map (fun (p : List Value × OutRow) => (p.1, (p.1, p.2))))
    (by
      intro a ha
      obtain ⟨p, hp, rfl⟩ := List.mem_map.mp ha
      obtain ⟨L, _, rfl⟩ := List.mem_map.mp hp
      exact hSD _)
  -- every sorted pair is a keyed output row
  have hysm : ∀ y ∈ ys, ∃ L ∈ R, y = (kvD (df L), (kvD (df L), outRowW proj ws.id L (fvs (pf L)))) := by
    intro y hy
    obtain ⟨p, hp, rfl⟩ := List.mem_map.mp ((hys2.mem_iff).mp hy)
    obtain ⟨L, hL, rfl⟩ := List.mem_map.mp hp
    exact ⟨L, hL, rfl⟩
  generalize htl : ys.map (fun y => (df y.2.2.locals, y.2.2)) = tl
  have htlenc : tl.map (encD kvD) = ys.map (·.2) := by
    rw [← htl, List.map_map]
    apply List.map_congr_left
    intro y hy
    obtain ⟨L, _, rfl⟩ := hysm y hy
    rfl
  have hsub : (tl.foldl dStep []).Sublist tl := by
    have := foldl_dStep_sublist tl [] [] (List.Sublist.refl _)
    simpa using this
  have htlfst : ∀ p ∈ tl, p.1 = df p.2.locals := by
    intro p hp
    rw [← htl] at hp
    obtain ⟨y, _, rfl⟩ := List.mem_map.mp hp
    rfl
  have hresk : ((tl.foldl dStep []).map (·.2)).map (fun r => df r.locals) = (tl.foldl dStep []).map (·.1) := by
    rw [List.map_map]
    apply List.map_congr_left
    intro p hp
    exact (htlfst p (hsub.subset hp)).symm
  refine ⟨(tl.foldl dStep []).map (·.2), fvs, ?_, ?_, ?_, ?_, ?_, ?_⟩
  · rw [evalSelect]
    simp only [exec_bind, exec_typeEnv, hfrom, hfilter]
    rw [hF _ (by intro acc e a s'; rfl)]
    simp only [List.isEmpty_nil, Bool.not_true, Bool.false_or, hagg, List.any_nil, Bool.or_false, Bool.false_eq_true, if_false, exec_pure,
      exec_bind, hU, List.map_nil, Expr.winsList, List.append_nil, hwins, exec_foldlM_cons, List.foldlM_nil]
    rw [exec_mapM_pure _ (fun (x : Nat × List Scope × Option (List (List Scope))) => (x.1, kvP (pf x.2.1), okf x.2.1, af x.2.1))]
    · simp only [hname, hcw, exec_liftR_ok, exec_pure, exec_bind, List.nil_append, List.map_cons, List.map_nil]
      rw [exec_mapM_pure _ (fun (x : Nat × List Scope × Option (List (List Scope))) => outRowW proj ws.id x.2.1 (fvs (pf x.2.1)))]
      · rw [hmz]
        simp only [sortOut, exec_pure, hdne, Bool.not_false, if_true, exec_bind]
        rw [exec_mapM_pure _ (fun (r : OutRow) => (kvD (df r.locals), r))]
        · simp only [List.isEmpty_nil, if_true, exec_bind]
          have hk : (units.map (fun u => outRowW proj ws.id u.1 (fvs (pf u.1)))).map (fun (r : OutRow) => (kvD (df r.locals), r)) =
              R.map (fun L => (kvD (df L), outRowW proj ws.id L (fvs (pf L)))) := by
            rw [← hU, List.map_map, List.map_map]
            rfl
          rw [hk, sortValuesBy_eq _ _ _ ys hys1]
          simp only [exec_liftR_ok, exec_pure, exec_bind, ← htlenc]
          have h0 : ([] : List (List Value × OutRow)) = ([] : List (D × OutRow)).map (encD kvD) := rfl
          rw [h0, exec_foldlM_dedup kvD _ s]
          · simp only [List.map_map]
            rfl
          · intro acc p
            obtain ⟨d, r⟩ := p
            have hany : List.anyM (fun (x : List Value × OutRow) => sameGroupKey (encD kvD (d, r)).1 x.1) (acc.map (encD kvD)) =
                (Except.ok (acc.any (fun q => decide (d = q.1))) : Except Err Bool) :=
              anyM_map_ok (fun (x : List Value × OutRow) => sameGroupKey (encD kvD (d, r)).1 x.1) (encD kvD) (fun q => decide (d = q.1)) acc
                (fun a _ => hsameD d a.1)
            simp only [exec_bind, hany, exec_liftR_ok]
            unfold dStep
            cases acc.any (fun q => decide (d = q.1)) <;> simp [encD, exec_pure]
        · intro r hr
          obtain ⟨u, hu, rfl⟩ := List.mem_map.mp hr
          rw [← hU] at hu
          obtain ⟨L, hL, rfl⟩ := List.mem_map.mp hu
          have hLm := hRm L hL
          simp only [outRowW]
          rw [exec_bind, exec_mapM_pure _ (fun e => match e with | Expr.col _ c => dval L c | _ => Value.null)]
          · simp only [List.map_map, exec_pure]
            have : (dcols.map ((fun e => match e with | Expr.col _ c => dval L c | _ => Value.null) ∘ Expr.col "")) = dcols.map (dval L) := rfl
            rw [this, hkd]
          · intro e he
            obtain ⟨c, hc, rfl⟩ := List.mem_map.mp he
            simp only [hdin L hLm.1 c hc, if_true]
            exact hdval L hLm.1 hLm.2 _ c hc
      · intro x hx
        obtain ⟨hx1, hx2⟩ := hUm x hx
        have hl := hlook x hx
        obtain ⟨i, L, g⟩ := x
        simp only at hx1 hx2 hl
        subst hx1
        have hL := hRm L hx2
        simp only [hl, Option.getD_some, exec_bind, hproj L hL.1 hL.2, exec_pure]
        rfl
    · intro x hx
      obtain ⟨hx1, hx2⟩ := hUm x hx
      obtain ⟨i, L, g⟩ := x
      simp only at hx1 hx2
      subst hx1
      have hL := hRm L hx2
      simp only [exec_bind, hpk L hL.1 hL.2, hok L hL.1 hL.2, harg L hL.1 hL.2, exec_pure]
  · -- every result row is an output row
    intro r hr
    obtain ⟨p, hp, rfl⟩ := List.mem_map.mp hr
    have hp' := hsub.subset hp
    rw [← htl] at hp'
    obtain ⟨y, hy, rfl⟩ := List.mem_map.mp hp'
    obtain ⟨L, hL, rfl⟩ := hysm y hy
    exact ⟨L, hL, rfl⟩
  · rw [hresk]
    exact foldl_dStep_nodup tl [] List.nodup_nil
  · intro L hL
    rw [hresk]
    apply foldl_dStep_cover tl [] (df L) (Or.inr ?_)
    rw [← htl, List.map_map]
    have : (kvD (df L), (kvD (df L), outRowW proj ws.id L (fvs (pf L)))) ∈ ys :=
      (hys2.mem_iff).mpr (List.mem_map.mpr ⟨_, List.mem_map.mpr ⟨L, hL, rfl⟩, rfl⟩)
    exact List.mem_map.mpr ⟨_, this, rfl⟩
  · have h1 : tl.Pairwise (fun p q => cD (kvD q.1) (kvD p.1) ≠ .lt) := by
      rw [← htl, List.pairwise_map]
      apply hys3.imp_of_mem
      intro a b ha hb hab
      obtain ⟨La, _, rfl⟩ := hysm a ha
      obtain ⟨Lb, _, rfl⟩ := hysm b hb
      exact hab
    have h2 := h1.sublist hsub
    rw [List.map_map, List.pairwise_map]
    apply h2.imp_of_mem
    intro a b ha hb hab
    have ea := htlfst a (hsub.subset ha)
    have eb := htlfst b (hsub.subset hb)
    simp only [Function.comp]
    rw [← ea, ← eb]
    exact hab
  · intro k hk
    obtain ⟨L, hL, rfl⟩ := List.mem_map.mp hk
    obtain ⟨i, hi⟩ := mem_zip_range units (L, none) (by rw [← hU]; exact List.mem_map.mpr ⟨L, hL, rfl⟩)
    obtain ⟨h, hh, hpf, hfv, hmx⟩ := hmax (pf L) (List.mem_map.mpr ⟨_, hi, rfl⟩)
    refine ⟨h.2.1, (hUm h hh).2, hpf, hfv, ?_⟩
    intro y hy hyk
    obtain ⟨j, hj⟩ := mem_zip_range units (y, none) (by rw [← hU]; exact List.mem_map.mpr ⟨y, hy, rfl⟩)
    exact hmx _ hj hyk

end Ledger.Sql
