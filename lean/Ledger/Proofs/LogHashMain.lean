import Ledger.Proofs.LogHash

/-!
C10 main lemma: under `SafeChars` the digest preimage built by the GENERATED
`set_log_hash` equals the preimage of `Log.ComputeHash`; plus the concrete
witness logs used by the counterexample theorems of Props/C10 and Props/C09.
-/
namespace Ledger.Log
set_option linter.unusedSimpArgs false
open Ledger.Generated

theorem rowOfLog_safe (ledger : Bytes) (id : Nat) (log : Log) (prev : PrevHash) (m : Bytes)
    (hm : mementoBytes log.payload = .ok m)
    (h : SafeChars bunTags.dateNullZero log prev = true) :
    ∃ ikv sv, rowOfLog bunTags ledger id log = .ok (mkRow ledger id log.payload.type.label m (tsOfDate log.date) ikv sv .null)
      ∧ ikText ikv = some log.idempotencyKey := by
  simp only [SafeChars, Bool.and_eq_true, decide_eq_true_eq] at h
  obtain ⟨⟨⟨⟨hik, hsv⟩, hd⟩, hh⟩, _⟩ := h
  have hz : (bunTags.dateNullZero && isZeroDate log.date) = false := by
    simp only [safeDate, Bool.and_eq_true, Bool.not_eq_true'] at hd
    exact hd.2
  have hpg := pgTextOk_safe hik
  have hnil : pgTextOk [] = true := by decide
  simp only [rowOfLog, hm, hz, timestampIn_safe hd, hsv, hh, Bool.false_eq_true, if_false]
  by_cases hnz : bunTags.idempotencyKeyNullZero = true ∧ log.idempotencyKey = []
  · refine ⟨.null, ?_⟩
    by_cases hs : bunTags.schemaVersionNullZero = true
    · exact ⟨.null, by simp [textParam, hnz.1, hnz.2, hs, mkRow, ikText]⟩
    · exact ⟨.text [], by simp [textParam, hnz.1, hnz.2, hs, mkRow, ikText, hnil]⟩
  · refine ⟨.text log.idempotencyKey, ?_⟩
    have h1 : (bunTags.idempotencyKeyNullZero && decide (log.idempotencyKey = [])) = false := by
      simp only [not_and] at hnz
      cases hb : bunTags.idempotencyKeyNullZero
      · rfl
      · simp [hnz hb]
    by_cases hs : bunTags.schemaVersionNullZero = true
    · exact ⟨.null, by simp [textParam, h1, hpg, hs, mkRow, ikText]⟩
    · exact ⟨.text [], by simp [textParam, h1, hpg, hs, mkRow, ikText, hnil]⟩

theorem preimages_agree_safe (log : Log) (prev : PrevHash)
    (h : SafeChars bunTags.dateNullZero log prev = true) :
    sqlPreimage log prev = goPreimage log prev := by
  unfold sqlPreimage sqlPreimageAt goPreimage
  cases hm : mementoBytes log.payload with
  | error e => simp [rowOfLog, hm]
  | ok m =>
    obtain ⟨ikv, sv, hrow, hikv⟩ := rowOfLog_safe b!"l" (1 + 1) log prev m hm h
    simp only [SafeChars, Bool.and_eq_true, decide_eq_true_eq] at h
    obtain ⟨⟨⟨⟨hik, hsv⟩, hd⟩, hh⟩, hp⟩ := h
    simp only [hrow]
    rw [trigger_bridge _ _ _ _ _ _ _ _ _ _ _ hikv]
    have hT := byteaIn_sqlJsonText log.payload.type.label m (tsOfDate log.date) log.idempotencyKey
      (noBs_safe (label_safe _)) (noBs_safe hik)
    cases prev with
    | none =>
      simp only [sqlClean, hT, goPrevBytes, goLogJson, goString_safe (label_safe _), goString_safe hik,
        goTimeJson, goTime_safe hd, hh, hsv, goBytes]
      simp [List.append_assoc]
    | some ph =>
      have hl : ph.length < 57 := by simpa using hp
      simp only [sqlClean, hT, pgBase64_short ph hl, byteaIn_noBs _ (noBs_base64 ph),
        goPrevBytes, goLogJson, goString_safe (label_safe _), goString_safe hik,
        goTimeJson, goTime_safe hd, hh, hsv, goBytes]
      simp [List.append_assoc]


/-! ### witnesses -/

def wDate : Date := { year := 2024, month := 2, day := 29, hour := 23, minute := 59, second := 59, nano := 123456000, zone := 0 }

/-- `DELETE_METADATA` of key `k` on account `world`, at `wDate`, with idempotency key `ik`
    and schema version `sv` -/
def wLog (ik sv : Bytes) : Log :=
  { payload := .deletedMetadata b!"ACCOUNT" (.account b!"world") b!"k", date := wDate,
    idempotencyKey := ik, hash := none, schemaVersion := sv }

def wLogAt (d : Date) : Log := { wLog b!"ik" [] with date := d }

/-- a payload full of characters that are unsafe in an idempotency key -/
def wNastyPayload : Payload :=
  .savedMetadata b!"ACCOUNT" (.account b!"a\"b\\c<d>&é") (some [(b!"k\"\\<\t", b!"v\n\"é\\")])

def wPrev : PrevHash := some [0xde, 0xad, 0xbe, 0xef, 0x00, 0xff, 0x5c, 0x22]

end Ledger.Log
