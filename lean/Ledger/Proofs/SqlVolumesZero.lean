import Ledger.Proofs.SqlVolumesStmt

/-!
# The zero rows of `GetBalances`: `INSERT … ON CONFLICT DO NOTHING` on `accounts_volumes`

Evaluator-level specification of the data-modifying CTE of `GetBalances` for any rows and any
table contents satisfying `AvInv` (`exec_execInsert_av_nothing`), in terms of the pure run `avRunN`.
-/
open Ledger.Sql Ledger.Generated
open Ledger.Generated.WriteSql.P (BalanceRow)

namespace Ledger.Sql

/-! ### `INSERT … ON CONFLICT DO NOTHING` on `accounts_volumes` (the zero rows of `GetBalances`) -/

/-- one `VALUES` row `(l, a, c, i, o)` under `ON CONFLICT DO NOTHING` -/
def avStepN (lv : View) (xid cid : Nat) (l a c : String) (i o : Int) (st : List Ver × Nat) : List Ver × Nat :=
  match st.1.find? (avHit lv none l a c) with
  | some _ => st
  | none => (avNew xid cid st.2 l a c i o :: st.1, st.2 + 1)

/-- did the row get inserted? -/
def avStepNHit (lv : View) (l a c : String) (st : List Ver × Nat) : Bool :=
  (st.1.find? (avHit lv none l a c)).isSome

theorem exec_insertRowStep_av_nothing (n : Nat) (env : Env) (b table alias : String) (tcols : List String)
    (target : List String) (tw : Option Expr) (cn : String)
    (sr : List (Option Value)) (acc : DmlAcc)
    (l a c : String) (i o : Int) (rs : List Ver) (nr : Nat) (s : St)
    (hT : s.w.table? (avFull b) = some (avT b rs nr))
    (hsolo : ∀ x ∈ s.w.active, x = s.xid) (ht : AvTyped rs)
    (hrow : ∀ m rs nr s, (buildRow (m + 1) (avT b rs nr) tcols sr).exec s = (.ok [.text l, .text a, .text c, .int i, .int o], s))
    (harb : ∀ rs nr s, (arbiterIndexes (avT b rs nr) target).exec s = (.ok [avPkey], s)) :
    (insertRowStep (n + 3) env (avFull b) table alias tcols (some (.mk target tw cn .nothing)) [] sr acc).exec s =
      (if avStepNHit (latestView s.w s.xid) l a c (rs, nr) then (.ok acc, s)
       else (.ok { acc with affected := acc.affected + 1 },
             s.withTable (avT b (avStepN (latestView s.w s.xid) s.xid s.cid l a c i o (rs, nr)).1
                                (avStepN (latestView s.w s.xid) s.xid s.cid l a c i o (rs, nr)).2))) := by
  rw [insertRowStep]
  simp only [exec_bind, exec_getTable hT, hrow, exec_fireBefore_av _ _ _ _ .insert (by simp), exec_checkConstraints_av, harb,
    exec_findConflict_av b rs nr l a c i o none s hsolo ht]
  cases hf : rs.find? (avHit (latestView s.w s.xid) none l a c) with
  | none =>
    have hT2 := withTable_av_table? s b rs (avNew s.xid s.cid nr l a c i o :: rs) nr (nr + 1) hT
    simp only [Option.map_none, exec_bind, exec_pure, uniques_av, exec_findConflict_av b rs nr l a c i o none s hsolo ht, hf,
      exec_checkForeignKeys_av, exec_insertVersion_av hT, exec_getTable hT2, exec_queueAfter_av, avStepN, avStepNHit]
    rw [accReturning]
    simp
  | some ex =>
    simp [avStepNHit, hf]


section stepN
variable (w : World) (xid cid : Nat)

theorem avStepN_inv (l a c : String) (i o : Int) (rs : List Ver) (nr : Nat) (hx : xid ≠ 0) (hc : cid < 1000000000)
    (hinv : AvInv (latestView w xid) rs nr) :
    AvInv (latestView w xid) (avStepN (latestView w xid) xid cid l a c i o (rs, nr)).1
      (avStepN (latestView w xid) xid cid l a c i o (rs, nr)).2 := by
  have h := avStep_inv w xid cid l a c i o rs nr hx hc hinv
  unfold avStepN
  unfold avStep at h
  cases hf : rs.find? (avHit (latestView w xid) none l a c) with
  | none => simpa [hf] using h
  | some ex => exact hinv

theorem avGet_stepN_same (l a c : String) (i o : Int) (rs : List Ver) (nr : Nat) (hx : xid ≠ 0) (hc : cid < 1000000000) :
    avGet (latestView w xid) (avStepN (latestView w xid) xid cid l a c i o (rs, nr)).1 l a c =
      some (match avGet (latestView w xid) rs l a c with
            | some v => v
            | none => (i, o)) := by
  unfold avStepN avGet
  cases hf : rs.find? (avHit (latestView w xid) none l a c) with
  | none => simp [avHit_new w xid cid _ l a c l a c _ _ hx hc, avVols_new]
  | some ex => simp [hf]

theorem avGet_stepN_other (l a c : String) (i o : Int) (rs : List Ver) (nr : Nat) (hx : xid ≠ 0) (hc : cid < 1000000000)
    (l' a' c' : String) (hne : ¬(l = l' ∧ a = a' ∧ c = c')) :
    avGet (latestView w xid) (avStepN (latestView w xid) xid cid l a c i o (rs, nr)).1 l' a' c' =
      avGet (latestView w xid) rs l' a' c' := by
  have hk : (l == l' && a == a' && c == c') = false := by
    cases h1 : (l == l') <;> cases h2 : (a == a') <;> cases h3 : (c == c') <;> simp_all
  unfold avStepN avGet
  cases hf : rs.find? (avHit (latestView w xid) none l a c) with
  | none => simp [avHit_new w xid cid _ l a c l' a' c' _ _ hx hc, hk]
  | some ex => rfl

end stepN

/-- the pure run of the zero-row insert over all rows -/
def avRunN (lv : View) (xid cid : Nat) (l : String) : List BalanceRow → List Ver × Nat → List Ver × Nat
  | [], st => st
  | r :: rest, st => avRunN lv xid cid l rest (avStepN lv xid cid l r.accounts_address r.asset 0 0 st)

/-- number of rows actually inserted -/
def avRunNCount (lv : View) (xid cid : Nat) (l : String) : List BalanceRow → List Ver × Nat → Nat
  | [], _ => 0
  | r :: rest, st =>
    (if avStepNHit lv l r.accounts_address r.asset st then 0 else 1) +
      avRunNCount lv xid cid l rest (avStepN lv xid cid l r.accounts_address r.asset 0 0 st)

structure AvShapeN (b : String) (l : String) (tcols target : List String) (g : BalanceRow → List (Option Value)) : Prop where
  row : ∀ r m rs nr s, (buildRow (m + 1) (avT b rs nr) tcols (g r)).exec s =
    (.ok [.text l, .text r.accounts_address, .text r.asset, .int 0, .int 0], s)
  arb : ∀ rs nr s, (arbiterIndexes (avT b rs nr) target).exec s = (.ok [avPkey], s)

theorem exec_fold_av_nothing (n : Nat) (env : Env) (b table alias l : String) (tcols target : List String) (tw : Option Expr) (cn : String)
    (g : BalanceRow → List (Option Value)) (sh : AvShapeN b l tcols target g)
    (s0 : St) (rs0 : List Ver) (nr0 : Nat) (hT0 : s0.w.table? (avFull b) = some (avT b rs0 nr0))
    (hsolo : ∀ x ∈ s0.w.active, x = s0.xid) (hx : s0.xid ≠ 0) (hc : s0.cid < 1000000000) :
    ∀ (rows : List BalanceRow) (rs : List Ver) (nr : Nat) (acc : DmlAcc),
      AvInv (latestView s0.w s0.xid) rs nr →
      ((rows.map g).foldlM (fun acc sr =>
          insertRowStep (n + 3) env (avFull b) table alias tcols (some (.mk target tw cn .nothing)) [] sr acc) acc).exec
          (s0.withTable (avT b rs nr)) =
        (.ok { acc with affected := acc.affected + avRunNCount (latestView s0.w s0.xid) s0.xid s0.cid l rows (rs, nr) },
         s0.withTable (avT b (avRunN (latestView s0.w s0.xid) s0.xid s0.cid l rows (rs, nr)).1
                             (avRunN (latestView s0.w s0.xid) s0.xid s0.cid l rows (rs, nr)).2)) := by
  intro rows
  induction rows with
  | nil => intro rs nr acc _; simp [avRunN, avRunNCount]
  | cons r rest ih =>
    intro rs nr acc hinv
    have hT := withTable_av_table? s0 b rs0 rs nr0 nr hT0
    have hstep := exec_insertRowStep_av_nothing n env b table alias tcols target tw cn (g r) acc l
      r.accounts_address r.asset 0 0 rs nr (s0.withTable (avT b rs nr)) hT hsolo hinv.typed (sh.row r) sh.arb
    simp only [withTable_latestView, withTable_xid, withTable_cid, withTable_withTable_av] at hstep
    simp only [List.map_cons, exec_foldlM_cons, hstep]
    have hinv' := avStepN_inv s0.w s0.xid s0.cid l r.accounts_address r.asset 0 0 rs nr hx hc hinv
    cases hh : avStepNHit (latestView s0.w s0.xid) l r.accounts_address r.asset (rs, nr) with
    | true =>
      have e : avStepN (latestView s0.w s0.xid) s0.xid s0.cid l r.accounts_address r.asset 0 0 (rs, nr) = (rs, nr) := by
        unfold avStepNHit at hh
        unfold avStepN
        cases hf : rs.find? (avHit (latestView s0.w s0.xid) none l r.accounts_address r.asset) with
        | none => simp [hf] at hh
        | some ex => rfl
      simp only [if_true]
      rw [ih rs nr acc hinv]
      simp [avRunN, avRunNCount, hh, e]
    | false =>
      simp only [Bool.false_eq_true, if_false]
      rw [ih _ _ _ hinv']
      simp [avRunN, avRunNCount, hh, Nat.add_assoc]


theorem exec_mapM_rows {ρ : Type} (m : Nat) (env : Env) (f : ρ → List Expr) (g : ρ → List (Option Value))
    (hsrc : ∀ r m s, (evalValuesRow (m + 1) env (f r)).exec s = (.ok (g r), s)) (rows : List ρ) (s : St) :
    ((rows.map f).mapM (fun r => evalValuesRow (m + 1) env r)).exec s = (.ok (rows.map g), s) := by
  induction rows with
  | nil => simp
  | cons r rest ih => simp only [List.map_cons, exec_mapM_cons, hsrc, ih]

/-- `INSERT INTO accounts_volumes … VALUES rows ON CONFLICT DO NOTHING` (no RETURNING) as a whole -/
theorem exec_execInsert_av_nothing (n : Nat) (env : Env) (b alias l : String) (cols target : List String) (tw : Option Expr) (cn : String)
    (f : BalanceRow → List Expr) (g : BalanceRow → List (Option Value))
    (hb : b.isEmpty = false) (hcols : cols.isEmpty = false)
    (hsrc : ∀ r m s, (evalValuesRow (m + 1) env (f r)).exec s = (.ok (g r), s))
    (sh : AvShapeN b l cols target g)
    (s : St) (rs : List Ver) (nr : Nat) (hT : s.w.table? (avFull b) = some (avT b rs nr))
    (hu : (s.w.tables.map (·.name)).Nodup)
    (hsolo : ∀ x ∈ s.w.active, x = s.xid) (hx : s.xid ≠ 0) (hc : s.cid < 1000000000)
    (hinv : AvInv (latestView s.w s.xid) rs nr) (rows : List BalanceRow) :
    (execInsert (n + 4) env b "accounts_volumes" alias cols (.values (rows.map f))
        (some (.mk target tw cn .nothing)) []).exec s =
      (.ok { rel := { cols := [], rows := [] },
             affected := avRunNCount (latestView s.w s.xid) s.xid s.cid l rows (rs, nr) },
       s.withTable (avT b (avRunN (latestView s.w s.xid) s.xid s.cid l rows (rs, nr)).1
                          (avRunN (latestView s.w s.xid) s.xid s.cid l rows (rs, nr)).2)) := by
  have hq : (qualify b "accounts_volumes").exec s = (.ok (avFull b), s) := by
    simp [qualify, hb, avFull]
  have hself : s.withTable (avT b rs nr) = s := withTable_self s _ hT hu
  have hfold := exec_fold_av_nothing n env b "accounts_volumes" alias l cols target tw cn g sh s rs nr hT hsolo hx hc rows rs nr {} hinv
  rw [hself] at hfold
  have hmap := exec_mapM_rows (n + 2) env f g hsrc rows s
  rw [execInsert]
  simp only [hb, Bool.false_eq_true, if_false, exec_bind, hq, exec_getTable hT, hmap, hcols, exec_pure, hfold]
  simp

end Ledger.Sql
