import Ledger.Proofs.MachineAsset

/-! A destination without any `kept` clause, accepted by the compiler, sends
    everything: nothing of value is left over. -/
namespace Ledger.Machine

mutual
  def keptFreeDest : Dest → Bool
    | .account _ => true
    | .inorder items rem => keptFreeInOrder items && keptFreeKD rem
    | .allot items => keptFreeAllot items
  def keptFreeKD : KeptOrDest → Bool
    | .kept => false
    | .to d => keptFreeDest d
  def keptFreeInOrder : InOrderDstList → Bool
    | .nil => true
    | .cons _ d r => keptFreeKD d && keptFreeInOrder r
  def keptFreeAllot : AllotDstList → Bool
    | .nil => true
    | .cons _ d r => keptFreeKD d && keptFreeAllot r
end

theorem AllotDstList.portions_length : (items : AllotDstList) → items.portions.length = items.length
  | .nil => rfl
  | .cons _ _ r => by simp [AllotDstList.portions, AllotDstList.length, AllotDstList.portions_length r]

theorem sum_take_succ (p : Int) (ps : List Int) (n : Nat) :
    ((p :: ps).take (n + 1)).sum = p + (ps.take n).sum := by simp

mutual
  theorem evalDest_keptfree (env : Env) (henv : EnvGood env) (ds : Decls) (asset : String) :
      (d : Dest) → keptFreeDest d = true → checkDest ds d = .ok () →
      ∀ f st rem st', partsNonneg f → evalDest env asset d f st = .ok (rem, st') → total rem = 0
    | .account e, _, _, f, st, rem, st', hf, h => by
      simp only [evalDest] at h
      split at h
      · cases h
      · rename_i res rm htake
        split at h
        · cases h
        · cases h
          have h1 := take_total htake
          have h2 := take_total_split htake
          omega
    | .inorder items remaining, hk, hc, f, st, rem, st', hf, h => by
      simp only [keptFreeDest, Bool.and_eq_true] at hk
      simp only [checkDest] at hc
      split at hc
      · cases hc
      · rename_i hci
        simp only [evalDest] at h
        split at h
        · cases h
        · rename_i kept f1 st1 hio
          have hk0 := evalInOrder_keptfree env henv ds asset items hk.1 hci 0 f st kept f1 st1 hf hio
          obtain ⟨_, _, _, hnio⟩ := evalInOrder_ok env asset items 0 f st kept f1 st1 hio
          have hf1 : partsNonneg f1 := (hnio hf).1
          split at h
          · cases h
          · rename_i resR remR htake
            split at h
            · cases h
            · rename_i r st2 hkd
              obtain ⟨n1, n2⟩ := take_nonneg htake (partsNonneg_reverse hf1)
              have hr := evalKD_keptfree env henv ds asset remaining hk.2 hc remR.reverse st1 r st2
                (partsNonneg_reverse n2) hkd
              cases h
              rw [concatParts_total, total_reverse, take_total htake, hr, hk0]
              rfl
    | .allot items, hk, hc, f, st, rem, st', hf, h => by
      simp only [keptFreeDest] at hk
      simp only [checkDest] at hc
      split at hc
      · cases hc
      · rename_i hca
        simp only [evalDest] at h
        split at h
        · cases h
        · rename_i a hma
          have hsum : a.sum = 1 := makeAllotment_sum_one henv hca hma
          have hlen : (allocate a (total f)).length = items.length := by
            rw [allocate_length', makeAllotment_length hma, AllotDstList.portions_length]
          have := evalAllotDst_keptfree env henv ds asset items hk hc (allocate a (total f)) f st rem st' hf h
          rw [this, ← hlen, List.take_length, Ledger.C24.allocate_sum a (total f) hsum]
          omega
  theorem evalKD_keptfree (env : Env) (henv : EnvGood env) (ds : Decls) (asset : String) :
      (d : KeptOrDest) → keptFreeKD d = true → checkKD ds d = .ok () →
      ∀ f st rem st', partsNonneg f → evalKD env asset d f st = .ok (rem, st') → total rem = 0
    | .kept, hk, _, _, _, _, _, _, _ => by simp [keptFreeKD] at hk
    | .to d, hk, hc, f, st, rem, st', hf, h => by
      simp only [keptFreeKD] at hk
      simp only [checkKD] at hc
      simp only [evalKD] at h
      exact evalDest_keptfree env henv ds asset d hk hc f st rem st' hf h
  theorem evalInOrder_keptfree (env : Env) (henv : EnvGood env) (ds : Decls) (asset : String) :
      (items : InOrderDstList) → keptFreeInOrder items = true → checkInOrder ds items = .ok () →
      ∀ k f st k' f' st', partsNonneg f → evalInOrder env asset items k f st = .ok (k', f', st') → k' = k
    | .nil, _, _, k, f, st, k', f', st', _, h => by
      simp only [evalInOrder] at h; cases h; rfl
    | .cons m d rest, hk, hc, k, f, st, k', f', st', hf, h => by
      simp only [keptFreeInOrder, Bool.and_eq_true] at hk
      simp only [checkInOrder] at hc
      split at hc
      · cases hc
      · split at hc
        · cases hc
        · rename_i hckd
          simp only [evalInOrder] at h
          split at h
          · cases h
          · split at h
            · cases h
            · rename_i mon _ amt _
              split at h
              · cases h
              · split at h
                · cases h
                · split at h
                  · cases h
                  · rename_i r st1 hkd
                    obtain ⟨tn1, tn2⟩ := takeMax_nonneg f amt hf
                    have hr := evalKD_keptfree env henv ds asset d hk.1 hckd _ st r st1 tn1 hkd
                    obtain ⟨_, _, _, hnkd⟩ := evalKD_ok env asset d _ st r st1 hkd
                    have hrn : partsNonneg r := (hnkd tn1).1
                    have := evalInOrder_keptfree env henv ds asset rest hk.2 hc _ _ st1 k' f' st'
                      (concatParts_nonneg _ _ hrn tn2) h
                    rw [this, hr]; omega
  theorem evalAllotDst_keptfree (env : Env) (henv : EnvGood env) (ds : Decls) (asset : String) :
      (items : AllotDstList) → keptFreeAllot items = true → checkAllotDst ds items = .ok () →
      ∀ parts f st rem st', partsNonneg f → evalAllotDst env asset items parts f st = .ok (rem, st') →
      total rem = total f - (parts.take items.length).sum
    | .nil, _, _, parts, f, st, rem, st', _, h => by
      simp only [evalAllotDst] at h; cases h
      simp [AllotDstList.length]
    | .cons _ _ _, _, _, [], f, st, rem, st', _, h => by
      simp only [evalAllotDst] at h; cases h
    | .cons _ d rest, hk, hc, p :: ps, f, st, rem, st', hf, h => by
      simp only [keptFreeAllot, Bool.and_eq_true] at hk
      simp only [checkAllotDst] at hc
      split at hc
      · cases hc
      · rename_i hckd
        simp only [evalAllotDst] at h
        split at h
        · cases h
        · rename_i res rm htake
          split at h
          · cases h
          · rename_i r st1 hkd
            obtain ⟨n1, n2⟩ := take_nonneg htake hf
            have hr := evalKD_keptfree env henv ds asset d hk.1 hckd res st r st1 n1 hkd
            obtain ⟨_, _, _, hnkd⟩ := evalKD_ok env asset d res st r st1 hkd
            have hrn : partsNonneg r := (hnkd n1).1
            have := evalAllotDst_keptfree env henv ds asset rest hk.2 hc ps _ st1 rem st'
              (concatParts_nonneg _ _ hrn n2) h
            rw [this, concatParts_total, hr]
            have h1 := take_total htake
            have h2 := take_total_split htake
            simp only [AllotDstList.length, sum_take_succ]
            omega
end

end Ledger.Machine
