import Ledger.Interp.Fragment
import Ledger.Props.C24

/-!
Allotments (F2): both runtimes compute the same shares (`allocate`); the shares are ≥ 0,
sum to the amount, and are all 0 for the amount 0.
-/
namespace Ledger.Interp
open Ledger.Machine

theorem evalAllotItems_env (env ienv : Env) : ∀ ps : List PortionE, noVarPortions ps = true →
    evalAllotItems ienv ps = evalAllotItems env ps := by
  intro ps
  induction ps with
  | nil => intro _; rfl
  | cons p ps ih =>
    intro h
    cases p with
    | var x => simp [noVarPortions] at h
    | lit t => simp only [noVarPortions] at h; simp [evalAllotItems, evalAllotItem, ih h]
    | remaining => simp only [noVarPortions] at h; simp [evalAllotItems, evalAllotItem, ih h]

/-- The shares of an allotment of F2, on both sides. -/
theorem makeAllotment_agree {env : Env} (ienv : Env) {ps : List PortionE} (h : allotOK env ps = true) :
    ∃ a, Machine.makeAllotment env ps = .ok a ∧ a.sum = 1 ∧ (∀ p ∈ a, 0 ≤ p) ∧
      ∀ amt, Interp.makeAllotment ienv amt ps = .ok (allocate a amt) := by
  simp only [allotOK, Bool.and_eq_true] at h
  obtain ⟨hnv, h2⟩ := h
  split at h2
  · rename_i a items hm hi
    simp only [Bool.and_eq_true, decide_eq_true_eq, Bool.not_eq_true', List.all_eq_true] at h2
    obtain ⟨⟨⟨ha, hnone⟩, hsum⟩, hpos⟩ := h2
    refine ⟨a, hm, hsum, hpos, ?_⟩
    intro amt
    simp only [Interp.makeAllotment, evalAllotItems_env env ienv ps hnv, hi]
    have hc : ¬ ((lastRemaining items).isNone = true ∧ sumSome items ≠ 1) := by
      intro hx
      have : ((lastRemaining items).isNone && decide (sumSome items ≠ 1)) = true := by
        simp [hx.1, hx.2]
      rw [this] at hnone; cases hnone
    rw [if_neg hc, ← ha]
    rfl
  · cases h2

theorem allocate_mem_nonneg (a : List Rat) (amt : Int) (hsum : a.sum = 1) (hamt : 0 ≤ amt)
    (hpos : ∀ p ∈ a, 0 ≤ p) : ∀ p ∈ allocate a amt, 0 ≤ p := by
  intro p hp
  obtain ⟨i, hi, rfl⟩ := List.mem_iff_getElem.mp hp
  have hi' : i < a.length := by rw [Ledger.C24.allocate_length] at hi; exact hi
  exact Ledger.C24.allocate_nonneg a amt hsum hamt hpos i hi'

theorem allocate_length_eq (a : List Rat) (amt : Int) : (allocate a amt).length = a.length :=
  Ledger.C24.allocate_length a amt

theorem allocate_sum_eq (a : List Rat) (amt : Int) (hsum : a.sum = 1) : (allocate a amt).sum = amt :=
  Ledger.C24.allocate_sum a amt hsum

theorem distribute_nonpos (xs : List Int) (r : Int) (h : r ≤ 0) : distribute xs r = xs := by
  induction xs with
  | nil => rfl
  | cons x xs ih => simp [distribute, ih]; omega

/-- Nothing to allocate: every share is 0. -/
theorem allocate_zero (a : List Rat) : ∀ p ∈ allocate a 0, p = 0 := by
  have hm : a.map (floorPart 0) = a.map (fun _ => (0 : Int)) := by
    apply List.map_congr_left; intro p _; simp [floorPart]
  have hs : (a.map (fun _ => (0 : Int))).sum = 0 := by
    induction a with
    | nil => rfl
    | cons x xs ih => simp [ih]
  intro p hp
  simp only [allocate, hm, hs] at hp
  rw [distribute_nonpos _ _ (by omega)] at hp
  simp only [List.mem_map] at hp
  obtain ⟨_, _, rfl⟩ := hp
  rfl

theorem makeAllotment_length {env : Env} {ps : List PortionE} {a : List Rat}
    (h : Machine.makeAllotment env ps = .ok a) : a.length = ps.length := by
  unfold Machine.makeAllotment at h
  split at h
  · cases h
  · rename_i vs hvs
    have hl : vs.length = ps.length := by
      clear h
      induction ps generalizing vs with
      | nil => simp [evalPortions] at hvs; subst hvs; rfl
      | cons p ps ih =>
        simp only [evalPortions] at hvs
        split at hvs
        · cases hvs
        · split at hvs
          · cases hvs
          · rename_i v _ vs' hvs'
            cases hvs
            simp [ih vs' hvs']
    split at h
    · rename_i a' ha
      cases h
      unfold newAllotment at ha
      split at ha
      · cases ha
      · dsimp only at ha
        split at ha
        · cases ha
        · cases ha; simp [hl]
    · split at h <;> cases h

end Ledger.Interp
