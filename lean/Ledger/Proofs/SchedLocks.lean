import Ledger.Proofs.SchedBasic

/-!
# Advisory locks: mutual exclusion under any schedule
-/
namespace Ledger.Sched

/-- at most one session holds a key -/
def AdvWf (w : World) : Prop := ∀ a ∈ w.adv, ∀ b ∈ w.adv, a.key = b.key → a.sid = b.sid

/-- session `s` holds `key` (in either mode) -/
def Holds (w : World) (s : Sid) (key : Nat) : Prop := ∃ a ∈ w.adv, a.key = key ∧ a.sid = s

/-- the invariant "well-formed, and `s` holds `key`" for a fixed holder -/
def HeldBy (s : Sid) (key : Nat) (w : World) : Prop := AdvWf w ∧ Holds w s key

theorem advWf_filter (w : World) (p : Adv → Bool) (h : AdvWf w) : AdvWf { w with adv := w.adv.filter p } := by
  intro a ha b hb hk
  exact h a (List.mem_filter.mp ha).1 b (List.mem_filter.mp hb).1 hk

theorem holder?_none {adv : List Adv} {key : Nat} {s : Sid} (h : holder? adv key s = none) :
    ∀ a ∈ adv, a.key = key → a.sid = s := by
  intro a ha hk
  unfold holder? at h
  simp only [Option.map_eq_none_iff] at h
  have := List.find?_eq_none.mp h a ha
  simp only [Bool.and_eq_true, decide_eq_true_eq, not_and, Decidable.not_not] at this
  exact this hk

theorem advWf_append (w : World) (key : Nat) (s : Sid) (x : Bool) (h : AdvWf w)
    (hn : holder? w.adv key s = none) : AdvWf { w with adv := w.adv ++ [{ key := key, sid := s, xact := x }] } := by
  intro a ha b hb hk
  simp only [List.mem_append, List.mem_singleton] at ha hb
  rcases ha with ha | ha <;> rcases hb with hb | hb
  · exact h a ha b hb hk
  · subst hb; exact holder?_none hn a ha hk
  · subst ha; exact (holder?_none hn b hb hk.symm).symm
  · subst ha; subst hb; rfl

/-- every step of a session other than the holder keeps the lock with the holder -/
theorem heldBy_step (s t : Sid) (key : Nat) (hts : t ≠ s) (w : World) (h : HeldBy s key w) :
    HeldBy s key (step w t) := by
  have keep : ∀ (w : World) (p : Adv → Bool), (∀ a, a.sid = s → p a = true) → HeldBy s key w →
      HeldBy s key { w with adv := w.adv.filter p } := by
    intro w p hp h
    refine ⟨advWf_filter w p h.1, ?_⟩
    obtain ⟨a, ha, hk, hs⟩ := h.2
    exact ⟨a, List.mem_filter.mpr ⟨ha, hp a hs⟩, hk, hs⟩
  have add : ∀ (w : World) (k : Nat) (x : Bool), holder? w.adv k t = none → HeldBy s key w →
      HeldBy s key { w with adv := w.adv ++ [{ key := k, sid := t, xact := x }] } := by
    intro w k x hn h
    refine ⟨advWf_append w k t x h.1 hn, ?_⟩
    obtain ⟨a, ha, hk, hs⟩ := h.2
    exact ⟨a, List.mem_append_left _ ha, hk, hs⟩
  refine step_inv (HeldBy s key) t ?_ ?_ ?_ ?_ ?_ ?_ w h
  · intro w f h; exact h
  · intro w h
    exact keep w _ (by intro a ha; simp [ha, Ne.symm hts]) h
  · intro w h
    exact keep w _ (by intro a ha; simp [ha, Ne.symm hts]) h
  · intro w h
    unfold World.failTx
    simp only
    split
    · exact keep w _ (by intro a ha; simp [ha, Ne.symm hts]) h
    · exact h
  · intro w st w' o h he
    cases st with
    | lockLedgerX l =>
      simp only [exec] at he
      split at he
      · cases he
      · rename_i hn; cases he; exact add w _ _ hn h
    | lockLedgerS l =>
      simp only [exec] at he
      split at he
      · cases he
      · rename_i hn; cases he; exact add w _ _ hn h
    | advLockLog l =>
      simp only [exec] at he
      split at he
      · cases he
      · rename_i hn; cases he; exact add w _ _ hn h
    | unlockLedgerS l =>
      simp only [exec] at he
      cases he
      exact keep w _ (by intro a ha; simp [ha, Ne.symm hts]) h
    | getBalances ps =>
      simp only [exec] at he; unfold getBal at he
      repeat' split at he
      all_goals first | (cases he; done) | (cases he; exact h)
    | updateVolumes ds =>
      simp only [exec] at he; unfold updVol at he
      repeat' split at he
      all_goals first | (cases he; done) | (cases he; exact h)
    | insertTx l r i =>
      simp only [exec] at he
      have := (insTx_frame (Or.inl ⟨o, he⟩)).2.2.2.1
      unfold HeldBy AdvWf Holds; rw [this]; exact h
    | insertLog l k hh sy i tx =>
      simp only [exec] at he
      have := (insLog_frame (Or.inl ⟨o, he⟩)).2.2.2.1
      unfold HeldBy AdvWf Holds; rw [this]; exact h
    | _ =>
      simp only [exec] at he
      repeat' split at he
      all_goals first | (cases he; done) | (cases he; exact h)
  · intro w st w' e h he
    cases st with
    | getBalances ps =>
      simp only [exec] at he; unfold getBal at he
      repeat' split at he
      all_goals cases he
    | updateVolumes ds =>
      simp only [exec] at he; unfold updVol at he
      repeat' split at he
      all_goals cases he
    | insertTx l r i =>
      simp only [exec] at he
      have := (insTx_frame (Or.inr ⟨e, he⟩)).2.2.2.1
      unfold HeldBy AdvWf Holds; rw [this]; exact h
    | insertLog l k hh sy i tx =>
      simp only [exec] at he
      have := (insLog_frame (Or.inr ⟨e, he⟩)).2.2.2.1
      unfold HeldBy AdvWf Holds; rw [this]; exact h
    | _ =>
      simp only [exec] at he
      repeat' split at he
      all_goals first | (cases he; done) | (cases he; exact h)

/-- while `s` holds the key nobody else does -/
theorem heldBy_excl (s t : Sid) (key : Nat) (hts : t ≠ s) (w : World) (h : HeldBy s key w) : ¬ Holds w t key := by
  intro ⟨b, hb, hbk, hbs⟩
  obtain ⟨a, ha, hak, has⟩ := h.2
  have := h.1 a ha b hb (hak.trans hbk.symm)
  exact hts (hbs.symm.trans (this.symm.trans has))

end Ledger.Sched
