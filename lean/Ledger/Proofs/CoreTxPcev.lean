import Ledger.Proofs.CoreReads
import Ledger.Proofs.CoreHistory

/-! C04, transaction level: the effective volumes a transaction read reports (last move per
    account/asset of the transaction) are the fold of the postings of the transactions that are
    not after it in (timestamp, id) order. -/
set_option linter.unusedSectionVars false
namespace Ledger.Spec
open Ledger.Base Ledger.Core

/-! ### `ComputePostCommitEffectiveVolumes` picks the last move per account/asset -/

def _root_.Ledger.Core.Move.key (m : Move) : Key := (m.account, m.asset)

theorem pcevLoop_spec (l : List Move) (visited : List Key) (ret : PCV) (hw : Map.WF ret)
    (hv : ∀ k, visited.contains k = ret.contains k) (hp : ∀ m ∈ l, m.pcev.isSome = true) :
    ∃ R, pcevLoop l visited ret = .ok R ∧ Map.WF R ∧
      ∀ k, R.get? k = match ret.get? k with
                      | some v => some v
                      | none => (l.find? (fun m => m.key == k)).bind (·.pcev) := by
  induction l generalizing visited ret with
  | nil => exact ⟨ret, rfl, hw, fun k => by cases ret.get? k <;> rfl⟩
  | cons m l ih =>
    have hpl : ∀ x ∈ l, x.pcev.isSome = true := fun x hx => hp x (List.mem_cons_of_mem _ hx)
    unfold pcevLoop
    by_cases hc : visited.contains (m.account, m.asset) = true
    · rw [if_pos hc]
      obtain ⟨R, hR, hwR, hg⟩ := ih visited ret hw hv hpl
      refine ⟨R, hR, hwR, ?_⟩
      intro k
      rw [hg k]
      cases hr : ret.get? k with
      | some v => rfl
      | none =>
        simp only [List.find?_cons]
        by_cases hk : (m.key == k) = true
        · exfalso
          have : m.key = k := by simpa using hk
          have h1 : ret.contains k = true := by rw [← hv k, ← this]; exact hc
          unfold Map.contains at h1
          rw [hr] at h1; simp at h1
        · simp [hk]
    · rw [if_neg hc]
      have hsome := hp m List.mem_cons_self
      cases hpv : m.pcev with
      | none => rw [hpv] at hsome; simp at hsome
      | some v =>
        simp only []
        have hmerge : PCV.merge ret [((m.account, m.asset), v)] = ret.insertWith Volumes.add (m.account, m.asset) v := rfl
        rw [hmerge]
        have hnc : ret.get? (m.account, m.asset) = none := by
          have : ret.contains (m.account, m.asset) = false := by
            rw [← hv]; simpa using hc
          unfold Map.contains at this
          cases hg : ret.get? (m.account, m.asset) with
          | none => rfl
          | some x => rw [hg] at this; simp at this
        have hw' := Map.WF_insertWith Volumes.add (m.account, m.asset) v hw
        have hv' : ∀ k, ((m.account, m.asset) :: visited).contains k =
            (ret.insertWith Volumes.add (m.account, m.asset) v).contains k := by
          intro k
          unfold Map.contains
          rw [Map.get?_insertWith _ _ _ hw]
          by_cases hk : k = (m.account, m.asset)
          · subst hk; simp
          · have := hv k
            unfold Map.contains at this
            have hk' : ¬ (m.account, m.asset) = k := fun e => hk e.symm
            rw [List.contains_cons, this]
            have : (k == (m.account, m.asset)) = false := by simpa using hk
            simp [this, hk]
        obtain ⟨R, hR, hwR, hg⟩ := ih _ _ hw' hv' hpl
        refine ⟨R, hR, hwR, ?_⟩
        intro k
        rw [hg k, Map.get?_insertWith _ _ _ hw, hnc]
        simp only [List.find?_cons]
        by_cases hk : k = (m.account, m.asset)
        · subst hk
          simp [Move.key, hnc, hpv]
        · have hk' : ¬ (m.key == k) = true := by
            intro e; apply hk; simpa [Move.key] using (beq_iff_eq.mp e).symm
          simp only [if_neg hk, hk']

/-- `computePCEV` on moves that all carry effective volumes: per key, those of the last move. -/
theorem computePCEV_spec (ms : List Move) (hp : ∀ m ∈ ms, m.pcev.isSome = true) :
    ∃ R, computePCEV ms = .ok R ∧ ∀ k, R.get? k = (ms.reverse.find? (fun m => m.key == k)).bind (·.pcev) := by
  unfold computePCEV
  obtain ⟨R, hR, _, hg⟩ := pcevLoop_spec ms.reverse [] [] Map.WF_nil (fun k => rfl)
    (fun m hm => hp m (List.mem_reverse.mp hm))
  exact ⟨R, hR, fun k => by rw [hg k]; rfl⟩

/-! ### order of the moves table -/

def MoveRow.st2 (r : MoveRow) : Nat × Nat := (r.seq, r.txId)

theorem st2_bumpAll (rs : List MoveRow) (m : MoveRow) : (bumpAll rs m).st2 = m.st2 := by
  induction rs generalizing m with
  | nil => rfl
  | cons r rs ih =>
    have : bumpAll (r :: rs) m = bumpAll rs (bump r m) := rfl
    rw [this, ih]
    unfold bump; split <;> rfl

theorem st2_insertMoves (table news : List MoveRow) :
    (insertMoves table news).map MoveRow.st2 = table.map MoveRow.st2 ++ news.map MoveRow.st2 := by
  unfold insertMoves
  rw [insertPhase2_eq, insertPhase1_eq, List.map_map]
  have : (MoveRow.st2 ∘ bumpAll (insertedRows table news)) = MoveRow.st2 := by
    funext m; exact st2_bumpAll _ m
  rw [this, List.map_append]
  congr 1
  clear this
  induction news generalizing table with
  | nil => rfl
  | cons n ns ih => simp only [insertedRows, List.map_cons]; rw [ih]; rfl

theorem st2_toRows (s0 txId : Nat) (ins eff : Int) (ms : List Move) :
    (toRows s0 txId ins eff ms).map MoveRow.st2 = (List.range' s0 ms.length).map (fun s => (s, txId)) := by
  induction ms generalizing s0 with
  | nil => rfl
  | cons m ms ih => simp only [toRows, List.map_cons, List.length_cons, List.range'_succ, ih]; rfl

/-- list order = sequence order, transaction ids never decrease along the table -/
def ordRel (a b : Nat × Nat) : Prop := a.1 < b.1 ∧ a.2 ≤ b.2

structure TableOrd (st : Store) : Prop where
  pw : (st.moves.map MoveRow.st2).Pairwise ordRel
  bound : ∀ p ∈ st.moves.map MoveRow.st2, p.1 < st.nextSeq ∧ p.2 < st.nextTxId

theorem TableOrd_applyOp {st st' : Store} (inv : TableOrd st) (o : StoreOp) (h : applyOp st o = .ok st') :
    TableOrd st' := by
  cases o with
  | lock keys => simp only [applyOp] at h; cases h; exact ⟨inv.pw, inv.bound⟩
  | markReverted id a => simp only [applyOp] at h; cases h; exact ⟨inv.pw, inv.bound⟩
  | saveAccountMeta a at_ md => simp only [applyOp] at h; cases h; exact ⟨inv.pw, inv.bound⟩
  | commit t =>
    simp only [applyOp] at h
    unfold applyTx at h
    simp only [movesOf_returned] at h
    cases h
    have hnew : ∀ p ∈ (List.range' st.nextSeq (fwdMoves (preVolumes st.accountsVolumes (volumeUpdates t.postings)) t.postings).length).map
        (fun s => (s, st.nextTxId)), st.nextSeq ≤ p.1 ∧ p.1 < st.nextSeq + (fwdMoves (preVolumes st.accountsVolumes (volumeUpdates t.postings)) t.postings).length ∧ p.2 = st.nextTxId := by
      intro p hp
      obtain ⟨s, hs, rfl⟩ := List.mem_map.mp hp
      have := List.mem_range'_1.mp hs
      exact ⟨this.1, this.2, rfl⟩
    constructor
    · show List.Pairwise ordRel (List.map MoveRow.st2 (insertMoves _ _))
      rw [st2_insertMoves, st2_toRows, List.pairwise_append]
      refine ⟨inv.pw, ?_, ?_⟩
      · rw [List.pairwise_map]
        have := List.pairwise_lt_range' (s := st.nextSeq) (n := (fwdMoves (preVolumes st.accountsVolumes (volumeUpdates t.postings)) t.postings).length)
        exact this.imp (fun hab => ⟨hab, Nat.le_refl _⟩)
      · intro a ha b hb
        obtain ⟨h1, h2⟩ := inv.bound a ha
        obtain ⟨h3, _, h5⟩ := hnew b hb
        exact ⟨by omega, by omega⟩
    · intro p hp
      have hp' : p ∈ List.map MoveRow.st2 (insertMoves st.moves (toRows st.nextSeq st.nextTxId t.insertedAt t.timestamp
          (fwdMoves (preVolumes st.accountsVolumes (volumeUpdates t.postings)) t.postings))) := hp
      rw [st2_insertMoves, st2_toRows, List.mem_append] at hp'
      show p.1 < st.nextSeq + _ ∧ p.2 < st.nextTxId + 1
      rcases hp' with h1 | h1
      · obtain ⟨a, b⟩ := inv.bound p h1; exact ⟨by omega, by omega⟩
      · obtain ⟨a, b, c⟩ := hnew p h1; exact ⟨by omega, by omega⟩

theorem TableOrd_runOpsFrom (ops : List StoreOp) {st st' : Store} (inv : TableOrd st)
    (h : runOpsFrom st ops = .ok st') : TableOrd st' := by
  induction ops generalizing st with
  | nil => simp only [runOpsFrom] at h; cases h; exact inv
  | cons o os ih =>
    simp only [runOpsFrom] at h
    cases h1 : applyOp st o with
    | error e => rw [h1] at h; simp at h
    | ok s1 => rw [h1] at h; exact ih (TableOrd_applyOp inv o h1) h

theorem TableOrd_runOps {ops : List StoreOp} {st : Store} (h : runOps ops = .ok st) : TableOrd st :=
  TableOrd_runOpsFrom ops ⟨by simp, by intro p hp; simp at hp⟩ h

theorem pairwise_tri {α : Type} {R : α → α → Prop} {l : List α} (h : l.Pairwise R) {a b : α} (ha : a ∈ l) (hb : b ∈ l) :
    a = b ∨ R a b ∨ R b a := by
  induction l with
  | nil => simp at ha
  | cons x l ih =>
    rw [List.pairwise_cons] at h
    rcases List.mem_cons.mp ha with ha' | ha' <;> rcases List.mem_cons.mp hb with hb' | hb'
    · exact Or.inl (ha'.trans hb'.symm)
    · subst ha'; exact Or.inr (Or.inl (h.1 b hb'))
    · subst hb'; exact Or.inr (Or.inr (h.1 a ha'))
    · exact ih h.2 ha' hb'

/-- a smaller transaction id means a smaller sequence number; equal (seq) means same pair -/
theorem TableOrd.seq_of_tx {st : Store} (inv : TableOrd st) {a b : MoveRow} (ha : a ∈ st.moves) (hb : b ∈ st.moves)
    (h : a.txId < b.txId) : a.seq < b.seq := by
  have := pairwise_tri inv.pw (List.mem_map_of_mem (f := MoveRow.st2) ha) (List.mem_map_of_mem (f := MoveRow.st2) hb)
  rcases this with e | r | r
  · have : a.txId = b.txId := congrArg Prod.snd e
    omega
  · exact r.1
  · have : b.txId ≤ a.txId := r.2
    omega

/-! ### the last move of a key in a list ordered by seq -/

def lastRow (rows : List MoveRow) (k : Key) : Option MoveRow := rows.reverse.find? (fun r => r.key == k)

theorem lastRow_some {rows : List MoveRow} {k : Key} {L : MoveRow} (h : lastRow rows k = some L)
    (hpw : rows.Pairwise (fun a b => a.seq < b.seq)) :
    L ∈ rows ∧ L.key = k ∧ ∀ m ∈ rows, m.key = k → m.seq ≤ L.seq := by
  unfold lastRow at h
  obtain ⟨hk, as, bs, hsplit, has⟩ := List.find?_eq_some_iff_append.mp h
  have hk' : L.key = k := by simpa using hk
  have hrows : rows = bs.reverse ++ L :: as.reverse := by
    have := congrArg List.reverse hsplit
    simpa using this
  refine ⟨by rw [hrows]; simp, hk', ?_⟩
  intro m hm hmk
  rw [hrows] at hm hpw
  rw [List.pairwise_append] at hpw
  rcases List.mem_append.mp hm with h1 | h1
  · have := hpw.2.2 m h1 L List.mem_cons_self
    omega
  · rcases List.mem_cons.mp h1 with rfl | h2
    · exact Nat.le_refl _
    · exfalso
      have := has m (List.mem_reverse.mp h2)
      simp [hmk] at this

theorem lastRow_none {rows : List MoveRow} {k : Key} (h : lastRow rows k = none) : ∀ m ∈ rows, m.key ≠ k := by
  unfold lastRow at h
  intro m hm hk
  have := List.find?_eq_none.mp h m (List.mem_reverse.mpr hm)
  simp [hk] at this


/-! ### rows ↔ transactions -/

theorem mem_postingSigs {ins eff : Int} {tx : Nat} {ps : List Posting} {s : MoveSig} (h : s ∈ postingSigs ins eff tx ps) :
    s.ins = ins ∧ s.eff = eff ∧ s.tx = tx ∧ touches s.key ps = true := by
  induction ps with
  | nil => simp [postingSigs] at h
  | cons p ps ih =>
    simp only [postingSigs, List.mem_cons] at h
    rcases h with rfl | rfl | h
    · exact ⟨rfl, rfl, rfl, by simp [touches]⟩
    · exact ⟨rfl, rfl, rfl, by simp [touches]⟩
    · obtain ⟨a, b, c, d⟩ := ih h
      exact ⟨a, b, c, by simp only [touches, List.any_cons] at d ⊢; simp [d]⟩

theorem exists_postingSig {ins eff : Int} {tx : Nat} {ps : List Posting} {k : Key} (h : touches k ps = true) :
    ∃ s ∈ postingSigs ins eff tx ps, s.key = k ∧ s.tx = tx := by
  induction ps with
  | nil => simp [touches] at h
  | cons p ps ih =>
    simp only [touches, List.any_cons, Bool.or_eq_true, decide_eq_true_eq] at h
    rcases h with (h | h) | h
    · exact ⟨⟨p.srcKey, ⟨0, p.amount⟩, ins, eff, tx⟩, by simp [postingSigs], h, rfl⟩
    · exact ⟨⟨p.dstKey, ⟨p.amount, 0⟩, ins, eff, tx⟩, by simp [postingSigs], h, rfl⟩
    · obtain ⟨s, hs, hk⟩ := ih (by simpa [touches] using h)
      exact ⟨s, by simp only [postingSigs, List.mem_cons]; exact Or.inr (Or.inr hs), hk⟩

theorem mem_recsSigs {recs : List TxRec} {s : MoveSig} (h : s ∈ recsSigs recs) :
    ∃ t ∈ recs, s.ins = t.insertedAt ∧ s.eff = t.timestamp ∧ s.tx = t.id ∧ touches s.key t.postings = true := by
  induction recs with
  | nil => simp [recsSigs] at h
  | cons t ts ih =>
    simp only [recsSigs, List.mem_append] at h
    rcases h with h | h
    · obtain ⟨a, b, c, d⟩ := mem_postingSigs h
      exact ⟨t, List.mem_cons_self, a, b, c, d⟩
    · obtain ⟨t', ht', hh⟩ := ih h
      exact ⟨t', List.mem_cons_of_mem _ ht', hh⟩

theorem exists_recsSig {recs : List TxRec} {t : TxRec} (ht : t ∈ recs) {k : Key} (h : touches k t.postings = true) :
    ∃ s ∈ recsSigs recs, s.key = k ∧ s.tx = t.id := by
  induction recs with
  | nil => simp at ht
  | cons t' ts ih =>
    simp only [recsSigs, List.mem_append]
    rcases List.mem_cons.mp ht with rfl | ht
    · obtain ⟨s, hs, hk⟩ := exists_postingSig (ins := t.insertedAt) (eff := t.timestamp) (tx := t.id) h
      exact ⟨s, Or.inl hs, hk⟩
    · obtain ⟨s, hs, hk⟩ := ih ht
      exact ⟨s, Or.inr hs, hk⟩

theorem recsFrom_ids (id0 : Nat) (h : List TxIn) :
    (recsFrom id0 h).Pairwise (fun a b => a.id < b.id) ∧ ∀ t ∈ recsFrom id0 h, id0 ≤ t.id := by
  induction h generalizing id0 with
  | nil => simp [recsFrom]
  | cons t h ih =>
    obtain ⟨h1, h2⟩ := ih (id0 + 1)
    simp only [recsFrom, List.pairwise_cons, List.mem_cons]
    refine ⟨⟨?_, h1⟩, ?_⟩
    · intro b hb; have := h2 b hb; show id0 < b.id; omega
    · rintro x (rfl | hx)
      · exact Nat.le_refl _
      · have := h2 x hx; omega

/-- transaction ids are unique in a reachable store: same id ⇒ same postings and dates -/
theorem txRecs_id_unique {ops : List StoreOp} {st : Store} (h : runOps ops = .ok st) {t t' : TxRec}
    (ht : t ∈ st.txRecs) (ht' : t' ∈ st.txRecs) (hid : t.id = t'.id) :
    t.timestamp = t'.timestamp ∧ t.postings = t'.postings ∧ t.insertedAt = t'.insertedAt := by
  have hh := (runOpsFrom_txs ops h).1
  have hpw := (recsFrom_ids 1 (commitsOf ops)).1
  have hm : st.txRecs.map TxRec.clearReverted = recsFrom 1 (commitsOf ops) := by simpa [Store.txRecs] using hh
  rw [← hm] at hpw
  have := pairwise_tri hpw (List.mem_map_of_mem (f := TxRec.clearReverted) ht) (List.mem_map_of_mem (f := TxRec.clearReverted) ht')
  rcases this with e | r | r
  · have e1 := congrArg TxRec.timestamp e
    have e2 := congrArg TxRec.postings e
    have e3 := congrArg TxRec.insertedAt e
    exact ⟨e1, e2, e3⟩
  · have : t.id < t'.id := r; omega
  · have : t'.id < t.id := r; omega

/-! ### the theorem -/

def convRow (r : MoveRow) : Move :=
  { account := r.account, asset := r.asset, amount := r.amount, isSource := r.isSource, pcv := r.pcv, pcev := some r.pcev }

theorem txEffectiveVolumes_eq (moves : List MoveRow) (txId : Nat) :
    txEffectiveVolumes moves txId = computePCEV ((moves.filter (·.txId = txId)).map convRow) := rfl

theorem txEffectiveVolumes_fold {ops : List StoreOp} {st : Store} (h : runOps ops = .ok st) (T : TxRec)
    (hT : T ∈ st.txRecs) :
    ∃ R, txEffectiveVolumes st.moves T.id = .ok R ∧
      ∀ k, R.get? k = if touches k T.postings then some (volumesOf (st.txRecs.filter (notAfterTx T)) k) else none := by
  have minv := MovesInv_runOpsFrom ops MovesInv_empty h
  have cont : st.moves.map MoveRow.sig = recsSigs st.txRecs := MovesContent_runOps h
  have ord := TableOrd_runOps h
  have hseq : st.moves.Pairwise (fun a b => a.seq < b.seq) := by
    have := ord.pw
    rw [List.pairwise_map] at this
    exact this.imp (fun hab => hab.1)
  -- what a row of the table says about its transaction
  have rowTx : ∀ r ∈ st.moves, ∃ t ∈ st.txRecs, r.effectiveDate = t.timestamp ∧ r.txId = t.id ∧ touches r.key t.postings = true := by
    intro r hr
    have : r.sig ∈ recsSigs st.txRecs := by rw [← cont]; exact List.mem_map_of_mem hr
    obtain ⟨t, ht, _, h2, h3, h4⟩ := mem_recsSigs this
    exact ⟨t, ht, h2, h3, h4⟩
  rw [txEffectiveVolumes_eq]
  obtain ⟨R, hR, hg⟩ := computePCEV_spec ((st.moves.filter (·.txId = T.id)).map convRow)
    (by intro m hm; obtain ⟨r, _, rfl⟩ := List.mem_map.mp hm; rfl)
  refine ⟨R, hR, ?_⟩
  intro k
  rw [hg k, ← List.map_reverse, List.find?_map]
  have hcomp : ((fun m : Move => m.key == k) ∘ convRow) = (fun r : MoveRow => r.key == k) := rfl
  rw [hcomp]
  show ((lastRow (st.moves.filter (·.txId = T.id)) k).map convRow).bind (·.pcev) = _
  have hsub : (st.moves.filter (·.txId = T.id)).Pairwise (fun a b => a.seq < b.seq) := hseq.filter _
  cases hl : lastRow (st.moves.filter (·.txId = T.id)) k with
  | none =>
    have hno := lastRow_none hl
    have : touches k T.postings = false := by
      cases ht : touches k T.postings with
      | false => rfl
      | true =>
        exfalso
        obtain ⟨s, hs, hsk, hstx⟩ := exists_recsSig hT ht
        rw [← cont] at hs
        obtain ⟨r, hr, rfl⟩ := List.mem_map.mp hs
        exact hno r (List.mem_filter.mpr ⟨hr, by simpa [MoveRow.sig] using hstx⟩) hsk
    simp [this]
  | some L =>
    obtain ⟨hLmem, hLk, hLmax⟩ := lastRow_some hl hsub
    obtain ⟨hLm, hLtx⟩ := List.mem_filter.mp hLmem
    have hLtx' : L.txId = T.id := by simpa using hLtx
    obtain ⟨t, ht, hteff, httx, htt⟩ := rowTx L hLm
    obtain ⟨e1, e2, _⟩ := txRecs_id_unique h ht hT (by omega)
    have hLeff : L.effectiveDate = T.timestamp := by rw [hteff, e1]
    have htouch : touches k T.postings = true := by rw [← e2, ← hLk]; exact htt
    simp only [htouch, if_true, Option.map_some, Option.bind_some, convRow, Option.some.injEq]
    -- PCEV invariant on L, then the selection is by (effective date, transaction id)
    rw [minv.pcev L hLm]
    have hsel : st.moves.filter (MoveRow.countsFor L) =
        st.moves.filter (fun m => m.key == k && (decide (m.effectiveDate < T.timestamp) ||
          (decide (m.effectiveDate = T.timestamp) && decide (m.txId ≤ T.id)))) := by
      apply filter_congr'
      intro m hm
      rw [Bool.eq_iff_iff]
      simp only [MoveRow.countsFor, Bool.and_eq_true, beq_iff_eq, Bool.or_eq_true, decide_eq_true_eq, hLk]
      constructor
      · rintro ⟨hk, hna⟩
        refine ⟨hk, ?_⟩
        rw [notAfter_iff] at hna
        rcases hna with hlt | ⟨heq, hle⟩
        · left; omega
        · right
          refine ⟨by omega, ?_⟩
          apply Classical.byContradiction
          intro hgt
          have := ord.seq_of_tx hLm hm (by omega)
          omega
      · rintro ⟨hk, hp⟩
        refine ⟨hk, ?_⟩
        rw [notAfter_iff]
        rcases hp with hlt | ⟨heq, hle⟩
        · left; omega
        · right
          refine ⟨by omega, ?_⟩
          by_cases hlt : m.txId < L.txId
          · have := ord.seq_of_tx hm hLm hlt; omega
          · have hmtx : m.txId = T.id := by omega
            exact hLmax m (List.mem_filter.mpr ⟨hm, by simpa using hmtx⟩) hk
    rw [hsel]
    have := movesVolumesP_eq_fold h (fun _ eff tx => decide (eff < T.timestamp) || (decide (eff = T.timestamp) && decide (tx ≤ T.id))) k
    unfold movesVolumesP at this
    rw [this]
    rfl

end Ledger.Spec
