import Ledger.Proofs.MachineTxFail

/-! C25 at the level of `sem`: the generated script type-checks, its tracked pairs
    cover every bounded source, and the run fails iff the specification does. -/
namespace Ledger.Machine

variable {cfg : Cfg}

/-! ### The generated script passes the compiler's checks -/

theorem checkVars_plain : (vs : List VarDecl) → (ds : Decls) → (∀ d ∈ vs, d.orig = Origin.none) →
    ((ds.map (·.1)) ++ vs.map (·.name)).Nodup →
    checkVars vs ds = .ok (ds ++ vs.map (fun d => (d.name, d.ty)))
  | [], ds, _, _ => by simp [checkVars]
  | v :: vs, ds, hp, hn => by
    have hv : v.orig = Origin.none := hp v (by simp)
    have hnot : (ds.lookup v.name).isSome = false := by
      cases hl : ds.lookup v.name with
      | none => rfl
      | some t =>
        exfalso
        have hm := lookup_mem ds v.name t hl
        have h1 : v.name ∈ ds.map (·.1) := List.mem_map.mpr ⟨(v.name, t), hm, rfl⟩
        rw [List.nodup_append] at hn
        exact hn.2.2 v.name h1 v.name (by simp) rfl
    simp only [checkVars, hnot, Bool.false_eq_true, if_false, hv]
    have := checkVars_plain vs (ds ++ [(v.name, v.ty)]) (fun d hd => hp d (by simp [hd]))
      (by
        simp only [List.map_append, List.map_cons, List.map_nil, List.append_assoc, List.singleton_append]
        simpa using hn)
    rw [this]
    simp

theorem lookup_map_decl (vs : List VarDecl) (hn : (vs.map (·.name)).Nodup) (d : VarDecl) (hd : d ∈ vs) :
    (vs.map (fun d => (d.name, d.ty))).lookup d.name = some d.ty := by
  have := lookup_of_nodup (vs.map (fun d => (d.name, d.ty)))
    (by simpa [List.map_map, Function.comp_def] using hn) (d.name, d.ty) (List.mem_map.mpr ⟨d, hd, rfl⟩)
  simpa using this

theorem txScript_checkStmt (ps : List TxPosting) (force : Bool) (p : TxPosting) (hp : p ∈ ps) :
    checkStmt ((txScript ps force).vars.map (fun d => (d.name, d.ty)))
      (txStmt (txAccounts ps []) (txMons ps []) force p) = .ok () := by
  have hn := txScript_nodup ps force
  have hacc : ∀ a, a ∈ txAccounts ps [] →
      typeExpr ((txScript ps force).vars.map (fun d => (d.name, d.ty)))
        (.var (accVar (indexOfStr (txAccounts ps []) a))) = .ok .account := by
    intro a ha
    obtain ⟨hlt, _⟩ := indexOfStr_spec _ a ha
    have := lookup_map_decl _ hn _ (txScript_accDecl ps force _ hlt)
    simp only at this
    simp [typeExpr, this]
  have hmon : typeExpr ((txScript ps force).vars.map (fun d => (d.name, d.ty)))
      (.var (monVar (indexOfMon (txMons ps []) p.asset p.amount))) = .ok .monetary := by
    obtain ⟨hlt, _⟩ := indexOfMon_spec _ p.asset p.amount (txMons_mem ps [] p hp)
    have := lookup_map_decl _ hn _ (txScript_monDecl ps force _ hlt)
    simp only at this
    simp [typeExpr, this]
  obtain ⟨ms, md⟩ := txAccounts_mem ps [] p hp
  have hsrcT : typeExpr ((txScript ps force).vars.map (fun d => (d.name, d.ty))) (txSrcE (txAccounts ps []) p) = .ok .account := by
    unfold txSrcE
    by_cases hw : p.source = "world"
    · simp [hw, typeExpr]
    · simp only [hw, if_false]; exact hacc _ (ms hw)
  have hdstT : typeExpr ((txScript ps force).vars.map (fun d => (d.name, d.ty))) (txDstE (txAccounts ps []) p) = .ok .account := by
    unfold txDstE
    by_cases hw : p.destination = "world"
    · simp [hw, typeExpr]
    · simp only [hw, if_false]; exact hacc _ (md hw)
  rw [txStmt_eq]
  simp only [checkStmt, expectTy, hmon, checkDest, hdstT, checkSource, hsrcT]
  unfold txOd txSrcE
  by_cases hw : p.source = "world"
  · simp [hw, isWorldE, Except.map]
  · cases force <;> simp [hw, isWorldE, Except.map]

theorem checkStmts_all (ds : Decls) : (ss : List Stmt) → (∀ s ∈ ss, checkStmt ds s = .ok ()) →
    checkStmts ds ss = .ok ()
  | [], _ => rfl
  | s :: ss, h => by
    simp only [checkStmts, h s (by simp)]
    exact checkStmts_all ds ss (fun x hx => h x (by simp [hx]))

theorem txScript_typechecks (ps : List TxPosting) (force : Bool) :
    ∃ ds, typecheck (txScript ps force) = .ok ds := by
  have hcv := checkVars_plain (txScript ps force).vars [] (txScript_plain ps force)
    (by simpa using txScript_nodup ps force)
  simp only [List.nil_append] at hcv
  refine ⟨(txScript ps force).vars.map (fun d => (d.name, d.ty)), ?_⟩
  unfold typecheck
  rw [hcv]
  simp only
  rw [checkStmts_all]
  intro s hs
  simp only [txScript, List.mem_map] at hs
  obtain ⟨p, hp, rfl⟩ := hs
  exact txScript_checkStmt ps force p hp

/-! ### Tracked pairs -/

/-- Unfolding of `prepare` for scripts whose declarations are all plain. -/
theorem prepare_needed {s : Script} {inp : Input} {env : Env} {bal : Balances}
    {pairs : List (String × String)} (h : prepare cfg s inp = .ok (env, bal, pairs))
    (hp : ∀ d ∈ s.vars, d.orig = Origin.none) :
    ∃ needed, neededPairs env s.stmts = .ok needed ∧
      ∀ pr ∈ needed, pr.1 ≠ "world" ∧ bal.get pr.1 pr.2 = some (inp.balance pr.1 pr.2) := by
  unfold prepare at h
  split at h
  · cases h
  · rename_i plain hsv
    split at h
    · cases h
    · rename_i env0 bvs hrv
      obtain ⟨hb, added, he, _, _⟩ := resolveVars_plain cfg inp plain s.vars hp [] [] env0 bvs hrv
      subst hb
      unfold initBalances at h
      split at h
      · cases h
      · rename_i needed hneeded
        split at h
        · cases h
        · rename_i hworld
          dsimp only at h
          have hlive : (if cfg.balanceVarsPerAddress = true then liveBalVars [] else ([] : List BalVar)) = [] := by
            split <;> rfl
          rw [hlive] at h
          simp only [List.any_nil, Bool.false_eq_true, if_false, List.foldl_nil] at h
          cases h
          refine ⟨needed, hneeded, ?_⟩
          intro pr hpr
          constructor
          · intro hw
            apply hworld
            simp only [List.any_eq_true, decide_eq_true_eq]
            exact ⟨pr, hpr, hw⟩
          · simp only [List.map_nil, List.nil_append]
            have : (needed.any fun p => decide (p.1 = pr.1 ∧ p.2 = pr.2)) = true := by
              simp only [List.any_eq_true, decide_eq_true_eq]
              exact ⟨pr, hpr, rfl, rfl⟩
            simp only [this, if_true]

theorem neededPairs_tx (env : Env) (accs : List String) (mons : List (String × Int)) :
    (ps : List TxPosting) → txEnvOK env accs mons ps = true → (needed : List (String × String)) →
    neededPairs env (ps.map (txStmt accs mons false)) = .ok needed →
    ∀ p ∈ ps, p.source ≠ "world" → (p.source, p.asset) ∈ needed
  | [], _, _, _ => by intro p hp; cases hp
  | q :: qs, hb, needed, h => by
    obtain ⟨hb1, hb2⟩ := txEnvOK_cons hb
    have bind := txBinding_of_envOK hb1
    simp only [List.map_cons, neededPairs] at h
    rw [txStmt_eq] at h
    simp only [leftmostAsset, bind.monAtom, bind.mon] at h
    -- the needed accounts of this statement
    split at h
    · cases h
    · rename_i here hhere
      split at h
      · cases h
      · rename_i rest hrest
        cases h
        intro p hp hw
        rcases List.mem_cons.mp hp with rfl | hp
        · apply List.mem_append_left
          have hsw : (txSrcE accs p).isWorld = false := by simp [txSrcE, hw, Expr.isWorld]
          simp only [VSource.neededAccts, Source.neededAccts, txOd, hw, if_false, Bool.false_eq_true,
            hsw, evalAccounts, evalAccount, bind.src] at hhere
          cases hhere
          simp
        · exact List.mem_append_right _ (neededPairs_tx env accs mons qs hb2 rest hrest p hp hw)

/-- Everything about a prepared generated script. -/
theorem tx_prepared {ps : List TxPosting} {force : Bool} {inp : Input} (hv : inp.vars = txVars ps)
    {env : Env} {bal : Balances} {pairs : List (String × String)}
    (h : prepare cfg (txScript ps force) inp = .ok (env, bal, pairs)) :
    txEnvOK env (txAccounts ps []) (txMons ps []) ps = true ∧ (∀ p ∈ ps, 0 ≤ p.amount) ∧ bal.WF ∧
    (force = false → ∃ T : String → String → Prop, TxInv T (initState bal) inp.balance ∧
      ∀ p ∈ ps, p.source ≠ "world" → T p.source p.asset) := by
  have hok := txEnvOK_of_prepare hv h
  obtain ⟨hgood, hwf, _⟩ := prepare_ok h
  refine ⟨hok, ?_, hwf, ?_⟩
  · intro p hp
    -- the monetary variable of p is bound to a non-negative amount
    have key : ∀ sub : List TxPosting, txEnvOK env (txAccounts ps []) (txMons ps []) sub = true →
        ∀ q ∈ sub, 0 ≤ q.amount := by
      intro sub
      induction sub with
      | nil => intro _ q hq; cases hq
      | cons x xs ih =>
        intro hb q hq
        obtain ⟨hb1, hb2⟩ := txEnvOK_cons hb
        rcases List.mem_cons.mp hq with rfl | hq
        · have bind := txBinding_of_envOK hb1
          have hm := bind.mon
          simp only [evalExpr] at hm
          split at hm
          · rename_i v hl
            cases hm
            exact hgood.nonneg _ _ _ hl
          · cases hm
        · exact ih hb2 q hq
    exact key ps hok p hp
  · intro hf
    subst hf
    obtain ⟨needed, hneeded, hget⟩ := prepare_needed h (txScript_plain ps false)
    refine ⟨fun a c => (a, c) ∈ needed, ⟨hwf, fun a c hT => hget (a, c) hT⟩, ?_⟩
    intro p hp hw
    exact neededPairs_tx env _ _ ps hok needed (by simpa [txScript] using hneeded) p hp hw

end Ledger.Machine
