import Ledger.Proofs.SchedBasic

/-!
# A relational view of `step`

`step w s` either leaves every program alone (idle, or the statement has to wait) or executes
the head statement `st` of `s`'s program: the world becomes `advance w1 s k o` where `Trans w s st o w1`
enumerates what the statement did.
-/
namespace Ledger.Sched

/-- transaction control statements (handled by `stepR` itself) -/
def Stmt.isCtl : Stmt → Bool
  | .begin | .commit | .rollback | .savepoint | .release | .rollbackTo => true
  | _ => false

inductive Trans (w : World) (s : Sid) : Stmt → Out → World → Prop
  | begin : Trans w s .begin {} (w.setSess s (fun x => { x with inTx := true }))
  | commitNoop : (w.sess s).inTx = false → Trans w s .commit {} w
  | commitAborted : (w.sess s).inTx = true → (w.sess s).aborted = true → Trans w s .commit {} (w.rollbackTx s)
  | commit : (w.sess s).inTx = true → (w.sess s).aborted = false → Trans w s .commit {} (w.commitTx s)
  | rollback : Trans w s .rollback {} (w.rollbackTx s)
  | savepointRefused : (w.sess s).aborted = true → Trans w s .savepoint { err := some .aborted } w
  | savepoint : (w.sess s).aborted = false → Trans w s .savepoint {} (w.setSess s (fun x => { x with sp := x.sp + 1 }))
  | releaseRefused : (w.sess s).aborted = true → Trans w s .release { err := some .aborted } w
  | releaseBad : (w.sess s).aborted = false → (w.sess s).sp = 0 → Trans w s .release { err := some .noSavepoint } (w.failTx s)
  | release : (w.sess s).aborted = false → (w.sess s).sp ≠ 0 → Trans w s .release {} (w.setSess s (fun x => { x with sp := x.sp - 1 }))
  | rollbackToBad : (w.sess s).sp = 0 → Trans w s .rollbackTo { err := some .noSavepoint } (w.failTx s)
  | rollbackTo : (w.sess s).sp ≠ 0 → Trans w s .rollbackTo {} (w.setSess s (fun x => { x with aborted := false }))
  | refused (st : Stmt) : st.isCtl = false → (w.sess s).aborted = true → Trans w s st { err := some .aborted } w
  | exec (st : Stmt) (w' : World) (o : Out) : st.isCtl = false → (w.sess s).aborted = false →
      Ledger.Sched.exec w s st = .done w' o → Trans w s st o w'
  | execFailed (st : Stmt) (w' : World) (e : Err) : st.isCtl = false → (w.sess s).aborted = false →
      Ledger.Sched.exec w s st = .failed w' e → Trans w s st { err := some e } (w'.failTx s)
  | deadlock (st : Stmt) (t : Sid) : st.isCtl = false → (w.sess s).aborted = false →
      Ledger.Sched.exec w s st = .blocked t → Trans w s st { err := some .deadlock } (w.failTx s)

/-- what a step is -/
theorem step_cases (w : World) (s : Sid) :
    (step w s = w) ∨
    (∃ sn wf, step w s = w.setSess s (fun x => { x with snap := sn, waitsFor := wf })) ∨
    (∃ st k o w1, (w.sess s).prog = .stmt st k ∧ step w s = advance w1 s k o ∧ Trans w s st o w1) := by
  unfold step stepR
  simp only
  split
  · left; rfl
  · rename_i st k heq
    cases st <;> simp only <;>
      (try split) <;> (try split) <;> (try split) <;> (try dsimp only) <;>
      first
        | (right; left; exact ⟨_, _, rfl⟩)
        | (right; right; refine ⟨_, k, _, _, heq, rfl, ?_⟩;
           first
            | exact Trans.begin
            | (apply Trans.commitNoop; simp_all; done)
            | (apply Trans.commitAborted <;> simp_all; done)
            | (apply Trans.commit <;> simp_all; done)
            | exact Trans.rollback
            | (apply Trans.savepointRefused; simp_all; done)
            | (apply Trans.savepoint; simp_all; done)
            | (apply Trans.releaseRefused; simp_all; done)
            | (apply Trans.releaseBad <;> simp_all; done)
            | (apply Trans.release <;> simp_all; done)
            | (apply Trans.rollbackToBad; simp_all; done)
            | (apply Trans.rollbackTo; simp_all; done)
            | (apply Trans.refused <;> simp_all [Stmt.isCtl]; done)
            | (apply Trans.exec <;> simp_all [Stmt.isCtl]; done)
            | (apply Trans.execFailed <;> simp_all [Stmt.isCtl]; done)
            | (apply Trans.deadlock (t := by assumption) <;> simp_all [Stmt.isCtl]; done))

end Ledger.Sched
