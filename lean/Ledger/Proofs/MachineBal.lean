import Ledger.Machine.Sem
import Ledger.Proofs.MachineFunding

/-! Lemmas on the balance primitives of the machine (`withdrawAll`, `withdrawAlways`,
    `repay`, `credit`) and on posting sums. -/
namespace Ledger.Machine

variable {cfg : Cfg}

/-- Funds of account `a` inside a part list. -/
def acctTotal (a : String) (ps : List Part) : Int := totalOf (fun x => x == a) ps

/-- Well-formed balances: a tracked pair belongs to a tracked account. -/
def Balances.WF (b : Balances) : Prop := ∀ a c v, b.get a c = some v → b.hasAcct a = true

theorem Balances.set_hasAcct (b : Balances) (a c : String) (v : Int) :
    (b.set a c v).hasAcct = b.hasAcct := rfl

theorem Balances.set_get (b : Balances) (a c : String) (v : Int) (a' c' : String) :
    (b.set a c v).get a' c' = if a' = a ∧ c' = c then some v else b.get a' c' := rfl

theorem Balances.WF_set {b : Balances} (h : b.WF) {a c : String} {v : Int} (ha : b.hasAcct a = true) :
    (b.set a c v).WF := by
  intro a' c' v' hg
  rw [Balances.set_get] at hg
  rw [Balances.set_hasAcct]
  split at hg
  · rename_i h1; rw [h1.1]; exact ha
  · exact h a' c' v' hg

/-- Amounts sent out of / into account `a` in asset `c` by a posting list. -/
def flowOut (a c : String) : List Posting → Int
  | [] => 0
  | p :: ps => (if p.source = a ∧ p.asset = c then p.amount else 0) + flowOut a c ps

def flowIn (a c : String) : List Posting → Int
  | [] => 0
  | p :: ps => (if p.destination = a ∧ p.asset = c then p.amount else 0) + flowIn a c ps

def amountSum : List Posting → Int
  | [] => 0
  | p :: ps => p.amount + amountSum ps

theorem flowOut_append (a c : String) (x y : List Posting) :
    flowOut a c (x ++ y) = flowOut a c x + flowOut a c y := by
  induction x with
  | nil => simp [flowOut]
  | cons p ps ih => simp [flowOut, ih]; omega

theorem flowIn_append (a c : String) (x y : List Posting) :
    flowIn a c (x ++ y) = flowIn a c x + flowIn a c y := by
  induction x with
  | nil => simp [flowIn]
  | cons p ps ih => simp [flowIn, ih]; omega

theorem amountSum_append (x y : List Posting) : amountSum (x ++ y) = amountSum x + amountSum y := by
  induction x with
  | nil => simp [amountSum]
  | cons p ps ih => simp [amountSum, ih]; omega

theorem flowOut_mkPostings (a c asset dest : String) (parts : List Part) :
    flowOut a c (mkPostings asset dest parts) = if asset = c then acctTotal a parts else 0 := by
  induction parts with
  | nil => simp [mkPostings, flowOut, acctTotal, totalOf]
  | cons p ps ih =>
    simp only [mkPostings, List.map_cons, flowOut, acctTotal, totalOf] at *
    rw [ih]
    by_cases h1 : asset = c <;> by_cases h2 : p.account = a <;> simp [h1, h2]

theorem flowIn_mkPostings (a c asset dest : String) (parts : List Part) :
    flowIn a c (mkPostings asset dest parts) = if dest = a ∧ asset = c then total parts else 0 := by
  induction parts with
  | nil => simp [mkPostings, flowIn, total]
  | cons p ps ih =>
    simp only [mkPostings, List.map_cons, flowIn, total] at *
    rw [ih]
    by_cases h1 : dest = a ∧ asset = c <;> simp [h1]

theorem amountSum_mkPostings (asset dest : String) (parts : List Part) :
    amountSum (mkPostings asset dest parts) = total parts := by
  induction parts with
  | nil => rfl
  | cons p ps ih => simp only [mkPostings, List.map_cons, amountSum, total] at *; rw [ih]

/-- Sum of the postings whose source satisfies `P`. -/
def outOf (P : String → Bool) : List Posting → Int
  | [] => 0
  | p :: ps => (if P p.source then p.amount else 0) + outOf P ps

theorem outOf_append (P : String → Bool) (x y : List Posting) :
    outOf P (x ++ y) = outOf P x + outOf P y := by
  induction x with
  | nil => simp [outOf]
  | cons p ps ih => simp [outOf, ih]; omega

theorem outOf_mkPostings (P : String → Bool) (asset dest : String) (parts : List Part) :
    outOf P (mkPostings asset dest parts) = totalOf P parts := by
  induction parts with
  | nil => rfl
  | cons p ps ih => simp only [mkPostings, List.map_cons, outOf, totalOf] at *; rw [ih]

theorem amountSum_eq_outOf (ps : List Posting) : amountSum ps = outOf (fun _ => true) ps := by
  induction ps with
  | nil => rfl
  | cons p ps ih => simp [amountSum, outOf, ih]

theorem flowOut_eq_outOf (a c : String) (ps : List Posting) (h : ∀ p ∈ ps, p.asset = c) :
    flowOut a c ps = outOf (fun x => x == a) ps := by
  induction ps with
  | nil => rfl
  | cons p ps ih =>
    have hp : p.asset = c := h p (by simp)
    simp only [flowOut, outOf, ih (fun q hq => h q (by simp [hq]))]
    by_cases h2 : p.source = a <;> simp [h2, hp]

theorem flowOut_other (a c : String) (ps : List Posting) (asset : String) (hne : asset ≠ c)
    (h : ∀ p ∈ ps, p.asset = asset) : flowOut a c ps = 0 := by
  induction ps with
  | nil => rfl
  | cons p ps ih =>
    have hp : p.asset = asset := h p (by simp)
    simp only [flowOut, ih (fun q hq => h q (by simp [hq]))]
    have : ¬ (p.source = a ∧ p.asset = c) := by rintro ⟨_, h3⟩; exact hne (hp ▸ h3)
    simp [this]

theorem flowIn_other (a c : String) (ps : List Posting) (asset : String) (hne : asset ≠ c)
    (h : ∀ p ∈ ps, p.asset = asset) : flowIn a c ps = 0 := by
  induction ps with
  | nil => rfl
  | cons p ps ih =>
    have hp : p.asset = asset := h p (by simp)
    simp only [flowIn, ih (fun q hq => h q (by simp [hq]))]
    have : ¬ (p.destination = a ∧ p.asset = c) := by rintro ⟨_, h3⟩; exact hne (hp ▸ h3)
    simp [this]

/-! ### `withdrawAll` / `withdrawAlways` -/

theorem withdrawAll_spec {b b' : Balances} {acc asset : String} {od : Option Int} {p : Part}
    (h : withdrawAll b acc asset od = .ok (p, b')) :
    p.account = acc ∧ 0 ≤ p.amount ∧ b'.hasAcct = b.hasAcct ∧ (b.WF → b'.WF) ∧
    (∀ a c v, b.get a c = some v →
      b'.get a c = some (v - (if a = acc ∧ c = asset then p.amount else 0))) ∧
    (∀ v, b.get acc asset = some v → ∃ v', b'.get acc asset = some v' ∧ min v (-(nilAsZero od)) ≤ v') := by
  unfold withdrawAll at h
  split at h
  · cases h
  · rename_i bal hb
    split at h
    · rename_i hpos
      split at h
      · cases h
      · rename_i o
        cases h
        simp only [nilAsZero] at hpos
        refine ⟨rfl, by simp; omega, rfl, ?_, ?_, ?_⟩
        · intro hwf; exact Balances.WF_set hwf (hwf _ _ _ hb)
        · intro a c v hg
          rw [Balances.set_get]
          by_cases h1 : a = acc ∧ c = asset
          · obtain ⟨rfl, rfl⟩ := h1
            rw [hb] at hg; cases hg
            simp; omega
          · simp [h1, hg]
        · intro v hg
          rw [hb] at hg; cases hg
          refine ⟨-o, by simp [Balances.set_get], ?_⟩
          simp only [nilAsZero]; omega
    · cases h
      refine ⟨rfl, by simp, rfl, id, ?_, ?_⟩
      · intro a c v hg; simp [hg]
      · intro v hg; exact ⟨v, hg, by omega⟩

theorem withdrawAlways_spec (b : Balances) (acc asset : String) (amt : Int) :
    (withdrawAlways b acc asset amt).1 = ⟨acc, amt⟩ ∧
    (withdrawAlways b acc asset amt).2.hasAcct = b.hasAcct ∧
    (b.WF → (withdrawAlways b acc asset amt).2.WF) ∧
    (∀ a c v, b.get a c = some v →
      (withdrawAlways b acc asset amt).2.get a c = some (v - (if a = acc ∧ c = asset then amt else 0))) := by
  unfold withdrawAlways
  split
  · rename_i bal hb
    refine ⟨rfl, rfl, ?_, ?_⟩
    · intro hwf; exact Balances.WF_set hwf (hwf _ _ _ hb)
    · intro a c v hg
      simp only [Balances.set_get]
      by_cases h1 : a = acc ∧ c = asset
      · obtain ⟨rfl, rfl⟩ := h1
        rw [hb] at hg; cases hg; simp
      · simp [h1, hg]
  · refine ⟨rfl, rfl, id, ?_⟩
    intro a c v hg
    rename_i hnone
    by_cases h1 : a = acc ∧ c = asset
    · obtain ⟨rfl, rfl⟩ := h1
      rw [hnone] at hg; cases hg
    · simp [h1, hg]

/-! ### `repay` / `credit` -/

theorem repayPart_spec (asset : String) (b : Balances) (p : Part) :
    (repayPart asset b p).hasAcct = b.hasAcct ∧ (b.WF → (repayPart asset b p).WF) ∧
    (∀ a c v, a ≠ "world" → b.WF → b.get a c = some v →
      (repayPart asset b p).get a c = some (v + (if c = asset ∧ p.account = a then p.amount else 0))) := by
  unfold repayPart
  split
  · rename_i hw
    refine ⟨rfl, id, ?_⟩
    intro a c v ha _ hg
    have : ¬ (c = asset ∧ p.account = a) := by rintro ⟨_, h2⟩; exact ha (h2 ▸ hw)
    simp [this, hg]
  · split
    · rename_i hw hacc
      refine ⟨rfl, fun hwf => Balances.WF_set hwf hacc, ?_⟩
      intro a c v _ _ hg
      rw [Balances.set_get]
      by_cases h1 : a = p.account ∧ c = asset
      · obtain ⟨rfl, rfl⟩ := h1
        simp [hg, nilAsZero]
      · have : ¬ (c = asset ∧ p.account = a) := by rintro ⟨h2, h3⟩; exact h1 ⟨h3.symm, h2⟩
        simp [h1, this, hg]
    · rename_i hw hacc
      refine ⟨rfl, id, ?_⟩
      intro a c v _ hwf hg
      have : ¬ (c = asset ∧ p.account = a) := by
        rintro ⟨_, h2⟩; subst h2; exact hacc (hwf _ _ _ hg)
      simp [this, hg]

theorem repay_spec (asset : String) (parts : List Part) (b : Balances) :
    (repay b asset parts).hasAcct = b.hasAcct ∧ (b.WF → (repay b asset parts).WF) ∧
    (∀ a c v, a ≠ "world" → b.WF → b.get a c = some v →
      (repay b asset parts).get a c = some (v + (if c = asset then acctTotal a parts else 0))) := by
  induction parts generalizing b with
  | nil =>
    refine ⟨rfl, id, ?_⟩
    intro a c v _ _ hg
    simp [repay, acctTotal, totalOf, hg]
  | cons p ps ih =>
    obtain ⟨h1, h2, h3⟩ := repayPart_spec asset b p
    obtain ⟨i1, i2, i3⟩ := ih (repayPart asset b p)
    have e : repay b asset (p :: ps) = repay (repayPart asset b p) asset ps := rfl
    rw [e]
    refine ⟨i1.trans h1, fun hwf => i2 (h2 hwf), ?_⟩
    intro a c v ha hwf hg
    rw [i3 a c _ ha (h2 hwf) (h3 a c v ha hwf hg)]
    simp only [acctTotal, totalOf]
    by_cases hc : c = asset <;> by_cases hp : p.account = a <;> simp [hc, hp] <;> omega

theorem credit_spec (b : Balances) (dest asset : String) (parts : List Part) :
    (credit b dest asset parts).hasAcct = b.hasAcct ∧ (b.WF → (credit b dest asset parts).WF) ∧
    (∀ a c v, b.get a c = some v →
      (credit b dest asset parts).get a c =
        some (v + (if a = dest ∧ c = asset ∧ dest ≠ "world" then total parts else 0))) := by
  unfold credit
  split
  · rename_i hw
    refine ⟨rfl, id, ?_⟩
    intro a c v hg
    have : ¬ (a = dest ∧ c = asset ∧ dest ≠ "world") := by rintro ⟨_, _, h3⟩; exact h3 hw
    simp [this, hg]
  · rename_i hw
    split
    · rename_i bal hb
      refine ⟨rfl, fun hwf => Balances.WF_set hwf (hwf _ _ _ hb), ?_⟩
      intro a c v hg
      rw [Balances.set_get]
      by_cases h1 : a = dest ∧ c = asset
      · obtain ⟨rfl, rfl⟩ := h1
        rw [hb] at hg; cases hg
        simp [hw]
      · have : ¬ (a = dest ∧ c = asset ∧ dest ≠ "world") := by rintro ⟨h2, h3, _⟩; exact h1 ⟨h2, h3⟩
        simp [h1, this, hg]
    · rename_i hnone
      refine ⟨rfl, id, ?_⟩
      intro a c v hg
      have : ¬ (a = dest ∧ c = asset ∧ dest ≠ "world") := by
        rintro ⟨h2, h3, _⟩; subst h2; subst h3; rw [hnone] at hg; cases hg
      simp [this, hg]

end Ledger.Machine
