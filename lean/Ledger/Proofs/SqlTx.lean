import Ledger.Proofs.SqlUpdate
import Ledger.Proofs.SqlValues
import Ledger.Proofs.SqlRevertExpr

/-!
# The table `transactions`: typed rows, unique indexes
-/
open Ledger Ledger.Sql Ledger.Generated

namespace Ledger.Sql

def optText : Option String → Value
  | some s => .text s
  | none => .null

def optJson : Option JV → Value
  | some j => .json j
  | none => .null

/-- the contents of a row of `transactions` -/
structure TxR where
  ledger : String
  id : Int
  timestamp : Int
  reference : Option String
  revertedAt : Option Int
  updatedAt : Int
  postings : String
  sources : JV
  destinations : JV
  sourcesArrays : JV
  destinationsArrays : JV
  metadata : JV
  pcv : Option JV
  insertedAt : Option Int
  template : Option String

/-- column order of `Schema.tbl_transactions` -/
def txVals (x : TxR) : List Value :=
  [.text x.ledger, .int x.id, .ts x.timestamp, optText x.reference, optTs x.revertedAt, .ts x.updatedAt, .text x.postings,
   .json x.sources, .json x.destinations, .json x.sourcesArrays, .json x.destinationsArrays, .json x.metadata,
   optJson x.pcv, optTs x.insertedAt, optText x.template]

def txCols : List String := Schema.tbl_transactions.cols.map (·.name)

/-- `transactions` of bucket `b`, with the per-ledger triggers `trigs` -/
def txT (b : String) (trigs : List TriggerDef) (nr : Nat) : Table :=
  { Schema.tbl_transactions with name := b ++ "." ++ "transactions", triggers := trigs, nextRid := nr }

def txFull (b : String) : String := b ++ "." ++ "transactions"

theorem txT_colNames (b : String) (trigs : List TriggerDef) (nr : Nat) : (txT b trigs nr).colNames = txCols := rfl

/-- every row holds a well-typed transaction -/
def TxTyped (rows : List Ver) : Prop := ∀ r ∈ rows, ∃ x, r.vals = txVals x

theorem lookup_tx (env : Env) (alias : String) (x : TxR) (src : Option (String × Nat)) (c : String) (v : Value)
    (h : lookupIn txCols (txVals x) c = some v) :
    lookupColumn { env with locals := [{ alias := alias, cols := txCols, vals := txVals x, src := src }] } "" c = .ok v := by
  simp [lookupColumn, Env.scopes, lookupUnqualified, h]
  rfl

/-- the guard of RevertTransaction on a typed row -/
theorem exec_whereHolds_revert (m : Nat) (env : Env) (alias l : String) (txid : Int) (x : TxR) (src : Option (String × Nat)) (s : St) :
    (whereHolds (m + 1) env (some (Expr.binop BinOp.and (Expr.binop BinOp.and (Expr.binop BinOp.eq (Expr.col "" "id") (Expr.int txid))
        (Expr.isNull (Expr.col "" "reverted_at") false)) (Expr.binop BinOp.eq (Expr.col "" "ledger") (Expr.str l))))
      [{ alias := alias, cols := txCols, vals := txVals x, src := src }]).exec s =
      (.ok (decide (x.id = txid ∧ x.revertedAt = none ∧ x.ledger = l)), s) := by
  rw [whereHolds]
  have h := revert_guard_eval (cbs m) s.w.types { env with locals := [{ alias := alias, cols := txCols, vals := txVals x, src := src }] }
    l txid x.id x.revertedAt x.ledger s (lookup_tx env alias x src "id" _ rfl) (lookup_tx env alias x src "reverted_at" _ rfl)
    (lookup_tx env alias x src "ledger" _ rfl)
  simp only [exec_bind, exec_typeEnv, h, truth_bool, exec_liftR_ok, exec_pure]
  cases decide (x.id = txid ∧ x.revertedAt = none ∧ x.ledger = l) <;> rfl


theorem castTo_ts_text (te : TypeEnv) (str : String) (T : Int) (h : tsParse str = .ok T) :
    castTo te (SqlType.mk "" "timestamp" "" false) (.text str) = .ok (.ts T) := by
  simp [castTo, castNonArray, castScalar, isIntType, h, liftStr]
  rfl

/-- `SET reverted_at = '<ts>', updated_at = '<ts>'` on a typed row -/
theorem exec_applySets_revertAt (m : Nat) (env : Env) (b : String) (trigs : List TriggerDef) (nr : Nat) (rows : List Ver)
    (x : TxR) (atTs : String) (T : Int) (hT : tsParse atTs = .ok T) (s : St) :
    (applySets (m + 1) env ((txT b trigs nr).withRows rows) (txVals x)
        [SetItem.mk "reverted_at" (Expr.str atTs), SetItem.mk "updated_at" (Expr.str atTs)]).exec s =
      (.ok (txVals { x with revertedAt := some T, updatedAt := T }), s) := by
  rw [applySets]
  simp [exec_bind, txT, Table.withRows, Schema.tbl_transactions, evalExpr, castTo_ts_text _ atTs T hT, txVals, List.lookup, optTs]

theorem exec_checkConstraints_tx (b : String) (trigs : List TriggerDef) (nr : Nat) (rows : List Ver) (x : TxR) (s : St) :
    (checkConstraints ((txT b trigs nr).withRows rows) (txVals x)).exec s = (.ok (), s) := by
  simp [checkConstraints, txT, Table.withRows, Schema.tbl_transactions, notNullViolation, Value.isNull, checkChecks, txVals,
    exec_bind, evalExpr, rowScope, Table.colNames, lookupColumn, Env.scopes, lookupUnqualified, lookupIn, Value.truth]


/-! ### unique indexes -/

def txIdx1 : UniqueIdx := { name := "transactions_ledger", cols := ["ledger", "id"], pred := none, primary := true }
def txIdx2 : UniqueIdx :=
  { name := "transactions_reference", cols := ["ledger", "reference"],
    pred := some (Expr.binop BinOp.ne (Expr.col "" "reference") (Expr.str "")), primary := false }

theorem txT_uniques (b : String) (trigs : List TriggerDef) (nr : Nat) (rows : List Ver) :
    ((txT b trigs nr).withRows rows).uniques = [txIdx1, txIdx2] := rfl

/-- does a row with contents `x'` conflict with new contents `x` on the primary key / the reference index? -/
def txConf1 (x x' : TxR) : Bool := x'.ledger == x.ledger && x'.id == x.id
def txConf2 (x x' : TxR) : Bool :=
  match x.reference, x'.reference with
  | some ref, some ref' => x'.ledger == x.ledger && ref' == ref && ref' != ""
  | _, _ => false

theorem exec_predHolds_tx2 (b : String) (trigs : List TriggerDef) (nr : Nat) (rows : List Ver) (x : TxR) (s : St) :
    (predHolds ((txT b trigs nr).withRows rows) txIdx2.pred (txVals x)).exec s =
      (.ok (match x.reference with | some ref => ref != "" | none => false), s) := by
  simp only [predHolds, txIdx2, exec_bind, exec_typeEnv, evalExpr]
  have hl : lookupColumn { locals := [rowScope ((txT b trigs nr).withRows rows) (baseName ((txT b trigs nr).withRows rows).name) (txVals x)] } "" "reference" =
      .ok (optText x.reference) := by
    simp [lookupColumn, Env.scopes, lookupUnqualified, rowScope, txT, Table.withRows, Table.colNames, Schema.tbl_transactions, txVals, lookupIn]
    rfl
  simp only [hl, exec_liftR_ok, exec_bind]
  cases hr : x.reference with
  | none =>
    simp [optText, evalBinop, compareValues, compareScalar, ofTruth, Value.truth]
  | some ref =>
    simp [optText, evalBinop_ne_text, truth_bool]

theorem sameGroupKey_text_int (a b : String) (i j : Int) :
    sameGroupKey [.text a, .int i] [.text b, .int j] = .ok (a == b && i == j) := by
  simp only [sameGroupKey, compareForSort_text', compareForSort_int, bind, Except.bind, cmpStr_eq', cmpInt_eq]
  have e1 : (a == b) = decide (a = b) := by by_cases h : a = b <;> simp [h]
  have e2 : (i == j) = decide (i = j) := by by_cases h : i = j <;> simp [h]
  rw [e1, e2]
  by_cases h1 : a = b <;> by_cases h2 : i = j <;> simp [h1, h2] <;> rfl

theorem exec_keyMatches_tx1 (b : String) (trigs : List TriggerDef) (nr : Nat) (rows : List Ver) (x x' : TxR) (r : Ver)
    (hr : r.vals = txVals x') (s : St) :
    (keyMatches ((txT b trigs nr).withRows rows) txIdx1 [.text x.ledger, .int x.id] r).exec s = (.ok (txConf1 x x'), s) := by
  have hk : keyOf ((txT b trigs nr).withRows rows) txIdx1.cols r.vals = [.text x'.ledger, .int x'.id] := by
    rw [hr]; rfl
  simp only [keyMatches, hk, exec_bind, sameGroupKey_text_int, exec_liftR_ok, txConf1]
  cases (x'.ledger == x.ledger && x'.id == x.id) <;> simp [predHolds, txIdx1]


theorem sameGroupKey_text_optText (a b : String) (r' : Option String) (ref : String) :
    sameGroupKey [.text a, optText r'] [.text b, .text ref] = .ok (a == b && r' == some ref) := by
  have e1 : (a == b) = decide (a = b) := by by_cases h : a = b <;> simp [h]
  cases r' with
  | none =>
    simp only [sameGroupKey, optText, compareForSort_text', compareForSort_null_text, bind, Except.bind, cmpStr_eq']
    rw [e1]
    by_cases h1 : a = b <;> simp [h1] <;> rfl
  | some q =>
    have e2 : (some q == some ref) = decide (q = ref) := by by_cases h : q = ref <;> simp [h]
    simp only [sameGroupKey, optText, compareForSort_text', bind, Except.bind, cmpStr_eq']
    rw [e1, e2]
    by_cases h1 : a = b <;> by_cases h2 : q = ref <;> simp [h1, h2] <;> rfl

theorem exec_keyMatches_tx2 (b : String) (trigs : List TriggerDef) (nr : Nat) (rows : List Ver) (x x' : TxR) (ref : String)
    (hx : x.reference = some ref) (r : Ver) (hr : r.vals = txVals x') (s : St) :
    (keyMatches ((txT b trigs nr).withRows rows) txIdx2 [.text x.ledger, .text ref] r).exec s = (.ok (txConf2 x x'), s) := by
  have hk : keyOf ((txT b trigs nr).withRows rows) txIdx2.cols (txVals x') = [.text x'.ledger, optText x'.reference] := rfl
  simp only [keyMatches, hr, hk, exec_bind, sameGroupKey_text_optText, exec_liftR_ok, txConf2, hx, exec_predHolds_tx2]
  cases hq : x'.reference with
  | none => simp
  | some q =>
    by_cases h1 : x'.ledger = x.ledger <;> by_cases h2 : q = ref <;> simp [h1, h2, exec_predHolds_tx2, hq]

/-- no unique violation when no other visible row conflicts -/
theorem exec_findConflict_tx_none (b : String) (trigs : List TriggerDef) (nr : Nat) (rows : List Ver) (x : TxR) (ex : Option Nat)
    (s : St) (hsolo : ∀ y ∈ s.w.active, y = s.xid) (ht : TxTyped rows)
    (hno : ∀ r ∈ rows, r.visible (latestView s.w s.xid) = true → (some r.rid == ex) = false → ∀ x', r.vals = txVals x' →
      txConf1 x x' = false ∧ txConf2 x x' = false) :
    (findConflict ((txT b trigs nr).withRows rows) [txIdx1, txIdx2] (txVals x) ex).exec s = (.ok none, s) := by
  have hk1 : keyOf ((txT b trigs nr).withRows rows) txIdx1.cols (txVals x) = [.text x.ledger, .int x.id] := rfl
  have hk2 : keyOf ((txT b trigs nr).withRows rows) txIdx2.cols (txVals x) = [.text x.ledger, optText x.reference] := rfl
  -- index 1: every visible, non-excluded row answers `false`
  have hs1 : (scanConflict ((txT b trigs nr).withRows rows) txIdx1 [.text x.ledger, .int x.id] ex (latestView s.w s.xid) s.xid s.w.active rows).exec s =
      (.ok none, s) := by
    rw [exec_scanConflict_gen _ txIdx1 _ ex _ s.xid s.w.active hsolo s (fun _ => false) rows (by
        intro r hr hv he
        obtain ⟨x', hx'⟩ := ht r hr
        rw [exec_keyMatches_tx1 b trigs nr rows x x' r hx' s, (hno r hr hv he x' hx').1])]
    simp
  have hp1 : (predHolds ((txT b trigs nr).withRows rows) txIdx1.pred (txVals x)).exec s = (.ok true, s) := by
    simp [predHolds, txIdx1]
  have hrows : ((txT b trigs nr).withRows rows).rows = rows := rfl
  rw [findConflict]
  simp only [exec_bind, hp1, Bool.not_true, Bool.false_eq_true, if_false, hk1, List.any, Value.isNull, Bool.or_false,
    exec_get, hrows, hs1]
  rw [findConflict]
  simp only [exec_bind, exec_predHolds_tx2]
  cases hx : x.reference with
  | none => simp [findConflict]
  | some ref =>
    by_cases hre : ref = ""
    · subst hre; simp [findConflict]
    · have hs2 : (scanConflict ((txT b trigs nr).withRows rows) txIdx2 [.text x.ledger, .text ref] ex (latestView s.w s.xid) s.xid s.w.active rows).exec s =
          (.ok none, s) := by
        rw [exec_scanConflict_gen _ txIdx2 _ ex _ s.xid s.w.active hsolo s (fun _ => false) rows (by
            intro r hr hv he
            obtain ⟨x', hx'⟩ := ht r hr
            rw [exec_keyMatches_tx2 b trigs nr rows x x' ref hx r hx' s, (hno r hr hv he x' hx').2])]
        simp
      have hne : (ref != "") = true := by simpa using hre
      simp only [hne, Bool.not_true, Bool.false_eq_true, if_false, hk2, hx, optText, List.any, Value.isNull, Bool.or_false,
        exec_get, exec_bind, hrows, hs2]
      simp [findConflict]


/-! ### decoding, and UPDATEs that keep the key columns -/

def decOptText : Value → Option (Option String)
  | .text s => some (some s)
  | .null => some none
  | _ => none
def decOptTs : Value → Option (Option Int)
  | .ts t => some (some t)
  | .null => some none
  | _ => none
def decOptJson : Value → Option (Option JV)
  | .json j => some (some j)
  | .null => some none
  | _ => none

def txDecode : List Value → Option TxR
  | [.text l, .int i, .ts t, ref, ra, .ts u, .text p, .json s1, .json d1, .json s2, .json d2, .json md, pcv, ins, tpl] =>
    match decOptText ref, decOptTs ra, decOptJson pcv, decOptTs ins, decOptText tpl with
    | some ref, some ra, some pcv, some ins, some tpl =>
      some { ledger := l, id := i, timestamp := t, reference := ref, revertedAt := ra, updatedAt := u, postings := p, sources := s1,
             destinations := d1, sourcesArrays := s2, destinationsArrays := d2, metadata := md, pcv := pcv, insertedAt := ins, template := tpl }
    | _, _, _, _, _ => none
  | _ => none

theorem txDecode_txVals (x : TxR) : txDecode (txVals x) = some x := by
  obtain ⟨l, i, t, ref, ra, u, p, s1, d1, s2, d2, md, pcv, ins, tpl⟩ := x
  cases ref <;> cases ra <;> cases pcv <;> cases ins <;> cases tpl <;> rfl

/-- guard / new values on raw rows, from their meaning on typed rows -/
def txG (gR : TxR → Bool) (vals : List Value) : Bool :=
  match txDecode vals with
  | some x => gR x
  | none => false
def txF (fR : TxR → TxR) (vals : List Value) : List Value :=
  match txDecode vals with
  | some x => txVals (fR x)
  | none => vals

@[simp] theorem txG_txVals (gR : TxR → Bool) (x : TxR) : txG gR (txVals x) = gR x := by simp [txG, txDecode_txVals]
@[simp] theorem txF_txVals (fR : TxR → TxR) (x : TxR) : txF fR (txVals x) = txVals (fR x) := by simp [txF, txDecode_txVals]

theorem txVals_inj (x y : TxR) (h : txVals x = txVals y) : x = y := by
  have := congrArg txDecode h
  simpa [txDecode_txVals] using this

/-- storage invariant of `transactions` as the transaction sees it: typed rows, and no two visible rows
    (of different row ids) collide on the primary key or on the reference index -/
structure TxInv (lv : View) (rows : List Ver) : Prop where
  typed : TxTyped rows
  uniq : ∀ r1 ∈ rows, ∀ r2 ∈ rows, r1.visible lv = true → r2.visible lv = true → r1.rid ≠ r2.rid →
    ∀ x1 x2, r1.vals = txVals x1 → r2.vals = txVals x2 → txConf1 x1 x2 = false ∧ txConf2 x1 x2 = false

/-- an UPDATE that does not touch ledger, id and reference keeps the invariant and cannot violate a unique index -/
theorem txUpdInv (b : String) (trigs : List TriggerDef) (nr : Nat) (w : World) (xid cid : Nat) (hx : xid ≠ 0) (hc : cid < 1000000000)
    (gR : TxR → Bool) (fR : TxR → TxR)
    (hkeep : ∀ x, (fR x).ledger = x.ledger ∧ (fR x).id = x.id ∧ (fR x).reference = x.reference)
    (P : Ver → Prop) (hPt : ∀ r, P r → ∃ x, r.vals = txVals x) :
    UpdInv (txT b trigs nr) (txG gR) (txF fR) (latestView w xid) xid cid P (TxInv (latestView w xid)) where
  step := by
    intro rows r hinv hr hv hPr hg
    obtain ⟨x, hxv⟩ := hPt r hPr
    have hconf1 : ∀ y, txConf1 (fR x) y = txConf1 x y := by intro y; simp [txConf1, hkeep x]
    have hconf2 : ∀ y, txConf2 (fR x) y = txConf2 x y := by intro y; simp [txConf2, hkeep x]
    have hconf1' : ∀ y, txConf1 y (fR x) = txConf1 y x := by intro y; simp [txConf1, hkeep x]
    have hconf2' : ∀ y, txConf2 y (fR x) = txConf2 y x := by intro y; simp [txConf2, hkeep x]
    unfold updStep
    simp only [hg, if_true]
    have hold : ∀ q ∈ rows, (closeRow (latestView w xid) xid cid r.rid q).visible (latestView w xid) = true →
        q.visible (latestView w xid) = true ∧ q.rid ≠ r.rid := by
      intro q _ hvq
      rw [closeRow_visible w xid cid r.rid q hx hc] at hvq
      simpa using hvq
    refine ⟨?_, ?_⟩
    · intro q hq
      simp only [List.mem_cons, List.mem_map] at hq
      rcases hq with rfl | ⟨q0, hq0, rfl⟩
      · exact ⟨fR x, by simp [newVer, hxv]⟩
      · simpa using hinv.typed q0 hq0
    · intro r1 h1 r2 h2 v1 v2 hne x1 x2 e1 e2
      simp only [List.mem_cons, List.mem_map] at h1 h2
      rcases h1 with rfl | ⟨q1, hq1, rfl⟩ <;> rcases h2 with rfl | ⟨q2, hq2, rfl⟩
      · exact absurd rfl hne
      · obtain ⟨vq, nq⟩ := hold q2 hq2 v2
        have ex1 : x1 = fR x := txVals_inj _ _ (by rw [← e1]; simp [newVer, hxv])
        simp only [closeRow_vals] at e2
        have := hinv.uniq r hr q2 hq2 hv vq (fun e => nq e.symm) x x2 hxv e2
        rw [ex1, hconf1, hconf2]; exact this
      · obtain ⟨vq, nq⟩ := hold q1 hq1 v1
        have ex2 : x2 = fR x := txVals_inj _ _ (by rw [← e2]; simp [newVer, hxv])
        simp only [closeRow_vals] at e1
        have := hinv.uniq q1 hq1 r hr vq hv nq x1 x e1 hxv
        rw [ex2, hconf1', hconf2']; exact this
      · obtain ⟨vq1, nq1⟩ := hold q1 hq1 v1
        obtain ⟨vq2, nq2⟩ := hold q2 hq2 v2
        simp only [closeRow_vals, closeRow_rid] at e1 e2 hne
        exact hinv.uniq q1 hq1 q2 hq2 vq1 vq2 hne x1 x2 e1 e2
  noConflict := by
    intro rows r hinv hr hv hPr hg s hs hlv hxid
    obtain ⟨x, hxv⟩ := hPt r hPr
    have hconf1 : ∀ y, txConf1 (fR x) y = txConf1 x y := by intro y; simp [txConf1, hkeep x]
    have hconf2 : ∀ y, txConf2 (fR x) y = txConf2 x y := by intro y; simp [txConf2, hkeep x]
    rw [hxv, txF_txVals]
    apply exec_findConflict_tx_none b trigs nr rows (fR x) (some r.rid) s hs.solo hinv.typed
    intro q hq hvq hex x' hx'
    rw [hlv] at hvq
    have hne : q.rid ≠ r.rid := by
      intro e; rw [e] at hex; simp at hex
    have := hinv.uniq r hr q hq hv hvq (fun e => hne e.symm) x x' hxv hx'
    rw [hconf1, hconf2]; exact this

end Ledger.Sql
