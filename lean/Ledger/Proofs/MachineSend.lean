import Ledger.Proofs.MachineAllot

/-! C22 facts about one `send` statement. -/
namespace Ledger.Machine

variable {cfg : Cfg}

/-- What C22 says about the postings `new` of one send of `amount` in `asset`;
    `kept` is what the destination kept (handed back to the sources, not posted). -/
structure SendOK (st st' : State) (asset : String) (amount : Int) (new : List Posting) (kept : Int) : Prop where
  postings : st'.postings = st.postings ++ new
  assetOk : ∀ p ∈ new, p.asset = asset
  nonneg : ∀ p ∈ new, 0 ≤ p.amount
  sum : amountSum new + kept = amount
  keptNonneg : 0 ≤ kept

/-- `kept` is what a run of the destination left of some non-negative funding. -/
def KeptWitness (env : Env) (dst : Dest) (kept : Int) : Prop :=
  ∃ (f : Funding) (st0 : State) (rem : List Part) (st1 : State),
    partsNonneg f.parts ∧ evalDest env f.asset dst f.parts st0 = .ok (rem, st1) ∧ kept = total rem

theorem SendOK.ofFinish {f : Funding} {st0 st st' : State} {new : List Posting} {kept : Int}
    (hn : partsNonneg f.parts) (hfin : FinishOK f st st' new kept) (hp : st.postings = st0.postings) :
    SendOK st0 st' f.asset (total f.parts) new kept where
  postings := by rw [hfin.postings, hp]
  assetOk := hfin.assetOk
  nonneg := hfin.amounts hn
  sum := hfin.sum
  keptNonneg := hfin.keptNonneg hn

/-- `send <monetary> (source = <source> …)`: the postings are in the monetary's asset,
    non-negative, and sum to the monetary's amount minus what was kept. -/
theorem send_src_ok {env : Env} {mon : Expr} {s : Source} {dst : Dest} {st st' : State}
    (h : evalStmt cfg env (.send mon (.src s) dst) st = .ok st') :
    ∃ asset amt new kept, evalMonetary env mon = .ok (asset, some amt) ∧
      SendOK st st' asset amt new kept ∧ KeptWitness env dst kept := by
  simp only [evalStmt] at h
  split at h
  · cases h
  · rename_i asset _
    split at h
    · cases h
    · rename_i f b1 hs
      obtain ⟨i1, _⟩ := evalSource_ok cfg env asset s st.bal f b1 hs
      have hn0 : partsNonneg f.parts := i1.nonneg f (by simp)
      split at h
      · cases h
      · rename_i m hm
        split at h
        · cases h
        · rename_i r b2 ht
          obtain ⟨t, tsum⟩ := takeFromSource_ok ht
          obtain ⟨new, rem, fin, st1, hd⟩ := finishSend_ok h
          have e := tsum hn0
          have ok := SendOK.ofFinish (st0 := st) (t.nonneg hn0) fin rfl
          rw [t.assetR] at ok
          refine ⟨m.1, total r.parts, new, total rem, ?_, ok, ⟨r, _, rem, st1, t.nonneg hn0, hd, rfl⟩⟩
          rw [hm]
          obtain ⟨m1, m2⟩ := m
          simp only at e
          rw [e]

/-- `send [A *] (source = <source> …)`: the postings are in the funding's asset,
    non-negative, and sum to everything the sources made available minus what was
    kept. -/
theorem sendAll_ok {env : Env} {assetE : Expr} {s : Source} {dst : Dest} {st st' : State}
    (h : evalStmt cfg env (.sendAll assetE (.src s) dst) st = .ok st') :
    ∃ asset f b1 new kept, evalAssetE env assetE = .ok asset ∧
      evalSource cfg env asset s st.bal = .ok (f, b1) ∧
      SendOK st st' f.asset (total f.parts) new kept ∧ KeptWitness env dst kept := by
  simp only [evalStmt] at h
  split at h
  · cases h
  · rename_i asset ha
    split at h
    · cases h
    · rename_i f b1 hs
      obtain ⟨i1, _⟩ := evalSource_ok cfg env asset s st.bal f b1 hs
      have hn0 : partsNonneg f.parts := i1.nonneg f (by simp)
      obtain ⟨new, rem, fin, st1, hd⟩ := finishSend_ok h
      exact ⟨asset, f, b1, new, total rem, ha, hs, SendOK.ofFinish (st0 := st) hn0 fin rfl,
        ⟨f, _, rem, st1, hn0, hd, rfl⟩⟩

theorem allocate_length' (a : List Rat) (amt : Int) : (allocate a amt).length = a.length :=
  Ledger.C24.allocate_length a amt

theorem newAllotment_length {vs : List Portion} {a : List Rat} (h : newAllotment vs = .ok a) :
    a.length = vs.length := by
  unfold newAllotment at h
  split at h
  · cases h
  · simp only at h
    split at h
    · cases h
    · cases h; simp

theorem evalPortions_length {env : Env} :
    (ps : List PortionE) → (vs : List Portion) → evalPortions env ps = .ok vs → vs.length = ps.length
  | [], vs, h => by simp only [evalPortions] at h; cases h; rfl
  | p :: ps, vs, h => by
    simp only [evalPortions] at h
    split at h
    · cases h
    · split at h
      · cases h
      · rename_i vs' hvs
        cases h
        simp [evalPortions_length ps vs' hvs]

theorem makeAllotment_length {env : Env} {ps : List PortionE} {a : List Rat}
    (h : makeAllotment env ps = .ok a) : a.length = ps.length := by
  unfold makeAllotment at h
  split at h
  · cases h
  · rename_i vs hvs
    split at h
    · rename_i a' hna
      cases h
      rw [newAllotment_length hna, evalPortions_length ps vs hvs]
    · split at h <;> cases h

theorem AllotSrcList.portions_length (items : AllotSrcList) : items.portions.length = items.length := by
  induction items with
  | nil => rfl
  | cons p s r ih => simp [AllotSrcList.portions, AllotSrcList.length, ih]

/-- `send <monetary> (source = { <portion> from <source> … })`, for a statement the
    compiler accepted (`checkAllotment`). -/
theorem send_allot_ok {env : Env} (henv : EnvGood env) {ds : Decls} {mon : Expr} {items : AllotSrcList}
    {dst : Dest} {st st' : State} (hc : checkAllotment ds items.portions = .ok ())
    (h : evalStmt cfg env (.send mon (.allot items) dst) st = .ok st') :
    ∃ asset amt new kept, evalMonetary env mon = .ok (asset, some amt) ∧
      SendOK st st' asset amt new kept ∧ KeptWitness env dst kept := by
  simp only [evalStmt] at h
  split at h
  · cases h
  · rename_i m hm
    split at h
    · cases h
    · rename_i al hal
      split at h
      · cases h
      · rename_i amt hamt
        split at h
        · cases h
        · rename_i asset _
          split at h
          · cases h
          · rename_i fs b1 hs
            obtain ⟨i1, i2, i3, _⟩ := evalAllotSrc_ok cfg env asset m.1 items _ st.bal fs b1 hs
            split at h
            · cases h
            · rename_i f hasm
              obtain ⟨_, a2, a3, a4⟩ := assemble_ok hasm
              obtain ⟨new, rem, fin, st1, hd⟩ := finishSend_ok h
              have hw : KeptWitness env dst (total rem) := ⟨f, _, rem, st1, a2 i1.nonneg, hd, rfl⟩
              have ok := SendOK.ofFinish (st0 := st) (a2 i1.nonneg) fin rfl
              have hsum : al.sum = 1 := makeAllotment_sum_one henv hc hal
              have hlen : (allocate al amt).length = items.length := by
                rw [allocate_length', makeAllotment_length hal, AllotSrcList.portions_length]
              have htot : total f.parts = amt := by
                rw [a4, i3, ← hlen, List.take_length, Ledger.C24.allocate_sum al amt hsum]
              have hasset : f.asset = m.1 := by
                cases fs with
                | nil => simp [assemble] at hasm
                | cons g gs =>
                  have := a3 g (by simp)
                  rw [← this]; exact i2 g (by simp)
              rw [htot, hasset] at ok
              refine ⟨m.1, amt, new, total rem, ?_, ok, hw⟩
              rw [hm]
              have h2 : m.2 = some amt := by
                cases hm2 : m.2 with
                | none => simp [hm2, needAmt] at hamt
                | some v => simp [hm2, needAmt] at hamt; simp [hamt]
              obtain ⟨m1, m2⟩ := m
              simp only at h2
              rw [h2]

end Ledger.Machine
