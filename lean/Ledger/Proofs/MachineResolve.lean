import Ledger.Machine.Resolve
import Ledger.Proofs.MachineStmt

/-! What `prepare` (SetVarsFromJSON + ResolveResources + ResolveBalances) guarantees
    about the environment and the initial tracked balances. -/
namespace Ledger.Machine

variable {cfg : Cfg}

/-- A value is acceptable: monetary amounts are non-negative, portions are specific. -/
def ValGood : Value → Prop
  | .monetary _ (some n) => 0 ≤ n
  | .portion .remaining => False
  | _ => True

def EnvGood (env : Env) : Prop := ∀ kv ∈ env, ValGood kv.2

theorem lookup_mem {α : Type} (l : List (String × α)) (x : String) (v : α)
    (h : l.lookup x = some v) : (x, v) ∈ l := by
  induction l with
  | nil => simp at h
  | cons kv rest ih =>
    obtain ⟨k, w⟩ := kv
    simp only [List.lookup] at h
    split at h
    · rename_i heq
      cases h
      have : x = k := by simpa using heq
      subst this; simp
    · exact List.mem_cons_of_mem _ (ih h)

theorem EnvGood.nonneg {env : Env} (h : EnvGood env) : EnvNonneg env := by
  intro x a v hl
  exact h (x, _) (lookup_mem env x _ hl)

theorem EnvGood.portion {env : Env} (h : EnvGood env) {x : String} {p : Portion}
    (hl : env.lookup x = some (.portion p)) : ∃ r, p = .specific r := by
  have := h (x, _) (lookup_mem env x _ hl)
  cases p with
  | remaining => exact absurd this (by simp [ValGood])
  | specific r => exact ⟨r, rfl⟩

theorem newPortionSpecific_specific {r : Rat} {p : Portion} (h : newPortionSpecific r = .ok p) :
    p = .specific r := by
  unfold newPortionSpecific at h
  split at h
  · cases h
  · cases h; rfl

theorem parsePortionSpecific_specific {t : String} {p : Portion} (h : parsePortionSpecific t = .ok p) :
    ∃ r, p = .specific r := by
  unfold parsePortionSpecific at h
  simp only at h
  split at h
  · exact ⟨_, newPortionSpecific_specific h⟩
  · split at h
    · split at h
      · cases h
      · exact ⟨_, newPortionSpecific_specific h⟩
    · cases h

theorem parsePortionGo_specific {t : String} {p : Portion} (h : parsePortionGo t = .ok p) :
    ∃ r, p = .specific r := by
  unfold parsePortionGo at h
  split at h
  · exact parsePortionSpecific_specific h
  · split at h
    · split at h
      · split at h
        · cases h
        · exact ⟨_, newPortionSpecific_specific h⟩
      · cases h
    · cases h

theorem parseValue_good {ty : Ty} {data : String} {v : Value} (h : parseValue cfg ty data = .val v) :
    ValGood v := by
  unfold parseValue at h
  cases ty with
  | account => simp only at h; split at h <;> cases h; simp [ValGood]
  | asset => simp only at h; split at h <;> cases h; simp [ValGood]
  | number =>
    simp only at h
    split at h
    · cases h
    · split at h <;> cases h
    · cases h; simp [ValGood]
  | string => simp only at h; cases h; simp [ValGood]
  | monetary =>
    simp only at h
    split at h
    · cases h
    · split at h
      · cases h
      · split at h
        · cases h
        · split at h
          · cases h
          · cases h; simp only [ValGood]; omega
  | portion =>
    simp only at h
    split at h
    · rename_i p hp
      cases h
      obtain ⟨r, rfl⟩ := parsePortionGo_specific hp
      simp [ValGood]
    · cases h

theorem parsePlainVars_good (cfg : Cfg) (vars : List (String × String)) :
    (ds : List VarDecl) → (out : List (String × Parsed)) → parsePlainVars cfg vars ds = .ok out →
    ∀ kv ∈ out, ∀ v, kv.2 = .val v → ValGood v
  | [], out, h => by
    simp only [parsePlainVars] at h; cases h
    intro kv hkv; cases hkv
  | d :: ds, out, h => by
    simp only [parsePlainVars] at h
    split at h
    · split at h
      · cases h
      · rename_i data _
        split at h
        · cases h
        · rename_i p hp hnb
          split at h
          · cases h
          · rename_i r hr
            cases h
            intro kv hkv v hv
            rcases List.mem_cons.mp hkv with rfl | hkv
            · simp only at hv
              exact parseValue_good hv
            · exact parsePlainVars_good cfg vars ds r hr kv hkv v hv
    · exact parsePlainVars_good cfg vars ds out h

theorem EnvGood.append {env : Env} (h : EnvGood env) {x : String} {v : Value} (hv : ValGood v) :
    EnvGood (env ++ [(x, v)]) := by
  intro kv hkv
  rcases List.mem_append.mp hkv with hkv | hkv
  · exact h kv hkv
  · simp at hkv; subst hkv; exact hv

theorem resolveVars_good (cfg : Cfg) (inp : Input) (plain : List (String × Parsed))
    (hplain : ∀ kv ∈ plain, ∀ v, kv.2 = .val v → ValGood v) :
    (ds : List VarDecl) → (env : Env) → (bvs : List BalVar) → (env' : Env) → (bvs' : List BalVar) →
    resolveVars cfg inp plain ds env bvs = .ok (env', bvs') → EnvGood env → EnvGood env'
  | [], env, bvs, env', bvs', h, hg => by
    simp only [resolveVars] at h; cases h; exact hg
  | d :: ds, env, bvs, env', bvs', h, hg => by
    simp only [resolveVars] at h
    split at h
    · split at h
      · rename_i v hl
        exact resolveVars_good cfg inp plain hplain ds _ _ env' bvs' h
          (hg.append (hplain _ (lookup_mem plain _ _ hl) v rfl))
      · cases h
      · cases h
    · split at h
      · cases h
      · split at h
        · cases h
        · split at h
          · cases h
          · split at h
            · cases h
            · cases h
            · rename_i v hp
              exact resolveVars_good cfg inp plain hplain ds _ _ env' bvs' h (hg.append (parseValue_good hp))
    · split at h
      · cases h
      · split at h
        · cases h
        · exact resolveVars_good cfg inp plain hplain ds _ _ env' bvs' h (hg.append (by simp [ValGood]))

theorem setEnv_good {env : Env} (h : EnvGood env) (x : String) {v : Value} (hv : ValGood v) :
    EnvGood (setEnv env x v) := by
  intro kv hkv
  simp only [setEnv, List.mem_map] at hkv
  obtain ⟨kv0, h0, rfl⟩ := hkv
  split
  · exact hv
  · exact h kv0 h0

theorem foldl_setEnv_good (inp : Input) (live : List BalVar) (hl : ∀ bv ∈ live, 0 ≤ inp.balance bv.2.1 bv.2.2)
    (env : Env) (h : EnvGood env) :
    EnvGood (live.foldl (fun e bv => setEnv e bv.1 (.monetary bv.2.2 (some (inp.balance bv.2.1 bv.2.2)))) env) := by
  induction live generalizing env with
  | nil => exact h
  | cons bv rest ih =>
    simp only [List.foldl_cons]
    exact ih (fun x hx => hl x (by simp [hx])) _
      (setEnv_good h bv.1 (by simp only [ValGood]; exact hl bv (by simp)))

/-- Everything the proofs need from `prepare`. -/
theorem prepare_ok {s : Script} {inp : Input} {env : Env} {bal : Balances} {pairs : List (String × String)}
    (h : prepare cfg s inp = .ok (env, bal, pairs)) :
    EnvGood env ∧ bal.WF ∧ (∀ a c v, bal.get a c = some v → v = inp.balance a c) := by
  unfold prepare at h
  split at h
  · cases h
  · rename_i plain hsv
    have hplain : ∀ kv ∈ plain, ∀ v, kv.2 = .val v → ValGood v := by
      unfold setVars at hsv
      split at hsv
      · cases hsv
      · rename_i ps hps
        dsimp only at hsv
        split at hsv
        · cases hsv
        · cases hsv
          exact parsePlainVars_good cfg inp.vars s.vars _ hps
    split at h
    · cases h
    · rename_i env0 bvs hrv
      have hg0 : EnvGood env0 := resolveVars_good cfg inp plain hplain s.vars [] [] env0 bvs hrv
        (by intro kv hkv; cases hkv)
      unfold initBalances at h
      split at h
      · cases h
      · rename_i needed _
        split at h
        · cases h
        · dsimp only at h
          generalize (if cfg.balanceVarsPerAddress = true then liveBalVars bvs else bvs) = live at h
          split at h
          · cases h
          · rename_i hneg
            cases h
            refine ⟨?_, ?_, ?_⟩
            · apply foldl_setEnv_good inp _ _ env0 hg0
              intro bv hbv
              have := hneg
              simp only [List.any_eq_true, not_exists, not_and, Bool.not_eq_true] at this
              have h2 := this bv hbv
              simpa using h2
            · intro a c v hg
              simp only at hg
              split at hg
              · rename_i hany
                simp only [List.any_eq_true] at hany ⊢
                obtain ⟨p, hp, hpa⟩ := hany
                simp only [decide_eq_true_eq] at hpa
                exact ⟨p, hp, by simp [hpa.1]⟩
              · cases hg
            · intro a c v hg
              simp only at hg
              split at hg
              · cases hg; rfl
              · cases hg

end Ledger.Machine
