import Ledger.Proofs.ApiDecode

/-!
C36 helper lemmas: monetary amounts through the script-variable decoders of v1
and v2 and through the machine's `NewValueFromString`.
-/
namespace Ledger.Api

theorem JNum.text_ofInt (n : Int) : (JNum.ofInt n).text = showInt n := by
  cases n with
  | ofNat k => simp [JNum.text, JNum.ofInt, showInt]
  | negSucc k =>
    have : (Int.negSucc k).natAbs = k + 1 := rfl
    simp [JNum.text, JNum.ofInt, showInt, this, Int.negSucc_lt_zero]

/-! ### v1: `Script.ToCore` + `NewValueFromString` -/

theorem lookup_amount_asset (a : JVal) (b : JVal) :
    (mapOfList [("asset", a), ("amount", b)]).lookup "asset" = some a ∧
    (mapOfList [("asset", a), ("amount", b)]).lookup "amount" = some b := by
  simp [mapOfList, mapInsert, List.lookup]

/-- v1: a monetary variable `{"asset": a, "amount": n}` (`n` a JSON integer of any
    magnitude) becomes the string `a ++ " " ++ decimal n`. -/
theorem varV1_monetary (a : String) (n : Int) :
    varV1 (.obj [("asset", .str a), ("amount", JVal.int n)]) = .ok (a ++ " " ++ showIntS n) := by
  obtain ⟨h1, h2⟩ := lookup_amount_asset (.str a) (JVal.int n)
  simp [varV1, v1Monetary, h1, h2, decStringRaw, decBigIntRaw_int, Res.ofDec, bind, Except.bind, pure,
    Except.pure]

theorem splitFirstSpace_append (a b : List Char) (h : ' ' ∉ a) :
    splitFirstSpace (a ++ ' ' :: b) = some (a, b) := by
  induction a with
  | nil => simp [splitFirstSpace]
  | cons c cs ih =>
    have hc : c ≠ ' ' := fun e => h (by simp [e])
    have hcs : ' ' ∉ cs := fun e => h (by simp [e])
    simp [splitFirstSpace, hc, ih hcs]

/-- The machine reads `a ++ " " ++ decimal n` back as the monetary `(a, n)`:
    no magnitude bound. -/
theorem parseTyped_monetary (a : String) (n : Int) (hsp : ' ' ∉ a.toList)
    (ha : validAsset a.toList = true) (hn : 0 ≤ n) :
    parseTyped .monetary (a ++ " " ++ showIntS n) = .ok (.monetary a n) := by
  have hl : (a ++ " " ++ showIntS n).toList = a.toList ++ ' ' :: showInt n := by
    simp [String.toList_append, showIntS, String.toList_ofList]
  simp only [parseTyped, parseMonetaryVar, hl, splitFirstSpace_append _ _ hsp, parseBigInt_showInt, ha]
  have : ¬ n < 0 := by omega
  simp [this, Except.map]

end Ledger.Api

namespace Ledger.Api

/-! ### v2: `ScriptV1.ToCore` -/

theorem string_ofList_eq (a : String) (cs : List Char) :
    String.ofList (a.toList ++ ' ' :: cs) = a ++ " " ++ String.ofList cs := by
  apply String.toList_injective
  simp [String.toList_append, String.toList_ofList]

theorem fmtAsset_str (s : String) : fmtAsset (some (.str s)) = s.toList := rfl

/-- v2, amount given as a decimal *string*: passed through untouched, any magnitude. -/
theorem varV2_monetary_string (a : String) (n : Int) :
    varV2 (.obj [("asset", .str a), ("amount", .str (showIntS n))]) = some (a ++ " " ++ showIntS n) := by
  obtain ⟨h1, h2⟩ := lookup_amount_asset (.str a) (.str (showIntS n))
  unfold varV2
  simp only [h1, h2, fmtAsset_str]
  rw [string_ofList_eq]
  simp [showIntS, String.toList_ofList]

/-- v2, amount given as a JSON *number* (`json.Number`): the literal text reaches
    the machine untouched. -/
theorem varV2_monetary_number (a : String) (n : JNum) :
    varV2 (.obj [("asset", .str a), ("amount", .num n)]) = some (a ++ " " ++ String.ofList n.text) := by
  obtain ⟨h1, h2⟩ := lookup_amount_asset (.str a) (.num n)
  unfold varV2
  simp only [h1, h2, fmtAsset_str, v2NumericAmount]
  rw [string_ofList_eq]

end Ledger.Api
