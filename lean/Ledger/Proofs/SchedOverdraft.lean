import Ledger.Proofs.SchedBasic

/-!
# C06: the balance a writer checked under lock is the balance its commit produces
-/
namespace Ledger.Sched

/-- rows without an in-progress owner have no uncommitted version -/
def RowWf (w : World) : Prop := ∀ k, (w.vols k).own = none → (w.vols k).pen = none

/-- a balance read under lock stays the row's latest version, up to the reader's own spending -/
def ReadInv (w : World) : Prop :=
  RowWf w ∧ ∀ s p b, w.reads s p = some b →
    (w.vols p).own = some s ∧ (w.vols p).latest = some (b + w.spent s p)

theorem Row.commit_other {α : Type} {s t : Sid} {r : Row α} (h : r.own = some t) (hts : t ≠ s) :
    r.commit s = r := by
  unfold Row.commit
  rw [h]
  simp [hts]

theorem Row.abort_other {α : Type} {s t : Sid} {r : Row α} (h : r.own = some t) (hts : t ≠ s) :
    r.abort s = r := by
  unfold Row.abort
  rw [h]
  simp [hts]

theorem Row.commit_wf {α : Type} (s : Sid) (r : Row α) (h : r.own = none → r.pen = none) :
    (r.commit s).own = none → (r.commit s).pen = none := by
  unfold Row.commit
  split <;> simp_all

theorem Row.abort_wf {α : Type} (s : Sid) (r : Row α) (h : r.own = none → r.pen = none) :
    (r.abort s).own = none → (r.abort s).pen = none := by
  unfold Row.abort
  split <;> simp_all

theorem readInv_commit (w : World) (s : Sid) (h : ReadInv w) : ReadInv (w.commitTx s) := by
  refine ⟨fun k => Row.commit_wf s _ (h.1 k), ?_⟩
  intro t p b hr
  simp only [World.commitTx] at hr ⊢
  by_cases hts : t = s
  · simp [hts] at hr
  · simp only [hts, if_false] at hr ⊢
    have := h.2 t p b hr
    rw [Row.commit_other this.1 hts]
    exact this

theorem readInv_undo (w : World) (s : Sid) (b : Bool) (h : ReadInv w) : ReadInv (w.undo s b) := by
  refine ⟨fun k => Row.abort_wf s _ (h.1 k), ?_⟩
  intro t p v hr
  simp only [World.undo] at hr ⊢
  by_cases hts : t = s
  · simp [hts] at hr
  · simp only [hts, if_false] at hr ⊢
    have := h.2 t p v hr
    rw [Row.abort_other this.1 hts]
    exact this

theorem readInv_sess (w : World) (s : Sid) (f) (h : ReadInv w) : ReadInv (w.setSess s f) := h

theorem readInv_clear (w : World) (s : Sid) (h : ReadInv w) : ReadInv (w.clearWaiters s) := h

theorem readInv_rollback (w : World) (s : Sid) (h : ReadInv w) : ReadInv (w.rollbackTx s) := by
  unfold World.rollbackTx
  exact readInv_sess _ _ _ (readInv_clear _ _ (readInv_undo _ _ _ h))

theorem readInv_fail (w : World) (s : Sid) (h : ReadInv w) : ReadInv (w.failTx s) := by
  unfold World.failTx
  simp only
  split
  · exact readInv_sess _ _ _ (readInv_clear _ _ (readInv_undo _ _ _ h))
  · exact readInv_sess _ _ _ h

theorem readInv_getBal (w : World) (s : Sid) (ps vis : List Nat) (w' : World) (o : Out)
    (h : ReadInv w) (he : getBal w s ps vis = .done w' o) : ReadInv w' := by
  unfold getBal at he
  split at he
  · cases he
  · split at he
    · cases he
    · rename_i _ hsel
      injection he with hw _
      subst hw
      have hsel' := firstSome_none _ _ hsel
      constructor
      · intro k
        simp only
        split
        · split
          · simp
          · split
            · simp
            · exact h.1 k
        · exact h.1 k
      · intro t p b hr
        simp only at hr ⊢
        by_cases hc : (decide (t = s) && ps.contains p && sees w vis p) = true
        · rw [if_pos hc] at hr
          simp only [Bool.and_eq_true, decide_eq_true_eq] at hc
          obtain ⟨⟨hts, hps⟩, hsees⟩ := hc
          subst hts
          have hlat : (w.vols p).latest.isSome = true := by
            unfold sees at hsees; simp only [Bool.and_eq_true] at hsees; exact hsees.2
          have hnot : ¬ (((w.vols p).com.isNone && (w.vols p).own.isNone) = true) := by
            intro hcon
            simp only [Bool.and_eq_true, Option.isNone_iff_eq_none] at hcon
            have hp := h.1 p hcon.2
            simp [Row.latest, hp, hcon.1] at hlat
          simp only [hps, if_true, hnot, hsees, decide_true, Bool.true_and]
          injection hr with hb
          refine ⟨rfl, ?_⟩
          cases hl : (w.vols p).latest with
          | none => simp [hl] at hlat
          | some v =>
            simp only [hl, Option.getD_some, hsees, if_true] at hb
            subst hb
            simp only [Row.latest] at hl ⊢
            simpa using hl
        · rw [if_neg hc] at hr
          have hold := h.2 t p b hr
          rw [if_neg hc]
          by_cases hps : ps.contains p = true
          · simp only [hps, if_true]
            have h1 : ¬ (((w.vols p).com.isNone && (w.vols p).own.isNone) = true) := by
              simp [hold.1]
            rw [if_neg h1]
            split
            · rename_i hsees
              have hmem : p ∈ ps := by simpa using hps
              have := hsel' p hmem
              simp only [hsees, if_true] at this
              rcases heldByOther_none this with h0 | h0
              · rw [hold.1] at h0; cases h0
              · rw [hold.1] at h0
                injection h0 with h0
                subst h0
                simp only [decide_true, Bool.true_and, hps] at hc
                exact absurd hsees hc
            · exact hold
          · simp only [hps]
            exact hold

theorem foldl_add_shift (l : List (Nat × Int)) (a : Int) :
    l.foldl (fun a d => a + d.2) a = a + l.foldl (fun a d => a + d.2) 0 := by
  induction l generalizing a with
  | nil => simp
  | cons x xs ih => simp only [List.foldl]; rw [ih (a + x.2), ih (0 + x.2)]; omega

theorem readInv_updVol (w : World) (s : Sid) (ds : List (Nat × Int)) (w' : World) (o : Out)
    (h : ReadInv w) (he : updVol w s ds = .done w' o) : ReadInv w' := by
  unfold updVol at he
  split at he
  · cases he
  · rename_i hblk
    injection he with hw _
    subst hw
    have hblk' := firstSome_none _ _ hblk
    constructor
    · intro k
      simp only
      split
      · simp
      · exact h.1 k
    · intro t p b hr
      simp only at hr ⊢
      have hold := h.2 t p b hr
      by_cases htouched : (ds.any (fun d => decide (d.1 = p))) = true
      · simp only [htouched, if_true]
        obtain ⟨d, hd, hdp⟩ := List.any_eq_true.mp htouched
        have hdp' : d.1 = p := by simpa using hdp
        have hb := hblk' d hd
        rw [hdp'] at hb
        rcases heldByOther_none hb with h0 | h0
        · rw [hold.1] at h0; cases h0
        · rw [hold.1] at h0
          injection h0 with h0
          subst h0
          refine ⟨rfl, ?_⟩
          simp only [decide_true, Bool.true_and, if_true]
          simp only [Row.latest] at hold ⊢
          rw [hold.2]
          simp only [Option.getD_some]
          congr 1
          omega
      · simp only [htouched, Bool.and_false]
        exact hold

theorem readInv_exec (w : World) (s : Sid) (st : Stmt) (w' : World) (o : Out)
    (h : ReadInv w) (he : exec w s st = .done w' o) : ReadInv w' := by
  cases st with
  | getBalances ps => exact readInv_getBal _ _ _ _ _ _ h he
  | updateVolumes ds => exact readInv_updVol _ _ _ _ _ h he
  | insertTx l r i =>
    simp only [exec] at he
    obtain ⟨h1, h2, h3, _⟩ := insTx_frame (Or.inl ⟨o, he⟩)
    unfold ReadInv RowWf; rw [h1, h2, h3]; exact h
  | insertLog l k hh sy i t =>
    simp only [exec] at he
    obtain ⟨h1, h2, h3, _⟩ := insLog_frame (Or.inl ⟨o, he⟩)
    unfold ReadInv RowWf; rw [h1, h2, h3]; exact h
  | _ =>
    simp only [exec] at he
    repeat' split at he
    all_goals first
      | (cases he; done)
      | (cases he; exact h)

theorem readInv_execF (w : World) (s : Sid) (st : Stmt) (w' : World) (e : Err)
    (h : ReadInv w) (he : exec w s st = .failed w' e) : ReadInv w' := by
  cases st with
  | insertTx l r i =>
    simp only [exec] at he
    obtain ⟨h1, h2, h3, _⟩ := insTx_frame (Or.inr ⟨e, he⟩)
    unfold ReadInv RowWf; rw [h1, h2, h3]; exact h
  | insertLog l k hh sy i t =>
    simp only [exec] at he
    obtain ⟨h1, h2, h3, _⟩ := insLog_frame (Or.inr ⟨e, he⟩)
    unfold ReadInv RowWf; rw [h1, h2, h3]; exact h
  | getBalances ps =>
    simp only [exec] at he; unfold getBal at he
    repeat' split at he
    all_goals cases he
  | updateVolumes ds =>
    simp only [exec] at he; unfold updVol at he
    repeat' split at he
    all_goals cases he
  | _ =>
    simp only [exec] at he
    repeat' split at he
    all_goals first
      | (cases he; done)
      | (cases he; exact h)

theorem readInv_step (w : World) (s : Sid) (h : ReadInv w) : ReadInv (step w s) :=
  step_inv ReadInv s (fun w f h => readInv_sess w s f h) (fun w h => readInv_commit w s h)
    (fun w h => readInv_rollback w s h) (fun w h => readInv_fail w s h)
    (fun w st w' o h he => readInv_exec w s st w' o h he)
    (fun w st w' e h he => readInv_execF w s st w' e h he) w h

theorem readInv_run (σ : Schedule) (w : World) (h : ReadInv w) : ReadInv (run σ w) :=
  run_inv ReadInv readInv_step σ w h

/-- COMMIT makes the owner's latest version the committed one -/
theorem commit_latest (w : World) (s : Sid) (p : Nat) (h : (w.vols p).own = some s) :
    ((w.commitTx s).vols p).com = (w.vols p).latest := by
  simp [World.commitTx, Row.commit, h]

/-- The explicit, decidable hypothesis of the partial theorem: pair `p` of the `GetBalances ps` that
    session `s` is about to run (or to resume) is in the statement's snapshot — its `accounts_volumes`
    row was committed (or written earlier by the same transaction) when the statement was FIRST issued —
    and still has a version. -/
def CommittedWhenIssued (w : World) (s : Sid) (ps : List Nat) (p : Nat) : Bool :=
  sees w (snapOf w s ps) p

/-- the step in which `GetBalances` completes: for such a pair the session reads the latest version
    under lock -/
theorem getBalances_step_reads (w : World) (s : Sid) (ps : List Nat) (k : Out → Prog) (w' : World) (o : Out) (p : Nat)
    (hp : (w.sess s).prog = .stmt (.getBalances ps) k) (hab : (w.sess s).aborted = false)
    (he : getBal w s ps (snapOf w s ps) = .done w' o) (hmem : p ∈ ps) (hc : CommittedWhenIssued w s ps p = true) :
    (step w s).reads s p = some (((w.vols p).latest).getD 0) ∧ ((step w s).vols p).own = some s := by
  have hstep : (step w s).reads = w'.reads ∧ (step w s).vols = w'.vols := by
    unfold step stepR
    simp [hp, hab, exec, he, advance]
  rw [hstep.1, hstep.2]
  unfold getBal at he
  split at he
  · cases he
  · split at he
    · cases he
    · injection he with hw _
      subst hw
      have hps : ps.contains p = true := by simpa using hmem
      unfold CommittedWhenIssued at hc
      constructor
      · simp [hmem, hc]
      · simp only [hps, if_true, hc]
        split <;> rfl

/-! ## `lock_excludes` for rows: no step of another session changes a row that `s` owns -/

def RowIs (p : Nat) (r : Row Int) (w : World) : Prop := w.vols p = r

theorem rowIs_step (p : Nat) (r : Row Int) (s t : Sid) (hown : r.own = some s) (hts : t ≠ s)
    (w : World) (h : RowIs p r w) : RowIs p r (step w t) := by
  refine step_inv (RowIs p r) t ?_ ?_ ?_ ?_ ?_ ?_ w h
  · intro w f h; exact h
  · intro w h
    unfold RowIs at *
    simp only [World.commitTx]
    rw [h]; exact Row.commit_other hown (Ne.symm hts)
  · intro w h
    unfold RowIs at *
    simp only [World.rollbackTx, World.undo, World.clearWaiters, World.setSess]
    rw [h]; exact Row.abort_other hown (Ne.symm hts)
  · intro w h
    unfold RowIs at *
    unfold World.failTx
    simp only
    split
    · simp only [World.undo, World.clearWaiters, World.setSess]
      rw [h]; exact Row.abort_other hown (Ne.symm hts)
    · exact h
  · intro w st w' o h he
    unfold RowIs at *
    cases st with
    | getBalances ps =>
      simp only [exec] at he; unfold getBal at he
      split at he
      · cases he
      · split at he
        · cases he
        · rename_i _ hsel
          injection he with hw _
          subst hw
          have hsel' := firstSome_none _ _ hsel
          simp only
          split
          · rename_i hps
            have h1 : ¬ (((w.vols p).com.isNone && (w.vols p).own.isNone) = true) := by
              rw [h]; simp [hown]
            rw [if_neg h1]
            split
            · rename_i hsees
              have hmem : p ∈ ps := by simpa using hps
              have := hsel' p hmem
              simp only [hsees, if_true] at this
              rcases heldByOther_none this with h0 | h0
              · rw [h, hown] at h0; cases h0
              · rw [h, hown] at h0; injection h0 with h0; exact absurd h0.symm hts
            · exact h
          · exact h
    | updateVolumes ds =>
      simp only [exec] at he; unfold updVol at he
      split at he
      · cases he
      · rename_i hblk
        injection he with hw _
        subst hw
        have hblk' := firstSome_none _ _ hblk
        simp only
        split
        · rename_i htouched
          obtain ⟨d, hd, hdp⟩ := List.any_eq_true.mp htouched
          have hdp' : d.1 = p := by simpa using hdp
          have hb := hblk' d hd
          rw [hdp'] at hb
          rcases heldByOther_none hb with h0 | h0
          · rw [h, hown] at h0; cases h0
          · rw [h, hown] at h0; injection h0 with h0; exact absurd h0.symm hts
        · exact h
    | insertTx l r i =>
      simp only [exec] at he
      rw [(insTx_frame (Or.inl ⟨o, he⟩)).1]; exact h
    | insertLog l k hh sy i t =>
      simp only [exec] at he
      rw [(insLog_frame (Or.inl ⟨o, he⟩)).1]; exact h
    | _ =>
      simp only [exec] at he
      repeat' split at he
      all_goals first
        | (cases he; done)
        | (cases he; exact h)
  · intro w st w' e h he
    unfold RowIs at *
    cases st with
    | insertTx l r i =>
      simp only [exec] at he
      rw [(insTx_frame (Or.inr ⟨e, he⟩)).1]; exact h
    | insertLog l k hh sy i t =>
      simp only [exec] at he
      rw [(insLog_frame (Or.inr ⟨e, he⟩)).1]; exact h
    | getBalances ps =>
      simp only [exec] at he; unfold getBal at he
      repeat' split at he
      all_goals cases he
    | updateVolumes ds =>
      simp only [exec] at he; unfold updVol at he
      repeat' split at he
      all_goals cases he
    | _ =>
      simp only [exec] at he
      repeat' split at he
      all_goals first
        | (cases he; done)
        | (cases he; exact h)

end Ledger.Sched
