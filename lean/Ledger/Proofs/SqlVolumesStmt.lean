import Ledger.Proofs.SqlVolumes
import Ledger.Proofs.SqlNested

/-!
# `UpdateVolumes`: the generated statement under LeanPG

`updateVolumes_shape` takes the AST of `Ledger.Generated.WriteSql.P.updateVolumes` apart and
establishes `AvShape` for its pieces by evaluation (column order, arbiter index, SET
expressions, RETURNING list). `exec_updateVolumes` is the evaluator-level theorem:
running the statement from any state satisfying `AvState` gives the pure run `avRun`.
-/
open Ledger.Sql Ledger.Generated
open Ledger.Generated.WriteSql.P (VolumeRow)

namespace Ledger.Sql

/-- a `VALUES` row made of literals only, evaluated -/
def litRow : List Expr → List (Option Value)
  | [] => []
  | .str x :: es => some (.text x) :: litRow es
  | .int n :: es => some (.int n) :: litRow es
  | .bool v :: es => some (.bool v) :: litRow es
  | _ :: es => none :: litRow es

def allLit : List Expr → Bool
  | [] => true
  | .str _ :: es => allLit es
  | .int _ :: es => allLit es
  | .bool _ :: es => allLit es
  | _ :: _ => false

theorem exec_mapM_lit (F : Expr → M (Option Value))
    (hs : ∀ x s, (F (.str x)).exec s = (.ok (some (.text x)), s))
    (hi : ∀ x s, (F (.int x)).exec s = (.ok (some (.int x)), s))
    (hb : ∀ x s, (F (.bool x)).exec s = (.ok (some (.bool x)), s))
    (es : List Expr) (h : allLit es = true) (s : St) :
    (es.mapM F).exec s = (.ok (litRow es), s) := by
  induction es with
  | nil => simp [litRow]
  | cons e es ih =>
    cases e <;> simp only [allLit, Bool.false_eq_true] at h <;>
      simp only [exec_mapM_cons, hs, hi, hb, litRow, ih h]

theorem exec_evalValuesRow_lit (m : Nat) (env : Env) (es : List Expr) (h : allLit es = true) (s : St) :
    (evalValuesRow (m + 1) env es).exec s = (.ok (litRow es), s) := by
  rw [evalValuesRow]
  simp only [exec_bind, exec_typeEnv]
  apply exec_mapM_lit _ _ _ _ es h <;> intro x s' <;> simp [evalExpr, exec_bind]

theorem lastComponent_av : lastComponent "accounts_volumes" = "accounts_volumes" := by decide
theorem lastComponent_excluded : lastComponent "excluded" = "excluded" := by decide


open Ledger.Generated.WriteSql in
/-- The statement rendered by `UpdateVolumes`, taken apart; `AvShape` holds for its pieces.
    Everything here is established by evaluating the generated AST. -/
theorem updateVolumes_shape (env : Env) (b l : String) (id : Nat) :
    ∃ (cols target : List String) (sets : List SetItem) (returning : List SelItem) (f : VolumeRow → List Expr),
      (∀ rows, P.updateVolumes b l id rows =
        [Stmt.insert [] b "accounts_volumes" "" cols (.values (rows.map f))
          (some (.mk target none "" (.update sets none))) returning]) ∧
      cols.isEmpty = false ∧ (∀ r, allLit (f r) = true) ∧
      AvShape env b "accounts_volumes" "" l cols target sets returning (fun r => litRow (f r)) := by
  refine ⟨_, _, _, _, _, fun rows => rfl, rfl, fun r => rfl, ?_⟩
  constructor
  · intro r m rs nr s
    simp [litRow, buildRow, exec_bind, avT, Schema.tbl_accounts_volumes, Table.colNames, List.lookup,
      castTo_varchar, castTo_numeric_text]
  · intro rs nr s
    simp [arbiterIndexes, avT, Schema.tbl_accounts_volumes, sameColSet, avPkey]
  · intro r m rs nr s i0 o0
    simp [applySets, avConflictEnv, exec_bind, avT, Schema.tbl_accounts_volumes, Table.colNames, evalExpr, lookupColumn,
      Env.scopes, findScope, lastComponent_av, lastComponent_excluded, lookupIn, evalBinop, Value.isNull,
      castTo_numeric_int, List.lookup, Int.add_comm]
  · rfl
  · intro r m rs nr s x y
    simp [evalReturning, exec_bind, avT, Schema.tbl_accounts_volumes, Table.colNames, evalExpr, lookupColumn,
      Env.scopes, lookupUnqualified, lookupIn, exprOutName]


/-- the hypotheses on the state in which the statement runs -/
structure AvState (s : St) (b l : String) (rs : List Ver) (nr : Nat) : Prop where
  /-- the bucket's `accounts_volumes` is the generated table with row versions `rs` -/
  table : s.w.table? (avFull b) = some (avT b rs nr)
  /-- no other transaction is in progress (the statement never waits) -/
  solo : ∀ x ∈ s.w.active, x = s.xid
  /-- the statement runs inside a transaction, below the command-id horizon of `latestView` -/
  xid : s.xid ≠ 0
  cid : s.cid < 1000000000
  inv : AvInv (latestView s.w s.xid) rs nr
  /-- the command id is fresh: nothing was written under it yet -/
  fresh : AvDone s.xid s.cid l rs []

open Ledger.Generated.WriteSql in
/-- `UpdateVolumes(rows)` under LeanPG, for any rows with distinct keys and any table contents:
    outcome, RETURNING rows and final state are those of the pure run `avRun`. -/
theorem exec_updateVolumes (n : Nat) (env : Env) (b l : String) (id : Nat) (hb : b.isEmpty = false)
    (s : St) (rs : List Ver) (nr : Nat) (hs : AvState s b l rs nr)
    (rows : List VolumeRow) (hne : rows ≠ []) (hnodup : (rows.map avKeyOf).Nodup) :
    ((P.updateVolumes b l id rows).mapM (runStmt (n + 7) env)).exec s =
      (.ok [{ rel := { cols := ["input", "output"],
                       rows := (avRun (latestView s.w s.xid) s.xid s.cid l rows (rs, nr)).2.map (fun p => [.int p.1, .int p.2]) },
              affected := rows.length }],
       s.withTable (avT b (avRun (latestView s.w s.xid) s.xid s.cid l rows (rs, nr)).1.1
                          (avRun (latestView s.w s.xid) s.xid s.cid l rows (rs, nr)).1.2)) := by
  obtain ⟨cols, target, sets, returning, f, hstmt, hcols, hlit, sh⟩ := updateVolumes_shape env b l id
  rw [hstmt rows]
  have hins := exec_execInsert_av n env b "" l cols target none "" sets returning f (fun r => litRow (f r)) hb hcols
    (fun r m s => exec_evalValuesRow_lit m env (f r) (hlit r) s) sh
    s.clearQ rs nr hs.table hs.solo hs.xid hs.cid hs.inv hs.fresh rows hne hnodup
  simp only [clearQ_w, clearQ_xid, clearQ_cid] at hins
  simp only [exec_mapM_cons, exec_mapM_nil]
  have hex : (execStmt (n + 6) env (Stmt.insert [] b "accounts_volumes" "" cols (.values (rows.map f))
      (some (.mk target none "" (.update sets none))) returning)).exec s.clearQ =
      (execInsert (n + 5) env b "accounts_volumes" "" cols (.values (rows.map f))
        (some (.mk target none "" (.update sets none))) returning).exec s.clearQ := by
    rw [execStmt, evalCtes]
    · simp only [exec_bind, exec_pure]
    · intro h; omega
  rw [hins] at hex
  rw [exec_runStmt_noAfter (n + 5) env _ s _ _ hex]

end Ledger.Sql
