import Ledger.Proofs.InterpPush
import Ledger.Proofs.MachineDest

/-!
Destinations: the machine hands sub-fundings down the destination tree (`Take`,
`TakeMax`, `Concat`), the interpreter hands amounts down and pulls from the front of
its queue; the postings are the same units addressed to the same receivers.
-/
namespace Ledger.Interp
open Ledger.Machine

theorem kept_invalid : validAccount KEPT = false := by decide

theorem ne_kept_of_valid {a : String} (h : validAccount a = true) : a ≠ KEPT := by
  intro x; subst x; rw [kept_invalid] at h; cases h

theorem mem_units_of_pos {out : List Part} (h : Pos out) {p : Part} (hp : p ∈ out) :
    p.account ∈ units out := by
  induction out with
  | nil => cases hp
  | cons q qs ih =>
    obtain ⟨hq, hqs⟩ := Pos.cons.mp h
    simp only [units_cons, List.mem_append]
    rcases List.mem_cons.mp hp with rfl | hp
    · left; exact List.mem_replicate.mpr ⟨by omega, rfl⟩
    · right; exact ih hqs hp

theorem pushReceiver_eq (name : String) (amt : Int) (ist : IState) :
    pushReceiver name amt ist =
      receive name (pull ist.queue amt).1 { ist with queue := (pull ist.queue amt).2 } := by
  unfold pushReceiver
  by_cases h : amt = 0
  · subst h; simp [pull, receive]
  · rw [if_neg h]

/-- The relation between the two states during the destination phase of a send in
    asset `c` (and between statements, with an empty queue). -/
structure DRel (P : List (String × String)) (c : String) (st : State) (ist : IState) : Prop where
  rel : Rel P st.bal ist.bal
  wf : st.bal.WF
  posts : unitsP st.postings = unitsP ist.postings
  nnM : ∀ p ∈ st.postings, 0 ≤ p.amount
  okI : ∀ p ∈ ist.postings, badPosting p = false
  tx : st.txMeta = ist.txMeta
  acc : st.accMeta.map (fun x => (x.1, x.2.1, valStr x.2.2)) = ist.accMeta
  asset : ist.asset = c
  pos : Pos ist.queue
  validQ : ∀ x ∈ units ist.queue, validAccount x = true

theorem takeLoop_zero (ps : List Part) : takeLoop ps 0 = ([], ps, 0) := by
  cases ps with
  | nil => rfl
  | cons p ps => simp [takeLoop]

theorem take_zero (ps : List Part) : take ps 0 = some (zeroHead ps 0, ps) := by
  simp [take, takeLoop_zero]

/-- Destination = one account. -/
theorem dst_account {env ienv : Env} (heq : EnvEq env ienv) (henv : EnvOK env)
    {P : List (String × String)} {c : String} (hvc : validAsset c = true) {e : Expr}
    (hwf : okAcct env e = true) {f : List Part} {Z : List String} {st : State} {ist : IState}
    (hn : partsNonneg f) (hd : DRel P c st ist) (hq : units ist.queue = units f ++ Z) :
    ∃ rem st' ist', evalDest env c (.account e) f st = .ok (rem, st') ∧ partsNonneg rem ∧
      units rem = [] ∧ Interp.sendTo ienv (.account e) (total f) ist = .ok ist' ∧
      DRel P c st' ist' ∧ units ist'.queue = Z := by
  obtain ⟨hl, a, ha, hva⟩ := okAcct_spec hwf
  have hsome := take_all_isSome f hn
  obtain ⟨⟨res, rem⟩, ht⟩ := Option.isSome_iff_exists.mp hsome
  obtain ⟨nres, nrem⟩ := take_nonneg ht hn
  obtain ⟨ures, urem⟩ := take_units hn ht
  have hlen := total_eq_length f hn
  have hres : units res = units f := by
    rw [ures, List.take_of_length_le]; omega
  have hrem : units rem = [] := by
    rw [urem, List.drop_of_length_le]; omega
  have htres : total res = total f := take_total ht
  have h0 : 0 ≤ total f := total_nonneg f hn
  obtain ⟨po1, po2, po3, po4⟩ := pull_spec ist.queue (total f) hd.pos h0
  have hout : units (pull ist.queue (total f)).1 = units f := by
    rw [po1, hq, List.take_append_of_le_length (by omega), List.take_of_length_le]; omega
  have hq' : units (pull ist.queue (total f)).2 = Z := by
    rw [po2, hq, List.drop_append_of_le_length (by omega), List.drop_of_length_le (by omega)]; simp
  have htout : total (pull ist.queue (total f)).1 = total f := by
    rw [total_eq_length _ po3.nonneg, hout]; omega
  have hrs := receive_spec a (ne_kept_of_valid hva) (pull ist.queue (total f)).1
    { ist with queue := (pull ist.queue (total f)).2 }
  dsimp only at hrs
  obtain ⟨r1, r2, r3, r4, r5, r6⟩ := hrs
  refine ⟨rem, Machine.sendTo c a res st,
    receive a (pull ist.queue (total f)).1 { ist with queue := (pull ist.queue (total f)).2 },
    ?_, nrem, hrem, ?_, ?_, ?_⟩
  · simp [evalDest, ht, ha]
  · simp only [Interp.sendTo, evalAcct_agree heq henv hl ha, pushReceiver_eq]
  · obtain ⟨c1, c2, c3⟩ := credit_spec st.bal a c res
    refine ⟨?_, c2 hd.wf, ?_, ?_, ?_, ?_, ?_, ?_, ?_, ?_⟩
    · intro x c' hp hw
      simp only [Machine.sendTo]
      rw [c3 x c' _ (hd.rel x c' hp hw), r2]
      simp only [upd, hd.asset, htout, htres]
      by_cases hx : x = a ∧ c' = c
      · have : x = a ∧ c' = c ∧ a ≠ "world" := ⟨hx.1, hx.2, hx.1 ▸ hw⟩
        rw [if_pos hx, if_pos this]
      · have : ¬ (x = a ∧ c' = c ∧ a ≠ "world") := fun h => hx ⟨h.1, h.2.1⟩
        rw [if_neg hx, if_neg this]; simp
    · simp only [Machine.sendTo]
      rw [r1, unitsP_append, unitsP_append, unitsP_mkPostings, unitsP_mkPostings, hd.posts, hres, hout]
      simp only [hd.asset]
    · intro p hp
      simp only [Machine.sendTo, List.mem_append] at hp
      rcases hp with hp | hp
      · exact hd.nnM p hp
      · simp only [mkPostings, List.mem_map] at hp
        obtain ⟨q, hq1, rfl⟩ := hp
        exact nres q hq1
    · intro p hp
      rw [r1, List.mem_append] at hp
      rcases hp with hp | hp
      · exact hd.okI p hp
      · simp only [mkPostings, List.mem_map] at hp
        obtain ⟨q, hq1, rfl⟩ := hp
        have hqa : validAccount q.account = true := by
          apply hd.validQ
          have := mem_units_of_pos po3 hq1
          rw [po1] at this
          exact List.mem_of_mem_take this
        have hqp := po3 q hq1
        simp only [badPosting, hd.asset, hvc, hqa, hva]
        simp; omega
    · rw [r4]; exact hd.tx
    · rw [r5]; exact hd.acc
    · rw [r6]; exact hd.asset
    · rw [r3]; exact po4
    · rw [r3, po2]
      intro x hx; exact hd.validQ x (List.mem_of_mem_drop hx)
  · rw [r3]; exact hq'

end Ledger.Interp
