import Ledger.Log.PayloadCanon

/-!
C08 (payload part) helper lemmas: the leaves are fixed points on canonical values,
sorted maps survive `sortByKey` and `buildMap`, and every component decoder inverts
its encoder.
-/
namespace Ledger.Log
set_option linter.unusedSimpArgs false

/-! ### strings -/

theorem sanitizeAux_valid (s : Bytes) : ∀ n, validUtf8Aux n s = true → sanitizeAux n s = s := by
  induction s with
  | nil => intro n _; cases n <;> rfl
  | cons b t ih =>
    intro n h
    cases n with
    | succ k =>
      simp only [validUtf8Aux, Bool.and_eq_true] at h
      simp [sanitizeAux, ih k h.2]
    | zero =>
      unfold validUtf8Aux at h
      unfold sanitizeAux
      split
      · next hlt => simp [hlt] at h; simp [ih 0 h]
      · next hge =>
        simp only [hge, if_false, Bool.and_eq_true, bne_iff_ne, ne_eq] at h
        simp [h.1, ih _ h.2]

theorem sanitize_valid {s : Bytes} (h : validUtf8 s = true) : sanitize s = s := sanitizeAux_valid s 0 h

/-! ### byte order -/

theorem bytesLt_asymm : ∀ (a b : Bytes), bytesLt a b = true → bytesLt b a = false := by
  intro a
  induction a with
  | nil => intro b h; cases b <;> simp [bytesLt] at h ⊢
  | cons x s ih =>
    intro b h
    cases b with
    | nil => simp [bytesLt] at h
    | cons y t =>
      unfold bytesLt at h ⊢
      by_cases h1 : x < y
      · have : ¬ y < x := UInt8.lt_asymm h1
        simp [h1, this]
      · by_cases h2 : y < x
        · simp [h1, h2] at h
        · simp only [h1, h2, if_false] at h ⊢
          exact ih t h

theorem bytesLt_irrefl (a : Bytes) : bytesLt a a = false := by
  induction a with
  | nil => rfl
  | cons x s ih => simp [bytesLt, UInt8.lt_irrefl, ih]

theorem bytesLt_ne {a b : Bytes} (h : bytesLt a b = true) : a ≠ b := by
  intro e; subst e; simp [bytesLt_irrefl] at h

/-! ### sorted maps -/

theorem insertByKey_above {α : Type} (k : Bytes) (v : α) (m : List (Bytes × α)) (h : keysAbove k m = true) :
    insertByKey (k, v) m = (k, v) :: m := by
  cases m with
  | nil => rfl
  | cons x r =>
    obtain ⟨a, w⟩ := x
    simp only [keysAbove, Bool.and_eq_true] at h
    simp [insertByKey, h.1]

theorem sortByKey_strict {α : Type} (m : List (Bytes × α)) (h : strictKeys m = true) : sortByKey m = m := by
  induction m with
  | nil => rfl
  | cons x r ih =>
    obtain ⟨k, v⟩ := x
    simp only [strictKeys, Bool.and_eq_true] at h
    simp only [sortByKey, ih h.2]
    exact insertByKey_above k v r h.1

theorem mapSet_above {α : Type} (k : Bytes) (v : α) (acc : List (Bytes × α))
    (h : ∀ a ∈ acc, bytesLt a.1 k = true) : mapSet k v acc = acc ++ [(k, v)] := by
  induction acc with
  | nil => rfl
  | cons x r ih =>
    obtain ⟨a, w⟩ := x
    have ha : bytesLt a k = true := h (a, w) (by simp)
    have h1 : bytesLt k a = false := bytesLt_asymm a k ha
    have h2 : a ≠ k := bytesLt_ne ha
    simp only [mapSet, h1, Bool.false_eq_true, if_false, h2]
    rw [ih (fun b hb => h b (by simp [hb]))]
    rfl

theorem keysAbove_mem {α : Type} (k : Bytes) (m : List (Bytes × α)) (h : keysAbove k m = true) :
    ∀ b ∈ m, bytesLt k b.1 = true := by
  induction m with
  | nil => intro b hb; cases hb
  | cons x r ih =>
    obtain ⟨a, w⟩ := x
    simp only [keysAbove, Bool.and_eq_true] at h
    intro b hb
    cases hb with
    | head => exact h.1
    | tail _ hb' => exact ih h.2 b hb'

theorem buildMap_strict {α : Type} (rest : List (Bytes × α)) : ∀ (acc : List (Bytes × α)),
    (∀ a ∈ acc, ∀ b ∈ rest, bytesLt a.1 b.1 = true) → strictKeys rest = true →
    buildMap acc rest = acc ++ rest := by
  induction rest with
  | nil => intro acc _ _; simp [buildMap]
  | cons x r ih =>
    intro acc h1 h2
    obtain ⟨k, v⟩ := x
    simp only [strictKeys, Bool.and_eq_true] at h2
    simp only [buildMap]
    rw [mapSet_above k v acc (fun a ha => h1 a ha (k, v) (by simp))]
    rw [ih (acc ++ [(k, v)]) ?_ h2.2]
    · simp
    · intro a ha b hb
      rcases List.mem_append.mp ha with ha | ha
      · exact h1 a ha b (by simp [hb])
      · simp at ha; subst ha
        exact keysAbove_mem k r h2.1 b hb

theorem buildMap_nil_strict {α : Type} (m : List (Bytes × α)) (h : strictKeys m = true) : buildMap [] m = m := by
  have := buildMap_strict m [] (fun a ha => by cases ha) h
  simpa using this

/-! ### components -/

theorem decMetadataKvs_enc (m : List (Bytes × Bytes)) (h : canonMetaEntries m = true) :
    decMetadataKvs (m.map fun (k, v) => (sanitize k, encStr v)) = .ok m := by
  induction m with
  | nil => rfl
  | cons x r ih =>
    obtain ⟨k, v⟩ := x
    simp only [canonMetaEntries, Bool.and_eq_true] at h
    rw [List.map_cons]
    simp only [decMetadataKvs]
    rw [ih h.2]
    simp only [encStr, decStr, sanitize_valid h.1.1, sanitize_valid h.1.2]

theorem decMetadata_enc (md : Metadata) (h : canonMetadata md = true) : decMetadata (encMetadataJ md) = .ok md := by
  cases md with
  | none => rfl
  | some m =>
    simp only [canonMetadata, Bool.and_eq_true] at h
    simp [encMetadataJ, decMetadata, sortByKey_strict m h.1, decMetadataKvs_enc m h.2, buildMap_nil_strict m h.1]

theorem decAccountMetadataKvs_enc (m : List (Bytes × Metadata)) (h : canonAcctEntries m = true) :
    decAccountMetadataKvs (m.map fun (k, v) => (sanitize k, encMetadataJ v)) = .ok m := by
  induction m with
  | nil => rfl
  | cons x r ih =>
    obtain ⟨k, v⟩ := x
    simp only [canonAcctEntries, Bool.and_eq_true] at h
    simp [decAccountMetadataKvs, sanitize_valid h.1.1, decMetadata_enc v h.1.2, ih h.2]

theorem decAccountMetadata_enc (am : AccountMetadata) (h : canonAccountMetadata am = true) :
    decAccountMetadata (encAccountMetadataJ am) = .ok am := by
  cases am with
  | none => rfl
  | some m =>
    simp only [canonAccountMetadata, Bool.and_eq_true] at h
    simp [encAccountMetadataJ, decAccountMetadata, sortByKey_strict m h.1, decAccountMetadataKvs_enc m h.2,
      buildMap_nil_strict m h.1]

theorem decVolumes_enc (v : Volumes) : decVolumes (encVolumesJ v) = .ok v := by
  simp [decVolumes, encVolumesJ, fieldOr, jlookup]

theorem decVolumesKvs_enc (m : List (Bytes × Volumes)) (h : canonVolEntries m = true) :
    decVolumesKvs (m.map fun (k, v) => (sanitize k, encVolumesJ v)) = .ok m := by
  induction m with
  | nil => rfl
  | cons x r ih =>
    obtain ⟨k, v⟩ := x
    simp only [canonVolEntries, Bool.and_eq_true] at h
    simp [decVolumesKvs, sanitize_valid h.1, decVolumes_enc, ih h.2]

theorem decVolumesByAssets_enc (m : VolumesByAssets) (h : canonVolumesByAssets m = true) :
    decVolumesByAssets (encVolumesByAssetsJ m) = .ok m := by
  simp only [canonVolumesByAssets, Bool.and_eq_true] at h
  simp [encVolumesByAssetsJ, decVolumesByAssets, sortByKey_strict m h.1, decVolumesKvs_enc m h.2,
    buildMap_nil_strict m h.1]

theorem decPcvKvs_enc (m : List (Bytes × VolumesByAssets)) (h : canonPcvEntries m = true) :
    decPcvKvs (m.map fun (k, v) => (sanitize k, encVolumesByAssetsJ v)) = .ok m := by
  induction m with
  | nil => rfl
  | cons x r ih =>
    obtain ⟨k, v⟩ := x
    simp only [canonPcvEntries, Bool.and_eq_true] at h
    simp [decPcvKvs, sanitize_valid h.1.1, decVolumesByAssets_enc v h.1.2, ih h.2]

theorem decPcv_enc (p : PostCommitVolumes) (h : canonPcv p = true) : decPcv (encPcvJ p) = .ok p := by
  cases p with
  | none => rfl
  | some m =>
    cases m with
    | nil => simp [canonPcv] at h
    | cons x r =>
      simp only [canonPcv, Bool.and_eq_true] at h
      simp only [encPcvJ, decPcv, sortByKey_strict _ h.1, decPcvKvs_enc _ h.2, buildMap_nil_strict _ h.1]

theorem decPosting_enc (p : Posting) (h : canonPosting p = true) : decPosting (encPostingJ p) = .ok p := by
  simp only [canonPosting, Bool.and_eq_true] at h
  obtain ⟨⟨h1, h2⟩, h3⟩ := h
  cases p with
  | mk s d a as =>
    cases a <;>
    simp [decPosting, encPostingJ, fieldOr, jlookup, encStr, decStr, sanitize_valid h1, sanitize_valid h2,
      sanitize_valid h3]

theorem decPostings_enc (ps : List Posting) (h : canonPostings ps = true) :
    decPostings (ps.map encPostingJ) = .ok ps := by
  induction ps with
  | nil => rfl
  | cons p r ih =>
    simp only [canonPostings, Bool.and_eq_true] at h
    simp [decPostings, decPosting_enc p h.1, ih h.2]

/-! ### transactions and payloads -/

theorem decTime_canon (d : Date) (h : canonDate d = true) : decTime (.time d) = .ok d := by
  simp only [canonDate, decide_eq_true_eq] at h
  simp [decTime, h]

theorem decStr_enc (s : Bytes) (h : validUtf8 s = true) : decStr (encStr s) = .ok s := by
  simp [decStr, encStr, sanitize_valid h]

theorem jlookup_append (k : Bytes) (a b : List (Bytes × JVal)) :
    jlookup k (a ++ b) = (jlookup k b).or (jlookup k a) := by
  induction a with
  | nil => cases h : jlookup k b <;> simp [jlookup, h]
  | cons x r ih =>
    obtain ⟨c, v⟩ := x
    simp only [List.cons_append, jlookup, ih]
    cases jlookup k b <;> cases jlookup k r <;> simp

theorem jlookup_cons (k a : Bytes) (v : JVal) (r : List (Bytes × JVal)) :
    jlookup k ((a, v) :: r) = (jlookup k r).or (if a = k then some v else none) := by
  simp only [jlookup]
  cases jlookup k r <;> simp

theorem jlookup_nil (k : Bytes) : jlookup k [] = none := rfl

theorem jlookup_optField (k k' : Bytes) (v : Option JVal) :
    jlookup k (optField k' v) = if k' = k then v else none := by
  cases v <;> simp [optField, jlookup]

theorem jlookup_ite (k k' : Bytes) (c : Prop) [Decidable c] (v : JVal) :
    jlookup k (if c then [] else [(k', v)]) = if c then none else (if k' = k then some v else none) := by
  split <;> simp [jlookup]

set_option maxRecDepth 8000 in
theorem decTransaction_enc (tx : Transaction) (h : canonTransaction tx = true) :
    decTransaction (encTransactionJ tx) = .ok tx := by
  obtain ⟨postings, metadata, timestamp, reference, id, insertedAt, updatedAt, revertedAt, pcv, pcev, template⟩ := tx
  simp only [canonTransaction, Bool.and_eq_true] at h
  obtain ⟨⟨⟨⟨⟨⟨⟨⟨⟨⟨hp, hmd⟩, hts⟩, href⟩, hid⟩, hia⟩, hua⟩, hra⟩, hpcv⟩, hpcev⟩, htpl⟩ := h
  have e1 := decPcv_enc pcv hpcv
  have e2 := decPcv_enc pcev hpcev
  have e3 := decMetadata_enc metadata hmd
  have e4 := decTime_canon timestamp hts
  have e5 := decTime_canon insertedAt hia
  have e6 := decTime_canon updatedAt hua
  have hposts : decPostingsOpt (encPostingsJ postings) = .ok postings := by
    cases postings with
    | none => rfl
    | some ps => simp [encPostingsJ, decPostingsOpt, decPostings_enc ps hp]
  have hidv : decUint64 (encOptNatJ id) = .ok id := by
    cases id with
    | none => rfl
    | some n =>
      have h0 : n < 18446744073709551616 := of_decide_eq_true hid
      have : (n : Int) < 18446744073709551616 := by omega
      simp [decUint64, encOptNatJ, this]
  have hrev : decOptTime (revertedAt.map JVal.time) = .ok revertedAt := by
    cases revertedAt with
    | none => rfl
    | some d => simp [decOptTime, decTime_canon d hra]
  have href' : decStr (if reference = [] then JVal.null else encStr reference) = .ok reference := by
    split
    · next hr => simp [decStr, hr]
    · exact decStr_enc reference href
  have htpl' : decStr (if template = [] then JVal.null else encStr template) = .ok template := by
    split
    · next hr => simp [decStr, hr]
    · exact decStr_enc template htpl
  generalize hx0 : encPostingsJ postings = x0 at hposts
  generalize hx7 : encOptNatJ id = x7 at hidv
  generalize hx1 : encPcvJ pcv = x1 at e1
  generalize hx2 : encPcvJ pcev = x2 at e2
  generalize hx3 : encMetadataJ metadata = x3 at e3
  generalize hx4 : revertedAt.map JVal.time = x4 at hrev
  generalize hx5 : encStr reference = x5 at href'
  generalize hx6 : encStr template = x6 at htpl'
  unfold encTransactionJ decTransaction
  simp only [hx0, hx7, hx1, hx2, hx3, hx4, hx5, hx6]
  simp [fieldOr, jlookup_append, jlookup_optField, jlookup_ite, jlookup_cons, jlookup_nil]
  have g1 : (if reference = [] then none else some x5).getD JVal.null = (if reference = [] then JVal.null else x5) := by
    split <;> rfl
  have g2 : (if template = [] then none else some x6).getD JVal.null = (if template = [] then JVal.null else x6) := by
    split <;> rfl
  simp only [g1, g2, hposts, e1, e2, e3, e4, e5, e6, hidv, hrev, href', htpl']

theorem decTarget_enc (tt : Bytes) (tid : TargetId) (h : canonTarget tt tid = true) :
    decTarget tt (encTargetIdJ tid) = .ok tid := by
  cases tid with
  | account a =>
    simp only [canonTarget, Bool.and_eq_true, decide_eq_true_eq] at h
    simp [decTarget, encTargetIdJ, encStr, h.1, sanitize_valid h.2]
  | transaction n =>
    simp only [canonTarget, Bool.and_eq_true, decide_eq_true_eq] at h
    have hne : asciiUpper tt ≠ b!"ACCOUNT" := by rw [h.1]; decide
    have : (n : Int) < 18446744073709551616 := by omega
    simp [decTarget, encTargetIdJ, h.1, this]

theorem decodePayload_encodePayload (p : Payload) (h : canonicalPayload p = true) :
    decodePayload p.type (encodePayload p) = .ok p := by
  cases p with
  | createdTransaction tx am =>
    simp only [canonicalPayload, Bool.and_eq_true] at h
    simp [decodePayload, encodePayload, Payload.type, fieldOr, jlookup_cons, jlookup_nil,
      decTransaction_enc tx h.1, decAccountMetadata_enc am h.2]
  | revertedTransaction a b =>
    simp only [canonicalPayload, Bool.and_eq_true] at h
    simp [decodePayload, encodePayload, Payload.type, fieldOr, jlookup_cons, jlookup_nil,
      decTransaction_enc a h.1, decTransaction_enc b h.2]
  | savedMetadata tt tid md =>
    simp only [canonicalPayload, Bool.and_eq_true] at h
    simp [decodePayload, encodePayload, Payload.type, fieldOr, jlookup_cons, jlookup_nil,
      decStr_enc tt h.1.1, decTarget_enc tt tid h.1.2, decMetadata_enc md h.2]
  | deletedMetadata tt tid key =>
    simp only [canonicalPayload, Bool.and_eq_true] at h
    simp [decodePayload, encodePayload, Payload.type, fieldOr, jlookup_cons, jlookup_nil,
      decStr_enc tt h.1.1, decTarget_enc tt tid h.1.2, decStr_enc key h.2]
  | insertedSchema s =>
    simp [decodePayload, encodePayload, Payload.type, fieldOr, jlookup_cons, jlookup_nil]

/-- the memento only reads fields the decoder restores -/
theorem memento_decode_encode (p : Payload) (h : canonicalPayload p = true) :
    (decodePayload p.type (encodePayload p)).toOption.map mementoBytes = some (mementoBytes p) := by
  rw [decodePayload_encodePayload p h]; rfl

end Ledger.Log
