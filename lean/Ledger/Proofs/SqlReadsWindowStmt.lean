import Ledger.Proofs.SqlReadsWindow

/-!
# The window-volumes dataset, run by LeanPG on ANY `moves` table = `Spec.movesWindowVolumes`
-/
open Ledger Ledger.Sql Ledger.Generated Ledger.Core Ledger.Base Ledger.Spec

namespace Ledger.Sql

/-! ### ties -/

def WinOut (p : List Value × OutRow) : Prop :=
  ∃ (k : Key) (V : Volumes), p.1 = kvKey k ∧ p.2.vals = winRow k V

theorem sameGroupKey_winRow (k k' : Key) (V V' : Volumes) : ∃ x, sameGroupKey (winRow k V) (winRow k' V') = .ok x := by
  apply sameGroupKey_ok
  intro p hp
  simp only [winRow, List.zip_cons_cons, List.zip_nil_right, List.mem_cons, List.not_mem_nil, or_false] at hp
  rcases hp with rfl | rfl | rfl | rfl | rfl
  · exact ⟨_, compareForSort_text _ _⟩
  · exact ⟨_, compareForSort_text _ _⟩
  · exact ⟨_, compareForSort_int _ _⟩
  · exact ⟨_, compareForSort_int _ _⟩
  · exact ⟨_, compareForSort_int _ _⟩

theorem hasTieR_win : ∀ (l : List (List Value × OutRow)), (∀ p ∈ l, WinOut p) → ∃ x, hasTieR l = .ok x := by
  intro l
  induction l with
  | nil => intro _; exact ⟨false, rfl⟩
  | cons p rest ih =>
    intro h
    cases rest with
    | nil => exact ⟨false, rfl⟩
    | cons q rest' =>
      obtain ⟨k, V, hk, hv⟩ := h p (by simp)
      obtain ⟨k', V', hk', hv'⟩ := h q (by simp)
      have h1 := sameGroupKey_kvKey k k'
      obtain ⟨x2, h2⟩ := sameGroupKey_winRow k k' V V'
      obtain ⟨x3, h3⟩ := ih (fun r hr => h r (by simp [hr]))
      obtain ⟨k1, r1⟩ := p
      obtain ⟨k2, r2⟩ := q
      simp only at hk hv hk' hv'
      subst hk hk'
      simp only [hasTieR, hv, hv', h1, h2, bind, Except.bind]
      cases (decide (k = k') && !x2)
      · simp only [Bool.false_eq_true, if_false]
        exact ⟨x3, h3⟩
      · exact ⟨true, rfl⟩

/-! ### groups of typed rows, in terms of the typed table -/

theorem Typed.filter {b : String} {Ls : List (List Scope)} (h : Typed b Ls) (f : List Scope → Bool) : Typed b (Ls.filter f) :=
  fun L hL => h L (List.mem_filter.mp hL).1

theorem inWin_mvScope (b : String) (rid : Nat) (lm : String) (m : MoveRow) (l : String) (w : Window) (mode : DateMode) :
    inWin l w mode [mvScope b rid (lm, m)] = (decide (lm = l) && w.contains (m.date mode)) := by
  simp [inWin, decL_mvScope]

theorem keyL_mvScope (b : String) (rid : Nat) (p : String × MoveRow) : keyL [mvScope b rid p] = p.2.key := by
  simp [keyL, decL_mvScope]

theorem gMoves_group (b l : String) (w : Window) (mode : DateMode) (k : Key) : ∀ (Ls : List (List Scope)), Typed b Ls →
    gMoves ((Ls.filter (inWin l w mode)).filter (fun L => decide (keyL L = k))) =
      (ledgerMoves l (Ls.filterMap decL)).filter (fun m => m.key == k && w.contains (m.date mode)) := by
  intro Ls
  induction Ls with
  | nil => intro _; rfl
  | cons L Ls ih =>
    intro h
    obtain ⟨rid, p, rfl⟩ := h L (by simp)
    have := ih (fun L' hL' => h L' (by simp [hL']))
    obtain ⟨lm, m⟩ := p
    simp only [gMoves, ledgerMoves] at this
    simp only [gMoves, ledgerMoves, List.filterMap_cons, decL_mvScope, List.filter_cons, inWin_mvScope, keyL_mvScope]
    by_cases h1 : lm = l <;> by_cases h2 : w.contains (m.date mode) = true <;> by_cases h3 : m.key = k <;>
      simp [-List.filter_filter, h1, h2, h3, decL_mvScope, keyL_mvScope, this]

theorem keys_group (b l : String) (w : Window) (mode : DateMode) : ∀ (Ls : List (List Scope)), Typed b Ls →
    (Ls.filter (inWin l w mode)).map keyL =
      ((ledgerMoves l (Ls.filterMap decL)).filter (fun m => w.contains (m.date mode))).map (·.key) := by
  intro Ls
  induction Ls with
  | nil => intro _; rfl
  | cons L Ls ih =>
    intro h
    obtain ⟨rid, p, rfl⟩ := h L (by simp)
    have := ih (fun L' hL' => h L' (by simp [hL']))
    obtain ⟨lm, m⟩ := p
    simp only [ledgerMoves] at this
    simp only [ledgerMoves, List.filterMap_cons, decL_mvScope, List.filter_cons, inWin_mvScope]
    by_cases h1 : lm = l <;> by_cases h2 : w.contains (m.date mode) = true <;>
      simp [-List.filter_filter, h1, h2, decL_mvScope, keyL_mvScope, this]

/-- a group of typed rows: its head and its output row -/
theorem group_typed (b : String) (R : List (List Scope)) (hR : Typed b R) (G : List (List Scope)) (hG : G ∈ groupsOf keyL R) :
    ∃ rid p rest k, G = [mvScope b rid p] :: rest ∧ Typed b G ∧ p.2.key = k ∧ G = R.filter (fun L => decide (keyL L = k)) ∧
      k ∈ R.map keyL := by
  obtain ⟨k, hk, hGe, hne⟩ := groupsOf_mem keyL R G hG
  have hT : Typed b G := by rw [hGe]; exact hR.filter _
  cases hg : G with
  | nil => exact absurd hg hne
  | cons L rest =>
    obtain ⟨rid, p, hL⟩ := hT L (by rw [hg]; simp)
    subst hL
    have hmem : [mvScope b rid p] ∈ R.filter (fun L => decide (keyL L = k)) := by rw [← hGe, hg]; simp
    have hkk := (List.mem_filter.mp hmem).2
    simp only [decide_eq_true_eq, keyL, decL_mvScope] at hkk
    exact ⟨rid, p, rest, k, rfl, by rw [← hg]; exact hT, hkk, by rw [← hg]; exact hGe, hk⟩

theorem winProj_cons (b : String) (rid : Nat) (p : String × MoveRow) (rest : List (List Scope)) :
    winProj ([mvScope b rid p] :: rest) = winRow p.2.key (sumDeltas (gMoves ([mvScope b rid p] :: rest))) := by
  simp [winProj, gMoves, decL_mvScope]

theorem outNames_win : outNames winItems = ["asset", "account", "input", "output", "balance"] := rfl

/-- the sort key of an output row -/
def winKey (o : OutRow) : List Value := kvKey (keyL o.locals)

theorem balCmp_kvKey_lt (a c : Key) : balCmp (kvKey a) (kvKey c) = Ordering.lt ↔ KeyOrd.lt a c = true := balCmp_lt a.1 a.2 c.1 c.2

/-- **The window dataset on any table.** -/
theorem exec_winQuery (q : Nat) (env : Env) (b l : String) (hb : b.isEmpty = false) (mode : DateMode) (pitT ootT : Option (String × Int))
    (hp : ∀ x, pitT = some x → tsParse x.1 = .ok x.2) (ho : ∀ x, ootT = some x → tsParse x.1 = .ok x.2)
    (s : St) (hs : TxState s) (trigs : List TriggerDef) (nr : Nat) (rows : List Ver)
    (hT : s.w.table? (mvFull b) = some ((mvT b trigs nr).withRows rows))
    (tbl : List (String × MoveRow)) (hview : MvView (cv s) rows tbl)
    (T : List MoveRow) (hTp : T.Perm (ledgerMoves l tbl)) :
    ∃ (keys : List Key) (tie : Bool),
      (evalQuery (q + 6) env (winQuery b (winWhere l (dateCol mode) (pitT.map Prod.fst) (ootT.map Prod.fst)))).exec s =
        (.ok { cols := ["asset", "account", "input", "output", "balance"],
               rows := keys.map (fun k => winRow k (movesWindowVolumes T (Window.mk (ootT.map Prod.snd) (pitT.map Prod.snd)) mode k)) },
          s.tie tie) ∧
      keys.Nodup ∧
      (∀ k, k ∈ keys ↔ ∃ m ∈ T, m.key = k ∧ (Window.mk (ootT.map Prod.snd) (pitT.map Prod.snd)).contains (m.date mode) = true) ∧
      keys.Pairwise (fun a c => KeyOrd.lt c a = false) := by
  generalize hW : Window.mk (ootT.map Prod.snd) (pitT.map Prod.snd) = W
  have hq : (qualify b "moves").exec s = (.ok (mvFull b), s) := by simp [qualify, hb, mvFull]
  have hfrom := exec_evalFromList_table q env b "moves" "" (mvFull b) _ s hs (by simp [hb]) hq hT
  rw [scan_eq] at hfrom
  simp only [show ("" : String).isEmpty = true from by decide, if_true, withRows_rows] at hfrom
  generalize hLs : (((rows.filter (fun r => r.visible (cv s))).reverse.map (rowScopeOf ((mvT b trigs nr).withRows rows) "moves")).map
    (fun sc => [sc])) = Ls at hfrom
  -- the scanned rows are typed, and decode to the table (in scan order)
  have hTy : Typed b Ls := by
    intro L hL
    rw [← hLs] at hL
    obtain ⟨sc, hsc, rfl⟩ := List.mem_map.mp hL
    obtain ⟨r, hr, rfl⟩ := List.mem_map.mp hsc
    have hr' := List.mem_filter.mp (List.mem_reverse.mp hr)
    obtain ⟨pr, _, hv⟩ := hview.of_row r hr'.1 hr'.2
    exact ⟨r.rid, pr, by simp [rowScopeOf, mvScope, hv, mvT_colNames]; rfl⟩
  have hdec : Ls.filterMap decL = tbl.reverse := by
    rw [← hLs]
    have h1 : ∀ (rs : List Ver), ((rs.map (rowScopeOf ((mvT b trigs nr).withRows rows) "moves")).map (fun sc => [sc])).filterMap decL =
        (rs.map (·.vals)).filterMap mvDec := by
      intro rs
      induction rs with
      | nil => rfl
      | cons r rs ih => simp only [List.map_cons, List.filterMap_cons, decL, rowScopeOf, ih]
    rw [h1, List.map_reverse, hview, ← List.map_reverse]
    generalize tbl.reverse = tv
    induction tv with
    | nil => rfl
    | cons p tv ih => simp [List.filterMap_cons, mvDec_mvVals, ih]
  have hT0 : (ledgerMoves l (Ls.filterMap decL)).Perm T := by
    rw [hdec]
    unfold ledgerMoves
    exact (((List.reverse_perm tbl).filter _).map _).trans hTp.symm
  generalize hR : Ls.filter (inWin l W mode) = R
  have hRT : Typed b R := by rw [← hR]; exact hTy.filter _
  -- the output rows
  have hrowsG : ∀ o ∈ (groupsOf keyL R).map (outRowOfG winProj),
      ∃ rid p rest k, o = outRowOfG winProj ([mvScope b rid p] :: rest) ∧ p.2.key = k ∧ k ∈ R.map keyL ∧
        o.vals = winRow k (movesWindowVolumes T W mode k) := by
    intro o ho
    obtain ⟨G, hG, rfl⟩ := List.mem_map.mp ho
    obtain ⟨rid, p, rest, k, hGe, _, hk, hGf, hkm⟩ := group_typed b R hRT G hG
    refine ⟨rid, p, rest, k, by rw [hGe], hk, hkm, ?_⟩
    have hv : (outRowOfG winProj G).vals = winProj G := rfl
    rw [hv]
    conv => lhs; rw [hGe, winProj_cons, ← hGe, hk, hGf, ← hR, gMoves_group b l W mode k Ls hTy]
    unfold movesWindowVolumes
    rw [sumDeltas_perm ((hT0.filter _))]
  have hkeyO : ∀ o ∈ (groupsOf keyL R).map (outRowOfG winProj), ∃ k V, winKey o = kvKey k ∧ o.vals = winRow k V ∧ k = keyL o.locals := by
    intro o ho
    obtain ⟨rid, p, rest, k, rfl, hk, _, hv⟩ := hrowsG o ho
    refine ⟨k, _, ?_, hv, ?_⟩
    · simp [winKey, outRowOfG, outRowOfU, keyL, decL_mvScope, hk]
    · simp [outRowOfG, outRowOfU, keyL, decL_mvScope, hk]
  -- ORDER BY
  have hsortE := exec_sortOut (q + 2) env (outNames winItems) ((groupsOf keyL R).map (outRowOfG winProj)) balOrder (by simp [balOrder]) s
    winKey balCmp balKeyOk
  obtain ⟨sorted, tie, hsortEq, hperm, hpw⟩ := hsortE
    (by
      intro o ho
      obtain ⟨rid, p, rest, k, rfl, hk, _, hv⟩ := hrowsG o ho
      simp only [balOrder, exec_mapM_cons, orderKeyM, outNames_win, colIndex, colIndex.go, exec_bind, exec_pure, evalExpr]
      simp only [show ("asset" == "accounts_address") = false from by decide, show ("account" == "accounts_address") = false from by decide,
        show ("input" == "accounts_address") = false from by decide, show ("output" == "accounts_address") = false from by decide,
        show ("balance" == "accounts_address") = false from by decide, show ("asset" == "asset") = true from by decide]
      rw [lookup_mv _ b rid p rfl "accounts_address" (.text p.2.account) rfl]
      simp only [exec_liftR_ok, hv, winRow, winKey, outRowOfG, outRowOfU, keyL, decL_mvScope, kvKey, ← hk, MoveRow.key]
      rfl)
    (by
      have : orderDescs balOrder = [false, false] ∧ orderNulls balOrder = [NullsOrder.dflt, NullsOrder.dflt] := ⟨rfl, rfl⟩
      rw [this.1, this.2]; exact balCmpOk)
    (by
      intro o ho
      obtain ⟨k, V, hk, _, _⟩ := hkeyO o ho
      exact ⟨k.1, k.2, hk⟩)
    (by
      intro lst hl
      apply hasTieR_win
      intro pr hpr
      obtain ⟨o, ho, rfl⟩ := List.mem_map.mp ((hl.mem_iff).mp hpr)
      obtain ⟨k, V, hk, hv, _⟩ := hkeyO o ho
      exact ⟨k, V, hk, hv⟩)
  -- the SELECT
  have hsel : (evalSelect (q + 4) env (Select.mk false [] (winItems.map (fun p => SelItem.expr p.1 p.2)) [FromItem.table b "moves" ""]
      (some (winWhere l (dateCol mode) (pitT.map Prod.fst) (ootT.map Prod.fst))) (winGroup.map (Expr.col "")) none) balOrder).exec s =
      (.ok (outNames winItems, sorted), s.tie tie) := by
    apply exec_evalSelect_group (q + 3) env winItems _ _ winGroup (by simp [winGroup]) balOrder s Ls (inWin l W mode) keyL kvKey winProj hfrom
    · -- WHERE
      intro L hL
      obtain ⟨rid, p, rfl⟩ := hTy L hL
      rw [exec_winWhere (cbs (q + 3)) s.w.types _ b rid p rfl l mode pitT ootT hp ho s, hW]
      simp [inWin, decL_mvScope]
    · -- GROUP BY columns are input columns
      intro L hL c hc
      obtain ⟨rid, p, rfl⟩ := hTy L hL
      simp only [winGroup, List.mem_cons, List.not_mem_nil, or_false] at hc
      rcases hc with rfl | rfl <;> rfl
    · -- keys
      intro L hL _
      obtain ⟨rid, p, rfl⟩ := hTy L hL
      have c1 := lookup_mv { env with locals := [mvScope b rid p] } b rid p rfl "accounts_address" (.text p.2.account) rfl
      have c2 := lookup_mv { env with locals := [mvScope b rid p] } b rid p rfl "asset" (.text p.2.asset) rfl
      simp only [winGroup, List.map_cons, List.map_nil, evalExprs, evalExpr, exec_bind, exec_pure, exec_liftR_ok, c1, c2]
      simp [keyL, decL_mvScope, kvKey, MoveRow.key]
    · exact sameGroupKey_kvKey
    · rfl
    · -- projection
      intro G hG
      rw [hR] at hG
      obtain ⟨rid, p, rest, k, hGe, hGT, _, _, _⟩ := group_typed b R hRT G hG
      have hne : G ≠ [] := by rw [hGe]; simp
      have e1 := exec_sumOf (cbs (q + 3)) s.w.types env b G hGT hne (G.headD []) caseIn fIn s
        (fun env' rid p h => exec_caseIn _ _ env' b rid p h s)
      have e2 := exec_sumOf (cbs (q + 3)) s.w.types env b G hGT hne (G.headD []) caseOut fOut s
        (fun env' rid p h => exec_caseOut _ _ env' b rid p h s)
      have e3 := exec_sumOf (cbs (q + 3)) s.w.types env b G hGT hne (G.headD []) caseBal fBal s
        (fun env' rid p h => exec_caseBal _ _ env' b rid p h s)
      have hh : G.headD [] = [mvScope b rid p] := by rw [hGe]; rfl
      have c1 := lookup_mv { env with locals := G.headD [], group := some G, wins := [] } b rid p hh "asset" (.text p.2.asset) rfl
      have c2 := lookup_mv { env with locals := G.headD [], group := some G, wins := [] } b rid p hh "accounts_address" (.text p.2.account) rfl
      simp only [winItems, List.map_cons, List.map_nil, evalExprs, exec_bind, exec_pure]
      simp only [evalExpr, c1, c2, exec_liftR_ok, exec_bind, exec_pure, e1, e2, e3]
      rw [hGe, winProj_cons, ← hGe]
      simp only [winRow, sumDeltas_bal, sumDeltas_in, sumDeltas_out, MoveRow.key]
    · rw [hR]; exact hsortEq
  have hset : (evalSetExpr (q + 5) env (SetExpr.select (Select.mk false [] (winItems.map (fun p => SelItem.expr p.1 p.2))
      [FromItem.table b "moves" ""] (some (winWhere l (dateCol mode) (pitT.map Prod.fst) (ootT.map Prod.fst))) (winGroup.map (Expr.col "")) none))
      balOrder).exec s = (.ok (outNames winItems, sorted), s.tie tie) := by
    rw [evalSetExpr]; exact hsel
  have hqry := exec_evalQuery_plain (q + 4) env _ balOrder s (s.tie tie) _ sorted hset
  -- the keys
  have hsorted : ∀ o ∈ sorted, o.vals = winRow (keyL o.locals) (movesWindowVolumes T W mode (keyL o.locals)) ∧ winKey o = kvKey (keyL o.locals) := by
    intro o ho
    have ho' := (hperm.mem_iff).mp ho
    obtain ⟨rid, p, rest, k, rfl, hk, _, hv⟩ := hrowsG o ho'
    have : keyL (outRowOfG winProj ([mvScope b rid p] :: rest)).locals = k := by
      simp [outRowOfG, outRowOfU, keyL, decL_mvScope, hk]
    rw [this]
    exact ⟨hv, by simp [winKey, this]⟩
  have hkeysPerm : (sorted.map (fun o => keyL o.locals)).Perm (firstKeys (R.map keyL)) := by
    have h1 := hperm.map (fun o => keyL o.locals)
    refine h1.trans ?_
    unfold groupsOf
    rw [List.map_map, List.map_map]
    have : ∀ k ∈ firstKeys (R.map keyL), keyL (outRowOfG winProj (R.filter (fun r => decide (keyL r = k)))).locals = k := by
      intro k hk
      rw [mem_firstKeys] at hk
      have hG : R.filter (fun r => decide (keyL r = k)) ∈ groupsOf keyL R := by
        unfold groupsOf
        exact List.mem_map.mpr ⟨k, (mem_firstKeys _ _).mpr hk, rfl⟩
      obtain ⟨rid, p, rest, k', hGe, _, hk', hGf, _⟩ := group_typed b R hRT _ hG
      have hmem : [mvScope b rid p] ∈ R.filter (fun r => decide (keyL r = k)) := by rw [hGe]; simp
      have hkk := (List.mem_filter.mp hmem).2
      simp only [decide_eq_true_eq, keyL, decL_mvScope] at hkk
      rw [hGe]
      simp [outRowOfG, outRowOfU, keyL, decL_mvScope, hkk]
    simp only [Function.comp_def]
    rw [List.map_congr_left (g := id) (fun k hk => this k hk), List.map_id]
  refine ⟨sorted.map (fun o => keyL o.locals), tie, ?_, ?_, ?_, ?_⟩
  · simp only [winQuery]
    rw [hqry, outNames_win, List.map_map]
    have : sorted.map (fun x => x.vals) =
        sorted.map ((fun k => winRow k (movesWindowVolumes T W mode k)) ∘ fun o => keyL o.locals) :=
      List.map_congr_left (fun o ho => (hsorted o ho).1)
    rw [this]
  · exact hkeysPerm.nodup_iff.mpr (nodup_firstKeys _)
  · intro k
    rw [hkeysPerm.mem_iff, mem_firstKeys, ← hR, keys_group b l W mode Ls hTy]
    simp only [List.mem_map, List.mem_filter]
    constructor
    · rintro ⟨m, ⟨hm, hc⟩, rfl⟩
      exact ⟨m, (hT0.mem_iff).mp hm, rfl, hc⟩
    · rintro ⟨m, hm, rfl, hc⟩
      exact ⟨m, ⟨(hT0.mem_iff).mpr hm, hc⟩, rfl⟩
  · rw [List.pairwise_map]
    apply hpw.imp_of_mem
    intro a c ha hc hac
    rw [(hsorted a ha).2, (hsorted c hc).2] at hac
    cases h : KeyOrd.lt (keyL c.locals) (keyL a.locals) with
    | false => rfl
    | true => exact absurd ((balCmp_kvKey_lt _ _).mpr h) hac

end Ledger.Sql
