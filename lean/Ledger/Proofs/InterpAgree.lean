import Ledger.Proofs.InterpFront
import Ledger.Proofs.InterpNorm

/-!
The C26 statement on the two MODELS, in the executable form the differential uses
(`sameSummary`), the full (false) statement, and the concrete witnesses of the
divergence classes.
-/
namespace Ledger.Interp
open Ledger.Machine

/-- What C26 observes of a run: postings, transaction metadata, account metadata (values
    rendered as the runtime adapters render them); `none` = the run failed. -/
abbrev Summary := List Posting × List (String × String) × List (String × String × String)

def mSum (p : Script) (inp : Input) : Option Summary :=
  match sem Cfg.fixed p inp with
  | .ok r => some (r.postings, r.txMeta.map (fun kv => (kv.1, valStr kv.2)),
      r.accMeta.map (fun x => (x.1, x.2.1, valStr x.2.2)))
  | .error _ => none

def iSum (p : Script) (inp : Input) : Option Summary :=
  match Ledger.Interp.run p inp with
  | .ok r => some (r.postings, r.txMeta.map (fun kv => (kv.1, valStr kv.2)), r.accMeta)
  | .error _ => none

/-- "Both fail, or the same non-zero postings in the same order (`Ledger.Api.Interp.norm`:
    zero postings dropped, adjacent postings of one (source, destination, asset) merged — the
    relation the differential of the two real runtimes applies), the same transaction
    metadata and the same account metadata." -/
def sameSummary (a b : Option Summary) : Bool :=
  match a, b with
  | none, none => true
  | some x, some y =>
    decide (Ledger.Api.Interp.norm (toP x.1) = Ledger.Api.Interp.norm (toP y.1)) &&
    decide (x.2.1 = y.2.1) && decide (x.2.2 = y.2.2)
  | _, _ => false

/-- The two models agree on program `p` and input `inp`. -/
def SameResult (p : Script) (inp : Input) : Prop := sameSummary (mSum p inp) (iSum p inp) = true

/-- C26 for every program the machine compiles: FALSE (see the counterexamples). -/
def machine_interp_agree_full : Prop :=
  ∀ (p : Script) (inp : Input), compiles p = true → SameResult p inp

theorem sameResult_of_agree {p : Script} {inp : Input}
    (h : Agree (sem Cfg.fixed p inp) (Ledger.Interp.run p inp)) : SameResult p inp := by
  unfold SameResult mSum iSum
  cases hm : sem Cfg.fixed p inp with
  | error e =>
    cases hi : Ledger.Interp.run p inp with
    | error e' => rfl
    | ok ri => rw [hm, hi] at h; simp [Agree] at h
  | ok rm =>
    cases hi : Ledger.Interp.run p inp with
    | error e' => rw [hm, hi] at h; simp [Agree] at h
    | ok ri =>
      rw [hm, hi] at h
      obtain ⟨h1, h2, h3, h4, h5⟩ := h
      simp only [sameSummary, Bool.and_eq_true, decide_eq_true_eq]
      exact ⟨⟨norm_eq_of_units h2 h3 h1, by rw [h4]⟩, h5⟩

/-! ## Witnesses -/

def coin (n : Nat) : Expr := .mon (.asset "COIN") n
def acct (a : String) : Source := .account (.acct a) .none
def toA (a : String) : Dest := .account (.acct a)
def srcs (l : List Source) : Source := .inorder (SourceList.ofList l)

/-- Balances: `l` lists (account, COIN balance); everything else is 0. -/
def coinInput (l : List (String × Int)) (vars : List (String × String) := []) : Input :=
  { vars := vars,
    balance := fun a c => if c = "COIN" then (l.lookup a).getD 0 else 0,
    accountMeta := fun _ => some [] }

/-- `send [COIN 10] from {@alice @carol} to {max [COIN 4] kept, remaining to @bob}`, alice 5, carol 5. -/
def wKept : Script :=
  { vars := [],
    stmts := [.send (coin 10) (.src (srcs [acct "alice", acct "carol"]))
      (.inorder (.cons (coin 4) .kept .nil) (.to (toA "bob")))] }
def wKeptIn : Input := coinInput [("alice", 5), ("carol", 5)]

/-- `save [COIN 112] from @alice` (balance 15) then
    `send [COIN 17] from @alice allowing overdraft up to [COIN 36] to @bob`. -/
def wSaveOd : Script :=
  { vars := [],
    stmts := [.save (coin 112) (.acct "alice"),
      .send (coin 17) (.src (.account (.acct "alice") (.upTo (coin 36)))) (toA "bob")] }
def wSaveOdIn : Input := coinInput [("alice", 15)]

/-- `send [COIN 100] from @world to {$p to @a, 25% to @b, 1/2 to @c, remaining to @d}`, `$p = 1/2`. -/
def wPortions : Script :=
  { vars := [⟨.portion, "p", .none⟩],
    stmts := [.send (coin 100) (.src (acct "world"))
      (.allot (AllotDstList.ofList [(.var "p", .to (toA "a")), (.lit "25%", .to (toA "b")),
        (.lit "1/2", .to (toA "c")), (.remaining, .to (toA "d"))]))] }
def wPortionsIn : Input := coinInput [] [("p", "1/2")]

/-- `send [COIN 20] from {max [COIN 5] - [COIN 9] from @a, @b, @world} to @d`: a negative cap. -/
def wNegCap : Script :=
  { vars := [],
    stmts := [.send (coin 20)
      (.src (srcs [.maxed (.sub (coin 5) (coin 9)) (acct "a"), acct "b", acct "world"])) (toA "d")] }
def wNegCapIn : Input := coinInput [("a", 50), ("b", 7)]

/-- An account variable holding `world` used as a source. -/
def wWorldVar : Script :=
  { vars := [⟨.account, "w", .none⟩],
    stmts := [.send (coin 20) (.src (.account (.var "w") .none)) (toA "d")] }
def wWorldVarIn : Input := coinInput [] [("w", "world")]

/-- `save` of more than the balance: `save [COIN 30] from @a` (balance 10), `send [COIN 25]
    from @world to @a`, `send [COIN *] from @a to @d`. -/
def wSaveClamp : Script :=
  { vars := [],
    stmts := [.save (coin 30) (.acct "a"),
      .send (coin 25) (.src (acct "world")) (toA "a"),
      .sendAll (.asset "COIN") (.src (acct "a")) (toA "d")] }
def wSaveClampIn : Input := coinInput [("a", 10)]

/-- `save [COIN 5] + [COIN 3] from @a` (balance 20), then `send [COIN 14] from @a to @d`. -/
def wSaveExpr : Script :=
  { vars := [],
    stmts := [.save (.add (coin 5) (coin 3)) (.acct "a"),
      .send (coin 14) (.src (acct "a")) (toA "d")] }
def wSaveExprIn : Input := coinInput [("a", 20)]

/-- `set_tx_meta("k", 010/100)`: octal for the machine, decimal for the interpreter. -/
def wOctal : Script := { vars := [], stmts := [.setTxMeta "k" (.portion "010/100")] }

/-- An in-order destination whose third maximum is in another asset, reached after the funds
    are exhausted. -/
def wLateAsset : Script :=
  { vars := [],
    stmts := [.send (coin 10) (.src (acct "world"))
      (.inorder (.cons (coin 15) (.to (toA "b")) (.cons (coin 1) (.to (toA "c"))
        (.cons (.mon (.asset "GEM") 5) (.to (toA "c")) .nil))) (.to (toA "d")))] }

/-- `monetary $b = balance(@world, COIN)` with a negative balance of `@world`. -/
def wBalWorld : Script :=
  { vars := [⟨.monetary, "b", .balance (.acct "world") (.asset "COIN")⟩],
    stmts := [.setTxMeta "k" (.var "b")] }
def wBalWorldIn : Input := coinInput [("world", -100)]

/-- A variable nobody declared. -/
def wExtraIn : Input := coinInput [] [("extra", "1")]
def wPlain : Script := { vars := [], stmts := [.send (coin 10) (.src (acct "world")) (toA "d")] }

/-- `number $n = "007"` (the interpreter accepts it, the machine's JSON reader does not). -/
def wNumFmt : Script := { vars := [⟨.number, "n", .none⟩], stmts := [.setTxMeta "k" (.var "n")] }
def wNumFmtIn : Input := coinInput [] [("n", "007")]

/-! ## A program of F1 (non-vacuity) -/

/-- `vars { account $u  monetary $m }`
    `send $m from {max [COIN 30] from @a, $u allowing overdraft up to [COIN 20], @world} to {max [COIN 15] to @x, remaining to {max [COIN 100] to @y, remaining to @z}}`,
    `send [COIN *] from {@x  max [COIN 5] from @a} to $u`, `set_tx_meta("k", [COIN 1] + [COIN 2])`,
    `set_account_meta($u, "tag", 3/4)`. -/
def wF1 : Script :=
  { vars := [⟨.account, "u", .none⟩, ⟨.monetary, "m", .none⟩],
    stmts := [
      .send (.var "m")
        (.src (srcs [.maxed (coin 30) (acct "a"), .account (.var "u") (.upTo (coin 20)), acct "world"]))
        (.inorder (.cons (coin 15) (.to (toA "x")) .nil)
          (.to (.inorder (.cons (coin 100) (.to (toA "y")) .nil) (.to (toA "z"))))),
      .sendAll (.asset "COIN") (.src (srcs [acct "x", .maxed (coin 5) (acct "a")])) (.account (.var "u")),
      .setTxMeta "k" (.add (coin 1) (coin 2)),
      .setAccountMeta (.var "u") "tag" (.portion "3/4")] }
def wF1In : Input := coinInput [("a", 50), ("a2", 8), ("x", 3)] [("u", "a2"), ("m", "COIN 170")]
/-- A program of F2: `send [COIN 101] from {1/3 from {@a @world}, 10% from max [COIN 40] from @b
    allowing unbounded overdraft, remaining from @c allowing overdraft up to [COIN 50]}
    to {25% to @x, remaining to {max [COIN 7] to @y, remaining to @z}, 1/8 to @x}`. -/
def wF2 : Script :=
  { vars := [],
    stmts := [.send (coin 101)
      (.allot (AllotSrcList.ofList [
        (.lit "1/3", srcs [acct "a", acct "world"]),
        (.lit "10%", .maxed (coin 40) (.account (.acct "b") .unbounded)),
        (.remaining, .account (.acct "c") (.upTo (coin 50)))]))
      (.allot (AllotDstList.ofList [
        (.lit "25%", .to (toA "x")),
        (.remaining, .to (.inorder (.cons (coin 7) (.to (toA "y")) .nil) (.to (toA "z")))),
        (.lit "1/8", .to (toA "x"))]))] }
def wF2In : Input := coinInput [("a", 20), ("b", 1), ("c", 30)]

/-- the same program, not funded: both fail -/
def wF1Poor : Script :=
  { vars := [], stmts := [.send (coin 170) (.src (srcs [.maxed (coin 30) (acct "a"), acct "a2"])) (toA "x")] }

end Ledger.Interp
