import Ledger.Proofs.SqlAccountsSpec
import Ledger.Proofs.SqlJsonMeta

/-!
# `UpsertAccounts` refines `Ledger.Spec.upsertAccount` (folded over the batch)

The typed-row description of the statement (`upsertAccounts_sem`: new rows `insRow` for the batch addresses without account,
`updOf` applied to every existing row) is, through the abstraction of a typed `accounts` table to the Spec's `Map String AccountRow`
(`AcAbsTo`: per ledger, metadata read by `metaOfJV`), the fold of `Spec.upsertAccount` over the batch.
-/
open Ledger Ledger.Sql Ledger.Core Ledger.Base Ledger.Spec

namespace Ledger.Sql

/-- the Spec row of a typed `accounts` row -/
def acSpec (a : AcR) : AccountRow :=
  { firstUsage := a.fu, insertionDate := a.ins, updatedAt := a.upd, metadata := metaOfJV a.md }

def acIs (l addr : String) (a : AcR) : Bool := decide (a.ledger = l) && decide (a.address = addr)

/-- the typed table abstracts, for ledger `l`, to the Spec accounts `m` -/
structure AcAbsTo (l : String) (tbl : List AcR) (m : Map String AccountRow) : Prop where
  wf : Map.WF m
  get : ∀ addr, Map.get? m addr = (tbl.find? (acIs l addr)).map acSpec

/-- what `upsertAccount` makes of the entry of its address (`firstUsage` given) -/
def upsertRow (o : Option AccountRow) (fu date : Int) (md : Metadata) : AccountRow :=
  match o with
  | some a =>
    if decide (fu < a.firstUsage) || !metaContains a.metadata md then
      { a with metadata := metaMerge a.metadata md, firstUsage := (if fu < a.firstUsage then fu else a.firstUsage), updatedAt := date }
    else a
  | none => { firstUsage := fu, insertionDate := date, updatedAt := date, metadata := md }

theorem get?_insertAcc {m : Map String AccountRow} (hw : Map.WF m) (k : String) (v : AccountRow) (k' : String) :
    Map.get? (Map.insert k v m) k' = if k' = k then some v else Map.get? m k' := by
  unfold Map.insert
  rw [Map.get?_insertWith _ _ _ hw]
  by_cases h : k' = k
  · simp only [h, if_true]
    cases Map.get? m k <;> rfl
  · simp [h]

theorem upsertAccount_spec {m : Map String AccountRow} (hw : Map.WF m) (k : String) (fu date : Int) (md : Metadata) :
    Map.WF (upsertAccount m k (some fu) date md) ∧
    ∀ k', Map.get? (upsertAccount m k (some fu) date md) k' =
      if k' = k then some (upsertRow (Map.get? m k) fu date md) else Map.get? m k' := by
  unfold upsertAccount
  cases hg : Map.get? m k with
  | none =>
    refine ⟨Map.WF_insertWith _ _ _ hw, fun k' => ?_⟩
    simp only [Option.getD_some]
    rw [get?_insertAcc hw]
    rfl
  | some a =>
    simp only
    by_cases hc : (decide (fu < a.firstUsage) || !metaContains a.metadata md) = true
    · simp only [hc, if_true]
      refine ⟨Map.WF_insertWith _ _ _ hw, fun k' => ?_⟩
      rw [get?_insertAcc hw]
      simp [upsertRow, hc]
    · simp only [hc, if_false]
      refine ⟨hw, fun k' => ?_⟩
      by_cases e : k' = k
      · subst e; simp [upsertRow, hc, hg]
      · simp [e]

/-- the fold over a batch with distinct addresses, entry by entry -/
theorem get?_foldl_upsert (date : Int) : ∀ (ds : List DbR) (m : Map String AccountRow), Map.WF m → (ds.map (·.address)).Nodup →
    Map.WF (ds.foldl (fun acc d => upsertAccount acc d.address (some d.fu) date (metaOfJV d.md)) m) ∧
    ∀ addr, Map.get? (ds.foldl (fun acc d => upsertAccount acc d.address (some d.fu) date (metaOfJV d.md)) m) addr =
      match ds.find? (fun d => decide (d.address = addr)) with
      | some d => some (upsertRow (Map.get? m addr) d.fu date (metaOfJV d.md))
      | none => Map.get? m addr := by
  intro ds
  induction ds with
  | nil => intro m hw _; exact ⟨hw, fun _ => rfl⟩
  | cons d rest ih =>
    intro m hw hnd
    simp only [List.map_cons, List.nodup_cons] at hnd
    obtain ⟨hw1, hg1⟩ := upsertAccount_spec hw d.address d.fu date (metaOfJV d.md)
    obtain ⟨hw2, hg2⟩ := ih _ hw1 hnd.2
    refine ⟨hw2, fun addr => ?_⟩
    simp only [List.foldl_cons, List.find?_cons]
    rw [hg2 addr]
    by_cases e : d.address = addr
    · subst e
      have hnone : rest.find? (fun d' => decide (d'.address = d.address)) = none := by
        rw [List.find?_eq_none]
        intro x hx
        simp only [decide_eq_true_eq]
        intro e
        apply hnd.1
        rw [← e]
        exact List.mem_map.mpr ⟨x, hx, rfl⟩
      simp [hnone, hg1]
    · have e' : ¬ addr = d.address := fun h => e h.symm
      simp only [e, decide_false, Bool.false_eq_true]
      rw [hg1 addr]
      simp only [e', if_false]

theorem find?_of_unique {α : Type} (p : α → Bool) (l : List α) (a : α) (ha : a ∈ l) (hp : p a = true)
    (huniq : ∀ b ∈ l, p b = true → b = a) : l.find? p = some a := by
  induction l with
  | nil => cases ha
  | cons x xs ih =>
    rw [List.find?_cons]
    by_cases hx : p x = true
    · simp only [hx]
      rw [huniq x (by simp) hx]
    · have hx' : p x = false := by simpa using hx
      simp only [hx']
      rcases List.mem_cons.mp ha with e | e
      · subst e; rw [hp] at hx'; cases hx'
      · exact ih e (fun b hb => huniq b (by simp [hb]))

theorem metaMerge_nil (m : Metadata) (hw : Map.WF m) : metaMerge [] m = m := by
  unfold metaMerge
  have h := fun k => get?_foldl_insert k m [] (keys_nodup_of_WF hw) Map.WF_nil
  apply Map.ext_of_WF (h "").2 hw
  intro k
  rw [(h k).1]
  cases Map.get? m k <;> rfl

theorem updOf_key (l : String) (ds : List DbR) (a : AcR) : (updOf l ds a).ledger = a.ledger ∧ (updOf l ds a).address = a.address := by
  unfold updOf
  cases ds.find? (updCond l a) <;> exact ⟨rfl, rfl⟩

theorem metaOfJV_WF (j : JV) : Map.WF (metaOfJV j) := by
  cases j <;> first | exact Map.WF_nil | exact metaAbs_WF _

/-- the Spec row of an updated account row -/
theorem acSpec_updRow (a : AcR) (d : DbR) (ha : IsMeta a.md) (hd : IsMeta d.md) (date : Int) (hu : d.upd = date) :
    acSpec (if updCond a.ledger a d then updRow a d else a) = upsertRow (some (acSpec a)) d.fu date (metaOfJV d.md) ∨ a.address ≠ d.address := by
  by_cases hadr : a.address = d.address
  · left
    have hc : updCond a.ledger a d = (decide (d.fu < (acSpec a).firstUsage) || !metaContains (acSpec a).metadata (metaOfJV d.md)) := by
      simp [updCond, hadr, acSpec, jsonContains_meta a.md d.md ha hd]
      first | rfl | (congr 2; exact Subsingleton.elim _ _)
    rw [hc]
    simp only [upsertRow]
    by_cases hcc : (decide (d.fu < (acSpec a).firstUsage) || !metaContains (acSpec a).metadata (metaOfJV d.md)) = true
    · simp only [hcc, if_true]
      simp only [acSpec, updRow, metaOfJV_concat a.md d.md ha hd, hu, leastOpt]
      congr 1
      by_cases h1 : d.fu < a.fu
      · have : ¬ a.fu < d.fu := by omega
        simp [h1, this]
      · by_cases h2 : a.fu < d.fu
        · simp [h1, h2]
        · have : a.fu = d.fu := by omega
          simp [h1, h2, this]
    · have hcc' : (decide (d.fu < (acSpec a).firstUsage) || !metaContains (acSpec a).metadata (metaOfJV d.md)) = false := by simpa using hcc
      simp only [hcc', Bool.false_eq_true, if_false]
  · right; exact hadr

/-- **Refinement, pure part**: the typed-row description of the statement is the fold of `Spec.upsertAccount` over the batch. -/
theorem upsert_refines_fold (l : String) (tbl tbl' : List AcR) (ds : List DbR) (m : Map String AccountRow) (date : Int)
    (habs : AcAbsTo l tbl m)
    (hkey' : (tbl'.map (fun a => (a.ledger, a.address))).Nodup)
    (hperm : tbl'.Perm ((ds.filter (fun d => !hasAccount l tbl d.address)).map (insRow l) ++ tbl.map (updOf l ds)))
    (hnd : (ds.map (·.address)).Nodup)
    (hmeta : ∀ a ∈ tbl, IsMeta a.md)
    (hdmeta : ∀ d ∈ ds, IsMeta d.md ∧ d.dm = JV.obj [])
    (hdate : ∀ d ∈ ds, d.ins = date ∧ d.upd = date) :
    AcAbsTo l tbl' (ds.foldl (fun acc d => upsertAccount acc d.address (some d.fu) date (metaOfJV d.md)) m) := by
  obtain ⟨hw, hg⟩ := get?_foldl_upsert date ds m habs.wf hnd
  refine ⟨hw, fun addr => ?_⟩
  rw [hg addr, habs.get addr]
  -- uniqueness in the new table
  have huniq : ∀ x ∈ tbl', ∀ y ∈ tbl', acIs l addr x = true → acIs l addr y = true → y = x := by
    intro x hx y hy h1 h2
    simp only [acIs, Bool.and_eq_true, decide_eq_true_eq] at h1 h2
    have hinj := nodup_map_inj (fun a : AcR => (a.ledger, a.address)) tbl' hkey' y hy x hx
    exact hinj (by simp [h1.1, h1.2, h2.1, h2.2])
  -- the batch entry of the address, if any
  have hdsU : ∀ d ∈ ds, ∀ d' ∈ ds, d.address = d'.address → d = d' := nodup_map_inj (fun d : DbR => d.address) ds hnd
  cases hf : tbl.find? (acIs l addr) with
  | some a =>
    have ha := List.mem_of_find?_eq_some hf
    have hpa : acIs l addr a = true := List.find?_some hf
    have hal : a.ledger = l ∧ a.address = addr := by simpa [acIs] using hpa
    have hk := updOf_key l ds a
    have hmem' : updOf l ds a ∈ tbl' := (hperm.mem_iff).mpr (List.mem_append_right _ (List.mem_map.mpr ⟨a, ha, rfl⟩))
    have hfind' : tbl'.find? (acIs l addr) = some (updOf l ds a) :=
      find?_of_unique _ tbl' _ hmem' (by simp [acIs, hk.1, hk.2, hal.1, hal.2]) (fun b hb hpb => huniq _ hmem' b hb (by simp [acIs, hk.1, hk.2, hal.1, hal.2]) hpb)
    rw [hfind']
    simp only [Option.map_some]
    cases hd : ds.find? (fun d => decide (d.address = addr)) with
    | none =>
      have hnone : ds.find? (updCond l a) = none := by
        rw [List.find?_eq_none]
        intro d hdm hc
        rw [List.find?_eq_none] at hd
        have := hd d hdm
        simp only [updCond, Bool.and_eq_true, decide_eq_true_eq] at hc
        simp only [decide_eq_true_eq] at this
        exact this (hc.1.1.symm.trans hal.2)
      simp [updOf, hnone]
    | some d =>
      have hdm := List.mem_of_find?_eq_some hd
      have hda : d.address = addr := by simpa using List.find?_some hd
      have hfu : ds.find? (updCond l a) = if updCond l a d then some d else none := by
        by_cases hc : updCond l a d = true
        · simp only [hc, if_true]
          apply find?_of_unique _ ds d hdm hc
          intro d' hd' hc'
          simp only [updCond, Bool.and_eq_true, decide_eq_true_eq] at hc'
          exact hdsU d' hd' d hdm (hc'.1.1.symm.trans (hal.2.trans hda.symm))
        · have hcf : updCond l a d = false := by simpa using hc
          simp only [hcf, Bool.false_eq_true, if_false]
          rw [List.find?_eq_none]
          intro d' hd' hc'
          have : d' = d := by
            simp only [updCond, Bool.and_eq_true, decide_eq_true_eq] at hc'
            exact hdsU d' hd' d hdm (hc'.1.1.symm.trans (hal.2.trans hda.symm))
          subst this
          exact hc hc'
      have hspec := acSpec_updRow a d (hmeta a ha) (hdmeta d hdm).1 date (hdate d hdm).2
      rcases hspec with hspec | hne
      · show some (upsertRow (some (acSpec a)) d.fu date (metaOfJV d.md)) = some (acSpec (updOf l ds a))
        rw [← hspec, hal.1]
        simp only [updOf, hfu]
        cases updCond l a d <;> rfl
      · exact absurd (hal.2.trans hda.symm) hne
  | none =>
    have hnoacc : ∀ x ∈ tbl, acIs l addr x = false := by
      intro x hx
      rw [List.find?_eq_none] at hf
      simpa using hf x hx
    simp only [Option.map_none]
    cases hd : ds.find? (fun d => decide (d.address = addr)) with
    | none =>
      simp only
      symm
      rw [Option.map_eq_none_iff, List.find?_eq_none]
      intro x hx
      rcases List.mem_append.mp ((hperm.mem_iff).mp hx) with h | h
      · obtain ⟨d, hdm, rfl⟩ := List.mem_map.mp h
        rw [List.find?_eq_none] at hd
        have := hd d (List.mem_filter.mp hdm).1
        simp only [decide_eq_true_eq] at this
        simp [acIs, insRow, this]
      · obtain ⟨a, ha, rfl⟩ := List.mem_map.mp h
        have hk := updOf_key l ds a
        have := hnoacc a ha
        simp only [acIs, hk.1, hk.2] at this ⊢
        simpa using this
    | some d =>
      have hdm := List.mem_of_find?_eq_some hd
      have hda : d.address = addr := by simpa using List.find?_some hd
      have hhas : hasAccount l tbl d.address = false := by
        simp only [hasAccount, hda]
        rw [List.any_eq_false]
        intro x hx
        have := hnoacc x hx
        simpa [acIs] using this
      have hmem' : insRow l d ∈ tbl' :=
        (hperm.mem_iff).mpr (List.mem_append_left _ (List.mem_map.mpr ⟨d, List.mem_filter.mpr ⟨hdm, by simp [hhas]⟩, rfl⟩))
      have hp' : acIs l addr (insRow l d) = true := by simp [acIs, insRow, hda]
      have hfind' : tbl'.find? (acIs l addr) = some (insRow l d) :=
        find?_of_unique _ tbl' _ hmem' hp' (fun b hb hpb => huniq _ hmem' b hb hp' hpb)
      rw [hfind']
      simp only [Option.map_some, upsertRow, acSpec, insRow, (hdate d hdm).1, (hdate d hdm).2]
      congr 2
      obtain ⟨hm, hdm0⟩ := hdmeta d hdm
      rw [hdm0]
      have hnil : IsMeta (JV.obj []) := ⟨[], rfl, ⟨(fun _ h => nomatch h), List.nodup_nil⟩⟩
      rw [metaOfJV_concat _ _ hnil hm]
      exact (metaMerge_nil _ (metaOfJV_WF _)).symm

theorem acAbs_keys_nodup (lv : View) (nr : Nat) (rows : List Ver) (h : AcInv lv nr rows) :
    ((acAbs lv rows).map (fun a => (a.ledger, a.address))).Nodup := by
  have hv := acAbs_vals lv rows h.typed
  have hk := h.keyNodup
  have : (rows.filter (fun r => r.visible lv)).map (fun r => acKeyOf r.vals) = ((rows.filter (fun r => r.visible lv)).map (·.vals)).map acKeyOf := by
    rw [List.map_map]; rfl
  rw [this, hv, List.map_map] at hk
  have e : (acKeyOf ∘ AcR.vals) = (fun a : AcR => (a.ledger, a.address)) := by funext a; simp
  rw [e] at hk
  exact hk

end Ledger.Sql

namespace Ledger.Sql
open Ledger.Generated.WriteSql

/-- **`UpsertAccounts` refines the fold of `Spec.upsertAccount`.** If the visible rows of `accounts` abstract, for the ledger, to the
    Spec accounts `m`, all metadata are objects of strings and the batch rows carry one date (`insertion_date = updated_at = date`) and
    no default metadata, then after the generated statement the table abstracts to `m` with `Spec.upsertAccount` applied for every batch
    row (address, `some first_usage`, `date`, metadata). -/
theorem upsertAccounts_refines (k : Nat) (env : Env) (b l : String) (id : Nat) (trigs : List TriggerDef) (nr : Nat) (rows : List Ver)
    (s : St) (hst : UpsertState s b trigs nr rows) (henv : env.ctes = [])
    (pm : List (P.AccountRow × DbR)) (hlits : ∀ x ∈ pm, DbLit s.w.types x.1 x.2) (hnd : ((pm.map (·.2)).map (·.address)).Nodup)
    (m : Map String Spec.AccountRow) (habs : AcAbsTo l (acAbs (latestView s.w s.xid) rows) m)
    (hmeta : ∀ a ∈ acAbs (latestView s.w s.xid) rows, IsMeta a.md)
    (hdmeta : ∀ d ∈ pm.map (·.2), IsMeta d.md ∧ d.dm = JV.obj [])
    (date : Int) (hdate : ∀ d ∈ pm.map (·.2), d.ins = date ∧ d.upd = date) :
    ∃ (res : DmlResult) (rows' : List Ver) (n' : Nat),
      ((P.upsertAccounts b l id (pm.map (·.1))).mapM (runStmt (k + 19) env)).exec s =
        (.ok [res], s.withTable ((acT b trigs (nr + n')).withRows rows')) ∧
      AcAbsTo l (acAbs (latestView s.w s.xid) rows')
        ((pm.map (·.2)).foldl (fun acc d => Spec.upsertAccount acc d.address (some d.fu) date (metaOfJV d.md)) m) ∧
      AcInv (latestView s.w s.xid) (nr + n') rows' := by
  obtain ⟨res, rows', n', hrun, hperm, hinv⟩ := upsertAccounts_sem k env b l id trigs nr rows s hst henv pm hlits hnd
  refine ⟨res, rows', n', hrun, ?_, hinv⟩
  exact upsert_refines_fold l _ _ (pm.map (·.2)) m date habs (acAbs_keys_nodup _ _ _ hinv) hperm hnd hmeta hdmeta hdate

end Ledger.Sql
