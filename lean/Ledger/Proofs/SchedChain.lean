import Ledger.Proofs.SchedSafeProgs

/-!
# HASH_LOGS=SYNC: the log chain is linear and log ids follow commit order, under any schedule

Discipline `⟨logKey l₀, l₀, strict⟩`: every log INSERT on ledger `l₀` happens inside a transaction
holding `pg_advisory_xact_lock(l₀)`, takes its id from `log_id_l₀` and runs the `set_log_hash`
trigger, and the sequence is never reset. Then, at every reachable world, the rows of `logs` for `l₀`
(in insertion order) have strictly increasing ids, each chains from the row before it, the
uncommitted ones form a suffix owned by the lock holder, and the commit order of the ledger's logs
is their id order.
-/
namespace Ledger.Sched

/-- each row chains from the id of the row before it (`p` for the first) -/
def ChainedFrom : Nat → List Lg → Prop
  | _, [] => True
  | p, e :: r => e.prev = p ∧ ChainedFrom e.id r

def lastId (p : Nat) (l : List Lg) : Nat := (l.getLast?.map (·.id)).getD p

theorem chainedFrom_append (p : Nat) (l : List Lg) (e : Lg) :
    ChainedFrom p (l ++ [e]) ↔ ChainedFrom p l ∧ e.prev = lastId p l := by
  induction l generalizing p with
  | nil => simp [ChainedFrom, lastId]
  | cons a r ih =>
    simp only [List.cons_append, ChainedFrom, ih]
    have : lastId p (a :: r) = lastId a.id r := by
      unfold lastId
      cases r with
      | nil => simp
      | cons b t =>
        have hne : (b :: t).getLast? = some ((b :: t).getLast (by simp)) := List.getLast?_eq_getLast (by simp)
        simp [List.getLast?_cons_cons, hne]
    rw [this]
    exact and_assoc.symm

theorem chainedFrom_map (f : Lg → Lg) (hf : ∀ e, (f e).prev = e.prev ∧ (f e).id = e.id) (p : Nat) (l : List Lg)
    (h : ChainedFrom p l) : ChainedFrom p (l.map f) := by
  induction l generalizing p with
  | nil => trivial
  | cons a r ih =>
    simp only [List.map_cons, ChainedFrom] at h ⊢
    exact ⟨(hf a).1.trans h.1, by rw [(hf a).2]; exact ih _ h.2⟩

/-- removing a suffix keeps the chain -/
theorem chainedFrom_takeWhile (q : Lg → Bool) (p : Nat) (l : List Lg) (h : ChainedFrom p l) :
    ChainedFrom p (l.takeWhile q) := by
  induction l generalizing p with
  | nil => trivial
  | cons a r ih =>
    simp only [List.takeWhile_cons]
    split
    · exact ⟨h.1, ih _ h.2⟩
    · trivial

/-- committed rows come first -/
def ComPrefix (l : List Lg) : Prop := l.Pairwise (fun a b => b.com = true → a.com = true)

theorem filter_eq_takeWhile_of_prefix (l : List Lg) (q : Lg → Bool)
    (h : l.Pairwise (fun a b => q b = true → q a = true)) : l.filter q = l.takeWhile q := by
  induction l with
  | nil => rfl
  | cons a r ih =>
    rw [List.pairwise_cons] at h
    simp only [List.filter_cons, List.takeWhile_cons]
    split
    · rw [ih h.2]
    · rename_i hq
      rw [List.filter_eq_nil_iff.mpr]
      intro b hb hqb
      exact hq (h.1 b hb hqb)

theorem maxId_le (ids : List Nat) (n : Nat) (h : ∀ i ∈ ids, i ≤ n) : maxId ids ≤ n := by
  unfold maxId
  have : ∀ (acc : Nat), acc ≤ n → ids.foldl max acc ≤ n := by
    induction ids with
    | nil => intro acc ha; exact ha
    | cons a r ih =>
      intro acc ha
      simp only [List.foldl_cons]
      exact ih (fun i hi => h i (List.mem_cons_of_mem _ hi)) _ (Nat.max_le.mpr ⟨ha, h a (List.mem_cons_self ..)⟩)
  exact this 0 (Nat.zero_le _)

theorem foldl_max_ge (ids : List Nat) (acc : Nat) : acc ≤ ids.foldl max acc ∧ ∀ i ∈ ids, i ≤ ids.foldl max acc := by
  induction ids generalizing acc with
  | nil => exact ⟨Nat.le_refl _, fun _ h => by cases h⟩
  | cons a r ih =>
    simp only [List.foldl_cons]
    obtain ⟨h1, h2⟩ := ih (max acc a)
    refine ⟨Nat.le_trans (Nat.le_max_left _ _) h1, ?_⟩
    intro i hi
    cases hi with
    | head => exact Nat.le_trans (Nat.le_max_right _ _) h1
    | tail _ hm => exact h2 i hm

/-- on a list with strictly increasing ids the largest id is the last one -/
theorem maxId_eq_lastId (l : List Lg) (h : l.Pairwise (fun a b => a.id < b.id)) : maxId (l.map (·.id)) = lastId 0 l := by
  rcases List.eq_nil_or_concat l with rfl | ⟨r, e, rfl⟩
  · rfl
  · rw [List.concat_eq_append] at h ⊢
    have hl : lastId 0 (r ++ [e]) = e.id := by simp [lastId]
    rw [hl]
    apply Nat.le_antisymm
    · apply maxId_le
      intro i hi
      obtain ⟨x, hx, rfl⟩ := List.mem_map.mp hi
      simp only [List.mem_append, List.mem_singleton] at hx
      rcases hx with hx | hx
      · rw [List.pairwise_append] at h
        exact Nat.le_of_lt (h.2.2 x hx e (List.mem_singleton.mpr rfl))
      · rw [hx]; exact Nat.le_refl _
    · exact (foldl_max_ge _ 0).2 e.id (List.mem_map.mpr ⟨e, by simp, rfl⟩)

end Ledger.Sched

namespace Ledger.Sched

/-- the rows of `logs` of ledger `l₀`, in insertion order -/
def Lof (l₀ : Nat) (w : World) : List Lg := w.logs.filter (fun e => e.l = l₀)

structure ChainInv (d : Disc) (w : World) : Prop where
  inc : (Lof d.l₀ w).Pairwise (fun a b => a.id < b.id)
  le : ∀ e ∈ Lof d.l₀ w, e.id ≤ w.logSeq d.l₀
  chain : ChainedFrom 0 (Lof d.l₀ w)
  pre : ComPrefix (Lof d.l₀ w)
  cinc : ((w.logCommits.filter (fun c => c.1 = d.l₀)).map (·.2.1)).Pairwise (· < ·)
  cle : ∀ c ∈ w.logCommits, c.1 = d.l₀ → c.2.1 ≤ w.logSeq d.l₀
  clt : ∀ c ∈ w.logCommits, c.1 = d.l₀ → ∀ e ∈ Lof d.l₀ w, e.com = false → c.2.1 < e.id
  pos : ∀ e ∈ Lof d.l₀ w, 0 < e.id

theorem chainInv_congr (d : Disc) (w w' : World) (h : ChainInv d w)
    (h1 : w'.logs = w.logs) (h2 : w'.logSeq d.l₀ = w.logSeq d.l₀) (h3 : w'.logCommits = w.logCommits) : ChainInv d w' := by
  have hL : Lof d.l₀ w' = Lof d.l₀ w := by unfold Lof; rw [h1]
  exact ⟨hL ▸ h.inc, by rw [hL, h2]; exact h.le, hL ▸ h.chain, hL ▸ h.pre, h3 ▸ h.cinc, by rw [h3, h2]; exact h.cle,
    by rw [h3, hL]; exact h.clt, by rw [hL]; exact h.pos⟩

/-- the sequence may only grow -/
theorem chainInv_seq (d : Disc) (w w' : World) (h : ChainInv d w)
    (h1 : w'.logs = w.logs) (h2 : w.logSeq d.l₀ ≤ w'.logSeq d.l₀) (h3 : w'.logCommits = w.logCommits) : ChainInv d w' := by
  have hL : Lof d.l₀ w' = Lof d.l₀ w := by unfold Lof; rw [h1]
  refine ⟨hL ▸ h.inc, ?_, hL ▸ h.chain, hL ▸ h.pre, h3 ▸ h.cinc, ?_, by rw [h3, hL]; exact h.clt, by rw [hL]; exact h.pos⟩
  · rw [hL]; intro e he; exact Nat.le_trans (h.le e he) h2
  · rw [h3]; intro c hc hl; exact Nat.le_trans (h.cle c hc hl) h2

/-- under `GInv`, all uncommitted rows of `l₀` belong to one session -/
theorem uncommitted_same_owner (d : Disc) (w : World) (hg : GInv d w) (a b : Lg)
    (ha : a ∈ Lof d.l₀ w) (hb : b ∈ Lof d.l₀ w) (hac : a.com = false) (hbc : b.com = false) : a.by_ = b.by_ := by
  unfold Lof at ha hb
  simp only [List.mem_filter, decide_eq_true_eq] at ha hb
  obtain ⟨x, hx, hxk, hxs⟩ := ginv_uncommitted_holds d w hg a ha.1 ha.2 hac
  obtain ⟨y, hy, hyk, hys⟩ := ginv_uncommitted_holds d w hg b hb.1 hb.2 hbc
  have := hg.1 x hx y hy (hxk.trans hyk.symm)
  rw [← hxs, ← hys]; exact this

/-- ... and to the session known to hold the key -/
theorem uncommitted_owner_of_holder (d : Disc) (w : World) (hg : GInv d w) (t : Sid) (hh : Holds w t d.K) (a : Lg)
    (ha : a ∈ Lof d.l₀ w) (hac : a.com = false) : a.by_ = t := by
  unfold Lof at ha
  simp only [List.mem_filter, decide_eq_true_eq] at ha
  obtain ⟨x, hx, hxk, hxs⟩ := ginv_uncommitted_holds d w hg a ha.1 ha.2 hac
  obtain ⟨y, hy, hyk, hys⟩ := hh
  have := hg.1 x hx y hy (hxk.trans hyk.symm)
  rw [← hxs, ← hys]; exact this

end Ledger.Sched

namespace Ledger.Sched

def flipCom (t : Sid) (e : Lg) : Lg := if e.by_ = t then { e with com := true } else e

theorem flipCom_keys (t : Sid) (e : Lg) :
    (flipCom t e).l = e.l ∧ (flipCom t e).id = e.id ∧ (flipCom t e).prev = e.prev ∧ (flipCom t e).by_ = e.by_ := by
  unfold flipCom; split <;> exact ⟨rfl, rfl, rfl, rfl⟩

theorem lof_commit (l₀ : Nat) (w : World) (t : Sid) : Lof l₀ (w.commitTx t) = (Lof l₀ w).map (flipCom t) := by
  unfold Lof
  simp only [World.commitTx]
  rw [List.filter_map]
  congr 1
  apply List.filter_congr
  intro e _
  simp only [Function.comp]
  have := (flipCom_keys t e).1
  unfold flipCom at this
  rw [this]

theorem lof_undo (l₀ : Nat) (w : World) (t : Sid) (b : Bool) :
    Lof l₀ (w.undo t b) = (Lof l₀ w).filter (fun e => e.com || e.by_ ≠ t) := by
  unfold Lof
  simp only [World.undo]
  rw [List.filter_filter, List.filter_filter]
  apply List.filter_congr
  intro e _
  exact Bool.and_comm _ _

theorem chainInv_commit (d : Disc) (w : World) (t : Sid) (hg : GInv d w) (h : ChainInv d w) :
    ChainInv d (w.commitTx t) := by
  have hL := lof_commit d.l₀ w t
  have hseq : (w.commitTx t).logSeq = w.logSeq := rfl
  have hcom : (w.commitTx t).logCommits = w.logCommits ++ commitLogs t w.logs := rfl
  -- the new commit entries of ledger l₀: the uncommitted rows of `t`
  have hnew : ((commitLogs t w.logs).filter (fun c => c.1 = d.l₀)).map (·.2.1) =
      ((Lof d.l₀ w).filter (fun e => e.by_ = t && !e.com)).map (·.id) := by
    unfold commitLogs Lof
    rw [List.filter_map, List.map_map, List.filter_filter, List.filter_filter]
    congr 1
    apply List.filter_congr
    intro e _
    simp only [Function.comp]
    exact Bool.and_comm _ _
  refine ⟨?_, ?_, ?_, ?_, ?_, ?_, ?_, ?_⟩
  · rw [hL]
    refine pairwise_map_flag _ _ _ ?_ h.inc
    intro a b hab
    rw [(flipCom_keys t a).2.1, (flipCom_keys t b).2.1]; exact hab
  · rw [hL, hseq]
    intro e he
    obtain ⟨x, hx, rfl⟩ := List.mem_map.mp he
    rw [(flipCom_keys t x).2.1]; exact h.le x hx
  · rw [hL]
    exact chainedFrom_map _ (fun e => ⟨(flipCom_keys t e).2.2.1, (flipCom_keys t e).2.1⟩) 0 _ h.chain
  · rw [hL]
    unfold ComPrefix
    rw [List.pairwise_map]
    refine List.Pairwise.imp_of_mem ?_ h.pre
    intro a b ha hb hab hbc
    by_cases hbcom : b.com = true
    · have := hab hbcom
      unfold flipCom; split <;> simp [this]
    · have hbf : b.com = false := by simpa using hbcom
      -- b was flipped: it belongs to t; an uncommitted a belongs to the same session
      have hbt : b.by_ = t := by
        unfold flipCom at hbc
        split at hbc
        · assumption
        · exact absurd hbc hbcom
      cases hac : a.com with
      | true => unfold flipCom; split <;> simp [hac]
      | false =>
        have := uncommitted_same_owner d w hg a b ha hb hac hbf
        unfold flipCom
        rw [if_pos (this.trans hbt)]
  · rw [hcom, List.filter_append, List.map_append, List.pairwise_append]
    refine ⟨h.cinc, ?_, ?_⟩
    · rw [hnew]
      have : ((Lof d.l₀ w).filter (fun e => e.by_ = t && !e.com)).Pairwise (fun a b => a.id < b.id) :=
        h.inc.sublist List.filter_sublist
      exact List.pairwise_map.mpr this
    · intro x hx y hy
      rw [hnew] at hy
      obtain ⟨c, hc, rfl⟩ := List.mem_map.mp hx
      obtain ⟨e, he, rfl⟩ := List.mem_map.mp hy
      simp only [List.mem_filter, decide_eq_true_eq, Bool.and_eq_true, Bool.not_eq_true'] at hc he
      exact h.clt c hc.1 hc.2 e he.1 he.2.2
  · rw [hcom, hseq]
    intro c hc hl
    rcases List.mem_append.mp hc with hc | hc
    · exact h.cle c hc hl
    · unfold commitLogs at hc
      obtain ⟨e, he, rfl⟩ := List.mem_map.mp hc
      simp only [List.mem_filter] at he
      exact h.le e (by unfold Lof; exact List.mem_filter.mpr ⟨he.1, by simpa using hl⟩)
  · rw [hcom, hL]
    intro c hc hl e he hec
    obtain ⟨x, hx, rfl⟩ := List.mem_map.mp he
    have hxt : x.by_ ≠ t := by
      intro hxt; unfold flipCom at hec; rw [if_pos hxt] at hec; cases hec
    have hxc : x.com = false := by unfold flipCom at hec; rw [if_neg hxt] at hec; exact hec
    rw [(flipCom_keys t x).2.1]
    rcases List.mem_append.mp hc with hc | hc
    · exact h.clt c hc hl x hx hxc
    · unfold commitLogs at hc
      obtain ⟨e', he', rfl⟩ := List.mem_map.mp hc
      simp only [List.mem_filter, Bool.and_eq_true, decide_eq_true_eq, Bool.not_eq_true'] at he'
      have he'L : e' ∈ Lof d.l₀ w := by unfold Lof; exact List.mem_filter.mpr ⟨he'.1, by simpa using hl⟩
      have := uncommitted_same_owner d w hg x e' hx he'L hxc he'.2.2
      exact absurd (this.trans he'.2.1) hxt
  · rw [hL]
    intro e he
    obtain ⟨x, hx, rfl⟩ := List.mem_map.mp he
    rw [(flipCom_keys t x).2.1]; exact h.pos x hx

end Ledger.Sched

namespace Ledger.Sched

theorem chainInv_undo (d : Disc) (w : World) (t : Sid) (b : Bool) (hg : GInv d w) (h : ChainInv d w) :
    ChainInv d (w.undo t b) := by
  have hL := lof_undo d.l₀ w t b
  have hsub : ((Lof d.l₀ w).filter (fun e => e.com || e.by_ ≠ t)).Sublist (Lof d.l₀ w) := List.filter_sublist
  have hmem : ∀ e, e ∈ (Lof d.l₀ w).filter (fun e => e.com || e.by_ ≠ t) → e ∈ Lof d.l₀ w := fun e he => (List.mem_filter.mp he).1
  refine ⟨?_, ?_, ?_, ?_, h.cinc, h.cle, ?_, (by rw [hL]; intro e he; exact h.pos e (hmem e he))⟩
  · rw [hL]; exact h.inc.sublist hsub
  · rw [hL]; intro e he; exact h.le e (hmem e he)
  · rw [hL]
    -- either `t` has no uncommitted row of l₀ (nothing is removed) or all uncommitted rows are its own
    by_cases hex : ∃ e ∈ Lof d.l₀ w, e.com = false ∧ e.by_ = t
    · obtain ⟨e0, he0, he0c, he0t⟩ := hex
      have hfilt : (Lof d.l₀ w).filter (fun e => e.com || e.by_ ≠ t) = (Lof d.l₀ w).filter (fun e => e.com) := by
        apply List.filter_congr
        intro e he
        cases hc : e.com with
        | true => simp
        | false =>
          have := uncommitted_same_owner d w hg e e0 he he0 hc he0c
          simp [this.trans he0t]
      rw [hfilt, filter_eq_takeWhile_of_prefix _ _ h.pre]
      exact chainedFrom_takeWhile _ 0 _ h.chain
    · have hfilt : (Lof d.l₀ w).filter (fun e => e.com || e.by_ ≠ t) = Lof d.l₀ w := by
        rw [List.filter_eq_self]
        intro e he
        cases hc : e.com with
        | true => simp
        | false =>
          have : e.by_ ≠ t := fun hbt => hex ⟨e, he, hc, hbt⟩
          simp [this]
      rw [hfilt]; exact h.chain
  · rw [hL]; exact List.Pairwise.sublist hsub h.pre
  · rw [hL]; intro c hc hl e he hec; exact h.clt c hc hl e (hmem e he) hec

theorem ginv_frame (d : Disc) (w w' : World) (h : GInv d w)
    (h1 : w'.adv = w.adv) (h2 : w'.logs = w.logs) (h3 : w'.sess = w.sess) : GInv d w' := by
  refine ⟨by unfold AdvWf; rw [h1]; exact h.1, fun s => ?_⟩
  obtain ⟨m, hm, hs⟩ := h.2 s
  exact ⟨m, monOf_congr d w w' s m hm h1 h2 (by rw [h3]) (by rw [h3]), by rw [h3]; exact hs⟩

theorem chainInv_rollback (d : Disc) (w : World) (t : Sid) (hg : GInv d w) (h : ChainInv d w) :
    ChainInv d (w.rollbackTx t) := by
  unfold World.rollbackTx
  exact chainInv_congr d _ _ (chainInv_undo d w t false hg h) rfl rfl rfl

theorem chainInv_fail (d : Disc) (w : World) (t : Sid) (hg : GInv d w) (h : ChainInv d w) :
    ChainInv d (w.failTx t) := by
  unfold World.failTx
  simp only
  split
  · exact chainInv_congr d (w.undo t (decide ((w.sess t).sp > 0))) _ (chainInv_undo d w t _ hg h) rfl rfl rfl
  · exact chainInv_congr d w _ h rfl rfl rfl

end Ledger.Sched

namespace Ledger.Sched

/-- statements other than the log INSERT: logs and commit ghost untouched; the log sequence of `l₀` moves
    only by `setval l₀` -/
theorem exec_frame_chain (w : World) (s : Sid) (st : Stmt) (w' : World) (l₀ : Nat)
    (hni : ∀ l k hh sy i t, st ≠ .insertLog l k hh sy i t) (hns : st ≠ .setval l₀)
    (he : (∃ o, exec w s st = .done w' o) ∨ (∃ e, exec w s st = .failed w' e)) :
    w'.logs = w.logs ∧ w'.logCommits = w.logCommits ∧ w'.logSeq l₀ = w.logSeq l₀ := by
  cases st with
  | insertLog l k hh sy i t => exact absurd rfl (hni l k hh sy i t)
  | setval l =>
    have hl : l ≠ l₀ := fun h => hns (by rw [h])
    rcases he with ⟨o, he⟩ | ⟨e, he⟩ <;> simp only [exec] at he <;> cases he
    refine ⟨rfl, rfl, ?_⟩
    simp [Ne.symm hl]
  | insertTx l r i =>
    simp only [exec] at he
    have := insTx_frame he
    rcases he with ⟨o, he⟩ | ⟨e, he⟩ <;> (unfold insTx at he; dsimp only at he; repeat' split at he) <;>
      all_goals first | (cases he; done) | (cases he; exact ⟨rfl, rfl, rfl⟩)
  | getBalances ps =>
    rcases he with ⟨o, he⟩ | ⟨e, he⟩ <;> (simp only [exec] at he; unfold getBal at he; repeat' split at he) <;>
      all_goals first | (cases he; done) | (cases he; exact ⟨rfl, rfl, rfl⟩)
  | updateVolumes ds =>
    rcases he with ⟨o, he⟩ | ⟨e, he⟩ <;> (simp only [exec] at he; unfold updVol at he; repeat' split at he) <;>
      all_goals first | (cases he; done) | (cases he; exact ⟨rfl, rfl, rfl⟩)
  | _ =>
    rcases he with ⟨o, he⟩ | ⟨e, he⟩ <;> (simp only [exec] at he; repeat' split at he) <;>
      all_goals first | (cases he; done) | (cases he; exact ⟨rfl, rfl, rfl⟩)

/-- the row a log INSERT appends -/
def newLog (w : World) (s : Sid) (l ik hash : Nat) (sync : Bool) (id : Option Nat) (tx : Nat) : Lg :=
  Lg.mk l (id.getD (w.logSeq l + 1)) ik hash (if sync then maxId ((w.logs.filter (fun e => e.l = l && visLog s e)).map (·.id)) else 0) tx s false

/-- the log INSERT: what the new world looks like -/
theorem insLog_shape {w : World} {s : Sid} {l ik hash : Nat} {sync : Bool} {id : Option Nat} {tx : Nat} {w' : World} {o : Out}
    (h : insLog w s l ik hash sync id tx = .done w' o) :
    w'.logs = w.logs ++ [newLog w s l ik hash sync id tx] ∧
    w'.logCommits = w.logCommits ∧
    (∀ l', w'.logSeq l' = if l' = l && id.isNone then w.logSeq l + 1 else w.logSeq l') := by
  unfold insLog at h
  dsimp only at h
  cases h1 : w.logs.find? (fun e => decide (e.l = l) && decide (e.id = id.getD (w.logSeq l + 1))) with
  | some t => rw [h1] at h; dsimp only at h; split at h <;> cases h
  | none =>
    rw [h1] at h; dsimp only at h
    cases h2 : (if ik = 0 then none else w.logs.find? (fun e => decide (e.l = l) && decide (e.ik = ik))) with
    | some t => rw [h2] at h; dsimp only at h; split at h <;> cases h
    | none =>
      rw [h2] at h; dsimp only at h
      injection h with hw _
      subst hw
      exact ⟨rfl, rfl, fun _ => rfl⟩

theorem insLog_failed_shape {w : World} {s : Sid} {l ik hash : Nat} {sync : Bool} {id : Option Nat} {tx : Nat} {w' : World} {e : Err}
    (h : insLog w s l ik hash sync id tx = .failed w' e) :
    w'.logs = w.logs ∧ w'.logCommits = w.logCommits ∧ ∀ l', w.logSeq l' ≤ w'.logSeq l' := by
  unfold insLog at h
  dsimp only at h
  repeat' split at h
  all_goals first
    | (cases h; done)
    | (cases h; refine ⟨rfl, rfl, fun l' => ?_⟩; dsimp only;
       by_cases hc : (decide (l' = l) && id.isNone) = true
       · simp only [hc, if_true]
         have : l' = l := by simp only [Bool.and_eq_true, decide_eq_true_eq] at hc; exact hc.1
         rw [this]; omega
       · simp only [hc]; exact Nat.le_refl _)

end Ledger.Sched

namespace Ledger.Sched

theorem lof_append_other (l₀ : Nat) (logs : List Lg) (e : Lg) (h : e.l ≠ l₀) :
    (logs ++ [e]).filter (fun x => decide (x.l = l₀)) = logs.filter (fun x => decide (x.l = l₀)) := by
  simp [List.filter_append, h]

theorem lof_append_same (l₀ : Nat) (logs : List Lg) (e : Lg) (h : e.l = l₀) :
    (logs ++ [e]).filter (fun x => decide (x.l = l₀)) = logs.filter (fun x => decide (x.l = l₀)) ++ [e] := by
  simp [List.filter_append, h]

/-- the log INSERT of a session that follows the strict discipline -/
theorem chainInv_insLog (d : Disc) (hstrict : d.strict = true) (w : World) (t : Sid) (m : Mon)
    (l ik hash : Nat) (sync : Bool) (id : Option Nat) (tx : Nat) (w' : World) (o : Out)
    (hg : GInv d w) (hm : MonOf d w t m) (hok : monOk d m (.insertLog l ik hash sync id tx))
    (he : insLog w t l ik hash sync id tx = .done w' o) (h : ChainInv d w) : ChainInv d w' := by
  obtain ⟨hlogs, hcom, hseq⟩ := insLog_shape he
  by_cases hl : l = d.l₀
  · obtain ⟨hheld, _, hst⟩ := hok hl
    obtain ⟨hsy, hid⟩ := hst hstrict
    subst hid
    subst hl
    have hholds : Holds w t d.K := by
      obtain ⟨a, ha, hk, hs, _⟩ := hm.held hheld
      exact ⟨a, ha, hk, hs⟩
    have hLe : Lof d.l₀ w' = Lof d.l₀ w ++ [newLog w t d.l₀ ik hash sync none tx] := by
      unfold Lof; rw [hlogs]; exact lof_append_same _ _ _ rfl
    have hseq' : w'.logSeq d.l₀ = w.logSeq d.l₀ + 1 := by rw [hseq]; simp
    have hnid : (newLog w t d.l₀ ik hash sync none tx).id = w.logSeq d.l₀ + 1 := rfl
    -- every row of the ledger is visible to the lock holder
    have hvis : w.logs.filter (fun e => e.l = d.l₀ && visLog t e) = Lof d.l₀ w := by
      unfold Lof
      apply List.filter_congr
      intro e he'
      by_cases hel : e.l = d.l₀
      · cases hc : e.com with
        | true => simp [hel, visLog, hc]
        | false =>
          have := uncommitted_owner_of_holder d w hg t hholds e (by unfold Lof; exact List.mem_filter.mpr ⟨he', by simpa using hel⟩) hc
          simp [hel, visLog, this]
      · simp [hel]
    refine ⟨?_, ?_, ?_, ?_, ?_, ?_, ?_, ?_⟩
    · rw [hLe, List.pairwise_append]
      refine ⟨h.inc, List.pairwise_singleton _ _, ?_⟩
      intro a ha b hb
      rw [List.mem_singleton.mp hb, hnid]
      exact Nat.lt_succ_of_le (h.le a ha)
    · rw [hLe, hseq']
      intro e he'
      rcases List.mem_append.mp he' with he' | he'
      · exact Nat.le_succ_of_le (h.le e he')
      · rw [List.mem_singleton.mp he', hnid]; exact Nat.le_refl _
    · rw [hLe, chainedFrom_append]
      refine ⟨h.chain, ?_⟩
      show (if sync = true then maxId ((w.logs.filter (fun e => e.l = d.l₀ && visLog t e)).map (·.id)) else 0) = _
      rw [if_pos hsy, hvis]
      exact maxId_eq_lastId _ h.inc
    · rw [hLe]
      unfold ComPrefix
      rw [List.pairwise_append]
      refine ⟨h.pre, List.pairwise_singleton _ _, ?_⟩
      intro a _ b hb hbc
      rw [List.mem_singleton.mp hb] at hbc
      cases hbc
    · rw [hcom]; exact h.cinc
    · rw [hcom, hseq']; intro c hc hcl; exact Nat.le_succ_of_le (h.cle c hc hcl)
    · rw [hcom, hLe]
      intro c hc hcl e he' hec
      rcases List.mem_append.mp he' with he' | he'
      · exact h.clt c hc hcl e he' hec
      · rw [List.mem_singleton.mp he', hnid]; exact Nat.lt_succ_of_le (h.cle c hc hcl)
    · rw [hLe]
      intro e he'
      rcases List.mem_append.mp he' with he' | he'
      · exact h.pos e he'
      · rw [List.mem_singleton.mp he', hnid]; exact Nat.succ_pos _
  · have hLe : Lof d.l₀ w' = Lof d.l₀ w := by
      unfold Lof; rw [hlogs]; exact lof_append_other _ _ _ hl
    have hseq' : w'.logSeq d.l₀ = w.logSeq d.l₀ := by
      rw [hseq]
      have : ¬ d.l₀ = l := fun h' => hl h'.symm
      simp [this]
    exact ⟨hLe ▸ h.inc, by rw [hLe, hseq']; exact h.le, hLe ▸ h.chain, hLe ▸ h.pre, hcom ▸ h.cinc,
      by rw [hcom, hseq']; exact h.cle, by rw [hcom, hLe]; exact h.clt, by rw [hLe]; exact h.pos⟩

end Ledger.Sched

namespace Ledger.Sched

theorem chainInv_exec (d : Disc) (hstrict : d.strict = true) (w : World) (t : Sid) (m : Mon) (st : Stmt) (w' : World) (o : Out)
    (hg : GInv d w) (hm : MonOf d w t m) (hok : monOk d m st) (he : exec w t st = .done w' o)
    (h : ChainInv d w) : ChainInv d w' := by
  by_cases h2 : ∃ l k hh sy i tx, st = .insertLog l k hh sy i tx
  · obtain ⟨l, ik, hash, sync, id, tx, rfl⟩ := h2
    simp only [exec] at he
    exact chainInv_insLog d hstrict w t m l ik hash sync id tx w' o hg hm hok he h
  · have hns : st ≠ .setval d.l₀ := by
      intro hst
      rw [hst] at hok
      exact hok hstrict rfl
    obtain ⟨h1, h3, h4⟩ := exec_frame_chain w t st w' d.l₀ (fun l k hh sy i tx hc => h2 ⟨l, k, hh, sy, i, tx, hc⟩) hns (Or.inl ⟨o, he⟩)
    exact chainInv_congr d w w' h h1 h4 h3

theorem chainInv_execFailed (d : Disc) (hstrict : d.strict = true) (w : World) (t : Sid) (m : Mon) (st : Stmt) (w' : World) (e : Err)
    (hok : monOk d m st) (he : exec w t st = .failed w' e) (h : ChainInv d w) : ChainInv d w' := by
  by_cases h2 : ∃ l k hh sy i tx, st = .insertLog l k hh sy i tx
  · obtain ⟨l, ik, hash, sync, id, tx, rfl⟩ := h2
    simp only [exec] at he
    obtain ⟨h1, h3, h4⟩ := insLog_failed_shape he
    exact chainInv_seq d w w' h h1 (h4 _) h3
  · have hns : st ≠ .setval d.l₀ := by
      intro hst
      rw [hst] at hok
      exact hok hstrict rfl
    obtain ⟨h1, h3, h4⟩ := exec_frame_chain w t st w' d.l₀ (fun l k hh sy i tx hc => h2 ⟨l, k, hh, sy, i, tx, hc⟩) hns (Or.inr ⟨e, he⟩)
    exact chainInv_congr d w w' h h1 h4 h3

theorem chainInv_trans (d : Disc) (hstrict : d.strict = true) (w : World) (t : Sid) (st : Stmt) (o : Out) (w1 : World) (m : Mon)
    (hg : GInv d w) (hm : MonOf d w t m) (hok : monOk d m st) (ht : Trans w t st o w1) (h : ChainInv d w) :
    ChainInv d w1 := by
  cases ht with
  | begin => exact chainInv_congr d w _ h rfl rfl rfl
  | commitNoop _ => exact h
  | commitAborted _ _ => exact chainInv_rollback d w t hg h
  | commit _ _ => exact chainInv_commit d w t hg h
  | rollback => exact chainInv_rollback d w t hg h
  | savepointRefused _ => exact h
  | savepoint _ => exact chainInv_congr d w _ h rfl rfl rfl
  | releaseRefused _ => exact h
  | releaseBad _ _ => exact chainInv_fail d w t hg h
  | release _ _ => exact chainInv_congr d w _ h rfl rfl rfl
  | rollbackToBad _ => exact chainInv_fail d w t hg h
  | rollbackTo _ => exact chainInv_congr d w _ h rfl rfl rfl
  | refused _ _ _ => exact h
  | exec _ _ _ _ _ he => exact chainInv_exec d hstrict w t m _ _ _ hg hm hok he h
  | execFailed _ w' e _ _ he =>
    obtain ⟨h1, h2, h3⟩ := exec_failed_frame w t _ w' e he
    exact chainInv_fail d w' t (ginv_frame d w w' hg h1 h2 h3) (chainInv_execFailed d hstrict w t m _ w' e hok he h)
  | deadlock _ _ _ _ _ => exact chainInv_fail d w t hg h

theorem chainInv_step (d : Disc) (hstrict : d.strict = true) (w : World) (t : Sid) (hg : GInv d w) (h : ChainInv d w) :
    ChainInv d (step w t) := by
  obtain ⟨m, hm, hsafe⟩ := hg.2 t
  rcases step_cases w t with h0 | ⟨sn, wf, h1⟩ | ⟨st, k, o, w1, hp, h2, htr⟩
  · rw [h0]; exact h
  · rw [h1]; exact chainInv_congr d w _ h rfl rfl rfl
  · rw [h2]
    rw [hp] at hsafe
    exact chainInv_congr d w1 _ (chainInv_trans d hstrict w t st o w1 m hg hm hsafe.1 htr h) rfl rfl rfl

theorem chainInv_run (d : Disc) (hstrict : d.strict = true) (σ : Schedule) (w : World) (hg : GInv d w) (h : ChainInv d w) :
    GInv d (run σ w) ∧ ChainInv d (run σ w) := by
  induction σ generalizing w with
  | nil => exact ⟨hg, h⟩
  | cons s σ ih => exact ih (step w s) (ginv_step d w s hg) (chainInv_step d hstrict w s hg h)

end Ledger.Sched


namespace Ledger.Sched

theorem chain_prev_ge (q : Nat) (l : List Lg) (hc : ChainedFrom q l) (hi : l.Pairwise (fun a b => a.id < b.id))
    (hq : ∀ e ∈ l, q < e.id) : ∀ b ∈ l, q ≤ b.prev := by
  induction l generalizing q with
  | nil => intro b hb; cases hb
  | cons a r ih =>
    rw [List.pairwise_cons] at hi
    obtain ⟨ha, hr⟩ := hc
    intro b hb
    cases hb with
    | head => rw [ha]; exact Nat.le_refl _
    | tail _ hm =>
      have := ih a.id hr hi.2 (fun e he => hi.1 e he) b hm
      exact Nat.le_trans (Nat.le_of_lt (hq a (List.mem_cons_self ..))) this

/-- in a chain with increasing ids above the start no two rows have the same predecessor -/
theorem prevs_increasing (p : Nat) (l : List Lg) (hc : ChainedFrom p l) (hi : l.Pairwise (fun a b => a.id < b.id))
    (hp : ∀ e ∈ l, p < e.id) : l.Pairwise (fun a b => a.prev < b.prev) := by
  induction l generalizing p with
  | nil => exact List.Pairwise.nil
  | cons a r ih =>
    have hi' := hi
    rw [List.pairwise_cons] at hi' ⊢
    obtain ⟨ha, hr⟩ := hc
    refine ⟨?_, ih a.id hr hi'.2 (fun e he => hi'.1 e he)⟩
    intro b hb
    have := chain_prev_ge a.id r hr hi'.2 (fun e he => hi'.1 e he) b hb
    rw [ha]
    exact Nat.lt_of_lt_of_le (hp a (List.mem_cons_self ..)) this

end Ledger.Sched
