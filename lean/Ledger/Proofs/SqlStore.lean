import Ledger.Proofs.SqlMonad

/-!
# Specifications of LeanPG's table operations

`St.withTable s t` is the state `s` after table `t` has been written back.
`getTable`, `putTable`, `insertVersion`, `updateVersion`, `lockVersion` are
specified as `M.exec` equations over such states.
-/
namespace Ledger.Sql

theorem find?_setTable (ts : List Table) (t' : Table) (t : Table)
    (h : ts.find? (·.name == t'.name) = some t) :
    (ts.map (fun x => if x.name == t'.name then t' else x)).find? (·.name == t'.name) = some t' := by
  induction ts with
  | nil => simp at h
  | cons x xs ih =>
    rw [List.find?_cons] at h
    rw [List.map_cons, List.find?_cons]
    cases hx : (x.name == t'.name) with
    | true =>
      have : (t'.name == t'.name) = true := by simp
      simp only [if_true, this]
    | false =>
      rw [hx] at h
      have e : (if false = true then t' else x) = x := by simp
      simp only [e, hx]
      exact ih h

theorem table?_setTable (w : World) (t t' : Table) (h : w.table? t'.name = some t) :
    (w.setTable t').table? t'.name = some t' := by
  unfold World.table? World.setTable at *
  exact find?_setTable _ _ _ h

/-- writing a table back leaves every other table alone -/
theorem table?_setTable_ne (w : World) (t' : Table) (name : String) (h : name ≠ t'.name) :
    (w.setTable t').table? name = w.table? name := by
  unfold World.table? World.setTable
  induction w.tables with
  | nil => rfl
  | cons x xs ih =>
    simp only [List.map_cons, List.find?_cons]
    cases hx : (x.name == t'.name) with
    | true =>
      have e : x.name = t'.name := by simpa using hx
      have h1 : (t'.name == name) = false := by simpa using fun e' => h e'.symm
      have h2 : (x.name == name) = false := by rw [e]; exact h1
      simp only [if_true, h1, h2]
      exact ih
    | false =>
      have e : (if false = true then t' else x) = x := by simp
      simp only [e]
      cases x.name == name
      · exact ih
      · rfl

theorem setTable_setTable (w : World) (t1 t2 : Table) (h : t1.name = t2.name) :
    (w.setTable t1).setTable t2 = w.setTable t2 := by
  unfold World.setTable
  simp only [List.map_map]
  congr 1
  apply List.map_congr_left
  intro x _
  simp only [Function.comp]
  cases hx : (x.name == t1.name) with
  | true =>
    have : (x.name == t2.name) = true := by rw [← h]; exact hx
    simp [this, h]
  | false =>
    have : (x.name == t2.name) = false := by rw [← h]; exact hx
    simp [this]

/-- the state after writing table `t` back -/
def St.withTable (s : St) (t : Table) : St := { s with w := s.w.setTable t }

@[simp] theorem withTable_xid (s : St) (t : Table) : (s.withTable t).xid = s.xid := rfl
@[simp] theorem withTable_cid (s : St) (t : Table) : (s.withTable t).cid = s.cid := rfl
@[simp] theorem withTable_sid (s : St) (t : Table) : (s.withTable t).sid = s.sid := rfl
@[simp] theorem withTable_afterQ (s : St) (t : Table) : (s.withTable t).afterQ = s.afterQ := rfl
@[simp] theorem withTable_searchPath (s : St) (t : Table) : (s.withTable t).searchPath = s.searchPath := rfl
@[simp] theorem withTable_active (s : St) (t : Table) : (s.withTable t).w.active = s.w.active := rfl
@[simp] theorem withTable_nextXid (s : St) (t : Table) : (s.withTable t).w.nextXid = s.w.nextXid := rfl
@[simp] theorem withTable_types (s : St) (t : Table) : (s.withTable t).w.types = s.w.types := rfl
@[simp] theorem withTable_latestView (s : St) (t : Table) (x : Nat) :
    latestView (s.withTable t).w x = latestView s.w x := rfl

theorem withTable_table? (s : St) (t t' : Table) (h : s.w.table? t'.name = some t) :
    (s.withTable t').w.table? t'.name = some t' := table?_setTable _ _ _ h

theorem withTable_withTable (s : St) (t1 t2 : Table) (h : t1.name = t2.name) :
    (s.withTable t1).withTable t2 = s.withTable t2 := by
  unfold St.withTable
  simp only [setTable_setTable _ _ _ h]

theorem map_setTable_self (ts : List Table) (t : Table) (h : ts.find? (·.name == t.name) = some t)
    (hu : (ts.map (·.name)).Nodup) : ts.map (fun x => if x.name == t.name then t else x) = ts := by
  induction ts with
  | nil => rfl
  | cons x xs ih =>
    rw [List.find?_cons] at h
    simp only [List.map_cons, List.nodup_cons] at hu ⊢
    cases hx : (x.name == t.name) with
    | true =>
      rw [hx] at h
      cases h
      -- no other table has this name
      have : xs.map (fun y => if y.name == t.name then t else y) = xs := by
        conv => rhs; rw [← List.map_id xs]
        apply List.map_congr_left
        intro y hy
        have : (y.name == t.name) = false := by
          cases hyn : (y.name == t.name) with
          | false => rfl
          | true =>
            exfalso
            have e : y.name = t.name := by simpa using hyn
            exact hu.1 (by rw [← e]; exact List.mem_map_of_mem hy)
        simp [this]
      rw [this]
      simp
    | false =>
      rw [hx] at h
      simp only [Bool.false_eq_true, if_false]
      rw [ih h hu.2]

theorem withTable_self (s : St) (t : Table) (h : s.w.table? t.name = some t) (hu : (s.w.tables.map (·.name)).Nodup) :
    s.withTable t = s := by
  unfold St.withTable World.setTable
  unfold World.table? at h
  rw [map_setTable_self _ _ h hu]

theorem names_setTable (w : World) (t : Table) : (w.setTable t).tables.map (·.name) = w.tables.map (·.name) := by
  unfold World.setTable
  simp only [List.map_map]
  apply List.map_congr_left
  intro x _
  simp only [Function.comp]
  cases h : (x.name == t.name) with
  | true => simp [h]; exact (by simpa using h : x.name = t.name).symm
  | false => simp [h]

theorem exec_getTable {s : St} {full : String} {t : Table} (h : s.w.table? full = some t) :
    (getTable full).exec s = (.ok t, s) := by
  simp [getTable, exec_bind, h]

theorem exec_putTable (s : St) (t : Table) : (putTable t).exec s = (.ok (), s.withTable t) := rfl

theorem exec_insertVersion {s : St} {full : String} {t : Table} (h : s.w.table? full = some t)
    (vals : List Value) :
    (insertVersion full vals).exec s =
      (.ok t.nextRid, s.withTable { t with rows := { rid := t.nextRid, xmin := s.xid, cmin := s.cid, vals := vals } :: t.rows,
                                           nextRid := t.nextRid + 1 }) := by
  simp [insertVersion, exec_bind, exec_getTable h, exec_putTable]

/-- `updateVersion`: the visible versions of `rid` are closed, a new one is prepended -/
def closeRow (lv : View) (xid cid rid : Nat) (r : Ver) : Ver :=
  if r.rid == rid && r.visible lv then { r with xmax := xid, cmax := cid } else r

def lockRow (lv : View) (xid cid rid : Nat) (r : Ver) : Ver :=
  if r.rid == rid && r.visible lv && r.locker == 0 then { r with locker := xid, lockCid := cid } else r

theorem exec_updateVersion {s : St} {full : String} {t : Table} (h : s.w.table? full = some t)
    (rid : Nat) (vals : List Value) :
    (updateVersion full rid vals).exec s =
      (.ok (), s.withTable { t with rows := { rid := rid, xmin := s.xid, cmin := s.cid, vals := vals } ::
                                      t.rows.map (closeRow (latestView s.w s.xid) s.xid s.cid rid) }) := by
  simp only [updateVersion, exec_bind, exec_get, exec_getTable h, exec_putTable]
  rfl

theorem exec_lockVersion {s : St} {full : String} {t : Table} (h : s.w.table? full = some t) (rid : Nat) :
    (lockVersion full rid).exec s =
      (.ok (), s.withTable { t with rows := t.rows.map (lockRow (latestView s.w s.xid) s.xid s.cid rid) }) := by
  simp only [lockVersion, exec_bind, exec_get, exec_getTable h, exec_putTable]
  rfl

/-- with no other transaction in progress nobody else holds a row -/
theorem exec_heldByOther_solo (s : St) (hsolo : ∀ x ∈ s.w.active, x = s.xid) (r : Ver) :
    (heldByOther r).exec s = (.ok none, s) := by
  have h : ∀ x, ¬((¬x = 0 ∧ ¬x = s.xid) ∧ x ∈ s.w.active) := by
    intro x ⟨⟨_, h2⟩, h3⟩
    exact h2 (hsolo x h3)
  simp [heldByOther, exec_bind, h]

@[simp] theorem lockRow_visible (lv lv' : View) (xid cid rid : Nat) (r : Ver) :
    (lockRow lv xid cid rid r).visible lv' = r.visible lv' := by
  unfold lockRow; split <;> rfl

@[simp] theorem lockRow_rid (lv : View) (xid cid rid : Nat) (r : Ver) : (lockRow lv xid cid rid r).rid = r.rid := by
  unfold lockRow; split <;> rfl

@[simp] theorem lockRow_vals (lv : View) (xid cid rid : Nat) (r : Ver) : (lockRow lv xid cid rid r).vals = r.vals := by
  unfold lockRow; split <;> rfl

@[simp] theorem lockRow_xmin (lv : View) (xid cid rid : Nat) (r : Ver) : (lockRow lv xid cid rid r).xmin = r.xmin := by
  unfold lockRow; split <;> rfl

@[simp] theorem lockRow_cmin (lv : View) (xid cid rid : Nat) (r : Ver) : (lockRow lv xid cid rid r).cmin = r.cmin := by
  unfold lockRow; split <;> rfl

@[simp] theorem closeRow_rid (lv : View) (xid cid rid : Nat) (r : Ver) : (closeRow lv xid cid rid r).rid = r.rid := by
  unfold closeRow; split <;> rfl

@[simp] theorem closeRow_vals (lv : View) (xid cid rid : Nat) (r : Ver) : (closeRow lv xid cid rid r).vals = r.vals := by
  unfold closeRow; split <;> rfl

@[simp] theorem closeRow_xmin (lv : View) (xid cid rid : Nat) (r : Ver) : (closeRow lv xid cid rid r).xmin = r.xmin := by
  unfold closeRow; split <;> rfl

@[simp] theorem closeRow_cmin (lv : View) (xid cid rid : Nat) (r : Ver) : (closeRow lv xid cid rid r).cmin = r.cmin := by
  unfold closeRow; split <;> rfl

/-- a version closed by the running transaction at a command id below the horizon of
    `latestView` is no longer visible to it -/
theorem closeRow_visible (w : World) (xid cid rid : Nat) (r : Ver) (hx : xid ≠ 0) (hc : cid < 1000000000) :
    (closeRow (latestView w xid) xid cid rid r).visible (latestView w xid) =
      (r.visible (latestView w xid) && !(r.rid == rid)) := by
  unfold closeRow
  cases hr : (r.rid == rid) <;> cases hv : r.visible (latestView w xid) <;> simp [hv]
  · simp [Ver.visible, xidVisible, latestView, hx, hc]

end Ledger.Sql
