import Ledger.Proofs.SqlMonad
import Ledger.Proofs.SqlValues
import Ledger.Generated.Schema
import Ledger.Spec.Store

/-!
# The trigger functions of `moves`, expression by expression

`set_effective_volumes` (BEFORE INSERT) and `update_effective_volumes` (AFTER INSERT) of
`Ledger.Generated.Schema`, taken apart: for ANY scanned / target row and ANY NEW row (rows of the
shape `mvVals`, i.e. well-typed rows of `moves`), LeanPG's expression evaluator gives their WHERE
clauses, select item / SET expression and default the meaning `Ledger.Spec.setEffective` /
`updateEffective` assume (`MoveRow.before`, `MoveRow.delta`, `Volumes.add`). The ORDER BY … LIMIT 1
of the query is fixed syntactically. What is NOT proved here: that LeanPG's SELECT / UPDATE loops
apply these expressions to every row and pick the first row in that order (bounded runs in
`Ledger/Props/C04b.lean`).
-/

open Ledger Ledger.Sql Ledger.Generated Ledger.Core

namespace Ledger.Sql

/-- a row of `moves` (column order of `Schema.tbl_moves`) holding a Spec move of ledger `l` -/
def mvValsX (l : String) (m : Spec.MoveRow) (x : Value) : List Value :=
  [.int m.seq, .text l, .text m.account, .text m.asset, .int m.amount, .ts m.insertionDate, .ts m.effectiveDate,
   .row ["inputs", "outputs"] [.int m.pcv.input, .int m.pcv.output],
   x,
   .bool m.isSource, .int m.txId]

/-- the composite value of a `volumes` column -/
def volVal (v : Volumes) : Value := .row ["inputs", "outputs"] [.int v.input, .int v.output]

def mvVals (l : String) (m : Spec.MoveRow) : List Value := mvValsX l m (volVal m.pcev)

def mvCols : List String := Schema.tbl_moves.cols.map (·.name)

/-- the environment in which a row trigger on `moves` evaluates a query over `moves`: the scanned row,
    then the PL variables (`found`), then NEW (values `nv`) -/
def trigEnvV (lm : String) (m : Spec.MoveRow) (nv : List Value) (found : Bool) (rest : List Scope)
    (src : Option (String × Nat) := none) : Env :=
  { locals := [{ alias := "moves", cols := mvCols, vals := mvVals lm m, src := src }],
    outer := [{ alias := "", cols := ["found"], vals := [.bool found] }, { alias := "new", cols := mvCols, vals := nv }] ++ rest }

def trigEnv (lm : String) (m : Spec.MoveRow) (ln : String) (n : Spec.MoveRow) (found : Bool) (rest : List Scope)
    (src : Option (String × Nat) := none) : Env := trigEnvV lm m (mvVals ln n) found rest src

theorem lastComponent_new : lastComponent "new" = "new" := by decide

/-- an unqualified column of `moves` resolves to the scanned row -/
theorem lookup_moves_colV (lm : String) (m : Spec.MoveRow) (nv : List Value) (found : Bool) (rest : List Scope) (c : String)
    (v : Value) (h : lookupIn mvCols (mvVals lm m) c = some v) (src : Option (String × Nat) := none) :
    lookupColumn (trigEnvV lm m nv found rest src) "" c = .ok v := by
  simp [lookupColumn, Env.scopes, trigEnvV, lookupUnqualified, h]
  rfl

/-- `new.c` resolves to NEW -/
theorem lookup_new_colV (lm : String) (m : Spec.MoveRow) (nv : List Value) (found : Bool) (rest : List Scope) (c : String)
    (v : Value) (h : lookupIn mvCols nv c = some v) (src : Option (String × Nat) := none) :
    lookupColumn (trigEnvV lm m nv found rest src) "new" c = .ok v := by
  have e1 : ("moves" == "new") = false := by decide
  have e2 : ("" == "new") = false := by decide
  simp [lookupColumn, Env.scopes, trigEnvV, findScope, lastComponent_new, h, e1, e2]
  rfl

theorem lookup_moves_col (lm : String) (m : Spec.MoveRow) (ln : String) (n : Spec.MoveRow) (found : Bool) (rest : List Scope) (c : String)
    (v : Value) (h : lookupIn mvCols (mvVals lm m) c = some v) (src : Option (String × Nat) := none) :
    lookupColumn (trigEnv lm m ln n found rest src) "" c = .ok v := lookup_moves_colV lm m _ found rest c v h src

theorem lookup_new_col (lm : String) (m : Spec.MoveRow) (ln : String) (n : Spec.MoveRow) (found : Bool) (rest : List Scope) (c : String)
    (v : Value) (h : lookupIn mvCols (mvVals ln n) c = some v) (src : Option (String × Nat) := none) :
    lookupColumn (trigEnv lm m ln n found rest src) "new" c = .ok v := lookup_new_colV lm m _ found rest c v h src

/-- the environment of the PL body of a row trigger on `moves`: the PL variables, then NEW -/
def plEnvV (nv : List Value) (found : Bool) (rest : List Scope) : Env :=
  { locals := [],
    outer := [{ alias := "", cols := ["found"], vals := [.bool found] }, { alias := "new", cols := mvCols, vals := nv }] ++ rest }

def plEnv (ln : String) (n : Spec.MoveRow) (found : Bool) (rest : List Scope) : Env := plEnvV (mvVals ln n) found rest

theorem lookup_new_col_plV (nv : List Value) (found : Bool) (rest : List Scope) (c : String)
    (v : Value) (h : lookupIn mvCols nv c = some v) :
    lookupColumn (plEnvV nv found rest) "new" c = .ok v := by
  have e2 : ("" == "new") = false := by decide
  simp [lookupColumn, Env.scopes, plEnvV, findScope, lastComponent_new, h, e2]
  rfl

/-- `set_effective_volumes`, expression by expression (`setEffective_all` below), for ANY scanned row `m` (of ledger `lm`) and ANY
    NEW row `n` (of ledger `ln`):
    * the query is `SELECT item FROM moves WHERE wher ORDER BY effective_date DESC, seq DESC LIMIT 1`,
      wrapped in `coalesce(…, dflt)` and assigned to `new.post_commit_effective_volumes`;
    * `wher` holds iff `m` has NEW's account, asset and ledger and is strictly before NEW in
      (effective_date, seq) order — `Spec.MoveRow.before`;
    * `item` is `m`'s effective volumes plus NEW's delta; `dflt` is NEW's delta.

    the assignment of `set_effective_volumes` is `new.post_commit_effective_volumes := coalesce((select item from moves where wher
    order by effective_date desc, seq desc limit 1), dflt)` -/
def setEffBody (item wher dflt_ : Expr) : List PlStmt :=
  [PlStmt.assign (PlTarget.field "new" "post_commit_effective_volumes")
    (Expr.call "" "coalesce" [Expr.subq (Query.mk [] (SetExpr.select (Select.mk false [] [SelItem.expr item ""] [FromItem.table "" "moves" ""] (some wher) [] none))
        [OrderItem.mk (Expr.col "" "effective_date") true NullsOrder.dflt, OrderItem.mk (Expr.col "" "seq") true NullsOrder.dflt]
        (some (Expr.int 1)) none LockMode.none), dflt_]),
   PlStmt.ret (some (Expr.col "" "new"))]

/-- what `wher`, `item` and `dflt` of `set_effective_volumes` mean, on ANY scanned row and ANY NEW row (whatever its
    `post_commit_effective_volumes`, which is what the trigger computes) -/
structure SetEffSem (item wher dflt_ : Expr) : Prop where
  hwher : ∀ (cb : Callbacks) (te : TypeEnv) (lm ln : String) (m n : Spec.MoveRow) (x : Value) (found : Bool) (rest : List Scope)
    (src : Option (String × Nat)) (s : St),
    (evalExpr cb te (trigEnvV lm m (mvValsX ln n x) found rest src) wher).exec s =
      (.ok (.bool (decide (m.account = n.account ∧ m.asset = n.asset ∧ lm = ln) && m.before n)), s)
  hitem : ∀ (cb : Callbacks) (te : TypeEnv) (lm ln : String) (m n : Spec.MoveRow) (x : Value) (found : Bool) (rest : List Scope)
    (src : Option (String × Nat)) (s : St),
    (evalExpr cb te (trigEnvV lm m (mvValsX ln n x) found rest src) item).exec s =
      (.ok (.row [] [.int (m.pcev.add n.delta).input, .int (m.pcev.add n.delta).output]), s)
  hdflt : ∀ (cb : Callbacks) (te : TypeEnv) (ln : String) (n : Spec.MoveRow) (x : Value) (found : Bool) (rest : List Scope) (s : St),
    (evalExpr cb te (plEnvV (mvValsX ln n x) found rest) dflt_).exec s =
      (.ok (.row [] [.int n.delta.input, .int n.delta.output]), s)
  hitemAgg : item.hasAgg = false
  hitemWin : Expr.winsList [item] = []
  /-- the output column of the query is named `row` (so `effective_date`, `seq` in ORDER BY are columns of `moves`) -/
  hnameE : exprOutName item = "row"

theorem setEffective_all : ∃ (item wher dflt_ : Expr),
    Schema.fn_set_effective_volumes.body = setEffBody item wher dflt_ ∧ SetEffSem item wher dflt_ := by
  refine ⟨_, _, _, rfl, ⟨?_, ?_, ?_, by decide, by decide, by decide⟩⟩
  · intro cb te lm ln m n x found rest src s
    have c1 := lookup_moves_colV lm m (mvValsX ln n x) found rest "accounts_address" (.text m.account) rfl src
    have c2 := lookup_moves_colV lm m (mvValsX ln n x) found rest "asset" (.text m.asset) rfl src
    have c3 := lookup_moves_colV lm m (mvValsX ln n x) found rest "ledger" (.text lm) rfl src
    have c4 := lookup_moves_colV lm m (mvValsX ln n x) found rest "effective_date" (.ts m.effectiveDate) rfl src
    have c5 := lookup_moves_colV lm m (mvValsX ln n x) found rest "seq" (.int m.seq) rfl src
    have n1 := lookup_new_colV lm m (mvValsX ln n x) found rest "accounts_address" (.text n.account) rfl src
    have n2 := lookup_new_colV lm m (mvValsX ln n x) found rest "asset" (.text n.asset) rfl src
    have n3 := lookup_new_colV lm m (mvValsX ln n x) found rest "ledger" (.text ln) rfl src
    have n4 := lookup_new_colV lm m (mvValsX ln n x) found rest "effective_date" (.ts n.effectiveDate) rfl src
    have n5 := lookup_new_colV lm m (mvValsX ln n x) found rest "seq" (.int n.seq) rfl src
    simp only [evalExpr, exec_bind, c1, c2, c3, c4, c5, n1, n2, n3, n4, n5, exec_liftR_ok, evalBinop_eq_text, truth_bool, Spec.MoveRow.before]
    by_cases h1 : m.account = n.account <;> by_cases h2 : m.asset = n.asset <;> by_cases h3 : lm = ln <;>
      by_cases h4 : m.effectiveDate < n.effectiveDate <;> by_cases h5 : m.effectiveDate = n.effectiveDate <;>
      by_cases h6 : m.seq < n.seq <;>
      simp [h1, h2, h3, h4, h5, h6, ofTruth, and3, or3, truth_bool, exec_bind, evalBinop_eq_text, evalBinop_eq_ts,
        evalBinop_lt_ts, evalBinop_lt_int]
  · intro cb te lm ln m n x found rest src s
    have c6 := lookup_moves_colV lm m (mvValsX ln n x) found rest "post_commit_effective_volumes" (.row ["inputs", "outputs"] [.int m.pcev.input, .int m.pcev.output]) rfl src
    have n6 := lookup_new_colV lm m (mvValsX ln n x) found rest "is_source" (.bool n.isSource) rfl src
    have n7 := lookup_new_colV lm m (mvValsX ln n x) found rest "amount" (.int n.amount) rfl src
    simp only [evalExpr, evalExprs, exec_bind, c6, n6, n7, exec_liftR_ok, truth_bool, rowField, lookupIn]
    cases hsrc : n.isSource <;>
      simp [exec_bind, evalBinop_add_int, Spec.MoveRow.delta, Volumes.add, hsrc, truth_bool, lookupIn, rowField, n7]
  · intro cb te ln n x found rest s
    have n6 := lookup_new_col_plV (mvValsX ln n x) found rest "is_source" (.bool n.isSource) rfl
    have n7 := lookup_new_col_plV (mvValsX ln n x) found rest "amount" (.int n.amount) rfl
    simp only [evalExpr, evalExprs, exec_bind, n6, n7, exec_liftR_ok, truth_bool]
    cases hsrc : n.isSource <;> simp [exec_bind, Spec.MoveRow.delta, hsrc, truth_bool, n7]

theorem setEffective_exprsX (cb : Callbacks) (te : TypeEnv) (lm ln : String) (m n : Spec.MoveRow) (x : Value) (found : Bool) (rest : List Scope)
    (src : Option (String × Nat)) (s : St) :
    ∃ (item wher dflt_ : Expr),
      Schema.fn_set_effective_volumes.body = setEffBody item wher dflt_ ∧
      (evalExpr cb te (trigEnvV lm m (mvValsX ln n x) found rest src) wher).exec s =
        (.ok (.bool (decide (m.account = n.account ∧ m.asset = n.asset ∧ lm = ln) && m.before n)), s) ∧
      (evalExpr cb te (trigEnvV lm m (mvValsX ln n x) found rest src) item).exec s =
        (.ok (.row [] [.int (m.pcev.add n.delta).input, .int (m.pcev.add n.delta).output]), s) ∧
      (evalExpr cb te (plEnvV (mvValsX ln n x) found rest) dflt_).exec s =
        (.ok (.row [] [.int n.delta.input, .int n.delta.output]), s) := by
  obtain ⟨item, wher, dflt_, hb, h⟩ := setEffective_all
  exact ⟨item, wher, dflt_, hb, h.hwher .., h.hitem .., h.hdflt ..⟩

theorem setEffective_exprs (cb : Callbacks) (te : TypeEnv) (lm ln : String) (m n : Spec.MoveRow) (found : Bool) (rest : List Scope) (s : St) :
    ∃ (item wher dflt_ : Expr),
      Schema.fn_set_effective_volumes.body =
        [PlStmt.assign (PlTarget.field "new" "post_commit_effective_volumes")
          (Expr.call "" "coalesce" [Expr.subq (Query.mk [] (SetExpr.select (Select.mk false [] [SelItem.expr item ""] [FromItem.table "" "moves" ""] (some wher) [] none))
              [OrderItem.mk (Expr.col "" "effective_date") true NullsOrder.dflt, OrderItem.mk (Expr.col "" "seq") true NullsOrder.dflt]
              (some (Expr.int 1)) none LockMode.none), dflt_]),
         PlStmt.ret (some (Expr.col "" "new"))] ∧
      (evalExpr cb te (trigEnv lm m ln n found rest) wher).exec s =
        (.ok (.bool (decide (m.account = n.account ∧ m.asset = n.asset ∧ lm = ln) && m.before n)), s) ∧
      (evalExpr cb te (trigEnv lm m ln n found rest) item).exec s =
        (.ok (.row [] [.int (m.pcev.add n.delta).input, .int (m.pcev.add n.delta).output]), s) ∧
      (evalExpr cb te (plEnv ln n found rest) dflt_).exec s =
        (.ok (.row [] [.int n.delta.input, .int n.delta.output]), s) :=
  setEffective_exprsX cb te lm ln m n _ found rest none s

/-- `update_effective_volumes`, expression by expression, for ANY target row `m` and ANY NEW row `n`:
    the body is `UPDATE moves SET post_commit_effective_volumes = setE WHERE wher` (no FROM, no
    RETURNING) followed by `RETURN new`; `wher` holds iff `m` has NEW's account, asset and ledger and a
    STRICTLY LATER effective date; `setE` is `m`'s effective volumes plus NEW's delta (`updateEffective_all` below).

    the body of `update_effective_volumes` -/
def updEffBody (setE wher : Expr) : List PlStmt :=
  [PlStmt.exec (Stmt.update [] "" "moves" "" [SetItem.mk "post_commit_effective_volumes" setE] [] (some wher) []) [],
   PlStmt.ret (some (Expr.col "" "new"))]

/-- what `wher` and `setE` of `update_effective_volumes` mean, on ANY target row and ANY NEW row -/
structure UpdEffSem (setE wher : Expr) : Prop where
  hwher : ∀ (cb : Callbacks) (te : TypeEnv) (lm ln : String) (m n : Spec.MoveRow) (found : Bool) (rest : List Scope)
    (src : Option (String × Nat)) (s : St),
    (evalExpr cb te (trigEnv lm m ln n found rest src) wher).exec s =
      (.ok (.bool (decide (m.account = n.account ∧ m.asset = n.asset ∧ lm = ln ∧ n.effectiveDate < m.effectiveDate))), s)
  hset : ∀ (cb : Callbacks) (te : TypeEnv) (lm ln : String) (m n : Spec.MoveRow) (found : Bool) (rest : List Scope)
    (src : Option (String × Nat)) (s : St),
    (evalExpr cb te (trigEnv lm m ln n found rest src) setE).exec s =
      (.ok (.row [] [.int (m.pcev.add n.delta).input, .int (m.pcev.add n.delta).output]), s)
  notDflt : setE ≠ Expr.dflt

theorem updateEffective_all : ∃ (setE wher : Expr),
    Schema.fn_update_effective_volumes.body = updEffBody setE wher ∧ UpdEffSem setE wher := by
  refine ⟨_, _, rfl, ⟨?_, ?_, by intro h; cases h⟩⟩
  · intro cb te lm ln m n found rest src s
    have c1 := lookup_moves_col lm m ln n found rest "accounts_address" (.text m.account) rfl src
    have c2 := lookup_moves_col lm m ln n found rest "asset" (.text m.asset) rfl src
    have c3 := lookup_moves_col lm m ln n found rest "ledger" (.text lm) rfl src
    have c4 := lookup_moves_col lm m ln n found rest "effective_date" (.ts m.effectiveDate) rfl src
    have n1 := lookup_new_col lm m ln n found rest "accounts_address" (.text n.account) rfl src
    have n2 := lookup_new_col lm m ln n found rest "asset" (.text n.asset) rfl src
    have n3 := lookup_new_col lm m ln n found rest "ledger" (.text ln) rfl src
    have n4 := lookup_new_col lm m ln n found rest "effective_date" (.ts n.effectiveDate) rfl src
    simp only [evalExpr, exec_bind, c1, c2, c3, c4, n1, n2, n3, n4, exec_liftR_ok, evalBinop_eq_text, truth_bool]
    by_cases h1 : m.account = n.account <;> by_cases h2 : m.asset = n.asset <;> by_cases h3 : lm = ln <;>
      by_cases h4 : n.effectiveDate < m.effectiveDate <;>
      simp [h1, h2, h3, h4, ofTruth, and3, truth_bool, exec_bind, evalBinop_eq_text, evalBinop_gt_ts, evalBinop_lt_ts]
  · intro cb te lm ln m n found rest src s
    have c6 := lookup_moves_col lm m ln n found rest "post_commit_effective_volumes" (.row ["inputs", "outputs"] [.int m.pcev.input, .int m.pcev.output]) rfl src
    have n6 := lookup_new_col lm m ln n found rest "is_source" (.bool n.isSource) rfl src
    have n7 := lookup_new_col lm m ln n found rest "amount" (.int n.amount) rfl src
    simp only [evalExpr, evalExprs, exec_bind, c6, n6, n7, exec_liftR_ok, truth_bool, rowField, lookupIn]
    cases hsrc : n.isSource <;>
      simp [exec_bind, evalBinop_add_int, Spec.MoveRow.delta, Volumes.add, hsrc, truth_bool, lookupIn, rowField, n7]

theorem updateEffective_exprs (cb : Callbacks) (te : TypeEnv) (lm ln : String) (m n : Spec.MoveRow) (found : Bool) (rest : List Scope)
    (src : Option (String × Nat)) (s : St) :
    ∃ (setE wher : Expr),
      Schema.fn_update_effective_volumes.body =
        [PlStmt.exec (Stmt.update [] "" "moves" "" [SetItem.mk "post_commit_effective_volumes" setE] [] (some wher) []) [],
         PlStmt.ret (some (Expr.col "" "new"))] ∧
      (evalExpr cb te (trigEnv lm m ln n found rest src) wher).exec s =
        (.ok (.bool (decide (m.account = n.account ∧ m.asset = n.asset ∧ lm = ln ∧ n.effectiveDate < m.effectiveDate))), s) ∧
      (evalExpr cb te (trigEnv lm m ln n found rest src) setE).exec s =
        (.ok (.row [] [.int (m.pcev.add n.delta).input, .int (m.pcev.add n.delta).output]), s) := by
  obtain ⟨setE, wher, hb, h⟩ := updateEffective_all
  exact ⟨setE, wher, hb, h.hwher .., h.hset ..⟩

end Ledger.Sql
