import Ledger.Proofs.SqlMonad
import Ledger.Generated.Schema
import Ledger.Spec.Store

/-!
# The trigger functions of `moves`, expression by expression

`set_effective_volumes` (BEFORE INSERT) and `update_effective_volumes` (AFTER INSERT) of
`Ledger.Generated.Schema`, taken apart: for ANY scanned / target row and ANY NEW row (rows of the
shape `mvVals`, i.e. well-typed rows of `moves`), LeanPG's expression evaluator gives their WHERE
clauses, select item / SET expression and default the meaning `Ledger.Spec.setEffective` /
`updateEffective` assume (`MoveRow.before`, `MoveRow.delta`, `Volumes.add`). The ORDER BY … LIMIT 1
of the query is fixed syntactically. What is NOT proved here: that LeanPG's SELECT / UPDATE loops
apply these expressions to every row and pick the first row in that order (bounded runs in
`Ledger/Props/C04b.lean`).
-/

open Ledger Ledger.Sql Ledger.Generated Ledger.Core

namespace Ledger.Sql

/-- a row of `moves` (column order of `Schema.tbl_moves`) holding a Spec move of ledger `l` -/
def mvVals (l : String) (m : Spec.MoveRow) : List Value :=
  [.int m.seq, .text l, .text m.account, .text m.asset, .int m.amount, .ts m.insertionDate, .ts m.effectiveDate,
   .row ["inputs", "outputs"] [.int m.pcv.input, .int m.pcv.output],
   .row ["inputs", "outputs"] [.int m.pcev.input, .int m.pcev.output],
   .bool m.isSource, .int m.txId]

def mvCols : List String := Schema.tbl_moves.cols.map (·.name)

/-- the environment in which a row trigger on `moves` evaluates a query over `moves`: the scanned row,
    then the PL variables (`found`), then NEW -/
def trigEnv (lm : String) (m : Spec.MoveRow) (ln : String) (n : Spec.MoveRow) (found : Bool) (rest : List Scope)
    (src : Option (String × Nat) := none) : Env :=
  { locals := [{ alias := "moves", cols := mvCols, vals := mvVals lm m, src := src }],
    outer := [{ alias := "", cols := ["found"], vals := [.bool found] }, { alias := "new", cols := mvCols, vals := mvVals ln n }] ++ rest }

theorem cmpInt_lt (x y : Int) : (cmpInt x y == Ordering.lt) = decide (x < y) := by
  unfold cmpInt
  by_cases h : x < y
  · simp [h]
  · by_cases e : x = y <;> simp [h, e]

theorem cmpInt_eq (x y : Int) : (cmpInt x y == Ordering.eq) = decide (x = y) := by
  unfold cmpInt
  by_cases h : x < y
  · have : x ≠ y := by omega
    simp [h, this]
  · by_cases e : x = y <;> simp [h, e]

theorem cmpInt_gt (x y : Int) : (cmpInt x y == Ordering.gt) = decide (y < x) := by
  unfold cmpInt
  by_cases h : x < y
  · have : ¬ y < x := by omega
    simp [h, this]
  · by_cases e : x = y
    · subst e; simp
    · have : y < x := by omega
      simp [h, e, this]

theorem cmpStr_eq' (x y : String) : (cmpStr x y == Ordering.eq) = decide (x = y) := by
  unfold cmpStr
  by_cases h : x < y
  · have : x ≠ y := by intro e; subst e; exact String.lt_irrefl _ h
    simp [h, this]
  · by_cases e : x = y <;> simp [h, e]

theorem evalBinop_eq_text (a b : String) : evalBinop .eq (.text a) (.text b) = .ok (.bool (decide (a = b))) := by
  simp [evalBinop, compareValues, compareScalar, ofTruth, cmpStr_eq']
  rfl
theorem evalBinop_eq_ts (a b : Int) : evalBinop .eq (.ts a) (.ts b) = .ok (.bool (decide (a = b))) := by
  simp [evalBinop, compareValues, compareScalar, ofTruth, cmpInt_eq]
  rfl
theorem evalBinop_lt_ts (a b : Int) : evalBinop .lt (.ts a) (.ts b) = .ok (.bool (decide (a < b))) := by
  simp [evalBinop, compareValues, compareScalar, ofTruth, cmpInt_lt]
  rfl
theorem evalBinop_gt_ts (a b : Int) : evalBinop .gt (.ts a) (.ts b) = .ok (.bool (decide (b < a))) := by
  simp [evalBinop, compareValues, compareScalar, ofTruth, cmpInt_gt]
  rfl
theorem evalBinop_lt_int (a b : Int) : evalBinop .lt (.int a) (.int b) = .ok (.bool (decide (a < b))) := by
  simp [evalBinop, compareValues, compareScalar, ofTruth, cmpInt_lt]
  rfl
theorem evalBinop_eq_int (a b : Int) : evalBinop .eq (.int a) (.int b) = .ok (.bool (decide (a = b))) := by
  simp [evalBinop, compareValues, compareScalar, ofTruth, cmpInt_eq]
  rfl
theorem truth_bool (b : Bool) : (Value.bool b).truth = .ok (some b) := rfl

theorem lastComponent_new : lastComponent "new" = "new" := by decide

/-- an unqualified column of `moves` resolves to the scanned row -/
theorem lookup_moves_col (lm : String) (m : Spec.MoveRow) (ln : String) (n : Spec.MoveRow) (found : Bool) (rest : List Scope) (c : String)
    (v : Value) (h : lookupIn mvCols (mvVals lm m) c = some v) (src : Option (String × Nat) := none) :
    lookupColumn (trigEnv lm m ln n found rest src) "" c = .ok v := by
  simp [lookupColumn, Env.scopes, trigEnv, lookupUnqualified, h]
  rfl

/-- `new.c` resolves to NEW -/
theorem lookup_new_col (lm : String) (m : Spec.MoveRow) (ln : String) (n : Spec.MoveRow) (found : Bool) (rest : List Scope) (c : String)
    (v : Value) (h : lookupIn mvCols (mvVals ln n) c = some v) (src : Option (String × Nat) := none) :
    lookupColumn (trigEnv lm m ln n found rest src) "new" c = .ok v := by
  have e1 : ("moves" == "new") = false := by decide
  have e2 : ("" == "new") = false := by decide
  simp [lookupColumn, Env.scopes, trigEnv, findScope, lastComponent_new, h, e1, e2]
  rfl

/-- the environment of the PL body of a row trigger on `moves`: the PL variables, then NEW -/
def plEnv (ln : String) (n : Spec.MoveRow) (found : Bool) (rest : List Scope) : Env :=
  { locals := [],
    outer := [{ alias := "", cols := ["found"], vals := [.bool found] }, { alias := "new", cols := mvCols, vals := mvVals ln n }] ++ rest }

theorem lookup_new_col_pl (ln : String) (n : Spec.MoveRow) (found : Bool) (rest : List Scope) (c : String)
    (v : Value) (h : lookupIn mvCols (mvVals ln n) c = some v) :
    lookupColumn (plEnv ln n found rest) "new" c = .ok v := by
  have e2 : ("" == "new") = false := by decide
  simp [lookupColumn, Env.scopes, plEnv, findScope, lastComponent_new, h, e2]
  rfl

theorem evalBinop_add_int (a b : Int) : evalBinop .add (.int a) (.int b) = .ok (.int (a + b)) := by
  simp [evalBinop, Value.isNull]
  rfl

/-- `set_effective_volumes`, expression by expression, for ANY scanned row `m` (of ledger `lm`) and ANY
    NEW row `n` (of ledger `ln`):
    * the query is `SELECT item FROM moves WHERE wher ORDER BY effective_date DESC, seq DESC LIMIT 1`,
      wrapped in `coalesce(…, dflt)` and assigned to `new.post_commit_effective_volumes`;
    * `wher` holds iff `m` has NEW's account, asset and ledger and is strictly before NEW in
      (effective_date, seq) order — `Spec.MoveRow.before`;
    * `item` is `m`'s effective volumes plus NEW's delta; `dflt` is NEW's delta. -/
theorem setEffective_exprs (cb : Callbacks) (te : TypeEnv) (lm ln : String) (m n : Spec.MoveRow) (found : Bool) (rest : List Scope) (s : St) :
    ∃ (item wher dflt_ : Expr),
      Schema.fn_set_effective_volumes.body =
        [PlStmt.assign (PlTarget.field "new" "post_commit_effective_volumes")
          (Expr.call "" "coalesce" [Expr.subq (Query.mk [] (SetExpr.select (Select.mk false [] [SelItem.expr item ""] [FromItem.table "" "moves" ""] (some wher) [] none))
              [OrderItem.mk (Expr.col "" "effective_date") true NullsOrder.dflt, OrderItem.mk (Expr.col "" "seq") true NullsOrder.dflt]
              (some (Expr.int 1)) none LockMode.none), dflt_]),
         PlStmt.ret (some (Expr.col "" "new"))] ∧
      (evalExpr cb te (trigEnv lm m ln n found rest) wher).exec s =
        (.ok (.bool (decide (m.account = n.account ∧ m.asset = n.asset ∧ lm = ln) && m.before n)), s) ∧
      (evalExpr cb te (trigEnv lm m ln n found rest) item).exec s =
        (.ok (.row [] [.int (m.pcev.add n.delta).input, .int (m.pcev.add n.delta).output]), s) ∧
      (evalExpr cb te (plEnv ln n found rest) dflt_).exec s =
        (.ok (.row [] [.int n.delta.input, .int n.delta.output]), s) := by
  refine ⟨_, _, _, rfl, ?_, ?_, ?_⟩
  · have c1 := lookup_moves_col lm m ln n found rest "accounts_address" (.text m.account) rfl
    have c2 := lookup_moves_col lm m ln n found rest "asset" (.text m.asset) rfl
    have c3 := lookup_moves_col lm m ln n found rest "ledger" (.text lm) rfl
    have c4 := lookup_moves_col lm m ln n found rest "effective_date" (.ts m.effectiveDate) rfl
    have c5 := lookup_moves_col lm m ln n found rest "seq" (.int m.seq) rfl
    have n1 := lookup_new_col lm m ln n found rest "accounts_address" (.text n.account) rfl
    have n2 := lookup_new_col lm m ln n found rest "asset" (.text n.asset) rfl
    have n3 := lookup_new_col lm m ln n found rest "ledger" (.text ln) rfl
    have n4 := lookup_new_col lm m ln n found rest "effective_date" (.ts n.effectiveDate) rfl
    have n5 := lookup_new_col lm m ln n found rest "seq" (.int n.seq) rfl
    simp only [evalExpr, exec_bind, c1, c2, c3, c4, c5, n1, n2, n3, n4, n5, exec_liftR_ok, evalBinop_eq_text, truth_bool, Spec.MoveRow.before]
    by_cases h1 : m.account = n.account <;> by_cases h2 : m.asset = n.asset <;> by_cases h3 : lm = ln <;>
      by_cases h4 : m.effectiveDate < n.effectiveDate <;> by_cases h5 : m.effectiveDate = n.effectiveDate <;>
      by_cases h6 : m.seq < n.seq <;>
      simp [h1, h2, h3, h4, h5, h6, ofTruth, and3, or3, truth_bool, exec_bind, evalBinop_eq_text, evalBinop_eq_ts,
        evalBinop_lt_ts, evalBinop_lt_int]
  · have c6 := lookup_moves_col lm m ln n found rest "post_commit_effective_volumes" (.row ["inputs", "outputs"] [.int m.pcev.input, .int m.pcev.output]) rfl
    have n6 := lookup_new_col lm m ln n found rest "is_source" (.bool n.isSource) rfl
    have n7 := lookup_new_col lm m ln n found rest "amount" (.int n.amount) rfl
    simp only [evalExpr, evalExprs, exec_bind, c6, n6, n7, exec_liftR_ok, truth_bool, rowField, lookupIn]
    cases hsrc : n.isSource <;>
      simp [exec_bind, evalBinop_add_int, Spec.MoveRow.delta, Volumes.add, hsrc, truth_bool, lookupIn, rowField, n7]
  · have n6 := lookup_new_col_pl ln n found rest "is_source" (.bool n.isSource) rfl
    have n7 := lookup_new_col_pl ln n found rest "amount" (.int n.amount) rfl
    simp only [evalExpr, evalExprs, exec_bind, n6, n7, exec_liftR_ok, truth_bool]
    cases hsrc : n.isSource <;> simp [exec_bind, Spec.MoveRow.delta, hsrc, truth_bool, n7]


/-- `update_effective_volumes`, expression by expression, for ANY target row `m` and ANY NEW row `n`:
    the body is `UPDATE moves SET post_commit_effective_volumes = setE WHERE wher` (no FROM, no
    RETURNING) followed by `RETURN new`; `wher` holds iff `m` has NEW's account, asset and ledger and a
    STRICTLY LATER effective date; `setE` is `m`'s effective volumes plus NEW's delta. -/
theorem updateEffective_exprs (cb : Callbacks) (te : TypeEnv) (lm ln : String) (m n : Spec.MoveRow) (found : Bool) (rest : List Scope)
    (src : Option (String × Nat)) (s : St) :
    ∃ (setE wher : Expr),
      Schema.fn_update_effective_volumes.body =
        [PlStmt.exec (Stmt.update [] "" "moves" "" [SetItem.mk "post_commit_effective_volumes" setE] [] (some wher) []) [],
         PlStmt.ret (some (Expr.col "" "new"))] ∧
      (evalExpr cb te (trigEnv lm m ln n found rest src) wher).exec s =
        (.ok (.bool (decide (m.account = n.account ∧ m.asset = n.asset ∧ lm = ln ∧ n.effectiveDate < m.effectiveDate))), s) ∧
      (evalExpr cb te (trigEnv lm m ln n found rest src) setE).exec s =
        (.ok (.row [] [.int (m.pcev.add n.delta).input, .int (m.pcev.add n.delta).output]), s) := by
  refine ⟨_, _, rfl, ?_, ?_⟩
  · have c1 := lookup_moves_col lm m ln n found rest "accounts_address" (.text m.account) rfl src
    have c2 := lookup_moves_col lm m ln n found rest "asset" (.text m.asset) rfl src
    have c3 := lookup_moves_col lm m ln n found rest "ledger" (.text lm) rfl src
    have c4 := lookup_moves_col lm m ln n found rest "effective_date" (.ts m.effectiveDate) rfl src
    have n1 := lookup_new_col lm m ln n found rest "accounts_address" (.text n.account) rfl src
    have n2 := lookup_new_col lm m ln n found rest "asset" (.text n.asset) rfl src
    have n3 := lookup_new_col lm m ln n found rest "ledger" (.text ln) rfl src
    have n4 := lookup_new_col lm m ln n found rest "effective_date" (.ts n.effectiveDate) rfl src
    simp only [evalExpr, exec_bind, c1, c2, c3, c4, n1, n2, n3, n4, exec_liftR_ok, evalBinop_eq_text, truth_bool]
    by_cases h1 : m.account = n.account <;> by_cases h2 : m.asset = n.asset <;> by_cases h3 : lm = ln <;>
      by_cases h4 : n.effectiveDate < m.effectiveDate <;>
      simp [h1, h2, h3, h4, ofTruth, and3, truth_bool, exec_bind, evalBinop_eq_text, evalBinop_gt_ts]
  · have c6 := lookup_moves_col lm m ln n found rest "post_commit_effective_volumes" (.row ["inputs", "outputs"] [.int m.pcev.input, .int m.pcev.output]) rfl src
    have n6 := lookup_new_col lm m ln n found rest "is_source" (.bool n.isSource) rfl src
    have n7 := lookup_new_col lm m ln n found rest "amount" (.int n.amount) rfl src
    simp only [evalExpr, evalExprs, exec_bind, c6, n6, n7, exec_liftR_ok, truth_bool, rowField, lookupIn]
    cases hsrc : n.isSource <;>
      simp [exec_bind, evalBinop_add_int, Spec.MoveRow.delta, Volumes.add, hsrc, truth_bool, lookupIn, rowField, n7]

end Ledger.Sql
