import Ledger.Proofs.CoreMap
import Ledger.Proofs.CtrlEval
import Ledger.Ctrl.Replay

/-!
Volumes under replay: the live write path locks balances (`GetBalances` inserts
zero rows) before `UpdateVolumes`; the replay only runs `UpdateVolumes`.  `VolRel`
relates the two tables: the live one is the replayed one plus possibly some zero
rows, hence equal as values (`normVolumes`).
-/
namespace Ledger.Ctrl
open Ledger.Base Ledger.Core

/-- `v1` is `v2` plus possibly some zero rows. -/
structure VolRel (v1 v2 : PCV) : Prop where
  wf1 : Map.WF v1
  wf2 : Map.WF v2
  sub : ∀ k x, v2.get? k = some x → v1.get? k = some x
  zero : ∀ k x, v1.get? k = some x → v2.get? k = none → x = Volumes.zero

theorem VolRel.refl {v : PCV} (hw : Map.WF v) : VolRel v v :=
  ⟨hw, hw, fun _ _ h => h, fun _ _ h1 h2 => by rw [h1] at h2; cases h2⟩

theorem VolRel.volOf {v1 v2 : PCV} (h : VolRel v1 v2) (k : Key) : volOf v1 k = volOf v2 k := by
  unfold Ledger.Ctrl.volOf
  cases h2 : v2.get? k with
  | some x => rw [h.sub k x h2]
  | none =>
    cases h1 : v1.get? k with
    | none => rfl
    | some x => rw [h.zero k x h1 h2]

theorem VolRel.lockZero {v1 v2 : PCV} (h : VolRel v1 v2) (k : Key) : VolRel (lockZero v1 k) v2 := by
  unfold Ledger.Ctrl.lockZero
  cases hk : v1.get? k with
  | some x => exact h
  | none =>
    refine ⟨Map.WF_insertWith _ _ _ h.wf1, h.wf2, ?_, ?_⟩
    · intro k' x hx
      have h1 := h.sub k' x hx
      unfold Map.insert
      rw [Map.get?_insertWith _ _ _ h.wf1]
      by_cases hkk : k' = k
      · subst hkk; rw [hk] at h1; cases h1
      · rw [if_neg hkk]; exact h1
    · intro k' x hx h2
      unfold Map.insert at hx
      rw [Map.get?_insertWith _ _ _ h.wf1] at hx
      by_cases hkk : k' = k
      · subst hkk
        rw [if_pos rfl, hk] at hx
        simp only [Option.some.injEq] at hx
        exact hx.symm
      · rw [if_neg hkk] at hx; exact h.zero k' x hx h2

theorem VolRel.fold_lock {v1 v2 : PCV} (h : VolRel v1 v2) (q : List Key) : VolRel (q.foldl Ledger.Ctrl.lockZero v1) v2 := by
  induction q generalizing v1 with
  | nil => exact h
  | cons k r ih => exact ih (h.lockZero k)

theorem VolRel.addVolumes {v1 v2 : PCV} (h : VolRel v1 v2) (e : Key × Volumes) :
    VolRel (addVolumes v1 e) (addVolumes v2 e) := by
  unfold Ledger.Ctrl.addVolumes Map.insert
  refine ⟨Map.WF_insertWith _ _ _ h.wf1, Map.WF_insertWith _ _ _ h.wf2, ?_, ?_⟩
  · intro k x hx
    rw [Map.get?_insertWith _ _ _ h.wf2] at hx
    rw [Map.get?_insertWith _ _ _ h.wf1]
    by_cases hk : k = e.1
    · rw [if_pos hk] at hx ⊢
      rw [← hx, h.volOf]
      cases v1.get? e.1 <;> cases v2.get? e.1 <;> rfl
    · rw [if_neg hk] at hx ⊢; exact h.sub k x hx
  · intro k x hx h2
    rw [Map.get?_insertWith _ _ _ h.wf1] at hx
    rw [Map.get?_insertWith _ _ _ h.wf2] at h2
    by_cases hk : k = e.1
    · rw [if_pos hk] at h2; cases h2
    · rw [if_neg hk] at hx h2; exact h.zero k x hx h2

theorem VolRel.fold_add {v1 v2 : PCV} (h : VolRel v1 v2) (ups : PCV) :
    VolRel (ups.foldl Ledger.Ctrl.addVolumes v1) (ups.foldl Ledger.Ctrl.addVolumes v2) := by
  induction ups generalizing v1 v2 with
  | nil => exact h
  | cons e r ih => exact ih (h.addVolumes e)

/-! ### volumes as values -/

theorem WF_filter {κ ν : Type} [KeyOrd κ] (p : κ × ν → Bool) {m : Map κ ν} (hw : Map.WF m) : Map.WF (m.filter p) :=
  List.Pairwise.filter p hw

theorem get?_filter (p : Key × Volumes → Bool) {m : PCV} (hw : Map.WF m) (k : Key) :
    Map.get? (m.filter p) k = (Map.get? m k).filter (fun v => p (k, v)) := by
  induction m with
  | nil => rfl
  | cons e r ih =>
    obtain ⟨k0, v0⟩ := e
    have hr := Map.WF_tail hw
    have hnone : k0 = k → Map.get? r k = none := by
      intro hk
      subst hk
      apply Map.get?_eq_none_of_not_mem_keys
      intro hmem
      simp only [Map.keys, List.mem_map] at hmem
      obtain ⟨x, hx, hxk⟩ := hmem
      have := (Map.WF_cons.mp hw).1 x hx
      simp only [hxk, LawfulKeyOrd.irrefl] at this
      exact Bool.false_ne_true this
    by_cases hp : p (k0, v0) = true
    · rw [List.filter_cons_of_pos hp]
      simp only [Map.get?_cons]
      by_cases hk : k0 = k
      · subst hk; simp only [↓reduceIte, Option.filter, hp]
      · simp only [hk, ↓reduceIte]; exact ih hr
    · rw [List.filter_cons_of_neg hp, ih hr]
      simp only [Map.get?_cons]
      by_cases hk : k0 = k
      · rw [hnone hk]
        subst hk
        simp only [↓reduceIte, Option.filter, hp, Bool.false_eq_true]
      · simp only [hk, ↓reduceIte]

/-- Tables that differ by zero rows are equal as values. -/
theorem VolRel.norm_eq {v1 v2 : PCV} (h : VolRel v1 v2) : normVolumes v1 = normVolumes v2 := by
  unfold normVolumes
  apply Map.ext_of_WF (WF_filter _ h.wf1) (WF_filter _ h.wf2)
  intro k
  rw [get?_filter _ h.wf1, get?_filter _ h.wf2]
  cases h2 : v2.get? k with
  | some x => rw [h.sub k x h2]
  | none =>
    cases h1 : v1.get? k with
    | none => rfl
    | some x =>
      rw [h.zero k x h1 h2]
      simp [Option.filter]

/-- A program of balance locks and account reads: volumes gain zero rows at most. -/
theorem eval_lockOnly_vol {α : Type} (now : Time) (p : Prog α) (hp : p.All Call.LockOnly) (d : Db) (sq : Seqs)
    (v2 : PCV) (hv : VolRel d.volumes v2) (x : α × Db × Seqs) (h : eval now p d sq = some x) :
    VolRel x.2.1.volumes v2 := by
  induction hp generalizing d sq with
  | pure a => simp only [eval, Option.some.injEq] at h; subst h; exact hv
  | fail e => simp only [eval] at h; cases h
  | call c k hc _ ih =>
    cases c with
    | getBalances q =>
      simp only [eval, exec, getBalances] at h
      exact ih _ { d with volumes := List.foldl lockZero d.volumes q } _ (hv.fold_lock q) h
    | getAccount a =>
      simp only [eval, exec] at h
      exact ih _ _ _ hv h
    | _ => exact hc.elim

end Ledger.Ctrl
