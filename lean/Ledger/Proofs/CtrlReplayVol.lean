import Ledger.Proofs.CoreMap
import Ledger.Proofs.CtrlEval
import Ledger.Ctrl.Replay

/-!
Volumes under replay: the live write path locks balances (`GetBalances` inserts
zero rows) before `UpdateVolumes`; the replay only runs `UpdateVolumes`.  `VolRel`
relates the two tables in between; when every row of the live result is covered
(`volumesCovered`) the two results are equal.
-/
namespace Ledger.Ctrl
open Ledger.Base Ledger.Core

/-- `v1` is `v2` plus possibly some zero rows. -/
structure VolRel (v1 v2 : PCV) : Prop where
  wf1 : Map.WF v1
  wf2 : Map.WF v2
  sub : ∀ k x, v2.get? k = some x → v1.get? k = some x
  zero : ∀ k x, v1.get? k = some x → v2.get? k = none → x = Volumes.zero

theorem VolRel.refl {v : PCV} (hw : Map.WF v) : VolRel v v :=
  ⟨hw, hw, fun _ _ h => h, fun _ _ h1 h2 => by rw [h1] at h2; cases h2⟩

theorem VolRel.volOf {v1 v2 : PCV} (h : VolRel v1 v2) (k : Key) : volOf v1 k = volOf v2 k := by
  unfold Ledger.Ctrl.volOf
  cases h2 : v2.get? k with
  | some x => rw [h.sub k x h2]
  | none =>
    cases h1 : v1.get? k with
    | none => rfl
    | some x => rw [h.zero k x h1 h2]

theorem VolRel.lockZero {v1 v2 : PCV} (h : VolRel v1 v2) (k : Key) : VolRel (lockZero v1 k) v2 := by
  unfold Ledger.Ctrl.lockZero
  cases hk : v1.get? k with
  | some x => exact h
  | none =>
    refine ⟨Map.WF_insertWith _ _ _ h.wf1, h.wf2, ?_, ?_⟩
    · intro k' x hx
      have h1 := h.sub k' x hx
      unfold Map.insert
      rw [Map.get?_insertWith _ _ _ h.wf1]
      by_cases hkk : k' = k
      · subst hkk; rw [hk] at h1; cases h1
      · rw [if_neg hkk]; exact h1
    · intro k' x hx h2
      unfold Map.insert at hx
      rw [Map.get?_insertWith _ _ _ h.wf1] at hx
      by_cases hkk : k' = k
      · subst hkk
        rw [if_pos rfl, hk] at hx
        simp only [Option.some.injEq] at hx
        exact hx.symm
      · rw [if_neg hkk] at hx; exact h.zero k' x hx h2

theorem VolRel.fold_lock {v1 v2 : PCV} (h : VolRel v1 v2) (q : List Key) : VolRel (q.foldl Ledger.Ctrl.lockZero v1) v2 := by
  induction q generalizing v1 with
  | nil => exact h
  | cons k r ih => exact ih (h.lockZero k)

theorem VolRel.addVolumes {v1 v2 : PCV} (h : VolRel v1 v2) (e : Key × Volumes) :
    VolRel (addVolumes v1 e) (addVolumes v2 e) := by
  unfold Ledger.Ctrl.addVolumes Map.insert
  refine ⟨Map.WF_insertWith _ _ _ h.wf1, Map.WF_insertWith _ _ _ h.wf2, ?_, ?_⟩
  · intro k x hx
    rw [Map.get?_insertWith _ _ _ h.wf2] at hx
    rw [Map.get?_insertWith _ _ _ h.wf1]
    by_cases hk : k = e.1
    · rw [if_pos hk] at hx ⊢
      rw [← hx, h.volOf]
      cases v1.get? e.1 <;> cases v2.get? e.1 <;> rfl
    · rw [if_neg hk] at hx ⊢; exact h.sub k x hx
  · intro k x hx h2
    rw [Map.get?_insertWith _ _ _ h.wf1] at hx
    rw [Map.get?_insertWith _ _ _ h.wf2] at h2
    by_cases hk : k = e.1
    · rw [if_pos hk] at h2; cases h2
    · rw [if_neg hk] at hx h2; exact h.zero k x hx h2

theorem VolRel.fold_add {v1 v2 : PCV} (h : VolRel v1 v2) (ups : PCV) :
    VolRel (ups.foldl Ledger.Ctrl.addVolumes v1) (ups.foldl Ledger.Ctrl.addVolumes v2) := by
  induction ups generalizing v1 v2 with
  | nil => exact h
  | cons e r ih => exact ih (h.addVolumes e)

/-- Rows are never removed by `UpdateVolumes`, and every updated key has a row. -/
theorem fold_add_keeps (ups : PCV) (v : PCV) (hw : Map.WF v) (k : Key)
    (hk : (v.get? k).isSome = true ∨ ∃ e ∈ ups, e.1 = k) :
    ((ups.foldl Ledger.Ctrl.addVolumes v).get? k).isSome = true := by
  induction ups generalizing v with
  | nil =>
    rcases hk with hk | ⟨e, he, _⟩
    · exact hk
    · cases he
  | cons e r ih =>
    simp only [List.foldl_cons]
    apply ih _ (Map.WF_insertWith _ _ _ hw)
    have hget : ∀ k', (Map.get? (Ledger.Ctrl.addVolumes v e) k') =
        if k' = e.1 then some ((Ledger.Ctrl.volOf v e.1).add e.2) else v.get? k' := by
      intro k'
      unfold Ledger.Ctrl.addVolumes Map.insert
      rw [Map.get?_insertWith _ _ _ hw]
      by_cases hkk : k' = e.1
      · rw [if_pos hkk, if_pos hkk]; cases v.get? e.1 <;> rfl
      · rw [if_neg hkk, if_neg hkk]
    rcases hk with hk | ⟨e', he', hke⟩
    · left
      show (Map.get? (Ledger.Ctrl.addVolumes v e) k).isSome = true
      rw [hget]
      by_cases hkk : k = e.1
      · rw [if_pos hkk]; rfl
      · rw [if_neg hkk]; exact hk
    · rcases List.mem_cons.mp he' with rfl | hr
      · left
        show (Map.get? (Ledger.Ctrl.addVolumes v e') k).isSome = true
        rw [hget, if_pos hke.symm]; rfl
      · right; exact ⟨e', hr, hke⟩

/-- Covered ⇒ the live and the replayed `UpdateVolumes` give the same table. -/
theorem VolRel.covered_eq {v1 v2 : PCV} (h : VolRel v1 v2) (ups : PCV)
    (hc : ∀ k ∈ (ups.foldl Ledger.Ctrl.addVolumes v1).keys, v2.contains k = true ∨ ups.contains k = true) :
    ups.foldl Ledger.Ctrl.addVolumes v1 = ups.foldl Ledger.Ctrl.addVolumes v2 := by
  have hr := h.fold_add ups
  apply Map.ext_of_WF hr.wf1 hr.wf2
  intro k
  cases h2 : (ups.foldl Ledger.Ctrl.addVolumes v2).get? k with
  | some x => exact hr.sub k x h2
  | none =>
    cases h1 : (ups.foldl Ledger.Ctrl.addVolumes v1).get? k with
    | none => rfl
    | some x =>
      exfalso
      have hmem := Map.mem_keys_of_get? h1
      have hsome : ((ups.foldl Ledger.Ctrl.addVolumes v2).get? k).isSome = true := by
        apply fold_add_keeps ups v2 h.wf2 k
        rcases hc k hmem with hv | hu
        · left; exact hv
        · right
          have := Map.contains_iff_mem_keys.mp hu
          simp only [Map.keys, List.mem_map] at this
          exact this
      rw [h2] at hsome
      cases hsome

/-- A program of balance locks and account reads: volumes gain zero rows at most. -/
theorem eval_lockOnly_vol {α : Type} (now : Time) (p : Prog α) (hp : p.All Call.LockOnly) (d : Db) (sq : Seqs)
    (v2 : PCV) (hv : VolRel d.volumes v2) (x : α × Db × Seqs) (h : eval now p d sq = some x) :
    VolRel x.2.1.volumes v2 := by
  induction hp generalizing d sq with
  | pure a => simp only [eval, Option.some.injEq] at h; subst h; exact hv
  | fail e => simp only [eval] at h; cases h
  | call c k hc _ ih =>
    cases c with
    | getBalances q =>
      simp only [eval, exec, getBalances] at h
      exact ih _ { d with volumes := List.foldl lockZero d.volumes q } _ (hv.fold_lock q) h
    | getAccount a =>
      simp only [eval, exec] at h
      exact ih _ _ _ hv h
    | _ => exact hc.elim

end Ledger.Ctrl
