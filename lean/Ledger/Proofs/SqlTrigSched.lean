import Ledger.Proofs.SqlMovesTrig
open Ledger Ledger.Sql Ledger.Generated Ledger.Core
namespace Ledger.Sql
open Ledger.Spec

/-- the WHEN clause of the per-ledger triggers: `new.ledger = '<name>'` -/
def ledgerIs (name : String) : Expr := Expr.binop BinOp.eq (Expr.col "new" "ledger") (Expr.str name)

theorem withSP_withSP_self (s : St) (sp : String) : (s.withSP sp).withSP s.searchPath = s := rfl

theorem exec_triggerApplies_ledger (n : Nat) (t : Table) (tr : TriggerDef) (setCols : List String) (nv : List Value) (s : St)
    (name ln : String) (hev : tr.event = .insert) (hw : tr.when_ = some (ledgerIs name))
    (hl : lookupIn t.colNames nv "ledger" = some (.text ln)) :
    (triggerApplies (n + 1) t tr setCols (some nv) none).exec s = (.ok (decide (ln = name)), s) := by
  rw [triggerApplies]
  have hlk : lookupColumn { outer := [({ alias := "new", cols := t.colNames, vals := nv } : Scope)] } "new" "ledger" = .ok (.text ln) := by
    simp [lookupColumn, Env.scopes, findScope, lastComponent_new, hl]
    rfl
  have hev' : (tr.event == TrigEvent.update) = false := by rw [hev]; rfl
  have hin : (evalExpr (cbs n) s.w.types { outer := [({ alias := "new", cols := t.colNames, vals := nv } : Scope)] } (ledgerIs name)).exec
      (s.withSP (schemaOf t.name)) = (.ok (.bool (decide (ln = name))), s.withSP (schemaOf t.name)) := by
    simp only [ledgerIs, evalExpr, exec_bind, hlk, exec_liftR_ok, exec_pure, evalBinop_eq_text]
  have := exec_withSearchPath (schemaOf t.name) _ s _ _ hin
  rw [withSP_withSP_self] at this
  simp only [hev', Bool.false_and, Bool.false_eq_true, if_false, hw, exec_bind, exec_typeEnv, List.append_nil, this, truth_bool,
    exec_liftR_ok, exec_pure]
  cases decide (ln = name) <;> rfl

/-- a per-ledger INSERT trigger that is not for ledger `ln` -/
def OtherLedgerTrig (ln : String) (x : TriggerDef) : Prop :=
  ∃ name, x.event = .insert ∧ x.when_ = some (ledgerIs name) ∧ name ≠ ln

/-- the BEFORE INSERT ROW step of `fireBefore`, named -/
def beforeStep (n : Nat) (t : Table) (event : TrigEvent) (setCols : List String) (old : Option (List Value))
    (st : Option (List Value) × Bool) (tr : TriggerDef) : M (Option (List Value) × Bool) := do
  if st.2 then pure st
  else if st.1.isNone && event != .delete then pure (none, true)
  else if !(← triggerApplies n t tr setCols st.1 old) then pure st
  else
    let r ← runTrigger n tr.fname t st.1 old
    match event with
    | .delete => if r.isNone then pure (none, true) else pure st
    | _ => pure (r, false)

theorem fireBefore_eq (n : Nat) (t : Table) (event : TrigEvent) (setCols : List String) (new old : Option (List Value)) :
    fireBefore (n + 1) t event setCols new old = (do
      let st ← (sortTriggers (t.triggers.filter (fun tr => tr.timing == .before && tr.event == event))).foldlM
        (beforeStep n t event setCols old) (new, false)
      if st.2 then pure none
      else match event with
        | .delete => pure (some (old.getD []))
        | _ => pure st.1) := by
  rw [fireBefore]
  rfl

theorem exec_beforeFold_others (n : Nat) (t : Table) (nv : List Value) (ln : String)
    (hl : lookupIn t.colNames nv "ledger" = some (.text ln)) (s : St) :
    ∀ (L : List TriggerDef), (∀ x ∈ L, OtherLedgerTrig ln x) →
      (L.foldlM (beforeStep (n + 1) t .insert [] none) (some nv, false)).exec s = (.ok (some nv, false), s) := by
  intro L
  induction L with
  | nil => intro _; simp
  | cons x xs ih =>
    intro h
    obtain ⟨name, h1, h2, h3⟩ := h x (by simp)
    have ha := exec_triggerApplies_ledger n t x [] nv s name ln h1 h2 hl
    have hd : decide (ln = name) = false := by simp; exact fun e => h3 e.symm
    rw [hd] at ha
    simp only [exec_foldlM_cons, beforeStep, Bool.false_eq_true, if_false, Option.isNone_some, Bool.false_and, exec_bind, ha,
      Bool.not_false, if_true, exec_pure]
    exact ih (fun y hy => h y (by simp [hy]))

/-- BEFORE INSERT ROW triggers of a table whose only trigger for ledger `ln` is `tr` -/
theorem exec_fireBefore_one (n : Nat) (t : Table) (nv nv' : List Value) (ln : String) (s s' : St) (L1 L2 : List TriggerDef) (tr : TriggerDef)
    (hL : sortTriggers (t.triggers.filter (fun x => x.timing == .before && x.event == .insert)) = L1 ++ tr :: L2)
    (h1 : ∀ x ∈ L1, OtherLedgerTrig ln x) (h2 : ∀ x ∈ L2, OtherLedgerTrig ln x)
    (hev : tr.event = .insert) (hw : tr.when_ = some (ledgerIs ln))
    (hl : lookupIn t.colNames nv "ledger" = some (.text ln)) (hl' : lookupIn t.colNames nv' "ledger" = some (.text ln))
    (hrun : (runTrigger (n + 1) tr.fname t (some nv) none).exec s = (.ok (some nv'), s')) :
    (fireBefore (n + 2) t .insert [] (some nv) none).exec s = (.ok (some nv'), s') := by
  rw [fireBefore_eq, hL]
  have ha := exec_triggerApplies_ledger n t tr [] nv s ln ln hev hw hl
  simp only [decide_true] at ha
  simp only [List.foldlM_append, exec_bind, exec_beforeFold_others n t nv ln hl s L1 h1, exec_foldlM_cons]
  have hstep : (beforeStep (n + 1) t .insert [] none (some nv, false) tr).exec s = (.ok (some nv', false), s') := by
    simp only [beforeStep, Bool.false_eq_true, if_false, Option.isNone_some, Bool.false_and, exec_bind, ha, Bool.not_true, hrun, exec_pure]
  simp only [hstep, exec_beforeFold_others n t nv' ln hl' s' L2 h2, Bool.false_eq_true, if_false, exec_pure]

def afterStep (n : Nat) (t : Table) (setCols : List String) (new old : Option (List Value)) (_ : Unit) (tr : TriggerDef) : M Unit := do
  if ← triggerApplies n t tr setCols new old then
    modify fun s => { s with afterQ := s.afterQ ++ [{ fname := tr.fname, table := t.name, new := new, old := old }] }
  else pure ()

theorem queueAfter_eq (n : Nat) (t : Table) (event : TrigEvent) (setCols : List String) (new old : Option (List Value)) :
    queueAfter (n + 1) t event setCols new old =
      (sortTriggers (t.triggers.filter (fun tr => tr.timing == .after && tr.event == event))).foldlM (afterStep n t setCols new old) () := by
  rw [queueAfter]
  rfl

theorem exec_afterFold_others (n : Nat) (t : Table) (nv : List Value) (ln : String)
    (hl : lookupIn t.colNames nv "ledger" = some (.text ln)) (s : St) :
    ∀ (L : List TriggerDef), (∀ x ∈ L, OtherLedgerTrig ln x) →
      (L.foldlM (afterStep (n + 1) t [] (some nv) none) ()).exec s = (.ok (), s) := by
  intro L
  induction L with
  | nil => intro _; simp
  | cons x xs ih =>
    intro h
    obtain ⟨name, h1, h2, h3⟩ := h x (by simp)
    have ha := exec_triggerApplies_ledger n t x [] nv s name ln h1 h2 hl
    have hd : decide (ln = name) = false := by simp; exact fun e => h3 e.symm
    rw [hd] at ha
    simp only [exec_foldlM_cons, afterStep, exec_bind, ha, Bool.false_eq_true, if_false, exec_pure]
    exact ih (fun y hy => h y (by simp [hy]))

/-- AFTER INSERT ROW triggers of a table whose only trigger for ledger `ln` is `tr`: it is queued -/
theorem exec_queueAfter_one (n : Nat) (t : Table) (nv : List Value) (ln : String) (s : St) (L1 L2 : List TriggerDef) (tr : TriggerDef)
    (hL : sortTriggers (t.triggers.filter (fun x => x.timing == .after && x.event == .insert)) = L1 ++ tr :: L2)
    (h1 : ∀ x ∈ L1, OtherLedgerTrig ln x) (h2 : ∀ x ∈ L2, OtherLedgerTrig ln x)
    (hev : tr.event = .insert) (hw : tr.when_ = some (ledgerIs ln))
    (hl : lookupIn t.colNames nv "ledger" = some (.text ln)) :
    (queueAfter (n + 2) t .insert [] (some nv) none).exec s =
      (.ok (), s.addQ [{ fname := tr.fname, table := t.name, new := some nv, old := none }]) := by
  rw [queueAfter_eq, hL]
  have ha := exec_triggerApplies_ledger n t tr [] nv s ln ln hev hw hl
  simp only [decide_true] at ha
  simp only [List.foldlM_append, exec_bind, exec_afterFold_others n t nv ln hl s L1 h1, exec_foldlM_cons]
  have hstep : (afterStep (n + 1) t [] (some nv) none () tr).exec s =
      (.ok (), s.addQ [{ fname := tr.fname, table := t.name, new := some nv, old := none }]) := by
    simp only [afterStep, exec_bind, ha, if_true, exec_modify]
    rfl
  simp only [hstep, exec_afterFold_others n t nv ln hl _ L2 h2]

end Ledger.Sql
