import Ledger.Proofs.SqlAccountsExpr

/-!
# `RevertTransaction`: the guard of the UPDATE, for any row

`UPDATE transactions SET reverted_at = …, updated_at = … WHERE id = ? AND reverted_at IS NULL AND
ledger = ?` inside the CTE `upd` of `Ledger.Generated.WriteSql.P.revertTransaction[At]`: for ANY row
(any environment in which the three columns resolve), the WHERE clause holds iff the row is the
transaction of this ledger and has not been reverted — the guard of `Ledger.Spec.markReverted`.
-/
open Ledger Ledger.Sql Ledger.Generated Ledger.Core

namespace Ledger.Sql

theorem evalBinop_eq_int' (a b : Int) : evalBinop .eq (.int a) (.int b) = .ok (.bool (decide (a = b))) := evalBinop_eq_int a b

/-- evaluation of the guard `id = txid AND reverted_at IS NULL AND ledger = l` -/
theorem revert_guard_eval (cb : Callbacks) (te : TypeEnv) (env : Env) (l : String) (txid i : Int) (ra : Option Int) (lr : String) (s : St)
    (h1 : lookupColumn env "" "id" = .ok (.int i)) (h2 : lookupColumn env "" "reverted_at" = .ok (optTs ra))
    (h3 : lookupColumn env "" "ledger" = .ok (.text lr)) :
    (evalExpr cb te env
      (Expr.binop BinOp.and (Expr.binop BinOp.and (Expr.binop BinOp.eq (Expr.col "" "id") (Expr.int txid))
        (Expr.isNull (Expr.col "" "reverted_at") false)) (Expr.binop BinOp.eq (Expr.col "" "ledger") (Expr.str l)))).exec s =
      (.ok (.bool (decide (i = txid ∧ ra = none ∧ lr = l))), s) := by
  simp only [evalExpr, exec_bind, h1, h2, h3, exec_liftR_ok, evalBinop_eq_int, evalBinop_eq_text, truth_bool, exec_pure]
  by_cases e1 : i = txid <;> by_cases e3 : lr = l <;> cases ra <;>
    simp [e1, e3, optTs, ofTruth, and3, truth_bool, exec_bind, evalBinop_eq_text]

open Ledger.Generated.WriteSql in
/-- `RevertTransaction` (date from `transaction_date()`): shape and guard -/
theorem revertTransaction_exprs (cb : Callbacks) (te : TypeEnv) (env : Env) (b l : String) (id : Nat) (txid i : Int) (ra : Option Int) (lr : String) (s : St)
    (h1 : lookupColumn env "" "id" = .ok (.int i)) (h2 : lookupColumn env "" "reverted_at" = .ok (optTs ra))
    (h3 : lookupColumn env "" "ledger" = .ok (.text lr)) :
    ∃ (wher : Expr) (ret : List SelItem) (body : SetExpr),
      P.revertTransaction b l id txid =
        [Stmt.query (Query.mk [Cte.mk "upd" [] (Stmt.update [] b "transactions" ""
            [SetItem.mk "reverted_at" (Expr.call b "transaction_date" []), SetItem.mk "updated_at" (Expr.call b "transaction_date" [])]
            [] (some wher) ret)] body [] (some (Expr.int 1)) none LockMode.none)] ∧
      (evalExpr cb te env wher).exec s = (.ok (.bool (decide (i = txid ∧ ra = none ∧ lr = l))), s) :=
  ⟨_, _, _, rfl, revert_guard_eval cb te env l txid i ra lr s h1 h2 h3⟩

open Ledger.Generated.WriteSql in
/-- `RevertTransaction` with an explicit date: shape and guard -/
theorem revertTransactionAt_exprs (cb : Callbacks) (te : TypeEnv) (env : Env) (b l : String) (id : Nat) (txid i : Int) (atTs : String)
    (ra : Option Int) (lr : String) (s : St)
    (h1 : lookupColumn env "" "id" = .ok (.int i)) (h2 : lookupColumn env "" "reverted_at" = .ok (optTs ra))
    (h3 : lookupColumn env "" "ledger" = .ok (.text lr)) :
    ∃ (wher : Expr) (ret : List SelItem) (body : SetExpr),
      P.revertTransactionAt b l id txid atTs =
        [Stmt.query (Query.mk [Cte.mk "upd" [] (Stmt.update [] b "transactions" ""
            [SetItem.mk "reverted_at" (Expr.str atTs), SetItem.mk "updated_at" (Expr.str atTs)]
            [] (some wher) ret)] body [] (some (Expr.int 1)) none LockMode.none)] ∧
      (evalExpr cb te env wher).exec s = (.ok (.bool (decide (i = txid ∧ ra = none ∧ lr = l))), s) :=
  ⟨_, _, _, rfl, revert_guard_eval cb te env l txid i ra lr s h1 h2 h3⟩

end Ledger.Sql
