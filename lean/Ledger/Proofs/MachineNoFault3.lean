import Ledger.Proofs.MachineNoFault2

/-! No fault / panic: allotments, destinations, statements. -/
namespace Ledger.Machine

theorem expectTy_inv {ds : Decls} {e : Expr} {want : Ty} {msg : String → String}
    (h : expectTy ds e want msg = .ok ()) : typeExpr ds e = .ok want := by
  unfold expectTy at h
  split at h
  · cases h
  · rename_i t ht
    split at h
    · rename_i heq; subst heq; exact ht
    · cases h

/-! ### Allotments -/

def PortionOK (ds : Decls) : PortionE → Prop
  | .lit t => ∃ v, parsePortionGo t = .ok v
  | .var x => ds.lookup x = some .portion
  | .remaining => True

theorem checkPortionsRev_ok (ds : Decls) :
    (l : List PortionE) → (acc acc' : AllotAcc) → checkPortionsRev ds l acc = .ok acc' →
    ∀ p ∈ l, PortionOK ds p
  | [], _, _, _ => by intro p hp; cases hp
  | q :: qs, acc, acc', h => by
    simp only [checkPortionsRev] at h
    split at h
    · cases h
    · rename_i acc1 h1
      intro p hp
      rcases List.mem_cons.mp hp with rfl | hp
      · cases p with
        | lit t =>
          simp only [checkPortion] at h1
          split at h1
          · rename_i r hr; exact ⟨_, hr⟩
          · rename_i hr; exact ⟨_, hr⟩
          · cases h1
        | var x =>
          simp only [checkPortion] at h1
          split at h1
          · cases h1
          · rename_i t ht
            split at h1
            · rename_i heq; subst heq; exact ht
            · cases h1
        | remaining => trivial
      · exact checkPortionsRev_ok ds qs acc1 acc' h p hp

theorem checkAllotment_ok {ds : Decls} {ps : List PortionE} (h : checkAllotment ds ps = .ok ()) :
    ∀ p ∈ ps, PortionOK ds p := by
  unfold checkAllotment at h
  split at h
  · cases h
  · rename_i acc hacc
    intro p hp
    exact checkPortionsRev_ok ds ps.reverse {} acc hacc p (by simpa using hp)

theorem evalPortions_nf {ds : Decls} {env : Env} (henv : EnvTyped ds env) :
    (ps : List PortionE) → (∀ p ∈ ps, PortionOK ds p) → NF (evalPortions env ps)
  | [], _ => by simp only [evalPortions]; exact NF.ok _
  | p :: ps, h => by
    have hp := h p (by simp)
    have ih := evalPortions_nf henv ps (fun q hq => h q (by simp [hq]))
    have h1 : NF (evalPortion env p) := by
      cases p with
      | lit t =>
        obtain ⟨v, hv⟩ := hp
        simp only [evalPortion, hv]; exact NF.ok _
      | var x =>
        obtain ⟨v, hv, hty⟩ := henv x .portion hp
        obtain ⟨q, rfl⟩ := val_portion hty
        simp only [evalPortion, hv]; exact NF.ok _
      | remaining => simp only [evalPortion]; exact NF.ok _
    simp only [evalPortions]
    split
    · rename_i err heq; exact h1.error_of heq
    · split
      · rename_i err heq; exact ih.error_of heq
      · exact NF.ok _

theorem makeAllotment_nf {ds : Decls} {env : Env} (henv : EnvTyped ds env) {ps : List PortionE}
    (h : checkAllotment ds ps = .ok ()) : NF (makeAllotment env ps) := by
  have := evalPortions_nf henv ps (checkAllotment_ok h)
  unfold makeAllotment
  split
  · rename_i err heq; exact this.error_of heq
  · split
    · exact NF.ok _
    · split <;> exact NF.run _ _

/-! ### Destinations -/

mutual
  theorem evalDest_nf {ds : Decls} {env : Env} (henv : EnvTyped ds env) (hok : EnvValsOK env)
      (asset : String) : (d : Dest) → checkDest ds d = .ok () → ∀ f st, NF (evalDest env asset d f st)
    | .account e, h, f, st => by
      simp only [checkDest] at h
      have hacc := evalAccount_nf henv (expectTy_inv h)
      simp only [evalDest]
      split
      · exact NF.run _ _
      · split
        · rename_i err heq; exact hacc.error_of heq
        · exact NF.ok _
    | .inorder items remaining, h, f, st => by
      simp only [checkDest] at h
      split at h
      · cases h
      · rename_i hci
        have ih := evalInOrder_nf henv hok asset items hci 0 f st
        simp only [evalDest]
        split
        · rename_i err heq; exact ih.error_of heq
        · rename_i kept f1 st1 _
          split
          · exact NF.run _ _
          · rename_i resR remR _
            have ih2 := evalKD_nf henv hok asset remaining h remR.reverse st1
            split
            · rename_i err heq; exact ih2.error_of heq
            · exact NF.ok _
    | .allot items, h, f, st => by
      simp only [checkDest] at h
      split at h
      · cases h
      · rename_i hca
        have hm := makeAllotment_nf henv hca
        simp only [evalDest]
        split
        · rename_i err heq; exact hm.error_of heq
        · rename_i a hma
          exact evalAllotDst_nf henv hok asset items h _ f st
            (by rw [allocate_length', makeAllotment_length hma, AllotDstList.portions_length])
  theorem evalKD_nf {ds : Decls} {env : Env} (henv : EnvTyped ds env) (hok : EnvValsOK env)
      (asset : String) : (d : KeptOrDest) → checkKD ds d = .ok () → ∀ f st, NF (evalKD env asset d f st)
    | .kept, _, f, st => by simp only [evalKD]; exact NF.ok _
    | .to d, h, f, st => by
      simp only [checkKD] at h
      simp only [evalKD]
      exact evalDest_nf henv hok asset d h f st
  theorem evalInOrder_nf {ds : Decls} {env : Env} (henv : EnvTyped ds env) (hok : EnvValsOK env)
      (asset : String) : (items : InOrderDstList) → checkInOrder ds items = .ok () →
      ∀ k f st, NF (evalInOrder env asset items k f st)
    | .nil, _, k, f, st => by simp only [evalInOrder]; exact NF.ok _
    | .cons m d rest, h, k, f, st => by
      simp only [checkInOrder] at h
      split at h
      · cases h
      · rename_i hm
        split at h
        · cases h
        · rename_i hkd
          simp only [evalInOrder]
          rcases evalMonetary_typed henv hok (expectTy_inv hm) with ⟨a, v, hmv⟩ | ⟨kk, hk⟩
          · rw [hmv]
            simp only [needAmt]
            split
            · exact NF.run _ _
            · split
              · exact NF.run _ _
              · have ih := evalKD_nf henv hok asset d hkd (takeMax f v).1 st
                split
                · rename_i err heq; exact ih.error_of heq
                · rename_i r st1 _
                  exact evalInOrder_nf henv hok asset rest h _ _ st1
          · rw [hk]; exact NF.run _ _
  theorem evalAllotDst_nf {ds : Decls} {env : Env} (henv : EnvTyped ds env) (hok : EnvValsOK env)
      (asset : String) : (items : AllotDstList) → checkAllotDst ds items = .ok () →
      ∀ parts f st, parts.length = items.length → NF (evalAllotDst env asset items parts f st)
    | .nil, _, parts, f, st, _ => by simp only [evalAllotDst]; exact NF.ok _
    | .cons _ _ _, _, [], f, st, hl => by simp [AllotDstList.length] at hl
    | .cons _ d rest, h, p :: ps, f, st, hl => by
      simp only [checkAllotDst] at h
      split at h
      · cases h
      · rename_i hkd
        simp only [evalAllotDst]
        split
        · exact NF.run _ _
        · rename_i res rm _
          have ih := evalKD_nf henv hok asset d hkd res st
          split
          · rename_i err heq; exact ih.error_of heq
          · rename_i r st1 _
            exact evalAllotDst_nf henv hok asset rest h ps _ st1 (by simpa [AllotDstList.length] using hl)
end

theorem finishSend_nf {ds : Decls} {env : Env} (henv : EnvTyped ds env) (hok : EnvValsOK env)
    {dst : Dest} (h : checkDest ds dst = .ok ()) (f : Funding) (st : State) :
    NF (finishSend env dst f st) := by
  have := evalDest_nf henv hok f.asset dst h f.parts st
  unfold finishSend
  split
  · rename_i err heq; exact this.error_of heq
  · exact NF.ok _

/-! ### Statements -/

theorem evalStmt_nf {ds : Decls} {env : Env} (henv : EnvTyped ds env) (hok : EnvValsOK env)
    (s : Stmt) (h : checkStmt ds s = .ok ()) (st : State) : NF (evalStmt Cfg.fixed env s st) := by
  cases s with
  | print e =>
    simp only [checkStmt] at h
    cases ht : typeExpr ds e with
    | error m => simp [ht, Except.map] at h
    | ok t =>
      have := evalExpr_nf henv ht
      simp only [evalStmt]
      split
      · rename_i err heq; exact this.error_of heq
      · exact NF.ok _
  | fail => simp only [evalStmt]; exact NF.run _ _
  | setTxMeta k e =>
    simp only [checkStmt] at h
    cases ht : typeExpr ds e with
    | error m => simp [ht, Except.map] at h
    | ok t =>
      have := evalExpr_nf henv ht
      simp only [evalStmt]
      split
      · rename_i err heq; exact this.error_of heq
      · exact NF.ok _
  | setAccountMeta acc k e =>
    simp only [checkStmt] at h
    split at h
    · cases h
    · rename_i t ht
      have h1 := evalExpr_nf henv ht
      have h2 := evalAccount_nf henv (expectTy_inv h)
      simp only [evalStmt]
      split
      · rename_i err heq; exact h1.error_of heq
      · split
        · rename_i err heq; exact h2.error_of heq
        · exact NF.ok _
  | save mon acc =>
    simp only [checkStmt] at h
    split at h
    · cases h
    · rename_i hm
      have h1 := evalMonetary_nf henv (leftmost_typed mon (expectTy_inv hm))
      have h2 := evalAccount_nf henv (expectTy_inv h)
      simp only [evalStmt]
      split
      · rename_i err heq; exact h1.error_of heq
      · split
        · rename_i err heq; exact h2.error_of heq
        · split <;> exact NF.ok _
  | saveAll assetE acc =>
    simp only [checkStmt] at h
    split at h
    · cases h
    · rename_i hm
      have h1 := evalAssetE_nf henv (expectTy_inv hm)
      have h2 := evalAccount_nf henv (expectTy_inv h)
      simp only [evalStmt]
      split
      · rename_i err heq; exact h1.error_of heq
      · split
        · rename_i err heq; exact h2.error_of heq
        · split
          · split <;> exact NF.ok _
          · exact NF.ok _
  | send mon src dst =>
    simp only [checkStmt] at h
    split at h
    · cases h
    · rename_i hm
      have hmon := expectTy_inv hm
      split at h
      · cases h
      · rename_i hsrc
        cases src with
        | src s =>
          simp only at hsrc
          cases hcs : checkSource ds false s with
          | error m => simp [hcs, Except.map] at hsrc
          | ok r =>
            have h1 := leftmostAsset_nf henv hmon
            simp only [evalStmt]
            split
            · rename_i err heq; exact h1.error_of heq
            · rename_i asset _
              have h2 := evalSource_nf henv hok asset s false r hcs st.bal
              split
              · rename_i err heq; exact h2.error_of heq
              · rename_i f b1 _
                rcases evalMonetary_typed henv hok hmon with ⟨a, v, hmv⟩ | ⟨k, hk⟩
                · rw [hmv]
                  simp only
                  have h3 := takeFromSource_nf henv s.fallback
                    (fun e he => fallback_typed ds s false r hcs e he) f a v b1
                  split
                  · rename_i err heq; exact h3.error_of heq
                  · exact finishSend_nf henv hok h _ _
                · rw [hk]; exact NF.run _ _
        | allot items =>
          simp only at hsrc
          split at hsrc
          · cases hsrc
          · rename_i hca
            simp only [evalStmt]
            rcases evalMonetary_typed henv hok hmon with ⟨a, v, hmv⟩ | ⟨k, hk⟩
            · rw [hmv]
              simp only
              have h1 := makeAllotment_nf henv hca
              split
              · rename_i err heq; exact h1.error_of heq
              · rename_i al hal
                simp only [needAmt]
                have h2 := leftmostAsset_nf henv hmon
                split
                · rename_i err heq; exact h2.error_of heq
                · rename_i asset _
                  have h3 := evalAllotSrc_nf henv hok asset a items hsrc (allocate al v) st.bal
                    (by rw [allocate_length', makeAllotment_length hal, AllotSrcList.portions_length])
                  split
                  · rename_i err heq; exact h3.error_of heq
                  · rename_i fs b1 _
                    have h4 := assemble_nf fs
                    split
                    · rename_i err heq; exact h4.error_of heq
                    · exact finishSend_nf henv hok h _ _
            · rw [hk]; exact NF.run _ _
  | sendAll assetE src dst =>
    simp only [checkStmt] at h
    split at h
    · cases h
    · rename_i hm
      cases src with
      | allot items => simp at h
      | src s =>
        simp only at h
        split at h
        · cases h
        · rename_i r hcs
          have h1 := evalAssetE_nf henv (expectTy_inv hm)
          simp only [evalStmt]
          split
          · rename_i err heq; exact h1.error_of heq
          · rename_i asset _
            have h2 := evalSource_nf henv hok asset s true r hcs st.bal
            split
            · rename_i err heq; exact h2.error_of heq
            · exact finishSend_nf henv hok h _ _

theorem checkStmts_inv {ds : Decls} : (ss : List Stmt) → checkStmts ds ss = .ok () →
    ∀ s ∈ ss, checkStmt ds s = .ok ()
  | [], _ => by intro s hs; cases hs
  | x :: xs, h => by
    simp only [checkStmts] at h
    split at h
    · cases h
    · rename_i hx
      intro s hs
      rcases List.mem_cons.mp hs with rfl | hs
      · exact hx
      · exact checkStmts_inv xs h s hs

theorem runStmts_nf {ds : Decls} {env : Env} (henv : EnvTyped ds env) (hok : EnvValsOK env) :
    (ss : List Stmt) → (∀ s ∈ ss, checkStmt ds s = .ok ()) → ∀ st, NF (runStmts Cfg.fixed env ss st)
  | [], _, st => by simp only [runStmts]; exact NF.ok _
  | s :: ss, h, st => by
    have h1 := evalStmt_nf henv hok s (h s (by simp)) st
    simp only [runStmts]
    split
    · rename_i err heq; exact h1.error_of heq
    · rename_i st1 _
      exact runStmts_nf henv hok ss (fun x hx => h x (by simp [hx])) st1

end Ledger.Machine
