import Ledger.Proofs.SqlAccountsUpd

/-!
# `UpsertAccounts`: the CTE `inserted_rows` (INSERT INTO accounts … SELECT … FROM data_batch d WHERE d.address NOT IN (…) RETURNING …)
-/
open Ledger Ledger.Sql Ledger.Generated Ledger.Core
open Ledger.Generated.WriteSql.P (AccountRow)
namespace Ledger.Sql

/-- `SELECT address FROM existing_accounts` -/
def existsQ : Query :=
  Query.mk [] (SetExpr.select (Select.mk false [] [SelItem.expr (Expr.col "" "address") ""] [FromItem.table "" "existing_accounts" ""] none [] none))
    [] none none LockMode.none

/-- the relation of `existing_accounts`: a list of addresses -/
def exRel (E : List String) : Rel := { cols := ["address"], rows := E.map (fun a => [Value.text a]) }

theorem exec_existsQ (n : Nat) (env : Env) (E : List String) (s : St) (hcte : env.ctes.lookup "existing_accounts" = some (exRel E)) :
    (evalQuery (n + 6) env existsQ).exec s = (.ok (exRel E), s) := by
  have hfrom := exec_evalFromList_cte n env "existing_accounts" "" (exRel E) s hcte
  simp only [show ("" : String).isEmpty = true from by decide, if_true] at hfrom
  have hsel := exec_evalSelect_rows (n + 3) env [(Expr.col "" "address", "")] _ none [] s _ (fun _ => true)
    (fun L => match L with
      | a :: _ => [(lookupIn a.cols a.vals "address").getD .null]
      | [] => [])
    hfrom (by intro c h; cases h) (by intro _ L _; rfl) (by rfl) (by rfl)
    (by
      intro L hL _
      obtain ⟨v, hv, rfl⟩ := List.mem_map.mp hL
      obtain ⟨a, _, rfl⟩ := List.mem_map.mp hv
      have hlk : lookupColumn { env with locals := [cteScope "existing_accounts" (exRel E).cols [Value.text a]], group := none, wins := [] } "" "address" =
          .ok (.text a) := by
        simp [lookupColumn, Env.scopes, lookupUnqualified, cteScope, exRel, lookupIn]
        rfl
      simp only [List.map_cons, List.map_nil, evalExprs, evalExpr, exec_bind, hlk, exec_liftR_ok, exec_pure]
      simp [cteScope, exRel, lookupIn])
    _ false (by
      rw [sortOut]
      · rfl
      · intro h; omega)
  rw [existsQ, evalQuery, evalCtes]
  · simp only [exec_bind, exec_pure, exec_typeEnv]
    rw [evalSetExpr]
    simp only [tie_false, List.map_cons, List.map_nil] at hsel
    have hfl : ∀ (X : List (List Scope)), X.filter (fun _ => true) = X := fun X => List.filter_eq_self.mpr (fun _ _ => rfl)
    rw [hfl] at hsel
    have hsel' : (evalSelect (n + 4) env (Select.mk false [] [SelItem.expr (Expr.col "" "address") ""]
        [FromItem.table "" "existing_accounts" ""] none [] none) []).exec s = _ := hsel
    simp only [hsel', exec_bind, evalOpt, exec_pure, applyLimit]
    simp [exRel, outNames, exprOutName, outRowOfL, List.map_map, Function.comp, cteScope, lookupIn]
  · intro h; omega

end Ledger.Sql

namespace Ledger.Sql

/-- the row `inserted_rows` inserts for a batch row -/
def insRow (l : String) (d : DbR) : AcR :=
  { ledger := l, address := d.address, aa := d.aa, ins := d.ins, upd := d.upd, md := jsonConcat d.dm d.md, fu := d.fu }

/-- the values its SELECT produces, in the order of the INSERT column list -/
def insSrcVals (l : String) (d : DbR) : List Value :=
  [.text d.address, .json (jsonConcat d.dm d.md), .ts d.fu, .ts d.upd, .ts d.ins, .text l, .json d.aa]

def insCols : List String := ["address", "metadata", "first_usage", "updated_at", "insertion_date", "ledger", "address_array"]

/-- the meaning of the SELECT of `inserted_rows` -/
structure UpsertInsSem (l : String) (items : List (Expr × String)) (wher : Expr) : Prop where
  hwher : ∀ (n : Nat) (env : Env) (d : DbR) (E : List String) (s : St), env.ctes.lookup "existing_accounts" = some (exRel E) →
    (do
      let v ← evalExpr (cbs (n + 7)) s.w.types { env with locals := [cteScope "d" dbCols d.vals] } wher
      pure ((← liftR v.truth) == some true)).exec s = (.ok (!E.contains d.address), s)
  hitems : ∀ (cb : Callbacks) (te : TypeEnv) (env : Env) (d : DbR) (s : St),
    (evalExprs cb te { env with locals := [cteScope "d" dbCols d.vals], group := none, wins := [] } (items.map (·.1))).exec s =
      (.ok (insSrcVals l d), s)
  hagg : Expr.anyHasAgg (items.map (·.1)) = false
  hwin : Expr.winsList (items.map (·.1)) = []

theorem lookup_d1 (env : Env) (dv : List Value) (c : String) (v : Value) (h : lookupIn dbCols dv c = some v) :
    lookupColumn { env with locals := [cteScope "d" dbCols dv] } "d" c = .ok v := by
  simp [lookupColumn, Env.scopes, findScope, lastComponent_d, cteScope, h]
  rfl

/-- `(SELECT batch_index FROM data_batch WHERE address = "<b>.accounts".address)` of the RETURNING list -/
def biSubQ (b : String) : Query :=
  Query.mk [] (SetExpr.select (Select.mk false [] [SelItem.expr (Expr.col "" "batch_index") ""] [FromItem.table "" "data_batch" ""]
    (some (Expr.binop BinOp.eq (Expr.col "" "address") (Expr.col (b ++ ".accounts") "address"))) [] none)) [] none none LockMode.none

def insReturning (b : String) : List SelItem :=
  [SelItem.expr (Expr.col "" "address") "", SelItem.expr (Expr.col "" "metadata") "", SelItem.expr (Expr.col "" "first_usage") "",
   SelItem.expr (Expr.col "" "updated_at") "", SelItem.expr (Expr.col "" "insertion_date") "", SelItem.expr (Expr.subq (biSubQ b)) ""]

/-- the final SELECT of `UpsertAccounts` -/
def upsertBody : SetExpr :=
  SetExpr.union true (SetExpr.select (Select.mk false [] [SelItem.star ""] [FromItem.table "" "updated_rows" ""] none [] none))
    (SetExpr.select (Select.mk false [] [SelItem.star ""] [FromItem.table "" "inserted_rows" ""] none [] none))

open Ledger.Generated.WriteSql in
/-- the shape of the fourth CTE of `UpsertAccounts`, and the meaning of its SELECT -/
theorem upsertAccounts_shape4 (b l : String) (id : Nat) :
    ∃ (eMd eFu eUp wherU : Expr) (items : List (Expr × String)) (wherI : Expr),
      (∀ rows, P.upsertAccounts b l id rows =
        [Stmt.query (Query.mk [Cte.mk "data_batch" dbCols (dataBatchStmt rows), Cte.mk "existing_accounts" [] (existingStmt b l),
            Cte.mk "updated_rows" [] (Stmt.update [] b "accounts" "a"
              [SetItem.mk "metadata" eMd, SetItem.mk "first_usage" eFu, SetItem.mk "updated_at" eUp]
              [FromItem.table "" "data_batch" "d"] (some wherU) updReturning),
            Cte.mk "inserted_rows" [] (Stmt.insert [] b "accounts" "" insCols
              (InsertSrc.query (Query.mk [] (SetExpr.select (Select.mk false [] (items.map (fun p => SelItem.expr p.1 p.2))
                [FromItem.table "" "data_batch" "d"] (some wherI) [] none)) [] none none LockMode.none)) none (insReturning b))] upsertBody [] none none LockMode.none)]) ∧
      UpsertUpdSem l eMd eFu eUp wherU ∧ UpsertInsSem l items wherI := by
  obtain ⟨c4', body', eMd', eFu', eUp', wherU', hshape', hsemU⟩ := upsertAccounts_shape b l id
  refine ⟨_, _, _, _,
    [(Expr.col "d" "address", ""), (Expr.binop BinOp.concat (Expr.col "d" "default_metadata") (Expr.col "d" "metadata"), ""),
     (Expr.call "" "coalesce" [Expr.col "d" "first_usage", Expr.call b "transaction_date" []], ""),
     (Expr.call "" "coalesce" [Expr.col "d" "updated_at", Expr.call b "transaction_date" []], ""),
     (Expr.call "" "coalesce" [Expr.col "d" "insertion_date", Expr.call b "transaction_date" []], ""),
     (Expr.str l, ""), (Expr.col "d" "address_array", "")], _, fun rows => rfl, ?_, ⟨?_, ?_, rfl, rfl⟩⟩
  · have e := hshape' []
    simp only [Ledger.Generated.WriteSql.P.upsertAccounts, List.cons.injEq, Stmt.query.injEq, Query.mk.injEq, Cte.mk.injEq, Stmt.update.injEq,
      SetItem.mk.injEq, Option.some.injEq, and_true, true_and] at e
    obtain ⟨⟨_, _, ⟨⟨h1, h2, h3⟩, h4⟩, _⟩, _⟩ := e
    rw [h1, h2, h3, h4.1]
    exact hsemU
  · -- WHERE d.address NOT IN (SELECT address FROM existing_accounts)
    intro n env d E s hcte
    have d1 := lookup_d1 env d.vals "address" (.text d.address) rfl
    have hsub : (cbs (n + 7)).sub existsQ { env with locals := [cteScope "d" dbCols d.vals] } =
        evalQuery (n + 6) (subEnv { env with locals := [cteScope "d" dbCols d.vals] }) existsQ := rfl
    have hq := exec_existsQ n (subEnv { env with locals := [cteScope "d" dbCols d.vals] }) E s hcte
    have hin : inValues (Value.text d.address) (List.map (fun r => r.headD Value.null) (exRel E).rows) = .ok (some (E.contains d.address)) := by
      have : List.map (fun r => r.headD Value.null) (exRel E).rows = E.map Value.text := by
        simp [exRel, List.map_map, Function.comp]
      rw [this, inValues_text]
    show (do
      let v ← evalExpr (cbs (n + 7)) s.w.types { env with locals := [cteScope "d" dbCols d.vals] } (Expr.inSub (Expr.col "d" "address") existsQ true)
      pure ((← liftR v.truth) == some true)).exec s = _
    simp only [evalExpr, exec_bind, d1, exec_liftR_ok, hsub, hq, hin, exec_pure, if_true, not3, ofTruth]
    cases E.contains d.address <;> rfl
  · intro cb te env d s
    have q := fun c v h => lookup_d1 { env with group := none, wins := [] } d.vals c v h
    have q1 := q "address" (.text d.address) rfl
    have q2 := q "default_metadata" (.json d.dm) rfl
    have q3 := q "metadata" (.json d.md) rfl
    have q4 := q "first_usage" (.ts d.fu) rfl
    have q5 := q "updated_at" (.ts d.upd) rfl
    have q6 := q "insertion_date" (.ts d.ins) rfl
    have q7 := q "address_array" (.json d.aa) rfl
    have hco : ((("" : String).isEmpty || "" == "pg_catalog") && "coalesce" == "coalesce") = true := by decide
    have hcc : evalBinop .concat (.json d.dm) (.json d.md) = .ok (.json (jsonConcat d.dm d.md)) := by
      simp [evalBinop, Value.isNull]
      rfl
    simp only [List.map_cons, List.map_nil, evalExprs, evalExpr, evalCoalesce, hco, if_true, exec_bind, q1, q2, q3, q4, q5, q6, q7,
      exec_liftR_ok, hcc, Value.isNull, Bool.false_eq_true, if_false, exec_pure, insSrcVals]

end Ledger.Sql

namespace Ledger.Sql

theorem exec_buildRow_ac (n : Nat) (b l : String) (trigs : List TriggerDef) (nr : Nat) (rows : List Ver) (d : DbR) (s : St) :
    (buildRow (n + 1) ((acT b trigs nr).withRows rows) insCols ((insSrcVals l d).map some)).exec s = (.ok (insRow l d).vals, s) := by
  rw [buildRow]
  have hcols : ((acT b trigs nr).withRows rows).cols = Schema.tbl_accounts.cols := rfl
  have hnames : ((acT b trigs nr).withRows rows).colNames = acCols := rfl
  have hfind : insCols.find? (fun c => !(acCols.contains c)) = none := by decide
  have hlen : (insCols.length != ((insSrcVals l d).map some).length) = false := rfl
  simp only [exec_bind, exec_typeEnv, hlen, Bool.false_eq_true, if_false, hnames, hfind, hcols, Schema.tbl_accounts]
  have g0 : (insCols.zip ((insSrcVals l d).map some)).lookup "ledger" = some (some (.text l)) := rfl
  have g1 : (insCols.zip ((insSrcVals l d).map some)).lookup "address" = some (some (.text d.address)) := rfl
  have g2 : (insCols.zip ((insSrcVals l d).map some)).lookup "address_array" = some (some (.json d.aa)) := rfl
  have g3 : (insCols.zip ((insSrcVals l d).map some)).lookup "insertion_date" = some (some (.ts d.ins)) := rfl
  have g4 : (insCols.zip ((insSrcVals l d).map some)).lookup "updated_at" = some (some (.ts d.upd)) := rfl
  have g5 : (insCols.zip ((insSrcVals l d).map some)).lookup "metadata" = some (some (.json (jsonConcat d.dm d.md))) := rfl
  have g6 : (insCols.zip ((insSrcVals l d).map some)).lookup "first_usage" = some (some (.ts d.fu)) := rfl
  have cj : ∀ j, castTo s.w.types (SqlType.mk "" "jsonb" "" false) (.json j) = .ok (.json j) := castTo_jsonb_json' _
  have ct : ∀ t, castTo s.w.types (SqlType.mk "" "timestamp" "" false) (.ts t) = .ok (.ts t) := castTo_ts_ts' _
  simp only [exec_mapM_cons, g0, g1, g2, g3, g4, g5, g6, exec_bind, exec_pure, List.mapM_nil, castTo_varchar_text, cj, ct, exec_liftR_ok]
  rfl

end Ledger.Sql

namespace Ledger.Sql

theorem lastComponent_dotaccounts (b : String) : lastComponent (b ++ ".accounts") = "accounts" := by
  have : b ++ ".accounts" = b ++ "." ++ "accounts" := by
    rw [String.append_assoc]; rfl
  rw [this, lastComponent_dot_accounts]

/-- the sub-query, evaluated for the inserted row of address `addr` -/
theorem exec_biSubQ (n : Nat) (env : Env) (b : String) (ds : List DbR) (av : List Value) (addr : String) (s : St)
    (hcte : env.ctes.lookup "data_batch" = some (dbRel ds))
    (hav : lookupIn acCols av "address" = some (.text addr)) (houter : ∃ rest, env.outer = ({ alias := "accounts", cols := acCols, vals := av } : Scope) :: rest)
    (hloc : env.locals = []) :
    (evalQuery (n + 6) env (biSubQ b)).exec s =
      (.ok { cols := ["batch_index"], rows := (ds.filter (fun d => decide (d.address = addr))).map (fun d => [.json d.bi]) }, s) := by
  obtain ⟨rest, houter⟩ := houter
  have hfrom := exec_evalFromList_cte n env "data_batch" "" (dbRel ds) s hcte
  simp only [show ("" : String).isEmpty = true from by decide, if_true] at hfrom
  have hsel := exec_evalSelect_rows (n + 3) env [(Expr.col "" "batch_index", "")] _
    (some (Expr.binop BinOp.eq (Expr.col "" "address") (Expr.col (b ++ ".accounts") "address"))) [] s _
    (fun L => match L with
      | sc :: _ => (match dbDec sc.vals with | some d => decide (d.address = addr) | none => false)
      | [] => false)
    (fun L => match L with
      | sc :: _ => [(lookupIn sc.cols sc.vals "batch_index").getD .null]
      | [] => [])
    hfrom
    (by
      intro c hc L hL
      cases hc
      obtain ⟨v, hv, rfl⟩ := List.mem_map.mp hL
      obtain ⟨d, _, rfl⟩ := List.mem_map.mp hv
      have h1 := lookup_local_unq { env with locals := [cteScope "data_batch" (dbRel ds).cols d.vals] } (cteScope "data_batch" (dbRel ds).cols d.vals) rfl
        "address" (.text d.address) rfl
      have h2 : lookupColumn { env with locals := [cteScope "data_batch" (dbRel ds).cols d.vals] } (b ++ ".accounts") "address" = .ok (.text addr) := by
        have e : ("data_batch" == "accounts") = false := by decide
        simp [lookupColumn, Env.scopes, findScope, lastComponent_dotaccounts, cteScope, houter, e, hav]
        rfl
      simp only [evalExpr, exec_bind, h1, h2, exec_liftR_ok, evalBinop_eq_text, truth_bool, exec_pure]
      simp only [cteScope, dbDec_vals]
      cases decide (d.address = addr) <;> rfl)
    (by intro h; cases h) (by rfl) (by rfl)
    (by
      intro L hL _
      obtain ⟨v, hv, rfl⟩ := List.mem_map.mp hL
      obtain ⟨d, _, rfl⟩ := List.mem_map.mp hv
      have h1 := lookup_local_unq { env with locals := [cteScope "data_batch" (dbRel ds).cols d.vals], group := none, wins := [] }
        (cteScope "data_batch" (dbRel ds).cols d.vals) rfl "batch_index" (.json d.bi) rfl
      simp only [List.map_cons, List.map_nil, evalExprs, evalExpr, exec_bind, h1, exec_liftR_ok, exec_pure]
      rfl)
    _ false (by
      rw [sortOut]
      · rfl
      · intro h; omega)
  rw [biSubQ, evalQuery, evalCtes]
  · simp only [exec_bind, exec_pure, exec_typeEnv]
    rw [evalSetExpr]
    simp only [tie_false, List.map_cons, List.map_nil] at hsel
    have hsel' : (evalSelect (n + 4) env (Select.mk false [] [SelItem.expr (Expr.col "" "batch_index") ""]
        [FromItem.table "" "data_batch" ""] (some (Expr.binop BinOp.eq (Expr.col "" "address") (Expr.col (b ++ ".accounts") "address"))) [] none) []).exec s = _ := hsel
    simp only [hsel', exec_bind, evalOpt, exec_pure, applyLimit]
    simp only [dbRel, List.map_map, List.filter_map, outNames, exprOutName, outRowOfL, Function.comp, cteScope, dbDec_vals]
    congr 2
  · intro h; omega

end Ledger.Sql

namespace Ledger.Sql

/-- the RETURNING row of an inserted account -/
def insRetRow (l : String) (d : DbR) : List Value :=
  [.text d.address, .json (jsonConcat d.dm d.md), .ts d.fu, .ts d.upd, .ts d.ins, .json d.bi]

theorem filter_addr_single (ds : List DbR) (hnd : (ds.map (·.address)).Nodup) (d : DbR) (hd : d ∈ ds) :
    ds.filter (fun d' => decide (d'.address = d.address)) = [d] := by
  induction ds with
  | nil => cases hd
  | cons x xs ih =>
    simp only [List.map_cons, List.nodup_cons] at hnd
    rcases List.mem_cons.mp hd with rfl | hd'
    · have : xs.filter (fun d' => decide (d'.address = d.address)) = [] := by
        apply List.filter_eq_nil_iff.mpr
        intro y hy
        simp only [decide_eq_true_eq]
        intro e
        exact hnd.1 (by rw [← e]; exact List.mem_map_of_mem hy)
      simp [List.filter_cons, this]
    · have hne : x.address ≠ d.address := by
        intro e
        exact hnd.1 (by rw [e]; exact List.mem_map_of_mem hd')
      simp [List.filter_cons, hne, ih hnd.2 hd']

theorem exec_accReturning_acIns (k : Nat) (env : Env) (b l : String) (trigs : List TriggerDef) (nr : Nat) (rows : List Ver) (ds : List DbR)
    (d : DbR) (acc : DmlAcc) (s : St) (hcte : env.ctes.lookup "data_batch" = some (dbRel ds)) (hd : d ∈ ds)
    (hnd : (ds.map (·.address)).Nodup) :
    (accReturning (k + 9) env ((acT b trigs nr).withRows rows) "" (insRow l d).vals [] (insReturning b) acc).exec s =
      (.ok { retCols := updRetCols, retRows := acc.retRows ++ [insRetRow l d], affected := acc.affected + 1 }, s) := by
  have hbase : baseName ((acT b trigs nr).withRows rows).name = "accounts" := lastComponent_dot_accounts b
  have hq : ∀ c v, lookupIn acCols (insRow l d).vals c = some v →
      lookupColumn { env with locals := [({ alias := "accounts", cols := acCols, vals := (insRow l d).vals } : Scope)] } "" c = .ok v := by
    intro c v h
    exact lookup_local_unq _ { alias := "accounts", cols := acCols, vals := (insRow l d).vals } rfl c v h
  have q1 := hq "address" (.text d.address) rfl
  have q2 := hq "metadata" (.json (jsonConcat d.dm d.md)) rfl
  have q3 := hq "first_usage" (.ts d.fu) rfl
  have q4 := hq "updated_at" (.ts d.upd) rfl
  have q5 := hq "insertion_date" (.ts d.ins) rfl
  have hsubE : (cbs (k + 7)).sub (biSubQ b) { env with locals := [({ alias := "accounts", cols := acCols, vals := (insRow l d).vals } : Scope)] } =
      evalQuery (k + 6) (subEnv { env with locals := [({ alias := "accounts", cols := acCols, vals := (insRow l d).vals } : Scope)] }) (biSubQ b) := rfl
  have hsub := exec_biSubQ k (subEnv { env with locals := [({ alias := "accounts", cols := acCols, vals := (insRow l d).vals } : Scope)] })
    b ds (insRow l d).vals d.address s hcte rfl ⟨env.outer, rfl⟩ rfl
  rw [filter_addr_single ds hnd d hd] at hsub
  have hname : exprOutName (Expr.subq (biSubQ b)) = "batch_index" := rfl
  rw [accReturning]
  simp only [insReturning, List.isEmpty_cons, Bool.false_eq_true, if_false, exec_bind]
  rw [evalReturning]
  simp only [exec_bind, exec_typeEnv, show ("" : String).isEmpty = true from by decide, if_true, hbase, exec_foldlM_cons, List.foldlM_nil,
    evalExpr, acT_colNames, withRows_colNames, q1, q2, q3, q4, q5, hsubE, hsub, exec_liftR_ok, exec_pure, hname, List.map_cons, List.map_nil,
    List.nil_append, List.cons_append, List.append_nil]
  simp only [exprOutName]
  rfl

end Ledger.Sql

namespace Ledger.Sql

theorem exec_insertRowStep_ac (k : Nat) (env : Env) (b l : String) (trigs : List TriggerDef) (nr : Nat) (rows : List Ver) (ds : List DbR)
    (d : DbR) (acc : DmlAcc) (s : St) (hs : TxState s) (hT : s.w.table? (acFull b) = some ((acT b trigs nr).withRows rows))
    (htyped : AcTyped rows)
    (hnb : trigs.filter (fun tr => tr.timing == .before && tr.event == .insert) = [])
    (QI : AcR → List PendingTrig)
    (hqaI : ∀ (nr' : Nat) (rows' : List Ver) (a : AcR) (s' : St), a.ledger = l →
      (queueAfter (k + 9) ((acT b trigs nr').withRows rows') .insert [] (some a.vals) none).exec s' = (.ok (), s'.addQ (QI a)))
    (hno : ∀ q ∈ rows, q.visible (latestView s.w s.xid) = true → acKeyOf q.vals ≠ (l, d.address))
    (hcte : env.ctes.lookup "data_batch" = some (dbRel ds)) (hd : d ∈ ds) (hnd : (ds.map (·.address)).Nodup) :
    (insertRowStep (k + 10) env (acFull b) "accounts" "" insCols none (insReturning b) ((insSrcVals l d).map some) acc).exec s =
      (.ok { retCols := updRetCols, retRows := acc.retRows ++ [insRetRow l d], affected := acc.affected + 1 },
       (s.withTable ((acT b trigs (nr + 1)).withRows (newVer s.xid s.cid nr (insRow l d).vals :: rows))).addQ (QI (insRow l d))) := by
  rw [insertRowStep]
  have hbuild := exec_buildRow_ac (k + 8) b l trigs nr rows d s
  have hfire := exec_fireBefore_none (k + 8) ((acT b trigs nr).withRows rows) .insert (by simp) [] (insRow l d).vals none s
    (by simpa [acT, Table.withRows] using hnb)
  have hconf := exec_findConflict_ac b trigs nr rows (insRow l d) none s hs.solo htyped (fun q hq hv _ => hno q hq hv)
  have hins : (insertVersion (acFull b) (insRow l d).vals).exec s =
      (.ok nr, s.withTable ((acT b trigs (nr + 1)).withRows (newVer s.xid s.cid nr (insRow l d).vals :: rows))) :=
    exec_insertVersion hT (insRow l d).vals
  have hT2 : (s.withTable ((acT b trigs (nr + 1)).withRows (newVer s.xid s.cid nr (insRow l d).vals :: rows))).w.table? (acFull b) =
      some ((acT b trigs (nr + 1)).withRows (newVer s.xid s.cid nr (insRow l d).vals :: rows)) :=
    withTable_table? _ ((acT b trigs nr).withRows rows) _ hT
  have hqa := hqaI (nr + 1) (newVer s.xid s.cid nr (insRow l d).vals :: rows) (insRow l d)
    (s.withTable ((acT b trigs (nr + 1)).withRows (newVer s.xid s.cid nr (insRow l d).vals :: rows))) rfl
  simp only [exec_bind, exec_getTable hT, hbuild, hfire, exec_checkConstraints_ac, exec_pure, acT_uniques, hconf, exec_checkForeignKeys_ac,
    hins, exec_getTable hT2, hqa, exec_accReturning_acIns k env b l trigs (nr + 1) _ ds d acc _ hcte hd hnd]

end Ledger.Sql

namespace Ledger.Sql

def acInsRows (xid cid : Nat) (l : String) : Nat → List Ver → List DbR → List Ver
  | _, rows, [] => rows
  | nr, rows, d :: ds => acInsRows xid cid l (nr + 1) (newVer xid cid nr (insRow l d).vals :: rows) ds

def acInsAcc (l : String) : DmlAcc → List DbR → DmlAcc
  | acc, [] => acc
  | acc, d :: ds => acInsAcc l (DmlAcc.mk updRetCols (acc.retRows ++ [insRetRow l d]) (acc.affected + 1)) ds

/-- the AFTER INSERT triggers queued by the loop -/
def acInsQ (l : String) (QI : AcR → List PendingTrig) (D : List DbR) : List PendingTrig := D.flatMap (fun d => QI (insRow l d))

theorem exec_insertLoop_ac (k : Nat) (env : Env) (b l : String) (trigs : List TriggerDef) (ds : List DbR)
    (hnb : trigs.filter (fun tr => tr.timing == .before && tr.event == .insert) = [])
    (QI : AcR → List PendingTrig)
    (hqaI : ∀ (nr' : Nat) (rows' : List Ver) (a : AcR) (s' : St), a.ledger = l →
      (queueAfter (k + 9) ((acT b trigs nr').withRows rows') .insert [] (some a.vals) none).exec s' = (.ok (), s'.addQ (QI a)))
    (hcte : env.ctes.lookup "data_batch" = some (dbRel ds)) (hnd : (ds.map (·.address)).Nodup) :
    ∀ (D : List DbR) (s0 : St) (T0 : Table) (nr : Nat) (rows : List Ver) (acc : DmlAcc), TxState s0 → s0.w.table? (acFull b) = some T0 →
      (∀ d ∈ D, d ∈ ds) → (D.map (·.address)).Nodup → AcTyped rows →
      (∀ d ∈ D, ∀ q ∈ rows, q.visible (latestView s0.w s0.xid) = true → acKeyOf q.vals ≠ (l, d.address)) →
      ((D.map (fun d => (insSrcVals l d).map some)).foldlM (fun acc sr =>
          insertRowStep (k + 10) env (acFull b) "accounts" "" insCols none (insReturning b) sr acc) acc).exec
          (s0.withTable ((acT b trigs nr).withRows rows)) =
        (.ok (acInsAcc l acc D),
         (s0.withTable ((acT b trigs (nr + D.length)).withRows (acInsRows s0.xid s0.cid l nr rows D))).addQ (acInsQ l QI D)) := by
  intro D
  induction D with
  | nil => intro s0 T0 nr rows acc _ _ _ _ _ _; simp [acInsAcc, acInsRows, acInsQ]
  | cons d D ih =>
    intro s0 T0 nr rows acc hs0 hT0 hmem hndD htyped hno
    have hndD' : d.address ∉ D.map (·.address) ∧ (D.map (·.address)).Nodup := List.nodup_cons.mp hndD
    have hT : (s0.withTable ((acT b trigs nr).withRows rows)).w.table? (acFull b) = some ((acT b trigs nr).withRows rows) :=
      withTable_table? s0 T0 ((acT b trigs nr).withRows rows) hT0
    have hstep := exec_insertRowStep_ac k env b l trigs nr rows ds d acc (s0.withTable ((acT b trigs nr).withRows rows)) (hs0.withTable _) hT htyped
      hnb QI hqaI (by simpa using hno d (by simp)) hcte (hmem d (by simp)) hnd
    simp only [withTable_xid, withTable_cid] at hstep
    simp only [List.map_cons, exec_foldlM_cons, hstep]
    rw [withTable_withTable _ _ _ (by rfl), ← addQ_withTable]
    have hT0' : (s0.addQ (QI (insRow l d))).w.table? (acFull b) = some T0 := hT0
    have hih := ih (s0.addQ (QI (insRow l d))) T0 (nr + 1) (newVer s0.xid s0.cid nr (insRow l d).vals :: rows)
      (DmlAcc.mk updRetCols (acc.retRows ++ [insRetRow l d]) (acc.affected + 1)) (hs0.addQ _) hT0' (fun x hx => hmem x (by simp [hx])) hndD'.2
      (by
        intro q hq
        rcases List.mem_cons.mp hq with rfl | hq
        · exact ⟨insRow l d, rfl⟩
        · exact htyped q hq)
      (by
        intro d' hd' q hq hv
        rcases List.mem_cons.mp hq with rfl | hq
        · simp only [newVer, acKeyOf_vals, insRow]
          intro e
          have : d.address = d'.address := by simpa using e
          exact hndD'.1 (by rw [this]; exact List.mem_map_of_mem hd')
        · exact hno d' (by simp [hd']) q hq hv)
    have e : nr + 1 + D.length = nr + (D.length + 1) := by omega
    rw [e] at hih
    refine hih.trans ?_
    simp only [addQ_xid, addQ_cid, acInsAcc, acInsRows, List.length_cons, acInsQ, List.flatMap_cons]
    rw [addQ_withTable, addQ_addQ]

end Ledger.Sql

namespace Ledger.Sql

/-- the SELECT feeding `inserted_rows` -/
def insSelQ (items : List (Expr × String)) (wher : Expr) : Query :=
  Query.mk [] (SetExpr.select (Select.mk false [] (items.map (fun p => SelItem.expr p.1 p.2))
    [FromItem.table "" "data_batch" "d"] (some wher) [] none)) [] none none LockMode.none

theorem exec_insSelQ (k : Nat) (env : Env) (l : String) (ds : List DbR) (E : List String) (items : List (Expr × String)) (wher : Expr)
    (hsem : UpsertInsSem l items wher) (s : St)
    (hcteD : env.ctes.lookup "data_batch" = some (dbRel ds)) (hcteE : env.ctes.lookup "existing_accounts" = some (exRel E)) :
    (evalQuery (k + 10) env (insSelQ items wher)).exec s =
      (.ok { cols := outNames items, rows := (ds.filter (fun d => !E.contains d.address)).map (insSrcVals l) }, s) := by
  have hfrom := exec_evalFromList_cte (k + 4) env "data_batch" "d" (dbRel ds) s hcteD
  simp only [show ("d" : String).isEmpty = false from by decide, Bool.false_eq_true, if_false] at hfrom
  have hsel := exec_evalSelect_rows (k + 7) env items _ (some wher) [] s _
    (fun L => match L with
      | sc :: _ => (match dbDec sc.vals with | some d => !E.contains d.address | none => false)
      | [] => false)
    (fun L => match L with
      | sc :: _ => (match dbDec sc.vals with | some d => insSrcVals l d | none => [])
      | [] => [])
    hfrom
    (by
      intro c hc L hL
      cases hc
      obtain ⟨v, hv, rfl⟩ := List.mem_map.mp hL
      obtain ⟨d, _, rfl⟩ := List.mem_map.mp hv
      have := hsem.hwher k env d E s hcteE
      simp only [dbRel, dbDec_vals] at this ⊢
      exact this)
    (by intro h; cases h)
    (by simp [hsem.hagg])
    (by simp [hsem.hwin, Expr.winsList])
    (by
      intro L hL _
      obtain ⟨v, hv, rfl⟩ := List.mem_map.mp hL
      obtain ⟨d, _, rfl⟩ := List.mem_map.mp hv
      have := hsem.hitems (cbs (k + 7)) s.w.types env d s
      simp only [dbRel, dbDec_vals] at this ⊢
      exact this)
    _ false (by
      rw [sortOut]
      · rfl
      · intro h; omega)
  rw [insSelQ, evalQuery, evalCtes]
  · simp only [exec_bind, exec_pure, exec_typeEnv]
    rw [evalSetExpr]
    simp only [tie_false] at hsel
    simp only [hsel, exec_bind, evalOpt, exec_pure, applyLimit]
    simp only [dbRel, List.map_map, List.filter_map, outRowOfL, Function.comp, cteScope, dbDec_vals]
    congr 3
  · intro h; omega

end Ledger.Sql

namespace Ledger.Sql

theorem evalBinop_eq_text_null (a : String) : evalBinop .eq (.text a) .null = .ok .null := by
  simp [evalBinop, compareValues, compareScalar, ofTruth]; rfl

/-- the sub-query of RETURNING on the all-NULL row (column names of an INSERT that wrote no row) -/
theorem exec_biSubQ_null (n : Nat) (env : Env) (b : String) (ds : List DbR) (av : List Value) (s : St)
    (hcte : env.ctes.lookup "data_batch" = some (dbRel ds))
    (hav : lookupIn acCols av "address" = some .null) (houter : ∃ rest, env.outer = ({ alias := "accounts", cols := acCols, vals := av } : Scope) :: rest) :
    (evalQuery (n + 6) env (biSubQ b)).exec s = (.ok { cols := ["batch_index"], rows := [] }, s) := by
  obtain ⟨rest, houter⟩ := houter
  have hfrom := exec_evalFromList_cte n env "data_batch" "" (dbRel ds) s hcte
  simp only [show ("" : String).isEmpty = true from by decide, if_true] at hfrom
  have hsel := exec_evalSelect_rows (n + 3) env [(Expr.col "" "batch_index", "")] _
    (some (Expr.binop BinOp.eq (Expr.col "" "address") (Expr.col (b ++ ".accounts") "address"))) [] s _
    (fun _ => false) (fun _ => [])
    hfrom
    (by
      intro c hc L hL
      cases hc
      obtain ⟨v, hv, rfl⟩ := List.mem_map.mp hL
      obtain ⟨d, _, rfl⟩ := List.mem_map.mp hv
      have h1 := lookup_local_unq { env with locals := [cteScope "data_batch" (dbRel ds).cols d.vals] } (cteScope "data_batch" (dbRel ds).cols d.vals) rfl
        "address" (.text d.address) rfl
      have h2 : lookupColumn { env with locals := [cteScope "data_batch" (dbRel ds).cols d.vals] } (b ++ ".accounts") "address" = .ok .null := by
        have e : ("data_batch" == "accounts") = false := by decide
        simp [lookupColumn, Env.scopes, findScope, lastComponent_dotaccounts, cteScope, houter, e, hav]
        rfl
      simp only [evalExpr, exec_bind, h1, h2, exec_liftR_ok, evalBinop_eq_text_null, exec_pure]
      rfl)
    (by intro h; cases h) (by rfl) (by rfl)
    (by intro L _ h; cases h)
    _ false (by
      rw [sortOut]
      · rfl
      · intro h; omega)
  rw [biSubQ, evalQuery, evalCtes]
  · simp only [exec_bind, exec_pure, exec_typeEnv]
    rw [evalSetExpr]
    simp only [tie_false, List.map_cons, List.map_nil] at hsel
    have hsel' : (evalSelect (n + 4) env (Select.mk false [] [SelItem.expr (Expr.col "" "batch_index") ""]
        [FromItem.table "" "data_batch" ""] (some (Expr.binop BinOp.eq (Expr.col "" "address") (Expr.col (b ++ ".accounts") "address"))) [] none) []).exec s = _ := hsel
    simp only [hsel', exec_bind, evalOpt, exec_pure, applyLimit]
    simp [outNames, exprOutName]
  · intro h; omega

theorem exec_protoRet_ins (k : Nat) (env : Env) (b : String) (trigs : List TriggerDef) (nr : Nat) (rows : List Ver) (ds : List DbR) (s : St)
    (hcte : env.ctes.lookup "data_batch" = some (dbRel ds)) :
    (evalReturning (k + 8) env ((acT b trigs nr).withRows rows) "" ((acT b trigs nr).cols.map (fun _ => Value.null)) []
      (protoReturning (insReturning b))).exec s = (.ok (updRetCols, [.null, .null, .null, .null, .null, .null]), s) := by
  have hbase : baseName ((acT b trigs nr).withRows rows).name = "accounts" := lastComponent_dot_accounts b
  have hc : (acT b trigs nr).cols.map (fun _ => Value.null) = [Value.null, .null, .null, .null, .null, .null, .null] := rfl
  have hq : ∀ c, lookupIn acCols [Value.null, .null, .null, .null, .null, .null, .null] c = some .null →
      lookupColumn { env with locals := [({ alias := "accounts", cols := acCols, vals := [Value.null, .null, .null, .null, .null, .null, .null] } : Scope)] } "" c = .ok .null := by
    intro c h
    exact lookup_local_unq _ { alias := "accounts", cols := acCols, vals := [Value.null, .null, .null, .null, .null, .null, .null] } rfl c .null h
  have q1 := hq "address" rfl
  have q2 := hq "metadata" rfl
  have q3 := hq "first_usage" rfl
  have q4 := hq "updated_at" rfl
  have q5 := hq "insertion_date" rfl
  have hsubE : (cbs (k + 7)).sub (biSubQ b) { env with locals := [({ alias := "accounts", cols := acCols, vals := [Value.null, .null, .null, .null, .null, .null, .null] } : Scope)] } =
      evalQuery (k + 6) (subEnv { env with locals := [({ alias := "accounts", cols := acCols, vals := [Value.null, .null, .null, .null, .null, .null, .null] } : Scope)] }) (biSubQ b) := rfl
  have hsub := exec_biSubQ_null k (subEnv { env with locals := [({ alias := "accounts", cols := acCols, vals := [Value.null, .null, .null, .null, .null, .null, .null] } : Scope)] })
    b ds [Value.null, .null, .null, .null, .null, .null, .null] s hcte rfl ⟨env.outer, rfl⟩
  have hname : exprOutName (Expr.subq (biSubQ b)) = "batch_index" := rfl
  rw [evalReturning]
  simp only [protoReturning, insReturning, List.map_cons, List.map_nil, show ("" : String).isEmpty = true from by decide, if_true, hbase,
    exec_bind, exec_typeEnv, exec_foldlM_cons, List.foldlM_nil, evalExpr, acT_colNames, withRows_colNames, hc, q1, q2, q3, q4, q5, hsubE, hsub,
    exec_liftR_ok, exec_pure, hname, List.nil_append, List.cons_append, List.append_nil]
  simp only [exprOutName]
  rfl

end Ledger.Sql

namespace Ledger.Sql

theorem acInsAcc_spec (l : String) : ∀ (D : List DbR) (acc : DmlAcc),
    (acInsAcc l acc D).retRows = acc.retRows ++ D.map (insRetRow l) ∧ (acInsAcc l acc D).affected = acc.affected + D.length ∧
    (acInsAcc l acc D).retCols = if D.isEmpty then acc.retCols else updRetCols := by
  intro D
  induction D with
  | nil => intro acc; simp [acInsAcc]
  | cons d D ih =>
    intro acc
    obtain ⟨h1, h2, h3⟩ := ih (DmlAcc.mk updRetCols (acc.retRows ++ [insRetRow l d]) (acc.affected + 1))
    refine ⟨?_, ?_, ?_⟩
    · simp [acInsAcc, h1, List.append_assoc]
    · simp [acInsAcc, h2]; omega
    · simp only [acInsAcc, h3]
      cases D <;> simp

/-- the fourth CTE: the batch rows without an existing account are inserted -/
theorem exec_insertedRows (k : Nat) (env : Env) (b l : String) (trigs : List TriggerDef) (nr : Nat) (rows : List Ver) (ds : List DbR)
    (E : List String) (items : List (Expr × String)) (wher : Expr) (hsem : UpsertInsSem l items wher)
    (s : St) (hs : TxState s) (hb : b.isEmpty = false) (hT : s.w.table? (acFull b) = some ((acT b trigs nr).withRows rows))
    (htyped : AcTyped rows)
    (hnb : trigs.filter (fun tr => tr.timing == .before && tr.event == .insert) = [])
    (QI : AcR → List PendingTrig)
    (hqaI : ∀ (nr' : Nat) (rows' : List Ver) (a : AcR) (s' : St), a.ledger = l →
      (queueAfter (k + 9) ((acT b trigs nr').withRows rows') .insert [] (some a.vals) none).exec s' = (.ok (), s'.addQ (QI a)))
    (hcteD : env.ctes.lookup "data_batch" = some (dbRel ds)) (hcteE : env.ctes.lookup "existing_accounts" = some (exRel E))
    (hnd : (ds.map (·.address)).Nodup)
    (hno : ∀ d ∈ ds, E.contains d.address = false → ∀ q ∈ rows, q.visible (latestView s.w s.xid) = true → acKeyOf q.vals ≠ (l, d.address)) :
    (execStmt (k + 12) env (Stmt.insert [] b "accounts" "" insCols (InsertSrc.query (insSelQ items wher)) none (insReturning b))).exec s =
      (.ok { rel := { cols := updRetCols, rows := (ds.filter (fun d => !E.contains d.address)).map (insRetRow l) },
             affected := (ds.filter (fun d => !E.contains d.address)).length },
       (s.withTable ((acT b trigs (nr + (ds.filter (fun d => !E.contains d.address)).length)).withRows
         (acInsRows s.xid s.cid l nr rows (ds.filter (fun d => !E.contains d.address))))).addQ
         (acInsQ l QI (ds.filter (fun d => !E.contains d.address)))) := by
  have hq : (qualify b "accounts").exec s = (.ok (acFull b), s) := by simp [qualify, hb, acFull]
  have hsrc := exec_insSelQ k env l ds E items wher hsem s hcteD hcteE
  have hself : s.withTable ((acT b trigs nr).withRows rows) = s := withTable_self s _ hT hs.names
  have hloop := exec_insertLoop_ac k env b l trigs ds hnb QI hqaI hcteD hnd (ds.filter (fun d => !E.contains d.address)) s _ nr rows {} hs hT
    (fun d hd => (List.mem_filter.mp hd).1)
    ((List.filter_sublist.map _).nodup hnd) htyped
    (by
      intro d hd q hq hv
      have hf := List.mem_filter.mp hd
      exact hno d hf.1 (by simpa using hf.2) q hq hv)
  rw [hself] at hloop
  obtain ⟨ha1, ha2, ha3⟩ := acInsAcc_spec l (ds.filter (fun d => !E.contains d.address)) {}
  rw [execStmt, evalCtes]
  · simp only [exec_bind, exec_pure]
    rw [execInsert]
    simp only [hb, Bool.false_eq_true, if_false, exec_bind, hq, exec_getTable hT, hsrc, exec_pure, show insCols.isEmpty = false from rfl,
      List.map_map]
    have hmm : ((fun r : List Value => r.map some) ∘ insSrcVals l) = fun d => (insSrcVals l d).map some := rfl
    rw [hmm, hloop]
    simp only
    cases hD : (ds.filter (fun d => !E.contains d.address)).isEmpty with
    | false =>
      rw [hD] at ha3
      simp only [Bool.false_eq_true, if_false] at ha3
      simp only [ha3, ha1, ha2, updRetCols, List.isEmpty_cons, Bool.false_and, Bool.false_eq_true, if_false, exec_pure]
      simp
    | true =>
      have hDn : ds.filter (fun d => !E.contains d.address) = [] := List.isEmpty_iff.mp hD
      rw [hD] at ha3
      simp only [if_true] at ha3
      have ha3' : (acInsAcc l {} (ds.filter (fun d => !E.contains d.address))).retCols = [] := ha3
      have hT' : ((s.withTable ((acT b trigs (nr + (ds.filter (fun d => !E.contains d.address)).length)).withRows
          (acInsRows s.xid s.cid l nr rows (ds.filter (fun d => !E.contains d.address))))).addQ
            (acInsQ l QI (ds.filter (fun d => !E.contains d.address)))).w.table? (acFull b) =
          some ((acT b trigs (nr + (ds.filter (fun d => !E.contains d.address)).length)).withRows
            (acInsRows s.xid s.cid l nr rows (ds.filter (fun d => !E.contains d.address)))) :=
        withTable_table? s ((acT b trigs nr).withRows rows) _ hT
      simp only [ha3', List.isEmpty_nil, show (insReturning b).isEmpty = false from rfl, Bool.not_false, Bool.and_true, if_true, exec_bind,
        exec_getTable hT']
      have hp := exec_protoRet_ins (k + 2) env b trigs (nr + (ds.filter (fun d => !E.contains d.address)).length)
        (acInsRows s.xid s.cid l nr rows (ds.filter (fun d => !E.contains d.address))) ds
        ((s.withTable ((acT b trigs (nr + (ds.filter (fun d => !E.contains d.address)).length)).withRows
          (acInsRows s.xid s.cid l nr rows (ds.filter (fun d => !E.contains d.address))))).addQ
            (acInsQ l QI (ds.filter (fun d => !E.contains d.address)))) hcteD
      unfold protoReturning at hp
      simp only [withRows_cols] at hp ⊢
      erw [hp]
      simp only [exec_pure, ha1, ha2, hDn]
      rfl
  · intro h; omega

end Ledger.Sql
