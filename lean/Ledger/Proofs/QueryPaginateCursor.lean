import Ledger.Proofs.QueryPaginateFetch
namespace Ledger.Query

theorem effPageSize_pos (n : Nat) : 0 < effPageSize n := by
  unfold effPageSize defaultPageSize; split <;> omega

/-- `BuildCursor` on a forward page that has a successor: `A` is the page, `y` the
    extra row. -/
theorem buildCursorCol_fwd_more {φ : Type} (q : ColQuery φ) (o : Order) (A : List Row) (y : Row)
    (hrev : q.reverse = false) (hlen : A.length = effPageSize q.pageSize) :
    ∃ p, buildCursorCol q o (A ++ [y]) = .ok p ∧ p.data = A ∧ p.hasMore = true ∧
      ∃ q', p.next = some q' ∧ q'.paginationID = some y.key ∧ q'.reverse = false ∧
        q'.pageSize = q.pageSize ∧ q'.order = q.order ∧ q'.rest = q.rest ∧
        q'.bottom = firstBottom q.bottom ((A ++ [y]).map (·.key)) := by
  have hpos := effPageSize_pos q.pageSize
  have hA : A ≠ [] := by intro h; simp [h] at hlen; omega
  obtain ⟨a, A', rfl⟩ := List.exists_cons_of_ne_nil hA
  unfold buildCursorCol
  simp only [hrev, List.length_append, List.length_cons, List.length_nil, ← hlen]
  simp only [Bool.false_eq_true, ↓reduceIte, List.map_append, List.map_cons, List.map_nil,
    List.cons_append, List.head?_cons]
  have : (A'.length + 1 + (0 + 1) > A'.length + 1) := by omega
  simp only [this, decide_true, ↓reduceIte]
  have hd : (a :: (A' ++ [y])).dropLast = a :: A' := by
    rw [← List.cons_append, List.dropLast_concat]
  have hl : (a.key :: (List.map (fun x => x.key) A' ++ [y.key])).getLast? = some y.key := by
    rw [← List.cons_append, List.getLast?_concat]
  cases hp : q.paginationID with
  | none => simp [hd, hl]
  | some pid =>
    cases hb : q.bottom with
    | none => simp [hd, hl, firstBottom]
    | some b => simp [hd, hl, firstBottom]


/-- `BuildCursor` on the last forward page. -/
theorem buildCursorCol_fwd_last {φ : Type} (q : ColQuery φ) (o : Order) (L : List Row)
    (hrev : q.reverse = false) (hlen : L.length ≤ effPageSize q.pageSize)
    (hpid : q.paginationID = none ∨ L ≠ []) :
    ∃ p, buildCursorCol q o L = .ok p ∧ p.data = L ∧ p.hasMore = false ∧ p.next = none := by
  unfold buildCursorCol
  have hn : ¬ (L.length > effPageSize q.pageSize) := by omega
  simp only [hrev, hn, decide_false, Bool.false_eq_true, ↓reduceIte]
  cases hp : q.paginationID with
  | none => simp
  | some pid =>
    rcases hpid with h | h
    · rw [hp] at h; cases h
    · obtain ⟨a, L', rfl⟩ := List.exists_cons_of_ne_nil h
      cases hb : q.bottom with
      | none => simp [firstBottom]
      | some b => simp [firstBottom]

end Ledger.Query
