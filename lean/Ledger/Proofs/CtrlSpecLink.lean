import Ledger.Ctrl.SpecLink
import Ledger.Proofs.CoreStore
import Ledger.Proofs.CoreAccounts
import Ledger.Proofs.CtrlHist
import Ledger.Proofs.CtrlEval

/-!
The controller's store contract refines the abstract reference store
(`Ledger/Spec/Store.lean`) on the shared tables, call by call; hence the Spec-level
invariant `StoreInv` (C01 conservation, C02 volumes = fold, C03 post-commit volumes =
state after) holds in every state the controller model reaches.
-/
namespace Ledger.Ctrl
open Ledger.Base Ledger.Core

/-! ### `UpdateVolumes` -/

theorem insert_add_eq_insertWith (v : PCV) (hw : Map.WF v) (k : Key) (e x : Volumes) (hx : x = (volOf v k).add e) :
    v.insert k x = v.insertWith Volumes.add k e := by
  induction v with
  | nil =>
    subst hx
    simp only [Map.insert, Map.insertWith, volOf, Map.get?, Spec.Volumes.zero_add]
  | cons p r ih =>
    obtain ⟨k', v'⟩ := p
    simp only [Map.insert, Map.insertWith] at ih ⊢
    by_cases h1 : k' = k
    · subst h1
      subst hx
      simp only [↓reduceIte, volOf, Map.get?]
    · simp only [h1, ↓reduceIte]
      by_cases h2 : KeyOrd.lt k k' = true
      · simp only [h2, ↓reduceIte]
        have hn := Map.get?_eq_none_of_lt hw h2
        subst hx
        simp only [volOf, hn, Spec.Volumes.zero_add]
      · simp only [h2, Bool.false_eq_true, ↓reduceIte]
        congr 1
        apply ih (Map.WF_tail hw)
        rw [hx]
        simp only [volOf, Map.get?, h1, ↓reduceIte]

theorem addVolumes_eq (v : PCV) (hw : Map.WF v) (e : Key × Volumes) :
    addVolumes v e = v.insertWith Volumes.add e.1 e.2 :=
  insert_add_eq_insertWith v hw e.1 e.2 _ rfl

/-- The table after the controller contract's `UpdateVolumes` is the Spec's. -/
theorem fold_addVolumes_eq_upsertAll (ups v : PCV) (hw : Map.WF v) :
    ups.foldl addVolumes v = Spec.upsertAll v ups := by
  induction ups generalizing v with
  | nil => rfl
  | cons e r ih =>
    simp only [List.foldl_cons]
    rw [addVolumes_eq v hw e]
    exact ih _ (Map.WF_insertWith _ _ _ hw)

theorem get?_of_mem_WF {m : PCV} (hw : Map.WF m) {k : Key} {x : Volumes} (h : (k, x) ∈ m) : m.get? k = some x := by
  induction m with
  | nil => cases h
  | cons p r ih =>
    obtain ⟨k', v'⟩ := p
    rcases List.mem_cons.mp h with heq | hr
    · cases heq; simp only [Map.get?, ↓reduceIte]
    · have hne : k' ≠ k := by
        intro hk
        subst hk
        have := Spec.get?_tail_none hw
        rw [ih (Map.WF_tail hw) hr] at this
        cases this
      simp only [Map.get?, hne, ↓reduceIte]
      exact ih (Map.WF_tail hw) hr

/-- The `RETURNING` rows (post-commit volumes of the transaction) are the Spec's. -/
theorem updateVolumes_eq_upsertVolumes (ups v : PCV) (hw : Map.WF v) (hu : Map.WF ups) :
    updateVolumes ups v = ((Spec.upsertVolumes v ups).2, (Spec.upsertVolumes v ups).1) := by
  unfold updateVolumes
  simp only [fold_addVolumes_eq_upsertAll ups v hw, Spec.upsertVolumes_fst, Spec.upsertVolumes_snd, Prod.mk.injEq, and_true]
  unfold Map.mapVal
  apply List.map_congr_left
  intro e he
  have hg := Spec.get?_upsertAll hw hu e.1
  rw [get?_of_mem_WF hu (show (e.1, e.2) ∈ ups from he)] at hg
  simp only [volOf, hg]

/-! ### `CommitTransaction` refines `Spec.applyTx` -/

theorem applyTx_noAccounts_ok (st : Spec.Store) (t : Spec.TxIn) (hup : t.upsertAccounts = false) :
    ∃ moves', Spec.applyTx st t = .ok
      { accountsVolumes := (Spec.upsertVolumes st.accountsVolumes (volumeUpdates t.postings)).1
        txs := st.txs ++ [{ tx := { id := st.nextTxId, postings := t.postings, timestamp := t.timestamp,
                                    insertedAt := t.insertedAt, reference := t.reference,
                                    metadata := t.metadata },
                            pcv := (Spec.upsertVolumes st.accountsVolumes (volumeUpdates t.postings)).2 }]
        moves := moves', accounts := st.accounts, nextTxId := st.nextTxId + 1,
        nextSeq := st.nextSeq + (fwdMoves (Spec.preVolumes st.accountsVolumes (volumeUpdates t.postings)) t.postings).length } := by
  unfold Spec.applyTx
  simp only [Spec.movesOf_returned, hup, Bool.false_eq_true, ↓reduceIte]
  exact ⟨_, rfl⟩

/-- **`CommitTransaction` of the controller's store contract is `Spec.applyTx`** on the
    shared tables (`accounts_volumes`, `transactions` with their post-commit volumes,
    `accounts` untouched, next id), for the commits the write path issues (id from the
    sequence, not yet reverted). -/
theorem commit_refines (now : Time) (t : TxIn) (ht : t.id = none) (htr : t.revertedAt = none)
    (d : Db) (sq sq' : Seqs) (row : Tx) (d' : Db) (hw : Map.WF d.volumes)
    (h : commitTransaction now t d sq = (sq', .ok (row, d'))) :
    ∃ st', Spec.applyTx (abs ⟨d, sq⟩) (specTxIn now t) = .ok st' ∧
      st'.accountsVolumes = (abs ⟨d', sq'⟩).accountsVolumes ∧ st'.txs = (abs ⟨d', sq'⟩).txs ∧
      st'.accounts = (abs ⟨d', sq'⟩).accounts ∧ st'.nextTxId = (abs ⟨d', sq'⟩).nextTxId := by
  obtain ⟨mv, hok⟩ := applyTx_noAccounts_ok (abs ⟨d, sq⟩) (specTxIn now t) rfl
  refine ⟨_, hok, ?_⟩
  unfold commitTransaction at h
  rw [updateVolumes_eq_upsertVolumes _ _ hw (WF_volumeUpdates _)] at h
  simp only [ht, htr] at h
  split at h
  · simp only [Prod.mk.injEq] at h; exact nomatch h.2
  · split at h
    · simp only [Prod.mk.injEq] at h; exact nomatch h.2
    · simp only [Prod.mk.injEq, Except.ok.injEq] at h
      obtain ⟨rfl, rfl, rfl⟩ := h
      simp only [abs, specTxIn, List.map_append, List.map_cons, List.map_nil, absTx]
      refine ⟨?_, ?_, ?_, ?_⟩ <;> first | rfl | trivial

/-! ### `GetBalances` (balance locks) refines `Spec.lockBalances` -/

theorem lockZero_eq_insertWith (v : PCV) (hw : Map.WF v) (k : Key) :
    lockZero v k = v.insertWith (fun old _ => old) k Volumes.zero := by
  unfold lockZero
  induction v with
  | nil => rfl
  | cons p r ih =>
    obtain ⟨k', v'⟩ := p
    by_cases h1 : k' = k
    · subst h1
      simp only [Map.get?, ↓reduceIte, Map.insertWith]
    · by_cases h2 : KeyOrd.lt k k' = true
      · have hn := Map.get?_eq_none_of_lt hw h2
        simp only [hn, Map.insert, Map.insertWith, h1, h2, ↓reduceIte]
      · have ih' := ih (Map.WF_tail hw)
        simp only [Map.get?, h1, ↓reduceIte, Map.insertWith, h2, Bool.false_eq_true] at ih' ⊢
        cases hg : Map.get? r k with
        | some x => rw [hg] at ih'; simp only at ih' ⊢; rw [← ih']
        | none =>
          rw [hg] at ih'
          simp only [Map.insert, Map.insertWith, h1, h2, ↓reduceIte, Bool.false_eq_true] at ih' ⊢
          rw [ih']

theorem fold_lockZero_eq_lockAll (q : List Key) (v : PCV) (hw : Map.WF v) :
    q.foldl lockZero v = Spec.lockAll v q := by
  induction q generalizing v with
  | nil => rfl
  | cons k r ih =>
    simp only [List.foldl_cons, Spec.lockAll]
    rw [lockZero_eq_insertWith v hw k]
    exact ih _ (Map.WF_insertWith _ _ _ hw)

/-- **`GetBalances` is `Spec.lockBalances`** (the whole store). -/
theorem lock_refines (q : List Key) (d : Db) (sq : Seqs) (hw : Map.WF d.volumes) :
    abs ⟨(getBalances q d).2, sq⟩ = Spec.lockBalances (abs ⟨d, sq⟩) q := by
  unfold getBalances Spec.lockBalances abs
  simp only [fold_lockZero_eq_lockAll q d.volumes hw]
  rfl

/-! ### `RevertTransaction` (the reverted mark) refines `Spec.markReverted` -/

theorem ids_inj {l : List Tx} (h : l.Pairwise (fun a b => a.id < b.id)) {x y : Tx} (hx : x ∈ l) (hy : y ∈ l)
    (hid : x.id = y.id) : x = y := by
  induction l with
  | nil => cases hx
  | cons a r ih =>
    have ha := (List.pairwise_cons.mp h).1
    rcases List.mem_cons.mp hx with rfl | hx' <;> rcases List.mem_cons.mp hy with rfl | hy'
    · rfl
    · exact absurd hid (Nat.ne_of_lt (ha y hy'))
    · exact absurd hid.symm (Nat.ne_of_lt (ha x hx'))
    · exact ih (List.pairwise_cons.mp h).2 hx' hy'

/-- **The reverted mark is `Spec.markReverted`** (the whole store), on tables whose
    transaction ids are distinct. -/
theorem revert_refines (now : Time) (id : Nat) (at_ : Option Time) (d : Db) (sq : Seqs) (t' : Tx) (d' : Db)
    (hs : d.txs.Pairwise (fun a b => a.id < b.id))
    (h : revertTransaction now id at_ d = .ok ((t', true), d')) :
    abs ⟨d', sq⟩ = Spec.markReverted (abs ⟨d, sq⟩) id (at_.getD now) := by
  unfold revertTransaction at h
  cases hf : d.findTx id with
  | none => simp only [hf] at h; cases h
  | some t =>
    simp only [hf] at h
    cases hr : t.revertedAt with
    | some w => simp only [hr, Except.ok.injEq, Prod.mk.injEq, Bool.false_eq_true, and_false, false_and] at h
    | none =>
      simp only [hr, Except.ok.injEq, Prod.mk.injEq] at h
      obtain ⟨_, rfl⟩ := h
      have htm : t ∈ d.txs := by
        unfold Db.findTx at hf
        exact List.mem_of_find?_eq_some hf
      have htid : t.id = id := by
        unfold Db.findTx at hf
        simpa using List.find?_some hf
      unfold abs Spec.markReverted Db.modifyTx
      simp only [List.map_map]
      congr 1
      apply List.map_congr_left
      intro x hx
      simp only [Function.comp]
      by_cases hxid : x.id = id
      · have hxt : x = t := ids_inj hs hx htm (hxid.trans htid.symm)
        subst hxt
        simp only [hxid, ↓reduceIte, absTx, hr, and_self]
        cases at_ <;> rfl
      · simp only [hxid, ↓reduceIte, absTx, false_and]

/-! ### the Spec invariant only reads volumes, postings and post-commit volumes -/

theorem allPostings_congr (l1 l2 : List Spec.TxRec) (h : l1.map (·.postings) = l2.map (·.postings)) :
    Spec.allPostings l1 = Spec.allPostings l2 := by
  induction l1 generalizing l2 with
  | nil =>
    cases l2 with
    | nil => rfl
    | cons b r => simp at h
  | cons a r ih =>
    cases l2 with
    | nil => simp at h
    | cons b r2 =>
      simp only [List.map_cons, List.cons.injEq] at h
      simp only [Spec.allPostings, h.1, ih r2 h.2]

theorem StoreInv_congr {st1 st2 : Spec.Store} (inv : Spec.StoreInv st1)
    (hav : st2.accountsVolumes = st1.accountsVolumes)
    (hp : st2.txs.map (fun r => (r.tx.postings, r.pcv)) = st1.txs.map (fun r => (r.tx.postings, r.pcv))) :
    Spec.StoreInv st2 := by
  have hlen : st2.txs.length = st1.txs.length := by
    have := congrArg List.length hp
    simpa using this
  have hrecs : st2.txRecs.map (·.postings) = st1.txRecs.map (·.postings) := by
    have := congrArg (List.map Prod.fst) hp
    simp only [List.map_map] at this
    simp only [Spec.Store.txRecs, List.map_map]
    exact this
  have hget : ∀ i (h2 : i < st2.txs.length) (h1 : i < st1.txs.length),
      (st2.txs[i]).tx.postings = (st1.txs[i]).tx.postings ∧ (st2.txs[i]).pcv = (st1.txs[i]).pcv := by
    intro i h2 h1
    have h := List.getElem_of_eq hp (by simpa using h2)
    simp only [List.getElem_map, Prod.mk.injEq] at h
    exact h
  refine ⟨hav ▸ inv.wf, ?_, ?_, fun s => hav ▸ inv.net s⟩
  · intro k
    rw [hav]
    unfold Spec.volumesOf
    rw [allPostings_congr _ _ hrecs]
    exact inv.av k
  · intro i hi k
    have hi1 : i < st1.txs.length := hlen ▸ hi
    obtain ⟨h1, h2⟩ := hget i hi hi1
    rw [h1, h2]
    unfold Spec.volumesOf
    rw [allPostings_congr (st2.txRecs.take (i + 1)) (st1.txRecs.take (i + 1))
      (by rw [List.map_take, List.map_take, hrecs])]
    exact inv.pcv i hi1 k

theorem StoreInv_abs_modifyTx (d : Db) (sq : Seqs) (id : Nat) (g : Tx → Tx)
    (hg : ∀ x, (g x).postings = x.postings ∧ (g x).pcv = x.pcv) (inv : Spec.StoreInv (abs ⟨d, sq⟩)) :
    Spec.StoreInv (abs ⟨d.modifyTx id g, sq⟩) := by
  refine StoreInv_congr (st2 := abs ⟨d.modifyTx id g, sq⟩) inv rfl ?_
  simp only [abs, Db.modifyTx, List.map_map]
  apply List.map_congr_left
  intro x _
  simp only [Function.comp, absTx]
  split
  · rw [(hg x).1, (hg x).2]
  · rfl

theorem StoreInv_abs_of_eq {d d' : Db} {sq sq' : Seqs} (hv : d'.volumes = d.volumes) (ht : d'.txs = d.txs)
    (inv : Spec.StoreInv (abs ⟨d, sq⟩)) : Spec.StoreInv (abs ⟨d', sq'⟩) :=
  StoreInv_congr (st2 := abs ⟨d', sq'⟩) inv hv (by simp only [abs, ht])

theorem insertLog_vt (now : Time) (l : LogIn) (d : Db) (sq sq' : Seqs) (r : Log) (d' : Db)
    (h : insertLog now l d sq = (sq', .ok (r, d'))) : d'.volumes = d.volumes ∧ d'.txs = d.txs := by
  obtain ⟨lid, p, dt, ik, ih, sv⟩ := l
  cases lid <;>
  · simp only [insertLog] at h
    split at h
    · simp only [Prod.mk.injEq] at h; exact nomatch h.2
    · split at h
      · simp only [Prod.mk.injEq] at h; exact nomatch h.2
      · simp only [Prod.mk.injEq, Except.ok.injEq] at h
        obtain ⟨_, _, rfl⟩ := h
        exact ⟨rfl, rfl⟩

/-! ### every store call of the write path preserves the Spec invariant -/

/-- The calls the live write path makes: commits take their id from the sequence
    and are not born reverted (the import path is not covered by the link). -/
def Call.Live : Call → Prop
  | .commitTransaction t => t.id = none ∧ t.revertedAt = none
  | _ => True

theorem exec_storeInv (now : Time) (c : Call) (hc : c.Live) (d : Db) (sq : Seqs)
    (inv : Spec.StoreInv (abs ⟨d, sq⟩)) :
    (∀ sq' e, exec now c d sq = (sq', .error e) → Spec.StoreInv (abs ⟨d, sq'⟩)) ∧
    (∀ sq' r d', exec now c d sq = (sq', .ok (r, d')) → Spec.StoreInv (abs ⟨d', sq'⟩)) := by
  refine ⟨fun sq' e _ => StoreInv_abs_of_eq rfl rfl inv, ?_⟩
  intro sq' r d' h
  cases c with
  | readLogIK ik => simp only [exec, Prod.mk.injEq, Except.ok.injEq] at h; obtain ⟨_, _, rfl⟩ := h; exact StoreInv_abs_of_eq rfl rfl inv
  | findSchema v => simp only [exec, Prod.mk.injEq, Except.ok.injEq] at h; obtain ⟨_, _, rfl⟩ := h; exact StoreInv_abs_of_eq rfl rfl inv
  | findLatestSchemaVersion => simp only [exec, Prod.mk.injEq, Except.ok.injEq] at h; obtain ⟨_, _, rfl⟩ := h; exact StoreInv_abs_of_eq rfl rfl inv
  | getAccount a => simp only [exec, Prod.mk.injEq, Except.ok.injEq] at h; obtain ⟨_, _, rfl⟩ := h; exact StoreInv_abs_of_eq rfl rfl inv
  | getBalances q =>
    simp only [exec, Prod.mk.injEq, Except.ok.injEq] at h
    obtain ⟨rfl, h2⟩ := h
    have hd : d' = (getBalances q d).2 := by rw [h2]
    subst hd
    rw [lock_refines q d sq inv.wf]
    exact Spec.StoreInv_lock inv q
  | commitTransaction t =>
    simp only [exec] at h
    obtain ⟨st', hok, hav, htx, _, _⟩ := commit_refines now t hc.1 hc.2 d sq sq' r d' inv.wf h
    exact StoreInv_congr (st2 := abs ⟨d', sq'⟩) (Spec.StoreInv_applyTx inv _ hok) hav.symm (by rw [htx])
  | upsertAccounts rows =>
    simp only [exec, Prod.mk.injEq, Except.ok.injEq] at h; obtain ⟨_, _, rfl⟩ := h
    exact StoreInv_abs_of_eq (d := d) rfl rfl inv
  | updateAccountsMeta m w =>
    simp only [exec, Prod.mk.injEq, Except.ok.injEq] at h; obtain ⟨_, _, rfl⟩ := h
    exact StoreInv_abs_of_eq (d := d) rfl rfl inv
  | deleteAccountMeta a k =>
    simp only [exec, Prod.mk.injEq, Except.ok.injEq] at h; obtain ⟨_, _, rfl⟩ := h
    refine StoreInv_abs_of_eq ?_ ?_ inv <;> (unfold deleteAccountMeta; split <;> rfl)
  | insertSchema sc =>
    simp only [exec, Prod.mk.injEq, Except.ok.injEq] at h; obtain ⟨_, h2⟩ := h
    have hd : d' = (insertSchema now sc d).2 := by rw [h2]
    subst hd
    refine StoreInv_abs_of_eq ?_ ?_ inv <;> (unfold insertSchema; split <;> rfl)
  | insertLog l =>
    simp only [exec] at h
    obtain ⟨hv, ht⟩ := insertLog_vt now l d sq sq' r d' h
    exact StoreInv_abs_of_eq hv ht inv
  | revertTransaction id w =>
    simp only [exec, revertTransaction, Prod.mk.injEq] at h
    obtain ⟨_, h⟩ := h
    cases hf : d.findTx id with
    | none => simp only [hf] at h; cases h
    | some t =>
      simp only [hf] at h
      cases hr : t.revertedAt with
      | some x =>
        simp only [hr, Except.ok.injEq, Prod.mk.injEq] at h
        obtain ⟨_, rfl⟩ := h
        exact StoreInv_abs_of_eq rfl rfl inv
      | none =>
        simp only [hr, Except.ok.injEq, Prod.mk.injEq] at h
        obtain ⟨_, rfl⟩ := h
        exact StoreInv_abs_of_eq rfl rfl (StoreInv_abs_modifyTx d sq id _ (fun x => ⟨rfl, rfl⟩) inv)
  | updateTxMeta id m w =>
    simp only [exec, updateTxMeta, Prod.mk.injEq] at h
    obtain ⟨_, h⟩ := h
    cases hf : d.findTx id with
    | none => simp only [hf] at h; cases h
    | some t =>
      simp only [hf, Except.ok.injEq, Prod.mk.injEq] at h
      obtain ⟨_, rfl⟩ := h
      exact StoreInv_abs_of_eq rfl rfl (StoreInv_abs_modifyTx d sq id _ (fun x => by split <;> exact ⟨rfl, rfl⟩) inv)
  | deleteTxMeta id k w =>
    simp only [exec, deleteTxMeta, Prod.mk.injEq] at h
    obtain ⟨_, h⟩ := h
    cases hf : d.findTx id with
    | none => simp only [hf] at h; cases h
    | some t =>
      simp only [hf, Except.ok.injEq, Prod.mk.injEq] at h
      obtain ⟨_, rfl⟩ := h
      exact StoreInv_abs_of_eq rfl rfl (StoreInv_abs_modifyTx d sq id _ (fun x => by split <;> exact ⟨rfl, rfl⟩) inv)

/-! ### the write path only makes `Live` calls -/

theorem Prog.All.of_noCommit {α : Type} {p : Prog α} (h : p.All Call.LockOnly) : p.All Call.Live := by
  induction h with
  | pure a => exact .pure a
  | fail e => exact .fail e
  | call c k hc _ ih =>
    refine .call c k ?_ ih
    cases c <;> first | exact trivial | exact hc.elim

theorem createBody_live (strict : Bool) (schema : Option Schema) (c : CreateIn) (m : Prog MachineResult)
    (hm : m.All Call.Live) : (createBody strict schema c m).All Call.Live := by
  unfold createBody
  split
  · exact .fail _
  · refine Prog.All.bind hm (fun r => ?_)
    split
    · exact .fail _
    · split
      · exact .fail _
      · exact .call _ _ ⟨rfl, rfl⟩ (fun tx => .call _ _ trivial (fun _ => .pure _))

theorem revertBody_live (id : Nat) (force aed : Bool) (m : Meta) : (revertBody id force aed m).All Call.Live := by
  unfold revertBody
  refine .call _ _ trivial (fun r => ?_)
  split
  · exact .fail _
  · refine .call _ _ trivial (fun bal => ?_)
    simp only
    split
    · exact .fail _
    · exact .call _ _ ⟨rfl, rfl⟩ (fun tx => .pure _)

theorem body_live (strict : Bool) (kind : OpKind) (n : Nat) (schema : Option Schema) :
    (body strict kind n schema).All Call.Live := by
  cases kind with
  | createP c ps force => exact createBody_live _ _ _ _ (Prog.All.of_noCommit (postingsMachine_lockOnly ps force))
  | createS c obs => exact createBody_live _ _ _ _ (Prog.All.of_noCommit (scriptMachine_lockOnly obs n))
  | revert id force aed m => exact revertBody_live id force aed m
  | saveTxMeta id m => exact .call _ _ trivial (fun _ => .pure _)
  | saveAccMeta a m =>
    show (saveAccMetaBody schema a m).All Call.Live
    unfold saveAccMetaBody
    exact .call _ _ trivial (fun _ => .pure _)
  | delTxMeta id key =>
    refine .call _ _ trivial (fun r => ?_)
    split
    · exact .pure _
    · exact .fail _
  | delAccMeta a key => exact .call _ _ trivial (fun _ => .pure _)
  | insertSchema version chart templates tplBad =>
    simp only [body]
    split
    · exact .fail _
    · split
      · exact .fail _
      · refine .call _ _ trivial (fun r => ?_)
        split
        · exact .pure _
        · exact .fail _

theorem runLog_live (strict : Bool) (kind : OpKind) (ik ihash sv : String) (n : Nat) :
    (runLog strict kind ik ihash sv n).All Call.Live := by
  unfold runLog
  refine Prog.All.bind ?_ (fun schema => Prog.All.bind (body_live strict kind n schema) (fun p => ?_))
  · unfold schemaPhase
    split
    · refine .call _ _ trivial (fun r => ?_)
      split
      · exact .pure _
      · exact .call _ _ trivial (fun _ => .fail _)
    · split
      · refine .call _ _ trivial (fun latest => ?_)
        split
        · exact .fail _
        · exact .pure _
      · exact .pure _
  · unfold logPhase
    have hins : (Prog.call (Call.insertLog { payload := p, ik := ik, ihash := ihash, schemaVersion := sv }) Prog.pure).All
        Call.Live := .call _ _ trivial (fun l => .pure l)
    cases schema with
    | none => simpa using hins
    | some sc =>
      simp only
      split
      · exact .fail _
      · exact hins

/-! ### programs, operations, histories -/

theorem run_storeInv {α : Type} (now : Time) (hn : String) (f : Faults) (p : Prog α) (hp : p.All Call.Live) (st : RunSt)
    (inv : Spec.StoreInv (abs ⟨st.db, st.seq⟩)) :
    Spec.StoreInv (abs ⟨(run now hn f p st).2.db, (run now hn f p st).2.seq⟩) := by
  have := run_rel now hn f Call.Live
    (fun x y => Spec.StoreInv (abs ⟨x.1, x.2⟩) → Spec.StoreInv (abs ⟨y.1, y.2⟩))
    (fun _ h => h) (fun _ _ _ h1 h2 h => h2 (h1 h))
    (fun c d sq hc => ⟨fun sq' e he inv => (exec_storeInv now c hc d sq inv).1 sq' e he,
                       fun sq' r d' he inv => (exec_storeInv now c hc d sq inv).2 sq' r d' he⟩)
    p hp st
  exact this inv

/-- Every write operation — failing, dry-run, idempotent, faulted or committed —
    keeps the Spec invariant of the abstracted tables. -/
theorem forgeLog_storeInv (strict : Bool) (op : Op) (f : Faults) (cf : Bool) (s : State)
    (inv : Spec.StoreInv (abs s)) : Spec.StoreInv (abs (forgeLog strict op f cf s).state) := by
  rcases forgeLog_ending strict op f cf s with ⟨hu, _, _⟩ | ⟨st0, st, log, hn, f', n, _, h0, _, hrun, hc⟩
  · exact StoreInv_abs_of_eq (d := s.db) (sq := s.seq) (by rw [hu]) (by rw [hu]) inv
  · have := run_storeInv op.now hn f' _ (runLog_live strict op.kind op.ik op.ihash op.sv n) st0
      (StoreInv_abs_of_eq (d := s.db) (sq := s.seq) (by rw [h0]) (by rw [h0]) inv)
    rw [hrun] at this
    rw [hc.1]
    exact this

theorem runHist_storeInv (strict : Bool) (s : State) (ops : List Op) (inv : Spec.StoreInv (abs s)) :
    Spec.StoreInv (abs (runHist strict s ops)) := by
  induction ops generalizing s with
  | nil => exact inv
  | cons op r ih => exact ih _ (forgeLog_storeInv strict op [] false s inv)

theorem StoreInv_abs_empty : Spec.StoreInv (abs {}) := Spec.StoreInv_empty

end Ledger.Ctrl
