import Ledger.Proofs.MachineBC3

/-! Stage (f), part 4: declarations, statement lists, and
    `exec (compile p) = sem p` for the covered programs. -/
namespace Ledger.Machine

/-! ### Resource invariant through the statements -/

theorem pushExpr_res {ds : Decls} {e : Expr} {ty : Ty} (ht : typeExpr ds e = .ok ty) {cs cs' : CS}
    (hv : VarsInv ds cs) (hi : ResInv ds cs.res) (h : pushExpr e cs = .ok cs') : ResInv ds cs'.res := by
  simp only [pushExpr] at h
  split at h
  · cases h
  · rename_i r cs1 hc
    cases h
    obtain ⟨t, oa⟩ := r
    exact (cExpr_res ds e true cs t oa cs' ty hc ht hv hi).inv

theorem pushConst_res {ds : Decls} {c : CValue} {cs cs' : CS} (hi : ResInv ds cs.res)
    (h : pushConst c cs = .ok cs') : ResInv ds cs'.res := by
  simp only [pushConst] at h
  split at h
  · cases h
  · rename_i a cs1 hal
    obtain ⟨_, p2⟩ := emitPush_ok h
    rw [p2]; exact allocConst_res hal hi

theorem pushAddrOf_res {ds : Decls} {e : Expr} {ty : Ty} (ht : typeExpr ds e = .ok ty) {cs cs' : CS}
    (hv : VarsInv ds cs) (hi : ResInv ds cs.res) (h : pushAddrOf e cs = .ok cs') : ResInv ds cs'.res := by
  simp only [pushAddrOf, cExprAddr] at h
  split at h
  · cases h
  · rename_i a cs1 hca
    split at hca
    · cases hca
    · rename_i t0 a0 cs0 hc
      cases hca
      obtain ⟨_, p2⟩ := emitPush_ok h
      rw [p2]
      exact (cExpr_res ds e false cs t0 (some a) cs1 ty hc ht hv hi).inv
    · cases hca

theorem cStmt_res {ds : Decls} (s : Stmt) (hcov : s.covered = true) (hc : checkStmt ds s = .ok ())
    {cs cs' : CS} (hv : VarsInv ds cs) (hi : ResInv ds cs.res) (h : cStmt s cs = .ok cs') :
    ResInv ds cs'.res := by
  -- an environment is not needed for the resource facts: use the steps' `Ext` from a dummy one
  cases s with
  | print e =>
    simp only [checkStmt] at hc
    cases ht : typeExpr ds e with
    | error m => simp [ht, Except.map] at hc
    | ok ty =>
      simp only [cStmt] at h
      obtain ⟨cs1, h1, h⟩ := seqA_cons h
      obtain ⟨cs2, h2, h⟩ := seqA_cons h
      have := seqA_nil h; subst this
      rw [(emitOp_ok h2).2]
      exact pushExpr_res ht hv hi h1
  | fail =>
    simp only [cStmt] at h
    rw [(emitOp_ok h).2]; exact hi
  | setTxMeta k e =>
    simp only [checkStmt] at hc
    cases ht : typeExpr ds e with
    | error m => simp [ht, Except.map] at hc
    | ok ty =>
      simp only [cStmt] at h
      obtain ⟨cs1, h1, h⟩ := seqA_cons h
      obtain ⟨cs2, h2, h⟩ := seqA_cons h
      obtain ⟨cs3, h3, h⟩ := seqA_cons h
      have := seqA_nil h; subst this
      rw [(emitOp_ok h3).2]
      exact pushConst_res (pushExpr_res ht hv hi h1) h2
  | setAccountMeta acc k e =>
    simp only [checkStmt] at hc
    split at hc
    · cases hc
    · rename_i ty ht
      have hta := expectTy_inv hc
      simp only [cStmt] at h
      obtain ⟨cs1, h1, h⟩ := seqA_cons h
      obtain ⟨cs2, h2, h⟩ := seqA_cons h
      obtain ⟨cs3, h3, h⟩ := seqA_cons h
      obtain ⟨cs4, h4, h⟩ := seqA_cons h
      have := seqA_nil h; subst this
      rw [(emitOp_ok h4).2]
      have e1 : ∃ seg, Ext cs cs1 seg := by
        simp only [pushExpr] at h1
        split at h1
        · cases h1
        · rename_i r csx hcx
          cases h1
          obtain ⟨t, oa⟩ := r
          exact (cExpr_res ds e true cs t oa cs1 ty hcx ht hv hi).ext
      obtain ⟨sg1, x1⟩ := e1
      obtain ⟨ak, s2, _⟩ := pushConst_ok h2
      exact pushAddrOf_res hta ((hv.ext x1).ext s2.ext)
        (pushConst_res (pushExpr_res ht hv hi h1) h2) h3
  | save mon acc =>
    simp only [checkStmt] at hc
    split at hc
    · cases hc
    · rename_i hm
      have htm := expectTy_inv hm
      have hta := expectTy_inv hc
      simp only [cStmt] at h
      obtain ⟨cs1, h1, h⟩ := seqA_cons h
      obtain ⟨cs2, h2, h⟩ := seqA_cons h
      obtain ⟨cs3, h3, h⟩ := seqA_cons h
      have := seqA_nil h; subst this
      rw [(emitOp_ok h3).2]
      have e1 : ∃ seg, Ext cs cs1 seg := by
        simp only [pushAddrOf, cExprAddr] at h1
        split at h1
        · cases h1
        · rename_i a csx hca
          split at hca
          · cases hca
          · rename_i t0 a0 cs0 hcx
            cases hca
            obtain ⟨sg, x⟩ := (cExpr_res ds mon false cs t0 (some a) csx .monetary hcx htm hv hi).ext
            exact ⟨_, x.trans (emitPush_ok h1).1.ext⟩
          · cases hca
      obtain ⟨sg1, x1⟩ := e1
      exact pushAddrOf_res hta (hv.ext x1) (pushAddrOf_res htm hv hi h1) h2
  | saveAll assetE acc =>
    simp only [checkStmt] at hc
    split at hc
    · cases hc
    · rename_i hm
      have htm := expectTy_inv hm
      have hta := expectTy_inv hc
      simp only [cStmt] at h
      obtain ⟨cs1, h1, h⟩ := seqA_cons h
      obtain ⟨cs2, h2, h⟩ := seqA_cons h
      obtain ⟨cs3, h3, h⟩ := seqA_cons h
      have := seqA_nil h; subst this
      rw [(emitOp_ok h3).2]
      have e1 : ∃ seg, Ext cs cs1 seg := by
        simp only [pushAddrOf, cExprAddr] at h1
        split at h1
        · cases h1
        · rename_i a csx hca
          split at hca
          · cases hca
          · rename_i t0 a0 cs0 hcx
            cases hca
            obtain ⟨sg, x⟩ := (cExpr_res ds assetE false cs t0 (some a) csx .asset hcx htm hv hi).ext
            exact ⟨_, x.trans (emitPush_ok h1).1.ext⟩
          · cases hca
      obtain ⟨sg1, x1⟩ := e1
      exact pushAddrOf_res hta (hv.ext x1) (pushAddrOf_res htm hv hi h1) h2
  | send _ _ _ => simp [Stmt.covered] at hcov
  | sendAll _ _ _ => simp [Stmt.covered] at hcov

/-! ### Statement lists -/

theorem cStmts_ok {ds : Decls} {env : Env} (henv : EnvTyped ds env) :
    (ss : List Stmt) → (∀ s ∈ ss, s.covered = true) → (∀ s ∈ ss, checkStmt ds s = .ok ()) →
    ∀ cs cs', VarsInv ds cs → ResInv ds cs.res → cStmts ss cs = .ok cs' →
    ∃ seg, StepOK cs cs' seg ∧ ResInv ds cs'.res ∧
      ∀ R resv, Final cs' R → Resolved env R resv → ∀ stk st,
        runSeg resv seg stk st =
          match runStmts Cfg.fixed env ss st with
          | .ok st' => .ok (stk, st')
          | .error err => .error err
  | [], _, _, cs, cs', _, hi, h => by
    simp only [cStmts] at h; cases h
    exact ⟨[], ⟨Ext.refl _, rfl⟩, hi, fun R resv _ _ stk st => by simp [runSeg, runStmts]⟩
  | s :: ss, hcov, hchk, cs, cs', hv, hi, h => by
    simp only [cStmts] at h
    split at h
    · cases h
    · rename_i cs1 h1
      obtain ⟨sg1, s1, c1⟩ := cStmt_ok henv s (hcov s (by simp)) (hchk s (by simp)) hv h1
      have hi1 := cStmt_res s (hcov s (by simp)) (hchk s (by simp)) hv hi h1
      obtain ⟨sg2, s2, hi2, c2⟩ := cStmts_ok henv ss (fun x hx => hcov x (by simp [hx]))
        (fun x hx => hchk x (by simp [hx])) cs1 cs' (hv.ext s1.ext) hi1 h
      refine ⟨_, s1.trans s2, hi2, ?_⟩
      intro R resv hf hr stk st
      rw [runSeg_append, c1 R resv (Final.of_ext s2.ext hf) hr stk st]
      simp only [runStmts]
      cases evalStmt Cfg.fixed env s st with
      | error err => rfl
      | ok st1 => exact c2 R resv hf hr stk st1

/-! ### Declarations -/

theorem typeExpr_mono {ds ds' : Decls} (hm : ∀ x t, ds.lookup x = some t → ds'.lookup x = some t) :
    (e : Expr) → ∀ ty, typeExpr ds e = .ok ty → typeExpr ds' e = .ok ty
  | .acct _, ty, h => by simpa [typeExpr] using h
  | .asset _, ty, h => by simpa [typeExpr] using h
  | .num _, ty, h => by simpa [typeExpr] using h
  | .str _, ty, h => by simpa [typeExpr] using h
  | .portion _, ty, h => by simpa [typeExpr] using h
  | .var x, ty, h => by
    simp only [typeExpr] at h ⊢
    split at h
    · rename_i t hl; cases h; rw [hm x _ hl]
    · cases h
  | .mon a n, ty, h => by
    simp only [typeExpr] at h ⊢
    split at h
    · cases h
    · rename_i ta hta
      rw [typeExpr_mono hm a ta hta]; exact h
  | .add l r, ty, h => by
    simp only [typeExpr] at h ⊢
    split at h
    · cases h
    · rename_i hl
      rw [typeExpr_mono hm l _ hl]
      split at h
      · cases h
      · rename_i rt hr
        simp only [typeExpr_mono hm r rt hr]; exact h
    · rename_i hl
      rw [typeExpr_mono hm l _ hl]
      split at h
      · cases h
      · rename_i rt hr
        simp only [typeExpr_mono hm r rt hr]; exact h
    · cases h
  | .sub l r, ty, h => by
    simp only [typeExpr] at h ⊢
    split at h
    · cases h
    · rename_i hl
      rw [typeExpr_mono hm l _ hl]
      split at h
      · cases h
      · rename_i rt hr
        simp only [typeExpr_mono hm r rt hr]; exact h
    · rename_i hl
      rw [typeExpr_mono hm l _ hl]
      split at h
      · cases h
      · rename_i rt hr
        simp only [typeExpr_mono hm r rt hr]; exact h
    · cases h

/-- Invariant of `VisitVars` w.r.t. the FINAL declarations `ds`. -/
structure VInv (ds dsi : Decls) (cs : CS) : Prop where
  vars : VarsInv ds cs
  res : ResInv ds cs.res
  code : cs.code = []
  names : cs.vars.map (·.1) = dsi.map (·.1)
  mono : ∀ x t, dsi.lookup x = some t → ds.lookup x = some t

theorem Ext.code_nil {cs cs' : CS} (h : Ext cs cs' []) : cs'.code = cs.code := by
  rw [h.code]; simp

/-- With `push = false` the visitor emits nothing. -/
theorem cExpr_nopush : (e : Expr) → ∀ cs r cs', cExpr e false cs = .ok (r, cs') → cs'.code = cs.code
  | .acct s, cs, r, cs', h => by
    simp only [cExpr] at h
    split at h
    · cases h
    · rename_i a cs1 hal
      cases h
      simp only [pushIf, Bool.false_eq_true, if_false]
      exact (allocConst_ok hal).1.code_nil
  | .asset s, cs, r, cs', h => by
    simp only [cExpr] at h
    split at h
    · cases h
    · rename_i a cs1 hal
      cases h
      simp only [pushIf, Bool.false_eq_true, if_false]
      exact (allocConst_ok hal).1.code_nil
  | .num n, cs, r, cs', h => by
    simp only [cExpr] at h
    split at h
    · cases h
    · rename_i a cs1 hal
      cases h
      simp only [pushIf, Bool.false_eq_true, if_false]
      exact (allocConst_ok hal).1.code_nil
  | .str s, cs, r, cs', h => by
    simp only [cExpr] at h
    split at h
    · cases h
    · rename_i a cs1 hal
      cases h
      simp only [pushIf, Bool.false_eq_true, if_false]
      exact (allocConst_ok hal).1.code_nil
  | .portion x, cs, r, cs', h => by
    simp only [cExpr] at h
    split at h
    · cases h
    · split at h
      · cases h
      · rename_i a cs1 hal
        cases h
        simp only [pushIf, Bool.false_eq_true, if_false]
        exact (allocConst_ok hal).1.code_nil
  | .var x, cs, r, cs', h => by
    simp only [cExpr] at h
    split at h
    · cases h
    · split at h
      · cases h
      · cases h
        simp [pushIf]
  | .mon ae n, cs, r, cs', h => by
    simp only [cExpr] at h
    split at h
    · cases h
    · cases h
    · rename_i t0 assetAddr cs1 hae
      have ih := cExpr_nopush ae cs _ cs1 hae
      split at h
      · cases h
        simp only [pushIf, Bool.false_eq_true, if_false]; exact ih
      · split at h
        · cases h
        · rename_i a cs2 hal
          cases h
          simp only [pushIf, Bool.false_eq_true, if_false]
          rw [(allocRes_ok hal).1.code_nil]; exact ih
  | .add l r0, cs, r, cs', h => by
    simp only [cExpr] at h
    split at h
    · cases h
    · rename_i lt la cs1 hl
      split at h
      · cases h
      · rename_i rres cs2 hr
        have i1 := cExpr_nopush l cs _ cs1 hl
        have i2 := cExpr_nopush r0 cs1 _ cs2 hr
        split at h
        · cases h; simp only [opIf, Bool.false_eq_true, if_false]; rw [i2, i1]
        · cases h; simp only [opIf, Bool.false_eq_true, if_false]; rw [i2, i1]
        · cases h
  | .sub l r0, cs, r, cs', h => by
    simp only [cExpr] at h
    split at h
    · cases h
    · rename_i lt la cs1 hl
      split at h
      · cases h
      · rename_i rres cs2 hr
        have i1 := cExpr_nopush l cs _ cs1 hl
        have i2 := cExpr_nopush r0 cs1 _ cs2 hr
        split at h
        · cases h; simp only [opIf, Bool.false_eq_true, if_false]; rw [i2, i1]
        · cases h; simp only [opIf, Bool.false_eq_true, if_false]; rw [i2, i1]
        · cases h

theorem cExprAddr_ok {ds : Decls} {e : Expr} {ty : Ty} (ht : typeExpr ds e = .ok ty) {cs cs' : CS} {a : Nat}
    (hv : VarsInv ds cs) (hi : ResInv ds cs.res) (h : cExprAddr e cs = .ok (a, cs')) :
    ResInv ds cs'.res ∧ (∃ seg, Ext cs cs' seg) ∧ cs'.code = cs.code ∧
    ∃ r, cs'.res[a]? = some r ∧ resTy r = ty := by
  simp only [cExprAddr] at h
  split at h
  · cases h
  · rename_i t0 a0 cs0 hc
    cases h
    have r := cExpr_res ds e false cs t0 (some a) cs' ty hc ht hv hi
    exact ⟨r.inv, r.ext, cExpr_nopush e cs _ cs' hc, r.addr a rfl⟩
  · cases h

end Ledger.Machine
