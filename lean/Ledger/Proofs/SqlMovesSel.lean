import Ledger.Proofs.SqlMovesSel0

/-!
# The query of `set_effective_volumes` on any `moves` table

`SELECT item FROM moves WHERE wher ORDER BY effective_date DESC, seq DESC LIMIT 1` (the pieces `item`, `wher` with the meaning
`SetEffSem`), evaluated by LeanPG on ANY table of well-typed rows with distinct sequence numbers, returns the row that
`Ledger.Spec.prevMove` picks (`exec_prevQuery`).
-/
open Ledger Ledger.Sql Ledger.Generated Ledger.Core

namespace Ledger.Sql

def mvFull (b : String) : String := b ++ "." ++ "moves"

/-- `moves` of bucket `b`, with the per-ledger triggers `trigs` -/
def mvT (b : String) (trigs : List TriggerDef) (nr : Nat) : Table :=
  { Schema.tbl_moves with name := mvFull b, triggers := trigs, nextRid := nr }

theorem mvT_colNames (b : String) (trigs : List TriggerDef) (nr : Nat) : (mvT b trigs nr).colNames = mvCols := rfl

/-- read a well-typed row of `moves` back -/
def mvDec : List Value → Option (String × Spec.MoveRow)
  | [.int q, .text l, .text a, .text c, .int amt, .ts ins, .ts eff, .row _ [.int pi, .int po], .row _ [.int ei, .int eo], .bool src, .int tx] =>
    some (l, { seq := q.toNat, txId := tx.toNat, account := a, asset := c, amount := amt, isSource := src, insertionDate := ins,
               effectiveDate := eff, pcv := ⟨pi, po⟩, pcev := ⟨ei, eo⟩ })
  | _ => none

theorem mvDec_mvVals (l : String) (m : Spec.MoveRow) : mvDec (mvVals l m) = some (l, m) := by
  simp [mvDec, mvVals, mvValsX, volVal]

/-- the typed content of the rows visible in `v` -/
def MvView (v : View) (rows : List Ver) (tbl : List (String × Spec.MoveRow)) : Prop :=
  (rows.filter (fun r => r.visible v)).map (·.vals) = tbl.map (fun p => mvVals p.1 p.2)

theorem MvView.of_row {v : View} {rows : List Ver} {tbl : List (String × Spec.MoveRow)} (h : MvView v rows tbl) (r : Ver)
    (hr : r ∈ rows) (hv : r.visible v = true) : ∃ p ∈ tbl, r.vals = mvVals p.1 p.2 := by
  have : r.vals ∈ (rows.filter (fun r => r.visible v)).map (·.vals) :=
    List.mem_map.mpr ⟨r, List.mem_filter.mpr ⟨hr, hv⟩, rfl⟩
  rw [h] at this
  obtain ⟨p, hp, e⟩ := List.mem_map.mp this
  exact ⟨p, hp, e.symm⟩

theorem MvView.of_mem {v : View} {rows : List Ver} {tbl : List (String × Spec.MoveRow)} (h : MvView v rows tbl) (p : String × Spec.MoveRow)
    (hp : p ∈ tbl) : ∃ r ∈ rows, r.visible v = true ∧ r.vals = mvVals p.1 p.2 := by
  have : mvVals p.1 p.2 ∈ tbl.map (fun p => mvVals p.1 p.2) := List.mem_map.mpr ⟨p, hp, rfl⟩
  rw [← h] at this
  obtain ⟨r, hr, e⟩ := List.mem_map.mp this
  have := List.mem_filter.mp hr
  exact ⟨r, this.1, this.2, e⟩

/-- is `p` a candidate "previous move" of the NEW row `n` of ledger `ln`? -/
def mvCand (ln : String) (n : Spec.MoveRow) (p : String × Spec.MoveRow) : Bool :=
  decide (p.2.account = n.account ∧ p.2.asset = n.asset ∧ p.1 = ln) && p.2.before n

theorem lookup_local_unq (env : Env) (sc : Scope) (hl : env.locals = [sc]) (c : String) (v : Value) (h : lookupIn sc.cols sc.vals c = some v) :
    lookupColumn env "" c = .ok v := by
  simp [lookupColumn, Env.scopes, lookupUnqualified, hl, h]
  rfl

def seqOfVals (vals : List Value) : Nat :=
  match mvDec vals with
  | some (_, m) => m.seq
  | none => 0

def prevOrder : List OrderItem :=
  [OrderItem.mk (Expr.col "" "effective_date") true NullsOrder.dflt, OrderItem.mk (Expr.col "" "seq") true NullsOrder.dflt]

/-- the sort key of an output row of the trigger's query -/
def prevKey (o : OutRow) : List Value :=
  match o.locals with
  | [sc] => match mvDec sc.vals with
    | some (_, m) => [.ts m.effectiveDate, .int m.seq]
    | none => []
  | _ => []

def prevW (ln : String) (n : Spec.MoveRow) (sc : Scope) : Bool :=
  match mvDec sc.vals with
  | some p => mvCand ln n p
  | none => false

def prevProj (n : Spec.MoveRow) (sc : Scope) : List Value :=
  match mvDec sc.vals with
  | some (_, m) => [.row [] [.int (m.pcev.add n.delta).input, .int (m.pcev.add n.delta).output]]
  | none => []

theorem sameGroupKey_mv_ne (e1 q1 e2 q2 : Int) (h : ¬ (e1 = e2 ∧ q1 = q2)) :
    sameGroupKey [.ts e1, .int q1] [.ts e2, .int q2] = .ok false := by
  simp only [sameGroupKey, compareForSort_ts, compareForSort_int, bind, Except.bind, cmpInt_eq]
  by_cases h1 : e1 = e2
  · have h2 : ¬ q1 = q2 := fun h2 => h ⟨h1, h2⟩
    simp [h1, h2]; rfl
  · simp [h1]; rfl

theorem compareScalar_int (a b : Int) : compareScalar (.int a) (.int b) = .ok (some (cmpInt a b)) := by
  simp [compareScalar]; rfl

theorem sameGroupKey_vol_ok (ns ns' : List String) (a b c d : Int) : ∃ x, sameGroupKey [.row ns [.int a, .int b]] [.row ns' [.int c, .int d]] = .ok x := by
  apply sameGroupKey_ok
  intro p hp
  simp only [List.zip_cons_cons, List.zip_nil_right, List.mem_cons, List.not_mem_nil, or_false] at hp
  subst hp
  simp only [compareForSort, compareValues, compareScalarList, compareScalar_int, bind, Except.bind, pure, Except.pure]
  cases cmpInt a c <;> simp <;> cases cmpInt b d <;> simp

theorem hasTieR_mv : ∀ (l : List (List Value × OutRow)),
    (∀ p ∈ l, ∃ (e q i o : Int), p.1 = [.ts e, .int q] ∧ p.2.vals = [.row [] [.int i, .int o]]) →
    l.Pairwise (fun a b => a.1 ≠ b.1) → hasTieR l = .ok false := by
  intro l
  induction l with
  | nil => intro _ _; rfl
  | cons p rest ih =>
    intro h hp
    cases rest with
    | nil => rfl
    | cons q rest' =>
      obtain ⟨e1, q1, i1, o1, hk1, hv1⟩ := h p (by simp)
      obtain ⟨e2, q2, i2, o2, hk2, hv2⟩ := h q (by simp)
      have hne : p.1 ≠ q.1 := (List.pairwise_cons.mp hp).1 q (by simp)
      obtain ⟨k1, r1⟩ := p
      obtain ⟨k2, r2⟩ := q
      simp only at hk1 hk2 hne hv1 hv2
      subst hk1 hk2
      obtain ⟨x, hx⟩ := sameGroupKey_vol_ok [] [] i1 o1 i2 o2
      rw [← hv1, ← hv2] at hx
      have := sameGroupKey_mv_ne e1 q1 e2 q2 (by intro ⟨a, b⟩; apply hne; rw [a, b])
      simp only [hasTieR, this, hx, bind, Except.bind, Bool.false_and, Bool.false_eq_true, if_false]
      exact ih (fun r hr => h r (by simp [hr])) (List.pairwise_cons.mp hp).2

end Ledger.Sql

namespace Ledger.Sql

/-- the query of `set_effective_volumes` -/
def prevQuery (item wher : Expr) : Query :=
  Query.mk [] (SetExpr.select (Select.mk false [] [SelItem.expr item ""] [FromItem.table "" "moves" ""] (some wher) [] none))
    prevOrder (some (Expr.int 1)) none LockMode.none

theorem exec_prevQuery_sorted (p : Nat) (b ln : String) (n : Spec.MoveRow) (x : Value) (found : Bool)
    (item wher dflt_ : Expr) (hsem : SetEffSem item wher dflt_) (hname : outNames [(item, "")] = ["row"])
    (s : St) (hs : TxState s) (hsp : s.searchPath = b) (trigs : List TriggerDef) (nr : Nat) (rows : List Ver)
    (hT : s.w.table? (mvFull b) = some ((mvT b trigs nr).withRows rows))
    (tbl : List (String × Spec.MoveRow)) (hview : MvView (cv s) rows tbl) (hseq : (tbl.map (·.2.seq)).Nodup) :
    ∃ sorted : List OutRow,
      (evalQuery (p + 6) (plEnvV (mvValsX ln n x) found []) (prevQuery item wher)).exec s =
        (.ok { cols := ["row"], rows := (sorted.take 1).map (·.vals) }, s) ∧
      sorted.Perm ((((rows.filter (fun r => r.visible (cv s))).reverse.map (rowScopeOf ((mvT b trigs nr).withRows rows) "moves")).filter
        (prevW ln n)).map (outRowOf (prevProj n))) ∧
      sorted.Pairwise (fun a c => mvCmp (prevKey c) (prevKey a) ≠ .lt) := by
  have hq : (qualify "" "moves").exec s = (.ok (mvFull b), s) := by simp [qualify, hsp, mvFull, exec_bind]
  have hfrom := exec_evalFromList_table p (plEnvV (mvValsX ln n x) found []) "" "moves" "" (mvFull b) _ s hs (by rfl) hq hT
  rw [scan_eq] at hfrom
  simp only [show ("" : String).isEmpty = true from by decide, if_true, withRows_rows] at hfrom
  -- every scanned scope comes from a typed row
  have hsc : ∀ sc ∈ (rows.filter (fun r => r.visible (cv s))).reverse.map (rowScopeOf ((mvT b trigs nr).withRows rows) "moves"),
      ∃ r ∈ rows, ∃ pr ∈ tbl, sc = { alias := "moves", cols := mvCols, vals := mvVals pr.1 pr.2, src := some (mvFull b, r.rid) } := by
    intro sc hsc
    obtain ⟨r, hr, rfl⟩ := List.mem_map.mp hsc
    have hr' := List.mem_filter.mp (List.mem_reverse.mp hr)
    obtain ⟨pr, hpr, hv⟩ := hview.of_row r hr'.1 hr'.2
    exact ⟨r, hr'.1, pr, hpr, by simp [rowScopeOf, hv, mvT_colNames]; rfl⟩
  -- the output rows, typed
  have hout : ∀ o ∈ (((rows.filter (fun r => r.visible (cv s))).reverse.map (rowScopeOf ((mvT b trigs nr).withRows rows) "moves")).filter
      (prevW ln n)).map (outRowOf (prevProj n)),
      ∃ r ∈ rows, ∃ pr ∈ tbl, o = outRowOf (prevProj n) { alias := "moves", cols := mvCols, vals := mvVals pr.1 pr.2, src := some (mvFull b, r.rid) } := by
    intro o ho
    obtain ⟨sc, hscm, rfl⟩ := List.mem_map.mp ho
    obtain ⟨r, hr, pr, hpr, rfl⟩ := hsc sc (List.mem_filter.mp hscm).1
    exact ⟨r, hr, pr, hpr, rfl⟩
  have hsortE := exec_sortOut' (p + 2) (plEnvV (mvValsX ln n x) found []) ["row"]
    ((((rows.filter (fun r => r.visible (cv s))).reverse.map (rowScopeOf ((mvT b trigs nr).withRows rows) "moves")).filter
      (prevW ln n)).map (outRowOf (prevProj n)))
    prevOrder (by simp [prevOrder]) s prevKey mvCmp mvKeyOk
  obtain ⟨sorted, tie, hsortEq, hperm, hpw, htie⟩ := hsortE
    (by
      intro o ho
      obtain ⟨r, _, pr, _, rfl⟩ := hout o ho
      simp only [prevOrder, exec_mapM_cons, orderKeyM, colIndex, colIndex.go, exec_bind, exec_pure, evalExpr]
      simp only [show ("row" == "effective_date") = false from by decide, show ("row" == "seq") = false from by decide]
      simp only [outRowOf]
      rw [lookup_local_unq _ { alias := "moves", cols := mvCols, vals := mvVals pr.1 pr.2, src := some (mvFull b, r.rid) } rfl
        "effective_date" (.ts pr.2.effectiveDate) rfl,
        lookup_local_unq _ { alias := "moves", cols := mvCols, vals := mvVals pr.1 pr.2, src := some (mvFull b, r.rid) } rfl
        "seq" (.int pr.2.seq) rfl]
      simp [exec_liftR_ok, prevKey, mvDec_mvVals])
    (by
      have : orderDescs prevOrder = [true, true] ∧ orderNulls prevOrder = [NullsOrder.dflt, NullsOrder.dflt] := ⟨rfl, rfl⟩
      rw [this.1, this.2]; exact mvCmpOk)
    (by
      intro o ho
      obtain ⟨r, _, pr, _, rfl⟩ := hout o ho
      exact ⟨pr.2.effectiveDate, pr.2.seq, by simp [prevKey, outRowOf, mvDec_mvVals]⟩)
    (fun t => t = false)
    (by
      intro lst hl
      refine ⟨false, ?_, rfl⟩
      apply hasTieR_mv
      · intro pr hpr
        obtain ⟨o, ho, rfl⟩ := List.mem_map.mp ((hl.mem_iff).mp hpr)
        obtain ⟨r, _, q, _, rfl⟩ := hout o ho
        exact ⟨q.2.effectiveDate, q.2.seq, (q.2.pcev.add n.delta).input, (q.2.pcev.add n.delta).output,
          by simp [prevKey, outRowOf, mvDec_mvVals], by simp [outRowOf, prevProj, mvDec_mvVals]⟩
      · refine hl.symm.pairwise ?_ (fun {a c} (h : a.1 ≠ c.1) => (Ne.symm h : c.1 ≠ a.1))
        rw [List.pairwise_map, List.pairwise_map]
        apply List.Pairwise.filter
        rw [List.pairwise_map]
        have hvals : ((rows.filter (fun r => r.visible (cv s))).reverse).map (·.vals) = (tbl.map (fun p => mvVals p.1 p.2)).reverse := by
          rw [List.map_reverse, hview]
        have hseqs : ((rows.filter (fun r => r.visible (cv s))).reverse).map (fun r => seqOfVals r.vals) = (tbl.map (·.2.seq)).reverse := by
          have : ((rows.filter (fun r => r.visible (cv s))).reverse).map (fun r => seqOfVals r.vals) =
              (((rows.filter (fun r => r.visible (cv s))).reverse).map (·.vals)).map seqOfVals := by simp [List.map_map, Function.comp]
          rw [this, hvals, ← List.map_reverse, List.map_map, ← List.map_reverse]
          apply List.map_congr_left
          intro q _
          simp [seqOfVals, mvDec_mvVals]
        have hnd : (((rows.filter (fun r => r.visible (cv s))).reverse).map (fun r => seqOfVals r.vals)).Nodup := by
          rw [hseqs]; exact nodup_reverse' _ hseq
        have hpw := List.pairwise_map.mp hnd
        refine hpw.imp_of_mem ?_
        intro a c ha hc hne
        have ha' := List.mem_filter.mp (List.mem_reverse.mp ha)
        have hc' := List.mem_filter.mp (List.mem_reverse.mp hc)
        obtain ⟨qa, _, hva⟩ := hview.of_row a ha'.1 ha'.2
        obtain ⟨qc, _, hvc⟩ := hview.of_row c hc'.1 hc'.2
        simp only [outRowOf, prevKey, rowScopeOf, hva, hvc, mvDec_mvVals, seqOfVals] at hne ⊢
        intro h
        apply hne
        simp only [List.cons.injEq, Value.int.injEq, Value.ts.injEq] at h
        omega)
  refine ⟨sorted, ?_, hperm, hpw⟩
  have hset : (evalSetExpr (p + 5) (plEnvV (mvValsX ln n x) found [])
      (SetExpr.select (Select.mk false [] [SelItem.expr item ""] [FromItem.table "" "moves" ""] (some wher) [] none)) prevOrder).exec s =
      (.ok (["row"], sorted), s) := by
    rw [evalSetExpr]
    have := exec_evalSelect_simple (p + 3) (plEnvV (mvValsX ln n x) found []) [(item, "")] [FromItem.table "" "moves" ""] wher prevOrder s _
      (prevW ln n) (prevProj n) hfrom ?_ ?_ ?_ ?_ sorted false (by rw [hname]; simpa [htie] using hsortEq)
    · rw [hname] at this; simpa using this
    · -- WHERE
      intro sc hscm
      obtain ⟨r, _, pr, _, rfl⟩ := hsc sc hscm
      have := hsem.hwher (cbs (p + 3)) s.w.types pr.1 ln pr.2 n x found [] (some (mvFull b, r.rid)) s
      simp only [trigEnvV] at this
      simp only [plEnvV, exec_bind, this, truth_bool, exec_liftR_ok, exec_pure, prevW, mvDec_mvVals, mvCand]
      cases (decide (pr.2.account = n.account ∧ pr.2.asset = n.asset ∧ pr.1 = ln) && pr.2.before n) <;> rfl
    · simp [Expr.anyHasAgg, hsem.hitemAgg, prevOrder, OrderItem.exprOf, Expr.hasAgg]
    · simp [hsem.hitemWin, prevOrder, OrderItem.exprOf, Expr.winsList, Expr.wins]
    · -- projection
      intro sc hscm _
      obtain ⟨r, _, pr, _, rfl⟩ := hsc sc hscm
      have := hsem.hitem (cbs (p + 3)) s.w.types pr.1 ln pr.2 n x found [] (some (mvFull b, r.rid)) s
      simp only [trigEnvV] at this
      simp only [plEnvV, List.map_cons, List.map_nil, evalExprs, exec_bind, this, exec_pure, prevProj, mvDec_mvVals]
  have := exec_evalQuery_limit (p + 4) (plEnvV (mvValsX ln n x) found []) _ prevOrder 1 (by omega) s s ["row"] sorted hset
  simpa [prevQuery] using this

end Ledger.Sql

namespace Ledger.Sql
open Ledger.Spec

/-- the moves of ledger `ln` in a typed table -/
def ledgerMoves (ln : String) (tbl : List (String × Spec.MoveRow)) : List Spec.MoveRow :=
  (tbl.filter (fun p => decide (p.1 = ln))).map (·.2)

theorem mem_ledgerMoves {ln : String} {tbl : List (String × Spec.MoveRow)} {m : Spec.MoveRow} :
    m ∈ ledgerMoves ln tbl ↔ (ln, m) ∈ tbl := by
  simp only [ledgerMoves, List.mem_map, List.mem_filter, decide_eq_true_eq]
  constructor
  · rintro ⟨⟨l, m'⟩, ⟨h1, h2⟩, h3⟩
    simp only at h2 h3
    subst h2 h3
    exact h1
  · intro h
    exact ⟨(ln, m), ⟨h, rfl⟩, rfl⟩

theorem mvCand_iff (ln : String) (n : Spec.MoveRow) (p : String × Spec.MoveRow) :
    mvCand ln n p = true ↔ (p.1 = ln ∧ p.2.key = n.key ∧ p.2.before n = true) := by
  simp only [mvCand, Bool.and_eq_true, decide_eq_true_eq, Spec.MoveRow.key, Prod.mk.injEq]
  constructor
  · rintro ⟨⟨a, b, c⟩, d⟩; exact ⟨c, ⟨a, b⟩, d⟩
  · rintro ⟨c, ⟨a, b⟩, d⟩; exact ⟨⟨a, b, c⟩, d⟩

/-- the first row of the candidates sorted by (effective_date, seq) descending is `Spec.prevMove` -/
theorem sorted_head_prevMove (ln : String) (n : Spec.MoveRow) (tbl : List (String × Spec.MoveRow)) (hseq : (tbl.map (·.2.seq)).Nodup)
    (L sorted : List OutRow) (hperm : sorted.Perm L)
    (hpw : sorted.Pairwise (fun a c => mvCmp (prevKey c) (prevKey a) ≠ .lt))
    (F1 : ∀ o ∈ L, ∃ pr ∈ tbl, mvCand ln n pr = true ∧
      o.vals = [.row [] [.int (pr.2.pcev.add n.delta).input, .int (pr.2.pcev.add n.delta).output]] ∧
      prevKey o = [.ts pr.2.effectiveDate, .int pr.2.seq])
    (F2 : ∀ pr ∈ tbl, mvCand ln n pr = true → ∃ o ∈ L, prevKey o = [.ts pr.2.effectiveDate, .int pr.2.seq]) :
    (sorted.take 1).map (·.vals) =
      match prevMove (ledgerMoves ln tbl) n with
      | some p => [[.row [] [.int (p.pcev.add n.delta).input, .int (p.pcev.add n.delta).output]]]
      | none => [] := by
  cases sorted with
  | nil =>
    have hL : L = [] := by simpa using hperm.symm
    cases hp : prevMove (ledgerMoves ln tbl) n with
    | none => rfl
    | some p' =>
      exfalso
      obtain ⟨h1, h2, h3, _⟩ := prevMove_some hp
      obtain ⟨o, ho, _⟩ := F2 (ln, p') (mem_ledgerMoves.mp h1) ((mvCand_iff ln n (ln, p')).mpr ⟨rfl, h2, h3⟩)
      rw [hL] at ho; cases ho
  | cons h rest =>
    have hh : h ∈ L := (hperm.mem_iff).mp (by simp)
    obtain ⟨pr, hpr, hc, hv, hk⟩ := F1 h hh
    obtain ⟨c1, c2, c3⟩ := (mvCand_iff ln n pr).mp hc
    have hprT : pr.2 ∈ ledgerMoves ln tbl := mem_ledgerMoves.mpr (by rw [← c1]; exact hpr)
    cases hp : prevMove (ledgerMoves ln tbl) n with
    | none => exact absurd ⟨c2, c3⟩ (prevMove_none hp pr.2 hprT)
    | some p' =>
      obtain ⟨h1, h2, h3, h4⟩ := prevMove_some hp
      have hna := h4 pr.2 hprT c2 c3
      obtain ⟨o', ho', hk'⟩ := F2 (ln, p') (mem_ledgerMoves.mp h1) ((mvCand_iff ln n (ln, p')).mpr ⟨rfl, h2, h3⟩)
      have ho's : o' ∈ h :: rest := (hperm.mem_iff).mpr ho'
      have hle : ¬ (pr.2.effectiveDate < p'.effectiveDate ∨ (p'.effectiveDate = pr.2.effectiveDate ∧ (pr.2.seq : Int) < p'.seq)) := by
        rcases List.mem_cons.mp ho's with e | hin
        · subst e
          rw [hk] at hk'
          simp only [List.cons.injEq, Value.ts.injEq, Value.int.injEq, and_true] at hk'
          omega
        · have := (List.pairwise_cons.mp hpw).1 o' hin
          rw [hk', hk] at this
          intro hcon
          exact this ((mvCmp_lt _ _ _ _).mpr hcon)
      rw [notAfter_iff] at hna
      have hs : pr.2.seq = p'.seq := by omega
      have : pr = (ln, p') := nodup_map_inj (fun q : String × Spec.MoveRow => q.2.seq) tbl hseq pr hpr (ln, p') (mem_ledgerMoves.mp h1) hs
      subst this
      simp [hv]

end Ledger.Sql

namespace Ledger.Sql
open Ledger.Spec

/-- The query of `set_effective_volumes`, run for the NEW row `n` of ledger `ln` on a `moves` table whose visible content is `tbl`
    (sequence numbers distinct): at most one row, holding the effective volumes of `Spec.prevMove` plus NEW's delta. -/
theorem exec_prevQuery (p : Nat) (b ln : String) (n : Spec.MoveRow) (x : Value) (found : Bool)
    (item wher dflt_ : Expr) (hsem : SetEffSem item wher dflt_) (hname : outNames [(item, "")] = ["row"])
    (s : St) (hs : TxState s) (hsp : s.searchPath = b) (trigs : List TriggerDef) (nr : Nat) (rows : List Ver)
    (hT : s.w.table? (mvFull b) = some ((mvT b trigs nr).withRows rows))
    (tbl : List (String × Spec.MoveRow)) (hview : MvView (cv s) rows tbl) (hseq : (tbl.map (·.2.seq)).Nodup) :
    (evalQuery (p + 6) (plEnvV (mvValsX ln n x) found []) (prevQuery item wher)).exec s =
      (.ok { cols := ["row"], rows := match prevMove (ledgerMoves ln tbl) n with
        | some q => [[.row [] [.int (q.pcev.add n.delta).input, .int (q.pcev.add n.delta).output]]]
        | none => [] }, s) := by
  obtain ⟨sorted, hq, hperm, hpw⟩ := exec_prevQuery_sorted p b ln n x found item wher dflt_ hsem hname s hs hsp trigs nr rows hT tbl hview hseq
  rw [hq]
  have := sorted_head_prevMove ln n tbl hseq _ sorted hperm hpw ?_ ?_
  · rw [this]
  · intro o ho
    obtain ⟨sc, hscm, rfl⟩ := List.mem_map.mp ho
    have hf := List.mem_filter.mp hscm
    obtain ⟨r, hr, rfl⟩ := List.mem_map.mp hf.1
    have hr' := List.mem_filter.mp (List.mem_reverse.mp hr)
    obtain ⟨pr, hpr, hv⟩ := hview.of_row r hr'.1 hr'.2
    have hw := hf.2
    simp only [prevW, rowScopeOf, hv, mvDec_mvVals] at hw
    exact ⟨pr, hpr, hw, by simp [outRowOf, prevProj, rowScopeOf, hv, mvDec_mvVals], by simp [outRowOf, prevKey, rowScopeOf, hv, mvDec_mvVals]⟩
  · intro pr hpr hc
    obtain ⟨r, hr, hvis, hv⟩ := hview.of_mem pr hpr
    refine ⟨outRowOf (prevProj n) (rowScopeOf ((mvT b trigs nr).withRows rows) "moves" r), ?_, by simp [outRowOf, prevKey, rowScopeOf, hv, mvDec_mvVals]⟩
    apply List.mem_map_of_mem
    apply List.mem_filter.mpr
    refine ⟨List.mem_map_of_mem (List.mem_reverse.mpr (List.mem_filter.mpr ⟨hr, hvis⟩)), ?_⟩
    simp only [prevW, rowScopeOf, hv, mvDec_mvVals]
    exact hc

end Ledger.Sql
