import Ledger.Sched.Writers
import Ledger.Generated.Handles

/-!
# The writers' programs vs. the statement sequences of the real code

`Ledger.Generated.Handles` is regenerated on every check by running the real
controller stack once per write kind over pgfake/LeanPG. The facts below are
finite and closed by `decide`: they are the tie between the hand-written
programs of `Ledger/Sched/Writers.lean` and the code, and they re-check whenever
the code's statement order changes (e.g. the advisory lock moved after the log
insert, a dropped `FOR UPDATE`, a write issued outside the transaction).
-/
namespace Ledger.Sched
open Ledger.Generated

/-- projection of a captured trace on the kinds the model tracks -/
def modelledKinds (t : Handles.Trace) : List Kind := (t.map (·.1)).filter Kind.modelled

/-- the answers along a success path -/
def okAnswers : Stmt → Out
  | .getBalances _ => { vals := [1000] }
  | .revertUpdate _ _ _ => { flag := true, vals := [1] }
  | .updateState _ => { flag := true }
  | .readState _ => { flag := true }
  | .readLastLog _ => { vals := [0] }
  | _ => {}

/-- handle discipline (C07): inside BEGIN … COMMIT/ROLLBACK no statement runs on the pool, and
    outside of it only lock / read statements (and the block builder's call) do -/
def disciplined : Bool → Handles.Trace → Bool
  | _, [] => true
  | false, (.begin, .conn) :: r => disciplined true r
  | false, (k, .conn) :: r =>
    (k == .lockLedgerS || k == .unlockLedgerS || k == .readState || k == .readLastLog || k == .readIK ||
      k == .read || k == .readSchema || k == .createBlocks) && disciplined false r
  | false, _ :: _ => false
  | true, (.commit, .tx) :: r => disciplined false r
  | true, (.rollback, .tx) :: r => disciplined false r
  | true, (_, .conn) :: _ => false
  | true, _ :: r => disciplined true r

def exSend (sync : Bool) (allow : Allow) (ik ref : Nat) : Send :=
  { l := 1, sync := sync, src := 1, dst := 2, amt := 10, allow := allow, ik := ik, hash := 7, ref := ref }

def exRevert : Revert := { l := 1, sync := true, tx := 1, src := 1, dst := 2, amt := 10 }

def exImp : List ImpLog :=
  [{ id := 1, tx := 1, ref := 0, ik := 0, hash := 0, ds := [(1, -5), (2, 5)] },
   { id := 2, tx := 2, ref := 0, ik := 0, hash := 0, ds := [(1, -7), (3, 7)] }]

end Ledger.Sched
