import Ledger.Api.JVal

/-!
Decimal printing / parsing round trips for unbounded integers (helper lemmas for
C36).  `showInt` is what the models print amounts with, `parseBigInt`
(`big.Int.SetString(s, 10)`) and `parseJsonInt` (JSON integer literal) what they
read them back with.
-/
namespace Ledger.Api

theorem ofDigits_append_singleton (l : List Nat) (d : Nat) :
    ofDigits (l ++ [d]) = 10 * ofDigits l + d := by
  simp [ofDigits, List.foldl_append]

theorem natDigits_eq (n : Nat) :
    natDigits n = if n < 10 then [n] else natDigits (n / 10) ++ [n % 10] := by
  rw [natDigits]
  split <;> simp_all

theorem ofDigits_natDigits (n : Nat) : ofDigits (natDigits n) = n := by
  induction n using Nat.strongRecOn with
  | _ n ih =>
    rw [natDigits_eq]
    split
    · simp [ofDigits]
    · rw [ofDigits_append_singleton, ih (n / 10) (by omega)]; omega

theorem natDigits_lt (n : Nat) : ∀ d ∈ natDigits n, d < 10 := by
  induction n using Nat.strongRecOn with
  | _ n ih =>
    rw [natDigits_eq]
    split
    · intro d hd; simp at hd; omega
    · intro d hd
      simp only [List.mem_append, List.mem_singleton] at hd
      rcases hd with h | h
      · exact ih (n / 10) (by omega) d h
      · omega

theorem natDigits_ne_nil (n : Nat) : natDigits n ≠ [] := by
  rw [natDigits_eq]; split <;> simp

/-- The first digit of a number with several digits is not zero. -/
theorem natDigits_head (n : Nat) : ∃ d rest, natDigits n = d :: rest ∧ d < 10 ∧ (rest ≠ [] → d ≠ 0) := by
  induction n using Nat.strongRecOn with
  | _ n ih =>
    rw [natDigits_eq]
    split
    · exact ⟨n, [], rfl, by omega, by simp⟩
    · obtain ⟨d, rest, h, hd, hz⟩ := ih (n / 10) (by omega)
      refine ⟨d, rest ++ [n % 10], by rw [h]; rfl, hd, ?_⟩
      intro _
      by_cases hr : rest = []
      · subst hr
        have h2 := congrArg ofDigits h
        rw [ofDigits_natDigits] at h2
        simp [ofDigits] at h2
        omega
      · exact hz hr

theorem charDigit_digitChar (d : Nat) (h : d < 10) : charDigit? (digitChar d) = some d := by
  have : d = 0 ∨ d = 1 ∨ d = 2 ∨ d = 3 ∨ d = 4 ∨ d = 5 ∨ d = 6 ∨ d = 7 ∨ d = 8 ∨ d = 9 := by omega
  rcases this with h | h | h | h | h | h | h | h | h | h <;> subst h <;> decide

theorem digitChar_ne_sign (d : Nat) (h : d < 10) : digitChar d ≠ '-' ∧ digitChar d ≠ '+' := by
  have : d = 0 ∨ d = 1 ∨ d = 2 ∨ d = 3 ∨ d = 4 ∨ d = 5 ∨ d = 6 ∨ d = 7 ∨ d = 8 ∨ d = 9 := by omega
  rcases this with h | h | h | h | h | h | h | h | h | h <;> subst h <;> decide

theorem digitChar_eq_zero (d : Nat) (h : d < 10) : digitChar d = '0' ↔ d = 0 := by
  have : d = 0 ∨ d = 1 ∨ d = 2 ∨ d = 3 ∨ d = 4 ∨ d = 5 ∨ d = 6 ∨ d = 7 ∨ d = 8 ∨ d = 9 := by omega
  rcases this with h | h | h | h | h | h | h | h | h | h <;> subst h <;> decide

theorem mapM_charDigit (l : List Nat) (h : ∀ d ∈ l, d < 10) :
    (l.map digitChar).mapM charDigit? = some l := by
  induction l with
  | nil => rfl
  | cons d ds ih =>
    have hd := charDigit_digitChar d (h d (by simp))
    have := ih (fun x hx => h x (by simp [hx]))
    simp [List.mapM_cons, hd, this]

/-- `parseNat ∘ showNat = id`. -/
theorem parseNat_showNat (n : Nat) : parseNat (showNat n) = some n := by
  unfold parseNat showNat
  have hne : (List.map digitChar (natDigits n)).isEmpty = false := by
    cases h : natDigits n with
    | nil => exact absurd h (natDigits_ne_nil n)
    | cons _ _ => rfl
  simp only [hne]
  rw [mapM_charDigit _ (natDigits_lt n)]
  simp [ofDigits_natDigits]

/-- The text of a natural number starts with a digit, and with `0` only for zero. -/
theorem showNat_shape (n : Nat) :
    ∃ c rest, showNat n = c :: rest ∧ c ≠ '-' ∧ c ≠ '+' ∧ (c = '0' → rest = []) := by
  obtain ⟨d, rest, h, hd, hz⟩ := natDigits_head n
  refine ⟨digitChar d, rest.map digitChar, by simp [showNat, h], (digitChar_ne_sign d hd).1,
    (digitChar_ne_sign d hd).2, ?_⟩
  intro hc
  have : d = 0 := (digitChar_eq_zero d hd).1 hc
  by_cases hr : rest = []
  · simp [hr]
  · exact absurd this (hz hr)

/-- C36 `decimal_roundtrip`, `big.Int.SetString` side: every integer, of any
    magnitude and sign, is read back exactly from its decimal text. -/
theorem parseBigInt_showInt (i : Int) : parseBigInt (showInt i) = some i := by
  cases i with
  | ofNat n =>
    obtain ⟨c, rest, h, h1, h2, _⟩ := showNat_shape n
    have hp := parseNat_showNat n
    simp only [showInt]
    rw [h] at hp ⊢
    unfold parseBigInt
    split
    · rename_i heq; cases heq; exact absurd rfl h1
    · rename_i heq; cases heq; exact absurd rfl h2
    · simp [hp]
  | negSucc n =>
    simp only [showInt, parseBigInt, parseNat_showNat]
    simp [Int.negSucc_eq]

theorem jsonNatBody_showNat (n : Nat) : jsonNatBody (showNat n) = some n := by
  obtain ⟨c, rest, h, _, _, h0⟩ := showNat_shape n
  have hp := parseNat_showNat n
  rw [h] at hp ⊢
  unfold jsonNatBody
  split
  · rename_i heq
    cases heq
    simpa [parseNat, charDigit?, ofDigits] using hp
  · rename_i hne heq
    cases heq
    exact absurd (by rw [h0 rfl]) (hne)
  · exact hp

/-- C36 `decimal_roundtrip`, JSON side: the decimal text of every integer is a
    JSON integer literal denoting that integer. -/
theorem parseJsonInt_showInt (i : Int) : parseJsonInt (showInt i) = some i := by
  cases i with
  | ofNat n =>
    obtain ⟨c, rest, h, h1, _, _⟩ := showNat_shape n
    have hb := jsonNatBody_showNat n
    simp only [showInt]
    unfold parseJsonInt
    rw [h] at hb ⊢
    split
    · rename_i heq; cases heq; exact absurd rfl h1
    · simp [hb]
  | negSucc n =>
    have hb := jsonNatBody_showNat (n + 1)
    simp only [showInt, parseJsonInt, hb]
    simp [Int.negSucc_eq]

end Ledger.Api
