import Ledger.Proofs.CtrlHist

/-!
A complete `runLog` appends exactly one log — the one it returns — and nothing
before `InsertLog` touches the `logs` table.
-/
namespace Ledger.Ctrl
open Ledger.Base Ledger.Core

theorem commitTransaction_logs (now : Time) (t : TxIn) (d : Db) (sq : Seqs) (x : Tx × Db)
    (h : (commitTransaction now t d sq).2 = .ok x) : x.2.logs = d.logs := by
  unfold commitTransaction at h
  cases hid : t.id <;> simp only [hid] at h <;> split at h <;> (try split at h) <;>
    first | (cases h; rfl) | cases h

theorem exec_quiet_logs (now : Time) (c : Call) (d : Db) (sq : Seqs) (hq : c.Quiet) :
    ∀ sq' r d', exec now c d sq = (sq', .ok (r, d')) → d'.logs = d.logs := by
  intro sq' r d' he
  cases c with
  | insertLog l => exact hq.elim
  | commitTransaction t =>
    simp only [exec] at he
    exact commitTransaction_logs now t d sq (r, d') (by rw [he])
  | revertTransaction id w =>
    simp only [exec, revertTransaction, Prod.mk.injEq] at he
    obtain ⟨_, he⟩ := he
    split at he
    · cases he
    · split at he <;> (cases he; rfl)
  | updateTxMeta id m w =>
    simp only [exec, updateTxMeta, Prod.mk.injEq] at he
    obtain ⟨_, he⟩ := he
    split at he
    · cases he
    · split at he <;> (cases he; rfl)
  | deleteTxMeta id k w =>
    simp only [exec, deleteTxMeta, Prod.mk.injEq] at he
    obtain ⟨_, he⟩ := he
    split at he
    · cases he
    · split at he <;> (cases he; rfl)
  | readLogIK ik => simp only [exec] at he; cases he; rfl
  | findSchema v => simp only [exec] at he; cases he; rfl
  | findLatestSchemaVersion => simp only [exec] at he; cases he; rfl
  | getAccount a => simp only [exec] at he; cases he; rfl
  | getBalances q => simp only [exec, getBalances] at he; cases he; rfl
  | upsertAccounts rows => simp only [exec, upsertAccounts] at he; cases he; rfl
  | updateAccountsMeta m w => simp only [exec, updateAccountsMeta] at he; cases he; rfl
  | deleteAccountMeta a k =>
    simp only [exec, deleteAccountMeta] at he
    cases he
    split <;> rfl
  | insertSchema s =>
    simp only [exec, insertSchema] at he
    split at he <;> (cases he; rfl)

/-- A program without `InsertLog` leaves the `logs` table as it is. -/
theorem run_quiet_logs {α : Type} (now : Time) (hn : String) (f : Faults) (p : Prog α) (hp : p.All Call.Quiet)
    (st : RunSt) : (run now hn f p st).2.db.logs = st.db.logs := by
  have := run_rel now hn f Call.Quiet (fun x y => y.1.logs = x.1.logs) (fun _ => rfl)
    (fun _ _ _ h1 h2 => h2.trans h1)
    (fun c d sq hc => ⟨fun _ _ _ => rfl, fun sq' r d' he => exec_quiet_logs now c d sq hc sq' r d' he⟩)
    p hp st
  exact this

/-- What a successful `runLog` did to the journal. -/
structure Appended (now : Time) (ik ihash sv : String) (st0 st : RunSt) (log : Log) : Prop where
  logs : st.db.logs = st0.db.logs ++ [log]
  ik : log.ik = ik
  ihash : log.ihash = ihash
  sv : log.schemaVersion = sv
  date : log.date = now

theorem run_insertLog_ok (now : Time) (hn : String) (f : Faults) (ik ihash sv : String)
    (p : Payload) (st2 st : RunSt) (log : Log)
    (h : run now hn f (Prog.call (Call.insertLog { payload := p, ik := ik, ihash := ihash, schemaVersion := sv })
          Prog.pure) st2 = (.ok log, st)) :
    Appended now ik ihash sv st2 st log ∧ log.payload = p := by
  simp only [run] at h
  split at h
  · cases h
  · split at h
    · cases h
    · rename_i sq r d heq
      simp only [exec, insertLog] at heq
      simp only [Prod.mk.injEq, Except.ok.injEq] at h
      obtain ⟨rfl, rfl⟩ := h
      split at heq
      · simp only [Prod.mk.injEq] at heq; exact nomatch heq.2
      · split at heq
        · simp only [Prod.mk.injEq] at heq; exact nomatch heq.2
        · simp only [Prod.mk.injEq, Except.ok.injEq] at heq
          obtain ⟨_, rfl, rfl⟩ := heq
          exact ⟨⟨rfl, rfl, rfl, rfl, rfl⟩, rfl⟩

theorem run_logPhase_ok (now : Time) (hn : String) (f : Faults) (strict : Bool) (ik ihash sv : String)
    (schema : Option Schema) (p : Payload) (st2 st : RunSt) (log : Log)
    (h : run now hn f (logPhase strict ik ihash sv schema p) st2 = (.ok log, st)) :
    Appended now ik ihash sv st2 st log ∧ log.payload = p := by
  unfold logPhase at h
  cases schema with
  | none =>
    simp only [Bool.false_eq_true, ↓reduceIte] at h
    exact run_insertLog_ok now hn f ik ihash sv p st2 st log h
  | some sc =>
    simp only at h
    by_cases hb : (strict && !validPayload sc p) = true
    · rw [if_pos hb] at h; simp only [run] at h; cases h
    · rw [if_neg hb] at h
      exact run_insertLog_ok now hn f ik ihash sv p st2 st log h

theorem run_runLog_ok (now : Time) (hn : String) (f : Faults) (strict : Bool) (kind : OpKind)
    (ik ihash sv : String) (n : Nat) (st0 st : RunSt) (log : Log)
    (h : run now hn f (runLog strict kind ik ihash sv n) st0 = (.ok log, st)) :
    Appended now ik ihash sv st0 st log := by
  unfold runLog at h
  rw [run_bind] at h
  have h1 := run_quiet_logs now hn f _ (schemaPhase_quiet strict kind sv) st0
  generalize run now hn f (schemaPhase strict kind sv) st0 = r1 at h h1
  obtain ⟨r1, st1⟩ := r1
  cases r1 with
  | error e => cases h
  | ok schema =>
    simp only at h
    rw [run_bind] at h
    have h2 := run_quiet_logs now hn f _ (body_quiet strict kind n schema) st1
    generalize run now hn f (body strict kind n schema) st1 = r2 at h h2
    obtain ⟨r2, st2⟩ := r2
    cases r2 with
    | error e => cases h
    | ok p =>
      simp only at h
      have h3 := (run_logPhase_ok now hn f strict ik ihash sv schema p st2 st log h).1
      simp only at h1 h2
      exact ⟨by rw [h3.logs, h2, h1], h3.ik, h3.ihash, h3.sv, h3.date⟩

end Ledger.Ctrl
