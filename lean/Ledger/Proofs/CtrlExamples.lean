import Ledger.Ctrl.Import
import Ledger.Ctrl.Spec

/-! Concrete states and operations used by the non-vacuity examples of the
    controller-layer property files. -/
namespace Ledger.Ctrl.Examples
open Ledger.Ctrl Ledger.Core

/-- world → bank 100 USD, then bank → users:1 150 USD (insufficient funds). -/
def s1 : State := (step false {} { kind := .createP {} [⟨"world", "bank", 100, "USD"⟩] false, now := 10 }).1
def overdraw : Op := { kind := .createP {} [⟨"bank", "users:1", 150, "USD"⟩] false, now := 20 }
def pay (dry : Bool) : Op := { kind := .createP {} [⟨"bank", "users:1", 50, "USD"⟩] false, now := 20, dry := dry }


def payIK : Op := { pay false with ik := "k1", ihash := "h1" }
def payRef : Op := { kind := .createP { reference := "r1" } [⟨"world", "bank", 5, "USD"⟩] false, now := 30 }

/-- Witness 1 (chart defaults): a schema whose chart gives `users:001` the default
    `role = user`, then a metadata save creating `users:001` under that schema. -/
def histDefaults : List Op := [
  { kind := .insertSchema "v1" (some ("{}", [("users:001", [("role", "user")]), ("world", [])])) [] false, now := 10 },
  { kind := .saveAccMeta "users:001" [("k", "v")], now := 20, sv := "v1" } ]

/-- Witness 2 (account dates): a transaction dated in the future creates `fees`
    (first usage = 1000), then a metadata save on `fees` at 20. -/
def histDates : List Op := [
  { kind := .createP { timestamp := some 1000 } [⟨"world", "fees", 0, "USD"⟩] false, now := 10 },
  { kind := .saveAccMeta "fees" [("role", "x")], now := 20 } ]

/-- Export the journal of `s`, import it into an empty ledger. -/
def replay (s : State) : State × Option ImportErr := importLogs 0 {} (exportLogs s)

end Ledger.Ctrl.Examples
