import Ledger.Ctrl.Controller

/-! Concrete states and operations used by the non-vacuity examples of the
    controller-layer property files. -/
namespace Ledger.Ctrl.Examples
open Ledger.Ctrl Ledger.Core

/-- world → bank 100 USD, then bank → users:1 150 USD (insufficient funds). -/
def s1 : State := (step false {} { kind := .createP {} [⟨"world", "bank", 100, "USD"⟩] false, now := 10 }).1
def overdraw : Op := { kind := .createP {} [⟨"bank", "users:1", 150, "USD"⟩] false, now := 20 }
def pay (dry : Bool) : Op := { kind := .createP {} [⟨"bank", "users:1", 50, "USD"⟩] false, now := 20, dry := dry }


end Ledger.Ctrl.Examples
