import Ledger.Ctrl.Import
import Ledger.Ctrl.Spec

/-! Concrete states and operations used by the non-vacuity examples of the
    controller-layer property files. -/
namespace Ledger.Ctrl.Examples
open Ledger.Ctrl Ledger.Core

/-- world → bank 100 USD, then bank → users:1 150 USD (insufficient funds). -/
def s1 : State := (step false {} { kind := .createP {} [⟨"world", "bank", 100, "USD"⟩] false, now := 10 }).1
def overdraw : Op := { kind := .createP {} [⟨"bank", "users:1", 150, "USD"⟩] false, now := 20 }
def pay (dry : Bool) : Op := { kind := .createP {} [⟨"bank", "users:1", 50, "USD"⟩] false, now := 20, dry := dry }


def payIK : Op := { pay false with ik := "k1", ihash := "h1" }
def payRef : Op := { kind := .createP { reference := "r1" } [⟨"world", "bank", 5, "USD"⟩] false, now := 30 }

/-- Witness 1 (chart defaults): a schema whose chart gives `users:001` the default
    `role = user`, then a metadata save creating `users:001` under that schema. -/
def histDefaults : List Op := [
  { kind := .insertSchema "v1" (some ("{}", [("users:001", [("role", "user")]), ("world", [])])) [] false, now := 10 },
  { kind := .saveAccMeta "users:001" [("k", "v")], now := 20, sv := "v1" } ]

/-- Witness 2 (account dates): a transaction dated in the future creates `fees`
    (first usage = 1000), then a metadata save on `fees` at 20. -/
def histDates : List Op := [
  { kind := .createP { timestamp := some 1000 } [⟨"world", "fees", 0, "USD"⟩] false, now := 10 },
  { kind := .saveAccMeta "fees" [("role", "x")], now := 20 } ]

/-- Witness 3 (restamped `updated_at`): a metadata save creates `fees` at 10, a
    metadata delete at 20 stamps `updated_at = 20`; the replay stamps its own clock. -/
def histRestamp : List Op := [
  { kind := .saveAccMeta "fees" [("role", "x")], now := 10 },
  { kind := .delAccMeta "fees" "role", now := 20 } ]

/-- Witness 4 (locked zero row): a script `send [USD 5] (source = {@world @bank} …)`
    whose runtime locks the balance of `bank` (`GetBalances` inserts the `(0,0)` row
    `bank/USD`) but takes everything from `world`: the live ledger keeps the zero row. -/
def histLocked : List Op := [
  { kind := .createS {} [{ postings := [⟨"world", "users:1", 5, "USD"⟩], calls := [.balances [("bank", "USD")]] }],
    now := 10 } ]

/-- A history with every kind of write and none of the four divergences. -/
def histSafe : List Op := [
  { kind := .insertSchema "v1" (some ("{}", [("users:001", [("role", "user")]), ("world", []), ("bank", [])])) [] false, now := 5 },
  { kind := .createP {} [⟨"world", "bank", 100, "USD"⟩] false, now := 10, sv := "v1" },
  { kind := .createS { reference := "r" } [{ postings := [⟨"bank", "users:001", 40, "USD"⟩], calls := [.balances [("bank", "USD")]], accountMeta := [("users:001", [("k", "v")])] }],
    now := 20, sv := "v1", ik := "i1", ihash := "h" },
  { kind := .revert 2 false false [], now := 30, sv := "v1" },
  { kind := .saveTxMeta 1 [("a", "b")], now := 40, sv := "v1" },
  { kind := .saveAccMeta "bank" [("role", "x")], now := 50, sv := "v1" },
  { kind := .saveAccMeta "fees" [("role", "y")], now := 55 },
  { kind := .delTxMeta 1 "a", now := 60, sv := "v1" },
  { kind := .delAccMeta "nobody" "k", now := 70, sv := "v1" },
  { kind := .createP {} [⟨"bank", "users:001", 1000, "USD"⟩] false, now := 80, sv := "v1" } ]

/-- Export the journal of `s`, import it into an empty ledger. -/
def replay (s : State) : State × Option ImportErr := importLogs 0 {} (exportLogs s)

end Ledger.Ctrl.Examples
