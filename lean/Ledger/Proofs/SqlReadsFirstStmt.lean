import Ledger.Proofs.SqlReadsFirst

/-!
# The `first_value` dataset, run by LeanPG on ANY `moves` table = `Spec.effectiveVolumesAt` / `insertionVolumesAt`
-/
open Ledger Ledger.Sql Ledger.Generated Ledger.Core Ledger.Base Ledger.Spec

namespace Ledger.Sql

/-- the wrapper of GetAggregatedBalances(PIT) around the dataset: volumes summed per asset, folded into one JSON object -/
def aggregateWrap (inner : Query) : Stmt :=
  (Stmt.query (Query.mk [(Cte.mk "dataset" [] (Stmt.query (Query.mk [] (SetExpr.select (Select.mk false [] [(SelItem.expr (Expr.agg "public" "aggregate_objects" false false [(Expr.cast (Expr.call "" "json_build_object" [(Expr.col "" "asset"), (Expr.col "" "volumes")]) (SqlType.mk "" "jsonb" "" false))] []) "aggregated")] [(FromItem.sub (Query.mk [] (SetExpr.select (Select.mk false [] [(SelItem.expr (Expr.col "" "asset") ""), (SelItem.expr (Expr.call "" "json_build_object" [(Expr.str "input"), (Expr.agg "" "sum" false false [(Expr.cast (Expr.field (Expr.col "" "volumes") "inputs") (SqlType.mk "" "numeric" "" false))] []), (Expr.str "output"), (Expr.agg "" "sum" false false [(Expr.cast (Expr.field (Expr.col "" "volumes") "outputs") (SqlType.mk "" "numeric" "" false))] [])]) "volumes")] [(FromItem.sub (Query.mk [] (SetExpr.select (Select.mk false [] [(SelItem.star "")] [(FromItem.sub inner "dataset" [] false)] none [] none)) [] none none LockMode.none) "values" [] false)] none [(Expr.col "" "asset")] none)) [] none none LockMode.none) "values" [] false)] none [] none)) [] none none LockMode.none)))] (SetExpr.select (Select.mk false [] [(SelItem.star "")] [(FromItem.table "" "dataset" "")] none [] none)) [] (some (Expr.int 1)) none LockMode.none))

/-! ### the regenerated statements have this shape -/

theorem aggregatedEffPit_shape (b l pit : String) :
    ReadSql.aggregatedEffPit b l pit = [aggregateWrap (fvQuery b (winWhere l (dateCol .effective) (some pit) none) 2 .effective)] := rfl

theorem aggregatedInsPit_shape (b l pit : String) :
    ReadSql.aggregatedInsPit b l pit = [aggregateWrap (fvQuery b (winWhere l (dateCol .insertion) (some pit) none) 2 .insertion)] := rfl

/-- FROM `<bucket>.moves`: the scanned rows are typed and decode to the table (in scan order) -/
theorem exec_scanMoves (q : Nat) (env : Env) (b : String) (hb : b.isEmpty = false) (s : St) (hs : TxState s) (trigs : List TriggerDef)
    (nr : Nat) (rows : List Ver) (hT : s.w.table? (mvFull b) = some ((mvT b trigs nr).withRows rows))
    (tbl : List (String × MoveRow)) (hview : MvView (cv s) rows tbl) :
    ∃ Ls, (evalFromList (q + 3) env [FromItem.table b "moves" ""] [[]]).exec s = (.ok Ls, s) ∧ Typed b Ls ∧
      Ls.filterMap decL = tbl.reverse := by
  have hq : (qualify b "moves").exec s = (.ok (mvFull b), s) := by simp [qualify, hb, mvFull]
  have hfrom := exec_evalFromList_table q env b "moves" "" (mvFull b) _ s hs (by simp [hb]) hq hT
  rw [scan_eq] at hfrom
  simp only [show ("" : String).isEmpty = true from by decide, if_true, withRows_rows] at hfrom
  refine ⟨_, hfrom, ?_, ?_⟩
  · intro L hL
    obtain ⟨sc, hsc, rfl⟩ := List.mem_map.mp hL
    obtain ⟨r, hr, rfl⟩ := List.mem_map.mp hsc
    have hr' := List.mem_filter.mp (List.mem_reverse.mp hr)
    obtain ⟨pr, _, hv⟩ := hview.of_row r hr'.1 hr'.2
    exact ⟨r.rid, pr, by simp [rowScopeOf, mvScope, hv, mvT_colNames]; rfl⟩
  · have h1 : ∀ (rs : List Ver), ((rs.map (rowScopeOf ((mvT b trigs nr).withRows rows) "moves")).map (fun sc => [sc])).filterMap decL =
        (rs.map (·.vals)).filterMap mvDec := by
      intro rs
      induction rs with
      | nil => rfl
      | cons r rs ih => simp only [List.map_cons, List.filterMap_cons, decL, rowScopeOf, ih]
    rw [h1, List.map_reverse, hview, ← List.map_reverse]
    generalize tbl.reverse = tv
    induction tv with
    | nil => rfl
    | cons p tv ih => simp [List.filterMap_cons, mvDec_mvVals, ih]

theorem contains_pit (p d : Int) : (Window.mk none (some p)).contains d = decide (d ≤ p) := by
  simp [Window.contains]

theorem outNames_fv (id : Nat) (mode : DateMode) : outNames (fvItems id mode) = ["accounts_address", "asset", "volumes"] := by
  cases mode <;> rfl

/-- **The `first_value` dataset on any table.** -/
theorem exec_fvQuery (q : Nat) (env : Env) (b l : String) (hb : b.isEmpty = false) (mode : DateMode) (id : Nat) (pitT : String × Int)
    (hp : tsParse pitT.1 = .ok pitT.2)
    (s : St) (hs : TxState s) (trigs : List TriggerDef) (nr : Nat) (rows : List Ver)
    (hT : s.w.table? (mvFull b) = some ((mvT b trigs nr).withRows rows))
    (tbl : List (String × MoveRow)) (hview : MvView (cv s) rows tbl) (hseq : (tbl.map (·.2.seq)).Nodup)
    (T : List MoveRow) (hTp : T.Perm (ledgerMoves l tbl)) :
    ∃ (keys : List Key),
      (evalQuery (q + 6) env (fvQuery b (winWhere l (dateCol mode) (some pitT.1) none) id mode)).exec s =
        (.ok { cols := ["accounts_address", "asset", "volumes"],
               rows := keys.map (fun k => [.text k.1, .text k.2, volVal (volumesAtPit mode T k pitT.2)]) }, s) ∧
      keys.Nodup ∧
      (∀ k, k ∈ keys ↔ ∃ m ∈ T, m.key = k ∧ m.date mode ≤ pitT.2) ∧
      keys.Pairwise (fun a c => KeyOrd.lt c a = false) := by
  obtain ⟨Ls, hfrom, hTy, hdec⟩ := exec_scanMoves q env b hb s hs trigs nr rows hT tbl hview
  generalize hW : Window.mk none (some pitT.2) = W
  -- sequence numbers of the ledger's moves are distinct
  have hseqT : (T.map (·.seq)).Nodup := by
    have h1 : ((ledgerMoves l tbl).map (·.seq)).Nodup := by
      unfold ledgerMoves
      rw [List.map_map]
      have : ((tbl.filter (fun p => decide (p.1 = l))).map ((fun m : MoveRow => m.seq) ∘ fun p => p.2)).Sublist (tbl.map (·.2.seq)) :=
        (List.filter_sublist).map _
      exact hseq.sublist this
    exact (hTp.map _).nodup_iff.mpr h1
  -- scanned rows ↔ moves of the ledger
  have hLT : ∀ L ∈ Ls, inWin l W mode L = true → ∃ rid p, L = [mvScope b rid p] ∧ p.1 = l ∧ p.2 ∈ T ∧ p.2.date mode ≤ pitT.2 := by
    intro L hL hw
    obtain ⟨rid, p, rfl⟩ := hTy L hL
    obtain ⟨lm, m⟩ := p
    rw [inWin_mvScope, ← hW, contains_pit] at hw
    simp only [Bool.and_eq_true, decide_eq_true_eq] at hw
    have : (lm, m) ∈ Ls.filterMap decL := List.mem_filterMap.mpr ⟨_, hL, decL_mvScope b rid (lm, m)⟩
    rw [hdec] at this
    have hmem : (lm, m) ∈ tbl := List.mem_reverse.mp this
    refine ⟨rid, (lm, m), rfl, hw.1, ?_, hw.2⟩
    apply (hTp.mem_iff).mpr
    rw [mem_ledgerMoves, ← hw.1]
    exact hmem
  have hTL : ∀ y ∈ T, y.date mode ≤ pitT.2 → ∃ rid, [mvScope b rid (l, y)] ∈ Ls.filter (inWin l W mode) := by
    intro y hy hd
    have h1 : (l, y) ∈ tbl := mem_ledgerMoves.mp ((hTp.mem_iff).mp hy)
    have h2 : (l, y) ∈ Ls.filterMap decL := by rw [hdec]; exact List.mem_reverse.mpr h1
    obtain ⟨L, hL, hdL⟩ := List.mem_filterMap.mp h2
    obtain ⟨rid, p, rfl⟩ := hTy L hL
    rw [decL_mvScope] at hdL
    simp only [Option.some.injEq] at hdL
    subst hdL
    refine ⟨rid, List.mem_filter.mpr ⟨hL, ?_⟩⟩
    rw [inWin_mvScope, ← hW, contains_pit]
    simp [hd]
  -- the SELECT
  obtain ⟨res, fvs, hsel, hres, hnd, hcov, hpw, hmax⟩ := exec_evalSelect_window_distinct (K := Key) (D := Key) (q + 2) env (fvItems id mode)
    [FromItem.table b "moves" ""] (winWhere l (dateCol mode) (some pitT.1) none) winGroup (by simp [winGroup]) s Ls (inWin l W mode)
    (fvSpec id mode) rfl keyL kvRow (fvOk mode) (fvArg mode) keyL kvKey fvDval fvProj hfrom
    (by
      intro L hL
      obtain ⟨rid, p, rfl⟩ := hTy L hL
      have := exec_winWhere (cbs (q + 2 + 1)) s.w.types { env with locals := [mvScope b rid p] } b rid p rfl l mode (some pitT) none
        (by intro x hx; cases hx; exact hp) (by intro x hx; cases hx) s
      simp only [Option.map] at this
      rw [this, hW]
      simp [inWin, decL_mvScope])
    (by cases mode <;> rfl)
    (by cases mode <;> rfl)
    (by
      intro L hL _
      obtain ⟨rid, p, rfl⟩ := hTy L hL
      have c1 := lookup_mv { env with locals := [mvScope b rid p], group := none } b rid p rfl "accounts_address" (.text p.2.account) rfl
      have c2 := lookup_mv { env with locals := [mvScope b rid p], group := none } b rid p rfl "asset" (.text p.2.asset) rfl
      simp only [fvSpec, evalExprs, evalExpr, exec_bind, exec_pure, exec_liftR_ok, c1, c2]
      simp [kvRow, keyL, decL_mvScope, MoveRow.key])
    (by
      intro L hL _
      obtain ⟨rid, p, rfl⟩ := hTy L hL
      have c1 := lookup_mv { env with locals := [mvScope b rid p], group := none } b rid p rfl "effective_date" (.ts p.2.effectiveDate) rfl
      have c2 := lookup_mv { env with locals := [mvScope b rid p], group := none } b rid p rfl "seq" (.int p.2.seq) rfl
      cases mode
      · simp only [fvSpec, fvOrder, seqOrder, evalOrderKeys, evalExpr, exec_bind, exec_pure, exec_liftR_ok, c2, fvOk, decL_mvScope]
      · simp only [fvSpec, fvOrder, prevOrder, evalOrderKeys, evalExpr, exec_bind, exec_pure, exec_liftR_ok, c1, c2, fvOk, decL_mvScope])
    (by
      intro L hL _
      obtain ⟨rid, p, rfl⟩ := hTy L hL
      cases mode
      · have c1 := lookup_mv { env with locals := [mvScope b rid p], group := none } b rid p rfl "post_commit_volumes" (volVal p.2.pcv) rfl
        simp only [fvSpec, fvCol, evalExprs, evalExpr, exec_bind, exec_pure, exec_liftR_ok, c1, fvArg, decL_mvScope, fvVol]
      · have c1 := lookup_mv { env with locals := [mvScope b rid p], group := none } b rid p rfl "post_commit_effective_volumes"
          (volVal p.2.pcev) rfl
        simp only [fvSpec, fvCol, evalExprs, evalExpr, exec_bind, exec_pure, exec_liftR_ok, c1, fvArg, decL_mvScope, fvVol])
    sameGroupKey_kvRow (fvOk_len mode) (fvCmp mode) (fvKeyOk mode) (fvCmpOk mode) (fvOk_ok mode)
    (by
      intro L hL _ v
      obtain ⟨rid, p, rfl⟩ := hTy L hL
      have c1 := lookup_mv { env with locals := [mvScope b rid p], group := none, wins := [(id, v)] } b rid p rfl
        "accounts_address" (.text p.2.account) rfl
      have c2 := lookup_mv { env with locals := [mvScope b rid p], group := none, wins := [(id, v)] } b rid p rfl
        "asset" (.text p.2.asset) rfl
      simp only [fvItems, fvWin, List.map_cons, List.map_nil, evalExprs, evalExpr, exec_bind, exec_pure, exec_liftR_ok, c1, c2, fvSpec,
        List.lookup, beq_self_eq_true, fvProj, keyL, decL_mvScope, MoveRow.key])
    (by
      intro L hL c hc
      obtain ⟨rid, p, rfl⟩ := hTy L hL
      simp only [winGroup, List.mem_cons, List.not_mem_nil, or_false] at hc
      rcases hc with rfl | rfl <;> rfl)
    (by
      intro L hL _ v c hc
      obtain ⟨rid, p, rfl⟩ := hTy L hL
      have c1 := lookup_mv { env with locals := [mvScope b rid p], group := none, wins := [(id, v)] } b rid p rfl
        "accounts_address" (.text p.2.account) rfl
      have c2 := lookup_mv { env with locals := [mvScope b rid p], group := none, wins := [(id, v)] } b rid p rfl
        "asset" (.text p.2.asset) rfl
      simp only [winGroup, List.mem_cons, List.not_mem_nil, or_false] at hc
      rcases hc with rfl | rfl
      · simp only [fvSpec, evalExpr, exec_bind, exec_liftR_ok, c1]
        simp [fvDval, keyL, decL_mvScope, MoveRow.key]
      · simp only [fvSpec, evalExpr, exec_bind, exec_liftR_ok, c2]
        simp [fvDval, keyL, decL_mvScope, MoveRow.key])
    (by intro L; simp [winGroup, fvDval, kvKey])
    sameGroupKey_kvKey balCmp balKeyOk balCmpOk (fun d => ⟨d.1, d.2, rfl⟩)
  -- the query
  have hset : (evalSetExpr (q + 5) env (SetExpr.select (Select.mk false (winGroup.map (Expr.col "")) ((fvItems id mode).map (fun p => SelItem.expr p.1 p.2))
      [FromItem.table b "moves" ""] (some (winWhere l (dateCol mode) (some pitT.1) none)) [] none)) []).exec s =
      (.ok (outNames (fvItems id mode), res), s) := by
    rw [evalSetExpr]; exact hsel
  have hqry := exec_evalQuery_plain (q + 4) env _ [] s s _ res hset
  -- every result row, typed
  have hrow : ∀ r ∈ res, ∃ rid p, r.locals = [mvScope b rid p] ∧ p.2 ∈ T ∧ p.2.date mode ≤ pitT.2 ∧
      r.vals = [.text p.2.key.1, .text p.2.key.2, volVal (volumesAtPit mode T p.2.key pitT.2)] := by
    intro r hr
    obtain ⟨L, hL, rfl⟩ := hres r hr
    have hLm := List.mem_filter.mp hL
    obtain ⟨rid, p, rfl, hpl, hpT, hpd⟩ := hLT L hLm.1 hLm.2
    refine ⟨rid, p, rfl, hpT, hpd, ?_⟩
    obtain ⟨h, hh, hk, hfv, hmx⟩ := hmax (keyL [mvScope b rid p]) (List.mem_map.mpr ⟨_, hL, rfl⟩)
    have hhm := List.mem_filter.mp hh
    obtain ⟨rh, ph, rfl, _, hphT, hphd⟩ := hLT h hhm.1 hhm.2
    rw [keyL_mvScope, keyL_mvScope] at hk
    rw [keyL_mvScope] at hfv
    have hv : volumesAtPit mode T p.2.key pitT.2 = fvVol mode ph.2 := by
      apply volumesAtPit_of_max mode T hseqT p.2.key pitT.2 ph.2 hphT hk hphd
      intro y hy hyk hyd
      obtain ⟨ry, hyL⟩ := hTL y hy hyd
      have := hmx _ hyL (by rw [keyL_mvScope, keyL_mvScope]; exact hyk)
      intro holder
      exact this ((fvCmp_lt mode b ry rh (l, y) ph).mpr holder)
    simp only [outRowW, fvProj, keyL_mvScope, hfv, fvArg, decL_mvScope, List.headD_cons, hv]
  refine ⟨res.map (fun r => keyL r.locals), ?_, hnd, ?_, ?_⟩
  · simp only [fvQuery]
    rw [hqry, outNames_fv, List.map_map]
    have : res.map (fun x => x.vals) =
        res.map ((fun k => [Value.text k.1, Value.text k.2, volVal (volumesAtPit mode T k pitT.2)]) ∘ fun r => keyL r.locals) := by
      apply List.map_congr_left
      intro r hr
      obtain ⟨rid, p, hl, _, _, hv⟩ := hrow r hr
      simp only [Function.comp, hl, keyL_mvScope, hv]
    rw [this]
  · intro k
    constructor
    · intro hk
      obtain ⟨r, hr, rfl⟩ := List.mem_map.mp hk
      obtain ⟨rid, p, hl, hpT, hpd, _⟩ := hrow r hr
      exact ⟨p.2, hpT, by rw [hl, keyL_mvScope], hpd⟩
    · rintro ⟨m, hm, rfl, hd⟩
      obtain ⟨rid, hL⟩ := hTL m hm hd
      have := hcov _ hL
      rw [keyL_mvScope] at this
      exact this
  · rw [List.pairwise_map]
    rw [List.pairwise_map] at hpw
    apply hpw.imp
    intro a c hac
    cases h : KeyOrd.lt (keyL c.locals) (keyL a.locals) with
    | false => rfl
    | true => exact absurd ((balCmp_kvKey_lt _ _).mpr h) hac

end Ledger.Sql
