import Ledger.Proofs.SqlMovesExpr
import Ledger.Proofs.SqlValues
import Ledger.Generated.WriteSql

/-!
# `UpsertAccounts`, the UPDATE branch, expression by expression

For ANY existing row of `accounts` and ANY row of the `data_batch` CTE: what LeanPG's expression
evaluator makes of `LEAST(d.first_usage, a.first_usage)`, `a.metadata || d.metadata` and the WHERE
clause of `updated_rows` in `Ledger.Generated.WriteSql.P.upsertAccounts`. Not proved here: the CTE /
UPDATE … FROM / INSERT … SELECT machinery around them (bounded runs in `Ledger/Props/C18b.lean`), and
the correspondence between jsonb objects (`jsonConcat`, `jsonContains`) and `Ledger.Spec.metaMerge` /
`metaContains` on sorted maps.
-/

open Ledger Ledger.Sql Ledger.Generated Ledger.Core
open Ledger.Generated.WriteSql.P (AccountRow)

namespace Ledger.Sql

def optTs : Option Int → Value
  | some t => .ts t
  | none => .null

/-- a row of `accounts` (column order of `Schema.tbl_accounts`) -/
def acVals (l addr : String) (aa : JV) (ins upd : Int) (md : JV) (fu : Int) : List Value :=
  [.text l, .text addr, .json aa, .ts ins, .ts upd, .json md, .ts fu]

def acCols : List String := Schema.tbl_accounts.cols.map (·.name)

/-- a row of the `data_batch` CTE of `UpsertAccounts` -/
def dbVals (addr : String) (md : JV) (fu ins upd : Option Int) (aa dm bi : JV) : List Value :=
  [.text addr, .json md, optTs fu, optTs ins, optTs upd, .json aa, .json dm, .json bi]

def dbCols : List String := ["address", "metadata", "first_usage", "insertion_date", "updated_at", "address_array", "default_metadata", "batch_index"]

/-- the environment of `UPDATE accounts a … FROM data_batch d`: the target row, then the joined row -/
def upEnv (env : Env) (av dv : List Value) (src : Option (String × Nat)) : Env :=
  { env with locals := [{ alias := "a", cols := acCols, vals := av, src := src }, { alias := "d", cols := dbCols, vals := dv }] }

theorem lastComponent_a : lastComponent "a" = "a" := by decide
theorem lastComponent_d : lastComponent "d" = "d" := by decide

theorem lookup_a (env : Env) (av dv : List Value) (src : Option (String × Nat)) (c : String) (v : Value)
    (h : lookupIn acCols av c = some v) : lookupColumn (upEnv env av dv src) "a" c = .ok v := by
  simp [lookupColumn, Env.scopes, upEnv, findScope, lastComponent_a, h]
  rfl

theorem lookup_d (env : Env) (av dv : List Value) (src : Option (String × Nat)) (c : String) (v : Value)
    (h : lookupIn dbCols dv c = some v) : lookupColumn (upEnv env av dv src) "d" c = .ok v := by
  have e : ("a" == "d") = false := by decide
  simp [lookupColumn, Env.scopes, upEnv, findScope, lastComponent_d, h, e]
  rfl

theorem lookup_unq_a (env : Env) (av dv : List Value) (src : Option (String × Nat)) (c : String) (v : Value)
    (h : lookupIn acCols av c = some v) : lookupColumn (upEnv env av dv src) "" c = .ok v := by
  simp [lookupColumn, Env.scopes, upEnv, lookupUnqualified, h]
  rfl

/-- `LEAST` over two timestamps, NULLs ignored -/
def leastOpt (d : Option Int) (a : Int) : Int :=
  match d with
  | some x => if a < x then a else x
  | none => a

open Ledger.Generated.WriteSql in
/-- The UPDATE branch of `UpsertAccounts` (`updated_rows`), expression by expression, for ANY existing row
    `a` of ledger `la` and ANY batch row `d`:
    * `first_usage` is set to `LEAST(d.first_usage, a.first_usage)`, NULL ignored;
    * `metadata` is set to `a.metadata || d.metadata` (the batch wins on a common key);
    * the WHERE clause holds iff the addresses are equal, the row is of this ledger, and the batch row lowers
      `first_usage` or carries metadata the row does not contain. -/
theorem upsertAccounts_update_exprs (cb : Callbacks) (te : TypeEnv) (env : Env) (b l : String) (id : Nat)
    (la addrA : String) (aaA : JV) (insA updA : Int) (mdA : JV) (fuA : Int)
    (addrD : String) (mdD : JV) (fuD insD updD : Option Int) (aaD dmD biD : JV) (src : Option (String × Nat)) (s : St) :
    ∃ (c1 : List AccountRow → Cte) (c2 c4 : Cte) (body : SetExpr) (eMd eFu eUp wher : Expr) (ret : List SelItem),
      (∀ rows, P.upsertAccounts b l id rows =
        [Stmt.query (Query.mk [c1 rows, c2,
            Cte.mk "updated_rows" [] (Stmt.update [] b "accounts" "a"
              [SetItem.mk "metadata" eMd, SetItem.mk "first_usage" eFu, SetItem.mk "updated_at" eUp]
              [FromItem.table "" "data_batch" "d"] (some wher) ret), c4] body [] none none LockMode.none)]) ∧
      (evalExpr cb te (upEnv env (acVals la addrA aaA insA updA mdA fuA) (dbVals addrD mdD fuD insD updD aaD dmD biD) src) eFu).exec s =
        (.ok (.ts (leastOpt fuD fuA)), s) ∧
      (evalExpr cb te (upEnv env (acVals la addrA aaA insA updA mdA fuA) (dbVals addrD mdD fuD insD updD aaD dmD biD) src) eMd).exec s =
        (.ok (.json (jsonConcat mdA mdD)), s) ∧
      ((evalExpr cb te (upEnv env (acVals la addrA aaA insA updA mdA fuA) (dbVals addrD mdD fuD insD updD aaD dmD biD) src) wher >>=
          fun v => liftR v.truth).exec s =
        (.ok (if addrA = addrD ∧ la = l then
                (if (match fuD with | some x => decide (x < fuA) | none => false) || !jsonContains mdA mdD then some true
                 else (match fuD with | some _ => some false | none => none))
              else some false), s)) := by
  refine ⟨_, _, _, _, _, _, _, _, _, fun rows => rfl, ?_, ?_, ?_⟩
  · have a1 := lookup_a env (acVals la addrA aaA insA updA mdA fuA) (dbVals addrD mdD fuD insD updD aaD dmD biD) src "first_usage" (.ts fuA) rfl
    have d1 := lookup_d env (acVals la addrA aaA insA updA mdA fuA) (dbVals addrD mdD fuD insD updD aaD dmD biD) src "first_usage" (optTs fuD) rfl
    rw [evalExpr_call _ _ _ _ _ _ (by decide)]
    simp only [evalExpr, evalExprs, exec_bind, a1, d1, exec_liftR_ok, exec_pure]
    cases fuD with
    | none => simp [evalPureFn, optTs, Value.isNull, leastOpt]
    | some x =>
      -- robust to the order of LEAST's operands
      simp [evalPureFn, optTs, Value.isNull, leastOpt, compareForSort, compareValues, compareScalar, cmpInt_lt_iff]
      repeat' split
      all_goals first | rfl | omega | (have e : x = fuA := (by omega); rw [e]; try rfl)
  · have a1 := lookup_a env (acVals la addrA aaA insA updA mdA fuA) (dbVals addrD mdD fuD insD updD aaD dmD biD) src "metadata" (.json mdA) rfl
    have d1 := lookup_d env (acVals la addrA aaA insA updA mdA fuA) (dbVals addrD mdD fuD insD updD aaD dmD biD) src "metadata" (.json mdD) rfl
    simp only [evalExpr, exec_bind, a1, d1, exec_liftR_ok]
    simp [evalBinop, Value.isNull]
  · have a1 := lookup_a env (acVals la addrA aaA insA updA mdA fuA) (dbVals addrD mdD fuD insD updD aaD dmD biD) src "address" (.text addrA) rfl
    have a2 := lookup_a env (acVals la addrA aaA insA updA mdA fuA) (dbVals addrD mdD fuD insD updD aaD dmD biD) src "first_usage" (.ts fuA) rfl
    have a3 := lookup_a env (acVals la addrA aaA insA updA mdA fuA) (dbVals addrD mdD fuD insD updD aaD dmD biD) src "metadata" (.json mdA) rfl
    have a4 := lookup_unq_a env (acVals la addrA aaA insA updA mdA fuA) (dbVals addrD mdD fuD insD updD aaD dmD biD) src "ledger" (.text la) rfl
    have d1 := lookup_d env (acVals la addrA aaA insA updA mdA fuA) (dbVals addrD mdD fuD insD updD aaD dmD biD) src "address" (.text addrD) rfl
    have d2 := lookup_d env (acVals la addrA aaA insA updA mdA fuA) (dbVals addrD mdD fuD insD updD aaD dmD biD) src "first_usage" (optTs fuD) rfl
    have d3 := lookup_d env (acVals la addrA aaA insA updA mdA fuA) (dbVals addrD mdD fuD insD updD aaD dmD biD) src "metadata" (.json mdD) rfl
    have hc : evalBinop .contains (.json mdA) (.json mdD) = .ok (.bool (jsonContains mdA mdD)) := by
      simp [evalBinop, jsonOfValue]; rfl
    have hn : ∀ y, evalBinop .lt .null (.ts y) = .ok .null := by
      intro y; simp [evalBinop, compareValues, compareScalar, ofTruth]; rfl
    have tn : Value.null.truth = .ok none := rfl
    simp only [evalExpr, exec_bind, a1, a2, a3, a4, d1, d2, d3, exec_liftR_ok, evalBinop_eq_text, truth_bool, hc]
    by_cases h1 : addrA = addrD <;> by_cases h2 : la = l <;> cases hc' : jsonContains mdA mdD <;> cases fuD with
    | none =>
      simp [h1, h2, hc, hc', hn, tn, ofTruth, and3, or3, not3, truth_bool, exec_bind, evalBinop_eq_text, optTs]
    | some x =>
      by_cases h3 : x < fuA <;>
      simp [h1, h2, h3, hc, hc', ofTruth, and3, or3, not3, truth_bool, exec_bind, evalBinop_eq_text, optTs, evalBinop_lt_ts]

end Ledger.Sql
