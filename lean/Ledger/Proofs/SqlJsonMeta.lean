import Ledger.Sql.Builtins
import Ledger.Proofs.CoreMap
import Ledger.Spec.Store

/-!
# jsonb objects of strings ↔ `Ledger.Core.Metadata`

Ledger metadata is a flat JSON object whose values are strings. LeanPG keeps jsonb objects as key/value lists (`JKV`, ordered as jsonb
orders keys: by length, then bytes); the Spec keeps `Metadata = Map String String` (ordered by `<`). `metaAbs` reads the former as the
latter. For objects of strings: `a || d` (`jsonConcat` / `jobjMerge`) is `Spec.metaMerge`, `a @> d` (`jsonContains`) is
`Spec.metaContains`.
-/
open Ledger Ledger.Sql Ledger.Core Ledger.Base Ledger.Spec

namespace Ledger.Sql

/-- every value of the object is a string -/
def JObjStr (kvs : List JKV) : Prop := ∀ kv ∈ kvs, ∃ s, kv.val = JV.str s

def strVal : JV → Option String
  | .str s => some s
  | _ => none

/-- the metadata map of a JSON object of strings (first occurrence of a key wins, as `jobjLookup`) -/
def metaAbs : List JKV → Metadata
  | [] => []
  | kv :: rest =>
    match kv.val with
    | .str v => Map.insert kv.key v (metaAbs rest)
    | _ => metaAbs rest

theorem metaAbs_WF : ∀ (kvs : List JKV), Map.WF (metaAbs kvs) := by
  intro kvs
  induction kvs with
  | nil => exact Map.WF_nil
  | cons kv rest ih =>
    simp only [metaAbs]
    split
    · exact Map.WF_insertWith _ _ _ ih
    · exact ih

theorem get?_insert {m : Metadata} (hw : Map.WF m) (k v k' : String) :
    Map.get? (Map.insert k v m) k' = if k' = k then some v else Map.get? m k' := by
  unfold Map.insert
  rw [Map.get?_insertWith _ _ _ hw]
  by_cases h : k' = k
  · simp only [h, if_true]
    cases Map.get? m k <;> rfl
  · simp [h]

theorem get?_metaAbs (k : String) : ∀ (kvs : List JKV), JObjStr kvs →
    Map.get? (metaAbs kvs) k = (jobjLookup k kvs).bind strVal := by
  intro kvs
  induction kvs with
  | nil => intro _; rfl
  | cons kv rest ih =>
    intro h
    obtain ⟨k', v'⟩ := kv
    obtain ⟨s, hs⟩ := h (.mk k' v') (by simp)
    simp only [JKV.val] at hs
    subst hs
    have ih' := ih (fun x hx => h x (by simp [hx]))
    simp only [metaAbs, JKV.val, JKV.key, jobjLookup]
    rw [get?_insert (metaAbs_WF rest)]
    by_cases e : k = k'
    · subst e; simp [strVal]
    · have e' : (k == k') = false := by simpa using e
      simp [e, e', ih']

/-! ### lookups after insert / merge -/

theorem jobjLookup_insert (k k' : String) (v : JV) : ∀ (kvs : List JKV),
    jobjLookup k (jobjInsert k' v kvs) = if k = k' then some v else jobjLookup k kvs := by
  intro kvs
  induction kvs with
  | nil =>
    by_cases e : k = k'
    · subst e; simp [jobjInsert, jobjLookup]
    · have e' : (k == k') = false := by simpa using e
      simp [jobjInsert, jobjLookup, e, e']
  | cons kv rest ih =>
    obtain ⟨k0, v0⟩ := kv
    simp only [jobjInsert]
    by_cases h1 : k' = k0
    · subst h1
      simp only [beq_self_eq_true, if_true, jobjLookup]
      by_cases e : k = k'
      · subst e; simp
      · have e' : (k == k') = false := by simpa using e
        simp [e, e']
    · have h1' : (k' == k0) = false := by simpa using h1
      simp only [h1', Bool.false_eq_true, if_false]
      by_cases h2 : jsonKeyLt k' k0 = true
      · simp only [h2, if_true, jobjLookup]
        by_cases e : k = k'
        · subst e; simp
        · have e' : (k == k') = false := by simpa using e
          simp [e, e']
      · simp only [h2, if_false, jobjLookup]
        by_cases e0 : k = k0
        · subst e0
          have : ¬ k = k' := fun e => h1 e.symm
          simp [jobjLookup, this]
        · have e0' : (k == k0) = false := by simpa using e0
          simp only [jobjLookup, e0', Bool.false_eq_true, if_false, ih]

theorem JObjStr_insert (k : String) (s : String) : ∀ (kvs : List JKV), JObjStr kvs → JObjStr (jobjInsert k (.str s) kvs) := by
  intro kvs
  induction kvs with
  | nil => intro _ kv hkv; simp [jobjInsert] at hkv; subst hkv; exact ⟨s, rfl⟩
  | cons kv rest ih =>
    intro h
    obtain ⟨k0, v0⟩ := kv
    simp only [jobjInsert]
    split
    · intro x hx
      rcases List.mem_cons.mp hx with e | e
      · subst e; exact ⟨s, rfl⟩
      · exact h x (by simp [e])
    · split
      · intro x hx
        rcases List.mem_cons.mp hx with e | e
        · subst e; exact ⟨s, rfl⟩
        · exact h x e
      · intro x hx
        rcases List.mem_cons.mp hx with e | e
        · subst e; exact h _ (by simp)
        · exact ih (fun y hy => h y (by simp [hy])) x e

theorem JObjStr_merge (a : List JKV) : ∀ (d : List JKV), JObjStr a → JObjStr d → JObjStr (jobjMerge a d) := by
  intro d
  unfold jobjMerge
  induction d generalizing a with
  | nil => intro ha _; exact ha
  | cons kv rest ih =>
    intro ha hd
    obtain ⟨s, hs⟩ := hd kv (by simp)
    simp only [List.foldl_cons]
    apply ih
    · rw [hs]; exact JObjStr_insert _ _ _ ha
    · exact fun x hx => hd x (by simp [hx])

theorem jobjLookup_str (k : String) : ∀ (l : List JKV), JObjStr l → ∀ v, jobjLookup k l = some v → ∃ s, v = JV.str s := by
  intro l
  induction l with
  | nil => intro _ v h; simp [jobjLookup] at h
  | cons kv rest ih =>
    intro h v hv
    obtain ⟨k0, v0⟩ := kv
    simp only [jobjLookup] at hv
    split at hv
    · cases hv
      exact h (.mk k0 v) (by simp)
    · exact ih (fun x hx => h x (by simp [hx])) v hv

/-- `a || d` is `metaMerge` -/
theorem metaAbs_merge (a : List JKV) : ∀ (d : List JKV), JObjStr a → JObjStr d →
    ∀ k, Map.get? (metaAbs (jobjMerge a d)) k = ((jobjLookup k d.reverse).bind strVal).orElse (fun _ => Map.get? (metaAbs a) k) := by
  intro d
  unfold jobjMerge
  induction d generalizing a with
  | nil => intro _ _ k; simp [jobjLookup]
  | cons kv rest ih =>
    intro ha hd k
    obtain ⟨k0, v0⟩ := kv
    obtain ⟨s, hs⟩ := hd (.mk k0 v0) (by simp)
    simp only [JKV.val] at hs
    subst hs
    show Map.get? (metaAbs (List.foldl (fun acc kv => jobjInsert kv.key kv.val acc) (jobjInsert k0 (JV.str s) a) rest)) k = _
    rw [ih _ (JObjStr_insert _ _ _ ha) (fun x hx => hd x (by simp [hx])) k]
    rw [get?_metaAbs k _ (JObjStr_insert k0 s a ha), jobjLookup_insert]
    -- the lookup in the reversed tail ++ [head]
    have hrev : ∀ (l : List JKV), jobjLookup k (l ++ [JKV.mk k0 (.str s)]) =
        (jobjLookup k l).orElse (fun _ => if k = k0 then some (.str s) else none) := by
      intro l
      induction l with
      | nil => by_cases e : k = k0 <;> simp [jobjLookup, e]
      | cons x xs ihx =>
        obtain ⟨kx, vx⟩ := x
        simp only [List.cons_append, jobjLookup]
        by_cases e : (k == kx) = true
        · simp [e]
        · simp only [e, if_false]; exact ihx
    rw [List.reverse_cons, hrev]
    cases h1 : jobjLookup k rest.reverse with
    | some v =>
      obtain ⟨s', rfl⟩ := jobjLookup_str k rest.reverse (fun x hx => hd x (by simp [List.mem_reverse.mp hx])) v h1
      simp [strVal]
    | none =>
      by_cases e : k = k0
      · simp [e, strVal]
      · simp [e, get?_metaAbs k a ha]

/-! ### `Spec.metaMerge` -/

theorem mem_of_get? {m : Metadata} {k v : String} (h : Map.get? m k = some v) : (k, v) ∈ m := by
  induction m with
  | nil => simp at h
  | cons e r ih =>
    obtain ⟨k0, v0⟩ := e
    rw [Map.get?_cons] at h
    by_cases e : k0 = k
    · simp only [e, if_true, Option.some.injEq] at h
      subst e h
      simp
    · simp only [e, if_false] at h
      exact List.mem_cons_of_mem _ (ih h)

theorem keys_nodup_of_WF {m : Metadata} (h : Map.WF m) : (m.map (·.1)).Nodup := by
  unfold Map.WF at h
  rw [List.nodup_iff_pairwise_ne, List.pairwise_map]
  exact h.imp (fun hlt => lt_ne hlt)

theorem get?_of_mem {m : Metadata} (hw : Map.WF m) {k v : String} (h : (k, v) ∈ m) : Map.get? m k = some v := by
  have hnd := keys_nodup_of_WF hw
  induction m with
  | nil => cases h
  | cons e r ih =>
    obtain ⟨k0, v0⟩ := e
    rw [Map.get?_cons]
    simp only [List.map_cons, List.nodup_cons] at hnd
    rcases List.mem_cons.mp h with e | e
    · simp only [Prod.mk.injEq] at e
      simp [e.1, e.2]
    · have : k0 ≠ k := by
        intro e'
        apply hnd.1
        rw [e']
        exact List.mem_map.mpr ⟨(k, v), e, rfl⟩
      simp only [this, if_false]
      exact ih (Map.WF_tail hw) e hnd.2

theorem get?_foldl_insert (k : String) : ∀ (l m : Metadata), (l.map (·.1)).Nodup → Map.WF m →
    Map.get? (l.foldl (fun acc e => Map.insert e.1 e.2 acc) m) k = (Map.get? l k).orElse (fun _ => Map.get? m k) ∧
    Map.WF (l.foldl (fun acc e => Map.insert e.1 e.2 acc) m) := by
  intro l
  induction l with
  | nil => intro m _ hw; exact ⟨by simp, hw⟩
  | cons e r ih =>
    intro m hnd hw
    obtain ⟨k0, v0⟩ := e
    simp only [List.map_cons, List.nodup_cons] at hnd
    have hw' : Map.WF (Map.insert k0 v0 m) := Map.WF_insertWith _ _ _ hw
    obtain ⟨h1, h2⟩ := ih (Map.insert k0 v0 m) hnd.2 hw'
    refine ⟨?_, h2⟩
    simp only [List.foldl_cons]
    rw [h1, get?_insert hw, Map.get?_cons]
    by_cases e : k0 = k
    · subst e
      have : Map.get? r k0 = none := Map.get?_eq_none_of_not_mem_keys hnd.1
      simp [this]
    · have e' : ¬ k = k0 := fun h => e h.symm
      simp [e, e']

theorem jobjLookup_none (k : String) : ∀ (l : List JKV), k ∉ l.map JKV.key → jobjLookup k l = none := by
  intro l
  induction l with
  | nil => intro _; rfl
  | cons kv rest ih =>
    intro h
    obtain ⟨k0, v0⟩ := kv
    simp only [List.map_cons, List.mem_cons, JKV.key, not_or] at h
    have : (k == k0) = false := by simpa using h.1
    simp only [jobjLookup, this, Bool.false_eq_true, if_false]
    exact ih h.2

theorem jobjLookup_of_mem (k : String) (v : JV) : ∀ (l : List JKV), (l.map JKV.key).Nodup → JKV.mk k v ∈ l → jobjLookup k l = some v := by
  intro l
  induction l with
  | nil => intro _ h; cases h
  | cons kv rest ih =>
    intro hnd h
    obtain ⟨k0, v0⟩ := kv
    simp only [List.map_cons, List.nodup_cons, JKV.key] at hnd
    rcases List.mem_cons.mp h with e | e
    · cases e
      simp [jobjLookup]
    · have : k ≠ k0 := by
        intro e'
        apply hnd.1
        rw [← e']
        exact List.mem_map.mpr ⟨_, e, rfl⟩
      have : (k == k0) = false := by simpa using this
      simp only [jobjLookup, this, Bool.false_eq_true, if_false]
      exact ih hnd.2 e

theorem jobjLookup_mem (k : String) : ∀ (l : List JKV) (v : JV), jobjLookup k l = some v → JKV.mk k v ∈ l := by
  intro l
  induction l with
  | nil => intro v h; simp [jobjLookup] at h
  | cons kv rest ih =>
    intro v h
    obtain ⟨k0, v0⟩ := kv
    simp only [jobjLookup] at h
    split at h
    · rename_i hk
      have : k = k0 := by simpa using hk
      cases h
      subst this
      simp
    · exact List.mem_cons_of_mem _ (ih v h)

theorem jobjLookup_reverse (k : String) (l : List JKV) (hnd : (l.map JKV.key).Nodup) : jobjLookup k l.reverse = jobjLookup k l := by
  have hnd' : (l.reverse.map JKV.key).Nodup := by
    rw [List.map_reverse]
    exact (List.reverse_perm _).nodup_iff.mpr hnd
  cases h : jobjLookup k l with
  | none =>
    apply jobjLookup_none
    intro hm
    rw [List.map_reverse, List.mem_reverse] at hm
    obtain ⟨kv, hkv, e⟩ := List.mem_map.mp hm
    obtain ⟨k0, v0⟩ := kv
    simp only [JKV.key] at e
    subst e
    rw [jobjLookup_of_mem _ v0 l hnd hkv] at h
    cases h
  | some v =>
    exact jobjLookup_of_mem k v _ hnd' (List.mem_reverse.mpr (jobjLookup_mem k l v h))

/-- **`a || d` on objects of strings is `Spec.metaMerge`.** -/
theorem metaAbs_jobjMerge (a d : List JKV) (ha : JObjStr a) (hd : JObjStr d) (hnd : (d.map JKV.key).Nodup) :
    metaAbs (jobjMerge a d) = metaMerge (metaAbs a) (metaAbs d) := by
  unfold metaMerge
  have hf := fun k => get?_foldl_insert k (metaAbs d) (metaAbs a) (keys_nodup_of_WF (metaAbs_WF d)) (metaAbs_WF a)
  apply Map.ext_of_WF (metaAbs_WF _) (hf "").2
  intro k
  rw [(hf k).1, metaAbs_merge a d ha hd k, jobjLookup_reverse k d hnd, get?_metaAbs k d hd]

/-! ### `Spec.metaContains` -/

theorem JV_str_beq (x y : String) : (JV.str x == JV.str y) = (x == y) := by
  show JV.beq (JV.str x) (JV.str y) = (x == y)
  simp [JV.beq]

theorem jsonContains_str (x y : String) : jsonContains (JV.str x) (JV.str y) = (x == y) := by
  simp [jsonContains, JV_str_beq]

/-- **`a @> d` on objects of strings is `Spec.metaContains`.** -/
theorem jsonKvsContained_eq (a : List JKV) (ha : JObjStr a) : ∀ (d : List JKV), JObjStr d → (d.map JKV.key).Nodup →
    jsonKvsContained a d = metaContains (metaAbs a) (metaAbs d) := by
  intro d hd hnd
  -- both sides as propositions
  have hL : jsonKvsContained a d = true ↔ ∀ kv ∈ d, ∀ x, kv.val = JV.str x → Map.get? (metaAbs a) kv.key = some x := by
    clear hnd
    induction d with
    | nil => simp [jsonKvsContained]
    | cons kv rest ih =>
      obtain ⟨k0, v0⟩ := kv
      obtain ⟨s, hs⟩ := hd (.mk k0 v0) (by simp)
      simp only [JKV.val] at hs
      subst hs
      have ih' := ih (fun x hx => hd x (by simp [hx]))
      simp only [jsonKvsContained, Bool.and_eq_true, ih', List.mem_cons, forall_eq_or_imp, JKV.val, JKV.key, JV.str.injEq, forall_eq']
      rw [get?_metaAbs k0 a ha]
      cases hl : jobjLookup k0 a with
      | none => simp
      | some av =>
        obtain ⟨y, rfl⟩ := jobjLookup_str k0 a ha av hl
        simp [jsonContains_str, strVal]
  have hR : metaContains (metaAbs a) (metaAbs d) = true ↔ ∀ kv ∈ d, ∀ x, kv.val = JV.str x → Map.get? (metaAbs a) kv.key = some x := by
    unfold metaContains
    rw [List.all_eq_true]
    constructor
    · intro h kv hkv x hx
      obtain ⟨k0, v0⟩ := kv
      simp only [JKV.val] at hx
      subst hx
      have h1 : Map.get? (metaAbs d) k0 = some x := by
        rw [get?_metaAbs k0 d hd, jobjLookup_of_mem k0 _ d hnd hkv]; rfl
      have := h (k0, x) (mem_of_get? h1)
      simpa [JKV.key] using this
    · intro h e he
      have h1 := get?_of_mem (metaAbs_WF d) (k := e.1) (v := e.2) he
      rw [get?_metaAbs e.1 d hd] at h1
      cases hl : jobjLookup e.1 d with
      | none => rw [hl] at h1; cases h1
      | some v =>
        rw [hl] at h1
        obtain ⟨y, hy⟩ := jobjLookup_str e.1 d hd v hl
        subst hy
        simp only [Option.bind_some, strVal, Option.some.injEq] at h1
        have := h _ (jobjLookup_mem e.1 d _ hl) y rfl
        simp only [JKV.key] at this
        simp [this, h1]
  cases h1 : jsonKvsContained a d <;> cases h2 : metaContains (metaAbs a) (metaAbs d) <;> try rfl
  · exact absurd (hL.mpr (hR.mp h2)) (by simp [h1])
  · exact absurd (hR.mpr (hL.mp h1)) (by simp [h2])

/-- the metadata of a jsonb value (objects of strings; anything else reads as empty) -/
def metaOfJV : JV → Metadata
  | .obj kvs => metaAbs kvs
  | _ => []

/-- a jsonb value that is an object of strings with distinct keys -/
def IsMeta (j : JV) : Prop := ∃ kvs, j = .obj kvs ∧ JObjStr kvs ∧ (kvs.map JKV.key).Nodup

theorem metaOfJV_concat (a d : JV) (ha : IsMeta a) (hd : IsMeta d) : metaOfJV (jsonConcat a d) = metaMerge (metaOfJV a) (metaOfJV d) := by
  obtain ⟨ka, rfl, ha1, _⟩ := ha
  obtain ⟨kd, rfl, hd1, hd2⟩ := hd
  exact metaAbs_jobjMerge ka kd ha1 hd1 hd2

theorem jsonContains_meta (a d : JV) (ha : IsMeta a) (hd : IsMeta d) : jsonContains a d = metaContains (metaOfJV a) (metaOfJV d) := by
  obtain ⟨ka, rfl, ha1, _⟩ := ha
  obtain ⟨kd, rfl, hd1, hd2⟩ := hd
  simp only [jsonContains, metaOfJV]
  exact jsonKvsContained_eq ka ha1 kd hd1 hd2

end Ledger.Sql
