import Ledger.Reads.Select
import Ledger.Proofs.CoreMap

/-!
Helper lemmas for `Ledger/Props/C0{2,5}r.lean`, `C17r`, `C20r`, `C21r`: membership in the key
set of a volumes table, the revision lookup on an appended history, three-valued evaluation.
-/
namespace Ledger.Reads
open Ledger.Base Ledger.Core Ledger.Spec Ledger.Query

/-! ### `touchedKeys` -/

theorem mem_keys_insert {κ ν : Type} [DecidableEq κ] [KeyOrd κ] (k : κ) (v : ν) (m : Map κ ν) (k' : κ) :
    k' ∈ (m.insert k v).keys ↔ k' = k ∨ k' ∈ m.keys :=
  Map.keys_insertWith_perm_mem _ k v m k'

/-- keys after folding one transaction's postings in -/
theorem mem_keys_foldPostings (ps : List Posting) (m : Map Key Unit) (k : Key) :
    k ∈ (ps.foldl (fun m p => (m.insert p.srcKey ()).insert p.dstKey ()) m).keys ↔
      k ∈ m.keys ∨ ∃ p ∈ ps, p.srcKey = k ∨ p.dstKey = k := by
  induction ps generalizing m with
  | nil => simp
  | cons p ps ih =>
    simp only [List.foldl_cons]
    rw [ih, mem_keys_insert, mem_keys_insert]
    constructor
    · rintro (h | ⟨q, hq, hk⟩)
      · rcases h with h | h | h
        · exact Or.inr ⟨p, List.mem_cons_self, Or.inr h.symm⟩
        · exact Or.inr ⟨p, List.mem_cons_self, Or.inl h.symm⟩
        · exact Or.inl h
      · exact Or.inr ⟨q, List.mem_cons_of_mem _ hq, hk⟩
    · rintro (h | ⟨q, hq, hk⟩)
      · exact Or.inl (Or.inr (Or.inr h))
      · rcases List.mem_cons.mp hq with rfl | hq
        · rcases hk with hk | hk
          · exact Or.inl (Or.inr (Or.inl hk.symm))
          · exact Or.inl (Or.inl hk.symm)
        · exact Or.inr ⟨q, hq, hk⟩

theorem touches_iff (k : Key) (ps : List Posting) :
    touches k ps = true ↔ ∃ p ∈ ps, p.srcKey = k ∨ p.dstKey = k := by
  unfold touches
  simp [List.any_eq_true]

theorem mem_touchedKeys_aux (txs : List TxRec) (m : Map Key Unit) (k : Key) :
    k ∈ (txs.foldl (fun (m : Map Key Unit) t =>
      t.postings.foldl (fun m p => (m.insert p.srcKey ()).insert p.dstKey ()) m) m).keys ↔
      k ∈ m.keys ∨ ∃ t ∈ txs, touches k t.postings = true := by
  induction txs generalizing m with
  | nil => simp
  | cons t ts ih =>
    simp only [List.foldl_cons]
    rw [ih, mem_keys_foldPostings]
    constructor
    · rintro (h | ⟨t', ht', hk⟩)
      · rcases h with h | h
        · exact Or.inl h
        · exact Or.inr ⟨t, List.mem_cons_self, (touches_iff k _).mpr h⟩
      · exact Or.inr ⟨t', List.mem_cons_of_mem _ ht', hk⟩
    · rintro (h | ⟨t', ht', hk⟩)
      · exact Or.inl (Or.inl h)
      · rcases List.mem_cons.mp ht' with rfl | ht'
        · exact Or.inl (Or.inr ((touches_iff k _).mp hk))
        · exact Or.inr ⟨t', ht', hk⟩

/-- A pair has a row iff some transaction of the list touches it. -/
theorem mem_touchedKeys (txs : List TxRec) (k : Key) :
    k ∈ touchedKeys txs ↔ ∃ t ∈ txs, touches k t.postings = true := by
  unfold touchedKeys
  rw [mem_touchedKeys_aux]
  simp [Map.keys]

theorem touches_allPostings (txs : List TxRec) (k : Key) :
    touches k (allPostings txs) = true ↔ ∃ t ∈ txs, touches k t.postings = true := by
  induction txs with
  | nil => simp [allPostings, touches]
  | cons t ts ih =>
    have happ : touches k (t.postings ++ allPostings ts) = (touches k t.postings || touches k (allPostings ts)) := by
      simp [touches, List.any_append]
    simp only [allPostings, happ, Bool.or_eq_true, ih, List.mem_cons, exists_eq_or_imp]

/-! ### rows of a volumes table -/

theorem volumesTable_row (txs : List TxRec) (w : Window) (mode : DateMode) (e : Key × Volumes)
    (h : e ∈ volumesTable txs w mode) : e.2 = volumesAt txs w mode e.1 := by
  unfold volumesTable at h
  obtain ⟨k, _, rfl⟩ := List.mem_map.mp h
  rfl

theorem mem_volumesTable_keys (txs : List TxRec) (w : Window) (mode : DateMode) (k : Key) :
    k ∈ (volumesTable txs w mode).keys ↔ ∃ t ∈ txsIn txs w mode, touches k t.postings = true := by
  unfold volumesTable Map.keys
  rw [List.map_map]
  have : ((fun (e : Key × Volumes) => e.1) ∘ fun k => (k, volumesAt txs w mode k)) = id := by
    funext x; rfl
  rw [this, List.map_id, mem_touchedKeys]

theorem currentVolumes_row (txs : List TxRec) (e : Key × Volumes) (h : e ∈ currentVolumes txs) :
    e.2 = volumesOf txs e.1 := by
  unfold currentVolumes at h
  obtain ⟨k, _, rfl⟩ := List.mem_map.mp h
  rfl

theorem mem_currentVolumes_keys (txs : List TxRec) (k : Key) :
    k ∈ (currentVolumes txs).keys ↔ touches k (allPostings txs) = true := by
  unfold currentVolumes Map.keys
  rw [List.map_map]
  have : ((fun (e : Key × Volumes) => e.1) ∘ fun k => (k, volumesOf txs k)) = id := by
    funext x; rfl
  rw [this, List.map_id, mem_touchedKeys, touches_allPostings]

/-! ### revisions -/

theorem revisionAt_append (revs : List Revision) (d : Int) (m : Metadata) (t : Int) :
    revisionAt (revs ++ [(d, m)]) t = if d ≤ t then m else revisionAt revs t := by
  unfold revisionAt
  rw [List.filter_append]
  by_cases h : d ≤ t
  · simp [h]
  · simp [h]

/-! ### three-valued evaluation -/

theorem and3_some (a b : Bool) : and3 (some a) (some b) = some (a && b) := by
  cases a <;> cases b <;> rfl

theorem or3_some (a b : Bool) : or3 (some a) (some b) = some (a || b) := by
  cases a <;> cases b <;> rfl

end Ledger.Reads
