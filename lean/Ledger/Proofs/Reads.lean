import Ledger.Reads.Select
import Ledger.Proofs.CoreMap

/-!
Helper lemmas for `Ledger/Props/C0{2,5}r.lean`, `C17r`, `C20r`, `C21r`: membership in the key
set of a volumes table, the revision lookup on an appended history, three-valued evaluation.
-/
namespace Ledger.Reads
open Ledger.Base Ledger.Core Ledger.Spec Ledger.Query

/-! ### `touchedKeys` -/

theorem mem_keys_insert {κ ν : Type} [DecidableEq κ] [KeyOrd κ] (k : κ) (v : ν) (m : Map κ ν) (k' : κ) :
    k' ∈ (m.insert k v).keys ↔ k' = k ∨ k' ∈ m.keys :=
  Map.keys_insertWith_perm_mem _ k v m k'

/-- keys after folding one transaction's postings in -/
theorem mem_keys_foldPostings (ps : List Posting) (m : Map Key Unit) (k : Key) :
    k ∈ (ps.foldl (fun m p => (m.insert p.srcKey ()).insert p.dstKey ()) m).keys ↔
      k ∈ m.keys ∨ ∃ p ∈ ps, p.srcKey = k ∨ p.dstKey = k := by
  induction ps generalizing m with
  | nil => simp
  | cons p ps ih =>
    simp only [List.foldl_cons]
    rw [ih, mem_keys_insert, mem_keys_insert]
    constructor
    · rintro (h | ⟨q, hq, hk⟩)
      · rcases h with h | h | h
        · exact Or.inr ⟨p, List.mem_cons_self, Or.inr h.symm⟩
        · exact Or.inr ⟨p, List.mem_cons_self, Or.inl h.symm⟩
        · exact Or.inl h
      · exact Or.inr ⟨q, List.mem_cons_of_mem _ hq, hk⟩
    · rintro (h | ⟨q, hq, hk⟩)
      · exact Or.inl (Or.inr (Or.inr h))
      · rcases List.mem_cons.mp hq with rfl | hq
        · rcases hk with hk | hk
          · exact Or.inl (Or.inr (Or.inl hk.symm))
          · exact Or.inl (Or.inl hk.symm)
        · exact Or.inr ⟨q, hq, hk⟩

theorem touches_iff (k : Key) (ps : List Posting) :
    touches k ps = true ↔ ∃ p ∈ ps, p.srcKey = k ∨ p.dstKey = k := by
  unfold touches
  simp [List.any_eq_true]

theorem mem_touchedKeys_aux (txs : List TxRec) (m : Map Key Unit) (k : Key) :
    k ∈ (txs.foldl (fun (m : Map Key Unit) t =>
      t.postings.foldl (fun m p => (m.insert p.srcKey ()).insert p.dstKey ()) m) m).keys ↔
      k ∈ m.keys ∨ ∃ t ∈ txs, touches k t.postings = true := by
  induction txs generalizing m with
  | nil => simp
  | cons t ts ih =>
    simp only [List.foldl_cons]
    rw [ih, mem_keys_foldPostings]
    constructor
    · rintro (h | ⟨t', ht', hk⟩)
      · rcases h with h | h
        · exact Or.inl h
        · exact Or.inr ⟨t, List.mem_cons_self, (touches_iff k _).mpr h⟩
      · exact Or.inr ⟨t', List.mem_cons_of_mem _ ht', hk⟩
    · rintro (h | ⟨t', ht', hk⟩)
      · exact Or.inl (Or.inl h)
      · rcases List.mem_cons.mp ht' with rfl | ht'
        · exact Or.inl (Or.inr ((touches_iff k _).mp hk))
        · exact Or.inr ⟨t', ht', hk⟩

/-- A pair has a row iff some transaction of the list touches it. -/
theorem mem_touchedKeys (txs : List TxRec) (k : Key) :
    k ∈ touchedKeys txs ↔ ∃ t ∈ txs, touches k t.postings = true := by
  unfold touchedKeys
  rw [mem_touchedKeys_aux]
  simp [Map.keys]

theorem touches_allPostings (txs : List TxRec) (k : Key) :
    touches k (allPostings txs) = true ↔ ∃ t ∈ txs, touches k t.postings = true := by
  induction txs with
  | nil => simp [allPostings, touches]
  | cons t ts ih =>
    have happ : touches k (t.postings ++ allPostings ts) = (touches k t.postings || touches k (allPostings ts)) := by
      simp [touches, List.any_append]
    simp only [allPostings, happ, Bool.or_eq_true, ih, List.mem_cons, exists_eq_or_imp]

/-! ### rows of a volumes table -/

theorem volumesTable_row (txs : List TxRec) (w : Window) (mode : DateMode) (e : Key × Volumes)
    (h : e ∈ volumesTable txs w mode) : e.2 = volumesAt txs w mode e.1 := by
  unfold volumesTable at h
  obtain ⟨k, _, rfl⟩ := List.mem_map.mp h
  rfl

theorem mem_volumesTable_keys (txs : List TxRec) (w : Window) (mode : DateMode) (k : Key) :
    k ∈ (volumesTable txs w mode).keys ↔ ∃ t ∈ txsIn txs w mode, touches k t.postings = true := by
  unfold volumesTable Map.keys
  rw [List.map_map]
  have : ((fun (e : Key × Volumes) => e.1) ∘ fun k => (k, volumesAt txs w mode k)) = id := by
    funext x; rfl
  rw [this, List.map_id, mem_touchedKeys]

theorem currentVolumes_row (txs : List TxRec) (e : Key × Volumes) (h : e ∈ currentVolumes txs) :
    e.2 = volumesOf txs e.1 := by
  unfold currentVolumes at h
  obtain ⟨k, _, rfl⟩ := List.mem_map.mp h
  rfl

theorem mem_currentVolumes_keys (txs : List TxRec) (k : Key) :
    k ∈ (currentVolumes txs).keys ↔ touches k (allPostings txs) = true := by
  unfold currentVolumes Map.keys
  rw [List.map_map]
  have : ((fun (e : Key × Volumes) => e.1) ∘ fun k => (k, volumesOf txs k)) = id := by
    funext x; rfl
  rw [this, List.map_id, mem_touchedKeys, touches_allPostings]

/-! ### revisions -/

theorem revisionAt_append (revs : List Revision) (d : Int) (m : Metadata) (t : Int) :
    revisionAt (revs ++ [(d, m)]) t = if d ≤ t then m else revisionAt revs t := by
  unfold revisionAt
  rw [List.filter_append]
  by_cases h : d ≤ t
  · simp [h]
  · simp [h]

/-! ### three-valued evaluation -/

theorem and3_some (a b : Bool) : and3 (some a) (some b) = some (a && b) := by
  cases a <;> cases b <;> rfl

theorem or3_some (a b : Bool) : or3 (some a) (some b) = some (a || b) := by
  cases a <;> cases b <;> rfl

/-- Every leaf is defined (its SQL value is not NULL). -/
def DefinedOn (isNull : Query.Op → String → Val → Bool) (f : Filter) : Prop :=
  ∀ l ∈ f.leaves, isNull l.1 l.2.1 l.2.2 = false

mutual
/-- Where no leaf is NULL, the three-valued evaluation is the two-valued `Filter.eval`. -/
theorem eval3_defined (isNull : Query.Op → String → Val → Bool) (sem : Query.Op → String → Val → Bool) :
    ∀ (f : Filter), (∀ l ∈ f.leaves, isNull l.1 l.2.1 l.2.2 = false) →
      eval3 (fun op k v => if isNull op k v then none else some (sem op k v)) f = some (Filter.eval sem f)
  | .leaf op k v, h => by
    have := h (op, k, v) (by simp [Filter.leaves])
    simp only at this
    simp [eval3, Filter.eval, this]
  | .not g, h => by
    have ih := eval3_defined isNull sem g (by simpa [Filter.leaves] using h)
    simp [eval3, Filter.eval, ih]
  | .and fs, h => by
    have ih := evalAll3_defined isNull sem fs (by simpa [Filter.leaves] using h)
    simp [eval3, Filter.eval, ih]
  | .or fs, h => by
    have ih := evalAny3_defined isNull sem fs (by simpa [Filter.leaves] using h)
    by_cases he : fs.isEmpty
    · simp [eval3, Filter.eval, he]
    · simp [eval3, Filter.eval, he, ih]
theorem evalAll3_defined (isNull : Query.Op → String → Val → Bool) (sem : Query.Op → String → Val → Bool) :
    ∀ (fs : List Filter), (∀ l ∈ Filter.leavesList fs, isNull l.1 l.2.1 l.2.2 = false) →
      evalAll3 (fun op k v => if isNull op k v then none else some (sem op k v)) fs = some (Filter.evalAll sem fs)
  | [], _ => rfl
  | g :: gs, h => by
    have h1 := eval3_defined isNull sem g (fun l hl => h l (by simp [Filter.leavesList, hl]))
    have h2 := evalAll3_defined isNull sem gs (fun l hl => h l (by simp [Filter.leavesList, hl]))
    simp [evalAll3, Filter.evalAll, h1, h2, and3_some]
theorem evalAny3_defined (isNull : Query.Op → String → Val → Bool) (sem : Query.Op → String → Val → Bool) :
    ∀ (fs : List Filter), (∀ l ∈ Filter.leavesList fs, isNull l.1 l.2.1 l.2.2 = false) →
      evalAny3 (fun op k v => if isNull op k v then none else some (sem op k v)) fs = some (Filter.evalAny sem fs)
  | [], _ => rfl
  | g :: gs, h => by
    have h1 := eval3_defined isNull sem g (fun l hl => h l (by simp [Filter.leavesList, hl]))
    have h2 := evalAny3_defined isNull sem gs (fun l hl => h l (by simp [Filter.leavesList, hl]))
    simp [evalAny3, Filter.evalAny, h1, h2, or3_some]
end

/-! ### folds -/

theorem foldl_congr_mem {α β : Type} (f g : β → α → β) (l : List α) (b : β)
    (h : ∀ b, ∀ a ∈ l, f b a = g b a) : l.foldl f b = l.foldl g b := by
  induction l generalizing b with
  | nil => rfl
  | cons a as ih =>
    simp only [List.foldl_cons]
    rw [h b a List.mem_cons_self]
    exact ih _ (fun b a' ha' => h b a' (List.mem_cons_of_mem _ ha'))

end Ledger.Reads
