import Ledger.Ctrl.Wire
import Ledger.Props.C08payload

/-! The export stream survives the wire when every payload embeds canonically
    (reuses `Ledger.C08payload.payload_decode_encode`). -/
namespace Ledger.Ctrl
open Ledger.Base Ledger.Core

theorem wireLog_id (enc : Payload → Ledger.Log.Payload) (dec : Ledger.Log.Payload → Option Payload)
    (hdec : ∀ p, dec (enc p) = some p) (l : Log) (hc : Ledger.Log.canonicalPayload (enc l.payload) = true) :
    wireLog enc dec l = some l := by
  unfold wireLog
  rw [Ledger.C08payload.payload_decode_encode _ hc]
  simp only [hdec, Option.map_some]

theorem wireStream_id (enc : Payload → Ledger.Log.Payload) (dec : Ledger.Log.Payload → Option Payload)
    (hdec : ∀ p, dec (enc p) = some p) (ls : List Log)
    (hc : ∀ l ∈ ls, Ledger.Log.canonicalPayload (enc l.payload) = true) :
    wireStream enc dec ls = some ls := by
  induction ls with
  | nil => rfl
  | cons l r ih =>
    simp only [wireStream, wireLog_id enc dec hdec l (hc l List.mem_cons_self),
      ih (fun x hx => hc x (List.mem_cons_of_mem _ hx))]

end Ledger.Ctrl
