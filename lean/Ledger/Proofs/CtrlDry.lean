import Ledger.Proofs.CtrlStep

/-!
A dry run gives the same answer as the real run (only `Commit` becomes `Rollback`).
-/
namespace Ledger.Ctrl
open Ledger.Base Ledger.Core

/-- The same request without the dry-run flag. -/
def Op.wet (op : Op) : Op := { op with dry := false }

theorem finish_resp_nofault (s : State) (st : RunSt) (h : String) (dry : Bool) (log : Log) :
    (finish s st h [] false dry log).resp = { log := some log } := by
  unfold finish
  cases dry with
  | true => rfl
  | false => rfl

/-- One attempt of the retry loop, dry versus not: the same failure, or the same answer. -/
theorem runTx_wet (strict : Bool) (op : Op) (s : State) (i tx : Nat) (seq : Seqs) (n : Nat) (trace : List String) :
    (∃ e seq' n' trace', runTx strict op.wet [] false s i tx seq n trace = .failed e seq' n' trace' ∧
        runTx strict op [] false s i tx seq n trace = .failed e seq' n' trace') ∨
    (∃ o o', runTx strict op.wet [] false s i tx seq n trace = .done o ∧
        runTx strict op [] false s i tx seq n trace = .done o' ∧ o.resp = o'.resp) := by
  unfold runTx
  simp only [fires_nil, Op.wet]
  generalize run op.now ("t" ++ toString tx) [] (runLog strict op.kind op.ik op.ihash op.sv i) _ = res
  obtain ⟨r, st1⟩ := res
  cases r with
  | error e =>
    simp only
    split
    · exact Or.inr ⟨_, _, rfl, rfl, rfl⟩
    · exact Or.inl ⟨_, _, _, _, rfl, rfl⟩
  | ok log =>
    simp only [Bool.false_eq_true, ↓reduceIte]
    cases op.dry with
    | true => exact Or.inr ⟨_, _, rfl, rfl, rfl⟩
    | false => exact Or.inr ⟨_, _, rfl, rfl, rfl⟩

theorem retryLoop_resp_wet (strict : Bool) (op : Op) (s : State) (fuel i tx : Nat) (seq : Seqs) (n : Nat)
    (trace : List String) :
    (retryLoop strict op.wet [] false s fuel i tx seq n trace).resp =
    (retryLoop strict op [] false s fuel i tx seq n trace).resp := by
  induction fuel generalizing i tx seq n trace with
  | zero => rfl
  | succ fuel ih =>
    unfold retryLoop
    rcases runTx_wet strict op s i tx seq n trace with ⟨e, seq', n', trace', h1, h2⟩ | ⟨o, o', h1, h2, hr⟩
    · rw [h1, h2]
      simp only
      split
      · exact ih _ _ _ _ _
      · rfl
    · rw [h1, h2]; exact hr

theorem forgeLog_resp_wet (strict : Bool) (op : Op) (s : State) :
    (forgeLog strict op.wet [] false s).resp = (forgeLog strict op [] false s).resp := by
  unfold forgeLog
  simp only [fires_nil, Op.wet]
  generalize run op.now "t1" [] (ikLookup op.ik op.ihash) _ = res1
  obtain ⟨r1, st1⟩ := res1
  cases r1 with
  | error e => rfl
  | ok lg =>
    cases lg with
    | some l => rfl
    | none =>
      simp only
      generalize run op.now "t1" [] (runLog strict op.kind op.ik op.ihash op.sv 1) st1 = res2
      obtain ⟨r2, st2⟩ := res2
      cases r2 with
      | error e =>
        simp only
        split
        · exact retryLoop_resp_wet strict op s _ _ _ _ _ _
        · rfl
      | ok log => simp only [finish_resp_nofault]

end Ledger.Ctrl
