import Ledger.Proofs.CtrlStep

/-!
A dry run gives the same answer as the real run (only `Commit` becomes `Rollback`).
-/
namespace Ledger.Ctrl
open Ledger.Base Ledger.Core

/-- The same request without the dry-run flag. -/
def Op.wet (op : Op) : Op := { op with dry := false }

theorem finish_resp_nofault (s : State) (st : RunSt) (h : String) (dry : Bool) (log : Log) :
    (finish s st h none false dry log).resp = { log := some log } := by
  unfold finish
  cases dry with
  | true => rfl
  | false => rfl

theorem retry_resp_wet (strict : Bool) (op : Op) (s : State) (st : RunSt) :
    (retry strict op.wet none false s st).resp = (retry strict op none false s st).resp := by
  unfold retry
  simp only [fires, Op.wet]
  generalize run op.now "t2" none (runLog strict op.kind op.ik op.ihash op.sv 2) _ = res
  obtain ⟨r, st1⟩ := res
  cases r with
  | error e => rfl
  | ok log => simp only [finish_resp_nofault, Option.isSome_none, Bool.false_eq_true, ↓reduceIte]

theorem forgeLog_resp_wet (strict : Bool) (op : Op) (s : State) :
    (forgeLog strict op.wet none false s).resp = (forgeLog strict op none false s).resp := by
  unfold forgeLog
  simp only [fires, Op.wet]
  generalize run op.now "t1" none (ikLookup op.ik op.ihash) _ = res1
  obtain ⟨r1, st1⟩ := res1
  cases r1 with
  | error e => rfl
  | ok lg =>
    cases lg with
    | some l => rfl
    | none =>
      simp only
      generalize run op.now "t1" none (runLog strict op.kind op.ik op.ihash op.sv 1) st1 = res2
      obtain ⟨r2, st2⟩ := res2
      cases r2 with
      | error e =>
        simp only
        split
        · exact retry_resp_wet strict op s _
        · rfl
      | ok log => simp only [finish_resp_nofault]

end Ledger.Ctrl
