import Ledger.Proofs.SqlSelectRows

/-!
# GROUP BY: LeanPG's grouping (`groupRowsBy`) and aggregated SELECT against pure list functions

Keys are typed: a key type `K` with decidable equality and a rendering `kv : K → List Value` on which the evaluator's grouping
equality `sameGroupKey` decides equality of `K`. The groups of a list are then, in first-appearance order of the keys, the
sub-lists of the rows with that key (`groupsOf`).
-/
namespace Ledger.Sql

/-! ### keys in first-appearance order -/

def firstKeysAux {K : Type} [DecidableEq K] (acc : List K) (k : K) : List K := if k ∈ acc then acc else acc ++ [k]

def firstKeys {K : Type} [DecidableEq K] (l : List K) : List K := l.foldl firstKeysAux []

theorem firstKeys_append_single {K : Type} [DecidableEq K] (l : List K) (k : K) :
    firstKeys (l ++ [k]) = if k ∈ firstKeys l then firstKeys l else firstKeys l ++ [k] := by
  unfold firstKeys
  rw [List.foldl_append]
  rfl

theorem foldl_firstKeysAux_mem {K : Type} [DecidableEq K] (k : K) : ∀ (l acc : List K),
    k ∈ l.foldl firstKeysAux acc ↔ (k ∈ acc ∨ k ∈ l) := by
  intro l
  induction l with
  | nil => intro acc; simp
  | cons x xs ih =>
    intro acc
    rw [List.foldl_cons, ih]
    unfold firstKeysAux
    by_cases hx : x ∈ acc
    · simp only [hx, if_true, List.mem_cons]
      constructor
      · rintro (h | h)
        · exact Or.inl h
        · exact Or.inr (Or.inr h)
      · rintro (h | h | h)
        · exact Or.inl h
        · subst h; exact Or.inl hx
        · exact Or.inr h
    · simp only [hx, if_false, List.mem_append, List.mem_cons, List.not_mem_nil, or_false]
      constructor
      · rintro ((h | h) | h)
        · exact Or.inl h
        · exact Or.inr (Or.inl h)
        · exact Or.inr (Or.inr h)
      · rintro (h | h | h)
        · exact Or.inl (Or.inl h)
        · exact Or.inl (Or.inr h)
        · exact Or.inr h

theorem mem_firstKeys {K : Type} [DecidableEq K] (k : K) (l : List K) : k ∈ firstKeys l ↔ k ∈ l := by
  unfold firstKeys
  rw [foldl_firstKeysAux_mem]
  simp

theorem foldl_firstKeysAux_nodup {K : Type} [DecidableEq K] : ∀ (l acc : List K), acc.Nodup → (l.foldl firstKeysAux acc).Nodup := by
  intro l
  induction l with
  | nil => intro acc h; exact h
  | cons x xs ih =>
    intro acc h
    rw [List.foldl_cons]
    apply ih
    unfold firstKeysAux
    by_cases hx : x ∈ acc
    · simp [hx, h]
    · simp only [hx, if_false]
      rw [List.nodup_append]
      refine ⟨h, by simp, ?_⟩
      intro a ha b hb
      simp only [List.mem_singleton] at hb
      subst hb
      intro e
      subst e
      exact hx ha

theorem nodup_firstKeys {K : Type} [DecidableEq K] (l : List K) : (firstKeys l).Nodup :=
  foldl_firstKeysAux_nodup l [] List.nodup_nil

/-! ### the pure image of `groupRowsBy` -/

def kIns {K α : Type} [DecidableEq K] (k : K) (row : α) : List (K × List α) → List (K × List α) × Bool
  | [] => ([], false)
  | (k', rows) :: rest =>
    if k = k' then ((k', row :: rows) :: rest, true) else ((k', rows) :: (kIns k row rest).1, (kIns k row rest).2)

def kStep {K α : Type} [DecidableEq K] (acc : List (K × List α)) (x : K × α) : List (K × List α) :=
  if (kIns x.1 x.2 acc).2 then (kIns x.1 x.2 acc).1 else (kIns x.1 x.2 acc).1 ++ [(x.1, [x.2])]

/-- with distinct keys, `kIns` conses the row onto the group of its key -/
theorem kIns_eq {K α : Type} [DecidableEq K] (k : K) (row : α) : ∀ (acc : List (K × List α)), (acc.map (·.1)).Nodup →
    kIns k row acc = (acc.map (fun g => if g.1 = k then (g.1, row :: g.2) else g), decide (k ∈ acc.map (·.1))) := by
  intro acc
  induction acc with
  | nil => intro _; rfl
  | cons g rest ih =>
    intro hnd
    obtain ⟨k', rows⟩ := g
    simp only [List.map_cons, List.nodup_cons] at hnd
    by_cases hk : k = k'
    · subst hk
      have hid : rest.map (fun g => if g.1 = k then (g.1, row :: g.2) else g) = rest := by
        conv => rhs; rw [← List.map_id rest]
        apply List.map_congr_left
        intro g hg
        have : g.1 ≠ k := by
          intro e; apply hnd.1; rw [← e]; exact List.mem_map.mpr ⟨g, hg, rfl⟩
        simp [this]
      simp [kIns, hid]
    · have hk' : ¬ k' = k := fun e => hk e.symm
      simp only [kIns, hk, if_false, ih hnd.2, List.map_cons, hk', List.mem_cons, false_or]

/-- the accumulated groups after a prefix `P`: keys in first-appearance order, members newest first -/
def accOf {K α : Type} [DecidableEq K] (P : List (K × α)) : List (K × List α) :=
  (firstKeys (P.map (·.1))).map (fun k => (k, ((P.filter (fun p => decide (p.1 = k))).map (·.2)).reverse))

theorem accOf_keys {K α : Type} [DecidableEq K] (P : List (K × α)) : (accOf P).map (·.1) = firstKeys (P.map (·.1)) := by
  simp [accOf, List.map_map, Function.comp_def]

theorem kStep_accOf {K α : Type} [DecidableEq K] (P : List (K × α)) (x : K × α) : kStep (accOf P) x = accOf (P ++ [x]) := by
  obtain ⟨k, row⟩ := x
  have hnd : ((accOf P).map (·.1)).Nodup := by rw [accOf_keys]; exact nodup_firstKeys _
  unfold kStep
  rw [kIns_eq k row (accOf P) hnd, accOf_keys]
  simp only [decide_eq_true_eq]
  by_cases hk : k ∈ firstKeys (P.map (·.1))
  · simp only [hk, if_true]
    unfold accOf
    rw [List.map_append, List.map_cons, List.map_nil, firstKeys_append_single]
    simp only [hk, if_true, List.map_map]
    apply List.map_congr_left
    intro k' _
    simp only [Function.comp, List.filter_append, List.map_append, List.reverse_append]
    by_cases e : k' = k
    · subst e; simp
    · have e' : ¬ k = k' := fun h => e h.symm
      simp [e, e']
  · simp only [hk, if_false]
    unfold accOf
    rw [List.map_append, List.map_cons, List.map_nil, firstKeys_append_single]
    simp only [hk, if_false, List.map_append, List.map_map, List.map_cons, List.map_nil]
    have hP : P.filter (fun p => decide (p.1 = k)) = [] := by
      rw [List.filter_eq_nil_iff]
      intro p hp
      simp only [decide_eq_true_eq]
      intro e
      apply hk
      rw [mem_firstKeys, ← e]
      exact List.mem_map.mpr ⟨p, hp, rfl⟩
    congr 1
    · apply List.map_congr_left
      intro k' hk'
      have e : ¬ k' = k := by intro h; subst h; exact hk hk'
      have e' : ¬ k = k' := fun h => e h.symm
      simp [Function.comp, List.filter_append, e, e']
    · simp [List.filter_append, hP]

theorem foldl_kStep {K α : Type} [DecidableEq K] : ∀ (tk P : List (K × α)), tk.foldl kStep (accOf P) = accOf (P ++ tk) := by
  intro tk
  induction tk with
  | nil => intro P; simp
  | cons x xs ih =>
    intro P
    rw [List.foldl_cons, kStep_accOf, ih]
    simp

/-- the groups of `rs` by `kf`: first-appearance order of the keys, members in input order -/
def groupsOf {K α : Type} [DecidableEq K] (kf : α → K) (rs : List α) : List (List α) :=
  (firstKeys (rs.map kf)).map (fun k => rs.filter (fun r => decide (kf r = k)))

theorem groupsOf_mem {K α : Type} [DecidableEq K] (kf : α → K) (rs : List α) (G : List α) (hG : G ∈ groupsOf kf rs) :
    ∃ k, k ∈ rs.map kf ∧ G = rs.filter (fun r => decide (kf r = k)) ∧ G ≠ [] := by
  obtain ⟨k, hk, rfl⟩ := List.mem_map.mp hG
  rw [mem_firstKeys] at hk
  refine ⟨k, hk, rfl, ?_⟩
  obtain ⟨r, hr, e⟩ := List.mem_map.mp hk
  intro h
  have : r ∈ rs.filter (fun r => decide (kf r = k)) := List.mem_filter.mpr ⟨hr, by simp [e]⟩
  rw [h] at this
  cases this

/-! ### `groupRowsBy` -/

def encG {K : Type} (kv : K → List Value) (g : K × List (List Scope)) : List Value × List (List Scope) := (kv g.1, g.2)

theorem groupRowsBy_ins_eq {K : Type} [DecidableEq K] (kv : K → List Value)
    (hsame : ∀ a b, sameGroupKey (kv a) (kv b) = .ok (decide (a = b))) (k : K) (row : List Scope) :
    ∀ (acc : List (K × List (List Scope))),
      groupRowsBy.ins (kv k) row (acc.map (encG kv)) = .ok ((kIns k row acc).1.map (encG kv), (kIns k row acc).2) := by
  intro acc
  induction acc with
  | nil => rfl
  | cons g rest ih =>
    obtain ⟨k', rows⟩ := g
    simp only [List.map_cons, encG, groupRowsBy.ins, hsame, bind, Except.bind, pure, Except.pure]
    by_cases hk : k = k'
    · subst hk
      simp [kIns, encG]
    · rw [if_neg (by simpa using hk)]
      rw [ih]
      simp [kIns, hk, encG]

/-- `groupRowsBy` on rows paired with typed keys -/
theorem groupRowsBy_pairs {K : Type} [DecidableEq K] (kv : K → List Value)
    (hsame : ∀ a b, sameGroupKey (kv a) (kv b) = .ok (decide (a = b))) (tk : List (K × List Scope)) :
    groupRowsBy (tk.map (fun p => (kv p.1, p.2))) =
      .ok ((firstKeys (tk.map (·.1))).map (fun k => (kv k, (tk.filter (fun p => decide (p.1 = k))).map (·.2)))) := by
  have hfold : ∀ (tk : List (K × List Scope)) (acc : List (K × List (List Scope))),
      (tk.map (fun p => (kv p.1, p.2))).foldlM (fun (acc : List (List Value × List (List Scope))) (x : List Value × List Scope) =>
        match x with
        | (k, row) => do
          let __x ← groupRowsBy.ins k row acc
          match __x with
            | (acc', found) => pure (if found = true then acc' else acc' ++ [(k, [row])])) (acc.map (encG kv)) =
        (.ok ((tk.foldl kStep acc).map (encG kv)) : R _) := by
    intro tk
    induction tk with
    | nil => intro acc; rfl
    | cons x xs ih =>
      intro acc
      obtain ⟨k, row⟩ := x
      simp only [List.map_cons, List.foldlM_cons, List.foldl_cons, groupRowsBy_ins_eq kv hsame, bind, Except.bind, pure, Except.pure]
      have : (if (kIns k row acc).2 = true then (kIns k row acc).1.map (encG kv)
          else (kIns k row acc).1.map (encG kv) ++ [(kv k, [row])]) = (kStep acc (k, row)).map (encG kv) := by
        unfold kStep
        cases (kIns k row acc).2 <;> simp [encG]
      rw [this]
      exact ih _
  unfold groupRowsBy
  have := hfold tk []
  simp only [List.map_nil] at this
  simp only [bind, Except.bind, pure, Except.pure] at this ⊢
  rw [this]
  have h2 := foldl_kStep tk []
  have h0 : accOf ([] : List (K × List Scope)) = [] := rfl
  rw [h0] at h2
  rw [h2]
  simp only [List.nil_append, accOf, List.map_map]
  congr 1
  apply List.map_congr_left
  intro k _
  simp [encG]

theorem groupRowsBy_eq {K : Type} [DecidableEq K] (kv : K → List Value)
    (hsame : ∀ a b, sameGroupKey (kv a) (kv b) = .ok (decide (a = b))) (kf : List Scope → K) (rs : List (List Scope)) :
    groupRowsBy (rs.map (fun L => (kv (kf L), L))) = .ok ((groupsOf kf rs).map (fun G => (kv (kf (G.headD [])), G))) := by
  have hfold : ∀ (tk : List (K × List Scope)) (acc : List (K × List (List Scope))),
      (tk.map (fun p => (kv p.1, p.2))).foldlM (fun (acc : List (List Value × List (List Scope))) (x : List Value × List Scope) =>
        match x with
        | (k, row) => do
          let __x ← groupRowsBy.ins k row acc
          match __x with
            | (acc', found) => pure (if found = true then acc' else acc' ++ [(k, [row])])) (acc.map (encG kv)) =
        (.ok ((tk.foldl kStep acc).map (encG kv)) : R _) := by
    intro tk
    induction tk with
    | nil => intro acc; rfl
    | cons x xs ih =>
      intro acc
      obtain ⟨k, row⟩ := x
      simp only [List.map_cons, List.foldlM_cons, List.foldl_cons, groupRowsBy_ins_eq kv hsame, bind, Except.bind, pure, Except.pure]
      have : (if (kIns k row acc).2 = true then (kIns k row acc).1.map (encG kv)
          else (kIns k row acc).1.map (encG kv) ++ [(kv k, [row])]) = (kStep acc (k, row)).map (encG kv) := by
        unfold kStep
        cases (kIns k row acc).2 <;> simp [encG]
      rw [this]
      exact ih _
  have e1 : rs.map (fun L => (kv (kf L), L)) = (rs.map (fun L => (kf L, L))).map (fun p => (kv p.1, p.2)) := by
    simp [List.map_map, Function.comp]
  unfold groupRowsBy
  rw [e1]
  have := hfold (rs.map (fun L => (kf L, L))) []
  simp only [List.map_nil] at this
  simp only [bind, Except.bind, pure, Except.pure] at this ⊢
  rw [this]
  have h2 := foldl_kStep (rs.map (fun L => (kf L, L))) []
  have h0 : accOf ([] : List (K × List Scope)) = [] := rfl
  rw [h0] at h2
  rw [h2]
  simp only [List.nil_append, accOf, groupsOf, List.map_map]
  congr 1
  apply List.map_congr_left
  intro k hk
  rw [mem_firstKeys] at hk
  simp only [List.map_map, Function.comp] at hk ⊢
  simp only [encG, List.reverse_reverse]
  have hm : (rs.map (fun L => (kf L, L))).filter (fun p => decide (p.1 = k)) = (rs.filter (fun r => decide (kf r = k))).map (fun L => (kf L, L)) := by
    rw [List.filter_map]; rfl
  rw [hm]
  obtain ⟨r, hr, e⟩ := List.mem_map.mp hk
  have hne : rs.filter (fun r => decide (kf r = k)) ≠ [] := by
    intro h
    have : r ∈ rs.filter (fun r => decide (kf r = k)) := List.mem_filter.mpr ⟨hr, by simpa using e⟩
    rw [h] at this
    cases this
  cases hf : rs.filter (fun r => decide (kf r = k)) with
  | nil => exact absurd hf hne
  | cons a as =>
    have : a ∈ rs.filter (fun r => decide (kf r = k)) := by rw [hf]; simp
    have := (List.mem_filter.mp this).2
    simp only [decide_eq_true_eq] at this
    simp [this, Function.comp_def]

/-! ### `sum` over integers -/

theorem applyAggregate_sum_int {β : Type} (f : β → Int) (xs : List β) (hne : xs ≠ []) :
    applyAggregate "sum" false false (xs.map (fun x => [Value.int (f x)])) = .ok (.int ((xs.map f).foldl (· + ·) 0)) := by
  have hfold : ∀ (F : Int → Value → R Int), (∀ acc n, F acc (.int n) = .ok (acc + n)) → ∀ (ys : List β) (acc : Int),
      (ys.map (fun x => Value.int (f x))).foldlM F acc = .ok ((ys.map f).foldl (· + ·) acc) := by
    intro F hF ys
    induction ys with
    | nil => intro acc; rfl
    | cons y ys ih =>
      intro acc
      simp only [List.map_cons, List.foldlM_cons, List.foldl_cons, hF, bind, Except.bind]
      exact ih _
  unfold applyAggregate
  have h1 : (("sum" : String) == "count") = false := by decide
  have hmap : (xs.map (fun x => [Value.int (f x)])).map (fun r => r.headD Value.null) = xs.map (fun x => Value.int (f x)) := by
    simp [List.map_map, Function.comp]
  have hflt : (xs.map (fun x => Value.int (f x))).filter (fun v => !v.isNull) = xs.map (fun x => Value.int (f x)) := by
    apply List.filter_eq_self.mpr
    intro v hv
    obtain ⟨x, _, rfl⟩ := List.mem_map.mp hv
    rfl
  have hemp : (xs.map (fun x => Value.int (f x))).isEmpty = false := by
    cases xs with
    | nil => exact absurd rfl hne
    | cons a as => rfl
  simp only [h1, Bool.false_eq_true, if_false, hmap, hflt, hemp, bind, Except.bind, pure, Except.pure]
  rw [hfold _ (fun acc n => rfl)]

/-! ### aggregated SELECT -/

/-- the output row of a unit (representative input row, group) -/
def outRowOfU (proj : List (List Scope) → List Value) (u : List Scope × Option (List (List Scope))) : OutRow :=
  { vals := proj (u.2.getD []), srcs := u.1.filterMap (·.src), locals := u.1, group := u.2, wins := [] }

/-- the output row of a group -/
def outRowOfG (proj : List (List Scope) → List Value) (G : List (List Scope)) : OutRow := outRowOfU proj (G.headD [], some G)

/-- `SELECT e₁ [AS a₁], … FROM … WHERE c GROUP BY col₁, … ORDER BY …` (group columns = input columns; no HAVING, windows, DISTINCT)
    over ANY input rows: filter, group by the typed key, project every group, sort. -/
theorem exec_evalSelect_group {K : Type} [DecidableEq K] (n : Nat) (env : Env) (es : List (Expr × String)) (from_ : List FromItem)
    (wher : Expr) (gcols : List String) (hg : gcols ≠ []) (order : List OrderItem) (s : St) (Ls : List (List Scope))
    (w : List Scope → Bool) (kf : List Scope → K) (kv : K → List Value) (proj : List (List Scope) → List Value)
    (hfrom : (evalFromList n env from_ [[]]).exec s = (.ok Ls, s))
    (hwhere : ∀ L ∈ Ls, (do
        let v ← evalExpr (cbs n) s.w.types { env with locals := L } wher
        pure ((← liftR v.truth) == some true)).exec s = (.ok (w L), s))
    (hgin : ∀ L ∈ Ls, ∀ c ∈ gcols, (lookupUnqualified (L ++ env.outer) c).isSome = true)
    (hkey : ∀ L ∈ Ls, w L = true →
      (evalExprs (cbs n) s.w.types { env with locals := L } (gcols.map (Expr.col ""))).exec s = (.ok (kv (kf L)), s))
    (hsame : ∀ a b, sameGroupKey (kv a) (kv b) = .ok (decide (a = b)))
    (hwin : Expr.winsList (es.map (·.1)) ++ Expr.winsList (order.map OrderItem.exprOf) = [])
    (hproj : ∀ G ∈ groupsOf kf (Ls.filter w),
      (evalExprs (cbs n) s.w.types { env with locals := G.headD [], group := some G, wins := [] } (es.map (·.1))).exec s = (.ok (proj G), s))
    (sorted : List OutRow) (tie : Bool)
    (hsort : (sortOut n env (outNames es) ((groupsOf kf (Ls.filter w)).map (outRowOfG proj)) order).exec s = (.ok (outNames es, sorted), s.tie tie)) :
    (evalSelect (n + 1) env (Select.mk false [] (es.map (fun p => SelItem.expr p.1 p.2)) from_ (some wher) (gcols.map (Expr.col "")) none) order).exec s =
      (.ok (outNames es, sorted), s.tie tie) := by
  have hF : ∀ (F : (List String × List Expr) → SelItem → M (List String × List Expr))
      (hF : ∀ acc e a s, (F acc (.expr e a)).exec s = (.ok (acc.1 ++ [if a.isEmpty then exprOutName e else a], acc.2 ++ [e]), s)),
      ((es.map (fun p => SelItem.expr p.1 p.2)).foldlM F ([], [])).exec s = (.ok (outNames es, es.map (·.1)), s) := by
    intro F hF
    have := exec_foldlM_exprItems F hF es ([], []) s
    simpa using this
  have hgE : ∀ (f : Expr → Expr), (∀ c ∈ gcols, f (Expr.col "" c) = Expr.col "" c) →
      (gcols.map (Expr.col "")).map f = gcols.map (Expr.col "") := by
    intro f hf
    rw [List.map_map]
    apply List.map_congr_left
    intro c hc
    exact hf c hc
  have hne : (gcols.map (Expr.col "")).isEmpty = false := by
    cases gcols with
    | nil => exact absurd rfl hg
    | cons a as => rfl
  have hfilter := exec_filterM _ w Ls s hwhere
  rw [evalSelect]
  simp only [exec_bind, exec_typeEnv, hfrom, hfilter]
  rw [hF _ (by intro acc e a s'; rfl)]
  simp only [hne, Bool.not_false, Bool.true_or, if_true, exec_bind]
  rw [hgE]
  · simp only [hne, Bool.false_eq_true, if_false, exec_bind]
    rw [exec_mapM_pure _ (fun L => (kv (kf L), L))]
    · simp only [groupRowsBy_eq kv hsame kf (Ls.filter w), exec_liftR_ok, exec_pure, hwin, List.foldlM_nil, exec_bind, List.map_map]
      rw [exec_mapM_pure _ (fun (x : Nat × List Scope × Option (List (List Scope))) => outRowOfU proj x.2)]
      · have hmz := map_zip_range (List.map ((fun (x : List Value × List (List Scope)) => (x.2.headD [], some x.2)) ∘
            fun G => (kv (kf (G.headD [])), G)) (groupsOf kf (Ls.filter w))) (outRowOfU proj)
        rw [hmz]
        simp only [List.map_map]
        have hfe : (outRowOfU proj ∘ (fun (x : List Value × List (List Scope)) => (x.2.headD [], some x.2)) ∘
            fun G => (kv (kf (G.headD [])), G)) = outRowOfG proj := by funext G; rfl
        rw [hfe]
        simp only [hsort, List.isEmpty_nil, Bool.not_true, Bool.false_eq_true, if_false, exec_bind, exec_pure]
      · intro x hx
        obtain ⟨i, u⟩ := x
        have hx2 := List.of_mem_zip hx
        obtain ⟨G, hG, hxe⟩ := List.mem_map.mp hx2.2
        subst hxe
        have hp := hproj G hG
        simp only [Function.comp, List.map_nil, exec_bind, hp, exec_pure]
        rfl
    · intro L hL
      have hLm := List.mem_filter.mp hL
      simp only [exec_bind, hkey L hLm.1 hLm.2, exec_pure]
  · intro c hc
    cases hLs : Ls with
    | nil => simp
    | cons L rest =>
      have := hgin L (by rw [hLs]; simp) c hc
      simp [this]

end Ledger.Sql
